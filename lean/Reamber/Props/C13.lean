/-
C13 — Rate change scales time uniformly, composes, and survives a write.
Property theorems about the executable model `Reamber/Model/Rate.lean` (Map.rate through Map.Stacker, MapSet.rate,
OsuMap.rate, SMMapSet.rate), stated against `Reamber/Spec/Rate.lean`.  The correspondence check
(harness/props/c13.py) ties the model to the code on every run and evaluates the same `setScalesB` on the
implementation's output.
-/
import Reamber.Lemmas.RateStack
import Reamber.Lemmas.RateLaws
import Reamber.Generated.RateSchema
import Reamber.Spec.Timing
import Reamber.Lemmas.RateFormats
import Reamber.Lemmas.RateSMWrite
import Reamber.Lemmas.RateSMFull
import Reamber.Lemmas.RateSMBridge
import Reamber.Lemmas.RateBMS
import Reamber.Lemmas.RateBMSDec
import Reamber.Props.C01
import Reamber.Props.C06

namespace Reamber.Rate

/-! ## lists: `Map.rate` through the stacker = one declarative pass -/

/-- **rate_scales (lists)**: for the lists of any map (all three columns present somewhere, numeric where present,
well-formed frames) and any `r ≠ 0`, `Map.rate` — concat, three column assignments each followed by `_update` —
returns every list with every `offset` and `length` divided by `r`, every `bpm` multiplied by `r`, every other cell,
the columns, the number and the order of rows unchanged.  Lists with no rows are covered (no hypothesis on sizes). -/
theorem rateLists_scales (r : Rat) (fs : List Frame) (hok : listsOk fs = true) (hr : r ≠ 0) :
    rateLists r fs = .ok (fs.map (scaleFrame r)) := by
  simp only [listsOk, Bool.and_eq_true, List.all_eq_true] at hok
  obtain ⟨⟨⟨⟨hwf, hnum⟩, ho⟩, hb⟩, hl⟩ := hok
  have num : ∀ c, c ∈ ["offset", "bpm", "length"] → ∀ f ∈ fs, ∀ row ∈ f.rows, (lookupCell f.cols row c).numeric = true := by
    intro c hc f hf row hrow
    have := hnum f hf
    simp only [Frame.numericCols, List.all_eq_true] at this
    exact this c hc _ (by simp only [Frame.col, List.mem_map]; exact ⟨row, hrow, rfl⟩)
  obtain ⟨s1, e1, st1, _⟩ := (Stage.init fs).step "offset" (Cell.div r) (hasCol_mem_union fs _ ho)
    (fun f hf row hrow => num "offset" (by simp) f hf row hrow) hwf
  obtain ⟨s2, e2, st2, _⟩ := st1.step "bpm" (Cell.mul r) (hasCol_mem_union fs _ hb)
    (fun f hf row hrow => by simpa using num "bpm" (by simp) f hf row hrow) hwf
  obtain ⟨s3, e3, _, u3⟩ := st2.step "length" (Cell.div r) (hasCol_mem_union fs _ hl)
    (fun f hf row hrow => by simpa using num "length" (by simp) f hf row hrow) hwf
  unfold rateLists
  simp only [hr, if_false, e1, e2, e3, bind, Except.bind, pure, Except.pure]
  rw [u3]
  congr 1
  apply List.map_congr_left
  intro f _
  simp only [scaleFrame]
  congr 1
  apply List.map_congr_left
  intro row _
  rw [scaleRow_eq_mapAll]
  apply mapAll_congr
  intro k v
  rw [← rateFn_eq_scaleCell]
  unfold rateFn
  by_cases h1 : k = "offset" <;> by_cases h2 : k = "bpm" <;> by_cases h3 : k = "length" <;> simp [h1, h2, h3]

/-! ## tie to the source (re-checked whenever the generated schema changes) -/

open Generated.RateSchema in
/-- What model and specification assume about the source holds for the schema the translator read from it:
every game's map has an `offset`, a `bpm` and a `length` column somewhere (so `stack.offset/bpm/length` never raise
KeyError, also on empty lists); every column of every list is classified (time / duration / tempo / other) — a new
column breaks this proof until it is classified; the osu sample events have `offset` and neither `length` nor `bpm`;
`Map.Stacker._props` exposes the three columns; every file-level field of `OsuMap` and `SMMapSet` is classified, the
time-like ones being exactly the ones the model scales; and exactly `Map`, `MapSet`, `OsuMap`, `SMMapSet` define
`rate` (the model's dispatch). -/
theorem schema_tie :
    (mapLists.all fun g => ["offset", "bpm", "length"].all fun c => g.2.any fun l => l.2.contains c) = true ∧
    (mapLists.all fun g => g.2.all fun l => l.2.all fun c =>
        (timeCols ++ durCols ++ bpmCols ++ otherCols).contains c) = true ∧
    (mapLists.map (·.1)) = ["base", "osu", "qua", "sm", "bms", "o2j"] ∧
    (osuSampleCols.contains "offset" && !osuSampleCols.contains "length" && !osuSampleCols.contains "bpm" &&
        osuSampleCols.all fun c => (timeCols ++ otherCols).contains c) = true ∧
    (["offset", "bpm", "length"].all fun c => stackerProps.contains c) = true ∧
    osuMapFields.filter (fun f => !osuOtherFields.contains f) = osuTimeFields ∧
    smSetFields.filter (fun f => !smOtherFields.contains f) = smTimeFields ∧
    rateOverrides = ["Map", "MapSet", "OsuMap", "SMMapSet"] := by decide +kernel

/-! ## one map, one map set -/

/-- `samples.offset /= by` on the osu sample events is the declarative scaling of that list -/
theorem divCol_samples (r : Rat) (sm : Frame) (h : samplesOk sm = true) :
    sm.divCol "offset" r = .ok (scaleFrame r sm) := by
  simp only [samplesOk, Bool.and_eq_true, Bool.not_eq_true', List.contains_eq_mem, decide_eq_true_eq,
    decide_eq_false_iff_not] at h
  obtain ⟨⟨⟨⟨_, ho⟩, hn⟩, hl⟩, hb⟩ := h
  have hc : sm.arithCheck "offset" = .ok () := by
    unfold Frame.arithCheck
    simp [ho, hn]
  simp only [Frame.divCol, hc, bind, Except.bind, Frame.mapCol, scaleFrame]
  congr 2
  apply List.map_congr_left
  intro row _
  exact mapAt_offset_eq_scaleRow r sm.cols row hl hb

/-- **rate_scales (one map)**: `m.rate(r)` of any game's map class = the declarative result: every list scaled,
for osu also the sample events and the preview point; every other field (`extra`) unchanged. -/
theorem rateChart_scales (g : Game) (r : Rat) (c : Chart) (hok : chartOk g c = true) (hr : r ≠ 0) :
    rateChart g r c = .ok (scaleChart g r c) := by
  simp only [chartOk, Bool.and_eq_true] at hok
  obtain ⟨hl, hx⟩ := hok
  unfold rateChart
  simp only [rateLists_scales r _ hl hr, bind, Except.bind, withFrames_map]
  by_cases hg : g = .osu
  · subst hg
    simp only [if_true] at hx
    cases hs : c.samples with
    | none => simp [hs] at hx
    | some sm =>
      cases hp : c.preview with
      | none => simp [hs, hp] at hx
      | some pv =>
        simp only [hs, hp] at hx
        simp only [hs, hp, divCol_samples r sm hx, bind, Except.bind, scaleChart, if_true, Option.map_some,
          ratePreview_eq]
  · cases g <;> simp_all [scaleChart]

/-- **rate_scales (map set)** — the full statement of the first sentence of C13 for the model: for every map set
of every game (`k` = `MapSet`/`O2JMapSet` or `SMMapSet`, `g` = the class of its maps), any number of maps, any list
sizes including empty hold / SV / sample lists, and every `r ≠ 0` (the property quantifies over `r > 0`):
`rate r` returns the set in which every time and duration is divided by `r`, every tempo multiplied by `r`, the
StepMania file offset and sample window divided by `r`, and all other fields are unchanged.  (The original is
untouched because the model is a pure function; for the code that is `deepcopy`, observed by the harness.) -/
theorem rateSet_scales (k : SetKind) (g : Game) (r : Rat) (s : MapSet) (hok : setOk k g s = true) (hr : r ≠ 0) :
    rateSet k g r s = .ok (scaleSet k g r s) := by
  simp only [setOk, Bool.and_eq_true, List.all_eq_true] at hok
  obtain ⟨hm, hk⟩ := hok
  unfold rateSet
  rw [mapE_ok_map (rateChart g r) (scaleChart g r) s.maps (fun c hc => rateChart_scales g r c (hm c hc) hr)]
  simp only [bind, Except.bind]
  cases k with
  | base => simp [scaleSet]
  | sm =>
    simp only [if_true, Bool.and_eq_true] at hk
    obtain ⟨hs, hl⟩ := hk
    obtain ⟨ss, hs⟩ := Option.isSome_iff_exists.mp hs
    obtain ⟨sl, hl⟩ := Option.isSome_iff_exists.mp hl
    simp [hr, hs, hl, divOpt, scaleSet, bind, Except.bind]

/-- the specification the harness evaluates on the implementation's output accepts the model's output (ε = 0) -/
theorem rateSet_spec (k : SetKind) (g : Game) (r : Rat) (s out : MapSet) (hok : setOk k g s = true) (hr : r ≠ 0)
    (h : rateSet k g r s = .ok out) : setScalesB 0 k g r s out = true := by
  rw [rateSet_scales k g r s hok hr] at h
  cases h
  exact closeSet_refl _

/-- **rate_one**: rate 1 is the identity -/
theorem rate_one (k : SetKind) (g : Game) (s : MapSet) (hok : setOk k g s = true) : rateSet k g 1 s = .ok s := by
  rw [rateSet_scales k g 1 s hok (by decide), scaleSet_one]

/-- **rate_comp**: rate `a` then rate `b` equals rate `a * b` (exact in ℚ), for all `a, b > 0` (the property's
quantifier; with `a > 0` an osu preview point stays a preview point, so the marker rule composes) -/
theorem rate_comp (k : SetKind) (g : Game) (a b : Rat) (s : MapSet) (hok : setOk k g s = true)
    (ha : 0 < a) (hb : 0 < b) :
    (rateSet k g a s >>= rateSet k g b) = rateSet k g (a * b) s := by
  rw [rateSet_scales k g a s hok (ne_of_gt ha), rateSet_scales k g (a * b) s hok (ne_of_gt (mul_pos ha hb))]
  show rateSet k g b (scaleSet k g a s) = _
  rw [rateSet_scales k g b _ (setOk_scale k g a s hok) (ne_of_gt hb), scaleSet_comp k g ha]

/-- corollary: rating back by `1 / r` restores the chart -/
theorem rate_inverse (k : SetKind) (g : Game) (r : Rat) (s : MapSet) (hok : setOk k g s = true) (hr : 0 < r) :
    (rateSet k g r s >>= rateSet k g (1 / r)) = .ok s := by
  rw [rate_comp k g r (1 / r) s hok hr (by positivity), mul_one_div_cancel (ne_of_gt hr), rate_one k g s hok]

/-- the Boolean specification at ε = 0 is the declarative statement, column by column: if `frameScales` accepts
`out` for `inp`, then `out` has the columns of `inp` and each column is the scaled column (row order kept) -/
theorem frame_spec_sound (r : Rat) (inp out : Frame) (h : closeFrame 0 (scaleFrame r inp) out = true) :
    (∀ c, c ∈ inp.cols ↔ c ∈ out.cols) ∧ out.rows.length = inp.rows.length ∧
    ∀ c ∈ inp.cols, out.col c = (inp.col c).map (scaleCell r c) := by
  obtain ⟨h1, h2, h3⟩ := closeFrame_zero h
  refine ⟨h1, by simpa [scaleFrame] using h2.symm, fun c hc => ?_⟩
  rw [← h3 c hc, col_scaleFrame]

/-! ## survives a write — the part that is provable without the writers' models

Full statement ([M] `rate_write_read` of DESIGN §6): for each writable game,
`denote (write (rate r c)) = rate r (denote (write c))`.  It needs the writer / reader models of C01, C03, C05, C06
(`denote ∘ write = id` on representable charts), which are other properties' and not available here.  What is proved
below is the tempo-map half, on the shared declarative semantics `Timing.timeAt` (the reading of StepMania `#OFFSET`
+ `#BPMS` + note positions, of BMS measures, of O2Jam packages): a file whose initial offset is `t0 / r` and whose
tempos are all multiplied by `r` places **every** position at `1/r` of its former time.  That is exactly what
`SMMapSet.rate` must establish between the file-level `offset` and the maps (D04), and it fails if `offset` is left
unscaled (`d04_offset_must_scale`).  The write → read claim itself is checked on the implementation only. -/

open Timing in
/-- **rate_write_read_partial** (tempo-map half of "survives a write"): with the initial offset divided by `r`
and every tempo multiplied by `r`, every snap position is read at `1/r` of its former time — for all tempo lists,
all snaps, all `r` (the positions in beats are untouched by a rate change). -/
theorem rate_write_read_partial (r t0 : Rat) (cs : List BcSnap) (s : Snap) :
    timeAt (t0 / r) (cs.map (rateBc r)) s = timeAt t0 cs s / r := by
  cases cs with
  | nil => simp [timeAt]
  | cons c rest => simpa [timeAt] using timeAtAux_rate r rest t0 c s

open Timing in
/-- D04 (fixed in /repo, `fix:` b2f8d95): with the file offset left unscaled the written file does not denote the
rated timeline — offset 1000 ms, 120 bpm, rate 2: the note on beat 1 belongs at 750 ms, the file says 1250 ms. -/
theorem d04_offset_must_scale :
    timeAt 1000 ([⟨120, 4, ⟨0, 0, some 4⟩⟩].map (rateBc 2)) ⟨0, 1, some 4⟩ ≠
      timeAt 1000 [⟨120, 4, ⟨0, 0, some 4⟩⟩] ⟨0, 1, some 4⟩ / 2 := by decide +kernel

/-! ## survives a write — Quaver and osu, by composition with the writers' theorems (C06, C01)

`encQua` / `encOsu` present a typed chart of the format models as the frames the library holds (`objs`, sample
events, preview point); `scaleQua` / `scaleOsu` are the rated charts row by row. -/

/-- **rate_write_read_qua**: for every Quaver chart with well-formed metadata and list-valued key sounds (the
hypotheses of `qua_write_denotes`: D08 open) and every `r ≠ 0`: `QuaMap.rate(r)` returns the rated chart, that chart
can be written, and the by-the-book denotation of the written document is the rated chart with every time truncated
to whole milliseconds — every time of the rated timeline is read back moved by less than 1 ms, tempos, SV multipliers,
lanes, key sounds and metadata exactly (`closeChart`). -/
theorem rate_write_read_qua (r : Rat) (c : Qua.Chart) (hr : r ≠ 0) (hm : Qua.MetaOk c.info)
    (hk : Qua.Spec.ksLists c = true) :
    rateChart .qua r (encQua c) = .ok (encQua (scaleQua r c)) ∧
    ∃ d, Qua.write (scaleQua r c) = .ok d ∧
      Qua.Spec.denote d = .ok (Qua.Spec.quantize (scaleQua r c)) ∧
      Qua.Spec.closeChart (scaleQua r c) (Qua.Spec.quantize (scaleQua r c)) = true := by
  refine ⟨by rw [rateChart_scales .qua r _ (chartOk_encQua c) hr, scaleChart_encQua], ?_⟩
  have hm' : Qua.MetaOk (scaleQua r c).info := hm
  have hk' : Qua.Spec.ksLists (scaleQua r c) = true := by
    simpa [Qua.Spec.ksLists, scaleQua, List.all_map, Function.comp_def] using hk
  have hw : ∃ d, Qua.write (scaleQua r c) = .ok d := by
    unfold Qua.write
    rw [Qua.writeMeta_ok _ hm']
    exact ⟨_, rfl⟩
  obtain ⟨d, hd⟩ := hw
  exact ⟨d, hd, Qua.qua_write_denotes (scaleQua r c) d hm' hk' hd⟩

/-- **rate_write_read_osu** — the whole file.  For every osu chart — with a preview point or with the "no preview
point" marker (`PreviewTime < 0`, kept as it is since the repair D41) — that satisfies C01's hypotheses (key count 1..256, lanes inside it,
hit-sound / sample file names without separators, whole-number AudioLeadIn / BeatDivisor / GridSize, the renderer
hypotheses `BpmOk2` / `SvOk2` / `NumOk` on the floats actually written for the rated chart) and every `r ≠ 0`:
`OsuMap.rate(r)` returns the rated chart, and reading the text `"\n".join(write())` of the rated chart gives the rated
chart quantised by the format — hit, hold and sample-event times and the preview point truncated to whole milliseconds
(each moves by less than 1 ms), tempo points and SVs at their exact rated times and values, everything else as C01's
`quantize` says.  In particular the file's `PreviewTime` is `trunc (PreviewTime / r)` for a preview point and stays
`-1` for the marker (`write()` emits `PreviewTime: -1`), and its sample events are the rated sample events truncated.  Composition of `rateChart_scales` with C01's `read_writeText`. -/
theorem rate_write_read_osu (R : Osu.Render) (r : Rat) (c : Osu.Chart) (hr : r ≠ 0)
    (hk : 0 < Osu.pyTrunc c.md.circleSize) (hk' : Osu.pyTrunc c.md.circleSize ≤ 256)
    (hhits : ∀ h ∈ c.hits, Osu.ObjOk2 (Osu.pyTrunc c.md.circleSize) (.hit h))
    (hholds : ∀ h ∈ c.holds, Osu.ObjOk2 (Osu.pyTrunc c.md.circleSize) (.hold h))
    (hb : ∀ b ∈ (scaleOsu r c).bpms, Osu.BpmOk2 R b) (hs : ∀ b ∈ (scaleOsu r c).svs, Osu.SvOk2 R b)
    (hm : Osu.MetaOk R c.md) (hnl : ∀ tl ∈ Osu.writeMeta (scaleOsu r c).md, ∀ t ∈ tl, '\n' ∉ R.tok t) :
    rateChart .osu r (encOsu c) = .ok (encOsu (scaleOsu r c)) ∧
    Osu.readText (Osu.writeText R (scaleOsu r c)) = .ok (Osu.quantize R.uni (scaleOsu r c)) ∧
    (Osu.quantize R.uni (scaleOsu r c)).md.previewTime = (Osu.pyTrunc (scalePreview r c.md.previewTime) : Rat) ∧
    (c.md.previewTime = -1 → (Osu.quantize R.uni (scaleOsu r c)).md.previewTime = -1) ∧
    (Osu.quantize R.uni (scaleOsu r c)).md.samples =
      c.md.samples.map (fun s => Osu.qSample { s with offset := s.offset / r }) := by
  refine ⟨by rw [rateChart_scales .osu r _ (chartOk_encOsu c) hr, scaleChart_encOsu r c], ?_, rfl, ?_, ?_⟩
  · apply Osu.read_writeText R (scaleOsu r c) hk hk'
    · intro h hh
      simp only [scaleOsu, List.mem_map] at hh
      obtain ⟨h0, hh0, rfl⟩ := hh
      exact hhits h0 hh0
    · intro h hh
      simp only [scaleOsu, List.mem_map] at hh
      obtain ⟨h0, hh0, rfl⟩ := hh
      exact hholds h0 hh0
    · exact hb
    · exact hs
    · obtain ⟨m1, m2, m3, m4, m5, m6, m7, m8, m9, m10, m11, m12, m13⟩ := hm
      refine ⟨m1, m2, m3, m4, m5, m6, m7, m8, m9, m10, m11, m12, ?_⟩
      intro s hs'
      simp only [scaleOsu, List.mem_map] at hs'
      obtain ⟨s0, hs0, rfl⟩ := hs'
      exact m13 s0 hs0
    · exact hnl
  · intro h1
    show ((Osu.pyTrunc (scalePreview r c.md.previewTime) : Int) : Rat) = -1
    rw [h1]
    have : scalePreview r (-1) = -1 := by simp [scalePreview]
    rw [this]
    decide +kernel
  · simp [Osu.quantize, Osu.qMeta, scaleOsu, List.map_map, Function.comp_def]

/-! ### StepMania — the file of the rated set (composition with C03's writer model and C10's `beats_run_exact`) -/

open SM in
/-- **rate_write_read_sm_partial**.  `rateHdr` / `rateW` are the rated file-level fields and charts as `SMMapSet.rate`
leaves them (offset, sample start, sample length, every object time and length divided by `r`, every tempo multiplied
by `r`).  For every set whose charts are in C03's / C10's domain (`WChartOk`: tempo list = stored form of a tempo-change
list with the 4-beat metronome, object and tempo times on the snap grid) and every `r > 0`:

1. `SMMapSet.write` of the rated set is the file of the original set with `#OFFSET`, `#SAMPLESTART`, `#SAMPLELENGTH`
   divided by `r` and every `#BPMS` tempo multiplied by `r`; the `#BPMS` beats, every note row of every chart, the string
   tags and `#SELECTABLE` are identical (`TimingMap.beats` as executed is invariant under the rate change: `beats_rate`);
2. read by the book (`SM.timeOfBeat`: integrate beat length over the `#BPMS` segments from `−1000·#OFFSET`), that header
   places every beat at `1/r` of the time the original header gives it — so every note, hold end and tempo point of
   the written rated file denotes the rated time;
3. the sample window of the file is the rated one.

_partial_: what is missing for `denote (writeText (rate r ms)) = rate r ms` is C03's own missing part (text of the
header lines); the rest of the chain is `rate_write_read_sm` (composition with C03's `write_read_exact`) and
`rateSet_sm_typed` (the frame-level bridge from `rateSet .sm`).  This theorem is the `Written`-level piece: it is the
one that speaks about `SMMapSet.write` itself and about `#SAMPLESTART` / `#SAMPLELENGTH`. -/
theorem rate_write_read_sm_partial {r : Rat} (hr : 0 < r) (h : WHeader) (charts : List WChart)
    (hok : ∀ c ∈ charts, WChartOk c) :
    SM.write (rateHdr r h) (charts.map (rateW r)) = (SM.write h charts).map (rateWritten r) ∧
    (∀ (w : Written) (beat : Rat),
        timeOfBeat (rateWritten r w).offsetSec (rateWritten r w).bpms beat = timeOfBeat w.offsetSec w.bpms beat / r) ∧
    (∀ w : Written, (rateWritten r w).sampleStartSec = w.sampleStartSec / r ∧
        (rateWritten r w).sampleLengthSec = w.sampleLengthSec / r ∧ (rateWritten r w).charts = w.charts) := by
  refine ⟨sm_write_rate hr h charts hok, ?_, fun w => ⟨rfl, rfl, rfl⟩⟩
  intro w beat
  simp only [timeOfBeat, rateWritten, changesOf_rate]
  have : -(1000 * (w.offsetSec / r)) = -(1000 * w.offsetSec) / r := by ring
  rw [this]
  exact rate_write_read_partial r _ _ _

open SM in
/-- **rateSet_sm_typed** — the frame-level bridge for StepMania: `SMMapSet.rate` (the model `rateSet .sm .sm` on the
frames the library holds: the nine lists of every `SMMap`, `offset`, `sample_start`, `sample_length`) is `rateHdr` /
`rateW` on the set as C03's writer sees it.  So `rate_write_read_sm_partial` and `rate_write_read_sm` speak about what
the modelled code returns. -/
theorem rateSet_sm_typed (r : Rat) (hr : r ≠ 0) (h : WHeader) (charts : List WChart) :
    rateSet .sm .sm r (encSm h charts) = .ok (encSm (rateHdr r h) (charts.map (rateW r))) := by
  rw [rateSet_scales .sm .sm r _ (setOk_encSm h charts) hr, scaleSet_encSm]

open SM C03 Timing in
/-- **rate_write_read_sm** — StepMania, the whole file.  Take a set in C03's domain for `(t0, cs)` (`ChartWritten`:
C10's domain for the shared tempo list, objects on the snap grid, `EventsOK`, non-overlapping holds / rolls; `out` the
measures `SMMap.write` emits) and any `r > 0`.  Let `items` be the written file of the **rated** set: its `#NOTES`
values are the rated charts `L.map (rateL r)` — which carry the *same* measures (`chartWritten_rate`: the rows do not
move, `beats_rate`) — its `#OFFSET` parses to `offsetSec / r` and its `#BPMS` to the original pairs with every tempo
multiplied by `r` (that this is what `SMMapSet.write` puts there is `sm_write_rate`).  Then the StepMania denotation of
that file exists, is well-formed, has one chart per chart of the set, every chart is well-bracketed, and — read by row
scanner, `4m + 4r/R`, latest-unclosed-head pairing and integration over the written `#BPMS` from `−1000·#OFFSET` — has
exactly the **rated** objects: same kinds and columns, every time and every hold / roll length divided by `r`
(as a multiset).  Composition of `chartWritten_rate`, `changesOf_rate` with C03's `write_read_exact`.

What stays outside (and is C03's own remaining `_partial`, not specific to the rate change): that the *text* produced by
`SMMapSet.write` is `renderItems items` for these items (`render_items_partial`), and the float renderer assumption
behind "parses to" (`parseFloat (show q) = .ok q`).  `#SAMPLESTART` / `#SAMPLELENGTH` are covered at the `Written` level
(`rate_write_read_sm_partial`), not in the text. -/
theorem rate_write_read_sm {r : Rat} (hr : 0 < r) (t0 : Rat) (cs : List BcSnap)
    (hwf : wfChanges cs = true) (hs : sortedSnaps cs = true) (h0 : firstAtZero cs = true)
    (hgc : gridCompatible (grid defaultMaxDiv) cs = true) (hm : metronomeOk cs = true) (hM : ∀ c ∈ cs, c.met = 4)
    (items : List Item) (hok : ∀ it ∈ items, ItemOk it)
    (L : List (WChart × List (List Str) × (Str × Str × Str × Str × Str)))
    (hL : ∀ x ∈ L, ChartWritten t0 cs x.1 x.2.1)
    (hnotes : (valuesOf items).filter (tagIs tagNotes) = (L.map (rateL r)).map notesValue)
    (offT bpmT : Str) (offsetSec : Rat) (bpms : List (Rat × Rat))
    (hoffv : firstParam (valuesOf items) tagOffsetS = some offT) (hoff : parseFloat offT = .ok (offsetSec / r))
    (hbpmv : firstParam (valuesOf items) tagBpmsS = some bpmT)
    (hbpm : parsePairs bpmT = some (bpms.map (fun p => (p.1, p.2 * r))))
    (ho : -(1000 * offsetSec) = t0) (hbp : changesOf bpms = cs) :
    ∃ d, SM.denote (renderItems items) = some d ∧ d.offsetSec = some (offsetSec / r) ∧
      d.bpms = some (bpms.map (fun p => (p.1, p.2 * r))) ∧
      d.chartsWellFormed = true ∧ d.charts.length = L.length ∧
      ∀ (i : Nat) (hi : i < L.length) (hd : i < d.charts.length),
        (d.charts[i]).wellBracketed = true ∧
        (timedNotes (offsetSec / r) (bpms.map (fun p => (p.1, p.2 * r))) d.charts[i]).Perm
          ((L[i]).1.notes.map (fun n => (⟨n.kind, n.col, n.time / r, (timedOfW n).length / r⟩ : TNote))) := by
  have hL' : ∀ x ∈ L.map (rateL r), ChartWritten (t0 / r) (cs.map (rateBc r)) x.1 x.2.1 := by
    intro x hx
    obtain ⟨x0, hx0, rfl⟩ := List.mem_map.mp hx
    exact chartWritten_rate hr t0 cs hwf hs h0 hgc hm hM x0.1 x0.2.1 (hL x0 hx0)
  have ho' : -(1000 * (offsetSec / r)) = t0 / r := by rw [← ho]; ring
  have hbp' : changesOf (bpms.map (fun p => (p.1, p.2 * r))) = cs.map (rateBc r) := by rw [changesOf_rate, hbp]
  obtain ⟨d, hd, h1, h2, h3, h4, h5⟩ := write_read_exact (t0 / r) (cs.map (rateBc r)) (wfChanges_rate hr cs hwf)
    (by rw [sortedSnaps_rate]; exact hs) (by rw [firstAtZero_rate]; exact h0)
    (by rw [gridCompatible_rate]; exact hgc) (by rw [metronomeOk_rate]; exact hm)
    (by
      intro c hc
      obtain ⟨c0, hc0, rfl⟩ := List.mem_map.mp hc
      exact hM c0 hc0)
    items hok (L.map (rateL r)) hL' hnotes offT bpmT (offsetSec / r) (bpms.map (fun p => (p.1, p.2 * r)))
    hoffv hoff hbpmv hbpm ho' hbp'
  refine ⟨d, hd, h1, h2, h3, by simpa using h4, ?_⟩
  intro i hi hdi
  obtain ⟨_, hb, hp⟩ := h5 i (by simpa using hi) hdi
  refine ⟨hb, ?_⟩
  have e : ((L.map (rateL r))[i]'(by simpa using hi)).1.notes.map timedOfW
      = (L[i]).1.notes.map (fun n => (⟨n.kind, n.col, n.time / r, (timedOfW n).length / r⟩ : TNote)) := by
    simp only [List.getElem_map, rateL, rateW, List.map_map]
    apply List.map_congr_left
    intro n _
    simp only [Function.comp_def, timedOfW_rate]
  rw [← e]
  exact hp

open Timing BMS PermInv in
/-- **rate_write_read_bms_partial** — BMS, the whole file, by composition with C05's `bms_write_read`; **every
hypothesis is about the UN-rated chart and `r`**.  `cs` a tempo list in C05's domain, `c` a chart whose tempo rows are
(in any order) the stored form of `cs` with the first tempo point at time 0 (BMS has no file offset — ¬D35; the rated
chart keeps it: `0 / r = 0`), `BmsOk`, `HeaderOK`, renderable collision-free rows `hR` / `hv`, lane items `items` in
time order — all of the un-rated chart, exactly C05's domain — `r > 0`, and

  `hdec0 : ∀ b ∈ c.bpms, (b.bpm · r · 1000).den = 1`   (every rated tempo is a three-decimal number).

Derived for the rated chart `rateB r c`: C05's whole domain — the tempo list `cs` with every tempo `× r` is well-formed,
strictly ascending, first at zero, grid-compatible, 4/4; the tempo rows are a permutation of its stored form; `BmsOk`;
`HeaderOK`; **the rows are the rows of the un-rated chart** (`bmsNoteRows_rate`, `bmsTempoRows_rate` through `posFn_rate`:
`TimingMap.snaps` as executed sends the rated time on the rated map where it sends the original time on the original
map, for every time, on the grid or off it — so measures ≤ 999 (¬D36), collisions and lane order cannot change under a
rate); the lane items are the rated items; three-decimal tempos (`hdec_rate_iff`: `hdec0` is *equivalent* to C05's
`hdec` on the rated chart); the header is written (`writeHeader_rate_ok`).  Conclusion: the writer succeeds on the rated
chart, the file has a by-the-book meaning `d`, `d.tempo` is the header tempo followed by exactly the rated tempo list,
and the by-the-book time of the written position of every object time `t` of the original chart is the rated time
`t / r` — exactly whenever `t` lies on the snap grid of the original tempo list, within 1/192 beat at the rated tempo
otherwise (the format's own snapping, C05).

`hdec0` is necessary: `bms_rate_hdec_necessary` (156.25 bpm at rate 1/4 is written as 39.062 and the file drifts away
from the rated chart — the open finding D06 reached through `rate`; replayed on the real code as D06's witness for C13).

_partial_ — what is still missing for the clause "writing the rated chart and reading it back gives the rated timeline"
on BMS: the frame-level bridge from `rateChart .bms` (the stacker model) to `rateB` (built for osu, Quaver, StepMania),
and C05's own remaining gap between `denote` and `BMSMap.read` (C04). -/
theorem rate_write_read_bms_partial {r : Rat} (hr : 0 < r) (cs : List BcSnap) (hwf : wfChanges cs = true)
    (hs : strictSnaps cs = true) (h0 : firstAtZero cs = true)
    (hgc : gridCompatible (grid defaultMaxDiv) cs = true) (hm : metronomeOk cs = true)
    (lay : Layout) (hlay : LayoutOK lay)
    (hts : lay.exbpmCh ≠ lay.timeSig ∧ ∀ lane ∈ lay.lanes, lane.1 ≠ lay.timeSig)
    (dflt : Bytes) (c : BMS.WChart) (hp : c.bpms.Perm (tmOf 0 cs)) (hok : BmsOk cs lay c) (hH : HeaderOK c)
    (hR : RowsOK (bmsNoteRows cs lay dflt c ++ bmsTempoRows cs lay c))
    (hv : ∀ x ∈ bmsNoteRows cs lay dflt c, x.value ≠ ['0', '0'])
    (hdec0 : ∀ b ∈ c.bpms, (b.bpm * r * 1000).den = 1)
    (items : Bytes × Nat → List TAtom)
    (hitems : ∀ lane ∈ lay.lanes, (items lane).Perm (laneItems c dflt lane.2) ∧ (∀ a ∈ items lane, a.idOk c.lnEnd))
    (hasc : ∀ lane ∈ lay.lanes, ((items lane).flatMap TAtom.times).Pairwise (fun a b => a ≤ b)) :
    ∃ lines d b0, BMS.write defaultGrid lay dflt (rateB r c) = .ok lines ∧ BMS.denote lay lines = some d ∧
      (rateB r c).bpms.head? = some b0 ∧ d.tempo = ⟨b0.bpm, 4, ⟨0, 0, some 4⟩⟩ :: cs.map (rateBc r) ∧
      ∀ lane ∈ lay.lanes, ∀ a ∈ items lane, ∀ t ∈ a.times,
        rabs (timeAt 0 d.tempo (posOf (posFn cs t)) - t / r)
            ≤ 1 / 192 * activeBeatLen 0 (cs.map (rateBc r)) (t / r) ∧
        (OnGridAt (grid defaultMaxDiv) 0 cs t → timeAt 0 d.tempo (posOf (posFn cs t)) = t / r) := by
  have hdec := (hdec_rate_iff r c).mpr hdec0
  obtain ⟨hl, hhdr⟩ := writeHeader_rate_ok r cs h0 c hp hH hdec0
  have hR' : RowsOK (bmsNoteRows (cs.map (rateBc r)) lay dflt (rateB r c)
      ++ bmsTempoRows (cs.map (rateBc r)) lay (rateB r c)) := by
    rw [bmsNoteRows_rate hr cs hwf, bmsTempoRows_rate hr cs hwf]; exact hR
  have hv' : ∀ x ∈ bmsNoteRows (cs.map (rateBc r)) lay dflt (rateB r c), x.value ≠ ['0', '0'] := by
    rw [bmsNoteRows_rate hr cs hwf]; exact hv
  have hitems' : ∀ lane ∈ lay.lanes, ((items lane).map (rateAtom r)).Perm (laneItems (rateB r c) dflt lane.2) ∧
      (∀ a ∈ (items lane).map (rateAtom r), a.idOk (rateB r c).lnEnd) := by
    intro lane hlane
    obtain ⟨p, q⟩ := hitems lane hlane
    refine ⟨by rw [laneItems_rate]; exact p.map _, ?_⟩
    intro a ha
    obtain ⟨a0, ha0, rfl⟩ := List.mem_map.mp ha
    exact (rateAtom_idOk r _ a0).mpr (q a0 ha0)
  have hasc' : ∀ lane ∈ lay.lanes,
      (((items lane).map (rateAtom r)).flatMap TAtom.times).Pairwise (fun a b => a ≤ b) := by
    intro lane hlane
    have hmono := hasc lane hlane
    have e : ∀ l : List TAtom, (l.map (rateAtom r)).flatMap TAtom.times = (l.flatMap TAtom.times).map (· / r) := by
      intro l
      induction l with
      | nil => rfl
      | cons a l ih => simp only [List.map_cons, List.flatMap_cons, List.map_append, ih, rateAtom_times]
    rw [e]
    exact hmono.map _ (fun a b h => (le_div_iff_rate hr a b).mpr h)
  obtain ⟨lines, d, b0, h1, h2, h3, h4, _, _, _, _, h9⟩ :=
    bms_write_read (cs.map (rateBc r)) (wfChanges_rate hr cs hwf) (by rw [strictSnaps_rate]; exact hs)
      (by rw [firstAtZero_rate]; exact h0) (by rw [gridCompatible_rate]; exact hgc) (by rw [metronomeOk_rate]; exact hm)
      lay hlay hts dflt (rateB r c) (bpms_perm_rate r c cs hp) (bmsOk_rate hr cs lay c hok) hR' hv' (headerOK_rate hr c hH)
      hdec hl hhdr (fun lane => (items lane).map (rateAtom r)) hitems' hasc'
  refine ⟨lines, d, b0, h1, h2, h3, h4, ?_⟩
  intro lane hlane a ha t ht
  have ht' : t / r ∈ (rateAtom r a).times := by rw [rateAtom_times]; exact List.mem_map_of_mem ht
  obtain ⟨e1, e2⟩ := h9 lane hlane (rateAtom r a) (List.mem_map_of_mem ha) (t / r) ht'
  rw [posFn_rate hr cs hwf] at e1 e2
  refine ⟨e1, fun hg => e2 ?_⟩
  have := (onGridAt_rate hr (grid defaultMaxDiv) 0 cs hwf t).mpr hg
  simpa using this

open Timing BMS PermInv in
/-- **the hypotheses of `rate_write_read_bms_partial` are satisfiable** with a non-trivial rate: C05's example chart
(two tempo rows 120 / 60 bpm in reverse order, a hit and a hold, `PMS_5B`) at rate 3/2 — rated tempos 180 / 90, every
time divided by 3/2 (the hold's tail 2000 ms becomes 1333.3… ms, not a whole millisecond). -/
theorem rate_write_read_bms_nonvacuous :
    ∃ lines d, BMS.write defaultGrid wrExLay "01".toList (rateB (3 / 2) wrExChart) = .ok lines ∧
      BMS.denote wrExLay lines = some d ∧ d.tempo = ⟨90, 4, ⟨0, 0, some 4⟩⟩ :: wrExCs.map (rateBc (3 / 2)) ∧
      timeAt 0 d.tempo (posOf (posFn wrExCs 2000)) = 2000 / (3 / 2) := by
  have hlay := layouts_ok "PMS_5B" (by decide) wrExLay wrExLay_eq
  have hts := layouts_timeSig "PMS_5B" (by decide) wrExLay wrExLay_eq
  have hp : wrExChart.bpms.Perm (tmOf 0 wrExCs) := by rw [wrExCs_tm]; exact List.Perm.swap _ _ _
  have hok : BmsOk wrExCs wrExLay wrExChart := by
    refine ⟨by decide +kernel, by decide +kernel, by decide +kernel, by decide +kernel⟩
  have hR : RowsOK (bmsNoteRows wrExCs wrExLay "01".toList wrExChart ++ bmsTempoRows wrExCs wrExLay wrExChart) := by
    rw [wrExRows_eq]; exact wrExRowsOK
  have hv : ∀ r ∈ bmsNoteRows wrExCs wrExLay "01".toList wrExChart, r.value ≠ ['0', '0'] := by
    intro r hr
    have : r ∈ wrExRows := by rw [← wrExRows_eq]; exact List.mem_append_left _ hr
    have hall : ∀ r ∈ wrExRows, r.value ≠ ['0', '0'] := by decide +kernel
    exact hall r this
  have hH : HeaderOK wrExChart :=
    ⟨by intro kv hkv; simp [wrExChart] at hkv, by intro kv hkv; simp [wrExChart] at hkv, by decide +kernel, by decide +kernel, by decide +kernel⟩
  have hdec0 : ∀ b ∈ wrExChart.bpms, (b.bpm * (3 / 2 : Rat) * 1000).den = 1 := by decide +kernel
  have hitems : ∀ lane ∈ wrExLay.lanes, (laneItems wrExChart "01".toList lane.2).Perm (laneItems wrExChart "01".toList lane.2) ∧
      (∀ a ∈ laneItems wrExChart "01".toList lane.2, a.idOk wrExChart.lnEnd) := by
    intro lane _
    refine ⟨List.Perm.refl _, ?_⟩
    intro a ha
    simp only [laneItems, List.mem_append, List.mem_map] at ha
    rcases ha with ⟨h, _, rfl⟩ | ⟨h, _, rfl⟩
    · simp only [TAtom.idOk, wrExChart, sampleId, List.reverse_nil, List.find?_nil, Option.map_none, Option.getD_none]; decide
    · simp only [TAtom.idOk, wrExChart, sampleId, List.reverse_nil, List.find?_nil, Option.map_none, Option.getD_none]; decide
  have hasc : ∀ lane ∈ wrExLay.lanes,
      ((laneItems wrExChart "01".toList lane.2).flatMap TAtom.times).Pairwise (fun a b => a ≤ b) := by decide +kernel
  obtain ⟨lines, d, b0, hw, hd, hhead, htempo, htimes⟩ :=
    rate_write_read_bms_partial (r := 3 / 2) (by norm_num) wrExCs wrExCs_ok.1 wrExCs_ok.2.1 wrExCs_ok.2.2.1 wrExCs_gc
      wrExCs_ok.2.2.2 wrExLay hlay hts "01".toList wrExChart hp hok hH hR hv hdec0
      (fun lane => laneItems wrExChart "01".toList lane.2) hitems hasc
  have hb0 : b0 = ⟨90, 4, 2000 / (3 / 2)⟩ := by
    have : (rateB (3 / 2) wrExChart).bpms.head? = some ⟨90, 4, 2000 / (3 / 2)⟩ := by
      simp only [rateB, wrExChart, List.map_cons, List.head?_cons, rateBcOff]
      norm_num
    rw [this] at hhead
    exact (Option.some.inj hhead).symm
  refine ⟨lines, d, hw, hd, by rw [htempo, hb0], ?_⟩
  -- the hold of column 1 (lane of `PMS_5B`) ends at 2000 ms, on the grid (the second tempo point)
  have hlane : (("14".toList, 1) : Bytes × Nat) ∈ wrExLay.lanes := by decide +kernel
  have hmem : TAtom.hold 0 2000 (sampleId wrExChart.samples "01".toList []) ∈ laneItems wrExChart "01".toList 1 := by
    simp [laneItems, wrExChart]
  have hg : OnGridAt (grid defaultMaxDiv) 0 wrExCs 2000 := by
    have h0 : (0 : Rat) ∈ grid defaultMaxDiv := zero_mem_grid (by decide)
    refine ⟨by norm_num, ?_⟩
    simp only [onGridAux]
    have e : (0 : Rat) + snapDist (⟨0, 0, some 4⟩ : Snap) ⟨1, 0, some 4⟩ 4 * beatLen 120 = 2000 := by decide +kernel
    rw [e]
    simp only [le_refl, if_true]
    have : frac ((2000 - 2000 : Rat) / beatLen 60) = 0 := by decide +kernel
    rw [this]; exact h0
  exact (htimes _ hlane _ hmem 2000 (by simp [TAtom.times])).2 hg

/-- non-vacuity of `WChartOk`: one tempo (120 bpm from 1000 ms), a hit on beat 1 and a hold from beat 2 to 3 -/
def exW : SM.WChart :=
  { chartType := "dance-single".toList, description := [], difficulty := [], difficultyVal := 1, groove := [],
    bpms := [(1000, 120)], notes := [⟨.hit, 0, 1500, 0⟩, ⟨.hold, 1, 2000, 500⟩] }

theorem exW_onGrid (t : Rat) (ht : t ∈ [(1000 : Rat), 1500, 2000, 2500]) :
    Timing.OnGridAt (Timing.grid Timing.defaultMaxDiv) 1000 [⟨120, 4, ⟨0, 0, some 4⟩⟩] t := by
  have h0 : (0 : Rat) ∈ Timing.grid Timing.defaultMaxDiv := Timing.zero_mem_grid (by decide)
  simp only [List.mem_cons, List.not_mem_nil, or_false] at ht
  rcases ht with rfl | rfl | rfl | rfl
  · exact ⟨by decide +kernel, by
      show Timing.frac ((1000 - 1000) / Timing.beatLen 120) ∈ _
      rw [show Timing.frac ((1000 - 1000) / Timing.beatLen 120) = 0 by decide +kernel]; exact h0⟩
  · exact ⟨by decide +kernel, by
      show Timing.frac ((1500 - 1000) / Timing.beatLen 120) ∈ _
      rw [show Timing.frac ((1500 - 1000) / Timing.beatLen 120) = 0 by decide +kernel]; exact h0⟩
  · exact ⟨by decide +kernel, by
      show Timing.frac ((2000 - 1000) / Timing.beatLen 120) ∈ _
      rw [show Timing.frac ((2000 - 1000) / Timing.beatLen 120) = 0 by decide +kernel]; exact h0⟩
  · exact ⟨by decide +kernel, by
      show Timing.frac ((2500 - 1000) / Timing.beatLen 120) ∈ _
      rw [show Timing.frac ((2500 - 1000) / Timing.beatLen 120) = 0 by decide +kernel]; exact h0⟩

example : WChartOk exW := by
  refine ⟨1000, [⟨120, 4, ⟨0, 0, some 4⟩⟩], by decide +kernel, by decide +kernel, by decide +kernel, by decide +kernel,
    by decide +kernel, by decide +kernel, by decide +kernel, ?_, ?_⟩
  · intro t ht
    have hl : (SM.writeOrder exW.notes).map (·.1) = [1500, 2000, 2500] := by decide +kernel
    rw [hl] at ht
    exact exW_onGrid t (List.mem_cons_of_mem _ ht)
  · intro t ht
    have hl : exW.bpms.map (·.1) = [1000] := by decide +kernel
    rw [hl] at ht
    simp only [List.mem_cons, List.not_mem_nil, or_false] at ht
    exact exW_onGrid t (by simp [ht])

/-- non-vacuity: a Quaver chart inside the hypotheses (hit, hold, two tempo points, an SV, fractional and negative
times), and what rating it by 3/2 does to its frames -/
example : Qua.MetaOk Qua.sampleChart.info ∧ Qua.Spec.ksLists Qua.sampleChart = true :=
  ⟨⟨by decide +kernel, by decide +kernel⟩, by decide +kernel⟩

example : (scaleQua (3/2) Qua.sampleChart).bpms = [⟨0, 180, 3⟩, ⟨10009 / 15, 50, 4⟩] := by decide +kernel

/-- non-vacuity for osu: a chart inside the hypotheses on lanes / file names -/
example : let c : Osu.Chart := { hits := [{ offset := 7/2, column := 1 }], holds := [{ offset := 1, column := 0, length := 3/2 }] }
    (0 < Osu.pyTrunc c.md.circleSize ∧ Osu.pyTrunc c.md.circleSize ≤ 256) ∧
    (scaleOsu 2 c).hits = [{ offset := 7/4, column := 1 }] := by decide +kernel

def exOsu : Chart :=
  { lists := [("svs", ⟨["multiplier", "offset"], []⟩),
              ("hits", ⟨["column", "offset", "hitsound_file"], [[.num 1, .num 1000, .str "a.wav"], [.num 2, .num 2000, .str ""]]⟩),
              ("holds", ⟨["length", "column", "offset"], []⟩),
              ("bpms", ⟨["kiai", "bpm", "metronome", "offset"], [[.bool false, .num 120, .num 4, .num 0]]⟩)],
    samples := some ⟨["offset", "sample_file", "volume"], []⟩,
    preview := some 1234,
    extra := [("title", .str "t")] }

/-! ## finding D41 (repaired, `fix:` f5835bd): the "no preview point" marker was rated like a time -/

/-- osu's `PreviewTime: -1` means "no preview point" (every default-constructed or converted `OsuMap` has it).  The
repaired code leaves it alone, and the specification accepts that; the defective code divided it by `r` — rate 2 gave
−1/2 in memory, which `write` truncates to `PreviewTime: 0`, a preview point the original did not have — and the
specification rejects exactly that result. -/
theorem d41_preview_marker :
    (rateChart .osu 2 { exOsu with preview := some (-1) }).toOption.map (·.preview) = some (some (-1)) ∧
    (match rateChart .osu 2 { exOsu with preview := some (-1) } with
     | .ok out => chartScalesB 0 .osu 2 { exOsu with preview := some (-1) } out &&
                  !chartScalesB 0 .osu 2 { exOsu with preview := some (-1) } { out with preview := some (-1 / 2) }
     | .error _ => false) = true ∧
    Osu.pyTrunc (-1 / 2) = 0 ∧ Osu.pyTrunc (-1) = -1 := by decide +kernel

/-! ## the error branches are not totalised away -/

def exSmSet : MapSet := { maps := [], offset := none, sampleStart := some 0, sampleLength := some 10, extra := [] }


/-- a StepMania set whose `offset` is still `None` (built from objects, never read, never set by a converter):
since the follow-up of D04 (`if sms.offset is not None`) nothing raises — the maps and the sample window are rated
and the unset offset stays unset. -/
theorem rateSet_sm_offset_none (g : Game) (r : Rat) (s : MapSet) (hm : ∀ c ∈ s.maps, chartOk g c = true) (hr : r ≠ 0)
    (ho : s.offset = none) (hs : s.sampleStart.isSome = true) (hl : s.sampleLength.isSome = true) :
    ∃ out, rateSet .sm g r s = .ok out ∧ out.offset = none ∧ out.maps = s.maps.map (scaleChart g r) := by
  have hok : setOk .sm g s = true := by
    simp only [setOk, Bool.and_eq_true, List.all_eq_true, if_true]
    exact ⟨hm, hs, hl⟩
  refine ⟨_, rateSet_scales .sm g r s hok hr, ?_, ?_⟩
  · simp [scaleSet, ho]
  · simp [scaleSet]

/-- the sample window, in contrast, is always a number in the code (`float` defaults): a `None` there still raises -/
example : rateSet .sm .sm 2 { exSmSet with sampleStart := none } = .error .type := by decide +kernel

/-- no list with a `bpm` column: `stack.bpm` raises KeyError (why `listsOk` asks for the three columns; the generated
schema shows every game's map has them) -/
example : rateLists 2 [⟨["offset", "column"], [[.num 10, .num 1]]⟩, ⟨["offset", "length"], []⟩] = .error .key := by
  decide +kernel

/-- a string in a time column: TypeError -/
example : rateLists 2 [⟨["offset", "bpm", "length"], [[.str "x", .num 1, .num 1]]⟩] = .error .type := by decide +kernel

/-! ## non-vacuity: the hypotheses are satisfiable, on charts with empty hold / SV / sample lists too -/

def exSm : MapSet :=
  { maps := [{ lists := [("stops", ⟨["length", "offset"], [[.num 300, .num 600]]⟩),
                         ("hits", ⟨["column", "offset"], [[.num 0, .num 1500]]⟩),
                         ("holds", ⟨["length", "column", "offset"], []⟩),
                         ("bpms", ⟨["bpm", "metronome", "offset"], [[.num 120, .num 4, .num 1000]]⟩)],
               samples := none, preview := none, extra := [] }],
    offset := some 1000, sampleStart := some 20000, sampleLength := some 10000, extra := [("title", .str "s")] }

example : chartOk .osu exOsu = true := by decide +kernel
example : setOk .sm .sm exSm = true := by decide +kernel
example : setOk .base .osu ⟨[exOsu, exOsu], none, none, none, []⟩ = true := by decide +kernel
/-- … and the model really computes there (rate 2: times halved, tempo doubled, file offset and sample window halved) -/
example : (rateSet .sm .sm 2 exSm).toOption = some
    { maps := [{ lists := [("stops", ⟨["length", "offset"], [[.num 150, .num 300]]⟩),
                           ("hits", ⟨["column", "offset"], [[.num 0, .num 750]]⟩),
                           ("holds", ⟨["length", "column", "offset"], []⟩),
                           ("bpms", ⟨["bpm", "metronome", "offset"], [[.num 240, .num 4, .num 500]]⟩)],
                 samples := none, preview := none, extra := [] }],
      offset := some 500, sampleStart := some 10000, sampleLength := some 5000, extra := [("title", .str "s")] } := by
  decide +kernel
example : ((rateChart .osu (3/2) exOsu).toOption.map (·.preview)) = some (some (2468/3)) := by decide +kernel

end Reamber.Rate
