/-
C02 — StepMania reading places every object at the time its beat and tempos imply.
Property theorems (helper lemmas live in `Reamber/Lemmas/SM*.lean`).  Statements are about the executable model
`Reamber/Model/SM.lean`, which the correspondence check ties to reamber/sm/*.py on every run, stated against the
independent denotation `Reamber/Spec/SM.lean` (`events`, `pairAll`, `denote`) and `Spec/Timing.lean: timeAt`.
-/
import Reamber.Lemmas.SMRows
import Reamber.Lemmas.SMTimes
import Reamber.Lemmas.SMText
import Reamber.Lemmas.SMPair
import Reamber.Lemmas.SMTempo
import Reamber.Props.C10
import Reamber.Generated.SMTables

namespace Reamber.C02

open Reamber.Timing Reamber.SM

/-- Tie to the source: the constants and tables the model uses are the ones the translator read from the code
(`SMConst`, `METRONOME`/`MAX_SNAP`/`MAX_KEYS`, `SMMapChartTypes.get_keys` over every constant, the tag → attribute
table of `_read_metadata`, the plain string lines of `_write_metadata`). Re-checked whenever they change. -/
theorem tables_tie :
    [hitChar] = Generated.SM.hitString ∧ [holdHeadChar] = Generated.SM.holdStringHead ∧
    [holdTailChar] = Generated.SM.holdStringTail ∧ [liftChar] = Generated.SM.liftString ∧
    [keysoundChar] = Generated.SM.keysoundString ∧ [fakeChar] = Generated.SM.fakeString ∧
    [mineChar] = Generated.SM.mineString ∧ [rollHeadChar] = Generated.SM.rollStringHead ∧
    [rollTailChar] = Generated.SM.rollStringTail ∧
    SM.metronome = Generated.SM.metronome ∧ maxSnap = Generated.SM.maxSnap ∧ maxKeys = Generated.SM.maxKeys ∧
    keyTable = Generated.SM.keyTable ∧
    (∀ t ∈ Generated.SM.chartTypes, getKeys t = Generated.SM.keyTable.lookup t) ∧
    stringTags = Generated.SM.readStringTags ∧
    writeStringTags = Generated.SM.writeLines.filter (fun p => !p.2.isEmpty) := by
  decide +kernel

/-- the note symbols of the source are the StepMania symbols of the specification -/
theorem symbols_tie :
    symOf hitChar = some (.tap .hit) ∧ symOf mineChar = some (.tap .mine) ∧ symOf liftChar = some (.tap .lift) ∧
    symOf fakeChar = some (.tap .fake) ∧ symOf keysoundChar = some (.tap .keysound) ∧
    symOf holdHeadChar = some (.head .hold) ∧ symOf rollHeadChar = some (.head .roll) ∧
    symOf holdTailChar = some .tail ∧ symOf rollTailChar = some .tail := by decide

/-! ### row positions -/

/-- **Row position** (every measure length `R = 4k`, every row): the reader's `int(beat·len/4)` slicing with
`Fraction(i, len(beat_str))` visits the rows in file order and gives row `r` the position `Snap(m, 4r/R, 4)`. -/
theorem row_position (m : Nat) (rows : List Str) (h4 : 4 ∣ rows.length) :
    rowSnaps m rows =
      rows.zipIdx.map fun (ri : Str × Nat) =>
        ((⟨(m : Int), 4 * (ri.2 : Rat) / (rows.length : Rat), some 4⟩ : Snap), ri.1) :=
  SM.row_position m rows h4

/-- the excluded case `R = 6`: the reader's positions are 0, 1, 3/2, 2, 3, 7/2 — not 4r/6 (a domain restriction
of the property, not a finding) -/
theorem row_position_counterexample :
    (rowSnaps 0 [['1'], ['1'], ['1'], ['1'], ['1'], ['1']]).map (fun p => p.1.beat) = [0, 1, 3/2, 2, 3, 7/2] ∧
    (List.range 6).map (fun r => (4 * (r : Rat) / 6)) = [0, 2/3, 4/3, 2, 8/3, 10/3] :=
  SM.row_position_counterexample

/-- **The reader's visits are the specification's events**: for note data whose measures all have a multiple-of-4
number of rows, the flattened nested loops of `_read_notes`, seen through the StepMania symbol table, are exactly
`(column, 4m + 4r/R, symbol)` for every symbol of row `r` of measure `m`. -/
theorem reader_events_eq_spec (ms : List (List Str)) (h4 : ∀ rows ∈ ms, 4 ∣ rows.length) :
    specEventsOf (eventsOf ms) = events ms :=
  SM.reader_events_eq_spec ms h4

example : (4 : Nat) ∣ ([['1','0'], ['0','0'], ['0','M'], ['0','0']] : List Str).length := by decide

/-! ### pairing -/

/-- **Pairing refinement** (well-bracketed columns).  For every sequence of loop visits with columns below
`MAX_KEYS`: if the StepMania rule "a `3` closes the latest unclosed `2`/`4` of its column" (`pairAll`) never meets a
tail without an open head nor a head opened over an open one, and leaves no head open, then the reader's loop
(`holds[col][-1]` first, then `rolls[col][-1]`) does not raise, closes every head and yields exactly the same notes
(kind, column, head and tail position) as a multiset. -/
theorem pairing_spec (evs : List Ev) (hcol : ∀ e ∈ evs, e.col < maxKeys)
    (hok : (pairAll (specEventsOf evs)).ok = true) (hclosed : (pairAll (specEventsOf evs)).opened = []) :
    ∃ st, runEvents evs {} = .ok st ∧
      (∀ p ∈ st.holds, p.tail.isSome = true) ∧ (∀ p ∈ st.rolls, p.tail.isSome = true) ∧
      (pairAll (specEventsOf evs)).notes.Perm (modelNotes st) :=
  SM.pairing_spec evs hcol hok hclosed

/-- **Reader = denotation on the note data** (rows → objects with positions): for measures with a multiple-of-4
number of rows, rows no longer than `MAX_KEYS`, and well-bracketed columns, the parsing loop succeeds and its
stored objects are — as a multiset of (kind, column, beat, end beat) — the notes of the specification
(`events` with `4m + 4r/R`, `pairAll`).  Combines `row_position`/`reader_events_eq_spec` with `pairing_spec`. -/
theorem reader_notes_eq_spec (ms : List (List Str)) (h4 : ∀ rows ∈ ms, 4 ∣ rows.length)
    (hcol : ∀ e ∈ eventsOf ms, e.col < maxKeys)
    (hok : (pairAll (events ms)).ok = true) (hclosed : (pairAll (events ms)).opened = []) :
    ∃ st, runEvents (eventsOf ms) {} = .ok st ∧
      (∀ p ∈ st.holds, p.tail.isSome = true) ∧ (∀ p ∈ st.rolls, p.tail.isSome = true) ∧
      (pairAll (events ms)).notes.Perm (modelNotes st) := by
  rw [← SM.reader_events_eq_spec ms h4] at hok hclosed ⊢
  exact SM.pairing_spec (eventsOf ms) hcol hok hclosed

example :
    let ms : List (List Str) := [[['2','0'], ['0','M'], ['3','4'], ['1','3']]]
    (∀ rows ∈ ms, 4 ∣ rows.length) ∧ (pairAll (events ms)).ok = true ∧ (pairAll (events ms)).opened = [] ∧
      (pairAll (events ms)).notes.length = 4 := by decide +kernel

/-! ### times -/

theorem dedup_subset (l : List Snap) : ∀ x ∈ dedupSnaps l, x ∈ l := by
  induction l with
  | nil => intro x hx; cases hx
  | cons a t ih =>
    intro x hx
    simp only [dedupSnaps, List.mem_cons, List.mem_filter] at hx
    rcases hx with rfl | ⟨h, _⟩
    · simp
    · exact List.mem_cons_of_mem _ (ih x h)

/-- every position the loops visit has a non-negative measure and beat -/
theorem eventsOf_nonneg (ms : List (List Str)) : ∀ e ∈ eventsOf ms, 0 ≤ e.pos.measure ∧ 0 ≤ e.pos.beat := by
  intro e he
  simp only [eventsOf, rowSnaps, rowEvents, List.mem_flatMap, List.mem_map] at he
  obtain ⟨rm, _, sr, ⟨b, _, ri, _, rfl⟩, ci, _, rfl⟩ := he
  refine ⟨by simp, ?_⟩
  simp only
  positivity

theorem charStep_seen {st st' : PState} {col : Nat} {ch : Char} {sn : Snap} (P : Snap → Prop)
    (h : charStep st col ch sn = .ok st') (hs : ∀ s ∈ st.seen, P s) (hp : P sn) : ∀ s ∈ st'.seen, P s := by
  have hcons : ∀ s ∈ sn :: st.seen, P s := by
    intro s hm
    rcases List.mem_cons.mp hm with rfl | hm
    · exact hp
    · exact hs s hm
  unfold charStep at h
  split at h
  · cases h; exact hs
  · simp only at h
    repeat' split at h
    all_goals first
      | (cases h; exact hcons)
      | cases h

theorem runEvents_seen (P : Snap → Prop) (evs : List Ev) (st st' : PState) (h : runEvents evs st = .ok st')
    (hs : ∀ s ∈ st.seen, P s) (hp : ∀ e ∈ evs, P e.pos) : ∀ s ∈ st'.seen, P s := by
  induction evs generalizing st with
  | nil => simp [runEvents, foldlE] at h; subst h; exact hs
  | cons e t ih =>
    simp only [runEvents, foldlE] at h
    cases hc : charStep st e.col e.ch e.pos with
    | error err => simp [hc] at h
    | ok st1 =>
      simp only [hc] at h
      exact ih st1 h (charStep_seen P hc hs (hp e (by simp))) (fun e' he' => hp e' (List.mem_cons_of_mem _ he'))

theorem queryOk_of_nonneg (cs : List BcSnap) (h0 : firstAtZero cs = true) (q : Snap) (hm : 0 ≤ q.measure)
    (hb : 0 ≤ q.beat) : queryOk cs q = true := by
  cases cs with
  | nil => simp [firstAtZero] at h0
  | cons c rest =>
    simp only [firstAtZero, Bool.and_eq_true, decide_eq_true_eq] at h0
    simp only [queryOk, Snap.le, Snap.lt, Snap.eqv, h0.1, h0.2, Bool.and_eq_true, Bool.or_eq_true, decide_eq_true_eq]
    refine ⟨?_, hb⟩
    rcases lt_or_eq_of_le hm with h | h
    · exact Or.inl (Or.inl h)
    · rcases lt_or_eq_of_le hb with h' | h'
      · exact Or.inl (Or.inr ⟨h, h'⟩)
      · exact Or.inr ⟨h, h'⟩

/-- **`sm_times` — read times = integration of the file's beat positions over its `#BPMS` segments.**
For every note data text, every initial offset `t0 = −1000·#OFFSET`, every tempo-change list `cs` (as parsed from
`#BPMS`) that is well-formed, ascending, starts at beat 0, is grid-compatible and keeps the 4-beat metronome
(C10's hypotheses; a finite decimal on the 1/48-beat grid is a multiple of 1/16, hence grid-compatible — that step is not proved here, the check evaluates the domain per case), and every
sorting permutation `np.argsort` may return for the set of distinct positions:
if `_read_notes` returns, then its notes are exactly the positions stored by the parsing loop, each mapped
through `timeAt t0 cs` (hold length = `timeAt` tail − `timeAt` head). -/
theorem sm_times (σf : List Snap → List Nat) (hσ : ∀ qs, SortsAsc (σf qs) qs)
    (data : Str) (t0 : Rat) (cs : List BcSnap) (ss : Bool)
    (hwf : wfChanges cs = true) (hs : sortedSnaps cs = true) (h0 : firstAtZero cs = true)
    (hgc : gridCompatible (grid defaultMaxDiv) cs = true) (hm : metronomeOk cs = true)
    (bpms : List (Rat × Rat)) (notes : List Note)
    (h : readNotesWith σf data (some t0) (some cs) ss = .ok (bpms, notes)) :
    ∃ st, parseNotes data = .ok st ∧ expandWith (timeAt t0 cs) st = .ok notes := by
  unfold readNotesWith at h
  simp only [Option.getD_some, bind, Except.bind, Option.isNone_some, Bool.false_eq_true, ↓reduceIte] at h
  cases htm : fromBcSnapNoReseat t0 cs with
  | error e => simp [htm] at h
  | ok tm =>
    simp only [htm] at h
    cases htr : fromBcSnap t0 cs true with
    | error e => simp [htr] at h
    | ok tmR =>
      simp only [htr] at h
      cases hst : parseNotes data with
      | error e => simp [hst] at h
      | ok st =>
        simp only [hst] at h
        refine ⟨st, rfl, ?_⟩
        have hpos : PosIn st := runEvents_posIn _ _ _ hst posIn_init
        have hnn : ∀ s ∈ st.seen, 0 ≤ s.measure ∧ 0 ≤ s.beat :=
          runEvents_seen (fun s => 0 ≤ s.measure ∧ 0 ≤ s.beat) _ _ _ hst (by simp) (eventsOf_nonneg _)
        obtain ⟨tm', htm', hoff⟩ := offsets_correct_default t0 cs hwf hs h0 hgc hm
          (σf (dedupSnaps st.seen.reverse)) (dedupSnaps st.seen.reverse) (hσ _)
          (fun q hq => by
            have hq' : q ∈ st.seen := by simpa using dedup_subset _ q hq
            exact queryOk_of_nonneg cs h0 q (hnn q hq').1 (hnn q hq').2)
        rw [htm] at htm'
        cases htm'
        simp only [hoff] at h
        rw [expandNotes_eq (timeAt t0 cs) (timeAt_respects t0 cs) st hpos (dedupSnaps st.seen.reverse)
          (fun s hs' => dedup_rep _ s (by simpa using hs'))] at h
        cases hex : expandWith (timeAt t0 cs) st with
        | error e => simp [hex] at h
        | ok ns =>
          simp only [hex] at h
          cases h
          rfl

theorem tmTail_bpms (T : Rat) (cur : BcSnap) (rest : List BcSnap) : (tmTail T cur rest).map (·.bpm) = rest.map (·.bpm) := by
  induction rest generalizing T cur with
  | nil => rfl
  | cons n r ih => simp [tmTail, ih]

theorem tmOf_bpms (t0 : Rat) (cs : List BcSnap) : (tmOf t0 cs).map (·.bpm) = cs.map (·.bpm) := by
  cases cs with
  | nil => rfl
  | cons c rest => simp [tmOf, tmTail_bpms]

/-! ### tempo list -/

/-- **`tempo_list_keeps_times_partial`** — every `#BPMS` change is in the chart's tempo list at its millisecond
position.  Proved here for tempo changes that all lie on measure lines: the reseating step is then skipped and the
tempo list is the list of `(timeAt t0 cs (position of change i), bpm i)`.
The general statement (mid-measure changes) is `tempo_list_keeps_times` below; this one needs no threshold hypotheses
and gives equality of the whole list. -/
theorem tempo_list_keeps_times_partial (σf : List Snap → List Nat) (data : Str) (t0 : Rat) (cs : List BcSnap) (ss : Bool)
    (hwf : wfChanges cs = true) (hs : sortedSnaps cs = true) (h0 : firstAtZero cs = true)
    (hline : ∀ c ∈ cs, c.snap.beat = 0)
    (bpms : List (Rat × Rat)) (notes : List Note)
    (h : readNotesWith σf data (some t0) (some cs) ss = .ok (bpms, notes)) :
    bpms.map (·.1) = changeTimes t0 cs ∧ bpms.map (·.2) = cs.map (·.bpm) := by
  have hno : (cs.any fun b => decide (b.snap.beat ≠ 0)) = false := by
    rw [List.any_eq_false]
    intro c hc
    simp [hline c hc]
  have htr : fromBcSnap t0 cs true = .ok (tmOf t0 cs) := by
    unfold fromBcSnap
    rw [sortBcSnap_eq_self hs]
    cases cs with
    | nil => simp [firstAtZero] at h0
    | cons c rest =>
      simp only [firstAtZero, Bool.and_eq_true, decide_eq_true_eq] at h0
      have := fromBcSnapNoReseat_eq t0 (c :: rest) hwf hs (by simp [firstAtZero, h0.1, h0.2])
      simp [h0.1, h0.2, this]
      intro x hx hne
      exact absurd (hline x (List.mem_cons_of_mem _ hx)) hne
  unfold readNotesWith at h
  simp only [Option.getD_some, bind, Except.bind, Option.isNone_some, Bool.false_eq_true, ↓reduceIte] at h
  rw [fromBcSnapNoReseat_eq t0 cs hwf hs h0, htr] at h
  simp only at h
  have hb : bpms = (tmOf t0 cs).map (fun b => (b.offset, b.bpm)) := by
    repeat' split at h
    all_goals first
      | (cases h; rfl)
      | cases h
  subst hb
  refine ⟨?_, ?_⟩
  · rw [List.map_map]
    exact stored_times_eq_changeTimes t0 cs hwf hs
  · rw [List.map_map]
    exact tmOf_bpms t0 cs

/-- **`tempo_list_keeps_times`** — every `#BPMS` change is present in the chart's tempo list at its own millisecond
position, mid-measure changes included.  Under C11's hypotheses on the parsed `#BPMS` list (`Dom`: ascending,
well-formed, first at beat 0, no remainder inside the 1/1000 "extend" thresholds — true of every list on the
1/16-beat grid): the tempo list `_read_notes` stores contains the original changes in order, first on first, last on
last, at most one inserted point per original interval, each at exactly the time obtained by integrating the
file's beats (`inPts t0 cs`, `interleaveB 0 false`).  Uses C11 `seatFromD_spec`/`reseat_eq_ref` and the lemma that
the reseated (seated) list is stored at the times obtained by integrating it (`fromBcSnapNoReseat_seated`). -/
theorem tempo_list_keeps_times (σf : List Snap → List Nat) (data : Str) (t0 : Rat) (cs : List BcSnap) (ss : Bool)
    (hd : Dom extendThreshold cs) (bpms : List (Rat × Rat)) (notes : List Note)
    (h : readNotesWith σf data (some t0) (some cs) ss = .ok (bpms, notes)) :
    interleaveB 0 false (inPts t0 cs) (bpms.map (fun p => (⟨p.1, p.2⟩ : OutPt))) = true := by
  obtain ⟨tm, htm, hint⟩ := fromBcSnap_reseat_keeps_times t0 cs hd
  unfold readNotesWith at h
  simp only [Option.getD_some, bind, Except.bind, Option.isNone_some, Bool.false_eq_true, ↓reduceIte, htm] at h
  have hb : bpms = tm.map (fun b => (b.offset, b.bpm)) := by
    repeat' split at h
    all_goals first
      | (cases h; rfl)
      | cases h
  subst hb
  rw [List.map_map]
  exact hint

example : Dom extendThreshold [⟨120, 4, ⟨0, 0, some 4⟩⟩, ⟨60, 4, ⟨1, 1/2, some 4⟩⟩, ⟨200, 4, ⟨1, 25/16, some 4⟩⟩] := by
  unfold Dom; decide +kernel

/-! ### charts and their headers (text level) -/

/-- **Every chart is returned, each read from its own token** (any number of charts): for a text
`";".join(toks)`, if it reads, the number of charts is the number of `#NOTES` tokens and chart `i` is `SMMap.read`
of the `i`-th `#NOTES` token with the file's offset and tempo list. -/
theorem read_charts_each (toks : List Str) (hne : toks ≠ []) (hsemi : ∀ t ∈ toks, ';' ∉ t) (ms : MapSet)
    (h : read (joinWith [';'] toks) = .ok ms) :
    ms.charts.length = (notesTokens toks).length ∧
    ∃ st, foldlE metaLine {} (metaTokens toks) = .ok st ∧ ms.hdr = st.hdr ∧
      ∀ i (hi : i < (notesTokens toks).length) (hc : i < ms.charts.length),
        readMap st.hdr.offset st.bcs st.stopsSeen (notesTokens toks)[i] = .ok ms.charts[i] :=
  SM.read_charts_each toks hne hsemi ms h

/-- **Each chart's own five header fields**: a `#NOTES` token `pre:type:desc:diff:meter:radar:data` (no `:` inside
the pieces) that reads gives the chart whose type / description / difficulty are the stripped parameters 1–3,
whose meter is `int(parameter 4)`, whose radar is the floats of parameter 5, and whose objects and tempo list
come from `data`. -/
theorem chart_own_header (t0 : Option Rat) (bcs : Option (List BcSnap)) (ss : Bool)
    (pre ct ds df mv rv data : Str) (hc : ∀ p ∈ [pre, ct, ds, df, mv, rv, data], ':' ∉ p) (c : Chart)
    (h : readMap t0 bcs ss (joinWith [':'] [pre, ct, ds, df, mv, rv, data]) = .ok c) :
    c.chartType = strip ct ∧ c.description = strip ds ∧ c.difficulty = strip df ∧
    parseInt mv = .ok c.difficultyVal ∧ mapE parseFloat (splitOn ',' (strip rv)) = .ok c.groove ∧
    readNotes data t0 bcs ss = .ok (c.bpms, c.notes) :=
  SM.readMap_fields t0 bcs ss pre ct ds df mv rv data hc c h

/-! ### findings: D31 (repaired) as a regression theorem, D32 (open) as a counterexample on the model -/

def textNoStops : Str :=
  ['#','O','F','F','S','E','T',':','0',';','#','B','P','M','S',':','0','=','1','2','0',';','#','N','O','T','E','S',':','d','a','n','c','e','-','s','i','n','g','l','e',':',':',':','1',':','0',':','1','0','0','0','\n','0','0','0','0','\n','0','0','0','0','\n','0','0','0','0',';']
def textCommentColon : Str :=
  ['#','O','F','F','S','E','T',':','0',';','#','B','P','M','S',':','0','=','1','2','0',';','#','S','T','O','P','S',':',';','#','N','O','T','E','S',':','d','a','n','c','e','-','s','i','n','g','l','e',':',':',':','1',':','0',':','1','0','0','0','\n','0','1','0','0','\n','/','/',' ','a',':','b','\n','0','0','1','0','\n','0','0','0','1',';']
def textSample : Str :=
  ['#','O','F','F','S','E','T',':','-','0','.','5',';','#','B','P','M','S',':','0','=','1','2','0',';','#','S','T','O','P','S',':',';','#','N','O','T','E','S',':','d','a','n','c','e','-','s','i','n','g','l','e',':','d',':','H','a','r','d',':','5',':','0',',','0',':','1','0','0','0','\n','0','1','0','0','\n','0','0','1','0','\n','0','0','0','1','\n',',','\n','2','0','0','0','\n','0','0','0','0','\n','3','0','0','0','\n','0','0','0','0',';']

/-- **D31 (repaired)**: a text with no `#STOPS` tag reads (the stop list defaults to empty) and gives the chart
the StepMania rules give — one chart with one tap at beat 0. -/
theorem no_stops_tag_reads :
    (read textNoStops).toOption.map (fun ms => ms.charts.map (fun c => c.notes.map (fun n => (n.col, n.time)))) = some [[(0, 0)]] ∧
    (denote textNoStops).map (fun d => (d.stopsPresent, d.charts.map (fun c => c.notes.length))) = some (false, [1]) := by
  decide +kernel

/-- **D32 (open)**: a comment whose text contains ':' inside a chart: by the StepMania rules (comments are removed
first) the chart has 4 taps; the reader returns only the 2 after the comment. -/
theorem comment_colon_counterexample :
    (read textCommentColon).toOption.map (fun ms => ms.charts.map (fun c => c.notes.length)) = some [2] ∧
    (denote textCommentColon).map (fun d => d.charts.map (fun c => c.notes.length)) = some [4] := by
  decide +kernel

/-- non-vacuity of the whole chain on a concrete text (a hold, two measures): the model reads it, the denotation is
defined and inside the property's domain, and both give the same objects and times -/
example :
    (read textSample).toOption.map (fun ms => ms.charts.map (fun c => c.notes.map (fun n => (n.col, n.time, n.length))))
      = some [[(0, 500, 0), (1, 1000, 0), (2, 1500, 0), (3, 2000, 0), (0, 2500, 1000)]] := by
  decide +kernel

example :
    (denote textSample).map (fun d => d.charts.map (fun c =>
        (timedNotes (-1/2) [(0, 120)] c).map (fun n => (n.col, n.time, n.length))))
      = some [[(0, 500, 0), (1, 1000, 0), (2, 1500, 0), (3, 2000, 0), (0, 2500, 1000)]] ∧
    (denote textSample).map (fun d => d.charts.map (fun c => c.rowsMult4 && c.wellBracketed)) = some [true] := by
  decide +kernel

end Reamber.C02
