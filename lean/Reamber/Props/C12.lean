/-
C12 — Stacking writes through: editing the stack equals editing each list.
Property theorems (helper lemmas: `Reamber/Lemmas/Stack.lean`).  Statements are about the executable model
`Reamber/Model/Stack.lean` (tied to reamber/base/{Map,MapSet,Property}.py and the game Stackers by the
correspondence check and by `Generated/StackTables.lean`) against the specification `Reamber/Spec/Stack.lean`
(`specStep`: the same assignment applied to every covered list separately; nothing else changes).
-/
import Reamber.Lemmas.Stack

namespace Reamber.Stack

open Generated.Stack

/-! ### tie to the source tables -/

def allCols (lists : List (String × String × List String)) : List String := lists.flatMap (fun e => e.2.2)

/-- Tie to the source (re-checked whenever `Generated/StackTables.lean` changes):
* every property `stack_props` put on a game's `Stacker` names a column of at least one list of that game
  ("all properties must exist at least once"), and contains `Map.Stacker._props`;
* the mapset stackers have exactly the base properties;
* no list has a column called `index` (else `reset_index()` in `Stacker.__init__` raises) and no list repeats a column;
* every list class is a `TimedList` and appears in the MRO table; every map class has a property table. -/
theorem tables_tie :
    (mapLists.all fun (m, lists) =>
        (lookupD stackerProps m []).all (fun p => (allCols lists).contains p)
        && baseProps.all (fun p => (lookupD stackerProps m []).contains p)
        && lists.all (fun e => !e.2.2.contains "index" && decide e.2.2.Nodup
                                && (lookupD mro e.2.1 []).contains "TimedList" && (lookupD mro e.2.1 []).contains e.2.1)) = true
    ∧ (mapsetStackerProps.all fun (_, ps) => ps.all baseProps.contains && baseProps.all ps.contains) = true
    ∧ mapLists.map (·.1) = stackerProps.map (·.1)
    ∧ baseProps = ["offset", "column", "length", "bpm", "metronome"] := by
  decide +kernel

/-! ### one call -/

/-- **A new stacker is coupled** to the lists (any lists: empty ones, any row labels — labels are universally
quantified, they only end up in the `index` column of the copy). -/
theorem stack_coupled (w : MapW) (incl : Option (List String)) (hwf : ∀ l ∈ w.lists, WFList l)
    (hok : (step w (.stack incl)).2 = none) :
    ∃ s, (step w (.stack incl)).1.stackers = w.stackers ++ [s] ∧ (step w (.stack incl)).1.lists = w.lists
      ∧ Coupled s.srows 0 w.lists s.slots := by
  cases h : mkStacker (inclOf incl) w.lists with
  | error e => simp [step, h] at hok
  | ok s => exact ⟨s, by simp [step, h], by simp [step, h], coupled_mkStacker _ _ _ hwf h⟩

/-- **Write-through of one assignment.** If the stacker's copy is coupled to the lists, then after the
assignment + `_update` every list is what the *same assignment applied to that list alone* gives (`specTbls`):
member lists change exactly at the selected rows and assigned columns they own; lengths, row order, key, class,
other columns, lists lacking the column and non-member lists are untouched. -/
theorem assign_write_through (w : MapW) (sid : Nat) (s : Stacker) (a : Action)
    (hc : Coupled s.srows 0 w.lists s.slots) :
    contents (applyAction w sid s a).lists = specTbls a 0 (contents w.lists) (s.slots.map Option.isSome) := by
  unfold applyAction assign
  exact writeBack_spec a s.srows w.lists 0 s.slots hc

/-- the coupling invariant is preserved by every assignment through that stacker -/
theorem assign_keeps_coupled (w : MapW) (sid : Nat) (s : Stacker) (a : Action)
    (hc : Coupled s.srows 0 w.lists s.slots) :
    Coupled (assign s a).srows 0 (applyAction w sid s a).lists (assign s a).slots := by
  unfold applyAction assign
  exact coupled_writeBack a s.srows w.lists 0 s.slots hc

/-- labels after `_update`: list `k` is renumbered to its positions in the stack (stated, since C08 depends on it) -/
def LabelsArePositions : Nat → List TList → List (Option Nat) → Prop
  | _, [], _ => True
  | _, _ :: _, [] => True
  | off, _ :: ls, none :: ss => LabelsArePositions off ls ss
  | off, l :: ls, some n :: ss =>
      l.frame.rows.map (·.label) = (List.range l.frame.rows.length).map (fun i => ((off + i : Nat) : Int))
        ∧ LabelsArePositions (off + n) ls ss

theorem mkRows_labels (cols : List String) : ∀ (xs : List Cells) (i : Nat),
    (mkRows cols i xs).map (·.label) = (List.range xs.length).map (fun k => ((i + k : Nat) : Int)) := by
  intro xs
  induction xs with
  | nil => intro i; rfl
  | cons x xs ih =>
    intro i
    simp only [mkRows, List.map_cons, List.length_cons, List.range_succ_eq_map, List.map_map, ih (i + 1)]
    simp only [Nat.add_zero, List.cons.injEq, true_and]
    apply List.map_congr_left
    intro k _
    simp only [Function.comp]
    congr 1
    omega

theorem update_renumbers_labels (srows : List Cells) :
    ∀ (ls : List TList) (off : Nat) (slots : List (Option Nat)),
      LabelsArePositions off (writeBack srows off ls slots) slots := by
  intro ls
  induction ls with
  | nil => intro off slots; simp [writeBack, LabelsArePositions]
  | cons l ls ih =>
    intro off slots
    cases slots with
    | nil => simp [writeBack, LabelsArePositions]
    | cons s ss =>
      cases s with
      | none => simp only [writeBack, LabelsArePositions]; exact ih off ss
      | some n =>
        simp only [writeBack, LabelsArePositions]
        exact ⟨by rw [mkRows_labels, mkRows_length], ih (off + n) ss⟩

/-! ### histories -/

/-- simulation invariant between the chart with its live stackers and the abstract chart -/
def Sim (w : MapW) (sw : SpecW) : Prop :=
  sw.mcls = w.mcls ∧ sw.tbls = contents w.lists ∧ sw.handles = w.stackers.map (fun s => s.slots.map Option.isSome)

theorem sim_toSpec (w : MapW) : Sim w (toSpec w) := ⟨rfl, rfl, rfl⟩

theorem slotsOf_isSome (incl : Option (List String)) (ls : List TList) :
    (slotsOf (inclOf incl) ls).map Option.isSome = memberOf incl (contents ls) := by
  unfold slotsOf memberOf contents
  rw [List.map_map, List.map_map]
  apply List.map_congr_left
  intro l _
  cases incl with
  | none => simp [inclOf]
  | some tys =>
    simp only [Function.comp, inclOf, TList.content]
    by_cases h : tys.any (isInst l.cls) <;> simp [h]

theorem mkStacker_slots (incl : TList → Bool) (ls : List TList) (s : Stacker) (h : mkStacker incl ls = .ok s) :
    s.slots = slotsOf incl ls := by
  unfold mkStacker at h
  simp only at h
  split at h
  · cases h
  · split at h
    · cases h
    · injection h with h; subst h; rfl

theorem map_set_same {α β} (f : α → β) (l : List α) (i : Nat) (x y : α) (hi : l[i]? = some y) (hf : f x = f y) :
    (l.set i x).map f = l.map f := by
  apply List.ext_getElem?
  intro j
  by_cases hj : i = j
  · subst hj
    by_cases hl : i < l.length
    · have hy : l[i] = y := by
        have := List.getElem?_eq_getElem hl
        rw [this] at hi; exact Option.some.inj hi
      simp [hl, hf, hy]
    · have : l[i]? = none := by simp; omega
      rw [this] at hi; cases hi
  · simp [List.getElem?_set, hj]

/-- what `resolve` answers determines the specification's reading of the call -/
theorem resolve_act (props : List String) (s : Stacker) (op : Op) (a : Action)
    (h : resolve props s op = .ok (.act a)) : specAction props op = some a := by
  cases op with
  | stack incl => simp [resolve] at h
  | set sid col v =>
    cases v <;> simp only [resolve] at h <;> (repeat' split at h) <;> cases h <;> rfl
  | map sid col f => simp only [resolve] at h <;> (repeat' split at h) <;> cases h <;> rfl
  | locSet sid mask single cols v => simp only [resolve] at h <;> (repeat' split at h) <;> cases h <;> rfl
  | locMap sid mask cols f => simp only [resolve] at h <;> (repeat' split at h) <;> cases h <;> rfl
  | attrSet sid name v =>
    cases v <;> simp only [resolve] at h <;> (repeat' split at h) <;> cases h <;> simp_all [specAction]
  | attrMap sid name f =>
    simp only [resolve, bind, Except.bind] at h <;> (repeat' split at h) <;> cases h <;> simp_all [specAction]

theorem resolve_pyattr (props : List String) (s : Stacker) (op : Op) (n : String) (v : Value)
    (h : resolve props s op = .ok (.pyattr n v)) : specAction props op = none := by
  cases op with
  | stack incl => simp [resolve] at h
  | set sid col v' => cases v' <;> simp only [resolve] at h <;> (repeat' split at h) <;> cases h
  | map sid col f => simp only [resolve] at h <;> (repeat' split at h) <;> cases h
  | locSet sid mask single cols v' => simp only [resolve] at h <;> (repeat' split at h) <;> cases h
  | locMap sid mask cols f => simp only [resolve] at h <;> (repeat' split at h) <;> cases h
  | attrSet sid name v' =>
    cases v' <;> simp only [resolve] at h <;> (repeat' split at h) <;> cases h <;> simp_all [specAction]
  | attrMap sid name f =>
    simp only [resolve, bind, Except.bind] at h <;> (repeat' split at h) <;> cases h <;> simp_all [specAction]

theorem resolve_grow (props : List String) (s : Stacker) (op : Op) (col : String) (cs : List Cell)
    (h : resolve props s op = .ok (.grow col cs)) :
    s.srows = [] ∧ specAction props op = some ⟨allSel, [col], fun i _ _ => cs.getD i .nan⟩ := by
  cases op with
  | stack incl => simp [resolve] at h
  | set sid c v =>
    cases v <;> simp only [resolve] at h <;> (repeat' split at h) <;> cases h
    rename_i he
    simp only [Bool.and_eq_true, List.isEmpty_iff] at he
    exact ⟨he.1, rfl⟩
  | map sid c f => simp only [resolve] at h <;> (repeat' split at h) <;> cases h
  | locSet sid mask single cols v => simp only [resolve] at h <;> (repeat' split at h) <;> cases h
  | locMap sid mask cols f => simp only [resolve] at h <;> (repeat' split at h) <;> cases h
  | attrSet sid name v =>
    cases v <;> simp only [resolve] at h <;> (repeat' split at h) <;> cases h
    rename_i hp he
    simp only [Bool.and_eq_true, List.isEmpty_iff] at he
    refine ⟨he.1, ?_⟩
    simp_all [specAction]
  | attrMap sid name f =>
    simp only [resolve, bind, Except.bind] at h <;> (repeat' split at h) <;> cases h

theorem step_of_sid (w : MapW) (op : Op) (sid : Nat) (h : op.sid? = some sid) :
    step w op =
      match w.stackers[sid]? with
      | none => (w, some .nostacker)
      | some s =>
        match resolve (propsOf w.mcls) s op with
        | .error e => ({ w with stackers := w.stackers.set sid (errEffect s op) }, some e)
        | .ok (.pyattr name v) =>
            ({ w with stackers := w.stackers.set sid { s with pyattrs := (name, v) :: s.pyattrs } }, none)
        | .ok (.act a) => (applyAction w sid s a, none)
        | .ok (.grow col cs) =>
            ({ w with lists := writeBack (growStacker s col cs).srows 0 w.lists (growStacker s col cs).slots,
                      stackers := w.stackers.set sid (growStacker s col cs) }, none) := by
  cases op <;> simp [Op.sid?] at h <;> subst h <;> simp only [step, Op.sid?] <;> rfl

theorem specStep_of_sid (sw : SpecW) (op : Op) (sid : Nat) (h : op.sid? = some sid) :
    specStep sw op false =
      match specAction (propsOf sw.mcls) op with
      | some a =>
        (match sw.handles[sid]? with
         | some member => { sw with tbls := specTbls a 0 sw.tbls member }
         | none => sw)
      | none => sw := by
  cases op <;> simp [Op.sid?] at h <;> subst h <;> simp only [specStep, Op.sid?, Bool.false_eq_true, if_false]
    <;> (cases specAction (propsOf sw.mcls) _ <;> rfl)

theorem specStep_failed (sw : SpecW) (op : Op) : specStep sw op true = sw := by simp [specStep]

theorem growStacker_slots (s : Stacker) (col : String) (cs : List Cell) : (growStacker s col cs).slots = s.slots := rfl

/-- a failing call never touches the rows of the copy nor the list of covered lists -/
theorem errEffect_slots (s : Stacker) (op : Op) : (errEffect s op).slots = s.slots := by
  cases op <;> simp only [errEffect] <;> split <;> rfl

theorem errEffect_srows (s : Stacker) (op : Op) : (errEffect s op).srows = s.srows := by
  cases op <;> simp only [errEffect] <;> split <;> rfl

/-- **one call of a history**: the simulation is preserved when the stacker the call goes through is up to date -/
theorem step_sim (w : MapW) (sw : SpecW) (op : Op) (hs : Sim w sw) (hf : FreshAt w op) :
    Sim (step w op).1 (specStep sw op (step w op).2.isSome) := by
  obtain ⟨hm, ht, hh⟩ := hs
  cases hsid : op.sid? with
  | none =>
    cases op <;> simp only [Op.sid?] at hsid <;> try cases hsid
    rename_i incl
    cases h : mkStacker (inclOf incl) w.lists with
    | error e => simp only [step, h, Option.isSome_some, specStep_failed]; exact ⟨hm, ht, hh⟩
    | ok s =>
      simp only [step, h, Option.isSome_none, specStep]
      refine ⟨hm, ht, ?_⟩
      simp [hh, ht, mkStacker_slots _ _ _ h, slotsOf_isSome]
  | some sid =>
    rw [step_of_sid w op sid hsid]
    cases hst : w.stackers[sid]? with
    | none => simp only [hst, Option.isSome_some, specStep_failed]; exact ⟨hm, ht, hh⟩
    | some s =>
      have hcoup := hf sid s hsid hst
      have hhs : sw.handles[sid]? = some (s.slots.map Option.isSome) := by simp [hh, hst]
      cases hr : resolve (propsOf w.mcls) s op with
      | error e =>
        simp only [hst, hr, Option.isSome_some, specStep_failed]
        refine ⟨hm, ht, ?_⟩
        simp only [hh]
        exact (map_set_same (fun s : Stacker => s.slots.map Option.isSome) w.stackers sid (errEffect s op) s hst
          (by simp only [errEffect_slots])).symm
      | ok o =>
        cases o with
        | pyattr name v =>
          simp only [hst, hr, Option.isSome_none]
          rw [specStep_of_sid sw op sid hsid, hm, resolve_pyattr _ _ _ _ _ hr]
          refine ⟨hm, ht, ?_⟩
          simp only [hh]
          exact (map_set_same (fun s : Stacker => s.slots.map Option.isSome) w.stackers sid
            { s with pyattrs := (name, v) :: s.pyattrs } s hst rfl).symm
        | act a =>
          simp only [hst, hr, Option.isSome_none]
          rw [specStep_of_sid sw op sid hsid, hm, resolve_act _ _ _ _ hr]
          simp only [hhs]
          refine ⟨rfl, ?_, ?_⟩
          · simp only [ht]; exact (assign_write_through w sid s a hcoup).symm
          · simp only [hh, applyAction]
            exact (map_set_same (fun s : Stacker => s.slots.map Option.isSome) w.stackers sid (assign s a) s hst rfl).symm
        | grow col cs =>
          obtain ⟨hnil, hact⟩ := resolve_grow _ _ _ _ _ hr
          simp only [hst, hr, Option.isSome_none]
          rw [specStep_of_sid sw op sid hsid, hm, hact]
          simp only [hhs]
          rw [hnil] at hcoup
          refine ⟨rfl, ?_, ?_⟩
          · simp only [ht, growStacker_slots]
            exact (writeBack_of_empty _ _ w.lists 0 s.slots hcoup).symm
          · simp only [hh]
            exact (map_set_same (fun s : Stacker => s.slots.map Option.isSome) w.stackers sid (growStacker s col cs) s hst rfl).symm

/-- **write_through** — for every chart (any lists, empty ones, any row labels), every finite history of
`stack(include_types)`, property / item / `loc` assignments (scalar, array, `op=`; any boolean masks; one or several
columns; existing, foreign or new columns; calls that raise) through any number of stackers, *provided every
assignment goes through a stacker whose copy is up to date* (`Fresh`): the lists at the end are exactly what the
specification run gives — each successful assignment applied to each covered list separately, failed calls and
`stack()` changing nothing.  Row labels are not part of the statement (`update_renumbers_labels` says what they
become).  Without `Fresh` the statement is false for the code as written: `stale_stacker_counterexample` (D25). -/
theorem write_through (w : MapW) (ops : List Op) (hfresh : Fresh w ops) :
    contents (run w ops).lists = (specRun (toSpec w) (ops.zip (errs w ops))).tbls := by
  have key : ∀ (ops : List Op) (w : MapW) (sw : SpecW), Sim w sw → Fresh w ops →
      Sim (run w ops) (specRun sw (ops.zip (errs w ops))) := by
    intro ops
    induction ops with
    | nil => intro w sw hs _; exact hs
    | cons op ops ih =>
      intro w sw hs hf
      simp only [run, errs, List.zip_cons_cons, specRun]
      exact ih _ _ (step_sim w sw op hs hf.1) hf.2
  exact ((key ops w _ (sim_toSpec w) hfresh).2.1).symm

/-! ### the decidable form of the hypothesis (what the harness reports as `dom`) -/

theorem coupled_of_coupledB (srows : List Cells) : ∀ (ls : List TList) (off : Nat) (slots : List (Option Nat)),
    coupledB srows off ls slots = true → Coupled srows off ls slots := by
  intro ls
  induction ls with
  | nil => intro off slots _; simp [Coupled]
  | cons l ls ih =>
    intro off slots h
    cases slots with
    | nil => simp [Coupled]
    | cons s ss =>
      cases s with
      | none => simp only [coupledB] at h; simp only [Coupled]; exact ih off ss h
      | some n =>
        simp only [coupledB, Bool.and_eq_true, decide_eq_true_eq] at h
        simp only [Coupled]
        exact ⟨h.1.1, h.1.2, ih (off + n) ss h.2⟩

theorem freshAt_of_freshAtB (w : MapW) (op : Op) (h : freshAtB w op = true) : FreshAt w op := by
  intro sid s hsid hst
  simp only [freshAtB, hsid, hst] at h
  exact coupled_of_coupledB _ _ _ _ h

theorem fresh_of_freshTrace (w : MapW) (ops : List Op) (h : (freshTrace w ops).all id = true) : Fresh w ops := by
  induction ops generalizing w with
  | nil => trivial
  | cons op ops ih =>
    simp only [freshTrace, List.all_cons, id, Bool.and_eq_true] at h
    exact ⟨freshAt_of_freshAtB w op h.1, ih _ h.2⟩

/-! ### the frame part, read off the specification -/

/-- lengths, keys, classes, column lists of *all* lists are untouched by an assignment -/
theorem spec_frame (a : Action) : ∀ (ts : List Tbl) (off : Nat) (ms : List Bool),
    (specTbls a off ts ms).map (fun t => (t.key, t.cls, t.cols, t.rows.length, t.rows.map keys))
      = ts.map (fun t => (t.key, t.cls, t.cols, t.rows.length, t.rows.map keys)) := by
  intro ts
  induction ts with
  | nil => intro off ms; simp [specTbls]
  | cons t ts ih =>
    intro off ms
    cases ms with
    | nil => simp [specTbls]
    | cons m ms =>
      cases m with
      | false => simp [specTbls, ih]
      | true =>
        simp only [specTbls, List.map_cons, ih, List.cons.injEq, and_true, Prod.mk.injEq, true_and]
        refine ⟨specRows_length _ _ _ _ _, ?_⟩
        generalize off = i
        induction t.rows generalizing i with
        | nil => rfl
        | cons r rs ihr =>
          simp only [specRows, List.map_cons, ihr]
          by_cases hs : a.sel i <;> simp [hs, keys_specCells]

/-- a column that is not assigned keeps every value, in every list -/
theorem spec_other_columns (a : Action) (c : String) (hc : a.cols.contains c = false) :
    ∀ (ts : List Tbl) (off : Nat) (ms : List Bool),
      (specTbls a off ts ms).map (fun t => t.rows.map (fun r => getC r c)) = ts.map (fun t => t.rows.map (fun r => getC r c)) := by
  intro ts
  induction ts with
  | nil => intro off ms; simp [specTbls]
  | cons t ts ih =>
    intro off ms
    cases ms with
    | nil => simp [specTbls]
    | cons m ms =>
      cases m with
      | false => simp [specTbls, ih]
      | true =>
        simp only [specTbls, List.map_cons, ih, List.cons.injEq, and_true]
        generalize off = i
        induction t.rows generalizing i with
        | nil => rfl
        | cons r rs ihr =>
          simp only [specRows, List.map_cons, ihr, List.cons.injEq, and_true]
          by_cases hs : a.sel i
          · simp only [hs, if_true]
            by_cases hm : c ∈ keys r
            · rw [getC_specCells_mem _ _ _ _ hm, hc]; simp
            · rw [getC_of_not_mem _ _ hm, getC_of_not_mem _ _ (by rw [keys_specCells]; exact hm)]
          · simp [hs]

/-- a list that is not covered by the stack (`include_types`) is untouched, whatever is assigned.

Bystanders — lists *outside* the edited chart (a second chart that was given this chart's lists, `hard.bpms = easy.bpms`;
a free-standing `ListClass(m.hits)`) — need no theorem of their own: the model has value semantics, `step`/`sstep` map a
chart (a mapset) to a chart (a mapset) and cannot mention any other value, so "nothing outside the covered lists
changes" is this lemma together with `spec_frame`; for charts of a mapset beyond the assigned frame it is the last
clause of `mapset_broadcast`.  What the model cannot exhibit is *aliasing* in the implementation (two list objects on
one DataFrame, a stack that is a view of a list's frame): that part is observed by the harness, which keeps such
bystanders next to every history and requires them to be bit-for-bit unchanged after every call. -/
theorem spec_nonmember (a : Action) : ∀ (ts : List Tbl) (off : Nat) (ms : List Bool) (k : Nat),
    ms[k]? = some false → (specTbls a off ts ms)[k]? = ts[k]? := by
  intro ts
  induction ts with
  | nil => intro off ms k _; simp [specTbls]
  | cons t ts ih =>
    intro off ms k hk
    cases ms with
    | nil => simp at hk
    | cons m ms =>
      cases k with
      | zero => simp at hk; subst hk; simp [specTbls]
      | succ k =>
        simp only [List.getElem?_cons_succ] at hk
        cases m with
        | false => simp only [specTbls, List.getElem?_cons_succ]; exact ih off ms k hk
        | true => simp only [specTbls, List.getElem?_cons_succ]; exact ih _ ms k hk

/-! ### the hypothesis is needed: D25, and non-vacuity -/

def cexW : MapW :=
  ⟨"Map",
   [⟨"hits", "HitList", ⟨["offset", "column"], [⟨0, [("offset", .num 1000), ("column", .num 1)]⟩,
                                                   ⟨7, [("offset", .num 2000), ("column", .num 2)]⟩]⟩⟩,
    ⟨"holds", "HoldList", ⟨["offset", "column", "length"], []⟩⟩,
    ⟨"bpms", "BpmList", ⟨["offset", "bpm", "metronome"], [⟨0, [("offset", .num 0), ("bpm", .num 120), ("metronome", .num 4)]⟩]⟩⟩],
   []⟩

/-- `s0 = m.stack(); s1 = m.stack(); s1.offset += 1; s0.column += 1` -/
def cexOps : List Op := [.stack none, .stack none, .attrMap 1 "offset" (.add 1), .attrMap 0 "column" (.add 1)]

/-- **D25 (counterexample for the code as written).** With a second live stacker the older one is stale: its
assignment to `column` writes its whole copy back and the offsets fall back from 1001/2001 to 1000/2000, whereas the
assignment applied to the lists themselves leaves the offsets alone.  `Fresh` fails exactly at that call. -/
theorem stale_stacker_counterexample :
    contents (run cexW cexOps).lists ≠ (specRun (toSpec cexW) (cexOps.zip (errs cexW cexOps))).tbls
    ∧ ((run cexW cexOps).lists.head?.map (fun l => l.frame.rows.map (fun r => getC r.cells "offset")))
        = some [.num 1000, .num 2000]
    ∧ ((specRun (toSpec cexW) (cexOps.zip (errs cexW cexOps))).tbls.head?.map (fun t => t.rows.map (fun r => getC r "offset")))
        = some [.num 1001, .num 2001]
    ∧ freshTrace cexW cexOps = [true, true, true, false] := by
  decide +kernel

/-- non-vacuity of `write_through`: the same history without the stale call is `Fresh`, and it does change the lists -/
example : Fresh cexW (cexOps.take 3) := fresh_of_freshTrace _ _ (by decide +kernel)

example : (contents (run cexW (cexOps.take 3)).lists).map (fun t => t.rows.map (fun r => getC r "offset"))
    = [[.num 1001, .num 2001], [], [.num 1]] := by decide +kernel

/-- non-vacuity of `stack_coupled` / `assign_write_through`: well-formed lists with gapped labels, a `loc` assignment -/
example : (∀ l ∈ cexW.lists, wfListB l = true) ∧ (step cexW (.stack (some ["NoteList"]))).2 = none := by decide +kernel

example : (contents (run cexW [.stack (some ["NoteList"]), .locMap 0 [false, true] ["offset", "column"] (.mul 2)]).lists).map
      (fun t => t.rows.map (fun r => (getC r "offset", getC r "column")))
    = [[(.num 1000, .num 1), (.num 4000, .num 4)], [], [(.num 0, .nan)]] := by decide +kernel

/-- the error branches are covered, not totalised away: a raising call changes nothing in the model -/
example : (runTrace cexW [.stack none, .attrMap 0 "volume" (.add 1), .locSet 0 [true] true ["offset"] (.num 5),
                           .set 0 "offset" (.array [.num 1]), .stack (some ["SMStopList"])]).map (·.2)
    = [none, some .attr, some .index, some .value, some .value] := by decide +kernel

end Reamber.Stack

namespace Reamber.Stack

/-! ### mapsets: row `k` of the assigned frame goes to chart `k` -/

theorem alignRow_length : ∀ (n : Nat) (row : List Cell), (alignRow n row).length = n := by
  intro n
  induction n with
  | zero => intro row; rfl
  | succ n ih => intro row; cases row <;> simp [alignRow, ih]

/-- label alignment: inside the stack, position `i` receives `row[i]` (NaN beyond the end of the row) -/
theorem getD_alignRow : ∀ (n : Nat) (row : List Cell) (i : Nat), i < n →
    (alignRow n row).getD i .nan = row.getD i .nan := by
  intro n
  induction n with
  | zero => intro row i h; omega
  | succ n ih =>
    intro row i h
    cases row with
    | nil =>
      cases i with
      | zero => simp [alignRow]
      | succ i => simp only [alignRow, List.getD_cons_succ]; rw [ih [] i (by omega)]; simp
    | cons c cs =>
      cases i with
      | zero => simp [alignRow]
      | succ i => simp only [alignRow, List.getD_cons_succ]; exact ih cs i (by omega)

theorem updRows_congr (sel : Nat → Bool) (cols : List String) (g g' : Nat → String → Cell → Cell) :
    ∀ (rows : List Cells) (i : Nat), (∀ k, i ≤ k → k < i + rows.length → g k = g' k) →
      updRows sel cols g i rows = updRows sel cols g' i rows := by
  intro rows
  induction rows with
  | nil => intro i _; rfl
  | cons r rs ih =>
    intro i h
    simp only [updRows]
    rw [h i (Nat.le_refl _) (by simp), ih (i + 1) (fun k h1 h2 => h k (by omega) (by simp; omega))]

/-- one chart of a mapset assignment: `s[key] = row` (a Series labelled `0…`) is the per-list assignment of
`row[i]` at stack position `i` -/
theorem mapset_chart_assign (m : MapW) (sid : Nat) (s : Stacker) (key : String) (row : List Cell)
    (hst : m.stackers[sid]? = some s) (hc : Coupled s.srows 0 m.lists s.slots) :
    contents (step m (.set sid key (.array (alignRow s.srows.length row)))).1.lists
      = specTbls ⟨allSel, [key], fun i _ _ => row.getD i .nan⟩ 0 (contents m.lists) (s.slots.map Option.isSome) := by
  rw [step_of_sid m _ sid rfl]
  simp only [hst]
  have hres : resolve (propsOf m.mcls) s (.set sid key (.array (alignRow s.srows.length row)))
      = .ok (.act ⟨allSel, [key], fun i _ _ => (alignRow s.srows.length row).getD i .nan⟩) := by
    simp only [resolve, alignRow_length]
    by_cases he : s.srows = []
    · simp [he, alignRow]
    · have : ¬ (s.srows.isEmpty = true) := by simpa using he
      simp [this]
  simp only [hres]
  have heq : (applyAction m sid s ⟨allSel, [key], fun i _ _ => (alignRow s.srows.length row).getD i .nan⟩).lists
      = (applyAction m sid s ⟨allSel, [key], fun i _ _ => row.getD i .nan⟩).lists := by
    simp only [applyAction, assign]
    rw [updRows_congr allSel [key] _ (fun i _ _ => row.getD i .nan) s.srows 0
      (fun k _ hk => by funext _ _; exact getD_alignRow _ _ _ (by omega))]
  rw [heq]
  exact assign_write_through m sid s _ hc

/-- every chart's stacker behind the mapset stacker is up to date -/
def ChartsFresh : List MapW → List Nat → Prop
  | m :: ms, sid :: sids => (∃ s, m.stackers[sid]? = some s ∧ Coupled s.srows 0 m.lists s.slots) ∧ ChartsFresh ms sids
  | _, _ => True

def memberAt (m : MapW) (sid : Nat) : List Bool :=
  match m.stackers[sid]? with
  | some s => s.slots.map Option.isSome
  | none => []

/-- the mapset assignment, chart by chart, as per-list assignments; charts beyond the frame's rows are not assigned -/
def specSetT (key : String) : List MapW → List Nat → List (List Cell) → List (List Tbl)
  | m :: ms, sid :: sids, row :: rows =>
      specTbls ⟨allSel, [key], fun i _ _ => row.getD i .nan⟩ 0 (contents m.lists) (memberAt m sid) :: specSetT key ms sids rows
  | ms, _, _ => ms.map (fun m => contents m.lists)

/-- **mapset_broadcast**: `MapSet.Stacker.__setitem__` assigns row `k` of the frame to chart `k` — the same per-list
assignment as for a single chart — and leaves the charts beyond the frame's rows alone (any number of charts, charts
of different lengths, empty charts, rows shorter or longer than the chart). -/
theorem mapset_broadcast (key : String) : ∀ (maps : List MapW) (sids : List Nat) (rows : List (List Cell)),
    ChartsFresh maps sids →
    (setRows key maps sids rows).map (fun m => contents m.lists) = specSetT key maps sids rows := by
  intro maps
  induction maps with
  | nil => intro sids rows _; cases sids <;> cases rows <;> simp [setRows, specSetT]
  | cons m ms ih =>
    intro sids rows hf
    cases sids with
    | nil => simp [setRows, specSetT]
    | cons sid sids =>
      cases rows with
      | nil => simp [setRows, specSetT]
      | cons row rows =>
        obtain ⟨⟨s, hst, hc⟩, hrest⟩ := hf
        simp only [setRows, specSetT, List.map_cons, hst, memberAt, ih sids rows hrest]
        rw [mapset_chart_assign m sid s key row hst hc]

end Reamber.Stack

namespace Reamber.Stack

/-! ### ordinary usage: every assignment goes through the most recently created stacker -/

/-- invariant of such histories: the lists are well-formed and the newest stacker is coupled -/
def LastCoupled (w : MapW) : Prop :=
  (∀ l ∈ w.lists, WFList l) ∧
  ∀ s, w.stackers[w.stackers.length - 1]? = some s → Coupled s.srows 0 w.lists s.slots

theorem getElem?_set_last {α} (l : List α) (i : Nat) (x y : α) (hi : l[i]? = some y) (hl : l.length ≤ i + 1) :
    (l.set i x)[(l.set i x).length - 1]? = some x := by
  have hlt : i < l.length := by
    by_cases h : i < l.length
    · exact h
    · have : l[i]? = none := by simp; omega
      rw [this] at hi; cases hi
  have : l.length - 1 = i := by omega
  rw [List.length_set, this, List.getElem?_set_self hlt]

theorem lastCoupled_freshAt (w : MapW) (op : Op) (hj : LastCoupled w) (hl : latestAtB w op = true) : FreshAt w op := by
  intro sid s hsid hst
  simp only [latestAtB, hsid, decide_eq_true_eq] at hl
  have hlt : sid < w.stackers.length := by
    by_cases h : sid < w.stackers.length
    · exact h
    · have : w.stackers[sid]? = none := by simp; omega
      rw [this] at hst; cases hst
  have : w.stackers.length - 1 = sid := by omega
  exact hj.2 s (by rw [this]; exact hst)

theorem lastCoupled_step (w : MapW) (op : Op) (hj : LastCoupled w) (hl : latestAtB w op = true) :
    LastCoupled (step w op).1 := by
  obtain ⟨hwf, hlast⟩ := hj
  cases hsid : op.sid? with
  | none =>
    cases op <;> simp only [Op.sid?] at hsid <;> try cases hsid
    rename_i incl
    cases h : mkStacker (inclOf incl) w.lists with
    | error e => simp only [step, h]; exact ⟨hwf, hlast⟩
    | ok s =>
      simp only [step, h]
      refine ⟨hwf, ?_⟩
      intro s' hs'
      simp at hs'
      subst hs'
      exact coupled_mkStacker _ _ _ hwf h
  | some sid =>
    rw [step_of_sid w op sid hsid]
    simp only [latestAtB, hsid, decide_eq_true_eq] at hl
    cases hst : w.stackers[sid]? with
    | none => simp only [hst]; exact ⟨hwf, hlast⟩
    | some s =>
      have hlt : sid < w.stackers.length := by
        by_cases h : sid < w.stackers.length
        · exact h
        · have : w.stackers[sid]? = none := by simp; omega
          rw [this] at hst; cases hst
      have hidx : w.stackers.length - 1 = sid := by omega
      have hcoup : Coupled s.srows 0 w.lists s.slots := hlast s (by rw [hidx]; exact hst)
      cases hr : resolve (propsOf w.mcls) s op with
      | error e =>
        simp only [hst, hr]
        refine ⟨hwf, ?_⟩
        intro s' hs'
        simp only at hs'
        rw [getElem?_set_last _ _ _ _ hst hl] at hs'
        cases hs'
        rw [errEffect_srows, errEffect_slots]
        exact hcoup
      | ok o =>
        cases o with
        | pyattr name v =>
          simp only [hst, hr]
          refine ⟨hwf, ?_⟩
          intro s' hs'
          simp only at hs'
          rw [getElem?_set_last _ _ _ _ hst hl] at hs'
          cases hs'
          exact hcoup
        | act a =>
          simp only [hst, hr]
          refine ⟨wf_writeBack _ _ _ _ hwf, ?_⟩
          intro s' hs'
          simp only [applyAction] at hs'
          rw [getElem?_set_last _ _ _ _ hst hl] at hs'
          cases hs'
          exact assign_keeps_coupled w sid s a hcoup
        | grow col cs =>
          obtain ⟨hnil, _⟩ := resolve_grow _ _ _ _ _ hr
          simp only [hst, hr]
          refine ⟨wf_writeBack _ _ _ _ hwf, ?_⟩
          intro s' hs'
          simp only at hs'
          rw [getElem?_set_last _ _ _ _ hst hl] at hs'
          cases hs'
          rw [hnil] at hcoup
          exact coupled_of_empty _ w.lists 0 s.slots hcoup

theorem latest_fresh (w : MapW) (ops : List Op) (hj : LastCoupled w) (hl : Latest w ops) : Fresh w ops := by
  induction ops generalizing w with
  | nil => trivial
  | cons op ops ih =>
    exact ⟨lastCoupled_freshAt w op hj hl.1, ih _ (lastCoupled_step w op hj hl.1) hl.2⟩

/-- **write_through_latest** — no hypothesis on the run: for every well-formed chart without live stackers (any
lists, empty ones, any labels) and every finite history in which each assignment goes through the most recently
created stacker of the chart (the ordinary usage: `m.stack().x = …`, `s = m.stack(); s.a op= …; s.loc[…] = …`, repeated
re-stacking, `include_types`, raising calls), the lists at the end are what the specification run gives.  `Latest` is
a condition on the *calls* only (which stacker each one names). -/
theorem write_through_latest (w : MapW) (ops : List Op) (hwf : ∀ l ∈ w.lists, WFList l) (h0 : w.stackers = [])
    (hl : Latest w ops) :
    contents (run w ops).lists = (specRun (toSpec w) (ops.zip (errs w ops))).tbls :=
  write_through w ops (latest_fresh w ops ⟨hwf, by intro s hs; simp [h0] at hs⟩ hl)

theorem latest_of_latestTrace (w : MapW) (ops : List Op) (h : (latestTrace w ops).all id = true) : Latest w ops := by
  induction ops generalizing w with
  | nil => trivial
  | cons op ops ih =>
    simp only [latestTrace, List.all_cons, id, Bool.and_eq_true] at h
    exact ⟨h.1, ih _ h.2⟩

theorem wfList_of_wfListB (l : TList) (h : wfListB l = true) : WFList l := by
  simp only [wfListB, Bool.and_eq_true, decide_eq_true_eq, List.all_eq_true] at h
  exact ⟨h.1, fun r hr => h.2 r hr⟩

/-- non-vacuity: the docstring usage (`stack.offset *= 2`; inline `m.stack().offset *= 2`; `loc`) is `Latest` -/
example : Latest cexW [.stack none, .attrMap 0 "offset" (.mul 2), .stack none, .attrMap 1 "offset" (.mul 2),
                        .locMap 1 [false, true, false] ["column"] (.add 1)] :=
  latest_of_latestTrace _ _ (by decide +kernel)

/-- …and the D25 history is not -/
example : latestTrace cexW cexOps = [true, true, true, false] := by decide +kernel

end Reamber.Stack

namespace Reamber.Stack

/-! ### mapset histories -/

def ChartsSim : List MapW → List SpecW → Prop
  | [], [] => True
  | m :: ms, c :: cs => Sim m c ∧ ChartsSim ms cs
  | _, _ => False

/-- simulation invariant between a mapset with its live stackers and the abstract mapset -/
def SetSim (w : SetW) (sw : SpecSetW) : Prop :=
  sw.scls = w.scls ∧ ChartsSim w.maps sw.charts ∧ sw.mhandles = w.mstackers

/-- every chart's stacker behind the mapset stacker is up to date (hypothesis; D25 per chart otherwise) -/
def ChartsFreshW : List MapW → List Nat → Prop
  | m :: ms, sid :: sids => (∀ s, m.stackers[sid]? = some s → Coupled s.srows 0 m.lists s.slots) ∧ ChartsFreshW ms sids
  | _, _ => True

def SFreshAt (w : SetW) (op : SOp) : Prop :=
  ∀ i sids, op.ms? = some i → w.mstackers[i]? = some sids → ChartsFreshW w.maps sids

def SFresh (w : SetW) : List SOp → Prop
  | [] => True
  | op :: ops => SFreshAt w op ∧ SFresh (sstep w op).1 ops

theorem chartsSim_toSpec : ∀ (ms : List MapW), ChartsSim ms (ms.map toSpec) := by
  intro ms
  induction ms with
  | nil => trivial
  | cons m ms ih => exact ⟨sim_toSpec m, ih⟩

theorem chartsSim_tbls : ∀ (ms : List MapW) (cs : List SpecW), ChartsSim ms cs →
    ms.map (fun m => contents m.lists) = cs.map (·.tbls) := by
  intro ms
  induction ms with
  | nil => intro cs h; cases cs with
    | nil => rfl
    | cons c cs => exact absurd h (by simp [ChartsSim])
  | cons m ms ih =>
    intro cs h
    cases cs with
    | nil => exact absurd h (by simp [ChartsSim])
    | cons c cs =>
      obtain ⟨h1, h2⟩ := h
      simp only [List.map_cons, ih cs h2, h1.2.1]

theorem sim_handles_length (m : MapW) (c : SpecW) (h : Sim m c) : c.handles.length = m.stackers.length := by
  rw [h.2.2]; simp

theorem freshAt_stack (m : MapW) (incl : Option (List String)) : FreshAt m (.stack incl) := by
  intro sid s hsid _; simp [Op.sid?] at hsid

/-- `[_.stack() for _ in self]` against "every chart gets a new handle" -/
theorem stackAll_sim : ∀ (maps : List MapW) (charts : List SpecW), ChartsSim maps charts →
    ∀ ms sids, stackAll maps = .ok (ms, sids) →
      ChartsSim ms (charts.map (fun c => specStep c (.stack none) false)) ∧ sids = charts.map (fun c => c.handles.length) := by
  intro maps
  induction maps with
  | nil =>
    intro charts h ms sids hs
    cases charts with
    | nil => simp only [stackAll, Except.ok.injEq, Prod.mk.injEq] at hs; obtain ⟨rfl, rfl⟩ := hs; exact ⟨trivial, rfl⟩
    | cons c cs => exact absurd h (by simp [ChartsSim])
  | cons m maps ih =>
    intro charts h ms sids hs
    cases charts with
    | nil => exact absurd h (by simp [ChartsSim])
    | cons c cs =>
      obtain ⟨h1, h2⟩ := h
      have hstep := step_sim m c (.stack none) h1 (freshAt_stack m none)
      simp only [stackAll] at hs
      cases hres : step m (.stack none) with
      | mk m' e =>
        rw [hres] at hs hstep
        cases e with
        | some e => simp at hs
        | none =>
          simp only at hs
          cases hrest : stackAll maps with
          | error e => rw [hrest] at hs; simp at hs
          | ok p =>
            obtain ⟨ms', sids'⟩ := p
            rw [hrest] at hs
            simp only [Except.ok.injEq, Prod.mk.injEq] at hs
            obtain ⟨rfl, rfl⟩ := hs
            obtain ⟨ih1, ih2⟩ := ih cs h2 ms' sids' hrest
            simp only [Option.isSome_none] at hstep
            exact ⟨⟨hstep, ih1⟩, by simp [ih2, sim_handles_length m c h1]⟩

theorem step_set_aligned (m : MapW) (sid : Nat) (s : Stacker) (key : String) (row : List Cell)
    (hst : m.stackers[sid]? = some s) :
    step m (.set sid key (.array (alignRow s.srows.length row)))
      = (applyAction m sid s ⟨allSel, [key], fun i _ _ => (alignRow s.srows.length row).getD i .nan⟩, none) := by
  rw [step_of_sid m _ sid rfl]
  simp only [hst]
  have hres : resolve (propsOf m.mcls) s (.set sid key (.array (alignRow s.srows.length row)))
      = .ok (.act ⟨allSel, [key], fun i _ _ => (alignRow s.srows.length row).getD i .nan⟩) := by
    simp only [resolve, alignRow_length]
    by_cases he : s.srows = []
    · simp [he, alignRow]
    · have : ¬ (s.srows.isEmpty = true) := by simpa using he
      simp [this]
  simp only [hres]

/-- one chart of a mapset frame assignment keeps the simulation -/
theorem chart_set_sim (m : MapW) (c : SpecW) (sid : Nat) (key : String) (row : List Cell) (hs : Sim m c)
    (hf : ∀ s, m.stackers[sid]? = some s → Coupled s.srows 0 m.lists s.slots) :
    Sim (step m (.set sid key (.array (alignRow (match m.stackers[sid]? with | some s => s.srows.length | none => 0) row)))).1
        (specStep c (.set sid key (.array row)) false) := by
  obtain ⟨hm, ht, hh⟩ := hs
  rw [specStep_of_sid c _ sid rfl]
  cases hst : m.stackers[sid]? with
  | none =>
    have hnone : c.handles[sid]? = none := by simp [hh, hst]
    rw [step_of_sid m _ sid rfl]
    simp only [hst, specAction, hnone]
    exact ⟨hm, ht, hh⟩
  | some s =>
    have hhs : c.handles[sid]? = some (s.slots.map Option.isSome) := by simp [hh, hst]
    simp only [specAction, hhs]
    refine ⟨?_, ?_, ?_⟩
    · rw [step_set_aligned m sid s key row hst]; exact hm
    · have := mapset_chart_assign m sid s key row hst (hf s hst)
      simp only [ht]; exact this.symm
    · rw [step_set_aligned m sid s key row hst]
      simp only [hh, applyAction]
      exact (map_set_same (fun s : Stacker => s.slots.map Option.isSome) m.stackers sid
        (assign s ⟨allSel, [key], fun i _ _ => (alignRow s.srows.length row).getD i .nan⟩) s hst rfl).symm

theorem setRows_sim (key : String) : ∀ (maps : List MapW) (charts : List SpecW) (sids : List Nat) (rows : List (List Cell)),
    ChartsSim maps charts → ChartsFreshW maps sids →
    ChartsSim (setRows key maps sids rows) (specSetRows key charts sids rows) := by
  intro maps
  induction maps with
  | nil =>
    intro charts sids rows h _
    cases charts with
    | nil => cases sids <;> cases rows <;> simp [setRows, specSetRows, ChartsSim]
    | cons c cs => exact absurd h (by simp [ChartsSim])
  | cons m ms ih =>
    intro charts sids rows h hf
    cases charts with
    | nil => exact absurd h (by simp [ChartsSim])
    | cons c cs =>
      cases sids with
      | nil => simpa [setRows, specSetRows] using h
      | cons sid sids =>
        cases rows with
        | nil => simpa [setRows, specSetRows] using h
        | cons row rows =>
          obtain ⟨h1, h2⟩ := h
          obtain ⟨f1, f2⟩ := hf
          simp only [setRows, specSetRows]
          exact ⟨chart_set_sim m c sid key row h1 f1, ih cs sids rows h2 f2⟩

theorem step_map_noerr (m : MapW) (sid : Nat) (s : Stacker) (key : String) (f : Fn)
    (hst : m.stackers[sid]? = some s) (hk : s.scols.contains key = true) (hv : s.voidcols.contains key = false)
    (he : evalOk f allSel [key] 0 s.srows = true) : (step m (.map sid key f)).2 = none := by
  rw [step_of_sid m _ sid rfl]
  simp only [hst, resolve, hk, hv, he]
  simp

theorem mapRows_sim (key : String) (f : Fn) : ∀ (maps : List MapW) (charts : List SpecW) (sids : List Nat),
    ChartsSim maps charts → ChartsFreshW maps sids → getErr key (some f) maps sids = none →
    ChartsSim (mapRows key f maps sids) (specMapRows key f charts sids) := by
  intro maps
  induction maps with
  | nil =>
    intro charts sids h _ _
    cases charts with
    | nil => cases sids <;> simp [mapRows, specMapRows, ChartsSim]
    | cons c cs => exact absurd h (by simp [ChartsSim])
  | cons m ms ih =>
    intro charts sids h hf hg
    cases charts with
    | nil => exact absurd h (by simp [ChartsSim])
    | cons c cs =>
      cases sids with
      | nil => simpa [mapRows, specMapRows] using h
      | cons sid sids =>
        obtain ⟨h1, h2⟩ := h
        obtain ⟨f1, f2⟩ := hf
        simp only [getErr] at hg
        cases hst : m.stackers[sid]? with
        | none => simp [hst] at hg
        | some s =>
          simp only [hst] at hg
          split at hg
          · cases hg
          · rename_i hk
            cases hrest : getErr key (some f) ms sids with
            | some e => simp [hrest] at hg
            | none =>
              simp only [hrest] at hg
              split at hg
              · rename_i hok
                simp only [Bool.and_eq_true, Bool.not_eq_true'] at hok
                have hk' : s.scols.contains key = true := by simpa using hk
                have hne := step_map_noerr m sid s key f hst hk' hok.1 hok.2
                have hstep := step_sim m c (.map sid key f) h1
                  (by intro sid' s' hsid' hs'; simp only [Op.sid?, Option.some.injEq] at hsid'; subst hsid'; exact f1 s' hs')
                rw [hne] at hstep
                simp only [mapRows, specMapRows]
                exact ⟨hstep, ih cs sids h2 f2 hrest⟩
              · cases hg

/-- **one call on a mapset stacker** keeps the simulation -/
theorem sstep_sim (w : SetW) (sw : SpecSetW) (op : SOp) (hs : SetSim w sw) (hf : SFreshAt w op) :
    SetSim (sstep w op).1 (specSStep sw op (sstep w op).2.isSome) := by
  obtain ⟨hc, hch, hmh⟩ := hs
  cases op with
  | stack =>
    simp only [sstep]
    cases hsa : stackAll w.maps with
    | error e => simp only [Option.isSome_some, specSStep, if_true]; exact ⟨hc, hch, hmh⟩
    | ok p =>
      obtain ⟨ms, sids⟩ := p
      obtain ⟨h1, h2⟩ := stackAll_sim w.maps sw.charts hch ms sids hsa
      simp only [Option.isSome_none, specSStep, Bool.false_eq_true, if_false]
      exact ⟨hc, h1, by simp [hmh, h2]⟩
  | set i key rows =>
    simp only [sstep]
    cases hi : w.mstackers[i]? with
    | none => simp only [Option.isSome_some, specSStep, if_true]; exact ⟨hc, hch, hmh⟩
    | some sids =>
      have hi' : sw.mhandles[i]? = some sids := by rw [hmh]; exact hi
      simp only [Option.isSome_none, specSStep, Bool.false_eq_true, if_false, hi']
      exact ⟨hc, setRows_sim key _ _ sids rows hch (hf i sids rfl hi), hmh⟩
  | map i key f =>
    simp only [sstep]
    cases hi : w.mstackers[i]? with
    | none => simp only [Option.isSome_some, specSStep, if_true]; exact ⟨hc, hch, hmh⟩
    | some sids =>
      have hi' : sw.mhandles[i]? = some sids := by rw [hmh]; exact hi
      simp only
      cases hg : getErr key (some f) w.maps sids with
      | some e => simp only [Option.isSome_some, specSStep, if_true]; exact ⟨hc, hch, hmh⟩
      | none =>
        simp only [Option.isSome_none, specSStep, Bool.false_eq_true, if_false, hi']
        exact ⟨hc, mapRows_sim key f _ _ sids hch (hf i sids rfl hi) hg, hmh⟩
  | attrSet i name rows =>
    simp only [sstep]
    cases hi : w.mstackers[i]? with
    | none => simp only [Option.isSome_some, specSStep, if_true]; exact ⟨hc, hch, hmh⟩
    | some sids =>
      have hi' : sw.mhandles[i]? = some sids := by rw [hmh]; exact hi
      simp only
      by_cases hp : (setPropsOf w.scls).contains name = true
      · simp only [hp, if_true, Option.isSome_none, specSStep, Bool.false_eq_true, if_false, hi', hc]
        exact ⟨rfl, setRows_sim name _ _ sids rows hch (hf i sids rfl hi), hmh⟩
      · simp only [hp, Option.isSome_none, specSStep, Bool.false_eq_true, if_false, hi', hc]
        exact ⟨hc, hch, hmh⟩
  | attrMap i name f =>
    simp only [sstep]
    cases hi : w.mstackers[i]? with
    | none => simp only [Option.isSome_some, specSStep, if_true]; exact ⟨hc, hch, hmh⟩
    | some sids =>
      have hi' : sw.mhandles[i]? = some sids := by rw [hmh]; exact hi
      simp only
      by_cases hp : (setPropsOf w.scls).contains name = true
      · simp only [hp, if_true]
        cases hg : getErr name (some f) w.maps sids with
        | some e => simp only [Option.isSome_some, specSStep, if_true]; exact ⟨hc, hch, hmh⟩
        | none =>
          simp only [Option.isSome_none, specSStep, Bool.false_eq_true, if_false, hi', hc, hp, if_true]
          exact ⟨rfl, mapRows_sim name f _ _ sids hch (hf i sids rfl hi) hg, hmh⟩
      · simp only [hp]
        by_cases ha : (w.msattrs.getD i []).contains name = true
        · simp only [ha, if_true, Option.isSome_none, specSStep, Bool.false_eq_true, if_false, hi', hc, hp]
          exact ⟨hc, hch, hmh⟩
        · simp only [ha, Option.isSome_some, specSStep, if_true]
          exact ⟨hc, hch, hmh⟩

/-- **mapset_write_through** — for every mapset (any number of charts, charts of different lengths, empty charts) and
every finite history of `ms.stack()`, `stack.<prop> = frame`, `stack[col] = frame`, `stack.<prop> op= q`,
`stack[col] op= q` (raising calls included) through any number of mapset stackers, provided every call goes through
stackers that are up to date (`SFresh`): every chart at the end is what the specification run gives — per chart, the
single-chart per-list assignment of its row of the frame / of the arithmetic. -/
theorem mapset_write_through (w : SetW) (ops : List SOp) (hfresh : SFresh w ops) :
    (srun w ops).maps.map (fun m => contents m.lists)
      = (specSRun (toSpecSet w) (ops.zip (serrs w ops))).charts.map (·.tbls) := by
  have key : ∀ (ops : List SOp) (w : SetW) (sw : SpecSetW), SetSim w sw → SFresh w ops →
      SetSim (srun w ops) (specSRun sw (ops.zip (serrs w ops))) := by
    intro ops
    induction ops with
    | nil => intro w sw hs _; exact hs
    | cons op ops ih =>
      intro w sw hs hf
      simp only [srun, serrs, List.zip_cons_cons, specSRun]
      exact ih _ _ (sstep_sim w sw op hs hf.1) hf.2
  have h0 : SetSim w (toSpecSet w) := ⟨rfl, chartsSim_toSpec w.maps, rfl⟩
  exact chartsSim_tbls _ _ (key ops w _ h0 hfresh).2.1

end Reamber.Stack

namespace Reamber.Stack

theorem chartsFreshW_of_B : ∀ (maps : List MapW) (sids : List Nat), chartsFreshB maps sids = true → ChartsFreshW maps sids := by
  intro maps
  induction maps with
  | nil => intro sids _; cases sids <;> trivial
  | cons m ms ih =>
    intro sids h
    cases sids with
    | nil => trivial
    | cons sid sids =>
      simp only [chartsFreshB, Bool.and_eq_true] at h
      refine ⟨?_, ih sids h.2⟩
      intro s hs
      have h1 := h.1
      simp only [hs] at h1
      exact coupled_of_coupledB _ _ _ _ h1

theorem sfresh_of_sfreshTrace (w : SetW) (ops : List SOp) (h : (sfreshTrace w ops).all id = true) : SFresh w ops := by
  induction ops generalizing w with
  | nil => trivial
  | cons op ops ih =>
    simp only [sfreshTrace, List.all_cons, id, Bool.and_eq_true] at h
    refine ⟨?_, ih _ h.2⟩
    intro i sids hi hs
    have h1 := h.1
    simp only [sfreshAtB, hi, hs] at h1
    exact chartsFreshW_of_B _ _ h1

def cexSet : SetW :=
  ⟨"MapSet",
   [cexW,
    ⟨"Map", [⟨"hits", "HitList", ⟨["offset", "column"], [⟨3, [("offset", .num 500), ("column", .num 0)]⟩]⟩⟩,
             ⟨"holds", "HoldList", ⟨["offset", "column", "length"], []⟩⟩,
             ⟨"bpms", "BpmList", ⟨["offset", "bpm", "metronome"], []⟩⟩], []⟩],
   [], []⟩

def cexSetOps : List SOp :=
  [.stack, .attrMap 0 "offset" (.mul 2), .set 0 "column" [[.num 5], [.num 6, .num 7]], .attrMap 0 "volume" (.add 1)]

/-- non-vacuity of `mapset_write_through`: charts of different lengths, a frame whose rows are shorter / longer than
the charts, a raising call — the history is `SFresh` and changes the charts -/
example : SFresh cexSet cexSetOps := sfresh_of_sfreshTrace _ _ (by decide +kernel)

example : (srun cexSet cexSetOps).maps.map (fun m => (contents m.lists).map (fun t => t.rows.map (fun r => (getC r "offset", getC r "column"))))
    = [[[(.num 2000, .num 5), (.num 4000, .nan)], [], [(.num 0, .nan)]], [[(.num 1000, .num 6)], [], []]]
    ∧ serrs cexSet cexSetOps = [false, false, false, true] := by decide +kernel

/-- …and a second live mapset stacker is stale in the same way as for a single chart (D25) -/
example : sfreshTrace cexSet [.stack, .stack, .attrMap 1 "offset" (.add 1), .attrMap 0 "column" (.add 1)]
    = [true, true, true, false] := by decide +kernel

end Reamber.Stack
