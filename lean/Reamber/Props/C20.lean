/-
C20 — Pattern grouping partitions the notes; combinations are exactly the allowed ones.
Property theorems (helper lemmas live in `Reamber/Lemmas/Pattern*.lean`).  Statements are about the executable
model `Reamber/Model/Pattern.lean`, which the correspondence check ties to
reamber/algorithms/pattern/{Pattern.py, combos/*.py, filters/PtnFilter.py} on every run, and are stated against
the same `Spec/Pattern.lean` predicates the driver evaluates on the implementation's output.
-/
import Reamber.Lemmas.PatternGroup
import Reamber.Lemmas.PatternCreate
import Reamber.Lemmas.PatternNoteLists
import Reamber.Generated.PatternTables

namespace Reamber.Pattern

/-! ### tie to the source -/

def rowsSubset {α} [BEq α] (a b : List (List α)) : Bool := a.all b.contains
def sameRows {α} [BEq α] (a b : List (List α)) : Bool := rowsSubset a b && rowsSubset b a

/-- Tie to the source: class hierarchy (`issubclass` over the classes of `Ty`), option bit values, default
arguments, and — probed by calling the two templates with a recording `combinations` — the literal arguments the
templates pass (sizes, `make_size2`, the three filters' row sets and `exclude` flags, including the effect of the
conditional-expression precedence in `template_chord_stream`). Re-checked whenever the source changes. -/
theorem consts_tie :
    Ty.all.map Ty.name = Generated.Pattern.classNames ∧
    Ty.all.map (fun a => Ty.all.map (fun b => isSub a b)) = Generated.Pattern.subclassTable ∧
    [optRepeat, optHMirror, optVMirror, optAnyOrder, optAndLower, optAndHigher, optTypeAnyOrder, optTypeMirror]
      = Generated.Pattern.optionBits ∧
    Generated.Pattern.groupDefaults = ((50 : Rat), (none : Option Int), true) ∧
    Generated.Pattern.includeTailsDefault = true ∧
    Generated.Pattern.combinationsDefaults = (2, false) ∧
    Generated.Pattern.chordStreamProbes.all (fun p =>
      let (primary, secondary, keys, andLower, includeJack) := p.1
      let fs := chordStreamFilters primary secondary keys andLower includeJack
      p.2.size == 2 && p.2.fold == true
      && (match p.2.chord with | some (ar, inv) => sameRows ar fs.1.ar && inv == fs.1.invert | none => false)
      && (match p.2.combo, fs.2.1 with
          | some (ar, k, inv), some f => sameRows ar f.ar && k == f.keys && inv == f.invert
          | none, none => true
          | _, _ => false)
      && (match p.2.type with
          | some (ar, inv) => sameRows ar (fs.2.2.ar.map (·.map Ty.name)) && inv == fs.2.2.invert | none => false)) = true ∧
    Generated.Pattern.jackProbes.all (fun p =>
      let (minLen, keys) := p.1
      let fs := jackFilters minLen keys
      p.2.size == minLen && p.2.fold == true && p.2.chord.isNone
      && (match p.2.combo with
          | some (ar, k, inv) => sameRows ar fs.1.ar && k == fs.1.keys && inv == fs.1.invert | none => false)
      && (match p.2.type with
          | some (ar, inv) => sameRows ar (fs.2.ar.map (·.map Ty.name)) && inv == fs.2.invert | none => false)) = true := by
  decide +kernel

/-! ### the frame -/

/-- `Pattern.__init__` keeps exactly the given notes and orders them by offset -/
theorem pattern_sorted_perm (rows : List Row) : patternSpec rows (mkPattern rows) = true := by
  simp only [patternSpec, Bool.and_eq_true, List.isPerm_iff, sortedOffB_iff]
  exact ⟨isort_perm _ _, isort_sorted _⟩

/-- `Pattern.from_note_lists`: the frame holds every note of every list and — when tails are requested — one
`HoldTail` at `offset + length` per item of every list whose item class is a `Hold`; nothing else; sorted. -/
theorem from_note_lists_spec (nls : List NoteList) (includeTails : Bool) :
    patternSpec (expectedRows nls includeTails) (fromNoteLists nls includeTails) = true := by
  simp only [patternSpec, Bool.and_eq_true, List.isPerm_iff, sortedOffB_iff]
  exact ⟨fromNoteLists_perm nls includeTails, isort_sorted _⟩

/-! ### grouping -/

/-- `group` succeeds only past its two guards, and then returns what the loop produces -/
theorem group_ok_inv (rows : List Row) (v : Rat) (h : Option Int) (aj : Bool) (gs : List (List Row))
    (hg : group rows v h aj = .ok gs) :
    0 ≤ v ∧ (∀ hw, h = some hw → 0 ≤ hw) ∧
      gs = groupLoop v h aj (rows.map (fun r => (r, false))) 0 rows.length := by
  unfold group at hg
  by_cases hv : v < 0
  · simp [hv] at hg
  · cases h with
    | none =>
      simp [hv] at hg
      exact ⟨not_lt.mp hv, by simp, hg.symm⟩
    | some hw =>
      by_cases hh : hw < 0
      · simp [hv, hh] at hg
      · simp [hv, hh] at hg
        exact ⟨not_lt.mp hv, by intro x e; cases e; omega, hg.symm⟩

/-- **group_partition**: every note (and hold tail, when the frame contains tails) is in exactly one group —
for every frame, every `v ≥ 0`, `h ∈ {None, 0, 1, …}`, both jack settings. No sortedness needed. -/
theorem group_partition (rows : List Row) (v : Rat) (h : Option Int) (aj : Bool) (gs : List (List Row))
    (hg : group rows v h aj = .ok gs) : partitionOk rows gs = true := by
  obtain ⟨hv', hh', rfl⟩ := group_ok_inv rows v h aj gs hg
  have := groupLoop_perm v h aj hv' hh' rows.length [] (rows.map (fun r => (r, false))) (by simp) (by simp)
  simp only [List.nil_append, List.length_nil] at this
  have hu : ungrouped (rows.map (fun r => (r, false))) = rows := by
    simp [ungrouped, List.filter_map, Function.comp_def]
  rw [hu] at this
  simp only [partitionOk, List.isPerm_iff]
  exact this

/-- **group_vwindow / group_hwindow / group_no_repeat**: in every group the first note is the leader, all times
lie in `[t, t + v]` of it, all columns within `h` of it, and no column repeats when jacks are avoided —
for every frame sorted by offset (which `Pattern.__init__` establishes, `pattern_sorted_perm`). -/
theorem group_windows (rows : List Row) (v : Rat) (h : Option Int) (aj : Bool) (gs : List (List Row))
    (hs : SortedOff rows) (hg : group rows v h aj = .ok gs) : ∀ g ∈ gs, groupOk v h aj g = true := by
  obtain ⟨hv', hh', rfl⟩ := group_ok_inv rows v h aj gs hg
  have := groupLoop_groupOk v h aj hv' hh' rows.length [] (rows.map (fun r => (r, false))) (by simp) (by simp)
    (by simpa [Function.comp_def] using hs)
  simpa using this

/-- the grouping half of C20, as the one predicate the harness evaluates -/
theorem group_spec (rows : List Row) (v : Rat) (h : Option Int) (aj : Bool) (gs : List (List Row))
    (hs : SortedOff rows) (hg : group rows v h aj = .ok gs) : groupSpec rows v h aj gs = true := by
  simp only [groupSpec, Bool.and_eq_true, List.all_eq_true]
  exact ⟨group_partition rows v h aj gs hg, group_windows rows v h aj gs hs hg⟩

theorem group_vwindow (rows : List Row) (v : Rat) (h : Option Int) (aj : Bool) (gs : List (List Row))
    (hs : SortedOff rows) (hg : group rows v h aj = .ok gs) (g : List Row) (hgm : g ∈ gs) :
    ∃ l t, g = l :: t ∧ ∀ r ∈ g, l.off ≤ r.off ∧ r.off ≤ l.off + v := by
  have := group_windows rows v h aj gs hs hg g hgm
  simp only [groupOk, Bool.and_eq_true] at this
  cases g with
  | nil => simp [vWindowOk] at this
  | cons l t =>
    refine ⟨l, t, rfl, ?_⟩
    have hv := this.1.1
    simp only [vWindowOk, List.all_eq_true, Bool.and_eq_true, decide_eq_true_eq] at hv
    exact hv

theorem group_hwindow (rows : List Row) (v : Rat) (hw : Int) (aj : Bool) (gs : List (List Row))
    (hs : SortedOff rows) (hg : group rows v (some hw) aj = .ok gs) (g : List Row) (hgm : g ∈ gs) :
    ∃ l t, g = l :: t ∧ ∀ r ∈ g, ((l.col - r.col).natAbs : Int) ≤ hw := by
  have := group_windows rows v (some hw) aj gs hs hg g hgm
  simp only [groupOk, Bool.and_eq_true] at this
  cases g with
  | nil => simp [vWindowOk] at this
  | cons l t =>
    refine ⟨l, t, rfl, ?_⟩
    have hh := this.1.2
    simp only [hWindowOk, List.all_eq_true, decide_eq_true_eq] at hh
    exact hh

theorem group_no_repeat (rows : List Row) (v : Rat) (h : Option Int) (gs : List (List Row))
    (hs : SortedOff rows) (hg : group rows v h true = .ok gs) (g : List Row) (hgm : g ∈ gs) :
    (g.map (·.col)).Nodup := by
  have := group_windows rows v h true gs hs hg g hgm
  simp only [groupOk, Bool.and_eq_true, noRepeatOk, Bool.not_true, Bool.false_or, decide_eq_true_eq] at this
  exact this.2

/-- the error branch is covered explicitly: negative windows raise `ValueError`, nothing else does -/
theorem group_guard (rows : List Row) (v : Rat) (h : Option Int) (aj : Bool) :
    (group rows v h aj = .error .value ↔ (v < 0 ∨ ∃ hw, h = some hw ∧ hw < 0)) := by
  unfold group
  by_cases hv : v < 0
  · simp [hv]
  · cases h with
    | none => simp [hv]
    | some hw =>
      by_cases hh : hw < 0
      · simp [hv, hh]
      · simp [hv, hh]

/-! ### combinations -/

/-- **combinations_iff** — none missing, none extra: a sequence is reported for size `n` iff for some `i` it takes
one note from each of the groups `i, …, i+n-1` and the chunk passes the chord-size filter, the sequence the column
filter and the type filter. For arbitrary filter callables. -/
theorem combinations_iff (gs : List (List Row)) (n : Nat) (F : Filters) (s : List Row) :
    s ∈ (combinations gs n F).flatten ↔
      ∃ i, i + n ≤ gs.length ∧ OneEach s ((gs.drop i).take n) ∧
        chordOk F ((gs.drop i).take n) = true ∧ comboOk F s = true ∧ typeOk F s = true := by
  rw [mem_combinations_iff]
  simp only [allowed, List.any_eq_true, List.mem_range, Bool.and_eq_true, takesOneEach_iff]
  constructor
  · rintro ⟨i, hi, ⟨⟨⟨h1, h2⟩, h3⟩, h4⟩⟩
    exact ⟨i, by omega, h1, h2, h3, h4⟩
  · rintro ⟨i, hi, h1, h2, h3, h4⟩
    exact ⟨i, by omega, ⟨⟨⟨h1, h2⟩, h3⟩, h4⟩⟩

/-- the model's output satisfies the predicate the harness evaluates on the implementation's output -/
theorem combos_spec (gs : List (List Row)) (n : Nat) (F : Filters) :
    combosSpec gs n F (combinations gs n F).flatten = true := by
  simp only [combosSpec, Bool.and_eq_true, List.all_eq_true, Bool.or_eq_true, Bool.not_eq_true',
    List.contains_iff_mem]
  refine ⟨fun s hs => (mem_combinations_iff gs n F s).mp hs, fun s _ => ?_⟩
  cases h : allowed gs n F s
  · exact Or.inl rfl
  · exact Or.inr ((mem_combinations_iff gs n F s).mpr h)

/-- folded output (`make_size2=True`): exactly the adjacent pairs of the allowed sequences -/
theorem folded_spec (gs : List (List Row)) (n : Nat) (F : Filters) :
    foldedSpec gs n F (foldSize2 (combinations gs n F)).flatten = true := by
  have key : ∀ p, p ∈ (foldSize2 (combinations gs n F)).flatten ↔
      p ∈ ((candidates gs n).filter (allowed gs n F)).flatMap adjPairs := by
    intro p
    simp only [foldSize2, List.mem_flatten, List.mem_map, List.mem_flatMap, List.mem_filter]
    constructor
    · rintro ⟨l, ⟨c, hc, rfl⟩, hp⟩
      obtain ⟨s, hs, hps⟩ := List.mem_flatMap.mp hp
      have hall := (mem_combinations_iff gs n F s).mp (List.mem_flatten.mpr ⟨c, hc, hs⟩)
      exact ⟨s, ⟨allowed_mem_candidates gs n F s hall, hall⟩, hps⟩
    · rintro ⟨s, ⟨_, hall⟩, hps⟩
      obtain ⟨c, hc, hs⟩ := List.mem_flatten.mp ((mem_combinations_iff gs n F s).mpr hall)
      exact ⟨c.flatMap adjPairs, ⟨c, hc, rfl⟩, List.mem_flatMap.mpr ⟨s, hs, hps⟩⟩
  simp only [foldedSpec, Bool.and_eq_true, List.all_eq_true, List.contains_iff_mem]
  exact ⟨fun p hp => (key p).mp hp, fun p hp => (key p).mpr hp⟩

/-- **combo_hash_injective**: the base-`keys` positional code is injective on rows of equal length over the
columns `0 … keys-1` -/
theorem combo_hash_injective (keys : Int) (l1 l2 : List Int) (hlen : l1.length = l2.length)
    (h1 : inRange keys l1 = true) (h2 : inRange keys l2 = true) (h : hashCols keys l1 = hashCols keys l2) :
    l1 = l2 := hashCols_inj keys l1 l2 hlen h1 h2 h

/-- … so the hash-based column filter *is* row membership (when `keys` is the key count of the map) -/
theorem combo_filter_is_membership (f : ComboFilter) (data : List Int)
    (har : ∀ r ∈ f.ar, r.length = data.length ∧ inRange f.keys r = true) (hd : inRange f.keys data = true) :
    f.filter data = comboMember f.ar f.invert data := by
  simp only [ComboFilter.filter, comboMember, bxor, contains_map_hash f.keys f.ar data har hd]

/-- outside that range the hash collides: with `keys = 4` the row `[0, 4]` also accepts `[1, 0]` -/
theorem combo_hash_collision :
    (⟨[[0, 4]], 4, false⟩ : ComboFilter).filter [1, 0] = true ∧ comboMember [[0, 4]] false [1, 0] = false := by
  decide +kernel

/-- chord membership (after the D20 repair): the filter accepts exactly the listed rows of group sizes -/
theorem chord_filter_is_membership (f : ChordFilter) (sizes : List Int) :
    f.filter sizes = chordMember f.ar f.invert sizes := by
  simp only [ChordFilter.filter, chordMember, bxor, any_beq_eq_contains]

/-- D20 (repaired in the source, `2e03af7`): numpy's element-wise `data in self.ar` accepted every row sharing one
entry with a listed row — the filter `{[1,2],[2,1]}` accepted `[2,2]`, `[1,1]`, `[2,3]`, `[3,1]` -/
theorem chord_in_counterexample :
    let f : ChordFilter := ⟨[[1, 2], [2, 1]], false⟩
    [[2, 2], [1, 1], [2, 3], [3, 1]].all (fun d => chordFilterElementwise f d && !chordMember f.ar f.invert d) = true := by
  decide +kernel

theorem any_typeRowMatch (ar : List (List Ty)) (tys : List Ty) (har : ∀ r ∈ ar, r.length = tys.length) :
    ar.any (fun tf => typeRowMatch tys tf) = ar.any (subRow tys) := by
  induction ar with
  | nil => rfl
  | cons r t ih =>
    simp only [List.any_cons, typeRowMatch_eq_subRow tys r (har r (List.mem_cons_self ..)),
      ih (fun r hr => har r (List.mem_cons_of_mem _ hr))]

/-- type filter: some listed row is position-wise a superclass row of the sequence's types -/
theorem type_filter_is_membership (f : TypeFilter) (tys : List Ty) (har : ∀ r ∈ f.ar, r.length = tys.length) :
    f.filter tys = typeMember f.ar f.invert tys := by
  simp only [TypeFilter.filter, typeMember, bxor, any_typeRowMatch f.ar tys har]

/-! ### option expansions equal their declarative sets -/

/-- REPEAT: exactly the sideways translations of the base row that stay inside the `keys` columns -/
theorem repeat_iff (keys : Int) (c row : List Int) (hc : c ≠ []) :
    row ∈ repeatExpand keys c ↔ ∃ d : Int, row = c.map (· + d) ∧ ∀ x ∈ row, 0 ≤ x ∧ x < keys := by
  rw [mem_repeatExpand keys c row hc]
  cases c with
  | nil => exact absurd rfl hc
  | cons b0 bt =>
    cases row with
    | nil =>
      simp only [isTranslate, Bool.false_eq_true, false_iff]
      rintro ⟨d, hd, _⟩; simp at hd
    | cons r0 rt =>
      simp only [isTranslate, Bool.and_eq_true, beq_iff_eq, inRange_iff]
      constructor
      · rintro ⟨h1, h2⟩; exact ⟨r0 - b0, h1, h2⟩
      · rintro ⟨d, h1, h2⟩
        refine ⟨?_, h2⟩
        have : r0 = b0 + d := by simp only [List.map_cons, List.cons.injEq] at h1; exact h1.1
        have hd : r0 - b0 = d := by omega
        rw [hd]; exact h1

theorem combo_create_iff (combos : List (List Int)) (keys : Int) (opts : Nat) (exclude : Bool) (row : List Int)
    (hc : ∀ c ∈ combos, c ≠ []) :
    row ∈ (comboCreate combos keys opts exclude).ar ↔ comboSpecMem combos keys opts row = true :=
  mem_comboCreateAr combos keys opts row hc

theorem chord_create_iff (sizes : List (List Int)) (keys : Int) (opts : Nat) (exclude : Bool) (row : List Int) :
    row ∈ (chordCreate sizes keys opts exclude).ar ↔ chordSpecMem sizes keys opts row = true :=
  mem_chordCreateAr sizes keys opts row

theorem type_create_iff (types : List (List Ty)) (opts : Nat) (exclude : Bool) (row : List Ty) :
    row ∈ (typeCreate types opts exclude).ar ↔ typeSpecMem types opts row = true :=
  mem_typeCreateAr types opts row

/-- ANY_ORDER: exactly the rearrangements -/
theorem perms_iff {α} (s t : List α) : s ∈ perms t ↔ s.Perm t := mem_perms s t

/-- the cartesian product behind `np.meshgrid`: exactly the sequences taking one element from each list -/
theorem product_iff {α} (s : List α) (ls : List (List α)) : s ∈ product ls ↔ OneEach s ls := mem_product s ls

/-- observation (not part of C20's statement): without `and_lower`, `template_chord_stream(2, 1, …)` filters for the
chunk sizes `[2, 1]` only — `[1, 2]` is not accepted — because `ANY_ORDER | AND_LOWER if and_lower else 0` parses as
`(ANY_ORDER | AND_LOWER) if and_lower else 0`. -/
theorem chord_stream_options_precedence :
    (chordStreamFilters 2 1 4 false false).1.ar = [[2, 1]] ∧
    sameRows (chordStreamFilters 2 1 4 true false).1.ar [[1, 1], [1, 2], [2, 1]] = true := by
  decide +kernel

/-! ### whole filter sets: inside `allowed`, the three filter *objects* are the three membership predicates -/

/-- the three filter objects as the callables `combinations` receives (`chord_filter=f.filter`, …) -/
def objFilters (chord : Option ChordFilter) (combo : Option ComboFilter) (type : Option TypeFilter) : Filters :=
  { chord := chord.map (fun f => f.filter), combo := combo.map (fun f => f.filter),
    type := type.map (fun f => f.filter) }

/-- the same three filters read as sets of rows (the predicates the driver evaluates on implementation output) -/
def memberOf (chord : Option ChordFilter) (combo : Option ComboFilter) (type : Option TypeFilter) : Filters :=
  memberFilters (chord.map (fun f => (f.ar, f.invert))) (combo.map (fun f => (f.ar, f.invert)))
    (type.map (fun f => (f.ar, f.invert)))

/-- the filters fit the call: filter rows have the combination's size, and the column filter's `keys` covers the
columns of its rows and of the chart's notes (`keys` = key count of the map). Outside it the positional hash
collides (`combo_hash_collision`) and numpy raises or prefix-matches on rows of another size. -/
structure FiltersFit (gs : List (List Row)) (n : Nat) (combo : Option ComboFilter) (type : Option TypeFilter) :
    Prop where
  combo_rows : ∀ f, combo = some f → ∀ r ∈ f.ar, r.length = n ∧ inRange f.keys r = true
  combo_cols : ∀ f, combo = some f → ∀ g ∈ gs, ∀ r ∈ g, 0 ≤ r.col ∧ r.col < f.keys
  type_rows : ∀ f, type = some f → ∀ r ∈ f.ar, r.length = n

theorem OneEach.mem_some {α} {s : List α} {ls : List (List α)} (h : OneEach s ls) :
    ∀ a ∈ s, ∃ l ∈ ls, a ∈ l := by
  induction ls generalizing s with
  | nil => cases s <;> simp_all [OneEach]
  | cons l ls ih =>
    cases s with
    | nil => simp
    | cons b t =>
      intro a ha
      rcases List.mem_cons.mp ha with rfl | ha
      · exact ⟨l, List.mem_cons_self .., h.1⟩
      · obtain ⟨l', hl', hal'⟩ := ih h.2 a ha
        exact ⟨l', List.mem_cons_of_mem _ hl', hal'⟩

theorem chordOk_obj_eq_member (chord : Option ChordFilter) (combo : Option ComboFilter) (type : Option TypeFilter)
    (ch : List (List Row)) :
    chordOk (objFilters chord combo type) ch = chordOk (memberOf chord combo type) ch := by
  cases chord with
  | none => rfl
  | some f =>
    simp only [chordOk, objFilters, memberOf, memberFilters, Option.map_some]
    exact chord_filter_is_membership f _

theorem comboOk_obj_eq_member (chord : Option ChordFilter) (combo : Option ComboFilter) (type : Option TypeFilter)
    (n : Nat) (s : List Row) (hlen : s.length = n)
    (hrows : ∀ f, combo = some f → ∀ r ∈ f.ar, r.length = n ∧ inRange f.keys r = true)
    (hcols : ∀ f, combo = some f → ∀ r ∈ s, 0 ≤ r.col ∧ r.col < f.keys) :
    comboOk (objFilters chord combo type) s = comboOk (memberOf chord combo type) s := by
  cases combo with
  | none => rfl
  | some f =>
    simp only [comboOk, objFilters, memberOf, memberFilters, Option.map_some]
    apply combo_filter_is_membership
    · intro r hr
      have := hrows f rfl r hr
      exact ⟨by rw [List.length_map, hlen]; exact this.1, this.2⟩
    · rw [inRange_iff]
      intro x hx
      obtain ⟨r, hr, rfl⟩ := List.mem_map.mp hx
      exact hcols f rfl r hr

theorem typeOk_obj_eq_member (chord : Option ChordFilter) (combo : Option ComboFilter) (type : Option TypeFilter)
    (n : Nat) (s : List Row) (hlen : s.length = n)
    (hrows : ∀ f, type = some f → ∀ r ∈ f.ar, r.length = n) :
    typeOk (objFilters chord combo type) s = typeOk (memberOf chord combo type) s := by
  cases type with
  | none => rfl
  | some f =>
    simp only [typeOk, objFilters, memberOf, memberFilters, Option.map_some]
    apply type_filter_is_membership
    intro r hr
    rw [List.length_map, hlen]
    exact hrows f rfl r hr

/-- **filters_are_membership** (whole filter sets): for every grouping, size, sequence and every choice of the three
filter objects that fit the call, `allowed` evaluated with the objects' own `filter` methods (positional hash for
columns, row comparison for chord sizes, position-wise `issubclass` for types) equals `allowed` evaluated with the
three membership predicates — so the specification the driver evaluates on the implementation's output is the one
`combinations_iff` speaks about. -/
theorem filters_are_membership (gs : List (List Row)) (n : Nat) (chord : Option ChordFilter)
    (combo : Option ComboFilter) (type : Option TypeFilter) (s : List Row) (hfit : FiltersFit gs n combo type) :
    allowed gs n (objFilters chord combo type) s = allowed gs n (memberOf chord combo type) s := by
  have key : ∀ i, i < gs.length + 1 - n →
      (takesOneEach s ((gs.drop i).take n) && chordOk (objFilters chord combo type) ((gs.drop i).take n)
        && comboOk (objFilters chord combo type) s && typeOk (objFilters chord combo type) s) =
      (takesOneEach s ((gs.drop i).take n) && chordOk (memberOf chord combo type) ((gs.drop i).take n)
        && comboOk (memberOf chord combo type) s && typeOk (memberOf chord combo type) s) := by
    intro i hi
    cases h1 : takesOneEach s ((gs.drop i).take n) with
    | false => simp
    | true =>
      have hone := (takesOneEach_iff _ _).mp h1
      have hlen : s.length = n := by
        rw [hone.length_eq, List.length_take, List.length_drop]; omega
      have hmem : ∀ r ∈ s, ∃ g ∈ gs, r ∈ g := by
        intro r hr
        obtain ⟨g, hg, hrg⟩ := hone.mem_some r hr
        exact ⟨g, List.mem_of_mem_drop (List.mem_of_mem_take hg), hrg⟩
      rw [chordOk_obj_eq_member,
        comboOk_obj_eq_member chord combo type n s hlen hfit.combo_rows
          (fun f hf r hr => by obtain ⟨g, hg, hrg⟩ := hmem r hr; exact hfit.combo_cols f hf g hg r hrg),
        typeOk_obj_eq_member chord combo type n s hlen hfit.type_rows]
  simp only [allowed]
  apply Bool.eq_iff_iff.mpr
  simp only [List.any_eq_true, List.mem_range]
  constructor
  · rintro ⟨i, hi, h⟩; exact ⟨i, hi, by rw [← key i hi]; exact h⟩
  · rintro ⟨i, hi, h⟩; exact ⟨i, hi, by rw [key i hi]; exact h⟩

/-- **combinations_iff_membership**: with the real filter objects, a sequence is reported iff it takes one note from
each of `n` consecutive groups and the chunk's sizes / its columns / its types are (or, for excluding filters, are
not) among the filters' rows — none missing, none extra, for whole filter sets. -/
theorem combinations_iff_membership (gs : List (List Row)) (n : Nat) (chord : Option ChordFilter)
    (combo : Option ComboFilter) (type : Option TypeFilter) (s : List Row) (hfit : FiltersFit gs n combo type) :
    s ∈ (combinations gs n (objFilters chord combo type)).flatten ↔
      allowed gs n (memberOf chord combo type) s = true := by
  rw [mem_combinations_iff, filters_are_membership gs n chord combo type s hfit]

/-- non-vacuity: the jack template's two filters fit a 4-key grouping at size 2 -/
example : FiltersFit [[⟨0, 0, .hit⟩, ⟨1, 0, .hit⟩], [⟨1, 100, .hit⟩]] 2
    (some (jackFilters 2 4).1) (some (jackFilters 2 4).2) where
  combo_rows := by
    intro f hf r hr
    cases hf
    have : (jackFilters 2 4).1.ar = [[0, 0], [1, 1], [2, 2], [3, 3]] := by decide +kernel
    rw [this] at hr
    simp only [List.mem_cons, List.not_mem_nil, or_false] at hr
    rcases hr with rfl | rfl | rfl | rfl <;> decide
  combo_cols := by
    intro f hf g hg r hr
    cases hf
    have hk : (jackFilters 2 4).1.keys = 4 := rfl
    rw [hk]
    simp only [List.mem_cons, List.not_mem_nil, or_false] at hg
    rcases hg with rfl | rfl
    · simp only [List.mem_cons, List.not_mem_nil, or_false] at hr
      rcases hr with rfl | rfl <;> decide
    · simp only [List.mem_cons, List.not_mem_nil, or_false] at hr
      rcases hr with rfl <;> decide
  type_rows := by
    intro f hf r hr
    cases hf
    have : (jackFilters 2 4).2.ar = [[.holdTail, .object], [.object, .holdTail]] := by decide +kernel
    rw [this] at hr
    simp only [List.mem_cons, List.not_mem_nil, or_false] at hr
    rcases hr with rfl | rfl <;> rfl

/-! ### non-vacuity: the hypotheses are satisfiable on non-trivial values, and the model computes -/

/-- the suite's eight-note pattern, `v = 100`, jacks avoided -/
example : (group [⟨0, 0, .hit⟩, ⟨1, 0, .hit⟩, ⟨1, 100, .hit⟩, ⟨2, 100, .hold⟩, ⟨2, 200, .holdTail⟩, ⟨3, 200, .hit⟩, ⟨2, 300, .hit⟩]
    100 none true).toOption =
    some [[⟨0, 0, .hit⟩, ⟨1, 0, .hit⟩, ⟨2, 100, .hold⟩], [⟨1, 100, .hit⟩, ⟨2, 200, .holdTail⟩, ⟨3, 200, .hit⟩], [⟨2, 300, .hit⟩]] := by
  decide +kernel

example : SortedOff [⟨0, 0, .hit⟩, ⟨1, 0, .hit⟩, ⟨1, 100, .hit⟩] := by
  rw [← sortedOffB_iff]; decide +kernel

example : (group [⟨0, 0, .hit⟩, ⟨2, 0, .hit⟩, ⟨1, 50, .hit⟩] 50 (some 1) true).toOption =
    some [[⟨0, 0, .hit⟩, ⟨1, 50, .hit⟩], [⟨2, 0, .hit⟩]] := by decide +kernel

example : (combinations [[⟨0, 0, .hit⟩, ⟨1, 0, .hit⟩], [⟨1, 100, .hit⟩]] 2
    { combo := some (comboCreate [[0, 0]] 4 optRepeat true).filter }).flatten = [[⟨0, 0, .hit⟩, ⟨1, 100, .hit⟩]] := by
  decide +kernel

example : fromNoteLists [⟨.hit, [(0, 0, 0), (1, 100, 0)]⟩, ⟨.osuHold, [(2, 50, 100)]⟩, ⟨.hold, []⟩] true =
    [⟨0, 0, .hit⟩, ⟨2, 50, .osuHold⟩, ⟨1, 100, .hit⟩, ⟨2, 150, .holdTail⟩] := by decide +kernel

example : inRange 4 [0, 3] = true ∧ inRange 4 [1, 2] = true := by decide
example : ∃ d : Int, [1, 3] = [0, 2].map (· + d) ∧ ∀ x ∈ [1, 3], 0 ≤ x ∧ x < (4 : Int) := ⟨1, by decide, by decide⟩
example : sameRows (comboCreateAr [[0, 2, 2]] 4 7) [[0, 0, 2], [0, 2, 2], [1, 1, 3], [1, 3, 3], [2, 0, 0], [2, 2, 0], [3, 1, 1], [3, 3, 1]] = true := by
  decide +kernel

end Reamber.Pattern
