/-
JSON helpers for the line-protocol driver.  Core + `Lean.Data.Json` only (no Mathlib) so that the
driver links as a `lean_exe`.

Conventions shared with `harness/lib/rat.py`:
* a rational is the JSON array `[num, den]` (den > 0) — exact, never a float;
* an integer is a JSON number;
* `null` is `none`;
* a model result is `{"ok": v}` or `{"err": "<class>"}` (small enum of error classes).
-/
import Lean.Data.Json

open Lean

namespace Reamber.J

def ratToJson (q : Rat) : Json := Json.arr #[Json.num (JsonNumber.fromInt q.num), Json.num (JsonNumber.fromNat q.den)]

def intOf? (j : Json) : Except String Int :=
  match j with
  | Json.num n => if n.exponent = 0 then .ok n.mantissa else
      -- accept a decimal only when it denotes an integer
      let p : Nat := 10 ^ n.exponent
      if n.mantissa % p = 0 then .ok (n.mantissa / p) else .error s!"not an integer: {j}"
  | _ => .error s!"not an integer: {j}"

def natOf? (j : Json) : Except String Nat := do
  let i ← intOf? j
  if i < 0 then .error s!"negative nat: {j}" else .ok i.toNat

def ratOf? (j : Json) : Except String Rat :=
  match j with
  | Json.arr #[a, b] => do
      let n ← intOf? a
      let d ← intOf? b
      if d = 0 then .error "zero denominator" else .ok ((n : Rat) / (d : Rat))
  | Json.num _ => do let n ← intOf? j; .ok (n : Rat)
  | _ => .error s!"not a rational: {j}"

def optOf? {α} (f : Json → Except String α) (j : Json) : Except String (Option α) :=
  match j with
  | Json.null => .ok none
  | _ => (f j).map some

def arrOf? {α} (f : Json → Except String α) (j : Json) : Except String (List α) :=
  match j with
  | Json.arr xs => xs.toList.mapM f
  | _ => .error s!"not an array: {j}"

def strOf? (j : Json) : Except String String :=
  match j with
  | Json.str s => .ok s
  | _ => .error s!"not a string: {j}"

def boolOf? (j : Json) : Except String Bool :=
  match j with
  | Json.bool b => .ok b
  | _ => .error s!"not a bool: {j}"

def field (j : Json) (k : String) : Except String Json :=
  match j.getObjVal? k with
  | .ok v => .ok v
  | .error _ => .error s!"missing field {k}"

def fieldD (j : Json) (k : String) (d : Json) : Json :=
  match j.getObjVal? k with
  | .ok v => v
  | .error _ => d

def getRat (j : Json) (k : String) : Except String Rat := do ratOf? (← field j k)
def getInt (j : Json) (k : String) : Except String Int := do intOf? (← field j k)
def getNat (j : Json) (k : String) : Except String Nat := do natOf? (← field j k)
def getStr (j : Json) (k : String) : Except String String := do strOf? (← field j k)
def getBool (j : Json) (k : String) : Except String Bool := do boolOf? (← field j k)
def getArr {α} (f : Json → Except String α) (j : Json) (k : String) : Except String (List α) := do
  arrOf? f (← field j k)
def getOptRat (j : Json) (k : String) : Except String (Option Rat) := do optOf? ratOf? (fieldD j k Json.null)

def optToJson {α} (f : α → Json) : Option α → Json
  | none => Json.null
  | some a => f a

def listToJson {α} (f : α → Json) (l : List α) : Json := Json.arr (l.map f).toArray

def intToJson (i : Int) : Json := Json.num (JsonNumber.fromInt i)
def natToJson (i : Nat) : Json := Json.num (JsonNumber.fromNat i)

def obj (kvs : List (String × Json)) : Json := Json.mkObj kvs

def okJson (v : Json) : Json := obj [("ok", v)]
def errJson (e : String) : Json := obj [("err", Json.str e)]

end Reamber.J
