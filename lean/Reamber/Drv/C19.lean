/- Driver operations of property C19 (ops are named "c19.<name>"). Core + Lean.Data.Json only. -/
import Reamber.Util.Json
import Reamber.Model.Analysis
import Reamber.Spec.Analysis

open Lean Reamber.J

namespace Reamber.C19

open Reamber.Analysis

def pairOf? (j : Json) : Except String (Rat × Rat) :=
  match j with
  | Json.arr #[a, b] => do .ok (← ratOf? a, ← ratOf? b)
  | _ => .error s!"pair expected: {j}"

def tpOf? (j : Json) : Except String Tp := do let p ← pairOf? j; .ok ⟨p.1, p.2⟩
def svOf? (j : Json) : Except String Sv := do let p ← pairOf? j; .ok ⟨p.1, p.2⟩

def rowOf? (j : Json) : Except String (Rat × Option Rat) :=
  match j with
  | Json.arr #[a, b] => do .ok (← ratOf? a, ← optOf? ratOf? b)
  | _ => .error s!"row expected: {j}"

def pairToJson (p : Rat × Rat) : Json := Json.arr #[ratToJson p.1, ratToJson p.2]
def rowToJson (p : Rat × Option Rat) : Json := Json.arr #[ratToJson p.1, optToJson ratToJson p.2]

def optRes {α} (f : α → Json) : Option α → Json
  | some v => okJson (f v)
  | none => errJson "value"

def rabs (x : Rat) : Rat := if x < 0 then -x else x

/-- element of `l` nearest to `x` -/
def nearest (x : Rat) : List Rat → Option Rat
  | [] => none
  | a :: t => match nearest x t with
    | none => some a
    | some b => if rabs (a - x) ≤ rabs (b - x) then some a else some b

def handle (op : String) (j : Json) : Except String Json := do
  match op with
  | "c19.dominant" =>
    let bpms ← getArr tpOf? j "bpms"
    let last ← getRat j "last"
    .ok (optRes ratToJson (dominantBpm bpms last))
  | "c19.dominant_spec" =>
    let bpms ← getArr tpOf? j "bpms"
    let last ← getRat j "last"
    let keys := groupKeys (bpms.map (·.bpm))
    .ok (okJson (obj [("totals", listToJson pairToJson (keys.map fun k => (k, totalTime bpms last k))),
                      ("set", listToJson ratToJson (dominantSet bpms last))]))
  | "c19.is_dominant" =>
    let bpms ← getArr tpOf? j "bpms"
    let last ← getRat j "last"
    let v ← getRat j "v"
    .ok (okJson (Json.bool (isDominantB bpms last v)))
  | "c19.refs" =>
    let bpms ← getArr tpOf? j "bpms"
    let last ← getRat j "last"
    let ov ← getOptRat j "override"
    .ok (okJson (listToJson ratToJson (refSet bpms last ov)))
  | "c19.sv_normalize" =>
    let bpms ← getArr tpOf? j "bpms"
    let last ← getRat j "last"
    let ov ← getOptRat j "override"
    .ok (optRes (listToJson (fun s : Sv => pairToJson (s.time, s.mult))) (svNormalize bpms last ov))
  | "c19.sv_norm_check" =>
    -- residuals of the relation `SvNormOk` on implementation output, per tempo point: mult·bpm − ref
    let bpms ← getArr tpOf? j "bpms"
    let ref ← getRat j "ref"
    let out ← getArr svOf? j "out"
    .ok (okJson (obj [("exact", Json.bool (svNormOkB bpms ref out)),
                      ("length_ok", Json.bool (out.length = bpms.length)),
                      ("times_ok", Json.bool ((bpms.zip out).all fun x => decide (x.2.time = x.1.time))),
                      ("products", listToJson ratToJson ((bpms.zip out).map fun x => x.2.mult * x.1.bpm))]))
  | "c19.scroll_speed" =>
    let hasSv ← getBool j "has_sv"
    let bpms ← getArr tpOf? j "bpms"
    let svs ← getArr svOf? j "svs"
    let omin ← getRat j "omin"
    let omax ← getRat j "omax"
    let ov ← getOptRat j "override"
    .ok (optRes (listToJson rowToJson) (scrollSpeed hasSv bpms svs omin omax ov))
  | "c19.speed_check" =>
    let hasSv ← getBool j "has_sv"
    let bpms ← getArr tpOf? j "bpms"
    let svs ← getArr svOf? j "svs"
    let omin ← getRat j "omin"
    let omax ← getRat j "omax"
    let ref ← getRat j "ref"
    let out ← getArr rowOf? j "out"
    .ok (okJson (obj [
      ("exact", Json.bool (speedOkB hasSv bpms svs omin omax ref out)),
      ("breakpoints_ok", Json.bool (decide (groupKeys (out.map (·.1)) = breakpoints hasSv bpms svs omin omax))),
      ("breakpoints", listToJson ratToJson (breakpoints hasSv bpms svs omin omax)),
      ("rows", listToJson (fun r : Rat × Option Rat =>
          let silent := (activeTps bpms r.1).isEmpty
          let al := allowedSpeeds hasSv bpms svs ref r.1
          obj [("silent", Json.bool silent),
               ("nearest", match r.2 with | some s => optToJson ratToJson (nearest s al) | none => Json.null),
               ("n_allowed", natToJson al.length)]) out)]))
  | "c19.bounds" =>
    -- (first, last) object of the chart = bounds of what `m.stack()` ranges over (`Chart.bounds`)
    let hasSv ← getBool j "has_sv"
    let bpms ← getArr tpOf? j "bpms"
    let svs ← getArr svOf? j "svs"
    let notes ← getArr ratOf? j "notes"
    .ok (optRes pairToJson (Chart.bounds ⟨hasSv, bpms, svs, notes⟩))
  | "c19.dom" =>
    let bpms ← getArr tpOf? j "bpms"
    let omax ← getRat j "omax"
    .ok (okJson (obj [("tempo_ok", Json.bool (tempoOkB bpms)), ("last_ok", Json.bool (lastOkB bpms omax)),
                      ("tie_at_max", Json.bool (tieAtMaxB bpms omax))]))
  | _ => .error s!"unknown op {op}"

end Reamber.C19
