/- Driver operations of property C12 (ops are named "c12.<name>"). Core + Lean.Data.Json only. -/
import Reamber.Util.Json
import Reamber.Model.Stack
import Reamber.Spec.Stack

open Lean Reamber.J

namespace Reamber.C12

open Reamber.Stack

def cellOf? (j : Json) : Except String Cell :=
  match j with
  | Json.null => .ok .nan
  | Json.bool b => .ok (.bool b)
  | Json.str s => .ok (.str s)
  | _ => do .ok (.num (← ratOf? j))

def cellToJson : Cell → Json
  | .nan => Json.null
  | .num q => ratToJson q
  | .bool b => Json.bool b
  | .str s => Json.str s

def zipCells (cols : List String) (vs : List Cell) : Except String Cells :=
  if cols.length ≠ vs.length then .error "row width ≠ number of columns" else .ok (cols.zip vs)

def tlistOf? (j : Json) : Except String TList := do
  let key ← getStr j "key"
  let cls ← getStr j "cls"
  let cols ← getArr strOf? j "cols"
  let labels ← getArr intOf? j "labels"
  let rows ← getArr (arrOf? cellOf?) j "rows"
  if labels.length ≠ rows.length then .error "labels/rows length" else
  let rs ← (labels.zip rows).mapM (fun p => do .ok (⟨p.1, ← zipCells cols p.2⟩ : Row))
  .ok ⟨key, cls, ⟨cols, rs⟩⟩

def tlistToJson (l : TList) : Json :=
  obj [("key", Json.str l.key), ("cls", Json.str l.cls), ("cols", listToJson Json.str l.frame.cols),
       ("labels", listToJson intToJson (l.frame.rows.map (·.label))),
       ("rows", listToJson (fun (r : Row) => listToJson (fun c => cellToJson (getC r.cells c)) l.frame.cols) l.frame.rows),
       ("keys_ok", Json.bool (l.frame.rows.all (fun r => decide (keys r.cells = l.frame.cols))))]

def tblToJson (t : Tbl) : Json :=
  obj [("key", Json.str t.key), ("cls", Json.str t.cls), ("cols", listToJson Json.str t.cols),
       ("rows", listToJson (fun (r : Cells) => listToJson (fun c => cellToJson (getC r c)) t.cols) t.rows)]

def fnOf? (j : Json) : Except String Fn :=
  match j with
  | Json.arr #[Json.str k, q] => do
      let q ← ratOf? q
      match k with
      | "add" => .ok (.add q)
      | "sub" => .ok (.sub q)
      | "mul" => .ok (.mul q)
      | "div" => if q = 0 then .error "div by zero is outside the model" else .ok (.div q)
      | _ => .error s!"unknown fn {k}"
  | _ => .error s!"fn expected [name, q]: {j}"

def valueOf? (j : Json) : Except String Value :=
  match j.getObjVal? "a" with
  | .ok a => do .ok (.array (← arrOf? cellOf? a))
  | .error _ => do .ok (.scalar (← cellOf? (fieldD j "s" Json.null)))

def opOf? (j : Json) : Except String Op := do
  let k ← getStr j "k"
  match k with
  | "stack" =>
      let incl ← optOf? (arrOf? strOf?) (fieldD j "incl" Json.null)
      .ok (.stack incl)
  | "set" => .ok (.set (← getNat j "sid") (← getStr j "col") (← valueOf? (← field j "v")))
  | "map" => .ok (.map (← getNat j "sid") (← getStr j "col") (← fnOf? (← field j "f")))
  | "loc_set" => .ok (.locSet (← getNat j "sid") (← getArr boolOf? j "mask") (← boolOf? (fieldD j "single" (Json.bool false)))
                        (← getArr strOf? j "cols") (← cellOf? (← field j "v")))
  | "loc_map" => .ok (.locMap (← getNat j "sid") (← getArr boolOf? j "mask") (← getArr strOf? j "cols") (← fnOf? (← field j "f")))
  | "attr_set" => .ok (.attrSet (← getNat j "sid") (← getStr j "name") (← valueOf? (← field j "v")))
  | "attr_map" => .ok (.attrMap (← getNat j "sid") (← getStr j "name") (← fnOf? (← field j "f")))
  | _ => .error s!"unknown op kind {k}"

def sopOf? (j : Json) : Except String SOp := do
  let k ← getStr j "k"
  match k with
  | "stack" => .ok .stack
  | "set" => .ok (.set (← getNat j "ms") (← getStr j "col") (← getArr (arrOf? cellOf?) j "rows"))
  | "map" => .ok (.map (← getNat j "ms") (← getStr j "col") (← fnOf? (← field j "f")))
  | "attr_set" => .ok (.attrSet (← getNat j "ms") (← getStr j "name") (← getArr (arrOf? cellOf?) j "rows"))
  | "attr_map" => .ok (.attrMap (← getNat j "ms") (← getStr j "name") (← fnOf? (← field j "f")))
  | _ => .error s!"unknown set-op kind {k}"

def errToJson : Option Err → Json
  | none => Json.null
  | some e => Json.str e.toString

def mapWOf? (j : Json) : Except String MapW := do
  .ok ⟨← getStr j "mcls", ← getArr tlistOf? j "lists", []⟩

/-- the implementation's lists after one step, label-free, for the specification check -/
def implTblsOf? (j : Json) : Except String (List Tbl) := do
  let ls ← arrOf? tlistOf? j
  .ok (contents ls)

def handle (op : String) (j : Json) : Except String Json := do
  match op with
  | "c12.run" =>
    let w ← mapWOf? j
    let ops ← getArr opOf? j "ops"
    let tr := runTrace w ops
    .ok (okJson (obj [
      ("wf", Json.bool (w.lists.all wfListB)),
      ("steps", listToJson (fun (p : MapW × Option Err) =>
          obj [("err", errToJson p.2), ("lists", listToJson tlistToJson p.1.lists)]) tr),
      ("fresh", listToJson Json.bool (freshTrace w ops)),
      ("latest", listToJson Json.bool (latestTrace w ops))]))
  | "c12.spec" =>
    -- the specification run: the same history, told which calls raised (observed on the implementation);
    -- `impl` = the implementation's lists after every call; the comparison is made here, on `Tbl`s
    let w ← mapWOf? j
    let ops ← getArr opOf? j "ops"
    let failed ← getArr boolOf? j "failed"
    let impl ← getArr implTblsOf? j "impl"
    let tr := specTrace (toSpec w) (ops.zip failed)
    let oks := (tr.zip impl).map (fun p => decide (p.1.tbls = p.2))
    .ok (okJson (obj [
      ("ok", listToJson Json.bool oks),
      ("complete", Json.bool (tr.length = impl.length && ops.length = failed.length)),
      ("spec", listToJson (fun (s : SpecW) => listToJson tblToJson s.tbls) tr)]))
  | "c12.run_set" =>
    let scls ← getStr j "scls"
    let maps ← getArr mapWOf? j "maps"
    let ops ← getArr sopOf? j "ops"
    let tr := srunTrace ⟨scls, maps, [], []⟩ ops
    .ok (okJson (obj [
      ("steps", listToJson (fun (p : SetW × Option Err) =>
          obj [("err", errToJson p.2),
               ("maps", listToJson (fun (m : MapW) => listToJson tlistToJson m.lists) p.1.maps)]) tr),
      ("fresh", listToJson Json.bool (sfreshTrace ⟨scls, maps, [], []⟩ ops))]))
  | "c12.spec_set" =>
    let scls ← getStr j "scls"
    let maps ← getArr mapWOf? j "maps"
    let ops ← getArr sopOf? j "ops"
    let failed ← getArr boolOf? j "failed"
    let impl ← getArr (arrOf? implTblsOf?) j "impl"
    let tr := specSTrace ⟨scls, maps.map toSpec, []⟩ (ops.zip failed)
    let oks := (tr.zip impl).map (fun p => decide (p.1.charts.map (·.tbls) = p.2))
    .ok (okJson (obj [
      ("ok", listToJson Json.bool oks),
      ("complete", Json.bool (tr.length = impl.length && ops.length = failed.length)),
      ("spec", listToJson (fun (s : SpecSetW) => listToJson (fun (c : SpecW) => listToJson tblToJson c.tbls) s.charts) tr)]))
  | _ => .error s!"unknown op {op}"

end Reamber.C12
