/- Driver operations of property C07 (ops are named "c07.<name>"). Core + Lean.Data.Json only. -/
import Reamber.Util.Json
import Reamber.Model.O2J
import Reamber.Spec.O2J
import Reamber.Model.O2JX

open Lean Reamber.J

namespace Reamber.C07

open Reamber.O2J

def f32ToJson : F32 → Json
  | .fin q => obj [("fin", ratToJson q)]
  | .inf n => obj [("inf", Json.bool n)]
  | .nan => Json.str "nan"

def fieldToJson : Field → Json
  | .int i => intToJson i
  | .flt f => f32ToJson f
  | .byte b => natToJson b

def metaValToJson : MetaVal → Json
  | .int i => obj [("k", Json.str "int"), ("v", intToJson i)]
  | .flt f => obj [("k", Json.str "flt"), ("v", f32ToJson f)]
  | .byte b => obj [("k", Json.str "byte"), ("v", natToJson b)]
  | .list l => obj [("k", Json.str "list"), ("v", listToJson fieldToJson l)]
  | .text cs => obj [("k", Json.str "text"), ("v", listToJson natToJson cs)]
  | .bytes bs => obj [("k", Json.str "bytes"), ("v", listToJson natToJson bs)]

def headerToJson (h : List (String × MetaVal)) : Json := obj (h.map (fun p => (p.1, metaValToJson p.2)))

def noteOutToJson (o : NoteOut) : Json :=
  match o.note with
  | .hit s => Json.arr #[ratToJson s.pos, intToJson s.col, natToJson s.vol, natToJson s.pan, ratToJson o.time]
  | .hold h t => Json.arr #[ratToJson h.pos, ratToJson t.pos, intToJson h.col, natToJson h.vol, natToJson h.pan,
                            ratToJson o.time, optToJson ratToJson o.len]

def isHit (o : NoteOut) : Bool := match o.note with | .hit _ => true | _ => false

def levelToJson (l : LevelOut) : Json :=
  obj [("hits", listToJson noteOutToJson (l.notes.filter isHit)),
       ("holds", listToJson noteOutToJson (l.notes.filter (fun o => !isHit o))),
       ("bpms", listToJson (fun (b : BpmOut) => Json.arr #[ratToJson b.pos, ratToJson b.bpm, ratToJson b.time]) l.bpms)]

def xtToJson : XT → Json
  | .fin q => ratToJson q
  | .nan => Json.str "nan"

/-- a tempo value of the extended model: a rational as `[num, den]`, else `{"inf": neg}` / `"nan"` -/
def tempoXToJson : F32 → Json
  | .fin q => ratToJson q
  | .inf n => obj [("inf", Json.bool n)]
  | .nan => Json.str "nan"

def noteOutXToJson (o : NoteOutX) : Json :=
  match o.note with
  | .hit s => Json.arr #[ratToJson s.pos, intToJson s.col, natToJson s.vol, natToJson s.pan, xtToJson o.time]
  | .hold h t => Json.arr #[ratToJson h.pos, ratToJson t.pos, intToJson h.col, natToJson h.vol, natToJson h.pan,
                            xtToJson o.time, optToJson xtToJson o.len]

def isHitX (o : NoteOutX) : Bool := match o.note with | .hit _ => true | _ => false

/-- same shape as `levelToJson`; times may be `"nan"`, tempo values may be `{"inf": …}` / `"nan"` -/
def levelXToJson (l : LevelOutX) : Json :=
  obj [("hits", listToJson noteOutXToJson (l.notes.filter isHitX)),
       ("holds", listToJson noteOutXToJson (l.notes.filter (fun o => !isHitX o))),
       ("bpms", listToJson (fun (b : BpmOutX) => Json.arr #[ratToJson b.pos, tempoXToJson b.bpm, xtToJson b.time]) l.bpms)]

def resToJson {α} (f : α → Json) : Except Err α → Json
  | .ok v => okJson (f v)
  | .error e => errJson e.toString

def domToJson (d : Spec.LevelDom) : Json :=
  obj [("no_measure_fraction", Json.bool d.noMeasureFraction), ("tempos_positive", Json.bool d.temposPositive),
       ("measures_nonneg", Json.bool d.measuresNonneg), ("closed", Json.bool d.closed), ("paired", Json.bool d.paired)]

/-- the specification side for a whole file: header at the declared offsets; per level the expected content -/
def specFile (bs : List Nat) : Json :=
  match Spec.specMeta bs with
  | .error e => obj [("header", errJson e.toString)]
  | .ok hdr =>
    let counts : List Int := packageCounts hdr
    let init : Option Rat := Spec.headerTempo hdr
    let framed := Spec.frameLevels counts (bs.drop Spec.headerSize)
    let lv : Json :=
      match framed, init with
      | some lvls, some q =>
        listToJson (fun pk => obj [("out", resToJson levelToJson (Spec.specLevel q pk)), ("dom", domToJson (Spec.levelDom pk)),
                                   ("packages", natToJson pk.length)]) lvls
      | _, _ => Json.null
    obj [("header", okJson (headerToJson hdr)), ("framed", Json.bool framed.isSome),
         ("wf", Json.bool (Spec.wellFormed bs)),
         ("set", resToJson (fun (f : FileOut) => listToJson levelToJson f.levels) (Spec.specSet bs)),
         ("init_positive", Json.bool (match init with | some q => decide (0 < q) | none => false)), ("levels", lv)]

def handle (op : String) (j : Json) : Except String Json := do
  match op with
  | "c07.run" =>
    let bs ← getArr natOf? j "b"
    let m := readFile bs
    .ok (obj [("model", resToJson (fun (f : FileOut) => obj [("header", headerToJson f.header),
                                                             ("levels", listToJson levelToJson f.levels)]) m),
              ("modelx", resToJson (fun (f : FileOutX) => obj [("header", headerToJson f.header),
                                                              ("levels", listToJson levelXToJson f.levels)]) (readFileX bs)),
              ("xrefines", Json.bool (refinesB bs)),
              ("spec", specFile bs)])
  | "c07.f32" =>
    let bs ← getArr natOf? j "b"
    .ok (okJson (f32ToJson (decodeF32 bs)))
  | "c07.int" =>
    let bs ← getArr natOf? j "b"
    .ok (okJson (obj [("i16", intToJson (decodeI16 (bs.take 2))), ("i32", intToJson (decodeI32 bs))]))
  | "c07.time" =>
    -- posTime for explicit tempo events [[pos, bpm], ...] and positions
    let init ← getRat j "init"
    let evs ← getArr (fun e => match e with
      | Json.arr #[a, b] => do .ok ((← ratOf? a), (← ratOf? b))
      | _ => .error "event expected [pos, bpm]") j "evs"
    let ps ← getArr ratOf? j "ps"
    .ok (okJson (listToJson ratToJson (ps.map (Spec.posTime init evs))))
  | _ => .error s!"unknown op {op}"

end Reamber.C07
