/- Driver operations of property C07 (ops are named "c07.<name>"). Core + Lean.Data.Json only. -/
import Reamber.Util.Json
import Reamber.Model.O2J
import Reamber.Spec.O2J
import Reamber.Model.O2JX
import Reamber.Lemmas.O2JEncode

open Lean Reamber.J

namespace Reamber.C07

open Reamber.O2J

def f32ToJson : F32 → Json
  | .fin q => obj [("fin", ratToJson q)]
  | .inf n => obj [("inf", Json.bool n)]
  | .nan => Json.str "nan"

def fieldToJson : Field → Json
  | .int i => intToJson i
  | .flt f => f32ToJson f
  | .byte b => natToJson b

def metaValToJson : MetaVal → Json
  | .int i => obj [("k", Json.str "int"), ("v", intToJson i)]
  | .flt f => obj [("k", Json.str "flt"), ("v", f32ToJson f)]
  | .byte b => obj [("k", Json.str "byte"), ("v", natToJson b)]
  | .list l => obj [("k", Json.str "list"), ("v", listToJson fieldToJson l)]
  | .text cs => obj [("k", Json.str "text"), ("v", listToJson natToJson cs)]
  | .bytes bs => obj [("k", Json.str "bytes"), ("v", listToJson natToJson bs)]

def headerToJson (h : List (String × MetaVal)) : Json := obj (h.map (fun p => (p.1, metaValToJson p.2)))

def noteOutToJson (o : NoteOut) : Json :=
  match o.note with
  | .hit s => Json.arr #[ratToJson s.pos, intToJson s.col, natToJson s.vol, natToJson s.pan, ratToJson o.time]
  | .hold h t => Json.arr #[ratToJson h.pos, ratToJson t.pos, intToJson h.col, natToJson h.vol, natToJson h.pan,
                            ratToJson o.time, optToJson ratToJson o.len]

def isHit (o : NoteOut) : Bool := match o.note with | .hit _ => true | _ => false

def levelToJson (l : LevelOut) : Json :=
  obj [("hits", listToJson noteOutToJson (l.notes.filter isHit)),
       ("holds", listToJson noteOutToJson (l.notes.filter (fun o => !isHit o))),
       ("bpms", listToJson (fun (b : BpmOut) => Json.arr #[ratToJson b.pos, ratToJson b.bpm, ratToJson b.time]) l.bpms)]

def xtToJson : XT → Json
  | .fin q => ratToJson q
  | .nan => Json.str "nan"

/-- a tempo value of the extended model: a rational as `[num, den]`, else `{"inf": neg}` / `"nan"` -/
def tempoXToJson : F32 → Json
  | .fin q => ratToJson q
  | .inf n => obj [("inf", Json.bool n)]
  | .nan => Json.str "nan"

def noteOutXToJson (o : NoteOutX) : Json :=
  match o.note with
  | .hit s => Json.arr #[ratToJson s.pos, intToJson s.col, natToJson s.vol, natToJson s.pan, xtToJson o.time]
  | .hold h t => Json.arr #[ratToJson h.pos, ratToJson t.pos, intToJson h.col, natToJson h.vol, natToJson h.pan,
                            xtToJson o.time, optToJson xtToJson o.len]

def isHitX (o : NoteOutX) : Bool := match o.note with | .hit _ => true | _ => false

/-- same shape as `levelToJson`; times may be `"nan"`, tempo values may be `{"inf": …}` / `"nan"` -/
def levelXToJson (l : LevelOutX) : Json :=
  obj [("hits", listToJson noteOutXToJson (l.notes.filter isHitX)),
       ("holds", listToJson noteOutXToJson (l.notes.filter (fun o => !isHitX o))),
       ("bpms", listToJson (fun (b : BpmOutX) => Json.arr #[ratToJson b.pos, tempoXToJson b.bpm, xtToJson b.time]) l.bpms)]

def resToJson {α} (f : α → Json) : Except Err α → Json
  | .ok v => okJson (f v)
  | .error e => errJson e.toString

def domToJson (d : Spec.LevelDom) : Json :=
  obj [("no_measure_fraction", Json.bool d.noMeasureFraction), ("tempos_positive", Json.bool d.temposPositive),
       ("measures_nonneg", Json.bool d.measuresNonneg), ("closed", Json.bool d.closed), ("paired", Json.bool d.paired)]

/-- the specification side for a whole file: header at the declared offsets; per level the expected content -/
def specFile (bs : List Nat) : Json :=
  match Spec.specMeta bs with
  | .error e => obj [("header", errJson e.toString)]
  | .ok hdr =>
    let counts : List Int := packageCounts hdr
    let init : Option Rat := Spec.headerTempo hdr
    let framed := Spec.frameLevels counts (bs.drop Spec.headerSize)
    let lv : Json :=
      match framed, init with
      | some lvls, some q =>
        listToJson (fun pk => obj [("out", resToJson levelToJson (Spec.specLevel q pk)), ("dom", domToJson (Spec.levelDom pk)),
                                   ("packages", natToJson pk.length)]) lvls
      | _, _ => Json.null
    obj [("header", okJson (headerToJson hdr)), ("framed", Json.bool framed.isSome),
         ("wf", Json.bool (Spec.wellFormed bs)),
         ("set", resToJson (fun (f : FileOut) => listToJson levelToJson f.levels) (Spec.specSet bs)),
         ("init_positive", Json.bool (match init with | some q => decide (0 < q) | none => false)), ("levels", lv)]

/-! ### the encoder model (`Lemmas/O2JEncode.lean`, core only): abstract chart in, bytes out -/

def f32BitsOf? (j : Json) : Except String F32Bits :=
  match j with
  | Json.arr #[a, b, c] => do .ok ⟨← natOf? a, ← natOf? b, ← natOf? c⟩
  | _ => .error "float32 expected [s, e, m]"

def kindOf? (n : Nat) : Except String Kind :=
  if n = 0 then .ok .hit else if n = 2 then .ok .head else if n = 3 then .ok .tail else .error "note type 0/2/3 expected"

def aslotOf? (j : Json) : Except String ASlot :=
  match j with
  | Json.null => .ok .empty
  | Json.arr #[en, k, v, p] => do .ok (.note (← intOf? en) (← kindOf? (← natOf? k)) (← natOf? v) (← natOf? p))
  | _ => .error "slot expected null or [enabled, type, volume, pan]"

def tslotOf? (j : Json) : Except String TSlot :=
  match j with
  | Json.null => .ok none
  | Json.arr #[a, b, c] => do .ok (some ((← natOf? a), (← natOf? b), (← natOf? c)))
  | _ => .error "tempo slot expected null or [s, e, m]"

def apkgOf? (j : Json) : Except String APkg := do
  let m ← getInt j "m"
  let k ← getStr j "k"
  if k = "n" then .ok (.notes m (← getNat j "c") (← getArr aslotOf? j "sl"))
  else if k = "t" then .ok (.tempo m (← getArr tslotOf? j "sl"))
  else .error "package kind n/t expected"

def aheaderOf? (j : Json) : Except String AHeader := do
  .ok { songId := ← getInt j "song_id", signature := ← getArr natOf? j "signature",
        encodeVersion := ← f32BitsOf? (← field j "encode_version"), genre := ← getInt j "genre",
        bpm := ← f32BitsOf? (← field j "bpm"), level := ← getArr intOf? j "level",
        eventCount := ← getArr intOf? j "event_count", noteCount := ← getArr intOf? j "note_count",
        measureCount := ← getArr intOf? j "measure_count", oldEncodeVersion := ← getInt j "old_encode_version",
        oldSongId := ← getInt j "old_song_id", oldGenre := ← getArr natOf? j "old_genre", bmpSize := ← getInt j "bmp_size",
        oldFileVersion := ← getInt j "old_file_version", title := ← getArr natOf? j "title",
        artist := ← getArr natOf? j "artist", creator := ← getArr natOf? j "creator", ojmFile := ← getArr natOf? j "ojm_file",
        coverSize := ← getInt j "cover_size", duration := ← getArr intOf? j "duration",
        noteOffset := ← getArr intOf? j "note_offset", coverOffset := ← getInt j "cover_offset" }

def tslotOk : TSlot → Bool
  | none => true
  | some (s, e, m) => decide (s < 2) && decide (e < 255) && decide (m < 2 ^ 23) && (decide (e ≠ 0) || decide (m ≠ 0))

/-- the tempo part of `AChart.Valid`: every tempo slot empty or a finite non-zero float -/
def tempoOk (c : AChart) : Bool :=
  c.levels.all (fun l => l.all (fun p => match p with | .tempo _ sl => sl.all tslotOk | _ => true))

/-- `aTimeline` of the abstract chart = `specSet` of its bytes (theorem `specSet_encodeChart`, here by evaluation; only
claimed for charts whose tempo floats are finite and non-zero) -/
def timelineEq (c : AChart) : Bool :=
  if !tempoOk c then true else
  match c.header.bpm.val with
  | .fin q =>
    match aTimeline q c, Spec.specSet (encodeChart c) with
    | .ok a, .ok b => decide (a = b)
    | .error _, .error _ => true
    | _, _ => false
  | _ => true

def handle (op : String) (j : Json) : Except String Json := do
  match op with
  | "c07.run" =>
    let bs ← getArr natOf? j "b"
    let m := readFile bs
    .ok (obj [("model", resToJson (fun (f : FileOut) => obj [("header", headerToJson f.header),
                                                             ("levels", listToJson levelToJson f.levels)]) m),
              ("modelx", resToJson (fun (f : FileOutX) => obj [("header", headerToJson f.header),
                                                              ("levels", listToJson levelXToJson f.levels)]) (readFileX bs)),
              ("xrefines", Json.bool (refinesB bs)),
              ("spec", specFile bs)])
  | "c07.encode" =>
    let hdr ← aheaderOf? (← field j "hdr")
    let lv ← getArr (arrOf? apkgOf?) j "levels"
    let tail ← getArr natOf? j "tail"
    let c : AChart := ⟨hdr, lv, tail⟩
    let bs := encodeChart c
    .ok (okJson (obj [("bytes", listToJson natToJson bs), ("wf", Json.bool (Spec.wellFormed bs)),
                      ("timeline_eq", Json.bool (timelineEq c))]))
  | "c07.f32" =>
    let bs ← getArr natOf? j "b"
    .ok (okJson (f32ToJson (decodeF32 bs)))
  | "c07.int" =>
    let bs ← getArr natOf? j "b"
    .ok (okJson (obj [("i16", intToJson (decodeI16 (bs.take 2))), ("i32", intToJson (decodeI32 bs))]))
  | "c07.time" =>
    -- posTime for explicit tempo events [[pos, bpm], ...] and positions
    let init ← getRat j "init"
    let evs ← getArr (fun e => match e with
      | Json.arr #[a, b] => do .ok ((← ratOf? a), (← ratOf? b))
      | _ => .error "event expected [pos, bpm]") j "evs"
    let ps ← getArr ratOf? j "ps"
    .ok (okJson (listToJson ratToJson (ps.map (Spec.posTime init evs))))
  | _ => .error s!"unknown op {op}"

end Reamber.C07
