/- Driver operations of property C05 (ops are named "c05.<name>"). Core + Lean.Data.Json only.
Byte strings travel as lower-case hex text (two characters per byte), rationals as [num, den]. -/
import Reamber.Util.Json
import Reamber.Drv.Timing
import Reamber.Drv.C04
import Reamber.Model.BMS
import Reamber.Spec.BMS

open Lean Reamber.J Reamber.Timing

namespace Reamber.C05

open Reamber.BMS Reamber.C04

def dictOf? {α} (f : Json → Except String α) (j : Json) : Except String (Dict α) :=
  arrOf? (fun kv => match kv with
    | Json.arr #[k, v] => do .ok ((← bytesOf? k), (← f v))
    | _ => .error "dict entry expected [key, value]") j

def hitOf? (j : Json) : Except String HitOut :=
  match j with
  | Json.arr #[c, s, o] => do .ok ⟨← natOf? c, ← bytesOf? s, ← ratOf? o⟩
  | _ => .error "hit expected [col, sample, offset]"

def holdOf? (j : Json) : Except String WHold :=
  match j with
  | Json.arr #[c, s, o, t] => do .ok ⟨← natOf? c, ← bytesOf? s, ← ratOf? o, ← ratOf? t⟩
  | _ => .error "hold expected [col, sample, offset, tail]"

def chartOf? (j : Json) : Except String WChart := do
  .ok { title := ← bytesOf? (← field j "title"), artist := ← bytesOf? (← field j "artist"),
        version := ← bytesOf? (← field j "version"), lnEnd := ← bytesOf? (← field j "ln_end"),
        samples := ← dictOf? bytesOf? (← field j "samples"), misc := ← dictOf? bytesOf? (← field j "misc"),
        bpms := ← getArr bcOffOfJson j "bpms", hits := ← getArr hitOf? j "hits", holds := ← getArr holdOf? j "holds" }

/-- what the specification says about an in-memory time under the in-memory tempo list: is it on the snap grid
of the tempo in force, the beat length there, the distance to a snapping tie -/
def timeFacts (g : List Rat) (tm : List BcOff) (t : Rat) : Json :=
  match (tm.filter (fun b => decide (b.offset ≤ t))).getLast? with
  | none => Json.null
  | some b =>
    let bl := beatLen b.bpm
    let r := frac ((t - b.offset) / bl)
    let on := g.contains r
    obj [("on_grid", Json.bool on), ("beat_len", ratToJson bl),
         ("margin", if on then Json.null else ratToJson (rabs (tieMargin g r)))]

/-- consecutive tempo points sit a whole number (≥ 1) of 4/4 measures apart -/
def onMeasureLines : List BcOff → Bool
  | a :: b :: rest =>
    let d := (b.offset - a.offset) / measLen a.bpm a.met
    decide (d.den = 1) && decide (0 < d) && onMeasureLines (b :: rest)
  | _ => true

def handle (op : String) (j : Json) : Except String Json := do
  match op with
  | "c05.write" =>
    let lay ← getLayout j
    let dflt ← bytesOf? (← field j "no_sample_default")
    let c ← chartOf? (← field j "chart")
    let g := grid defaultMaxDiv
    let tm := sortBcOff c.bpms
    let facts := obj [("hits", listToJson (fun h => timeFacts g tm h.offset) c.hits),
                      ("heads", listToJson (fun h => timeFacts g tm h.offset) c.holds),
                      ("tails", listToJson (fun h => timeFacts g tm h.tail) c.holds),
                      ("bpms", listToJson (fun b => timeFacts g tm b.offset) tm),
                      ("on_measure_lines", Json.bool (onMeasureLines tm)),
                      ("bpm_3dec", Json.bool (c.bpms.all (fun b => roundDec Generated.BMS.exbpmDecimals b.bpm == b.bpm)))]
    let cells := match writeCells defaultGrid lay dflt c with | .ok cs => cs | .error _ => []
    -- two written objects of one channel at the same position of the same measure (the property's "colliding")
    let collide := (zipIdxFrom 0 cells).any fun a => (zipIdxFrom 0 cells).any fun b =>
      a.1 < b.1 && a.2.measure = b.2.measure && a.2.channel = b.2.channel && a.2.idx * b.2.den = b.2.idx * a.2.den
    let facts := facts.mergeObj (obj [("collision", Json.bool collide),
                                      ("max_measure", intToJson (cells.foldl (fun m c => max m c.measure) 0))])
    match write defaultGrid lay dflt c with
    | .ok ls => .ok (obj [("ok", listToJson bytesToJson ls), ("facts", facts)])
    | .error e => .ok (obj [("err", Json.str e.toString), ("facts", facts)])
  | "c05.lines_valid" =>
    let lines ← getArr bytesOf? j "lines"
    .ok (okJson (listToJson (fun l => Json.bool (!(isDataLine l) || lineValid l)) lines))
  | "c05.find_lcm" =>
    let xs ← getArr natOf? j "xs"
    let t ← getNat j "thr"
    .ok (okJson (listToJson natToJson (findLcm xs t)))
  | _ => .error s!"unknown op {op}"

end Reamber.C05
