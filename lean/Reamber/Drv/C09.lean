/- Driver operations of property C09 (ops are named "c09.<name>"). Core + Lean.Data.Json only.

  c09.abs   {fmt: "osu"|"qua"|"sm"|"bms"|"o2j", …payload of the format's own denote op}
            → {"ok": {"charts": [AChart…], "valid": bool, "why": […], "info": {…}}} | {"err": class}
            AChart = {"hits": [[t, col]…], "holds": [[t, col, len]…], "bpms": [[t, bpm]…], "facts": {…}}
  c09.close {eps, res: "ms" | [f, g] (beats, each [num, den]), exact, shift, a: AChart, b: AChart} → {"ok": {close, hits, holds, bpms}}
-/
import Reamber.Util.Json
import Reamber.Spec.Pipeline
import Reamber.Drv.C01
import Reamber.Drv.C04
import Reamber.Drv.C06

open Lean Reamber.J

namespace Reamber.C09

open Reamber.Pipeline Reamber.Timing

def hitJ (h : AHit) : Json := Json.arr #[ratToJson h.1, intToJson h.2]
def holdJ (h : AHold) : Json := Json.arr #[ratToJson h.1, intToJson h.2.1, ratToJson h.2.2]
def bpmJ (b : ABpm) : Json := Json.arr #[ratToJson b.1, ratToJson b.2]

def hitOf (j : Json) : Except String AHit :=
  match j with
  | Json.arr #[t, c] => do .ok (← ratOf? t, ← intOf? c)
  | _ => .error s!"hit expected [time, column]: {j}"

def holdOf (j : Json) : Except String AHold :=
  match j with
  | Json.arr #[t, c, l] => do .ok (← ratOf? t, ← intOf? c, ← ratOf? l)
  | _ => .error s!"hold expected [time, column, length]: {j}"

def bpmOf (j : Json) : Except String ABpm :=
  match j with
  | Json.arr #[t, b] => do .ok (← ratOf? t, ← ratOf? b)
  | _ => .error s!"tempo point expected [time, bpm]: {j}"

def chartOf (j : Json) : Except String AChart := do
  .ok { hits := ← getArr hitOf j "hits", holds := ← getArr holdOf j "holds", bpms := ← getArr bpmOf j "bpms" }

/-- what the harness needs to know about a source chart to place a case inside / outside the parts' hypotheses -/
def factsJ (c : AChart) : Json :=
  obj [("keys", optToJson intToJson (keysOf c)),
       ("first_tempo", optToJson ratToJson (firstTempo c)),
       ("grid_exact", Json.bool (gridExact c)),
       ("tempo_on_lines", Json.bool (onMeasureLines (sortBpms c.bpms))),
       ("before_first_tempo", Json.bool (beforeFirstTempo c)),
       ("inside_hold", Json.bool (insideHold c)),
       ("cell_collision", Json.bool (cellCollision c)),
       ("bpm_3dec", Json.bool (c.bpms.all (fun b => BMS.roundDec Generated.BMS.exbpmDecimals b.2 == b.2))),
       ("bpm_positive", Json.bool (c.bpms.all (fun b => decide (0 < b.2)))),
       ("tempo_tie_unequal", Json.bool (tieUnequal (sortBpms c.bpms))),
       ("bpm_times_distinct", Json.bool (((sortBpms c.bpms).map (·.1)).eraseDups.length == c.bpms.length)),
       ("neg_length", Json.bool (c.holds.any (fun h => decide (h.2.2 < 0)))),
       ("n", natToJson (c.hits.length + c.holds.length)), ("n_bpms", natToJson (normBpms 0 c.bpms).length)]

def chartJ (c : AChart) : Json :=
  obj [("hits", listToJson hitJ c.hits), ("holds", listToJson holdJ c.holds), ("bpms", listToJson bpmJ c.bpms),
       ("facts", factsJ c)]

def result (charts : List AChart) (why : List String) (info : List (String × Json)) : Json :=
  okJson (obj [("charts", listToJson chartJ charts), ("valid", Json.bool why.isEmpty),
               ("why", listToJson Json.str why), ("info", obj info)])

def strsOf (j : Json) : Except String (List (List Char)) := do
  .ok ((← arrOf? strOf? j).map String.toList)

/-! ### the five formats -/

def absOsu (j : Json) : Except String Json := do
  let lines ← strsOf (← field j "lines")
  match Osu.denote lines with
  | .error e => .ok (errJson e.toString)
  | .ok c =>
    let ls := (lines.map Osu.strip).filter (fun l => l ≠ [])
    let secs := (Osu.sections ls).2
    let tp := (Osu.body "[TimingPoints]" secs).filter (fun l => !Osu.isComment l)
    let ho := (Osu.body "[HitObjects]" secs).filter (fun l => !Osu.isComment l)
    let k := Osu.pyTrunc c.md.circleSize
    let a := ofOsu c
    let why := (if tp.all Osu.wfTimingLine then [] else ["a [TimingPoints] line is not of the dialect"]) ++
               (if ho.all Osu.wfObjLine then [] else ["a [HitObjects] line is not of the dialect"]) ++
               (if c.md.mode = 3 then [] else ["Mode is not 3 (mania)"]) ++
               (if decide ((k : Rat) = c.md.circleSize) && decide (1 ≤ k) then [] else ["CircleSize is not a positive integer"]) ++
               (if (a.hits.map (·.2) ++ a.holds.map (·.2.1)).all (fun col => decide (0 ≤ col) && decide (col < k)) then []
                else ["a column is outside 0..K-1"])
    .ok (result [a] why [("keys", intToJson k), ("n_svs", natToJson c.svs.length),
                         ("sv_times", listToJson ratToJson (c.svs.map (·.offset)))])

def absQua (j : Json) : Except String Json := do
  let d ← C06.docOfJson (← field j "doc")
  match ofQuaDoc d with
  | .error e => .ok (errJson e.toString)
  | .ok a =>
    let mode : String := match d.info.lookup "Mode" with
      | some (.str s) => s
      | none => "Keys4"      -- the format's (and the reader's) default
      | _ => ""
    let offending := Qua.Spec.offending d
    let why := (if Qua.Spec.docAllowed d then [] else ["a key / value type outside the format: " ++
      String.intercalate "," (offending.map (fun p => p.1 ++ "." ++ p.2))])
    let svTimes : List Rat := (d.sliderVelocities.getD []).filterMap fun r =>
      match r.get "StartTime" with
      | none => some 0
      | some v => (Qua.numOf v).toOption
    .ok (result [a] why [("mode", Json.str mode),
                         ("only_keysounds", Json.bool (!offending.isEmpty && offending.all (fun p => p.2 = "KeySounds"))),
                         ("allowed_without_keysounds", Json.bool (Qua.Spec.docAllowed (dropKs d))),
                         ("objs_declared", Json.bool (Qua.Spec.objsDeclared (dropKs d))),
                         ("sv_zero", Json.bool ((d.sliderVelocities.getD []).any fun r =>
                            match r.get "Multiplier" with
                            | some v => (match Qua.numOf v with | .ok q => decide (q = 0) | .error _ => true)
                            | none => false)),
                         ("sv_times", listToJson ratToJson svTimes)])

def smKeys (ty : List Char) : Option Nat := SM.getKeys ty

def absSM (j : Json) : Except String Json := do
  let t ← getStr j "text"
  match SM.denote t.toList with
  | none => .ok (errJson "msd")
  | some d =>
    match ofSM d with
    | none => .ok (errJson "timing")
    | some charts =>
      let perChart := d.charts.map fun c =>
        (if c.wellBracketed then [] else ["a chart is not well bracketed"]) ++
        (if c.rowsMult4 then [] else ["a measure's row count is not a multiple of 4"]) ++
        (match smKeys c.chartType with
         | some k => if c.notes.all (fun n => decide (n.col < k)) then [] else ["a symbol beyond the chart type's key count"]
         | none => ["chart type without a key count"])
      let why := (if d.chartsWellFormed then [] else ["a #NOTES value does not have six parameters"]) ++
                 (if d.stopsPresent && !d.stopsEmpty then ["non-empty #STOPS"] else []) ++ perChart.flatten
      .ok (result charts why
        [("chart_types", listToJson (fun c => Json.str (String.ofList c.chartType)) d.charts),
         ("keys", listToJson (fun c => optToJson natToJson (smKeys c.chartType)) d.charts),
         ("extra_kinds", listToJson (fun c => Json.bool (c.notes.any (fun n => n.kind ≠ SM.Kind.hit ∧ n.kind ≠ SM.Kind.hold))) d.charts),
         ("stops_present", Json.bool d.stopsPresent),
         ("tempo_ties", Json.bool (match d.bpms with | some b => (smTempo b).length != b.length | none => false)),
         ("tempo_on_grid", Json.bool (match d.bpms with | some b => SM.tempoOnGrid b | none => false)),
         ("offset_ms", optToJson ratToJson (d.offsetSec.map (fun o => -(1000 * o))))])

def absBMS (j : Json) : Except String Json := do
  let n ← getStr j "layout"
  let lay ← match BMS.bookLayout n with
    | some l => .ok l
    | none => .error s!"unknown layout {n}"
  let lines ← getArr C04.bytesOf? j "lines"
  let notes := match BMS.parseDoc lines with | .ok d => d.notes | .error _ => []
  let lnobj : BMS.Bytes := match BMS.parseDoc lines with
    | .ok d => (BMS.dictGet? d.header "LNOBJ".toList).getD []
    | .error _ => []
  let timeSig := notes.any (fun d => d.2.1 = lay.timeSig)
  match BMS.denote lay lines with
  | none => .ok (obj [("err", Json.str "denote"), ("time_sig", Json.bool timeSig)])
  | some d =>
    let g := grid defaultMaxDiv
    let dataLines := (lines.map BMS.strip).filter BMS.isDataLine
    let why := (if dataLines.all BMS.lineValid then [] else ["a data line is not #mmmcc: + an even number of base-36 characters"])
    .ok (result [ofBMS d] why
      [("grid_compatible", Json.bool (gridCompatible g d.tempo)),
       ("header_texts_present", Json.bool (match BMS.parseDoc lines with
          | .ok dd => (BMS.dictGet? dd.header "TITLE".toList).isSome && (BMS.dictGet? dd.header "ARTIST".toList).isSome &&
                      (BMS.dictGet? dd.header "PLAYLEVEL".toList).isSome
          | .error _ => false)),
       ("resnap_stable", Json.bool (C04.resnapStable defaultGrid d.tempo)),
       ("lanes_ordered", Json.bool (C04.lanesOrdered lay notes)),
       ("d05", Json.bool (C04.d05Pred lay lnobj notes)),
       ("time_sig", Json.bool timeSig),
       ("max_measure", intToJson ((d.shits.map (·.snap.measure) ++ d.sholds.map (·.tail.measure) ++
                                   d.tempo.map (·.snap.measure)).foldl max 0))])

def absO2J (j : Json) : Except String Json := do
  let bs ← getArr natOf? j "b"
  match O2J.Spec.specMeta bs with
  | .error e => .ok (errJson e.toString)
  | .ok hdr =>
    let counts : List Int := match O2J.lookupMeta hdr "package_count" with | some (.list l) => O2J.intsOf l | _ => []
    let init : Option Rat := match O2J.lookupMeta hdr "bpm" with | some (.flt (.fin q)) => some q | _ => none
    match O2J.Spec.frameLevels counts (bs.drop O2J.Spec.headerSize), init with
    | some lvls, some q =>
      let outs := lvls.map (O2J.Spec.specLevel q)
      let doms := lvls.map O2J.Spec.levelDom
      if outs.all (fun o => match o with | .ok _ => true | .error _ => false) then
        let charts := outs.filterMap (fun o => match o with | .ok l => some (ofO2J l) | .error _ => none)
        let why := (if decide (0 < q) then [] else ["header tempo not positive"]) ++
          (if doms.all (fun d => d.noMeasureFraction && d.temposPositive && d.measuresNonneg && d.closed && d.paired) then []
           else ["a level is outside C07's domain (measure fraction / tempo / measure / open long note)"])
        .ok (result charts why [("levels", natToJson lvls.length)])
      else .ok (errJson "pairing")
    | _, _ => .ok (errJson "framing")

def resOf (j : Json) : Except String Res :=
  match j with
  | Json.str "ms" => .ok .ms
  | Json.arr #[f, g] => do .ok (.beat (← ratOf? f) (← ratOf? g))
  | _ => .error s!"resolution expected \"ms\" or [f, g]: {j}"

def handle (op : String) (j : Json) : Except String Json := do
  match op with
  | "c09.abs" =>
    match ← getStr j "fmt" with
    | "osu" => absOsu j
    | "qua" => absQua j
    | "sm" => absSM j
    | "bms" => absBMS j
    | "o2j" => absO2J j
    | f => .error s!"unknown format {f}"
  | "c09.close" =>
    let eps ← getRat j "eps"
    let res ← resOf (← field j "res")
    let exact ← getBool j "exact"
    let shift ← getInt j "shift"
    let a ← chartOf (← field j "a")
    let b ← chartOf (← field j "b")
    let v := closeVerdict eps res exact shift a b
    .ok (okJson (obj [("close", Json.bool v.all), ("hits", Json.bool v.hits), ("holds", Json.bool v.holds),
                      ("bpms", Json.bool v.bpms),
                      ("crowded", Json.bool (match res with | .ms => false | .beat _ _ => crowded res a)),
                      ("tempo_crowded", Json.bool (tempoCrowded res a)),
                      ("norm_a", listToJson bpmJ (normBpms eps a.bpms)), ("norm_b", listToJson bpmJ (normBpms eps b.bpms))]))
  | "c09.facts" =>
    let a ← chartOf (← field j "a")
    .ok (okJson (factsJ a))
  | "c09.crowded" =>
    let res ← resOf (← field j "res")
    let a ← chartOf (← field j "a")
    .ok (okJson (obj [("crowded", Json.bool (match res with | .ms => false | .beat _ _ => crowded res a)),
                      ("tempo_crowded", Json.bool (tempoCrowded res a))]))
  | _ => .error s!"unknown op {op}"

end Reamber.C09
