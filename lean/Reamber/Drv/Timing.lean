/- JSON codecs for the timing kernel + the C10/C11 driver operations. -/
import Reamber.Util.Json
import Reamber.Model.Timing
import Reamber.Spec.Timing

open Lean Reamber.J

namespace Reamber.Timing

def snapOfJson (j : Json) : Except String Snap :=
  match j with
  | Json.arr #[m, b, t] => do .ok ⟨← intOf? m, ← ratOf? b, ← optOf? ratOf? t⟩
  | _ => .error s!"snap expected [measure, beat, met]: {j}"

def snapToJson (s : Snap) : Json := Json.arr #[intToJson s.measure, ratToJson s.beat, optToJson ratToJson s.met]

def bcSnapOfJson (j : Json) : Except String BcSnap :=
  match j with
  | Json.arr #[b, m, s] => do .ok ⟨← ratOf? b, ← ratOf? m, ← snapOfJson s⟩
  | _ => .error s!"bcsnap expected [bpm, met, snap]: {j}"

def bcSnapToJson (b : BcSnap) : Json := Json.arr #[ratToJson b.bpm, ratToJson b.met, snapToJson b.snap]

def bcOffOfJson (j : Json) : Except String BcOff :=
  match j with
  | Json.arr #[b, m, o] => do .ok ⟨← ratOf? b, ← ratOf? m, ← ratOf? o⟩
  | _ => .error s!"bcoff expected [bpm, met, offset]: {j}"

def bcOffToJson (b : BcOff) : Json := Json.arr #[ratToJson b.bpm, ratToJson b.met, ratToJson b.offset]

def resToJson {α} (f : α → Json) : Except Err α → Json
  | .ok v => okJson (f v)
  | .error e => errJson e.toString

/-- grids are cached per N in the driver loop; only 96 is used by the code -/
def gridFor (n : Nat) : Array Rat := if n = defaultMaxDiv then defaultGrid else (grid n).toArray

def handleTiming (op : String) (j : Json) : Except String Json := do
  match op with
  | "timing.offsets" =>
    let tm ← getArr bcOffOfJson j "tm"
    let qs ← getArr snapOfJson j "qs"
    .ok (resToJson (listToJson ratToJson) (offsets defaultGrid tm qs))
  | "timing.snaps" =>
    let tm ← getArr bcOffOfJson j "tm"
    let qs ← getArr ratOf? j "qs"
    .ok (resToJson (listToJson snapToJson) (snaps defaultGrid tm qs))
  | "timing.beats" =>
    let tm ← getArr bcOffOfJson j "tm"
    let qs ← getArr ratOf? j "qs"
    .ok (resToJson (listToJson ratToJson) (beats defaultGrid tm qs))
  | "timing.from_snap" =>
    let t0 ← getRat j "t0"
    let cs ← getArr bcSnapOfJson j "cs"
    let rs ← getBool j "reseat"
    .ok (resToJson (listToJson bcOffToJson) (fromBcSnap t0 cs rs))
  | "timing.to_snap" =>
    let tm ← getArr bcOffOfJson j "tm"
    .ok (resToJson (fun p => listToJson bcSnapToJson p.2) (bcsOfBco defaultGrid tm))
  | "timing.reseat" =>
    let cs ← getArr bcSnapOfJson j "cs"
    .ok (resToJson (listToJson bcSnapToJson) (reseat cs))
  | "timing.snap" =>
    let x ← getRat j "x"
    let n ← getNat j "n"
    .ok (okJson (ratToJson (snapOn (gridFor n) x)))
  | "timing.find_lcm" =>
    let xs ← getArr natOf? j "xs"
    let t ← getNat j "thr"
    .ok (okJson (listToJson natToJson (findLcm xs t)))
  -- specification side
  | "timing.time_at" =>
    let t0 ← getRat j "t0"
    let cs ← getArr bcSnapOfJson j "cs"
    let qs ← getArr snapOfJson j "qs"
    .ok (okJson (listToJson ratToJson (qs.map (timeAt t0 cs))))
  | "timing.dom" =>
    let cs ← getArr bcSnapOfJson j "cs"
    .ok (okJson (obj [("sorted", Json.bool (sortedSnaps cs)),
                      ("grid_compatible", Json.bool (gridCompatible (grid defaultMaxDiv) cs)),
                      ("metronome_ok", Json.bool (metronomeOk cs)),
                      ("wf", Json.bool (wfChanges cs)),
                      ("first_at_zero", Json.bool (firstAtZero cs)),
                      ("strict", Json.bool (strictSnaps cs))]))
  | "timing.from_offset" =>
    let tm ← getArr bcOffOfJson j "tm"
    .ok (okJson (listToJson bcOffToJson (fromBcOff tm)))
  | "timing.bpmlist_tm" =>
    -- rows are [offset, bpm, metronome]
    let rows ← getArr (fun r => match r with
      | Json.arr #[o, b, m] => do .ok ((← ratOf? o), (← ratOf? b), (← ratOf? m))
      | _ => .error s!"row expected [offset, bpm, metronome]: {r}") j "rows"
    .ok (okJson (listToJson bcOffToJson (bpmListToTimingMap rows)))
  | "timing.queries_ok" =>
    -- the query hypothesis of `offsets_correct`, on the queries as `Snap(...)` normalises them
    let cs ← getArr bcSnapOfJson j "cs"
    let qs ← getArr snapOfJson j "qs"
    let r : Except Err Bool := do
      let qs' ← qs.mapM (fun q => Snap.make q.measure q.beat q.met)
      .ok (qs'.all (queryOk cs))
    .ok (resToJson Json.bool r)
  | "timing.snap_g" =>
    -- `Snapper.snap` on an explicit value array (the harness sends the exact values of the doubles n/d)
    let x ← getRat j "x"
    let g ← getArr ratOf? j "g"
    .ok (okJson (ratToJson (snapOn g.toArray x)))
  | "timing.is_nearest" =>
    let x ← getRat j "x"
    let y ← getRat j "y"
    let n ← getNat j "n"
    .ok (okJson (Json.bool (isNearestB (grid n) (frac x) (y - (ffloor x : Rat)))))
  | "timing.offsets_q" =>
    let tm ← getArr bcOffOfJson j "tm"
    let qs ← getArr snapOfJson j "qs"
    let r : Except Err (List Rat) := do
      let qs' ← qs.mapM (fun q => Snap.make q.measure q.beat q.met)
      offsets defaultGrid tm qs'
    .ok (resToJson (listToJson ratToJson) r)
  | "timing.time_at_q" =>
    let t0 ← getRat j "t0"
    let cs ← getArr bcSnapOfJson j "cs"
    let qs ← getArr snapOfJson j "qs"
    let r : Except Err (List Rat) := do
      let qs' ← qs.mapM (fun q => Snap.make q.measure q.beat q.met)
      .ok (qs'.map (timeAt t0 cs))
    .ok (resToJson (listToJson ratToJson) r)
  | "timing.roundtrip" =>
    let tm ← getArr bcOffOfJson j "tm"
    let qs ← getArr ratOf? j "qs"
    let r : Except Err (List Snap × List Rat) := do
      let sn ← snaps defaultGrid tm qs
      let back ← offsets defaultGrid tm sn
      .ok (sn, back)
    .ok (resToJson (fun p => obj [("snaps", listToJson snapToJson p.1), ("back", listToJson ratToJson p.2)]) r)
  | "timing.roundtrip_spec" =>
    let t0 ← getRat j "t0"
    let cs ← getArr bcSnapOfJson j "cs"
    let qs ← getArr ratOf? j "qs"
    let g := grid defaultMaxDiv
    .ok (okJson (listToJson (fun t =>
      let i := timeInfo2 g t0 cs t
      obj [("before_first", Json.bool i.beforeFirst), ("on_grid", Json.bool i.onGrid), ("beat_len", ratToJson i.beatLen),
           ("abs_beat", ratToJson i.absBeat), ("tie_margin", optToJson ratToJson i.tieMargin)]) qs))
  | "timing.snap_spec" =>
    let x ← getRat j "x"
    let y ← getRat j "y"
    let n ← getNat j "n"
    let g := grid n
    let r := frac x
    let y' := y - (ffloor x : Rat)
    .ok (okJson (obj [("nearest", Json.bool (isNearestB g r y')), ("member", Json.bool (g.contains y')),
                      ("x_on_grid", Json.bool (g.contains r)), ("margin", ratToJson (tieMargin g r))]))
  | _ => .error s!"unknown op {op}"

end Reamber.Timing
