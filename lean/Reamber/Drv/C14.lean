/- Driver operations of property C14 (ops are named "c14.<name>"). Core + Lean.Data.Json only. -/
import Reamber.Util.Json
import Reamber.Model.Effects
import Reamber.Spec.Effects

open Lean Reamber.J

namespace Reamber.C14

open Reamber.Effects

def pairOf? (j : Json) : Except String (String × String) :=
  match j with
  | Json.arr #[a, b] => do .ok (← strOf? a, ← strOf? b)
  | _ => .error s!"pair expected: {j}"

def frameOf? (j : Json) : Except String Frame := do
  .ok { kind := ← getStr j "kind", cols := ← getArr pairOf? j "cols", labels := ← getArr strOf? j "labels",
        rows := ← getArr (arrOf? strOf?) j "rows" }

def cellOf? (j : Json) : Except String (String × Ref) :=
  match j with
  | Json.arr #[a, b] => do .ok (← strOf? a, ← natOf? b)
  | _ => .error s!"cell expected [path, ref]: {j}"

def selToJson (s : Nat × String) : Json := Json.arr #[natToJson s.1, Json.str s.2]

def sigToJson (s : Sig) : Json :=
  obj [("name", Json.str s.name), ("arity", natToJson s.arity), ("writes", listToJson selToJson s.writes),
       ("shares", listToJson selToJson s.shares), ("copy", Json.bool s.copy), ("deep", Json.bool s.deep)]

/-- heap given on the wire as indices into the table of distinct frames -/
def heapOf (frames : Array Frame) (ix : List Nat) : Except String (Heap Frame) :=
  ix.mapM (fun i => match frames[i]? with | some f => .ok f | none => .error s!"frame index {i} out of range")

structure Acc where
  st : State Frame
  legal : Bool := true
  firstIllegal : Option Nat := none
  continuous : Bool := true
  out : List Json := []

def unknownSig (name : String) : Sig := { name, arity := 0, writes := [], shares := [], copy := false, deep := false }

def stepOr (acc : Acc) (i : Nat) (e : Event Frame) (fallback : State Frame) : Acc :=
  match step opTable acc.st e with
  | some st' => { acc with st := st' }
  | none => { acc with st := fallback, legal := false, firstIllegal := acc.firstIllegal.orElse (fun _ => some i) }

def checkEvent (frames : Array Frame) (acc : Acc) (i : Nat) (j : Json) : Except String Acc := do
  let name ← getStr j "sig"
  let raised := (fieldD j "raised" Json.null) != Json.null
  let args ← getArr (arrOf? cellOf?) j "args"
  let n ← getNat j "n"
  let before ← heapOf frames (← getArr natOf? j "before")
  let after ← heapOf frames (← getArr natOf? j "after")
  let news ← heapOf frames (← getArr natOf? j "news")
  let ret ← getArr natOf? j "ret"
  let mutated ← getBool j "mutated"
  -- objects the client built since the last event (arguments made for this call): an `alloc` event of the model
  let preNews ← heapOf frames (← getArr natOf? j "pre_news")
  let acc := if preNews.isEmpty then acc else stepOr acc i (.alloc preNews) { acc.st with heap := acc.st.heap ++ preNews }
  let continuous := acc.continuous && decide (acc.st.heap = before) && decide (before.length = n)
  let written := (changed before after).filter (· < n)
  let argRefs := reach args
  let frameOk := frameB before after argRefs
  if raised then
    let o := obj [("known", Json.bool true), ("within", Json.bool true), ("frame_ok", Json.bool frameOk),
                  ("fresh_ok", Json.bool true), ("mut_ok", Json.bool true), ("mut_within", Json.bool true),
                  ("deep_ok", Json.bool true), ("deep_changed", listToJson natToJson []),
                  ("nested_ok", Json.bool true), ("nested_changed", listToJson natToJson []),
                  ("written", listToJson natToJson written), ("shared", listToJson natToJson []),
                  ("mut_changed", listToJson natToJson [])]
    return { acc with st := { acc.st with heap := after ++ news }, continuous, out := o :: acc.out }
  let (sig, known) := match lookup name with
    | some s => (s, true)
    | none => (unknownSig name, false)
  let beh : Beh Frame := { writes := written.filterMap (fun r => (after[r]?).map (fun f => (r, f))), news, ret }
  let within := beh.within sig n args
  let freshOk := !sig.copy || freshB n ret
  let post := after ++ news
  let acc1 := stepOr { acc with continuous } i (.call sig args beh)
                { heap := post, results := acc.st.results ++ [(sig.copy, ret)] }
  let shareable := selAll args sig.shares
  let mut mutOk := true
  let mut mutWithin := true
  let mut mutChanged : List Nat := []
  let mut acc2 := acc1
  if mutated then
    let afterMut ← heapOf frames (← getArr natOf? j "after_mut")
    -- changing the result must not change ANY cell that existed before the call (arguments, other charts, class-level
    -- defaults): `copy_result_mutation_frame_all`
    mutOk := frameB before (afterMut.take n) (List.range n)
    let ch := changed post afterMut
    mutChanged := ch.filter (· < n)
    mutWithin := mutChanged.all (fun r => shareable.contains r)
    let t := acc1.st.results.length - 1
    let ws := ch.filterMap (fun r => (afterMut[r]?).map (fun f => (r, f)))
    let back := ch.filterMap (fun r => (post[r]?).map (fun f => (r, f)))
    -- the client's change of the result, and its restoration, as events of the model
    acc2 := stepOr acc2 i (.mutate t ws) { acc2.st with heap := afterMut }
    acc2 := stepOr acc2 i (.mutate t back) { acc2.st with heap := post }
  -- second probe (deepcopy results): in-place change of the cell objects inside object columns.  Cell objects are
  -- part of their frame's snapshot, not cells of the model, so this probe is evaluated by the spec only.
  let mut deepOk := true
  let mut deepChanged : List Nat := []
  match j.getObjVal? "after_deep" with
  | .ok (Json.arr a) =>
    let afterDeep ← heapOf frames (← a.toList.mapM natOf?)
    deepOk := frameB before (afterDeep.take n) (List.range n)
    deepChanged := (changed post afterDeep).filter (· < n)
  | _ => pure ()
  -- third probe (deepcopy results): in-place edits INSIDE the cell objects, at every depth (records of a key sound
  -- list, lists inside records) and of the scalar members of the result's containers.  Spec only, as the second.
  let mut nestedOk := true
  let mut nestedChanged : List Nat := []
  match j.getObjVal? "after_nested" with
  | .ok (Json.arr a) =>
    let afterNested ← heapOf frames (← a.toList.mapM natOf?)
    nestedOk := frameB before (afterNested.take n) (List.range n)
    nestedChanged := (changed post afterNested).filter (· < n)
  | _ => pure ()
  let o := obj [("known", Json.bool known), ("within", Json.bool within), ("frame_ok", Json.bool frameOk),
                ("fresh_ok", Json.bool freshOk), ("mut_ok", Json.bool mutOk), ("mut_within", Json.bool mutWithin),
                ("deep_ok", Json.bool deepOk), ("deep_changed", listToJson natToJson deepChanged),
                ("nested_ok", Json.bool nestedOk), ("nested_changed", listToJson natToJson nestedChanged),
                ("written", listToJson natToJson written), ("shared", listToJson natToJson (ret.filter (· < n))),
                ("mut_changed", listToJson natToJson mutChanged)]
  return { acc2 with out := o :: acc2.out }

def handle (op : String) (j : Json) : Except String Json := do
  match op with
  | "c14.table" => .ok (okJson (listToJson sigToJson opTable))
  | "c14.check" =>
    let frames := (← getArr frameOf? j "frames").toArray
    let heap0 ← heapOf frames (← getArr natOf? j "heap0")
    let final ← heapOf frames (← getArr natOf? j "final")
    let evs ← field j "events"
    let evs ← match evs with
      | Json.arr a => pure a.toList
      | _ => .error "events: not an array"
    let mut acc : Acc := { st := { heap := heap0, results := [] } }
    let mut i := 0
    for e in evs do
      acc ← checkEvent frames acc i e
      i := i + 1
    .ok (okJson (obj [("events", Json.arr acc.out.reverse.toArray), ("legal", Json.bool acc.legal),
                      ("first_illegal", optToJson natToJson acc.firstIllegal),
                      ("final_equal", Json.bool (acc.continuous && decide (acc.st.heap = final)))]))
  | _ => .error s!"unknown op {op}"

end Reamber.C14
