/- Driver operations of property C13 (ops are named "c13.<name>"). Core + Lean.Data.Json only. -/
import Reamber.Util.Json
import Reamber.Model.Rate
import Reamber.Spec.Rate

open Lean Reamber.J

namespace Reamber.C13

open Reamber.Rate

/-- cells on the wire: `null` NaN, `[n, d]` number, `"s"` string, `true/false`, `{"o": "…"}` opaque -/
def cellOf? (j : Json) : Except String Cell :=
  match j with
  | Json.null => .ok .nan
  | Json.str s => .ok (.str s)
  | Json.bool b => .ok (.bool b)
  | Json.arr _ => do .ok (.num (← ratOf? j))
  | Json.num _ => do .ok (.num (← ratOf? j))
  | Json.obj _ => do .ok (.other (← getStr j "o"))

def cellToJson : Cell → Json
  | .nan => Json.null
  | .num q => ratToJson q
  | .str s => Json.str s
  | .bool b => Json.bool b
  | .other s => obj [("o", Json.str s)]

def frameOf? (j : Json) : Except String Frame := do
  let cols ← getArr strOf? j "cols"
  let rows ← getArr (arrOf? cellOf?) j "rows"
  .ok ⟨cols, rows⟩

def frameToJson (f : Frame) : Json :=
  obj [("cols", listToJson Json.str f.cols), ("rows", listToJson (listToJson cellToJson) f.rows)]

def metaOf? (j : Json) : Except String (List (String × Cell)) :=
  arrOf? (fun p => match p with
    | Json.arr #[k, v] => do .ok (← strOf? k, ← cellOf? v)
    | _ => .error s!"meta entry expected [name, cell]: {p}") j

def metaToJson (m : List (String × Cell)) : Json :=
  listToJson (fun p => Json.arr #[Json.str p.1, cellToJson p.2]) m

def chartOf? (j : Json) : Except String Chart := do
  let lists ← getArr (fun p => match p with
    | Json.arr #[k, v] => do .ok (← strOf? k, ← frameOf? v)
    | _ => .error s!"list entry expected [name, frame]: {p}") j "lists"
  let samples ← optOf? frameOf? (fieldD j "samples" Json.null)
  let preview ← getOptRat j "preview"
  let m ← metaOf? (fieldD j "meta" (Json.arr #[]))
  .ok ⟨lists, samples, preview, m⟩

def chartToJson (c : Chart) : Json :=
  obj [("lists", listToJson (fun p => Json.arr #[Json.str p.1, frameToJson p.2]) c.lists),
       ("samples", optToJson frameToJson c.samples), ("preview", optToJson ratToJson c.preview),
       ("meta", metaToJson c.extra)]

def setOf? (j : Json) : Except String MapSet := do
  let maps ← getArr chartOf? j "maps"
  let m ← metaOf? (fieldD j "meta" (Json.arr #[]))
  .ok ⟨maps, ← getOptRat j "offset", ← getOptRat j "sample_start", ← getOptRat j "sample_length", m⟩

def setToJson (s : MapSet) : Json :=
  obj [("maps", listToJson chartToJson s.maps), ("offset", optToJson ratToJson s.offset),
       ("sample_start", optToJson ratToJson s.sampleStart), ("sample_length", optToJson ratToJson s.sampleLength),
       ("meta", metaToJson s.extra)]

def gameOf? (s : String) : Except String Game :=
  match s with
  | "base" => .ok .base | "osu" => .ok .osu | "qua" => .ok .qua | "sm" => .ok .sm | "bms" => .ok .bms
  | "o2j" => .ok .o2j | _ => .error s!"unknown game {s}"

def kindOf? (s : String) : Except String SetKind :=
  match s with
  | "base" => .ok .base | "sm" => .ok .sm | _ => .error s!"unknown set kind {s}"

def resToJson {α} (f : α → Json) : Except Err α → Json
  | .ok v => okJson (f v)
  | .error e => errJson e.toString

def handle (op : String) (j : Json) : Except String Json := do
  match op with
  -- model
  | "c13.rate_chart" =>
    let g ← gameOf? (← getStr j "game")
    let r ← getRat j "r"
    let c ← chartOf? (← field j "chart")
    .ok (resToJson chartToJson (rateChart g r c))
  | "c13.rate_set" =>
    let g ← gameOf? (← getStr j "game")
    let k ← kindOf? (← getStr j "kind")
    let r ← getRat j "r"
    let s ← setOf? (← field j "set")
    .ok (resToJson setToJson (rateSet k g r s))
  /- model: rate a then rate b -/
  | "c13.rate_set2" =>
    let g ← gameOf? (← getStr j "game")
    let k ← kindOf? (← getStr j "kind")
    let a ← getRat j "a"
    let b ← getRat j "b"
    let s ← setOf? (← field j "set")
    .ok (resToJson setToJson (do let s1 ← rateSet k g a s; rateSet k g b s1))
  -- specification, evaluated on an output (of the implementation)
  | "c13.set_scales" =>
    let g ← gameOf? (← getStr j "game")
    let k ← kindOf? (← getStr j "kind")
    let r ← getRat j "r"
    let eps ← getRat j "eps"
    let s ← setOf? (← field j "set")
    let out ← setOf? (← field j "out")
    .ok (okJson (obj [("holds", Json.bool (setScalesB eps k g r s out)),
                      ("dom", Json.bool (setOk k g s && decide (0 < r)))]))
  | "c13.chart_scales" =>
    let g ← gameOf? (← getStr j "game")
    let r ← getRat j "r"
    let eps ← getRat j "eps"
    let c ← chartOf? (← field j "chart")
    let out ← chartOf? (← field j "out")
    .ok (okJson (obj [("holds", Json.bool (chartScalesB eps g r c out)),
                      ("dom", Json.bool (chartOk g c && decide (0 < r)))]))
  /- the declarative result itself (for diagnostics in replays) -/
  | "c13.scale_set" =>
    let g ← gameOf? (← getStr j "game")
    let k ← kindOf? (← getStr j "kind")
    let r ← getRat j "r"
    let s ← setOf? (← field j "set")
    .ok (okJson (setToJson (scaleSet k g r s)))
  /- plain comparison of two sets up to eps (identity / composition claims) -/
  | "c13.close_set" =>
    let eps ← getRat j "eps"
    let a ← setOf? (← field j "want")
    let b ← setOf? (← field j "got")
    .ok (okJson (Json.bool (closeSet eps a b)))
  | _ => .error s!"unknown op {op}"

end Reamber.C13
