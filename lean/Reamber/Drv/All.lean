/- Central dispatch on the op family (text before the first '.'). -/
import Reamber.Drv.Timing
import Reamber.Drv.C01
import Reamber.Drv.C02
import Reamber.Drv.C03
import Reamber.Drv.C04
import Reamber.Drv.C05
import Reamber.Drv.C06
import Reamber.Drv.C07
import Reamber.Drv.C08
import Reamber.Drv.C09
import Reamber.Drv.C10
import Reamber.Drv.C11
import Reamber.Drv.C12
import Reamber.Drv.C13
import Reamber.Drv.C14
import Reamber.Drv.C15
import Reamber.Drv.C16
import Reamber.Drv.C17
import Reamber.Drv.C18
import Reamber.Drv.C19
import Reamber.Drv.C20

open Lean

namespace Reamber

def dispatch (op : String) (j : Json) : Except String Json :=
  match (op.splitOn ".").head! with
  | "timing" => Timing.handleTiming op j
  | "c01" => C01.handle op j
  | "c02" => C02.handle op j
  | "c03" => C03.handle op j
  | "c04" => C04.handle op j
  | "c05" => C05.handle op j
  | "c06" => C06.handle op j
  | "c07" => C07.handle op j
  | "c08" => C08.handle op j
  | "c09" => C09.handle op j
  | "c10" => C10.handle op j
  | "c11" => C11.handle op j
  | "c12" => C12.handle op j
  | "c13" => C13.handle op j
  | "c14" => C14.handle op j
  | "c15" => C15.handle op j
  | "c16" => C16.handle op j
  | "c17" => C17.handle op j
  | "c18" => C18.handle op j
  | "c19" => C19.handle op j
  | "c20" => C20.handle op j
  | fam => .error s!"unknown op family {fam}"

end Reamber
