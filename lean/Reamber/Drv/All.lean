/- Central dispatch on the op family (text before the first '.'). -/
import Reamber.Drv.Timing

open Lean

namespace Reamber

def dispatch (op : String) (j : Json) : Except String Json :=
  match (op.splitOn ".").head! with
  | "timing" => Timing.handleTiming op j
  | fam => .error s!"unknown op family {fam}"

end Reamber
