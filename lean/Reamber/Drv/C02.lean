/- Driver operations of property C02 (ops are named "c02.<name>"). Core + Lean.Data.Json only. -/
import Reamber.Util.Json
import Reamber.Model.SM
import Reamber.Spec.SM

open Lean Reamber.J

namespace Reamber.C02

open Reamber.SM Reamber.Timing

def strToJson (s : Str) : Json := Json.str (String.ofList s)

def noteToJson (n : Note) : Json :=
  Json.arr #[Json.str n.kind.toString, natToJson n.col, ratToJson n.time, ratToJson n.length]

def chartToJson (c : Chart) : Json :=
  obj [("chart_type", strToJson c.chartType), ("description", strToJson c.description),
       ("difficulty", strToJson c.difficulty), ("difficulty_val", intToJson c.difficultyVal),
       ("groove", listToJson ratToJson c.groove),
       ("bpms", listToJson (fun p => Json.arr #[ratToJson p.1, ratToJson p.2]) c.bpms),
       ("notes", listToJson noteToJson c.notes)]

def headerToJson (h : Header) : Json :=
  obj [("strs", obj (stringTags.map (fun ta => (String.ofList ta.2, strToJson (h.str ta.2))))),
       ("offset", optToJson ratToJson h.offset),
       ("sample_start", ratToJson h.sampleStart), ("sample_length", ratToJson h.sampleLength),
       ("selectable", Json.bool h.selectable)]

def rerrToJson : RErr → Json
  | .py e => errJson e.toString
  | .stops => errJson "stops"

def tnoteToJson (n : TNote) : Json :=
  Json.arr #[Json.str n.kind.toString, natToJson n.col, ratToJson n.time, ratToJson n.length]

def dnoteToJson (n : DNote) : Json :=
  Json.arr #[Json.str n.kind.toString, natToJson n.col, ratToJson n.beat, optToJson ratToJson n.endBeat]

def dchartToJson (timed : Option (Rat × List (Rat × Rat))) (c : DChart) : Json :=
  obj [("chart_type", strToJson c.chartType), ("description", strToJson c.description),
       ("difficulty", strToJson c.difficulty), ("meter", optToJson intToJson c.meter),
       ("radar", optToJson (listToJson ratToJson) c.radar),
       ("well_bracketed", Json.bool c.wellBracketed), ("rows_mult4", Json.bool c.rowsMult4),
       ("max_row_len", natToJson c.maxRowLen),
       ("measures", listToJson (listToJson strToJson) c.measures),
       ("beats", listToJson dnoteToJson c.notes),
       ("notes", match timed with
         | some (o, b) => listToJson tnoteToJson (timedNotes o b c)
         | none => Json.null)]

def denotedToJson (d : Denoted) : Json :=
  let timed : Option (Rat × List (Rat × Rat)) :=
    match d.offsetSec, d.bpms with
    | some o, some b => if tempoOk b then some (o, b) else none
    | _, _ => none
  obj [("offset_sec", optToJson ratToJson d.offsetSec),
       ("bpms", optToJson (listToJson (fun p => Json.arr #[ratToJson p.1, ratToJson p.2])) d.bpms),
       ("stops_present", Json.bool d.stopsPresent), ("stops_empty", Json.bool d.stopsEmpty),
       ("charts_well_formed", Json.bool d.chartsWellFormed),
       ("tempo_ok", Json.bool (match d.bpms with
         | some b => tempoOk b
         | none => false)),
       ("tempo_on_grid", Json.bool (match d.bpms with
         | some b => tempoOnGrid b
         | none => false)),
       ("tempo_times", match timed with
         | some (o, b) => listToJson ratToJson (tempoTimes o b)
         | none => Json.null),
       ("values", listToJson (listToJson strToJson) d.values),
       ("charts", listToJson (dchartToJson timed) d.charts)]

def handle (op : String) (j : Json) : Except String Json := do
  match op with
  | "c02.read" =>
    let t ← getStr j "text"
    match SM.read t.toList with
    | .ok ms => .ok (okJson (obj [("hdr", headerToJson ms.hdr), ("charts", listToJson chartToJson ms.charts)]))
    | .error e => .ok (rerrToJson e)
  | "c02.read_file" =>
    let t ← getStr j "text"
    match SM.readFile t.toList with
    | .ok ms => .ok (okJson (obj [("hdr", headerToJson ms.hdr), ("charts", listToJson chartToJson ms.charts)]))
    | .error e => .ok (rerrToJson e)
  | "c02.denote_file" =>
    let t ← getStr j "text"
    .ok (okJson (optToJson denotedToJson (denote (univNl t.toList))))
  | "c02.denote" =>
    let t ← getStr j "text"
    .ok (okJson (optToJson denotedToJson (denote t.toList)))
  | "c02.parse_float" =>
    let t ← getStr j "text"
    match parseFloat t.toList with
    | .ok q => .ok (okJson (ratToJson q))
    | .error e => .ok (errJson e.toString)
  | _ => .error s!"unknown op {op}"

end Reamber.C02
