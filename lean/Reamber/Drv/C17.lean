/- Driver operations of property C17 (ops are named "c17.<name>"). Core + Lean.Data.Json only. -/
import Reamber.Util.Json
import Reamber.Model.FullLN
import Reamber.Spec.FullLN

open Lean Reamber.J

namespace Reamber.C17

open Reamber.FullLN

/-- a row on the wire: `[offset, column, length | null]` (a two-element array is a row without length) -/
def rowOf? (j : Json) : Except String Row :=
  match j with
  | Json.arr #[o, c] => do .ok ⟨← ratOf? o, ← intOf? c, none⟩
  | Json.arr #[o, c, l] => do .ok ⟨← ratOf? o, ← intOf? c, ← optOf? ratOf? l⟩
  | _ => .error s!"not a row: {j}"

def rowToJson (r : Row) : Json :=
  Json.arr #[ratToJson r.offset, intToJson r.column, optToJson ratToJson r.length]

def rowsToJson (l : List Row) : Json := listToJson rowToJson l

/-- every output the model can produce for ONE column when ties are ordered differently: the stable
order with each note of the last tie group moved to the end (built from the *model's* `processGroup`) -/
def variants (gap thr : Rat) (rows : List Row) : List (List Row) :=
  let s := sortByOffset rows
  match s.getLast? with
  | none => [[]]
  | some last =>
    (List.range s.length).filterMap (fun j =>
      match s[j]? with
      | some r => if r.offset == last.offset then some (processGroup gap thr (s.eraseIdx j ++ [r])) else none
      | none => none)

/-- smallest distance of a threshold comparison from its boundary (`inv_length - thres`), over all columns -/
def margins (gap thr : Rat) (rows : List Row) : List Rat :=
  let s := sortByOffset rows
  ((groups s).map (fun g =>
    (shiftUp (diff (g.map (·.offset)))).filterMap (fun d => d.map (fun d => d - gap - thr)))).flatten

def handle (op : String) (j : Json) : Except String Json :=
  match op with
  | "c17.model" => do
    let gap ← getRat j "gap"
    let thr ← getRat j "thr"
    let extras ← getArr rowOf? j "extras"
    let hits ← getArr rowOf? j "hits"
    let holds ← getArr rowOf? j "holds"
    let m : MapM Unit := ⟨extras, hits, holds, ()⟩
    let r := fullLn gap thr m
    .ok (okJson (obj [("hits", rowsToJson r.hits), ("holds", rowsToJson r.holds), ("extras", rowsToJson r.extras)]))
  | "c17.variants" => do
    let gap ← getRat j "gap"
    let thr ← getRat j "thr"
    let rows ← getArr rowOf? j "rows"
    .ok (okJson (listToJson rowsToJson (variants gap thr rows)))
  | "c17.spec" => do
    let gap ← getRat j "gap"
    let thr ← getRat j "thr"
    let inp ← getArr rowOf? j "inp"
    let out ← getArr rowOf? j "out"
    .ok (okJson (obj [("spec", Json.bool (specB gap thr inp out)),
                      ("conservation", Json.bool (conservationB inp out)),
                      ("no_overlap", Json.bool (noOverlapB gap out))]))
  | "c17.margins" => do
    let gap ← getRat j "gap"
    let thr ← getRat j "thr"
    let rows ← getArr rowOf? j "rows"
    .ok (okJson (listToJson ratToJson (margins gap thr rows)))
  | "c17.games" =>
    .ok (okJson (listToJson (fun g : GameInfo =>
      obj [("name", Json.str g.name), ("from_dict", Json.bool g.fromDictFills),
           ("stacked", listToJson Json.str g.stackedLists)]) games))
  | _ => .error s!"unknown op {op}"

end Reamber.C17
