/- Driver operations of property C18 (ops are named "c18.<name>"). Core + Lean.Data.Json only. -/
import Reamber.Util.Json
import Reamber.Model.Hitsound
import Reamber.Spec.Hitsound

open Lean Reamber.J

namespace Reamber.C18

open Reamber.Hitsound

/-- a note is `[offset, column, length|null, hitsound_set, sample_set, addition_set, custom_set, volume, file]`,
`file` an array of code points -/
def noteOfJson (j : Json) : Except String Note :=
  match j with
  | Json.arr #[o, c, l, hs, ss, ad, cs, v, f] => do
    .ok ⟨← ratOf? o, ← intOf? c, ← optOf? ratOf? l, ← natOf? hs, ← intOf? ss, ← intOf? ad, ← intOf? cs, ← intOf? v,
         ← arrOf? natOf? f⟩
  | _ => .error s!"note expected 9 fields: {j}"

def noteToJson (n : Note) : Json :=
  Json.arr #[ratToJson n.offset, intToJson n.column, optToJson ratToJson n.length, natToJson n.hs, intToJson n.sampleSet,
             intToJson n.additionSet, intToJson n.customSet, intToJson n.volume, listToJson natToJson n.file]

def evOfJson (j : Json) : Except String Ev :=
  match j with
  | Json.arr #[o, f, v] => do .ok ⟨← ratOf? o, ← arrOf? natOf? f, ← intOf? v⟩
  | _ => .error s!"event sample expected [offset, file, volume]: {j}"

def evToJson (e : Ev) : Json := Json.arr #[ratToJson e.offset, listToJson natToJson e.file, intToJson e.volume]

def chartOfJson (j : Json) : Except String Chart := do
  .ok ⟨← getArr noteOfJson j "hits", ← getArr noteOfJson j "holds", ← getArr evOfJson j "samples"⟩

def chartToJson (c : Chart) : Json :=
  obj [("hits", listToJson noteToJson c.hits), ("holds", listToJson noteToJson c.holds),
       ("samples", listToJson evToJson c.samples)]

def getChart (j : Json) (k : String) : Except String Chart := do chartOfJson (← field j k)

def optPerm (j : Json) (k : String) : Except String (Option (List Nat)) :=
  optOf? (arrOf? natOf?) (fieldD j k Json.null)

def handle (op : String) (j : Json) : Except String Json := do
  match op with
  | "c18.copy" =>
    let src ← getChart j "src"
    let tgt ← getChart j "tgt"
    let σs ← optPerm j "sigma_s"
    let σt ← optPerm j "sigma_t"
    let σs' := σs.getD (stableArgsort (((concatNotes src).filter active).map (·.offset)))
    let σt' := σt.getD (stableArgsort ((concatNotes tgt).map (·.offset)))
    .ok (okJson (chartToJson (copyWith σs' σt' src tgt)))
  | "c18.spec" =>
    let src ← getChart j "src"
    let tgt ← getChart j "tgt"
    let out ← getChart j "out"
    .ok (okJson (obj [("notes_preserved", Json.bool (notesPreservedB tgt out)),
                      ("counts_le", Json.bool (countsLeB src out)),
                      ("no_invention", Json.bool (noInventionB src out)),
                      ("samples_conserved", Json.bool (samplesConservedB src out)),
                      ("all_placed_if_room", Json.bool (allPlacedIfRoomB src out))]))
  | "c18.dom" =>
    let src ← getChart j "src"
    let tgt ← getChart j "tgt"
    -- `no_sep` is no hypothesis of a C18 theorem any more (D19c repaired); still reported because C15 reads it
    .ok (okJson (obj [("no_sep", Json.bool (noSep src)), ("holds_have_length", Json.bool (holdsHaveLength tgt))]))
  | "c18.copy_join" =>
    -- the hand-written pre-D19c variant (names joined with ';' and split again), for documentation and tests
    let src ← getChart j "src"
    let tgt ← getChart j "tgt"
    .ok (okJson (chartToJson (copyJoin src tgt)))
  | _ => .error s!"unknown op {op}"

end Reamber.C18
