/- Driver operations of property C20 (ops are named "c20.<name>"). Core + Lean.Data.Json only. -/
import Reamber.Util.Json

open Lean Reamber.J

namespace Reamber.C20

def handle (op : String) (_j : Json) : Except String Json :=
  match op with
  | _ => .error s!"unknown op {op}"

end Reamber.C20
