/- Driver operations of property C20 (ops are named "c20.<name>"). Core + Lean.Data.Json only. -/
import Reamber.Util.Json
import Reamber.Model.Pattern
import Reamber.Spec.Pattern

open Lean Reamber.J

namespace Reamber.C20

open Reamber.Pattern

def tyOf? (j : Json) : Except String Ty := do
  let s ← strOf? j
  match Ty.all.find? (fun t => t.name == s) with
  | some t => .ok t
  | none => .error s!"unknown class {s}"

def tyToJson (t : Ty) : Json := Json.str t.name

def rowOf? (j : Json) : Except String Row :=
  match j with
  | Json.arr #[c, o, t] => do .ok ⟨← intOf? c, ← ratOf? o, ← tyOf? t⟩
  | _ => .error s!"row expected [col, offset, type]: {j}"

def rowToJson (r : Row) : Json := Json.arr #[intToJson r.col, ratToJson r.off, tyToJson r.ty]

def rowsOf? := arrOf? rowOf?
def rowsToJson := listToJson rowToJson
def groupsOf? := arrOf? rowsOf?
def groupsToJson := listToJson rowsToJson
def intRowsOf? := arrOf? (arrOf? intOf?)
def intRowsToJson := listToJson (listToJson intToJson)
def tyRowsOf? := arrOf? (arrOf? tyOf?)
def tyRowsToJson := listToJson (listToJson tyToJson)

def noteListOf? (j : Json) : Except String NoteList := do
  let ty ← tyOf? (← field j "ty")
  let items ← arrOf? (fun it => match it with
    | Json.arr #[c, o, l] => do .ok ((← intOf? c), (← ratOf? o), (← ratOf? l))
    | _ => .error s!"item expected [col, offset, length]: {it}") (← field j "items")
  .ok ⟨ty, items⟩

def resToJson {α} (f : α → Json) : Except Err α → Json
  | .ok v => okJson (f v)
  | .error e => errJson e.toString

def optField {α} (f : Json → Except String α) (j : Json) (k : String) : Except String (Option α) :=
  optOf? f (fieldD j k Json.null)

/-- filter descriptions on the wire: `{"ar": rows, "keys": k, "invert": b}` -/
def comboFilterOf? (j : Json) : Except String ComboFilter := do
  .ok ⟨← intRowsOf? (← field j "ar"), ← getInt j "keys", ← getBool j "invert"⟩
def chordFilterOf? (j : Json) : Except String ChordFilter := do
  .ok ⟨← intRowsOf? (← field j "ar"), ← getBool j "invert"⟩
def typeFilterOf? (j : Json) : Except String TypeFilter := do
  .ok ⟨← tyRowsOf? (← field j "ar"), ← getBool j "invert"⟩

structure FilterSet where
  chord : Option ChordFilter
  combo : Option ComboFilter
  type : Option TypeFilter

def filterSetOf? (j : Json) : Except String FilterSet := do
  .ok ⟨← optField chordFilterOf? j "chord", ← optField comboFilterOf? j "combo", ← optField typeFilterOf? j "type"⟩

/-- the model's filter callables (hash-based column filter, as the code) -/
def FilterSet.model (fs : FilterSet) : Filters :=
  { chord := fs.chord.map (fun f => f.filter), combo := fs.combo.map (fun f => f.filter),
    type := fs.type.map (fun f => f.filter) }

/-- the specification's reading of the same filters: membership in their row sets -/
def FilterSet.spec (fs : FilterSet) : Filters :=
  memberFilters (fs.chord.map (fun f => (f.ar, f.invert))) (fs.combo.map (fun f => (f.ar, f.invert)))
    (fs.type.map (fun f => (f.ar, f.invert)))

/-- hypotheses of the combination theorems: every filter row has the combination's size, every column seen by
the column filter (filter rows and notes) is a column of a `keys`-key map -/
def FilterSet.dom (fs : FilterSet) (gs : List (List Row)) (size : Nat) : Bool :=
  (match fs.chord with | none => true | some f => f.ar.all (fun r => r.length == size))
  && (match fs.type with | none => true | some f => f.ar.all (fun r => r.length == size))
  && (match fs.combo with
      | none => true
      | some f => f.ar.all (fun r => r.length == size && inRange f.keys r)
                  && gs.all (fun g => inRange f.keys (g.map (·.col))))

def handle (op : String) (j : Json) : Except String Json := do
  match op with
  | "c20.pattern" =>
    let rows ← getArr rowOf? j "rows"
    .ok (okJson (rowsToJson (mkPattern rows)))
  | "c20.pattern_spec" =>
    let rows ← getArr rowOf? j "rows"
    let df ← getArr rowOf? j "df"
    .ok (okJson (obj [("perm", Json.bool (df.isPerm rows)), ("sorted", Json.bool (sortedOffB df)),
                      ("all", Json.bool (patternSpec rows df))]))
  | "c20.from_nl" =>
    let nls ← getArr noteListOf? j "nls"
    let tails ← getBool j "tails"
    .ok (okJson (rowsToJson (fromNoteLists nls tails)))
  | "c20.from_nl_spec" =>
    let nls ← getArr noteListOf? j "nls"
    let tails ← getBool j "tails"
    let df ← getArr rowOf? j "df"
    .ok (okJson (Json.bool (patternSpec (expectedRows nls tails) df)))
  | "c20.group" =>
    let rows ← getArr rowOf? j "rows"
    let v ← getRat j "v"
    let h ← optField intOf? j "h"
    let aj ← getBool j "aj"
    .ok (resToJson groupsToJson (group rows v h aj))
  | "c20.group_spec" =>
    let rows ← getArr rowOf? j "rows"
    let v ← getRat j "v"
    let h ← optField intOf? j "h"
    let aj ← getBool j "aj"
    let gs ← getArr rowsOf? j "groups"
    .ok (okJson (obj [("partition", Json.bool (partitionOk rows gs)),
                      ("vwindow", Json.bool (gs.all (vWindowOk v))),
                      ("hwindow", Json.bool (gs.all (hWindowOk h))),
                      ("norepeat", Json.bool (gs.all (noRepeatOk aj))),
                      ("all", Json.bool (groupSpec rows v h aj gs))]))
  | "c20.create_combo" =>
    let combos ← getArr (arrOf? intOf?) j "rows"
    let keys ← getInt j "keys"
    let opts ← getNat j "opts"
    .ok (okJson (intRowsToJson (comboCreateAr combos keys opts)))
  | "c20.create_combo_spec" =>
    let combos ← getArr (arrOf? intOf?) j "rows"
    let keys ← getInt j "keys"
    let opts ← getNat j "opts"
    let rep ← getArr (arrOf? intOf?) j "reported"
    .ok (okJson (Json.bool (rowSetSpec (comboSpecMem combos keys opts) (comboCreateAr combos keys opts) rep)))
  | "c20.create_chord" =>
    let sizes ← getArr (arrOf? intOf?) j "rows"
    let keys ← getInt j "keys"
    let opts ← getNat j "opts"
    .ok (okJson (intRowsToJson (chordCreateAr sizes keys opts)))
  | "c20.create_chord_spec" =>
    let sizes ← getArr (arrOf? intOf?) j "rows"
    let keys ← getInt j "keys"
    let opts ← getNat j "opts"
    let rep ← getArr (arrOf? intOf?) j "reported"
    .ok (okJson (Json.bool (rowSetSpec (chordSpecMem sizes keys opts) (chordCreateAr sizes keys opts) rep)))
  | "c20.create_type" =>
    let types ← getArr (arrOf? tyOf?) j "rows"
    let opts ← getNat j "opts"
    .ok (okJson (tyRowsToJson (typeCreateAr types opts)))
  | "c20.create_type_spec" =>
    let types ← getArr (arrOf? tyOf?) j "rows"
    let opts ← getNat j "opts"
    let rep ← getArr (arrOf? tyOf?) j "reported"
    .ok (okJson (Json.bool (rowSetSpec (typeSpecMem types opts) (typeCreateAr types opts) rep)))
  | "c20.filter_combo" =>
    let f ← comboFilterOf? j
    let data ← getArr (arrOf? intOf?) j "data"
    .ok (okJson (obj [("model", listToJson Json.bool (data.map f.filter)),
                      ("spec", listToJson Json.bool (data.map (comboMember f.ar f.invert))),
                      ("dom", Json.bool (f.ar.all (inRange f.keys) && data.all (inRange f.keys)))]))
  | "c20.filter_chord" =>
    let f ← chordFilterOf? j
    let data ← getArr (arrOf? intOf?) j "data"
    .ok (okJson (obj [("model", listToJson Json.bool (data.map f.filter)),
                      ("spec", listToJson Json.bool (data.map (chordMember f.ar f.invert))),
                      ("dom", Json.bool true)]))
  | "c20.filter_type" =>
    let f ← typeFilterOf? j
    let data ← getArr (arrOf? tyOf?) j "data"
    .ok (okJson (obj [("model", listToJson Json.bool (data.map f.filter)),
                      ("spec", listToJson Json.bool (data.map (typeMember f.ar f.invert))),
                      ("dom", Json.bool true)]))
  | "c20.combos" =>
    let gs ← getArr rowsOf? j "groups"
    let size ← getNat j "size"
    let fold ← getBool j "fold"
    let fs ← filterSetOf? (← field j "filters")
    let c := combinations gs size fs.model
    .ok (okJson (listToJson groupsToJson (if fold then foldSize2 c else c)))
  | "c20.combos_spec" =>
    let gs ← getArr rowsOf? j "groups"
    let size ← getNat j "size"
    let fold ← getBool j "fold"
    let fs ← filterSetOf? (← field j "filters")
    let rep ← getArr rowsOf? j "reported"
    let okB := if fold then foldedSpec gs size fs.spec rep else combosSpec gs size fs.spec rep
    .ok (okJson (obj [("ok", Json.bool okB), ("dom", Json.bool (fs.dom gs size)),
                      ("candidates", natToJson (candidates gs size).length)]))
  | "c20.template_chord_stream" =>
    let gs ← getArr rowsOf? j "groups"
    let p ← getInt j "primary"
    let s ← getInt j "secondary"
    let keys ← getInt j "keys"
    let al ← getBool j "and_lower"
    let ij ← getBool j "include_jack"
    .ok (okJson (listToJson groupsToJson (templateChordStream gs p s keys al ij)))
  | "c20.template_jacks" =>
    let gs ← getArr rowsOf? j "groups"
    let n ← getNat j "min_len"
    let keys ← getInt j "keys"
    .ok (resToJson (listToJson groupsToJson) (templateJacks gs n keys))
  | _ => .error s!"unknown op {op}"

end Reamber.C20
