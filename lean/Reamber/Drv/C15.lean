/- Driver operations of property C15 (ops are named "c15.<name>"). Core + Lean.Data.Json only.

The operation models themselves are reached through the ops of the properties that own them (c19.*, c17.model,
c13.rate_chart, c08.convert, c18.copy, c01/c02/c04/c06.denote); C15 adds the relation `≈` of the property
(`Spec/Perm.lean`) evaluated on rows observed on f(chart) and f(permuted chart), and the tie hypotheses. -/
import Reamber.Util.Json
import Reamber.Spec.Perm
import Reamber.Model.BpmList

open Lean Reamber.J

namespace Reamber.C15

open Reamber.PermInv

/-- cells on the wire: `null` NaN, `[n, d]` / integer number, `"s"` text, `true/false` -/
def cellOf? (j : Json) : Except String Cell :=
  match j with
  | Json.null => .ok .nan
  | Json.str s => .ok (.str s)
  | Json.bool b => .ok (.bool b)
  | Json.arr _ => do .ok (.num (← ratOf? j))
  | Json.num _ => do .ok (.num (← ratOf? j))
  | Json.obj _ => do .ok (.str ("<" ++ (← getStr j "o") ++ ">"))

def rowsOf? (j : Json) (k : String) : Except String (List (List Cell)) := getArr (arrOf? cellOf?) j k

def tpOf? (j : Json) : Except String Analysis.Tp :=
  match j with
  | Json.arr #[t, b] => do .ok ⟨← ratOf? t, ← ratOf? b⟩
  | _ => .error s!"tempo point expected [time, bpm]: {j}"

def svOf? (j : Json) : Except String Analysis.Sv :=
  match j with
  | Json.arr #[t, m] => do .ok ⟨← ratOf? t, ← ratOf? m⟩
  | _ => .error s!"sv expected [time, multiplier]: {j}"

def noteOf? (j : Json) : Except String FullLN.Row :=
  match j with
  | Json.arr #[o, c] => do .ok ⟨← ratOf? o, ← intOf? c, none⟩
  | Json.arr #[o, c, l] => do .ok ⟨← ratOf? o, ← intOf? c, ← optOf? ratOf? l⟩
  | _ => .error s!"not a note row: {j}"

def tpToJson (p : Analysis.Tp) : Json := Json.arr #[ratToJson p.time, ratToJson p.bpm]

def optTpToJson : Option Analysis.Tp → Json
  | some p => tpToJson p
  | none => Json.null

def descrToJson (d : BpmListOps.Descr) : Json :=
  obj [("count", Json.num (JsonNumber.fromNat d.count)), ("mean", ratToJson d.mean), ("var", ratToJson d.var),
       ("min", ratToJson d.min), ("q25", ratToJson d.q25), ("q50", ratToJson d.q50), ("q75", ratToJson d.q75),
       ("max", ratToJson d.max)]

def handle (op : String) (j : Json) : Except String Json := do
  match op with
  /- the list-level queries of a tempo list in the row order given (Model/BpmList.lean) -/
  | "c15.bpmlist" =>
    let bpms ← getArr tpOf? j "bpms"
    let t ← getRat j "t"
    let delta ← getRat j "delta"
    let last ← getRat j "last"
    .ok (okJson (obj [("cur", optTpToJson (BpmListOps.currentBpm bpms true t delta)),
                      ("cur_nosort", optTpToJson (BpmListOps.currentBpm bpms false t delta)),
                      ("diff", listToJson ratToJson (BpmListOps.timeDiff bpms last)),
                      ("ave", ratToJson (BpmListOps.aveBpm bpms last)),
                      ("describe_offset", descrToJson (BpmListOps.describeCol (bpms.map (·.time)))),
                      ("describe_bpm", descrToJson (BpmListOps.describeCol (bpms.map (·.bpm))))]))
  /- `≈` for multiset-valued results: the rows of a and b are the same multiset -/
  | "c15.same_rows" =>
    let a ← rowsOf? j "a"
    let b ← rowsOf? j "b"
    .ok (okJson (Json.bool (sameRowsB a b)))
  /- `≈` for list-valued results (equality of values, row by row) -/
  | "c15.same_list" =>
    let a ← rowsOf? j "a"
    let b ← rowsOf? j "b"
    .ok (okJson (Json.bool (decide (a = b))))
  /- the tie hypotheses (`dom`) -/
  | "c15.dom" =>
    let bpms ← getArr tpOf? j "bpms"
    let svs ← getArr svOf? j "svs"
    let hits ← getArr noteOf? j "hits"
    let holds ← getArr noteOf? j "holds"
    .ok (okJson (obj [("tempo_ties_equal", Json.bool (tempoTiesB bpms)),
                      ("sv_ties_equal", Json.bool (svTiesB svs)),
                      ("note_ties_equal", Json.bool (noteTiesB (hits.map FullLN.asHit ++ holds)))]))
  | _ => .error s!"unknown op {op}"

end Reamber.C15
