/- Driver operations of property C04 (ops are named "c04.<name>"). Core + Lean.Data.Json only.
Byte strings travel as lower-case hex text (two characters per byte). -/
import Reamber.Util.Json
import Reamber.Drv.Timing
import Reamber.Model.BMS
import Reamber.Spec.BMS

open Lean Reamber.J Reamber.Timing

namespace Reamber.C04

open Reamber.BMS

def hexDigit (n : Nat) : Char := if n < 10 then Char.ofNat (48 + n) else Char.ofNat (87 + n)

def hexOfBytes (b : Bytes) : String := String.ofList (b.flatMap (fun c => [hexDigit (c.toNat / 16 % 16), hexDigit (c.toNat % 16)]))

def bytesOfHexAux : List Char → Except String Bytes
  | [] => .ok []
  | [_] => .error "odd hex length"
  | a :: b :: t =>
    match hexVal? a, hexVal? b with
    | some x, some y => (bytesOfHexAux t).map (fun r => Char.ofNat (16 * x + y) :: r)
    | _, _ => .error "bad hex digit"

def bytesOf? (j : Json) : Except String Bytes := do bytesOfHexAux (← strOf? j).toList

def bytesToJson (b : Bytes) : Json := Json.str (hexOfBytes b)

def dictToJson {α} (f : α → Json) (d : Dict α) : Json := listToJson (fun p => Json.arr #[bytesToJson p.1, f p.2]) d

def headerToJson (h : Header) : Json :=
  obj [("title", bytesToJson h.title), ("artist", bytesToJson h.artist),
       ("version", bytesToJson h.version), ("ln_end", bytesToJson h.lnEnd),
       ("exbpms", dictToJson ratToJson h.exbpms), ("samples", dictToJson bytesToJson h.samples),
       ("bpm0", ratToJson h.bpm0), ("misc", dictToJson bytesToJson h.misc)]

def laneOf? (j : Json) : Except String (Bytes × Nat) :=
  match j with
  | Json.arr #[c, n] => do .ok ((← bytesOf? c), (← natOf? n))
  | _ => .error "lane expected [channel, column]"

/-- a caller-built layout dict, as it is at the call: `"layout_def": {"time_sig", "bpm", "exbpm", "lanes": [[channel,
column], …]}` (lanes in dict order); absent / null = one of the named tables -/
def layoutDef? (j : Json) : Except String (Option Layout) :=
  match j.getObjVal? "layout_def" with
  | .ok Json.null => .ok none
  | .ok d => do
    .ok (some ⟨← bytesOf? (← field d "time_sig"), ← bytesOf? (← field d "bpm"), ← bytesOf? (← field d "exbpm"),
               ← getArr laneOf? d "lanes"⟩)
  | .error _ => .ok none

def getLayout (j : Json) : Except String Layout := do
  match ← layoutDef? j with
  | some l => .ok l
  | none =>
    let n ← getStr j "layout"
    match layoutOf n with
    | some l => .ok l
    | none => .error s!"unknown layout {n}"

/-- the by-the-book layout of a call: the caller's dict as given, or the by-the-book table of that name -/
def getBookLayout (j : Json) : Except String Layout := do
  match ← layoutDef? j with
  | some l => .ok l
  | none =>
    let n ← getStr j "layout"
    match bookLayout n with
    | some l => .ok l
    | none => .error s!"unknown layout {n}"

/-- smallest |tie margin| over the re-snapped tempo distances: a float evaluation may flip the snap there -/
def resnapMargins (g : List Rat) : List BcSnap → List Rat
  | a :: b :: rest =>
    let r := frac (snapDist a.snap b.snap a.met)
    (if g.contains r then [] else [rabs (tieMargin g r)]) ++ resnapMargins g (b :: rest)
  | _ => []

/-- re-deriving the tempo positions from their millisecond offsets gives the positions back: exactly the
hypothesis `hst` of `bms_times_partial` (what `GridCompatible` is meant to guarantee), evaluated directly -/
def resnapStable (g : Array Rat) (cs : List BcSnap) : Bool :=
  match fromBcSnap 0 cs false with
  | .error _ => false
  | .ok tm =>
    match bcsOfBco g tm with
    | .error _ => false
    | .ok (bco, bcs) => decide (bco = tm) && decide (bcs = cs)

/-- every lane's objects appear in the file in non-decreasing position order -/
def lanesOrdered (lay : Layout) (notes : List (Bytes × Bytes × Bytes)) : Bool :=
  lay.lanes.all fun lane =>
    match channelObjs notes lane.1 with
    | none => true
    | some os => sortObjs os == os

/-- some lane holds an `#LNOBJ` object and is not in position order in the file (the predicate of D05) -/
def d05Pred (lay : Layout) (lnobj : Bytes) (notes : List (Bytes × Bytes × Bytes)) : Bool :=
  lay.lanes.any fun lane =>
    match channelObjs notes lane.1 with
    | none => false
    | some os => os.any (fun o => o.id = lnobj) && !(sortObjs os == os)

def chartToJson (lay : Layout) (lines : List Bytes) (c : Chart) : Json :=
  let g := grid defaultMaxDiv
  let notes := match parseDoc lines with | .ok d => d.notes | .error _ => []
  obj [("header", headerToJson c.header),
       ("hits", listToJson (fun h => Json.arr #[natToJson h.col, bytesToJson h.sample, ratToJson h.offset]) c.hits),
       ("holds", listToJson (fun h => Json.arr #[natToJson h.col, bytesToJson h.sample, ratToJson h.offset, ratToJson h.length]) c.holds),
       ("bpms", listToJson bcOffToJson c.bpms),
       ("tempo", listToJson bcSnapToJson c.tempo),
       ("grid_compatible", Json.bool (gridCompatible g c.tempo)),
       ("resnap_stable", Json.bool (resnapStable defaultGrid c.tempo)),
       ("resnap_margins", listToJson ratToJson (resnapMargins g c.tempo)),
       ("lanes_ordered", Json.bool (lanesOrdered lay notes)),
       ("d05", Json.bool (d05Pred lay c.header.lnEnd notes))]

def denotationToJson (d : Denotation) : Json :=
  obj [("header", headerToJson d.header),
       ("tempo", listToJson bcSnapToJson d.tempo),
       ("hits", listToJson (fun h => Json.arr #[natToJson h.col, bytesToJson h.sample, ratToJson h.offset]) d.hits),
       ("holds", listToJson (fun h => Json.arr #[natToJson h.col, bytesToJson h.sample, ratToJson h.offset, ratToJson h.length]) d.holds)]

def handle (op : String) (j : Json) : Except String Json := do
  match op with
  | "c04.read" =>
    let lay ← getLayout j
    let lines ← getArr bytesOf? j "lines"
    match read defaultGrid lay lines with
    | .ok c => .ok (okJson (chartToJson lay lines c))
    | .error e => .ok (errJson e.toString)
  | "c04.read_file" =>
    -- `BMSMap.read_file` on the bytes of the file (Python's line splitting is part of the model: `pyLines`)
    let lay ← getLayout j
    let b ← bytesOf? (← field j "bytes")
    match readFile defaultGrid lay b with
    | .ok c => .ok (okJson (chartToJson lay (pyLines b) c))
    | .error e => .ok (errJson e.toString)
  | "c04.denote" =>
    -- the specification with its OWN lexer and header record (`denoteText`: bookLine / bookTable / bookDoc /
    -- bookHeader); `lex_agree` replays the proved `bookDoc_parseDoc` / `bookHeader_readHeader` on the case;
    -- `shared_defined` (only evaluated where the by-the-book lexer is silent) = the reader's lexer is more liberal
    let lay ← getBookLayout j
    let lines ← getArr bytesOf? j "lines"
    let den := denoteText lay lines
    let g := grid defaultMaxDiv
    let bdoc := bookDoc lines
    let notes := match bdoc with | some d => d.notes | none => []
    let lnobj : Bytes := match bdoc with
      | some d => (dictGet? d.header "LNOBJ".toList).getD []
      | none => []
    let tempo := match den with | some d => d.tempo | none => []
    let lexAgree : Bool := match bdoc, parseDoc lines with
      | some a, .ok b => decide (a.header = b.header) && decide (a.notes = b.notes)
      | some _, .error _ => false
      | none, _ => true
    let hdrAgree : Bool := match bdoc with
      | some a =>
        (match bookHeader a.header, readHeader a.header with
         | some x, .ok y => decide (x.title = y.title) && decide (x.artist = y.artist) && decide (x.version = y.version) &&
             decide (x.lnEnd = y.lnEnd) && decide (x.exbpms = y.exbpms) && decide (x.samples = y.samples) &&
             decide (x.bpm0 = y.bpm0) && decide (x.misc = y.misc)
         | some _, .error _ => false
         | none, _ => true)
      | none => true
    let sharedDefined : Bool := match bdoc with
      | some _ => den.isSome
      | none => (denote lay lines).isSome
    let flags := obj [("grid_compatible", Json.bool (gridCompatible g tempo)),
                      ("resnap_margins", listToJson ratToJson (resnapMargins g tempo)),
                      ("lanes_ordered", Json.bool (lanesOrdered lay notes)),
                      ("d05", Json.bool (d05Pred lay lnobj notes)),
                      ("book_lexed", Json.bool bdoc.isSome),
                      ("shared_defined", Json.bool sharedDefined),
                      ("lex_agree", Json.bool (lexAgree && hdrAgree))]
    .ok (okJson (obj [("den", optToJson denotationToJson den), ("flags", flags)]))
  | "c04.file_lines" =>
    -- `fileLines`: the lines of a file's bytes by the book (LF / CRLF / bare CR)
    let b ← bytesOf? (← field j "bytes")
    .ok (okJson (listToJson bytesToJson (fileLines b)))
  | "c04.layout" =>
    let n ← getStr j "layout"
    let lay ← match bookLayout n with
      | some l => .ok l
      | none => .error s!"unknown layout {n}"
    .ok (okJson (obj [("time_sig", bytesToJson lay.timeSig), ("bpm", bytesToJson lay.bpmCh), ("exbpm", bytesToJson lay.exbpmCh),
                      ("lanes", listToJson (fun p => Json.arr #[bytesToJson p.1, natToJson p.2]) lay.lanes)]))
  | _ => .error s!"unknown op {op}"

end Reamber.C04
