/- Driver operations of property C04 (ops are named "c04.<name>"). Core + Lean.Data.Json only. -/
import Reamber.Util.Json

open Lean Reamber.J

namespace Reamber.C04

def handle (op : String) (_j : Json) : Except String Json :=
  match op with
  | _ => .error s!"unknown op {op}"

end Reamber.C04
