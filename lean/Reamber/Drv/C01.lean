/- Driver operations of property C01 (ops are named "c01.<name>"). Core + Lean.Data.Json only. -/
import Reamber.Util.Json
import Reamber.Model.Osu
import Reamber.Spec.Osu

open Lean Reamber.J

namespace Reamber.C01

open Reamber.Osu

def sJ (s : Str) : Json := Json.str (String.ofList s)
def bJ (b : Bool) : Json := Json.bool b

def hitJ (h : Hit) : Json :=
  obj [("offset", ratToJson h.offset), ("column", intToJson h.column), ("hitsound_set", intToJson h.hitsoundSet),
       ("sample_set", intToJson h.sampleSet), ("addition_set", intToJson h.additionSet),
       ("custom_set", intToJson h.customSet), ("volume", intToJson h.volume), ("hitsound_file", sJ h.file)]

def holdJ (h : Hold) : Json :=
  obj [("offset", ratToJson h.offset), ("column", intToJson h.column), ("length", ratToJson h.length),
       ("hitsound_set", intToJson h.hitsoundSet), ("sample_set", intToJson h.sampleSet),
       ("addition_set", intToJson h.additionSet), ("custom_set", intToJson h.customSet),
       ("volume", intToJson h.volume), ("hitsound_file", sJ h.file)]

def bpmJ (b : Bpm) : Json :=
  obj [("offset", ratToJson b.offset), ("bpm", ratToJson b.bpm), ("metronome", ratToJson b.metronome),
       ("sample_set", intToJson b.sampleSet), ("sample_set_index", intToJson b.sampleSetIndex),
       ("volume", intToJson b.volume), ("kiai", bJ b.kiai)]

def svJ (b : Sv) : Json :=
  obj [("offset", ratToJson b.offset), ("multiplier", ratToJson b.multiplier),
       ("sample_set", intToJson b.sampleSet), ("sample_set_index", intToJson b.sampleSetIndex),
       ("volume", intToJson b.volume), ("kiai", bJ b.kiai)]

def sampleJ (s : Sample) : Json :=
  obj [("offset", ratToJson s.offset), ("sample_file", sJ s.file), ("volume", intToJson s.volume)]

def metaJ (m : Meta) : Json :=
  obj [("audio_file_name", sJ m.audioFileName), ("audio_lead_in", ratToJson m.audioLeadIn),
       ("preview_time", ratToJson m.previewTime), ("countdown", bJ m.countdown), ("sample_set", intToJson m.sampleSet),
       ("stack_leniency", ratToJson m.stackLeniency), ("mode", intToJson m.mode),
       ("letterbox_in_breaks", bJ m.letterboxInBreaks), ("special_style", bJ m.specialStyle),
       ("widescreen_storyboard", bJ m.widescreenStoryboard), ("distance_spacing", ratToJson m.distanceSpacing),
       ("beat_divisor", ratToJson m.beatDivisor), ("grid_size", ratToJson m.gridSize),
       ("timeline_zoom", ratToJson m.timelineZoom), ("title", sJ m.title), ("title_unicode", sJ m.titleUnicode),
       ("artist", sJ m.artist), ("artist_unicode", sJ m.artistUnicode), ("creator", sJ m.creator),
       ("version", sJ m.version), ("source", sJ m.source), ("tags", listToJson sJ m.tags),
       ("beatmap_id", intToJson m.beatmapId), ("beatmap_set_id", intToJson m.beatmapSetId),
       ("hp_drain_rate", ratToJson m.hpDrainRate), ("circle_size", ratToJson m.circleSize),
       ("overall_difficulty", ratToJson m.overallDifficulty), ("approach_rate", ratToJson m.approachRate),
       ("slider_multiplier", ratToJson m.sliderMultiplier), ("slider_tick_rate", ratToJson m.sliderTickRate),
       ("background_file_name", sJ m.backgroundFileName), ("samples", listToJson sampleJ m.samples)]

def chartJ (c : Chart) : Json :=
  obj [("meta", metaJ c.md), ("bpms", listToJson bpmJ c.bpms), ("svs", listToJson svJ c.svs),
       ("hits", listToJson hitJ c.hits), ("holds", listToJson holdJ c.holds)]

def gS (j : Json) (k : String) : Except String Str := do return (← getStr j k).toList

def hitOf (j : Json) : Except String Hit := do
  return { offset := ← getRat j "offset", column := ← getInt j "column", hitsoundSet := ← getInt j "hitsound_set",
           sampleSet := ← getInt j "sample_set", additionSet := ← getInt j "addition_set",
           customSet := ← getInt j "custom_set", volume := ← getInt j "volume", file := ← gS j "hitsound_file" }

def holdOf (j : Json) : Except String Hold := do
  return { offset := ← getRat j "offset", column := ← getInt j "column", length := ← getRat j "length",
           hitsoundSet := ← getInt j "hitsound_set", sampleSet := ← getInt j "sample_set",
           additionSet := ← getInt j "addition_set", customSet := ← getInt j "custom_set",
           volume := ← getInt j "volume", file := ← gS j "hitsound_file" }

def bpmOf (j : Json) : Except String Bpm := do
  return { offset := ← getRat j "offset", bpm := ← getRat j "bpm", metronome := ← getRat j "metronome",
           sampleSet := ← getInt j "sample_set", sampleSetIndex := ← getInt j "sample_set_index",
           volume := ← getInt j "volume", kiai := ← getBool j "kiai" }

def svOf (j : Json) : Except String Sv := do
  return { offset := ← getRat j "offset", multiplier := ← getRat j "multiplier",
           sampleSet := ← getInt j "sample_set", sampleSetIndex := ← getInt j "sample_set_index",
           volume := ← getInt j "volume", kiai := ← getBool j "kiai" }

def sampleOf (j : Json) : Except String Sample := do
  return { offset := ← getRat j "offset", file := ← gS j "sample_file", volume := ← getInt j "volume" }

def strOfJ (j : Json) : Except String Str := do return (← strOf? j).toList

def metaOf (j : Json) : Except String Meta := do
  return { audioFileName := ← gS j "audio_file_name", audioLeadIn := ← getRat j "audio_lead_in",
           previewTime := ← getRat j "preview_time", countdown := ← getBool j "countdown",
           sampleSet := ← getInt j "sample_set", stackLeniency := ← getRat j "stack_leniency", mode := ← getInt j "mode",
           letterboxInBreaks := ← getBool j "letterbox_in_breaks", specialStyle := ← getBool j "special_style",
           widescreenStoryboard := ← getBool j "widescreen_storyboard", distanceSpacing := ← getRat j "distance_spacing",
           beatDivisor := ← getRat j "beat_divisor", gridSize := ← getRat j "grid_size",
           timelineZoom := ← getRat j "timeline_zoom", title := ← gS j "title", titleUnicode := ← gS j "title_unicode",
           artist := ← gS j "artist", artistUnicode := ← gS j "artist_unicode", creator := ← gS j "creator",
           version := ← gS j "version", source := ← gS j "source", tags := ← getArr strOfJ j "tags",
           beatmapId := ← getInt j "beatmap_id", beatmapSetId := ← getInt j "beatmap_set_id",
           hpDrainRate := ← getRat j "hp_drain_rate", circleSize := ← getRat j "circle_size",
           overallDifficulty := ← getRat j "overall_difficulty", approachRate := ← getRat j "approach_rate",
           sliderMultiplier := ← getRat j "slider_multiplier", sliderTickRate := ← getRat j "slider_tick_rate",
           backgroundFileName := ← gS j "background_file_name", samples := ← getArr sampleOf j "samples" }

def chartOf (j : Json) : Except String Chart := do
  return { md := ← metaOf (← field j "meta"), bpms := ← getArr bpmOf j "bpms", svs := ← getArr svOf j "svs",
           hits := ← getArr hitOf j "hits", holds := ← getArr holdOf j "holds" }

def tokJ : Tok → Json
  | .lit s => obj [("s", sJ s)]
  | .int i => obj [("s", sJ (showInt i))]
  | .repr q => obj [("r", ratToJson q)]
  | .num q => if q.den = 1 then obj [("s", sJ (showInt q.num))] else obj [("r", ratToJson q)]
  | .uni s => obj [("u", sJ s)]

def resJ {α} (f : α → Json) : Except Err α → Json
  | .ok v => okJson (f v)
  | .error e => errJson e.toString

def optJ {α} (f : α → Json) : Option α → Json
  | some a => f a
  | none => Json.null

def objJ : Obj → Json
  | .hit h => obj [("hit", hitJ h)]
  | .hold h => obj [("hold", holdJ h)]

def tpJ : TPoint → Json
  | .bpm b => obj [("bpm", bpmJ b)]
  | .sv s => obj [("sv", svJ s)]

def handle (op : String) (j : Json) : Except String Json := do
  match op with
  -- numeric core
  | "c01.x_to_col" =>
    let x ← getInt j "x"
    let k ← getInt j "k"
    .ok (okJson (obj [("model", intToJson (xToCol x k)), ("spec", intToJson (specCol x k)),
                      ("is_column", bJ (decide (IsColumn x k (xToCol x k))))]))
  | "c01.is_column" =>
    .ok (okJson (bJ (decide (IsColumn (← getInt j "x") (← getInt j "k") (← getInt j "c")))))
  | "c01.col_to_x" =>
    .ok (okJson (intToJson (colToX (← getInt j "c") (← getInt j "k"))))
  | "c01.col_table" =>
    -- exhaustive tables for one key count: x → column for x in [0, 512), column → x
    let k ← getInt j "k"
    let xs := (List.range 512).map (fun (x : Nat) => xToCol (x : Int) k)
    let sp := (List.range 512).map (fun (x : Nat) => specCol (x : Int) k)
    let cs := (List.range k.toNat).map (fun (c : Nat) => colToX (c : Int) k)
    .ok (okJson (obj [("x_to_col", listToJson intToJson xs), ("spec", listToJson intToJson sp),
                      ("col_to_x", listToJson intToJson cs)]))
  | "c01.trunc" => .ok (okJson (intToJson (pyTrunc (← getRat j "q"))))
  -- lexing
  | "c01.read_int" => .ok (resJ intToJson (readInt (← gS j "s")))
  | "c01.read_float" => .ok (resJ ratToJson (readFloat (← gS j "s")))
  | "c01.strip" => .ok (okJson (sJ (strip (← gS j "s"))))
  | "c01.lex" =>
    -- int() / float() / the non-finite recogniser on a list of tokens
    let toks ← getArr strOfJ j "toks"
    let one (t : Str) : Json :=
      obj [("int", resJ intToJson (readInt t)), ("float", resJ ratToJson (readFloat t)),
           ("nonfinite", match floatNonFinite t with
              | some .posInf => Json.str "inf" | some .negInf => Json.str "-inf" | some .nan => Json.str "nan"
              | none => Json.null)]
    .ok (okJson (listToJson one toks))
  | "c01.lex_tables" =>
    -- the tables inside the number reader: runs of decimal digits, white space of `str.strip()` (all code points)
    let ws := (List.range 0x3001).filter (fun n => isWs (Char.ofNat n))
    .ok (okJson (obj [("dec_zeros", listToJson (fun (n : Nat) => intToJson (n : Int)) decZeros),
                      ("ws", listToJson (fun (n : Nat) => intToJson (n : Int)) ws)]))
  -- lines
  | "c01.classify" =>
    let s ← gS j "s"
    .ok (okJson (obj [("is_hit", bJ (isHit s)), ("is_hold", bJ (isHold s)), ("is_bpm", bJ (isTimingPoint s)),
                      ("is_sv", bJ (isSliderVelocity s)), ("wf_obj", bJ (wfObjLine s)), ("wf_timing", bJ (wfTimingLine s))]))
  | "c01.read_hit" => .ok (resJ hitJ (readHit (← gS j "s") (← getInt j "k")))
  | "c01.read_hold" => .ok (resJ holdJ (readHold (← gS j "s") (← getInt j "k")))
  | "c01.read_bpm" => .ok (resJ bpmJ (readBpm (← gS j "s")))
  | "c01.read_sv" => .ok (resJ svJ (readSv (← gS j "s")))
  | "c01.read_sample" => .ok (resJ sampleJ (readSample (← gS j "s")))
  | "c01.denote_obj" => .ok (resJ (optJ objJ) (denoteObj (← getInt j "k") (← gS j "s")))
  | "c01.denote_timing" => .ok (resJ (optJ tpJ) (denoteTiming (← gS j "s")))
  -- whole text
  | "c01.read" =>
    let lines ← getArr strOfJ j "lines"
    .ok (resJ chartJ (read lines))
  | "c01.denote" =>
    let lines ← getArr strOfJ j "lines"
    .ok (resJ chartJ (denote lines))
  | "c01.file_lines" =>
    -- what `read_file` makes of a file's text: universal newlines, then `split("\n")`
    .ok (okJson (listToJson sJ (fileLines (← gS j "text"))))
  | "c01.wf" =>
    -- every line that the sections [TimingPoints] / [HitObjects] contain is a line of the dialect
    let lines ← getArr strOfJ j "lines"
    let ls := (lines.map strip).filter (fun l => l ≠ [])
    let secs := (sections ls).2
    let tp := (body "[TimingPoints]" secs).filter (fun l => !isComment l)
    let ho := (body "[HitObjects]" secs).filter (fun l => !isComment l)
    .ok (okJson (obj [("timing", bJ (tp.all wfTimingLine)), ("objects", bJ (ho.all wfObjLine))]))
  | "c01.write" =>
    let c ← chartOf (← field j "chart")
    .ok (okJson (listToJson (fun l => listToJson tokJ l) (write c)))
  | "c01.quantize" =>
    -- `unidecode` is applied by the harness: the chart arrives with title/artist already transliterated
    let c ← chartOf (← field j "chart")
    .ok (okJson (chartJ (quantize id c)))
  | _ => .error s!"unknown op {op}"

end Reamber.C01
