/- Driver operations of property C01 (ops are named "c01.<name>"). Core + Lean.Data.Json only. -/
import Reamber.Util.Json

open Lean Reamber.J

namespace Reamber.C01

def handle (op : String) (_j : Json) : Except String Json :=
  match op with
  | _ => .error s!"unknown op {op}"

end Reamber.C01
