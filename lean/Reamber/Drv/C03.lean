/- Driver operations of property C03 (ops are named "c03.<name>"). Core + Lean.Data.Json only. -/
import Reamber.Util.Json
import Reamber.Model.SM
import Reamber.Spec.SM
import Reamber.Spec.SMTies
import Reamber.Drv.C02

open Lean Reamber.J

namespace Reamber.C03

open Reamber.SM Reamber.Timing Reamber.C02

def strOfJson (j : Json) : Except String Str := do .ok (← strOf? j).toList

def kindOf (s : String) : Except String Kind :=
  match s with
  | "hit" => .ok .hit | "mine" => .ok .mine | "lift" => .ok .lift | "fake" => .ok .fake
  | "keysound" => .ok .keysound | "hold" => .ok .hold | "roll" => .ok .roll
  | _ => .error s!"unknown kind {s}"

def noteOfJson (j : Json) : Except String Note :=
  match j with
  | Json.arr #[k, c, t, l] => do .ok ⟨← kindOf (← strOf? k), ← natOf? c, ← ratOf? t, ← ratOf? l⟩
  | _ => .error s!"note expected [kind, col, time, length]: {j}"

def pairOfJson (j : Json) : Except String (Rat × Rat) :=
  match j with
  | Json.arr #[a, b] => do .ok (← ratOf? a, ← ratOf? b)
  | _ => .error s!"pair expected: {j}"

def chartOfJson (j : Json) : Except String WChart := do
  .ok { chartType := (← getStr j "chart_type").toList, description := (← getStr j "description").toList,
        difficulty := (← getStr j "difficulty").toList, difficultyVal := ← getInt j "difficulty_val",
        groove := ← getArr ratOf? j "groove", bpms := ← getArr pairOfJson j "bpms",
        notes := ← getArr noteOfJson j "notes" }

def headerOfJson (j : Json) : Except String WHeader := do
  let strs ← field j "strs"
  let kv ← stringTags.mapM (fun ta => do
    let v ← getStr strs (String.ofList ta.2)
    .ok (ta.2, v.toList))
  .ok { strs := kv, offset := ← getRat j "offset", sampleStart := ← getRat j "sample_start",
        sampleLength := ← getRat j "sample_length", selectable := ← getBool j "selectable" }

/-- diagnostics of one chart for the comparator: (every den divides its measure's den_max,
some non-dividing slot whose exact row is an integer, two objects in one cell) -/
def chartDiag (c : WChart) : Except Err (Bool × Bool × Bool) := do
  let objs := writeOrder c.notes
  let bs ← beats defaultGrid (toTimingMap c.bpms) (objs.map (·.1))
  let slots := (objs.zip bs).map fun ob => slotOf ob.2 ob.1.2.1 ob.1.2.2
  let ms := measuresSorted slots
  let per := ms.map fun m =>
    let g := slots.filter (fun s => s.measure = m)
    let dmax := denMax (g.map (·.den))
    let exact := g.all (fun s => dmax % s.den == 0)
    let near := g.any (fun s => dmax % s.den != 0 && (s.num * dmax) % s.den == 0)
    let cells := g.map (fun s => (rowOf s.num s.den dmax, s.col))
    let coll := cells.eraseDups.length != cells.length
    (exact, near, coll)
  .ok (per.all (·.1), per.any (·.2.1), per.any (·.2.2))

def writtenChartToJson (c : WrittenChart) : Json :=
  obj [("chart_type", strToJson c.chartType), ("description", strToJson c.description),
       ("difficulty", strToJson c.difficulty), ("difficulty_val", intToJson c.difficultyVal),
       ("groove", listToJson ratToJson c.groove),
       ("measures", listToJson (listToJson strToJson) c.measures)]

/-- Python's number rendering, supplied by the caller as a table `[[value, text], …]` (`repr(float)`); `str(int)` is
the decimal numeral -/
def showsOf (tab : List (Rat × Str)) : Shows :=
  { rat := fun q => (tab.lookup q).getD ['?'], int := fun i => (toString i).toList }

def numRowOfJson (j : Json) : Except String (Rat × Str) :=
  match j with
  | Json.arr #[a, b] => do .ok (← ratOf? a, ← strOfJson b)
  | _ => .error s!"[value, text] expected: {j}"

/-- the denotation of a text as `c02.denote` returns it, the times being evaluated whenever the `#BPMS` list is
`tempoOkWeak` (several entries on one beat allowed: the last one in file order is in force) -/
def denotedWeakToJson (d : Denoted) : Json :=
  let timed : Option (Rat × List (Rat × Rat)) :=
    match d.offsetSec, d.bpms with
    | some o, some b => if tempoOkWeak b then some (o, b) else none
    | _, _ => none
  obj [("offset_sec", optToJson ratToJson d.offsetSec),
       ("bpms", optToJson (listToJson (fun p => Json.arr #[ratToJson p.1, ratToJson p.2])) d.bpms),
       ("effective_bpms", optToJson (listToJson (fun p => Json.arr #[ratToJson p.1, ratToJson p.2]))
         (d.bpms.map effectivePairs)),
       ("stops_present", Json.bool d.stopsPresent), ("stops_empty", Json.bool d.stopsEmpty),
       ("charts_well_formed", Json.bool d.chartsWellFormed),
       ("tempo_ok", Json.bool (match d.bpms with
         | some b => tempoOk b
         | none => false)),
       ("tempo_ok_weak", Json.bool (match d.bpms with
         | some b => tempoOkWeak b
         | none => false)),
       ("tempo_on_grid", Json.bool (match d.bpms with
         | some b => tempoOnGrid b
         | none => false)),
       ("tempo_times", match timed with
         | some (o, b) => listToJson ratToJson (tempoTimes o b)
         | none => Json.null),
       ("values", listToJson (listToJson strToJson) d.values),
       ("charts", listToJson (dchartToJson timed) d.charts)]

def handle (op : String) (j : Json) : Except String Json := do
  match op with
  | "c03.denote" =>
    let t ← getStr j "text"
    .ok (okJson (optToJson denotedWeakToJson (denote t.toList)))
  | "c03.write" =>
    let h ← headerOfJson (← field j "hdr")
    let cs ← getArr chartOfJson j "charts"
    match SM.write h cs with
    | .error e => .ok (errJson e.toString)
    | .ok w =>
      let tab ← match fieldD j "nums" Json.null with
        | Json.null => pure []
        | t => arrOf? numRowOfJson t
      let diags := cs.map (fun c => match chartDiag c with
        | .ok (a, b, c) => obj [("exact_rows", Json.bool a), ("near_int", Json.bool b), ("collision", Json.bool c)]
        | .error _ => Json.null)
      let bb : List Rat := match cs with
        | c0 :: _ => match beats defaultGrid (toTimingMap c0.bpms) (c0.bpms.map (·.1)) with
          | .ok l => l
          | .error _ => []
        | [] => []
      .ok (okJson (obj [
        ("strs", obj (w.strs.map (fun ta => (String.ofList (ta.1.drop 1), strToJson ta.2)))),
        ("offset_sec", ratToJson w.offsetSec),
        ("bpms", listToJson (fun p => Json.arr #[ratToJson p.1, ratToJson p.2]) w.bpms),
        ("bpm_beats", listToJson ratToJson bb),
        ("sample_start_sec", ratToJson w.sampleStartSec), ("sample_length_sec", ratToJson w.sampleLengthSec),
        ("selectable", strToJson w.selectable),
        ("charts", listToJson writtenChartToJson w.charts),
        ("text", strToJson (renderWritten (showsOf tab) w)),
        ("diag", Json.arr diags.toArray)]))
  | _ => .error s!"unknown op {op}"

end Reamber.C03
