/- Driver operations of property C06 (ops are named "c06.<name>"). Core + Lean.Data.Json only. -/
import Reamber.Util.Json
import Reamber.Model.Qua
import Reamber.Spec.Qua
import Reamber.Model.QuaText

open Lean Reamber.J

namespace Reamber.C06

open Reamber.Qua

/-! wire format (harness/props/c06.py):
  YV    : {"t":"nan"} | {"t":"bool","v":b} | {"t":"int","v":n} | {"t":"flt","v":[n,d]} | {"t":"str","v":s}
          | {"t":"ks","v":[[sample,volume]…]} | {"t":"strs","v":[s…]}
  Rec   : [[key, YV]…]
  Doc   : {"meta":Rec, "ho":null|[Rec…], "tp":…, "sv":…}
  Chart : {"meta":Rec, "hits":[[off,col,ks]…], "holds":[[off,col,len,ks]…], "bpms":[[off,bpm,met]…], "svs":[[off,mult]…]}
          ks = null (NaN) | [[sample,volume]…] -/

def ksOfJson (j : Json) : Except String KS :=
  match j with
  | Json.arr #[a, b] => do .ok ⟨← intOf? a, ← intOf? b⟩
  | _ => .error s!"keysound expected [sample, volume]: {j}"

def ksToJson (k : KS) : Json := Json.arr #[intToJson k.sample, intToJson k.volume]

def yvOfJson (j : Json) : Except String YV := do
  let t ← getStr j "t"
  match t with
  | "nan" => .ok .nan
  | "bool" => do .ok (.bool (← getBool j "v"))
  | "int" => do .ok (.int (← getInt j "v"))
  | "flt" => do .ok (.flt (← getRat j "v"))
  | "str" => do .ok (.str (← getStr j "v"))
  | "ks" => do .ok (.ks (← getArr ksOfJson j "v"))
  | "strs" => do .ok (.strs (← getArr strOf? j "v"))
  | _ => .error s!"unknown value tag {t}"

def yvToJson : YV → Json
  | .nan => obj [("t", Json.str "nan")]
  | .bool b => obj [("t", Json.str "bool"), ("v", Json.bool b)]
  | .int i => obj [("t", Json.str "int"), ("v", intToJson i)]
  | .flt q => obj [("t", Json.str "flt"), ("v", ratToJson q)]
  | .str s => obj [("t", Json.str "str"), ("v", Json.str s)]
  | .ks l => obj [("t", Json.str "ks"), ("v", listToJson ksToJson l)]
  | .strs l => obj [("t", Json.str "strs"), ("v", listToJson Json.str l)]

def recOfJson (j : Json) : Except String Rec :=
  arrOf? (fun e => match e with
    | Json.arr #[k, v] => do .ok (← strOf? k, ← yvOfJson v)
    | _ => .error s!"entry expected [key, value]: {e}") j

def recToJson (r : Rec) : Json := listToJson (fun kv => Json.arr #[Json.str kv.1, yvToJson kv.2]) r

def docOfJson (j : Json) : Except String Doc := do
  let m ← recOfJson (← field j "meta")
  let ho ← optOf? (arrOf? recOfJson) (fieldD j "ho" Json.null)
  let tp ← optOf? (arrOf? recOfJson) (fieldD j "tp" Json.null)
  let sv ← optOf? (arrOf? recOfJson) (fieldD j "sv" Json.null)
  .ok ⟨m, ho, tp, sv⟩

def docToJson (d : Doc) : Json :=
  obj [("meta", recToJson d.info), ("ho", optToJson (listToJson recToJson) d.hitObjects),
       ("tp", optToJson (listToJson recToJson) d.timingPoints), ("sv", optToJson (listToJson recToJson) d.sliderVelocities)]

def cellOfJson (j : Json) : Except String KsCell :=
  match j with
  | Json.null => .ok .nan
  | _ => do .ok (.list (← arrOf? ksOfJson j))

def cellToJson : KsCell → Json
  | .nan => Json.null
  | .list l => listToJson ksToJson l

def hitOfJson (j : Json) : Except String Hit :=
  match j with
  | Json.arr #[o, c, k] => do .ok ⟨← ratOf? o, ← intOf? c, ← cellOfJson k⟩
  | _ => .error s!"hit expected [offset, column, keysounds]: {j}"

def holdOfJson (j : Json) : Except String Hold :=
  match j with
  | Json.arr #[o, c, l, k] => do .ok ⟨← ratOf? o, ← intOf? c, ← ratOf? l, ← cellOfJson k⟩
  | _ => .error s!"hold expected [offset, column, length, keysounds]: {j}"

def bpmOfJson (j : Json) : Except String Bpm :=
  match j with
  | Json.arr #[o, b, m] => do .ok ⟨← ratOf? o, ← ratOf? b, ← ratOf? m⟩
  | _ => .error s!"bpm expected [offset, bpm, metronome]: {j}"

def svOfJson (j : Json) : Except String Sv :=
  match j with
  | Json.arr #[o, m] => do .ok ⟨← ratOf? o, ← ratOf? m⟩
  | _ => .error s!"sv expected [offset, multiplier]: {j}"

def chartOfJson (j : Json) : Except String Chart := do
  .ok ⟨← recOfJson (← field j "meta"), ← getArr hitOfJson j "hits", ← getArr holdOfJson j "holds",
       ← getArr bpmOfJson j "bpms", ← getArr svOfJson j "svs"⟩

def chartToJson (c : Chart) : Json :=
  obj [("meta", recToJson c.info),
       ("hits", listToJson (fun h => Json.arr #[ratToJson h.offset, intToJson h.column, cellToJson h.keysounds]) c.hits),
       ("holds", listToJson (fun h => Json.arr #[ratToJson h.offset, intToJson h.column, ratToJson h.length,
                                                  cellToJson h.keysounds]) c.holds),
       ("bpms", listToJson (fun b => Json.arr #[ratToJson b.offset, ratToJson b.bpm, ratToJson b.metronome]) c.bpms),
       ("svs", listToJson (fun s => Json.arr #[ratToJson s.offset, ratToJson s.multiplier]) c.svs)]


/-! text layer (Model/QuaText.lean); wire:
  Sc   : {"t":"null"} | {"t":"bool","v":b} | {"t":"int","v":n} | {"t":"flt","lex":s} | {"t":"str","v":s}
  V    : Sc | {"t":"empty"} | {"t":"recs","v":[[[key, V']…]…]}
  Tree : [[key, V]…] -/

open Reamber.QuaText in
def scOfJson (j : Json) : Except String Sc := do
  let t ← getStr j "t"
  match t with
  | "null" => .ok .null
  | "bool" => do .ok (.bool (← getBool j "v"))
  | "int" => do .ok (.int (← getInt j "v"))
  | "flt" => do .ok (.flt (← getStr j "lex").toList)
  | "str" => do .ok (.str (← getStr j "v").toList)
  | _ => .error s!"scalar expected, got tag {t}"

open Reamber.QuaText in
def scToJson : Sc → Json
  | .null => obj [("t", Json.str "null")]
  | .bool b => obj [("t", Json.str "bool"), ("v", Json.bool b)]
  | .int i => obj [("t", Json.str "int"), ("v", intToJson i)]
  | .flt l => obj [("t", Json.str "flt"), ("lex", Json.str (String.ofList l)),
                   ("val", optToJson ratToJson (fltVal l))]
  | .str s => obj [("t", Json.str "str"), ("v", Json.str (String.ofList s))]

open Reamber.QuaText in
def entriesOfJson {β} (f : Json → Except String β) (j : Json) : Except String (List (List Char × β)) :=
  arrOf? (fun e => match e with
    | Json.arr #[k, v] => do .ok ((← strOf? k).toList, ← f v)
    | _ => .error s!"entry expected [key, value]: {e}") j

open Reamber.QuaText in
def vOfJson {α} (f : Json → Except String α) (j : Json) : Except String (V α) := do
  let t ← getStr j "t"
  match t with
  | "empty" => .ok .empty
  | "recs" => do .ok (.recs (← getArr (entriesOfJson f) j "v"))
  | _ => do .ok (.sc (← scOfJson j))

open Reamber.QuaText in
def entriesToJson {β} (f : β → Json) (es : List (List Char × β)) : Json :=
  listToJson (fun kv => Json.arr #[Json.str (String.ofList kv.1), f kv.2]) es

open Reamber.QuaText in
def vToJson {α} (f : α → Json) : V α → Json
  | .sc s => scToJson s
  | .empty => obj [("t", Json.str "empty")]
  | .recs l => obj [("t", Json.str "recs"), ("v", listToJson (entriesToJson f) l)]

open Reamber.QuaText in
def treeOfJson (j : Json) : Except String Tree := entriesOfJson (vOfJson (vOfJson scOfJson)) j

open Reamber.QuaText in
def treeToJson (t : Tree) : Json := entriesToJson (vToJson (vToJson scToJson)) t

def resToJson {α} (f : α → Json) : Except Err α → Json
  | .ok v => okJson (f v)
  | .error e => errJson e.toString

def handle (op : String) (j : Json) : Except String Json := do
  match op with
  -- model
  | "c06.read" =>
    let d ← docOfJson (← field j "doc")
    .ok (resToJson chartToJson (read d))
  | "c06.write" =>
    let c ← chartOfJson (← field j "chart")
    .ok (resToJson docToJson (write c))
  | "c06.write_read" =>
    let c ← chartOfJson (← field j "chart")
    .ok (resToJson chartToJson (write c >>= read))
  -- specification
  | "c06.denote" =>
    let d ← docOfJson (← field j "doc")
    .ok (resToJson chartToJson (Spec.denote d))
  | "c06.quantize" =>
    let c ← chartOfJson (← field j "chart")
    .ok (okJson (chartToJson (Spec.quantize c)))
  | "c06.close_chart" =>
    let a ← chartOfJson (← field j "a")
    let b ← chartOfJson (← field j "b")
    .ok (okJson (obj [("close", Json.bool (Spec.closeChart a b)), ("why", listToJson Json.str (Spec.closeWhy a b))]))
  | "c06.doc_allowed" =>
    let d ← docOfJson (← field j "doc")
    .ok (okJson (obj [("allowed", Json.bool (Spec.docAllowed d)),
                      ("offending", listToJson (fun p => Json.arr #[Json.str p.1, Json.str p.2]) (Spec.offending d))]))
  | "c06.dom_doc" =>
    let d ← docOfJson (← field j "doc")
    .ok (okJson (obj [("keysounds_declared", Json.bool (Spec.keySoundsDeclared d)),
                      ("lanes_declared", Json.bool (Spec.lanesDeclared d)),
                      ("objs_declared", Json.bool (Spec.objsDeclared d))]))
  | "c06.dom_chart" =>
    let c ← chartOfJson (← field j "chart")
    .ok (okJson (obj [("ks_lists", Json.bool (Spec.ksLists c)), ("meta_typed", Json.bool (Spec.metaTyped c.info)),
                      ("tags_ok", Json.bool (Spec.tagsOk c.info)), ("meta_keys_ok", Json.bool (Spec.metaKeysOk c.info))]))
  | "c06.tags" =>
    let s ← getStr j "s"
    .ok (okJson (listToJson Json.str (tagsOf s)))
  -- text layer
  | "c06.emit_text" =>
    let t ← treeOfJson (← field j "tree")
    .ok (okJson (obj [("text", optToJson Json.str (QuaText.emitQua t)),
                      ("doc", optToJson docToJson (QuaText.treeDoc t)),
                      ("nodup", Json.bool (QuaText.treeNodup t)),
                      ("bad", listToJson (fun L => Json.str (String.ofList L.key))
                                ((QuaText.emitTree t).filter (fun L => (QuaText.renderLine L).isNone)))]))
  | "c06.emit_entries" =>
    let t ← treeOfJson (← field j "tree")
    .ok (okJson (listToJson (fun e => optToJson Json.str (QuaText.emitQua [e])) t))
  | "c06.parse_segments" =>
    let segs ← getArr strOf? j "segs"
    .ok (okJson (listToJson (fun s => optToJson treeToJson (QuaText.parseQua s)) segs))
  | "c06.parse_text" =>
    let s ← getStr j "text"
    let t := QuaText.parseQua s
    .ok (okJson (obj [("tree", optToJson treeToJson t),
                      ("doc", optToJson docToJson (t.bind QuaText.treeDoc)),
                      ("reemit", optToJson Json.str (t.bind QuaText.emitQua))]))
  | _ => .error s!"unknown op {op}"

end Reamber.C06
