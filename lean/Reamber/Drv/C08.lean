/- Driver operations of property C08 (ops are named "c08.<name>"). Core + Lean.Data.Json only. -/
import Reamber.Util.Json
import Reamber.Model.Convert
import Reamber.Spec.Convert
import Reamber.Generated.Converters

open Lean Reamber.J

namespace Reamber.C08
open Reamber.Convert

def cellOfJson (j : Json) : Except String Cell :=
  match j with
  | Json.null => .ok .nan
  | Json.str s => .ok (.str s)
  | Json.bool b => .ok (.bool b)
  | Json.arr _ => do .ok (.num (← ratOf? j))
  | Json.num _ => do .ok (.num (← ratOf? j))
  | Json.obj _ => do .ok (.other (← getStr j "o"))

def cellToJson : Cell → Json
  | .nan => Json.null
  | .num q => ratToJson q
  | .str s => Json.str s
  | .bool b => Json.bool b
  | .other t => obj [("o", Json.str t)]

def pairOf? {α} (f : Json → Except String α) (j : Json) : Except String (String × α) :=
  match j with
  | Json.arr #[k, v] => do .ok (← strOf? k, ← f v)
  | _ => .error s!"pair expected: {j}"

def pairToJson {α} (f : α → Json) (p : String × α) : Json := Json.arr #[Json.str p.1, f p.2]

def frameOfJson (j : Json) : Except String Frame := do
  let idx ← getArr intOf? j "index"
  let cols ← getArr (pairOf? (arrOf? cellOfJson)) j "cols"
  .ok ⟨idx, cols⟩

def frameToJson (f : Frame) : Json :=
  obj [("index", listToJson intToJson f.index), ("cols", listToJson (pairToJson (listToJson cellToJson)) f.cols)]

def kvOfJson (j : Json) : Except String (List (String × String)) := arrOf? (pairOf? strOf?) j
def kvToJson (l : List (String × String)) : Json := listToJson (pairToJson Json.str) l

def srcMapOfJson (j : Json) : Except String SrcMap := do
  let lists ← getArr (pairOf? frameOfJson) j "lists"
  let me ← kvOfJson (← field j "meta")
  let lvl ← getStr j "level"
  .ok ⟨lists, me, lvl⟩

def srcOfJson (j : Json) : Except String Src := do
  let me ← kvOfJson (← field j "meta")
  let maps ← getArr srcMapOfJson j "maps"
  .ok ⟨me, maps⟩

def chartOfJson (j : Json) : Except String TChart := do
  let h ← frameOfJson (← field j "hits")
  let l ← frameOfJson (← field j "holds")
  let b ← frameOfJson (← field j "bpms")
  let s ← optOf? frameOfJson (fieldD j "svs" Json.null)
  let me ← kvOfJson (← field j "meta")
  .ok ⟨h, l, b, s, me⟩

def chartToJson (t : TChart) : Json :=
  obj [("hits", frameToJson t.hits), ("holds", frameToJson t.holds), ("bpms", frameToJson t.bpms),
       ("svs", optToJson frameToJson t.svs), ("meta", kvToJson t.attrs)]

def groupOfJson (j : Json) : Except String TGroup := do
  let sm ← kvOfJson (← field j "set_meta")
  let cs ← getArr chartOfJson j "charts"
  .ok ⟨sm, cs⟩

def groupToJson (g : TGroup) : Json := obj [("set_meta", kvToJson g.setMeta), ("charts", listToJson chartToJson g.charts)]

def outOfJson (j : Json) : Except String Out := do
  let il ← getBool j "is_list"
  let gs ← getArr groupOfJson j "groups"
  .ok ⟨il, gs⟩

def outToJson (o : Out) : Json := obj [("is_list", Json.bool o.isList), ("groups", listToJson groupToJson o.groups)]

def resToJson {α} (f : α → Json) : Except Err α → Json
  | .ok v => okJson (f v)
  | .error e => errJson e.toString

def mapFromOfJson (j : Json) : Except String MapFrom :=
  match j with
  | Json.str s => .ok (.attr s)
  | _ => do
    let kind ← getStr j "kind"
    match kind with
    | "series" => .ok (.seriesStr (← getStr j "list") (← getStr j "col"))
    | "array" => .ok (.arrayStr (← getStr j "list") (← getStr j "col"))
    | _ => .ok (.opaque kind)

def tables : Tables := ⟨Generated.listClasses, Generated.mapClasses⟩

def findConv (name : String) : Except String Conv :=
  match Generated.converters.find? (·.name == name) with
  | some c => .ok c
  | none => .error s!"unknown converter {name}"

def verdictToJson (v : Verdict) (unt : Bool) : Json :=
  obj [("one_per", Json.bool v.onePer), ("content", Json.bool v.content), ("svs", Json.bool v.svs),
       ("fields", Json.bool v.fields), ("meta", Json.bool v.metas), ("untouched", Json.bool unt)]

def handle (op : String) (j : Json) : Except String Json := do
  match op with
  | "c08.convert" =>
    let c ← findConv (← getStr j "conv")
    let src ← srcOfJson (← field j "src")
    let k ← getInt j "k"
    .ok (resToJson outToJson (convert tables c src k))
  | "c08.spec" =>
    let c ← findConv (← getStr j "conv")
    let src ← srcOfJson (← field j "src")
    let after ← srcOfJson (← field j "src_after")
    let k ← getInt j "k"
    let out ← outOfJson (← field j "out")
    .ok (okJson (verdictToJson (specAll tables c.srcGame c.tgtGame c.tgtMapClass src k out) (untouched src after)))
  | "c08.dom" =>
    let c ← findConv (← getStr j "conv")
    let src ← srcOfJson (← field j "src")
    .ok (okJson (obj [("labels_free", Json.bool (labelsFree c)),
                      ("fresh", Json.bool (src.maps.all freshLabels)),
                      ("list_default", Json.bool (tgtHasListDefault tables c)),
                      ("static_ok", Json.bool (staticOk tables c)),
                      ("src_ok", Json.bool (srcOk tables c src)),
                      ("shift_default", optToJson intToJson c.shiftDefault),
                      ("has_shift", Json.bool c.shiftParam.isSome)]))
  | "c08.cast" =>
    let lists ← getArr (pairOf? frameOfJson) j "lists"
    let srcName ← getStr j "src"
    let cls ← getStr j "cls"
    let mapping ← getArr (pairOf? mapFromOfJson) j "mapping"
    match lists.lookup srcName, findClass Generated.listClasses cls with
    | some f, some lc => .ok (resToJson frameToJson (cast lists f (schemaOf lc) mapping))
    | _, _ => .error "c08.cast: unknown list or class"
  | "c08.cast_spec" =>
    -- the rows of `out` over `ks` are those of `src`, and `out` has exactly the declared fields without NaN
    let src ← frameOfJson (← field j "src")
    let out ← frameOfJson (← field j "out")
    let cls ← getStr j "cls"
    let ks ← getArr strOf? j "keys"
    match findClass Generated.listClasses cls with
    | some lc => .ok (okJson (obj [("rows", Json.bool (projRows out ks == projRows src ks && (projRows src ks).isSome)),
                                   ("fields", Json.bool (frameFieldsOk lc out))]))
    | none => .error "c08.cast_spec: unknown class"
  | "c08.table" =>
    .ok (okJson (listToJson (fun (c : Conv) => obj [("name", Json.str c.name), ("src", Json.str c.srcGame),
      ("tgt", Json.str c.tgtGame), ("shift_default", optToJson intToJson c.shiftDefault),
      ("has_shift", Json.bool c.shiftParam.isSome), ("static_ok", Json.bool (staticOk tables c))]) Generated.converters))
  | _ => .error s!"unknown op {op}"

end Reamber.C08
