/- Driver operations of property C11 (ops are named "c11.<name>"). Core + Lean.Data.Json only. -/
import Reamber.Util.Json
import Reamber.Drv.Timing
import Reamber.Spec.Reseat

open Lean Reamber.J Reamber.Timing

namespace Reamber.C11

/-- `from_bpm_changes_snap(t0, l, reseat=True)` with the threshold the implementation really compares with
(the exact value of the double `0.001` in exact mode) — same shape as `Timing.fromBcSnap` -/
def fromBcSnapThr (thr t0 : Rat) (l : List BcSnap) : Except Err (List BcOff) :=
  match sortBcSnap l with
  | [] => .error .index
  | b0 :: _ =>
    if b0.snap.measure ≠ 0 ∨ b0.snap.beat ≠ 0 then .error .value
    else if l.any (fun b => b.snap.beat ≠ 0) then do
      let r ← reseat l thr
      fromBcSnapNoReseat t0 r
    else fromBcSnapNoReseat t0 l

/-- `TimingMap.reseat()` : re-derive the snaps from the stored offsets, then `from_bpm_changes_snap(…, reseat=True)` -/
def tmReseat (thr : Rat) (tm : List BcOff) : Except Err (List BcSnap × List BcOff) := do
  let (bco, bcs) ← bcsOfBco defaultGrid tm
  let t0 := (bco.headD default).offset
  let r ← fromBcSnapThr thr t0 bcs
  .ok (bcs, r)

def specJson (tol : Rat) (ins : List InPt) (outs : List OutPt) (seated : Option Bool) (inSeated : Bool) : Json :=
  obj [("seated", match seated with | some b => Json.bool b | none => Json.null),
       ("length", Json.bool (lengthOkB ins.length outs.length)),
       ("times", Json.bool (interleaveB tol false ins outs)),
       ("bpm", Json.bool (interleaveB tol true ins outs)),
       ("in_seated", Json.bool inSeated),
       ("same", Json.bool (sameTimelineB tol ins outs)),
       ("out_pts", listToJson (fun (o : OutPt) => Json.arr #[ratToJson o.time, ratToJson o.bpm]) outs)]

def handle (op : String) (j : Json) : Except String Json := do
  match op with
  | "c11.reseat" =>
    let cs ← getArr bcSnapOfJson j "cs"
    let thr ← getRat j "thr"
    .ok (resToJson (listToJson bcSnapToJson) (reseat cs thr))
  | "c11.from_snap" =>
    let cs ← getArr bcSnapOfJson j "cs"
    let thr ← getRat j "thr"
    let t0 ← getRat j "t0"
    .ok (resToJson (listToJson bcOffToJson) (fromBcSnapThr thr t0 cs))
  | "c11.tm_reseat" =>
    let tm ← getArr bcOffOfJson j "tm"
    let thr ← getRat j "thr"
    .ok (resToJson (fun p => obj [("bcs", listToJson bcSnapToJson p.1), ("tm", listToJson bcOffToJson p.2)]) (tmReseat thr tm))
  -- specification, evaluated on the implementation's output
  | "c11.spec" =>
    let inp ← getArr bcSnapOfJson j "inp"
    let out ← getArr bcSnapOfJson j "out"
    let t0 ← getRat j "t0"
    let tol ← getRat j "tol"
    let inS := sortBcSnap inp
    let outS := sortBcSnap out
    .ok (okJson (specJson tol (inPts t0 inS) (outPts t0 outS) (some (seatedB out)) (seatedB inS)))
  | "c11.spec_off" =>
    let inp ← getArr bcSnapOfJson j "inp"
    let out ← getArr bcOffOfJson j "out"
    let t0 ← getRat j "t0"
    let tol ← getRat j "tol"
    let inS := sortBcSnap inp
    .ok (okJson (specJson tol (inPts t0 inS) (outPtsOff out) none (seatedB inS)))
  | "c11.dom" =>
    let cs ← getArr bcSnapOfJson j "cs"
    let thr ← getRat j "thr"
    let s := sortBcSnap cs
    .ok (okJson (obj [("sorted", Json.bool (sortedSnaps cs)),
                      ("wf", Json.bool (wfB cs)),
                      ("first_zero", Json.bool (firstZeroB s)),
                      ("no_beat_extend", Json.bool (noBeatExtendB thr s)),
                      ("no_tiny_gap", Json.bool (noTinyGapB thr s)),
                      ("met_ok", Json.bool (metOkB thr s)),
                      ("seated", Json.bool (seatedB s)),
                      ("margin", ratToJson (marginB thr s)),
                      ("classes", listToJson Json.str (classesOf thr s)),
                      ("in_times", listToJson ratToJson (cumTimes 0 s))]))
  | _ => .error s!"unknown op {op}"

end Reamber.C11
