/- Driver operations of property C11 (ops are named "c11.<name>"). Core + Lean.Data.Json only. -/
import Reamber.Util.Json

open Lean Reamber.J

namespace Reamber.C11

def handle (op : String) (_j : Json) : Except String Json :=
  match op with
  | _ => .error s!"unknown op {op}"

end Reamber.C11
