/- Driver operations of property C16 (ops are named "c16.<name>"). Core + Lean.Data.Json only. -/
import Reamber.Util.Json
import Reamber.Spec.TList
import Reamber.Generated.Schemas

open Lean Reamber.J Reamber.TList

namespace Reamber.C16

/-! wire format: cell = null | {"q":[n,d]} | {"s":str} | {"b":bool} | {"l":[str]};  record = [[name, cell]…];
table = [[label, record]…]; operation = {"k": kind, …} -/

def cellOf? (j : Json) : Except String Cell :=
  match j with
  | Json.null => .ok .nan
  | _ =>
    match j.getObjVal? "q" with
    | .ok q => do .ok (.num (← ratOf? q))
    | .error _ =>
      match j.getObjVal? "s" with
      | .ok s => do .ok (.str (← strOf? s))
      | .error _ =>
        match j.getObjVal? "b" with
        | .ok b => do .ok (.bool (← boolOf? b))
        | .error _ =>
          match j.getObjVal? "l" with
          | .ok l => do .ok (.strs (← arrOf? strOf? l))
          | .error _ => .error s!"not a cell: {j}"

def cellToJson : Cell → Json
  | .nan => Json.null
  | .num q => obj [("q", ratToJson q)]
  | .str s => obj [("s", Json.str s)]
  | .bool b => obj [("b", Json.bool b)]
  | .strs l => obj [("l", listToJson Json.str l)]

def pairOf? {α β : Type} (f : Json → Except String α) (g : Json → Except String β) (j : Json) : Except String (α × β) :=
  match j with
  | Json.arr #[a, b] => do .ok (← f a, ← g b)
  | _ => .error s!"not a pair: {j}"

def recOf? (j : Json) : Except String Rec := arrOf? (pairOf? strOf? cellOf?) j
def recToJson (r : Rec) : Json := listToJson (fun kv => Json.arr #[Json.str kv.1, cellToJson kv.2]) r
def tblOf? (j : Json) : Except String (Tbl Rec) := arrOf? (pairOf? intOf? recOf?) j
def tblToJson (t : Tbl Rec) : Json := listToJson (fun r => Json.arr #[intToJson r.1, recToJson r.2]) t
def rowsOf? (j : Json) : Except String (List Rec) := arrOf? recOf? j

def optInt (j : Json) (k : String) : Except String (Option Int) := optOf? intOf? (fieldD j k Json.null)

def opOf? (j : Json) : Except String (Op Rec) := do
  let k ← getStr j "k"
  match k with
  | "slice" => .ok (.slice (← optInt j "a") (← optInt j "b") (← optInt j "c"))
  | "after" => .ok (.after (← getRat j "x") (← getBool j "incl"))
  | "before" => .ok (.before (← getRat j "x") (← getBool j "incl"))
  | "between" => .ok (.between (← getRat j "lo") (← getRat j "hi") (← getBool j "il") (← getBool j "ih"))
  | "hafter" => .ok (.hAfter (← getRat j "x") (← getBool j "incl") (← getBool j "tail"))
  | "hbefore" => .ok (.hBefore (← getRat j "x") (← getBool j "incl") (← getBool j "head"))
  | "hbetween" => .ok (.hBetween (← getRat j "lo") (← getRat j "hi") (← getBool j "il") (← getBool j "ih")
                        (← getBool j "head") (← getBool j "tail"))
  | "sorted" => .ok (.sorted (← getBool j "rev"))
  | "append" => .ok (.append (← rowsOf? (← field j "ys")) (← getBool j "sort"))
  | _ => .error s!"unknown operation kind {k}"

def resJson {α} (f : α → Json) : Except Err α → Json
  | .ok a => okJson (f a)
  | .error e => errJson e.toString

def errOf? (s : String) : Except String Err :=
  match s with
  | "index" => .ok .index
  | "value" => .ok .value
  | "type" => .ok .type
  | _ => .error s!"unknown error class {s}"

/-- {"ok": rows} | {"err": cls}; an error class outside the model's enum can never satisfy a spec -/
def resRowsOf? (j : Json) : Except String (Option (Except Err (List Rec))) :=
  match j.getObjVal? "ok" with
  | .ok v => do .ok (some (.ok (← rowsOf? v)))
  | .error _ => do
    let s ← getStr j "err"
    match errOf? s with
    | .ok e => .ok (some (.error e))
    | .error _ => .ok none

def schemaOf (name : String) : Except String Schema :=
  match Reamber.Generated.schemas.find? (fun s => s.name == name) with
  | some s => .ok s
  | none => .error s!"no generated schema for list class {name}"

def frameToJson (f : Frame) : Json := obj [("cols", listToJson Json.str f.cols), ("rows", tblToJson f.rows)]

def optRatToJson : Option Rat → Json := optToJson ratToJson

def handle (op : String) (j : Json) : Except String Json :=
  match op with
  | "c16.step" => do
      let t ← tblOf? (← field j "rows")
      let o ← opOf? (← field j "o")
      .ok (resJson tblToJson (step recOff recLen o t))
  | "c16.run" => do
      let t ← tblOf? (← field j "rows")
      let os ← getArr opOf? j "ops"
      .ok (resJson tblToJson (run recOff recLen os t))
  | "c16.run_pool" => do
      -- ops: [[receiver position, operation]…]; returns every list of the pool
      let t ← tblOf? (← field j "rows")
      let os ← getArr (pairOf? natOf? opOf?) j "ops"
      .ok (resJson (listToJson tblToJson) (runPool recOff recLen os [t]))
  | "c16.obs" => do
      let s ← schemaOf (← getStr j "cls")
      let t ← tblOf? (← field j "rows")
      let idx ← getArr intOf? j "idx"
      .ok (okJson (obj [
        ("len", natToJson (lenT t)),
        ("first", optRatToJson (firstOffset recOff t)),
        ("last", match s.kind with
          | .timed => okJson (optRatToJson (lastOffset recOff t))
          | .hold => resJson ratToJson (hLastOffset recOff recLen t)),
        ("gets", listToJson (fun i => resJson recToJson (getItem s t i)) idx),
        ("iter", resJson (listToJson recToJson) (iterItems s t))]))
  | "c16.spec_step" => do
      let xs ← rowsOf? (← field j "prev")
      let o ← opOf? (← field j "o")
      match ← resRowsOf? (← field j "next") with
      | none => .ok (okJson (Json.bool false))
      | some r => .ok (okJson (Json.bool (specStepB recOff recLen o xs r)))
  | "c16.spec_obs" => do
      let s ← schemaOf (← getStr j "cls")
      let xs ← rowsOf? (← field j "rows")
      let n ← getNat j "len"
      let first ← getOptRat j "first"
      -- last: {"ok": q|null} | {"err": cls}
      let lastJ ← field j "last"
      let lastOk : Bool ← match lastJ.getObjVal? "err" with
        | .ok _ => .ok (s.kind == .hold && xs.isEmpty)          -- "no value" on an empty list may be an exception
        | .error _ => do
          let v ← optOf? ratOf? (fieldD lastJ "ok" Json.null)
          match s.kind with
          | .timed => .ok (specLastB recOff xs v)
          | .hold => .ok (specLastB (fun a => recOff a + recLen a) xs v)
      -- gets: [[i, {"ok": item} | {"err": cls}]]
      let gets ← getArr (pairOf? intOf? (fun g => match g.getObjVal? "ok" with
          | .ok v => do .ok (some (← recOf? v))
          | .error _ => .ok none)) j "gets"
      let getsOk := gets.all fun (i, it) =>
        match pyGet xs i, it with
        | .ok row, some item => itemCarries (row.map (·.1)) row item
        | .error _, none => true
        | _, _ => false
      -- iter: [item] in order
      let it ← getArr recOf? j "iter"
      let iterOk := it.length == xs.length &&
        (xs.zip it).all (fun p => itemCarries s.declaredNames p.1 p.2)
      .ok (okJson (obj [("len", Json.bool (n == xs.length)), ("first", Json.bool (specFirstB recOff xs first)),
                        ("last", Json.bool lastOk), ("gets", Json.bool getsOk), ("iter", Json.bool iterOk)]))
  | "c16.mkitem" => do
      let s ← schemaOf (← getStr j "cls")
      let kw ← recOf? (← field j "kw")
      .ok (resJson recToJson (mkItem s.params kw))
  | "c16.fields" => do
      let s ← schemaOf (← getStr j "cls")
      let how ← getStr j "how"
      match how with
      | "nil" => .ok (okJson (frameToJson (emptyFrame s)))
      | "empty" => .ok (okJson (frameToJson (emptyF s (← getNat j "n"))))
      | "items" => do
          let kws ← getArr recOf? j "items"
          match mapE (mkItem s.params) kws with
          | .error e => .ok (errJson e.toString)
          | .ok items => .ok (okJson (frameToJson (fromItemsF s items)))
      | "dict" => do
          let d ← getArr (pairOf? strOf? (arrOf? cellOf?)) j "dict"
          .ok (resJson frameToJson (fromDictF s d))
      | _ => .error s!"unknown construction {how}"
  | "c16.spec_fields" => do
      let s ← schemaOf (← getStr j "cls")
      let cols ← getArr strOf? j "cols"
      -- optional: the rows of the frame (no labels), judged by `noMissing` / `rowsHaveFields`
      let rs ← rowsOf? (fieldD j "rows" (Json.arr #[]))
      .ok (okJson (obj [("declared", Json.bool (hasDeclaredFields s cols)),
                        ("no_missing", Json.bool (noMissing rs)),
                        ("row_fields", Json.bool (rowsHaveFields s.declaredNames rs))]))
  | "c16.schema" => do
      let s ← schemaOf (← getStr j "cls")
      .ok (okJson (obj [("kind", Json.str (match s.kind with | .timed => "timed" | .hold => "hold")),
                        ("declared", listToJson Json.str s.declaredNames),
                        ("allowed", listToJson Json.str s.allowed),
                        ("params", listToJson Json.str s.paramNames)]))
  | _ => .error s!"unknown op {op}"

end Reamber.C16
