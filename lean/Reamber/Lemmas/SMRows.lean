/-
C02 — row positions: the reader's `int(beat*len/4)` slicing + `Fraction(i, len(beat_str))` puts row `r` of a
measure with `R = 4k` rows at beat `4r/R`; hence the reader's visits, seen through the symbol table, are the
specification's events.
-/
import Reamber.Lemmas.SMDefs
import Mathlib.Tactic.FieldSimp
import Mathlib.Tactic.Ring
import Mathlib.Algebra.Order.Field.Rat

namespace Reamber.SM

open Reamber.Timing

theorem zipIdx_map_offset {α β} (l : List α) (n : Nat) (G : α × Nat → β) :
    (l.zipIdx n).map G = (l.zipIdx 0).map (fun p => G (p.1, p.2 + n)) := by
  induction l generalizing n G with
  | nil => simp
  | cons a t ih =>
    simp only [List.zipIdx_cons, List.map_cons, Nat.zero_add]
    rw [ih (n + 1) G, ih 1 (fun p => G (p.1, p.2 + n))]
    congr 1
    apply List.map_congr_left
    intro p _
    congr 2
    omega

theorem beatSlice_mult4 (rows : List Str) (k b : Nat) (h : rows.length = 4 * k) :
    beatSlice rows b = (rows.take ((b + 1) * k)).drop (b * k) := by
  unfold beatSlice
  simp only [h]
  have h1 : (b + 1) * (4 * k) / 4 = (b + 1) * k := by
    rw [Nat.mul_left_comm, Nat.mul_div_cancel_left _ (by decide : 0 < 4)]
  have h2 : b * (4 * k) / 4 = b * k := by
    rw [Nat.mul_left_comm, Nat.mul_div_cancel_left _ (by decide : 0 < 4)]
  rw [h1, h2]

/-- a list of length `4k` is the concatenation of its four `k`-slices -/
theorem four_slices {α} (l : List α) (k : Nat) (h : l.length = 4 * k) :
    l = (l.take (1 * k)).drop (0 * k) ++ ((l.take (2 * k)).drop (1 * k) ++ ((l.take (3 * k)).drop (2 * k) ++
        (l.take (4 * k)).drop (3 * k))) := by
  have e : ∀ a b : Nat, a ≤ b → (l.take (b * k)).drop (a * k) = (l.drop (a * k)).take (b * k - a * k) := by
    intro a b _
    rw [List.drop_take]
  rw [e 0 1 (by omega), e 1 2 (by omega), e 2 3 (by omega), e 3 4 (by omega)]
  have t4 : (l.drop (3 * k)).take (4 * k - 3 * k) = l.drop (3 * k) := by
    apply List.take_of_length_le
    simp [h]
  rw [t4]
  have step : ∀ a : Nat, (l.drop (a * k)).take ((a + 1) * k - a * k) ++ l.drop ((a + 1) * k) = l.drop (a * k) := by
    intro a
    have : (a + 1) * k - a * k = k := by rw [Nat.add_mul]; omega
    rw [this]
    have : l.drop ((a + 1) * k) = (l.drop (a * k)).drop k := by
      rw [List.drop_drop]; congr 1; rw [Nat.add_mul]; omega
    rw [this, List.take_append_drop]
  have s2 := step 2
  have s1 := step 1
  have s0 := step 0
  simp only [Nat.zero_mul, List.drop_zero, Nat.zero_add] at s0 s1 s2 ⊢
  rw [s2, s1, s0]

theorem slice_length {α} (l : List α) (k b : Nat) (h : l.length = 4 * k) (hb : b < 4) :
    ((l.take ((b + 1) * k)).drop (b * k)).length = k := by
  simp only [List.length_drop, List.length_take, h]
  have : (b + 1) * k ≤ 4 * k := Nat.mul_le_mul_right k (by omega)
  rw [Nat.min_eq_left this, Nat.add_mul]
  omega

/-- **Row position.**  In a measure whose number of rows `R` is a multiple of 4, the reader visits the rows in
file order and gives row `r` the position `Snap(m, 4r/R, 4)` — every `R`, every row. -/
theorem row_position (m : Nat) (rows : List Str) (h4 : 4 ∣ rows.length) :
    rowSnaps m rows =
      rows.zipIdx.map fun (ri : Str × Nat) =>
        ((⟨(m : Int), 4 * (ri.2 : Rat) / (rows.length : Rat), some 4⟩ : Snap), ri.1) := by
  obtain ⟨k, hk⟩ := h4
  unfold rowSnaps
  have hr : List.range metronome = [0, 1, 2, 3] := by decide
  rw [hr]
  simp only [List.flatMap_cons, List.flatMap_nil, List.append_nil]
  rw [beatSlice_mult4 rows k 0 hk, beatSlice_mult4 rows k 1 hk, beatSlice_mult4 rows k 2 hk, beatSlice_mult4 rows k 3 hk]
  simp only [slice_length rows k 0 hk (by decide), slice_length rows k 1 hk (by decide),
    slice_length rows k 2 hk (by decide), slice_length rows k 3 hk (by decide)]
  rw [show ((rows.length : Nat) : Rat) = ((4 * k : Nat) : Rat) from by rw [hk]]
  conv => rhs; rw [four_slices rows k hk]
  simp only [List.zipIdx_append, List.map_append, Nat.zero_add]
  have hl : ∀ b, b < 4 → ((rows.take ((b + 1) * k)).drop (b * k)).length = k :=
    fun b hb => slice_length rows k b hk hb
  have key : ∀ (b : Nat) (s : List Str) (n : Nat), s.length = k → n = b * k →
      (s.zipIdx 0).map (fun (ri : Str × Nat) =>
        ((⟨(m : Int), (b : Rat) + (ri.2 : Rat) / (k : Rat), some (metronome : Rat)⟩ : Snap), ri.1)) =
      (s.zipIdx n).map (fun (ri : Str × Nat) =>
        ((⟨(m : Int), 4 * (ri.2 : Rat) / ((4 * k : Nat) : Rat), some 4⟩ : Snap), ri.1)) := by
    intro b s n hs hn
    rw [zipIdx_map_offset s n]
    apply List.map_congr_left
    intro p hp
    by_cases hk0 : k = 0
    · -- no rows at all: `s` is empty
      subst hk0
      have : s = [] := List.eq_nil_of_length_eq_zero hs
      subst this
      simp at hp
    · have hkq : (k : Rat) ≠ 0 := by exact_mod_cast hk0
      simp only [hn, metronome]
      congr 2
      · push_cast
        field_simp
        ring
  have h0 := key 0 ((rows.take (1 * k)).drop (0 * k)) 0 (hl 0 (by decide)) (by simp)
  have h1 := key 1 ((rows.take (2 * k)).drop (1 * k)) ((rows.take (1 * k)).drop (0 * k)).length (hl 1 (by decide))
    (by rw [hl 0 (by decide)]; simp)
  have h2 := key 2 ((rows.take (3 * k)).drop (2 * k))
    (((rows.take (1 * k)).drop (0 * k)).length + ((rows.take (2 * k)).drop (1 * k)).length) (hl 2 (by decide))
    (by rw [hl 0 (by decide), hl 1 (by decide)]; omega)
  have h3 := key 3 ((rows.take (4 * k)).drop (3 * k))
    (((rows.take (1 * k)).drop (0 * k)).length + ((rows.take (2 * k)).drop (1 * k)).length +
      ((rows.take (3 * k)).drop (2 * k)).length) (hl 3 (by decide))
    (by rw [hl 0 (by decide), hl 1 (by decide), hl 2 (by decide)]; omega)
  rw [h0, h1, h2, h3]

theorem filterMap_flatMap' {α β γ} (f : β → Option γ) (g : α → List β) (l : List α) :
    (l.flatMap g).filterMap f = l.flatMap (fun a => (g a).filterMap f) := by
  induction l with
  | nil => simp
  | cons a t ih => simp [List.flatMap_cons, List.filterMap_append, ih]

theorem flatMap_map' {α β γ} (f : α → β) (g : β → List γ) (l : List α) :
    (l.map f).flatMap g = l.flatMap (fun a => g (f a)) := by
  induction l with
  | nil => simp
  | cons a t ih => simp [List.flatMap_cons, ih]

theorem flatMap_congr' {α β} (f g : α → List β) (l : List α) (h : ∀ a ∈ l, f a = g a) :
    l.flatMap f = l.flatMap g := by
  induction l with
  | nil => simp
  | cons a t ih =>
    simp only [List.flatMap_cons]
    rw [h a (by simp), ih (fun x hx => h x (by simp [hx]))]

theorem mem_zipIdx_fst {α} {l : List α} {n : Nat} {p : α × Nat} (h : p ∈ l.zipIdx n) : p.1 ∈ l := by
  induction l generalizing n with
  | nil => simp at h
  | cons a t ih =>
    simp only [List.zipIdx_cons, List.mem_cons] at h
    rcases h with rfl | h
    · simp
    · exact List.mem_cons_of_mem _ (ih h)

/-- one row: the reader's visits of a row, seen through the symbol table, are the row's symbols at the row's beat -/
theorem row_events_spec (sn : Snap) (row : Str) :
    (rowEvents sn row).filterMap (fun e => (symOf e.ch).map fun s => (e.col, absBeat e.pos, s)) =
      (rowSyms row).map (fun cs => (cs.1, absBeat sn, cs.2)) := by
  unfold rowEvents rowSyms
  rw [List.filterMap_map, List.map_filterMap]
  apply List.filterMap_congr
  intro ci _
  cases h : symOf ci.1 <;> simp [h]

/-- **The reader's visits are the specification's events** (for measures with a multiple-of-4 number of rows):
the flattened nested loops of `_read_notes`, looked at through the StepMania symbol table, list exactly
`(column, 4m + 4r/R, symbol)` for every symbol of row `r` of measure `m` — the input of the pairing rule. -/
theorem reader_events_eq_spec (ms : List (List Str)) (h4 : ∀ rows ∈ ms, 4 ∣ rows.length) :
    specEventsOf (eventsOf ms) = events ms := by
  unfold specEventsOf eventsOf events
  rw [filterMap_flatMap']
  apply flatMap_congr'
  intro rm hrm
  have hd : 4 ∣ rm.1.length := h4 _ (mem_zipIdx_fst hrm)
  rw [row_position rm.2 rm.1 hd, flatMap_map', filterMap_flatMap']
  apply flatMap_congr'
  intro rr _
  rw [row_events_spec]
  simp [absBeat]

/-- the excluded case: with 6 rows the reader's positions are 0, 1, 3/2, 2, 3, 7/2 — not 4r/6 -/
theorem row_position_counterexample :
    (rowSnaps 0 [['1'], ['1'], ['1'], ['1'], ['1'], ['1']]).map (fun p => p.1.beat) = [0, 1, 3/2, 2, 3, 7/2] ∧
    (List.range 6).map (fun r => (4 * (r : Rat) / 6)) = [0, 2/3, 4/3, 2, 8/3, 10/3] := by
  decide +kernel

end Reamber.SM
