/-
C03 — the tolerance regime of a written row: `min(reduce(lcm_and_cap, dens), 384)` is the true LCM capped at 384, and
the row `int(num·den_max/den)` lies at most one row (4/den_max beat) before the object's beat.
-/
import Reamber.Lemmas.SMSlot
import Reamber.Spec.SMTies
import Mathlib.Tactic.Ring
import Mathlib.Tactic.Linarith
import Mathlib.Tactic.FieldSimp
import Mathlib.Algebra.Order.Field.Rat

namespace Reamber.SM

open Reamber.Timing

theorem capLcm_min (B y : Nat) (hB : 0 < B) (hy : 0 < y) :
    capLcm (min B maxSnap) y = min (Nat.lcm B y) maxSnap := by
  unfold capLcm
  by_cases h : B ≤ maxSnap
  · rw [Nat.min_eq_left h]
  · have hB' : maxSnap < B := Nat.lt_of_not_le h
    rw [Nat.min_eq_right (Nat.le_of_lt hB')]
    have h1 : maxSnap ≤ Nat.lcm maxSnap y :=
      Nat.le_of_dvd (Nat.lcm_pos (by decide) hy) (Nat.dvd_lcm_left _ _)
    have h2 : maxSnap ≤ Nat.lcm B y :=
      Nat.le_trans (Nat.le_of_lt hB') (Nat.le_of_dvd (Nat.lcm_pos hB hy) (Nat.dvd_lcm_left _ _))
    rw [Nat.min_eq_right h1, Nat.min_eq_right h2]

theorem foldl_capLcm_min (B : Nat) (t : List Nat) (hB : 0 < B) (ht : ∀ x ∈ t, 0 < x) :
    min (t.foldl capLcm (min B maxSnap)) maxSnap = min (t.foldl Nat.lcm B) maxSnap := by
  induction t generalizing B with
  | nil => simp
  | cons y t ih =>
    simp only [List.foldl_cons]
    rw [capLcm_min B y hB (ht y (by simp))]
    exact ih (Nat.lcm B y) (Nat.lcm_pos hB (ht y (by simp))) (fun x hx => ht x (List.mem_cons_of_mem _ hx))

/-- **the row count of a measure is the LCM of its denominators, capped at `MAX_SNAP`** -/
theorem denMax_eq_min_lcm (d : Nat) (t : List Nat) (hpos : ∀ x ∈ d :: t, 0 < x) :
    denMax (d :: t) = min (t.foldl Nat.lcm d) maxSnap := by
  have hd : 0 < d := hpos d (by simp)
  have ht : ∀ x ∈ t, 0 < x := fun x hx => hpos x (List.mem_cons_of_mem _ hx)
  unfold denMax
  cases t with
  | nil => rfl
  | cons y t =>
    simp only [List.foldl_cons]
    have hy : 0 < y := ht y (by simp)
    have e : capLcm d y = min (Nat.lcm d y) maxSnap := rfl
    rw [e]
    exact foldl_capLcm_min (Nat.lcm d y) t (Nat.lcm_pos hd hy) (fun x hx => ht x (List.mem_cons_of_mem _ hx))

theorem slotOf_den_pos (beat : Rat) (col : Nat) (ch : Char) : 0 < (slotOf beat col ch).den := by
  show 0 < beat.den * metronome
  exact Nat.mul_pos beat.den_pos (by decide)

/-- the slot is the beat: `beat = 4·measure + 4·num/den` -/
theorem slot_decomp (beat : Rat) (col : Nat) (ch : Char) :
    beat = 4 * ((slotOf beat col ch).measure : Rat) +
      4 * ((slotOf beat col ch).num : Rat) / ((slotOf beat col ch).den : Rat) := by
  have hden := slotOf_den_pos beat col ch
  have h := slot_beat_exact beat col ch (slotOf beat col ch).den hden (Nat.dvd_refl _)
  have hr : rowOf (slotOf beat col ch).num (slotOf beat col ch).den (slotOf beat col ch).den = (slotOf beat col ch).num := by
    unfold rowOf
    exact Nat.mul_div_cancel _ hden
  rw [hr] at h
  exact h.symm

/-- **one row**: in a measure of `dmax` rows the written row lies at or before the object's beat and less than one
row (4/dmax beat) before it -/
theorem written_beat_within_row (beat : Rat) (col : Nat) (ch : Char) (dmax : Nat) (hpos : 0 < dmax) :
    4 * ((slotOf beat col ch).measure : Rat) +
        4 * ((rowOf (slotOf beat col ch).num (slotOf beat col ch).den dmax : Nat) : Rat) / (dmax : Rat) ≤ beat ∧
    beat < 4 * ((slotOf beat col ch).measure : Rat) +
        4 * ((rowOf (slotOf beat col ch).num (slotOf beat col ch).den dmax : Nat) : Rat) / (dmax : Rat) + 4 / (dmax : Rat) := by
  have hden := slotOf_den_pos beat col ch
  have hdec := slot_decomp beat col ch
  generalize (slotOf beat col ch).measure = m at hdec ⊢
  generalize (slotOf beat col ch).num = num at hdec ⊢
  generalize (slotOf beat col ch).den = den at hdec hden ⊢
  have hD : (0 : Rat) < (dmax : Rat) := by exact_mod_cast hpos
  have hN : (0 : Rat) < (den : Rat) := by exact_mod_cast hden
  have h1 : rowOf num den dmax * den ≤ num * dmax := by unfold rowOf; exact Nat.div_mul_le_self _ _
  have h2 : num * dmax < (rowOf num den dmax + 1) * den := by
    unfold rowOf
    have := Nat.lt_div_mul_add (a := num * dmax) hden
    rw [Nat.add_mul, Nat.one_mul]
    exact this
  have h1R : ((rowOf num den dmax : Nat) : Rat) * (den : Rat) ≤ (num : Rat) * (dmax : Rat) := by exact_mod_cast h1
  have h2R : (num : Rat) * (dmax : Rat) < (((rowOf num den dmax : Nat) : Rat) + 1) * (den : Rat) := by exact_mod_cast h2
  have a1 : ((rowOf num den dmax : Nat) : Rat) / (dmax : Rat) ≤ (num : Rat) / (den : Rat) := by
    rw [div_le_div_iff₀ hD hN]; exact h1R
  have a2 : (num : Rat) / (den : Rat) < (((rowOf num den dmax : Nat) : Rat) + 1) / (dmax : Rat) := by
    rw [div_lt_div_iff₀ hN hD]; exact h2R
  have e1 : 4 * ((rowOf num den dmax : Nat) : Rat) / (dmax : Rat) = 4 * (((rowOf num den dmax : Nat) : Rat) / (dmax : Rat)) := by ring
  have e2 : 4 * (num : Rat) / (den : Rat) = 4 * ((num : Rat) / (den : Rat)) := by ring
  have e3 : (((rowOf num den dmax : Nat) : Rat) + 1) / (dmax : Rat) = ((rowOf num den dmax : Nat) : Rat) / (dmax : Rat) + 1 / (dmax : Rat) := by ring
  have e4 : (4 : Rat) / (dmax : Rat) = 4 * (1 / (dmax : Rat)) := by ring
  rw [hdec, e1, e2, e4]
  rw [e3] at a2
  constructor <;> linarith

/-! ### one tempo segment: time is beat length times beats -/

theorem activeAux_mem (cur : BcSnap) (rest : List BcSnap) (s : Snap) : activeAux cur rest s ∈ cur :: rest := by
  induction rest generalizing cur with
  | nil => simp [activeAux]
  | cons n r ih =>
    unfold activeAux
    split
    · exact List.mem_cons_of_mem _ (ih n)
    · simp

/-- two positions that have passed the same tempo changes lie in one segment: their times differ by their beat
distance times the beat length of the change in force -/
theorem timeAtAux_same_segment (T : Rat) (cur : BcSnap) (rest : List BcSnap) (s s' : Snap)
    (h : ∀ c ∈ rest, c.snap.le s = c.snap.le s') :
    timeAtAux T cur rest s' - timeAtAux T cur rest s =
      snapDist s s' (activeAux cur rest s).met * beatLen (activeAux cur rest s).bpm := by
  induction rest generalizing T cur with
  | nil =>
    simp only [timeAtAux, activeAux, snapDist]
    push_cast
    ring
  | cons n r ih =>
    have hn := h n (by simp)
    unfold timeAtAux activeAux
    by_cases hs : n.snap.le s = true
    · rw [if_pos hs, if_pos (hn ▸ hs), if_pos hs]
      exact ih _ n (fun c hc => h c (List.mem_cons_of_mem _ hc))
    · have hs' : ¬ n.snap.le s' = true := by rw [← hn]; exact hs
      rw [if_neg hs, if_neg hs', if_neg hs]
      simp only [snapDist]
      push_cast
      ring

theorem snapDist_snapOfBeat (w b : Rat) : snapDist (snapOfBeat w) (snapOfBeat b) 4 = b - w := by
  simp only [snapDist, snapOfBeat]
  push_cast
  ring

end Reamber.SM
