/- C01 — lexical lemmas (K3): split / join / count, first-colon split, `str(int)` ↔ `int(str)`, `strip`. -/
import Reamber.Model.OsuLex

namespace Reamber.Osu

/-! ### split / join -/

theorem splitOn_cons_eq (c : Char) (xs : Str) : splitOn c (c :: xs) = [] :: splitOn c xs := by
  rw [splitOn]; simp

theorem splitOn_cons_ne (c x : Char) (xs : Str) (h : x ≠ c) :
    splitOn c (x :: xs) = match splitOn c xs with | [] => [[x]] | p :: ps => (x :: p) :: ps := by
  rw [splitOn]; simp only [h, if_false]; cases splitOn c xs <;> rfl

theorem splitOn_ne_nil (c : Char) (s : Str) : splitOn c s ≠ [] := by
  cases s with
  | nil => simp [splitOn]
  | cons x xs =>
    by_cases hx : x = c
    · subst hx; rw [splitOn_cons_eq]; simp
    · rw [splitOn_cons_ne c x xs hx]; split <;> simp

theorem splitOn_noSep (c : Char) (p : Str) (h : c ∉ p) : splitOn c p = [p] := by
  induction p with
  | nil => rfl
  | cons x xs ih =>
    have hx : x ≠ c := fun e => h (by simp [e])
    have hxs : c ∉ xs := fun e => h (by simp [e])
    rw [splitOn_cons_ne c x xs hx, ih hxs]

theorem splitOn_append_sep (c : Char) (p rest : Str) (h : c ∉ p) :
    splitOn c (p ++ c :: rest) = p :: splitOn c rest := by
  induction p with
  | nil => exact splitOn_cons_eq c rest
  | cons x xs ih =>
    have hx : x ≠ c := fun e => h (by simp [e])
    have hxs : c ∉ xs := fun e => h (by simp [e])
    show splitOn c (x :: (xs ++ c :: rest)) = _
    rw [splitOn_cons_ne c x _ hx, ih hxs]

/-- `sep.join(ps).split(sep) == ps` when no piece contains the separator -/
theorem splitOn_joinWith (c : Char) (ps : List Str) (hne : ps ≠ []) (h : ∀ p ∈ ps, c ∉ p) :
    splitOn c (joinWith c ps) = ps := by
  induction ps with
  | nil => exact absurd rfl hne
  | cons p qs ih =>
    cases qs with
    | nil => simpa [joinWith] using splitOn_noSep c p (h p (by simp))
    | cons q rs =>
      show splitOn c (p ++ c :: joinWith c (q :: rs)) = _
      rw [splitOn_append_sep c p _ (h p (by simp)), ih (by simp) (fun p' hp' => h p' (by simp [hp']))]

/-- `sep.join(s.split(sep)) == s`, for every text -/
theorem joinWith_splitOn (c : Char) (s : Str) : joinWith c (splitOn c s) = s := by
  induction s with
  | nil => rfl
  | cons x xs ih =>
    by_cases hx : x = c
    · subst hx
      rw [splitOn_cons_eq]
      cases hs : splitOn x xs with
      | nil => exact absurd hs (splitOn_ne_nil x xs)
      | cons p ps => rw [hs] at ih; simp [joinWith, ih]
    · rw [splitOn_cons_ne c x xs hx]
      cases hs : splitOn c xs with
      | nil => exact absurd hs (splitOn_ne_nil c xs)
      | cons p ps =>
        rw [hs] at ih
        cases ps with
        | nil => simpa [joinWith] using ih
        | cons q rs => simp only [joinWith] at ih ⊢; rw [← ih]; rfl

/-- `s.count(sep) + 1 == len(s.split(sep))`, for every text -/
theorem count_add_one_eq_length_splitOn (c : Char) (s : Str) : countC c s + 1 = (splitOn c s).length := by
  induction s with
  | nil => rfl
  | cons x xs ih =>
    unfold countC at *
    by_cases hx : x = c
    · subst hx
      rw [splitOn_cons_eq]; simp [ih]
    · rw [splitOn_cons_ne c x xs hx]
      cases hs : splitOn c xs with
      | nil => exact absurd hs (splitOn_ne_nil c xs)
      | cons p ps =>
        rw [hs] at ih
        have : List.count c (x :: xs) = List.count c xs := by
          rw [List.count_cons]; simp [hx]
        rw [this, ih]; rfl

/-- the count of another character distributes over the pieces of a join -/
theorem count_joinWith_ne (c d : Char) (hcd : d ≠ c) (ps : List Str) :
    countC d (joinWith c ps) = (ps.map (countC d)).sum := by
  induction ps with
  | nil => rfl
  | cons p qs ih =>
    cases qs with
    | nil => simp [joinWith]
    | cons q rs =>
      show countC d (p ++ c :: joinWith c (q :: rs)) = _
      unfold countC at *
      rw [List.count_append, List.count_cons, ih]
      have : (c == d) = false := by simp; exact fun e => hcd e.symm
      simp [this]

/-! ### the first colon -/

/-- **`Key:Value` is split at the first colon only**: whatever the value contains (further colons included),
`(key + ":" + value).split(":", 1) == [key, value]` as long as the key itself has no colon -/
theorem split1_key_value (c : Char) (k v : Str) (hk : c ∉ k) : split1 c (k ++ c :: v) = (k, some v) := by
  induction k with
  | nil => simp [split1]
  | cons x xs ih =>
    have hx : x ≠ c := fun e => hk (by simp [e])
    have hxs : c ∉ xs := fun e => hk (by simp [e])
    show split1 c (x :: (xs ++ c :: v)) = _
    unfold split1
    rw [if_neg hx, ih hxs]

theorem split1_noSep (c : Char) (k : Str) (hk : c ∉ k) : split1 c k = (k, none) := by
  induction k with
  | nil => rfl
  | cons x xs ih =>
    have hx : x ≠ c := fun e => hk (by simp [e])
    have hxs : c ∉ xs := fun e => hk (by simp [e])
    unfold split1
    rw [if_neg hx, ih hxs]

/-! ### `str(int)` and `int(str)` -/

theorem natOfDigits_append (acc : Nat) (l : Str) (d : Char) :
    natOfDigits acc (l ++ [d]) = 10 * natOfDigits acc l + digVal d := by
  induction l generalizing acc with
  | nil => rfl
  | cons x xs ih => exact ih _

def DigitFacts (d : Nat) : Prop := digVal (digitChar d) = d ∧ isDig (digitChar d) = true ∧
    isWs (digitChar d) = false ∧ digitChar d ≠ '-' ∧ digitChar d ≠ '+' ∧ digitChar d ≠ ',' ∧
    digitChar d ≠ ':' ∧ digitChar d ≠ '.' ∧ digitChar d ≠ 'e' ∧ digitChar d ≠ 'E' ∧ digitChar d ≠ '\n'

instance (d : Nat) : Decidable (DigitFacts d) := by unfold DigitFacts; infer_instance

theorem digit_facts' (d : Nat) (h : d < 10) : DigitFacts d := by
  have : d = 0 ∨ d = 1 ∨ d = 2 ∨ d = 3 ∨ d = 4 ∨ d = 5 ∨ d = 6 ∨ d = 7 ∨ d = 8 ∨ d = 9 := by omega
  rcases this with rfl | rfl | rfl | rfl | rfl | rfl | rfl | rfl | rfl | rfl <;> decide +kernel

/-- a text made of decimal digits only -/
def AllDig (s : Str) : Prop := ∀ ch ∈ s, ∃ d, d < 10 ∧ ch = digitChar d

theorem showNatAux_spec (f n : Nat) (h : n < f) :
    natOfDigits 0 (showNatAux f n) = n ∧ showNatAux f n ≠ [] ∧ AllDig (showNatAux f n) := by
  induction f generalizing n with
  | zero => omega
  | succ f ih =>
    unfold showNatAux
    by_cases hn : n < 10
    · rw [if_pos hn]
      refine ⟨?_, by simp, ?_⟩
      · have hf : digVal (digitChar n) = n := (digit_facts' n hn).1
        show natOfDigits (10 * 0 + digVal (digitChar n)) [] = n
        show 10 * 0 + digVal (digitChar n) = n
        omega
      · intro ch hch; simp at hch; exact ⟨n, hn, hch⟩
    · rw [if_neg hn]
      obtain ⟨h1, h2, h3⟩ := ih (n / 10) (by omega)
      refine ⟨?_, by simp, ?_⟩
      · rw [natOfDigits_append, h1, (digit_facts' (n % 10) (by omega)).1]; omega
      · intro ch hch
        simp only [List.mem_append, List.mem_singleton] at hch
        rcases hch with hch | hch
        · exact h3 ch hch
        · exact ⟨n % 10, by omega, hch⟩

theorem showNat_spec (n : Nat) : natOfDigits 0 (showNat n) = n ∧ showNat n ≠ [] ∧ AllDig (showNat n) :=
  showNatAux_spec (n + 1) n (by omega)

theorem allDig_all_isDig {s : Str} (h : AllDig s) : s.all isDig = true := by
  rw [List.all_eq_true]
  intro ch hch
  obtain ⟨d, hd, rfl⟩ := h ch hch
  exact (digit_facts' d hd).2.1

theorem readNat?_showNat (n : Nat) : readNat? (showNat n) = some n := by
  obtain ⟨h1, h2, h3⟩ := showNat_spec n
  unfold readNat?
  rw [if_pos ⟨h2, allDig_all_isDig h3⟩, h1]

/-- no white space inside: `strip` is the identity -/
theorem strip_of_noWs (s : Str) (h : ∀ ch ∈ s, isWs ch = false) : strip s = s := by
  have hd : ∀ t : Str, (∀ ch ∈ t, isWs ch = false) → t.dropWhile isWs = t := by
    intro t ht
    cases t with
    | nil => rfl
    | cons a as => simp [List.dropWhile, ht a (by simp)]
  unfold strip lstrip rstrip
  rw [hd s h, hd s.reverse (fun ch hch => h ch (by simpa using hch))]
  simp

theorem allDig_noWs {s : Str} (h : AllDig s) : ∀ ch ∈ s, isWs ch = false := by
  intro ch hch
  obtain ⟨d, hd, rfl⟩ := h ch hch
  exact (digit_facts' d hd).2.2.1

theorem takeSign_allDig {s : Str} (h : AllDig s) : takeSign s = (false, s) := by
  cases s with
  | nil => rfl
  | cons a as =>
    obtain ⟨d, hd, rfl⟩ := h a (by simp)
    have f := digit_facts' d hd
    unfold takeSign
    split
    · next heq => injection heq with h1 _; exact absurd h1 f.2.2.2.1
    · next heq => injection heq with h1 _; exact absurd h1 f.2.2.2.2.1
    · rfl

theorem showInt_noWs (i : Int) : ∀ ch ∈ showInt i, isWs ch = false := by
  intro ch hch
  unfold showInt at hch
  split at hch
  · simp only [List.mem_cons] at hch
    rcases hch with rfl | hch
    · decide
    · exact allDig_noWs (showNat_spec _).2.2 ch hch
  · exact allDig_noWs (showNat_spec _).2.2 ch hch

/-! ### the preparation of a numeric literal (`numPrep`) on plain ASCII text -/

theorem isSep_isWs (c : Char) (h : isSep c = true) : isWs c = true := by
  unfold isSep at h
  unfold isWs
  simp only [Bool.and_eq_true, decide_eq_true_eq] at h
  simp only [Bool.or_eq_true, Bool.and_eq_true, decide_eq_true_eq]
  omega

/-- no white space, ASCII only, no underscore: the literal is parsed as it stands -/
def Plain (s : Str) : Prop := ∀ ch ∈ s, isWs ch = false ∧ ch.toNat < 128 ∧ ch ≠ '_'

theorem any_isSep_of_noWs (s : Str) (h : ∀ ch ∈ s, isWs ch = false) : s.any isSep = false := by
  rw [Bool.eq_false_iff]
  intro ha
  rw [List.any_eq_true] at ha
  obtain ⟨ch, hch, hs⟩ := ha
  have := isSep_isWs ch hs
  rw [h ch hch] at this; cases this

theorem deUs_of_noUs (b : Bool) (s : Str) (h : '_' ∉ s) : deUs b s = some s := by
  induction s generalizing b with
  | nil => rfl
  | cons c r ih =>
    have hc : c ≠ '_' := fun e => h (by simp [e])
    have hr : '_' ∉ r := fun e => h (by simp [e])
    unfold deUs
    rw [if_neg hc, ih _ hr]; rfl

theorem map_foldChar_ascii (s : Str) (h : ∀ ch ∈ s, ch.toNat < 128) : s.map foldChar = s := by
  induction s with
  | nil => rfl
  | cons c r ih =>
    have hc : foldChar c = c := by unfold foldChar; rw [if_pos (h c (by simp))]
    rw [List.map_cons, hc, ih (fun ch hch => h ch (by simp [hch]))]

theorem numPrep_plain (s : Str) (h : Plain s) : numPrep s = some s := by
  unfold numPrep
  rw [any_isSep_of_noWs s (fun ch hch => (h ch hch).1)]
  simp only [Bool.false_eq_true, if_false]
  rw [strip_of_noWs s (fun ch hch => (h ch hch).1), map_foldChar_ascii s (fun ch hch => (h ch hch).2.1)]
  exact deUs_of_noUs _ s (fun hm => (h _ hm).2.2 rfl)

theorem plain_digit (d : Nat) (h : d < 10) :
    isWs (digitChar d) = false ∧ (digitChar d).toNat < 128 ∧ digitChar d ≠ '_' := by
  have : d = 0 ∨ d = 1 ∨ d = 2 ∨ d = 3 ∨ d = 4 ∨ d = 5 ∨ d = 6 ∨ d = 7 ∨ d = 8 ∨ d = 9 := by omega
  rcases this with rfl | rfl | rfl | rfl | rfl | rfl | rfl | rfl | rfl | rfl <;> decide +kernel

theorem showInt_plain (i : Int) : Plain (showInt i) := by
  intro ch hch
  have key : ∀ s : Str, AllDig s → Plain s := by
    intro s hs ch hch
    obtain ⟨d, hd, rfl⟩ := hs ch hch
    exact plain_digit d hd
  unfold showInt at hch
  split at hch
  · simp only [List.mem_cons] at hch
    rcases hch with rfl | hch
    · decide +kernel
    · exact key _ (showNat_spec _).2.2 ch hch
  · exact key _ (showNat_spec _).2.2 ch hch

/-- the ASCII core of `int()` on a printed integer -/
theorem readIntA_showInt (i : Int) : readIntA (showInt i) = .ok i := by
  unfold readIntA
  unfold showInt
  by_cases hi : i < 0
  · rw [if_pos hi]
    show (match readNat? (showNat i.natAbs) with
      | some n => Except.ok (if true then -(n : Int) else (n : Int)) | none => Except.error Err.value) = _
    rw [readNat?_showNat]; simp; omega
  · rw [if_neg hi, takeSign_allDig (showNat_spec _).2.2]
    show (match readNat? (showNat i.natAbs) with
      | some n => Except.ok (if false then -(n : Int) else (n : Int)) | none => Except.error Err.value) = _
    rw [readNat?_showNat]; simp; omega

/-- **`int(str(i)) == i`** -/
theorem readInt_showInt (i : Int) : readInt (showInt i) = .ok i := by
  unfold readInt
  rw [numPrep_plain _ (showInt_plain i)]
  exact readIntA_showInt i

/-- the characters of a printed integer: digits and possibly a leading minus — no separator of the format -/
theorem showInt_chars (i : Int) : ∀ ch ∈ showInt i, ch ≠ ',' ∧ ch ≠ ':' ∧ ch ≠ '\n' := by
  intro ch hch
  have key : ∀ s : Str, AllDig s → ∀ ch ∈ s, ch ≠ ',' ∧ ch ≠ ':' ∧ ch ≠ '\n' := by
    intro s hs ch hch
    obtain ⟨d, hd, rfl⟩ := hs ch hch
    have f := digit_facts' d hd
    exact ⟨f.2.2.2.2.2.1, f.2.2.2.2.2.2.1, f.2.2.2.2.2.2.2.2.2.2⟩
  unfold showInt at hch
  split at hch
  · simp only [List.mem_cons] at hch
    rcases hch with rfl | hch
    · decide
    · exact key _ (showNat_spec _).2.2 ch hch
  · exact key _ (showNat_spec _).2.2 ch hch

end Reamber.Osu
