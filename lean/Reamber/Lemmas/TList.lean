/-
Helper lemmas for C16: labels travel with the rows and never decide anything.
-/
import Reamber.Spec.TList
import Mathlib.Algebra.Order.Field.Rat

namespace Reamber.TList

/-! ### relabel -/

theorem rows_relabelFrom {α} (k : Nat) (xs : List α) : rows (relabelFrom k xs) = xs := by
  induction xs generalizing k with
  | nil => rfl
  | cons a as ih =>
    have := ih (k + 1)
    simp only [rows] at this
    simp [relabelFrom, rows, this]

theorem rows_relabel {α} (xs : List α) : rows (relabel xs) = xs := rows_relabelFrom 0 xs

theorem length_relabelFrom {α} (k : Nat) (xs : List α) : (relabelFrom k xs).length = xs.length := by
  induction xs generalizing k with
  | nil => rfl
  | cons a as ih => simp [relabelFrom, ih]

/-! ### boolean masks built from the frame's own column -/

theorem zip_filterMap_own {α} (p : α → Bool) (t : Tbl α) :
    ((t.zip (t.map fun r => (r.1, p r.2))).filterMap fun q => if q.2.2 then some q.1 else none)
      = t.filter (fun r => p r.2) := by
  induction t with
  | nil => rfl
  | cons r t ih =>
    simp only [List.map_cons, List.zip_cons_cons, List.filterMap_cons, List.filter_cons]
    cases h : p r.2 <;> simp [ih]

/-- the mask's index is the frame's index, so `df[mask]` is the positional filter: labels are not consulted -/
theorem maskFilter_own {α} (p : α → Bool) (t : Tbl α) :
    maskFilter t (t.map fun r => (r.1, p r.2)) = .ok (t.filter fun r => p r.2) := by
  have hl : labels (t.map fun r => (r.1, p r.2)) = labels t := by
    simp [labels, List.map_map, Function.comp_def]
  simp [maskFilter, hl, zip_filterMap_own]

theorem cmpMask_col {α} (f : α → Rat) (gt incl : Bool) (x : Rat) (t : Tbl α) :
    cmpMask gt incl x (col f t) = t.map fun r => (r.1, keep gt incl x (f r.2)) := by
  simp [cmpMask, col, keep, List.map_map, Function.comp_def]

theorem rows_filter {α} (p : α → Bool) (t : Tbl α) : rows (t.filter fun r => p r.2) = (rows t).filter p := by
  simp [rows, List.filter_map, Function.comp_def]

theorem maskOn_eq {α} (f : α → Rat) (gt incl : Bool) (x : Rat) (t : Tbl α) :
    maskFilter t (cmpMask gt incl x (col f t)) = .ok (t.filter fun r => keep gt incl x (f r.2)) := by
  rw [cmpMask_col]; exact maskFilter_own (fun a => keep gt incl x (f a)) t

/-- a filter of the code (mask on a key of the frame's own rows), seen on the plain rows -/
theorem maskOn_rows {α} (f : α → Rat) (gt incl : Bool) (x : Rat) (t : Tbl α) :
    (maskFilter t (cmpMask gt incl x (col f t))).map rows = .ok ((rows t).filter fun a => keep gt incl x (f a)) := by
  rw [maskOn_eq]
  exact congrArg Except.ok (rows_filter (fun a => keep gt incl x (f a)) t)

/-- two filters in a row (`between`), seen on the plain rows: one filter with the conjunction -/
theorem twoStage_rows {α} (f g : α → Rat) (gt1 incl1 : Bool) (x1 : Rat) (gt2 incl2 : Bool) (x2 : Rat) (t : Tbl α) :
    (match maskFilter t (cmpMask gt1 incl1 x1 (col f t)) with
      | .error e => (.error e : Except Err (Tbl α))
      | .ok t' => maskFilter t' (cmpMask gt2 incl2 x2 (col g t'))).map rows
      = .ok ((rows t).filter fun a => keep gt1 incl1 x1 (f a) && keep gt2 incl2 x2 (g a)) := by
  rw [maskOn_eq]
  simp only []
  rw [maskOn_rows, rows_filter (fun a => keep gt1 incl1 x1 (f a)) t, List.filter_filter]
  congr 2
  funext a
  exact Bool.and_comm _ _

theorem keep_gt_iff (incl : Bool) (x v : Rat) : keep true incl x v = true ↔ x < v ∨ (incl = true ∧ v = x) := by
  cases incl
  · have : keep true false x v = decide (x < v) := rfl
    rw [this, decide_eq_true_eq]; simp
  · have : keep true true x v = decide (x ≤ v) := rfl
    rw [this, decide_eq_true_eq, le_iff_lt_or_eq]
    constructor
    · rintro (h | h)
      · exact Or.inl h
      · exact Or.inr ⟨rfl, h.symm⟩
    · rintro (h | ⟨_, h⟩)
      · exact Or.inl h
      · exact Or.inr h.symm

theorem keep_lt_iff (incl : Bool) (x v : Rat) : keep false incl x v = true ↔ v < x ∨ (incl = true ∧ v = x) := by
  cases incl
  · have : keep false false x v = decide (v < x) := rfl
    rw [this, decide_eq_true_eq]; simp
  · have : keep false true x v = decide (v ≤ x) := rfl
    rw [this, decide_eq_true_eq, le_iff_lt_or_eq]
    constructor
    · rintro (h | h)
      · exact Or.inl h
      · exact Or.inr ⟨rfl, h⟩
    · rintro (h | ⟨_, h⟩)
      · exact Or.inl h
      · exact Or.inr h

/-! ### insertion sort -/

theorem insertBy_perm {α} (le : α → α → Bool) (x : α) (l : List α) : (insertBy le x l).Perm (x :: l) := by
  induction l with
  | nil => simp [insertBy]
  | cons y ys ih =>
    simp only [insertBy]
    split
    · exact List.Perm.refl _
    · exact (List.Perm.cons y ih).trans (List.Perm.swap x y ys)

theorem isort_cons {α} (le : α → α → Bool) (x : α) (l : List α) : isort le (x :: l) = insertBy le x (isort le l) := rfl

theorem isort_perm {α} (le : α → α → Bool) (l : List α) : (isort le l).Perm l := by
  induction l with
  | nil => exact List.Perm.refl _
  | cons x xs ih => rw [isort_cons]; exact (insertBy_perm le x _).trans (ih.cons x)

theorem insertBy_pairwise {α} {le : α → α → Bool} (tot : ∀ a b, le a b = true ∨ le b a = true)
    (tr : ∀ a b c, le a b = true → le b c = true → le a c = true) (x : α) (l : List α)
    (h : l.Pairwise (fun a b => le a b = true)) : (insertBy le x l).Pairwise (fun a b => le a b = true) := by
  induction l with
  | nil => simp [insertBy]
  | cons y ys ih =>
    rw [List.pairwise_cons] at h
    simp only [insertBy]
    split
    · rename_i hxy
      rw [List.pairwise_cons]
      refine ⟨?_, List.pairwise_cons.mpr h⟩
      intro z hz
      rcases List.mem_cons.mp hz with rfl | hz
      · exact hxy
      · exact tr _ _ _ hxy (h.1 z hz)
    · rename_i hxy
      rw [List.pairwise_cons]
      refine ⟨?_, ih h.2⟩
      intro z hz
      have : z ∈ x :: ys := (insertBy_perm le x ys).mem_iff.mp hz
      rcases List.mem_cons.mp this with rfl | hz
      · rcases tot z y with h1 | h1
        · exact absurd h1 hxy
        · exact h1
      · exact h.1 z hz

theorem isort_pairwise {α} {le : α → α → Bool} (tot : ∀ a b, le a b = true ∨ le b a = true)
    (tr : ∀ a b c, le a b = true → le b c = true → le a c = true) (l : List α) :
    (isort le l).Pairwise (fun a b => le a b = true) := by
  induction l with
  | nil => exact List.Pairwise.nil
  | cons x xs ih => rw [isort_cons]; exact insertBy_pairwise tot tr x _ ih

theorem map_insertBy {α β} (f : α → β) (le : β → β → Bool) (x : α) (l : List α) :
    (insertBy (fun a b => le (f a) (f b)) x l).map f = insertBy le (f x) (l.map f) := by
  induction l with
  | nil => rfl
  | cons y ys ih =>
    simp only [insertBy, List.map_cons]
    split <;> simp [ih]

/-- sorting the labelled rows and dropping the labels = sorting the plain rows -/
theorem map_isort {α β} (f : α → β) (le : β → β → Bool) (l : List α) :
    (isort (fun a b => le (f a) (f b)) l).map f = isort le (l.map f) := by
  induction l with
  | nil => rfl
  | cons x xs ih => rw [isort_cons, map_insertBy, ih]; rfl

section order
variable {α : Type} (off : α → Rat)

theorem leBy_total (rev : Bool) (a b : α) : leBy off rev a b = true ∨ leBy off rev b a = true := by
  cases rev <;> simp [leBy] <;> exact le_total _ _

theorem leBy_trans (rev : Bool) (a b c : α) : leBy off rev a b = true → leBy off rev b c = true → leBy off rev a c = true := by
  cases rev <;> simp [leBy] <;> intro h1 h2
  · exact le_trans h1 h2
  · exact le_trans h2 h1

theorem isort_ordered (rev : Bool) (xs : List α) : OrderedBy off rev (isort (leBy off rev) xs) := by
  have := isort_pairwise (leBy_total off rev) (leBy_trans off rev) xs
  unfold OrderedBy
  refine this.imp ?_
  intro a b h
  cases rev <;> simpa [leBy] using h

theorem rows_sortedT (t : Tbl α) (rev : Bool) : rows (sortedT off t rev) = isort (leBy off rev) (rows t) := by
  unfold sortedT rows
  exact map_isort Prod.snd (leBy off rev) t

end order

/-! ### positional access commutes with dropping the labels -/

theorem gatherOpt_map {β γ} (f : β → γ) (xs : List β) (is : List Nat) :
    gatherOpt (xs.map f) is = (gatherOpt xs is).map f := by
  simp [gatherOpt, List.map_filterMap, List.getElem?_map]

theorem pySlice_map {β γ} (f : β → γ) (xs : List β) (a b c : Option Int) :
    pySlice (xs.map f) a b c = (pySlice xs a b c).map (List.map f) := by
  unfold pySlice
  rw [List.length_map]
  cases sliceIdx xs.length a b c with
  | error e => rfl
  | ok is => simp [gatherOpt_map, Except.map]

theorem pyGet_map {β γ} (f : β → γ) (xs : List β) (i : Int) : pyGet (xs.map f) i = (pyGet xs i).map f := by
  unfold pyGet
  rw [List.length_map]
  cases pyIndex xs.length i with
  | error e => rfl
  | ok k =>
    simp only [List.getElem?_map]
    cases xs[k]? <;> rfl

/-! ### min / max as Python's builtins compute them -/

theorem minL_spec (m : Rat) (xs : List Rat) : minL m xs ∈ m :: xs ∧ ∀ v ∈ m :: xs, minL m xs ≤ v := by
  induction xs generalizing m with
  | nil => simp [minL]
  | cons x xs ih =>
    simp only [minL]
    obtain ⟨hm, hle⟩ := ih (if x < m then x else m)
    have hm' : (if x < m then x else m) ≤ m ∧ (if x < m then x else m) ≤ x := by
      by_cases h : x < m
      · simp [h, le_of_lt h]
      · simp [h, not_lt.mp h]
    constructor
    · rcases List.mem_cons.mp hm with h | h
      · rw [h]; by_cases hx : x < m <;> simp [hx]
      · simp [h]
    · intro v hv
      have h0 := hle _ (List.mem_cons_self)
      rcases List.mem_cons.mp hv with rfl | hv
      · exact le_trans h0 hm'.1
      · rcases List.mem_cons.mp hv with rfl | hv
        · exact le_trans h0 hm'.2
        · exact hle v (List.mem_cons_of_mem _ hv)

theorem maxL_spec (m : Rat) (xs : List Rat) : maxL m xs ∈ m :: xs ∧ ∀ v ∈ m :: xs, v ≤ maxL m xs := by
  induction xs generalizing m with
  | nil => simp [maxL]
  | cons x xs ih =>
    simp only [maxL]
    obtain ⟨hm, hle⟩ := ih (if m < x then x else m)
    have hm' : m ≤ (if m < x then x else m) ∧ x ≤ (if m < x then x else m) := by
      by_cases h : m < x
      · simp [h, le_of_lt h]
      · simp [h, not_lt.mp h]
    constructor
    · rcases List.mem_cons.mp hm with h | h
      · rw [h]; by_cases hx : m < x <;> simp [hx]
      · simp [h]
    · intro v hv
      have h0 := hle _ (List.mem_cons_self)
      rcases List.mem_cons.mp hv with rfl | hv
      · exact le_trans hm'.1 h0
      · rcases List.mem_cons.mp hv with rfl | hv
        · exact le_trans hm'.2 h0
        · exact hle v (List.mem_cons_of_mem _ hv)

end Reamber.TList
