/-
C05 — reading a rendered data line back with the lexer the denotation uses: `classify` on
`#mmmcc:<2·den base-36 characters>` recovers measure text, channel and data; `parseNat` of the three-digit
measure text is the measure; `evenPairs` of the flattened slots gives the slots back.
-/
import Reamber.Spec.BMS

namespace Reamber.BMS

open Reamber.Timing

theorem isB36_ne {c : Char} (h : isB36 c = true) : c ≠ ' ' ∧ c ≠ ':' ∧ isWs c = false := by
  refine ⟨?_, ?_, ?_⟩
  · intro e; subst e; exact absurd h (by decide)
  · intro e; subst e; exact absurd h (by decide)
  · cases hw : isWs c with
    | false => rfl
    | true =>
      exfalso
      simp only [isWs, Bool.or_eq_true, decide_eq_true_eq] at hw
      rcases hw with ((((e | e) | e) | e) | e) | e
      · subst e; exact absurd h (by decide)
      · subst e; exact absurd h (by decide)
      · subst e; exact absurd h (by decide)
      · subst e; exact absurd h (by decide)
      · have : c = Char.ofNat 11 := by rw [← e]; exact (Char.ofNat_toNat c).symm
        subst this; exact absurd h (by decide)
      · have : c = Char.ofNat 12 := by rw [← e]; exact (Char.ofNat_toNat c).symm
        subst this; exact absurd h (by decide)

theorem isDigit_isB36 {c : Char} (h : isDigit c = true) : isB36 c = true := by simp [isB36, h]

theorem lstrip_of_head {c : Char} {s : Bytes} (h : isWs c = false) : lstrip (c :: s) = c :: s := by
  simp [lstrip, h]

theorem splitSpace1_none : ∀ (s : Bytes), (∀ c ∈ s, c ≠ ' ') → splitSpace1 s = (s, none)
  | [], _ => rfl
  | c :: t, h => by
    have hc : ¬ c = ' ' := h c (by simp)
    simp only [splitSpace1, hc, if_false]
    rw [splitSpace1_none t (fun x hx => h x (by simp [hx]))]

theorem splitOnC_none (sep : Char) : ∀ (s : Bytes), (∀ c ∈ s, c ≠ sep) → splitOnC sep s = [s]
  | [], _ => rfl
  | c :: t, h => by
    have hc : ¬ c = sep := h c (by simp)
    simp only [splitOnC, hc, if_false]
    rw [splitOnC_none sep t (fun x hx => h x (by simp [hx]))]

theorem splitOnC_one (sep : Char) : ∀ (p q : Bytes), (∀ c ∈ p, c ≠ sep) → (∀ c ∈ q, c ≠ sep) →
    splitOnC sep (p ++ sep :: q) = [p, q]
  | [], q, _, hq => by
    simp only [List.nil_append, splitOnC, if_true]
    rw [splitOnC_none sep q hq]
  | c :: t, q, hp, hq => by
    have hc : ¬ c = sep := hp c (by simp)
    simp only [List.cons_append, splitOnC, hc, if_false]
    rw [splitOnC_one sep t q (fun x hx => hp x (by simp [hx])) hq]

theorem evenPairs_flatten : ∀ (l : List Bytes), (∀ x ∈ l, x.length = 2) → evenPairs l.flatten = some l
  | [], _ => rfl
  | x :: t, h => by
    have hx := h x (by simp)
    match x, hx with
    | [a, b], _ =>
      simp only [List.flatten_cons, List.cons_append, List.nil_append, evenPairs]
      rw [evenPairs_flatten t (fun y hy => h y (by simp [hy]))]
      rfl

/-- `classify` on a rendered data line -/
theorem classify_rendered (m1 m2 m3 a b : Char) (data : Bytes)
    (h1 : isDigit m1 = true) (h2 : isDigit m2 = true) (h3 : isDigit m3 = true) (ha : isB36 a = true) (hb : isB36 b = true)
    (hd : ∀ c ∈ data, isB36 c = true) (hne : data ≠ []) :
    classify ('#' :: m1 :: m2 :: m3 :: a :: b :: ':' :: data) = .ok (.note [m1, m2, m3] [a, b] data) := by
  have hm1 := isB36_ne (isDigit_isB36 h1)
  have hm2 := isB36_ne (isDigit_isB36 h2)
  have hm3 := isB36_ne (isDigit_isB36 h3)
  have hna := isB36_ne ha
  have hnb := isB36_ne hb
  -- strip changes nothing: the line starts with '#' and ends with a base-36 character
  have hstrip : strip ('#' :: m1 :: m2 :: m3 :: a :: b :: ':' :: data) = '#' :: m1 :: m2 :: m3 :: a :: b :: ':' :: data := by
    unfold strip
    have hl1 : lstrip ('#' :: m1 :: m2 :: m3 :: a :: b :: ':' :: data) = '#' :: m1 :: m2 :: m3 :: a :: b :: ':' :: data :=
      lstrip_of_head (by decide)
    rw [hl1]
    obtain ⟨init, last, hdl⟩ : ∃ init last, data = init ++ [last] := by
      refine ⟨data.dropLast, data.getLast hne, ?_⟩
      exact (List.dropLast_concat_getLast hne).symm
    have hlast : isB36 last = true := hd last (by rw [hdl]; simp)
    have hrev : ('#' :: m1 :: m2 :: m3 :: a :: b :: ':' :: data).reverse =
        last :: ('#' :: m1 :: m2 :: m3 :: a :: b :: ':' :: init).reverse := by
      rw [hdl]
      simp
    rw [hrev, lstrip_of_head (isB36_ne hlast).2.2, ← hrev, List.reverse_reverse]
  have hnospace : ∀ c ∈ '#' :: m1 :: m2 :: m3 :: a :: b :: ':' :: data, c ≠ ' ' := by
    intro c hc
    simp only [List.mem_cons] at hc
    rcases hc with rfl | rfl | rfl | rfl | rfl | rfl | rfl | hc
    · decide
    · exact hm1.1
    · exact hm2.1
    · exact hm3.1
    · exact hna.1
    · exact hnb.1
    · decide
    · exact (isB36_ne (hd c hc)).1
  have hsplit : splitOnC ':' ('#' :: m1 :: m2 :: m3 :: a :: b :: ':' :: data) = [['#', m1, m2, m3, a, b], data] := by
    have := splitOnC_one ':' ['#', m1, m2, m3, a, b] data (by
      intro c hc
      simp only [List.mem_cons, List.not_mem_nil, or_false] at hc
      rcases hc with rfl | rfl | rfl | rfl | rfl | rfl
      · decide
      · exact hm1.2.1
      · exact hm2.2.1
      · exact hm3.2.1
      · exact hna.2.1
      · exact hnb.2.1) (fun c hc => (isB36_ne (hd c hc)).2.1)
    simpa using this
  unfold classify
  rw [hstrip]
  simp only [splitSpace1_none _ hnospace, h1, if_true, hsplit]
  rfl

end Reamber.BMS
