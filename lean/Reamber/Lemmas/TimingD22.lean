/-
K1 — finding D22 on the model, structurally (no evaluation of the 2808-element grid): every value of `grid N` has
denominator ≤ N, so a tempo change whose beat distance from the previous change has a larger denominator is NOT
re-derived at its own position by `bpm_changes_offset_to_snap` — for any valid grid, in particular for N = 96.
-/
import Reamber.Lemmas.TimingRoundTrip
import Mathlib.Data.Rat.Lemmas

namespace Reamber.Timing

theorem gridPairs_den_le {N : Nat} {z : Rat} (h : z ∈ gridPairs N) : z.den ≤ N := by
  unfold gridPairs at h
  simp only [List.mem_flatMap, List.mem_range, List.mem_filterMap] at h
  obtain ⟨i, hi, n, _, hz⟩ := h
  split at hz
  · cases hz
  · cases hz
    have hdvd : ((((n : Nat) : Rat) / ((i + 1 : Nat) : Rat)).den : Int) ∣ ((i + 1 : Nat) : Int) := by
      rw [Rat.natCast_div_eq_divInt]; exact Rat.den_dvd _ _
    have : (((n : Nat) : Rat) / ((i + 1 : Nat) : Rat)).den ∣ (i + 1) := by exact_mod_cast hdvd
    have := Nat.le_of_dvd (Nat.succ_pos i) this
    omega

/-- every value of `grid N` (N ≥ 1) has denominator at most `N` -/
theorem grid_den_le {N : Nat} (hN : 0 < N) {z : Rat} (h : z ∈ grid N) : z.den ≤ N := by
  unfold grid at h
  rcases List.mem_append.mp h with h | h
  · exact gridPairs_den_le (mem_isort.mp h)
  · simp only [List.mem_singleton] at h
    rw [h]; exact hN

/-- **D22, general form**: if the beat distance of a change from its predecessor is not on the grid, the position
`bpm_changes_offset_to_snap` re-derives for it (from the stored milliseconds) is not its own position. -/
theorem rederive_moves_off_grid {g : Array Rat} (hg : GridOK g) (T : Rat) (cur n : BcSnap) (wc : WfChange cur)
    (wn : WfChange n) (hle : cur.snap.le n.snap = true)
    (hoff : frac (snapDist cur.snap n.snap cur.met) ∉ g.toList) (S : Snap)
    (hS : snapFromOffset g (T + snapDist cur.snap n.snap cur.met * beatLen cur.bpm) ⟨cur.bpm, cur.met, T⟩ cur = .ok S) :
    ¬ (S.measure = n.snap.measure ∧ S.beat = n.snap.beat) := by
  intro heq
  have hD := snapDist_nonneg wc wn hle
  obtain ⟨S', hS', _, _, _, _, htot⟩ := snapFromOffset_total hg T (snapDist cur.snap n.snap cur.met) cur wc hD
  rw [hS] at hS'
  have hSS : S = S' := Except.ok.inj hS'
  subst hSS
  rw [heq.1, heq.2] at htot
  have hsd : snappedDist g cur.met (snapDist cur.snap n.snap cur.met) = snapDist cur.snap n.snap cur.met := by
    have : (n.snap.measure : Rat) * cur.met + n.snap.beat
        = (cur.snap.measure : Rat) * cur.met + cur.snap.beat + snapDist cur.snap n.snap cur.met := by
      unfold snapDist; push_cast; ring
    linarith
  -- so the snapper left the remainder alone, hence the remainder - and the distance - is on the grid
  obtain ⟨kM, hkM⟩ := wc.met_int
  generalize snapDist cur.snap n.snap cur.met = D at hsd hoff
  unfold snappedDist at hsd
  have hfix : snapOn g (D - (((D / cur.met).floor : Int) : Rat) * cur.met)
      = D - (((D / cur.met).floor : Int) : Rat) * cur.met := by linarith
  have hmem := (snapOn_eq_self_iff hg _).mp hfix
  have hfr : frac (D - (((D / cur.met).floor : Int) : Rat) * cur.met) = frac D := by
    have : (((D / cur.met).floor : Int) : Rat) * cur.met = (((D / cur.met).floor * kM : Int) : Rat) := by
      rw [hkM]; push_cast; ring
    rw [this, frac_sub_int]
  rw [hfr] at hmem
  exact hoff hmem

/-- **D22 for the code's grid (N = 96)**: the witness of the known finding — a change at measure 1, beat 1/7 after
a change at measure 0, beat 1/16 (distance 4 + 9/112, denominator 112 > 96) — is moved by the re-derivation. -/
theorem grid_incompatible_moves_change_96 (T : Rat) (S : Snap) :
    let cur : BcSnap := ⟨60, 4, ⟨0, 1/16, some 4⟩⟩
    let n : BcSnap := ⟨240, 4, ⟨1, 1/7, some 4⟩⟩
    snapFromOffset defaultGrid (T + snapDist cur.snap n.snap cur.met * beatLen cur.bpm) ⟨cur.bpm, cur.met, T⟩ cur = .ok S →
    ¬ (S.measure = n.snap.measure ∧ S.beat = n.snap.beat) := by
  intro cur n hS
  have hoff : frac (snapDist cur.snap n.snap cur.met) ∉ defaultGrid.toList := by
    intro hmem
    have h1 : (frac (snapDist cur.snap n.snap cur.met)).den ≤ defaultMaxDiv :=
      grid_den_le (by decide) (by simpa [defaultGrid] using hmem)
    have h2 : (frac (snapDist cur.snap n.snap cur.met)).den = 112 := by decide +kernel
    rw [h2] at h1
    exact absurd h1 (by decide)
  exact rederive_moves_off_grid (gridOK_grid (by decide)) T cur n (wfChange_iff cur (by decide +kernel))
    (wfChange_iff n (by decide +kernel)) (by decide +kernel) hoff S hS

/-- **What the Snapper allows**: the values of `grid N` are exactly the rationals in [0, 1] with denominator ≤ N
(all of Farey(N), not only the listed divisions). -/
theorem mem_grid_iff {N : Nat} (hN : 0 < N) (y : Rat) : y ∈ grid N ↔ 0 ≤ y ∧ y ≤ 1 ∧ y.den ≤ N := by
  constructor
  · intro h
    exact ⟨(grid_bounds h).1, (grid_bounds h).2, grid_den_le hN h⟩
  · intro ⟨h0, h1, hd⟩
    rcases eq_or_lt_of_le h1 with rfl | hlt
    · exact one_mem_grid N
    · unfold grid
      refine List.mem_append_left _ (mem_isort.mpr ?_)
      have hnum0 : 0 ≤ y.num := Rat.num_nonneg.mpr h0
      obtain ⟨n, hn⟩ := Int.eq_ofNat_of_zero_le hnum0
      have hdpos : 0 < y.den := y.den_pos
      have hyq : y = (n : Rat) / (y.den : Rat) := by
        have := Rat.num_div_den y
        rw [hn] at this
        exact this.symm.trans (by rw [Int.cast_natCast])
      have hnd : n < y.den := by
        have hdq : (0 : Rat) < (y.den : Rat) := by exact_mod_cast hdpos
        have : (n : Rat) / (y.den : Rat) < 1 := by rw [← hyq]; exact hlt
        rw [div_lt_one hdq] at this
        exact_mod_cast this
      have hcop : Nat.gcd n y.den = 1 := by
        have := y.reduced
        rw [hn] at this
        simpa [Nat.Coprime] using this
      unfold gridPairs
      simp only [List.mem_flatMap, List.mem_range, List.mem_filterMap]
      refine ⟨y.den - 1, by omega, n, by omega, ?_⟩
      have hd1 : y.den - 1 + 1 = y.den := by omega
      rw [hd1]
      have hcond : ¬ ((n = 0 ∧ y.den ≠ 1) ∨ Nat.gcd n y.den ≠ 1) := by
        intro h; rcases h with ⟨hn0, hd1'⟩ | h
        · rw [hn0] at hcop; simp at hcop; exact hd1' hcop
        · exact h hcop
      rw [if_neg hcond]
      exact congrArg some hyq.symm

end Reamber.Timing
