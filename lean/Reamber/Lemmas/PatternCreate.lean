/-
C20 — the option expansions of `PtnFilterCombo.create`, `PtnFilterChord.create`, `PtnFilterType.create`
produce exactly the declared row sets (`comboSpecMem`, `chordSpecMem`, `typeSpecMem`).
-/
import Reamber.Lemmas.PatternCombo

namespace Reamber.Pattern

theorem mem_append_map_invol {α} (f : α → α) (hf : ∀ x, f (f x) = x) (l : List α) (r : α) :
    r ∈ l ++ l.map f ↔ r ∈ l ∨ f r ∈ l := by
  simp only [List.mem_append, List.mem_map]
  constructor
  · rintro (h | ⟨s, hs, rfl⟩)
    · exact Or.inl h
    · right; rw [hf]; exact hs
  · rintro (h | h)
    · exact Or.inl h
    · exact Or.inr ⟨f r, h, hf r⟩

/-- one mirror stage: `if b then l ++ map f l else l` for an involution `f` -/
theorem mem_stage {α} (f : α → α) (hf : ∀ x, f (f x) = x) (b : Bool) (l : List α) (m : α → Bool)
    (hm : ∀ r, r ∈ l ↔ m r = true) (r : α) :
    r ∈ (if b = true then l ++ l.map f else l) ↔ (m r || (b && m (f r))) = true := by
  cases b
  · simp [hm]
  · simp only [if_true, Bool.true_and, Bool.or_eq_true, ← hm]
    exact mem_append_map_invol f hf l r

theorem hmirror_invol (keys : Int) (r : List Int) : hmirror keys (hmirror keys r) = r := by
  simp only [hmirror, List.map_map]
  conv => rhs; rw [← List.map_id r]
  apply List.map_congr_left
  intro x _
  simp only [Function.comp, id]
  omega

/-- `PtnFilterCombo.create`: REPEAT = all in-range translations; HMIRROR / VMIRROR add the mirrored rows -/
theorem mem_comboCreateAr (combos : List (List Int)) (keys : Int) (opts : Nat) (row : List Int)
    (hc : ∀ c ∈ combos, c ≠ []) :
    row ∈ comboCreateAr combos keys opts ↔ comboSpecMem combos keys opts row = true := by
  unfold comboCreateAr comboSpecMem
  simp only [List.mem_eraseDups]
  -- stage 0
  have h0 : ∀ r, r ∈ (if (opts &&& optRepeat == optRepeat) = true then combos.flatMap (repeatExpand keys) else combos) ↔
      (if (opts &&& optRepeat == optRepeat) = true then combos.any (fun c => isTranslate keys c r) else combos.contains r) = true := by
    intro r
    split
    · simp only [List.mem_flatMap, List.any_eq_true]
      constructor
      · rintro ⟨c, hcm, hr⟩; exact ⟨c, hcm, (mem_repeatExpand keys c r (hc c hcm)).mp hr⟩
      · rintro ⟨c, hcm, hr⟩; exact ⟨c, hcm, (mem_repeatExpand keys c r (hc c hcm)).mpr hr⟩
    · simp
  have h1 := mem_stage (hmirror keys) (hmirror_invol keys) (hasBit opts optHMirror) _ _ h0
  have h2 := mem_stage List.reverse List.reverse_reverse (hasBit opts optVMirror) _ _ h1
  exact h2 row

theorem oneEach_above (lo : List Int) (keys : Int) (r : List Int) :
    OneEach r (lo.map (fun i => rangeIncl i keys)) ↔ inBoxAbove lo keys r = true := by
  induction lo generalizing r with
  | nil => cases r <;> simp [OneEach, inBoxAbove]
  | cons l lo ih =>
    cases r with
    | nil => simp [OneEach, inBoxAbove]
    | cons x r => simp [OneEach, inBoxAbove, mem_rangeIncl, ih r, and_assoc]

theorem oneEach_below (hi : List Int) (r : List Int) :
    OneEach r (hi.map (fun i => rangeIncl 1 i)) ↔ inBoxBelow hi r = true := by
  induction hi generalizing r with
  | nil => cases r <;> simp [OneEach, inBoxBelow]
  | cons h hi ih =>
    cases r with
    | nil => simp [OneEach, inBoxBelow]
    | cons x r => simp [OneEach, inBoxBelow, mem_rangeIncl, ih r, and_assoc]

/-- `PtnFilterChord.create`: AND_HIGHER = the box between the column minima and `keys`; AND_LOWER = the box between
1 and the column maxima so far; ANY_ORDER = every rearrangement -/
theorem mem_chordCreateAr (sizes : List (List Int)) (keys : Int) (opts : Nat) (row : List Int) :
    row ∈ chordCreateAr sizes keys opts ↔ chordSpecMem sizes keys opts row = true := by
  unfold chordCreateAr chordSpecMem chordStage1
  simp only [List.mem_eraseDups]
  generalize (sizes.headD []).length = w
  -- the list after the two box stages, and its membership predicate
  have hs2 : ∀ r : List Int,
      r ∈ (if hasBit opts optAndLower = true then
            (if hasBit opts optAndHigher = true then sizes ++ product ((colMin w sizes).map (fun i => rangeIncl i keys)) else sizes)
              ++ product ((colMax w (if hasBit opts optAndHigher = true then
                  sizes ++ product ((colMin w sizes).map (fun i => rangeIncl i keys)) else sizes)).map (fun i => rangeIncl 1 i))
          else (if hasBit opts optAndHigher = true then sizes ++ product ((colMin w sizes).map (fun i => rangeIncl i keys)) else sizes)) ↔
      (sizes.contains r
        || (hasBit opts optAndHigher && inBoxAbove (colMin w sizes) keys r)
        || (hasBit opts optAndLower && inBoxBelow (colMax w (if hasBit opts optAndHigher = true then
              sizes ++ product ((colMin w sizes).map (fun i => rangeIncl i keys)) else sizes)) r)) = true := by
    intro r
    cases hH : hasBit opts optAndHigher <;> cases hL : hasBit opts optAndLower <;>
      simp [mem_product, oneEach_above, oneEach_below, or_assoc]
  by_cases ha : hasBit opts optAnyOrder = true
  · simp only [ha, if_true, List.mem_flatMap, List.any_eq_true]
    constructor
    · rintro ⟨t, ht, hr⟩
      exact ⟨t, (mem_perms t row).mpr ((mem_perms row t).mp hr).symm, (hs2 t).mp ht⟩
    · rintro ⟨t, ht, hm⟩
      exact ⟨t, (hs2 t).mpr hm, (mem_perms row t).mpr ((mem_perms t row).mp ht).symm⟩
  · simp only [ha, if_false, Bool.false_eq_true]
    exact hs2 row

/-- `PtnFilterType.create`: ANY_ORDER = every rearrangement; otherwise MIRROR adds the reversed rows -/
theorem mem_typeCreateAr (types : List (List Ty)) (opts : Nat) (row : List Ty) :
    row ∈ typeCreateAr types opts ↔ typeSpecMem types opts row = true := by
  unfold typeCreateAr typeSpecMem
  simp only [List.mem_eraseDups]
  by_cases ha : hasBit opts optTypeAnyOrder = true
  · simp only [ha, if_true, List.mem_flatMap, List.any_eq_true, List.contains_iff_mem]
    constructor
    · rintro ⟨t, ht, hr⟩
      exact ⟨t, (mem_perms t row).mpr ((mem_perms row t).mp hr).symm, ht⟩
    · rintro ⟨t, ht, hm⟩
      exact ⟨t, hm, (mem_perms row t).mpr ((mem_perms t row).mp ht).symm⟩
  · simp only [ha, if_false, Bool.false_eq_true]
    by_cases hm : hasBit opts optTypeMirror = true
    · simp only [hm, if_true]
      have := mem_stage List.reverse List.reverse_reverse true types (fun r => types.contains r) (by simp) row
      simpa using this
    · simp [hm]

end Reamber.Pattern
