/-
C13 — algebra of the declarative result (`scale*`): identity at 1, composition, preservation of the domain
predicates, reflexivity of the comparison; and the small glue lemmas for charts and map sets.
-/
import Reamber.Lemmas.Rate
import Mathlib.Tactic.Linarith

namespace Reamber.Rate

/-! ### glue -/

theorem withFrames_map (ls : List (String × Frame)) (F : Frame → Frame) :
    withFrames ls ((ls.map (·.2)).map F) = ls.map (fun p => (p.1, F p.2)) := by
  induction ls with
  | nil => simp [withFrames]
  | cons p ls ih =>
    simp only [withFrames, List.map_cons, List.zipWith_cons_cons] at ih ⊢
    rw [ih]

theorem mapE_ok_map {α β} (f : α → Except Err β) (F : α → β) (l : List α) (h : ∀ a ∈ l, f a = .ok (F a)) :
    mapE f l = .ok (l.map F) := by
  induction l with
  | nil => rfl
  | cons a t ih =>
    simp only [mapE, h a (by simp), ih (fun b hb => h b (by simp [hb])), bind, Except.bind, List.map_cons]

/-- on a list without `length` / `bpm` columns (the osu sample events) dividing the `offset` column is the whole
declarative scaling -/
theorem mapAt_offset_eq_scaleRow (r : Rat) (ks : List String) (vs : List Cell)
    (h1 : "length" ∉ ks) (h2 : "bpm" ∉ ks) : mapAt "offset" (Cell.div r) ks vs = scaleRow r ks vs := by
  induction ks generalizing vs with
  | nil => cases vs <;> simp [mapAt, scaleRow]
  | cons k ks ih => cases vs with
    | nil => simp [mapAt, scaleRow]
    | cons v vs =>
      have hk1 : k ≠ "length" := fun e => h1 (by simp [e])
      have hk2 : k ≠ "bpm" := fun e => h2 (by simp [e])
      simp only [mapAt, scaleRow]
      rw [ih vs (fun e => h1 (by simp [e])) (fun e => h2 (by simp [e]))]
      congr 1
      by_cases h0 : k = "offset"
      · subst h0; cases v <;> simp [Cell.div, scaleCell, timeCols, durCols, bpmCols]
      · cases v <;> simp [h0, hk1, hk2, scaleCell, timeCols, durCols, bpmCols]

/-! ### identity and composition of the declarative result -/

theorem scaleCell_one (k : String) (v : Cell) : scaleCell 1 k v = v := by
  cases v <;> simp [scaleCell]

theorem scaleCell_comp (a b : Rat) (k : String) (v : Cell) : scaleCell b k (scaleCell a k v) = scaleCell (a * b) k v := by
  cases v with
  | num q =>
    by_cases h1 : k ∈ timeCols ∨ k ∈ durCols
    · simp [scaleCell, h1, div_div]
    · by_cases h2 : k ∈ bpmCols
      · simp [scaleCell, h1, h2, mul_assoc]
      · simp [scaleCell, h1, h2]
  | _ => simp [scaleCell]

theorem scaleRow_one (ks : List String) (vs : List Cell) : scaleRow 1 ks vs = vs := by
  rw [scaleRow_eq_mapAll, mapAll_congr (h' := fun _ v => v) (fun k v => scaleCell_one k v), mapAll_id]

theorem scaleRow_comp (a b : Rat) (ks : List String) (vs : List Cell) :
    scaleRow b ks (scaleRow a ks vs) = scaleRow (a * b) ks vs := by
  simp only [scaleRow_eq_mapAll, mapAll_comp]
  exact mapAll_congr (fun k v => scaleCell_comp a b k v) ks vs

theorem scaleFrame_one (f : Frame) : scaleFrame 1 f = f := by
  cases f with
  | mk cols rows =>
    simp only [scaleFrame, Frame.mk.injEq, true_and]
    rw [List.map_congr_left (g := id) (fun row _ => by simp [scaleRow_one])]
    simp

theorem scaleFrame_comp (a b : Rat) (f : Frame) : scaleFrame b (scaleFrame a f) = scaleFrame (a * b) f := by
  simp only [scaleFrame, List.map_map, Frame.mk.injEq, true_and]
  apply List.map_congr_left
  intro row _
  simp [Function.comp_def, scaleRow_comp]

theorem scalePreview_one (p : Rat) : scalePreview 1 p = p := by
  simp [scalePreview]

theorem scalePreview_comp {a : Rat} (ha : 0 < a) (b p : Rat) :
    scalePreview b (scalePreview a p) = scalePreview (a * b) p := by
  unfold scalePreview
  by_cases hp : p < 0
  · simp [hp]
  · have : ¬ p / a < 0 := not_lt.mpr (div_nonneg (not_lt.mp hp) (le_of_lt ha))
    simp [hp, this, div_div]

theorem scalePreview_nonneg {r : Rat} (hr : 0 < r) {p : Rat} (hp : 0 ≤ p) : 0 ≤ scalePreview r p := by
  simp only [scalePreview, not_lt.mpr hp, if_false]
  exact div_nonneg hp (le_of_lt hr)

theorem scaleChart_one (g : Game) (c : Chart) : scaleChart g 1 c = c := by
  cases c with
  | mk lists samples preview extra =>
    simp only [scaleChart, Chart.mk.injEq, and_true]
    refine ⟨?_, ?_, ?_⟩
    · rw [List.map_congr_left (g := id) (fun p _ => by simp [scaleFrame_one])]; simp
    · by_cases hg : g = .osu
      · cases samples <;> simp [hg, scaleFrame_one]
      · simp [hg]
    · by_cases hg : g = .osu
      · cases preview <;> simp [hg, scalePreview_one]
      · simp [hg]

theorem scaleChart_comp (g : Game) {a : Rat} (ha : 0 < a) (b : Rat) (c : Chart) :
    scaleChart g b (scaleChart g a c) = scaleChart g (a * b) c := by
  cases c with
  | mk lists samples preview extra =>
    simp only [scaleChart, List.map_map, Chart.mk.injEq, and_true]
    refine ⟨?_, ?_, ?_⟩
    · apply List.map_congr_left; intro p _; simp [Function.comp_def, scaleFrame_comp]
    · split
      · cases samples <;> simp [scaleFrame_comp]
      · rfl
    · split
      · cases preview <;> simp [scalePreview_comp ha]
      · rfl

theorem scaleSet_one (k : SetKind) (g : Game) (s : MapSet) : scaleSet k g 1 s = s := by
  cases s with
  | mk maps offset ss sl extra =>
    simp only [scaleSet, MapSet.mk.injEq, and_true]
    refine ⟨?_, ?_, ?_, ?_⟩
    · rw [List.map_congr_left (g := id) (fun c _ => by simp [scaleChart_one])]; simp
    · split
      · cases offset <;> simp
      · rfl
    · split
      · cases ss <;> simp
      · rfl
    · split
      · cases sl <;> simp
      · rfl

theorem scaleSet_comp (k : SetKind) (g : Game) {a : Rat} (ha : 0 < a) (b : Rat) (s : MapSet) :
    scaleSet k g b (scaleSet k g a s) = scaleSet k g (a * b) s := by
  cases s with
  | mk maps offset ss sl extra =>
    simp only [scaleSet, List.map_map, MapSet.mk.injEq, and_true]
    refine ⟨?_, ?_, ?_, ?_⟩
    · apply List.map_congr_left; intro c _; simp [Function.comp_def, scaleChart_comp g ha]
    · split
      · cases offset <;> simp [div_div]
      · rfl
    · split
      · cases ss <;> simp [div_div]
      · rfl
    · split
      · cases sl <;> simp [div_div]
      · rfl

/-! ### the domain predicates are preserved by scaling -/

theorem scaleCell_nan (r : Rat) (k : String) : scaleCell r k .nan = .nan := rfl

theorem scaleCell_numeric (r : Rat) (k : String) (v : Cell) : (scaleCell r k v).numeric = v.numeric := by
  cases v with
  | num q =>
    by_cases h1 : k ∈ timeCols ∨ k ∈ durCols
    · simp [scaleCell, h1, Cell.numeric]
    · by_cases h2 : k ∈ bpmCols
      · simp [scaleCell, h1, h2, Cell.numeric]
      · simp [scaleCell, h1, h2, Cell.numeric]
  | _ => rfl

theorem lookupCell_scaleRow (r : Rat) (ks : List String) (vs : List Cell) (k : String) :
    lookupCell ks (scaleRow r ks vs) k = scaleCell r k (lookupCell ks vs k) := by
  induction ks generalizing vs with
  | nil => cases vs <;> simp [scaleRow, lookupCell, scaleCell_nan]
  | cons k0 ks ih => cases vs with
    | nil => simp [scaleRow, lookupCell, scaleCell_nan]
    | cons v vs =>
      simp only [scaleRow, lookupCell]
      by_cases h0 : k0 = k
      · subst h0; simp
      · simp [h0, ih]

theorem scaleRow_length (r : Rat) (ks : List String) (vs : List Cell) : (scaleRow r ks vs).length = vs.length := by
  rw [scaleRow_eq_mapAll, mapAll_length]

theorem wf_scaleFrame (r : Rat) (f : Frame) (h : f.wf = true) : (scaleFrame r f).wf = true := by
  simp only [Frame.wf, scaleFrame, Bool.and_eq_true, List.all_eq_true, List.mem_map] at h ⊢
  refine ⟨h.1, ?_⟩
  rintro row ⟨row0, hrow0, rfl⟩
  simpa [scaleRow_length] using h.2 row0 hrow0

theorem col_scaleFrame (r : Rat) (f : Frame) (c : String) :
    (scaleFrame r f).col c = (f.col c).map (scaleCell r c) := by
  simp [Frame.col, scaleFrame, List.map_map, Function.comp_def, lookupCell_scaleRow]

theorem all_numeric_scale (r : Rat) (c : String) (l : List Cell) :
    (l.map (scaleCell r c)).all Cell.numeric = l.all Cell.numeric := by
  simp [List.all_map, Function.comp_def, scaleCell_numeric]

theorem numericCols_scaleFrame (r : Rat) (f : Frame) (h : f.numericCols = true) : (scaleFrame r f).numericCols = true := by
  simp only [Frame.numericCols, List.all_eq_true] at h ⊢
  intro c hc
  rw [← List.all_eq_true, col_scaleFrame, all_numeric_scale, List.all_eq_true]
  exact h c hc

theorem hasCol_scale (r : Rat) (fs : List Frame) (c : String) : hasCol (fs.map (scaleFrame r)) c = hasCol fs c := by
  induction fs with
  | nil => rfl
  | cons f fs ih =>
    simp only [hasCol, List.map_cons, List.any_cons] at ih ⊢
    rw [ih]; rfl

theorem listsOk_scale (r : Rat) (fs : List Frame) (h : listsOk fs = true) : listsOk (fs.map (scaleFrame r)) = true := by
  simp only [listsOk, Bool.and_eq_true, List.all_eq_true, hasCol_scale, List.mem_map] at h ⊢
  obtain ⟨⟨⟨⟨hwf, hnum⟩, ho⟩, hb⟩, hl⟩ := h
  refine ⟨⟨⟨⟨?_, ?_⟩, ho⟩, hb⟩, hl⟩
  · rintro f ⟨f0, hf0, rfl⟩; exact wf_scaleFrame r f0 (hwf f0 hf0)
  · rintro f ⟨f0, hf0, rfl⟩; exact numericCols_scaleFrame r f0 (hnum f0 hf0)

theorem samplesOk_scale (r : Rat) (f : Frame) (h : samplesOk f = true) : samplesOk (scaleFrame r f) = true := by
  simp only [samplesOk, Bool.and_eq_true] at h ⊢
  obtain ⟨⟨⟨⟨h1, h2⟩, h3⟩, h4⟩, h5⟩ := h
  refine ⟨⟨⟨⟨wf_scaleFrame r f h1, by simpa [scaleFrame] using h2⟩, ?_⟩, by simpa [scaleFrame] using h4⟩,
    by simpa [scaleFrame] using h5⟩
  rw [col_scaleFrame, all_numeric_scale]; exact h3

theorem chartOk_scale (g : Game) {r : Rat} (hr : 0 < r) (c : Chart) (h : chartOk g c = true) : chartOk g (scaleChart g r c) = true := by
  simp only [chartOk, Bool.and_eq_true] at h ⊢
  obtain ⟨h1, h2⟩ := h
  constructor
  · have : (scaleChart g r c).lists.map (·.2) = (c.lists.map (·.2)).map (scaleFrame r) := by
      simp [scaleChart, List.map_map, Function.comp_def]
    rw [this]; exact listsOk_scale r _ h1
  · by_cases hg : g = .osu
    · subst hg
      simp only [if_true, scaleChart] at h2 ⊢
      cases hs : c.samples with
      | none => simp [hs] at h2
      | some sm =>
        cases hp : c.preview with
        | none => simp [hs, hp] at h2
        | some pv =>
          simp only [hs, hp, Bool.and_eq_true, decide_eq_true_eq] at h2
          simp only [Option.map_some, Bool.and_eq_true, decide_eq_true_eq]
          exact ⟨samplesOk_scale r sm h2.1, scalePreview_nonneg hr h2.2⟩
    · simp [hg]

theorem setOk_scale (k : SetKind) (g : Game) {r : Rat} (hr : 0 < r) (s : MapSet) (h : setOk k g s = true) :
    setOk k g (scaleSet k g r s) = true := by
  simp only [setOk, Bool.and_eq_true, List.all_eq_true] at h ⊢
  obtain ⟨h1, h2⟩ := h
  constructor
  · intro c hc
    simp only [scaleSet, List.mem_map] at hc
    obtain ⟨c0, hc0, rfl⟩ := hc
    exact chartOk_scale g hr c0 (h1 c0 hc0)
  · by_cases hk : k = .sm
    · subst hk
      simp only [if_true, scaleSet, Bool.and_eq_true, Option.isSome_map] at h2 ⊢
      exact h2
    · simp [hk]

/-! ### the comparison is reflexive at ε = 0 -/

theorem closeRat_refl (a : Rat) : closeRat 0 a a = true := by
  simp [closeRat, absR]

theorem closeCell_refl (a : Cell) : closeCell 0 a a = true := by
  cases a <;> simp [closeCell, closeRat_refl]

theorem closeCells_refl (l : List Cell) : closeCells 0 l l = true := by
  induction l with
  | nil => rfl
  | cons a t ih => simp [closeCells, closeCell_refl, ih]

theorem closeFrame_refl (f : Frame) : closeFrame 0 f f = true := by
  simp [closeFrame, closeCells_refl]

theorem closeLists_refl (l : List (String × Frame)) : closeLists 0 l l = true := by
  induction l with
  | nil => rfl
  | cons a t ih => simp [closeLists, closeFrame_refl, ih]

theorem closeChart_refl (c : Chart) : closeChart 0 c c = true := by
  simp only [closeChart, closeLists_refl, Bool.true_and, Bool.and_eq_true, beq_self_eq_true, and_true]
  constructor
  · cases c.samples <;> simp [closeOptFrame, closeFrame_refl]
  · cases c.preview <;> simp [closeOptRat, closeRat_refl]

theorem closeCharts_refl (l : List Chart) : closeCharts 0 l l = true := by
  induction l with
  | nil => rfl
  | cons a t ih => simp [closeCharts, closeChart_refl, ih]

theorem closeSet_refl (s : MapSet) : closeSet 0 s s = true := by
  simp only [closeSet, closeCharts_refl, Bool.true_and, Bool.and_eq_true, beq_self_eq_true, and_true]
  refine ⟨⟨?_, ?_⟩, ?_⟩
  · cases s.offset <;> simp [closeOptRat, closeRat_refl]
  · cases s.sampleStart <;> simp [closeOptRat, closeRat_refl]
  · cases s.sampleLength <;> simp [closeOptRat, closeRat_refl]

/-! ### … and at ε = 0 it means equality, column by column -/

theorem closeRat_zero {a b : Rat} (h : closeRat 0 a b = true) : a = b := by
  simp only [closeRat, zero_mul, add_zero, decide_eq_true_eq, absR] at h
  split at h <;> linarith

theorem closeCell_zero {a b : Cell} (h : closeCell 0 a b = true) : a = b := by
  cases a <;> cases b <;> simp_all [closeCell]
  exact closeRat_zero h

theorem closeCells_zero : ∀ {l l' : List Cell}, closeCells 0 l l' = true → l = l'
  | [], [], _ => rfl
  | a :: as, b :: bs, h => by
    simp only [closeCells, Bool.and_eq_true] at h
    rw [closeCell_zero h.1, closeCells_zero h.2]
  | [], _ :: _, h => by simp [closeCells] at h
  | _ :: _, [], h => by simp [closeCells] at h

/-- what the Boolean specification says at ε = 0: the two frames have the same columns (as sets) and the same
number of rows, and every column holds the same cells in the same row order -/
theorem closeFrame_zero {want got : Frame} (h : closeFrame 0 want got = true) :
    (∀ c, c ∈ want.cols ↔ c ∈ got.cols) ∧ want.rows.length = got.rows.length ∧
    ∀ c ∈ want.cols, want.col c = got.col c := by
  simp only [closeFrame, Bool.and_eq_true, List.all_eq_true, List.contains_eq_mem, decide_eq_true_eq,
    beq_iff_eq] at h
  obtain ⟨⟨⟨h1, h2⟩, h3⟩, h4⟩ := h
  exact ⟨fun c => ⟨h1 c, h2 c⟩, h3, fun c hc => closeCells_zero (h4 c hc)⟩

end Reamber.Rate
