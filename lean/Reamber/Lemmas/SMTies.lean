/-
`#BPMS` entries on one beat: the last one in file order is in force (`Spec/SMTies.lean`).
-/
import Reamber.Spec.SMTies
import Reamber.Lemmas.Analysis
import Mathlib.Tactic.Ring
import Mathlib.Tactic.Linarith
import Mathlib.Algebra.Order.Field.Rat

namespace Reamber.SM

open Reamber.Timing

/-- a `#BPMS` pair as a tempo change (what `changesOf` maps over the sorted pairs) -/
def pairChange (p : Rat × Rat) : BcSnap := ⟨p.2, 4, snapOfBeat p.1⟩

theorem changesOf_eq (bpms : List (Rat × Rat)) :
    changesOf bpms = (isort (fun a b => decide (a.1 ≤ b.1)) bpms).map pairChange := rfl

theorem snapDist_self (a : Snap) (M : Rat) : snapDist a a M = 0 := by
  unfold snapDist; simp

theorem snap_le_refl (a : Snap) : a.le a = true := by
  simp [Snap.le, Snap.eqv]

/-- the first pair of `dropOverridden (p :: l)` sits on `p`'s beat -/
theorem dropOverridden_head (p : Rat × Rat) (l : List (Rat × Rat)) :
    ∃ q l', dropOverridden (p :: l) = q :: l' ∧ q.1 = p.1 := by
  induction l generalizing p with
  | nil => exact ⟨p, [], rfl, rfl⟩
  | cons n r ih =>
    by_cases h : p.1 = n.1
    · obtain ⟨q, l', e, hq⟩ := ih n
      exact ⟨q, l', by simp [dropOverridden, h, e], hq.trans h.symm⟩
    · exact ⟨p, dropOverridden (n :: r), by simp [dropOverridden, h], rfl⟩

/-- **the sweep does not see overridden entries**: from the first entry's beat on, integrating over all entries
(several on one beat allowed) is integrating over the entries in force -/
theorem timeAtAux_dropOverridden (l : List (Rat × Rat)) (p : Rat × Rat) (T : Rat) (s : Snap)
    (hle : (snapOfBeat p.1).le s = true) :
    ∃ q l', dropOverridden (p :: l) = q :: l' ∧ q.1 = p.1 ∧
      timeAtAux T (pairChange p) (l.map pairChange) s = timeAtAux T (pairChange q) (l'.map pairChange) s := by
  induction l generalizing p T with
  | nil => exact ⟨p, [], rfl, rfl, rfl⟩
  | cons n r ih =>
    by_cases h : p.1 = n.1
    · have hn : (snapOfBeat n.1).le s = true := by rw [← h]; exact hle
      obtain ⟨q, l', e, hq, ht⟩ := ih n T hn
      refine ⟨q, l', by simp [dropOverridden, h, e], hq.trans h.symm, ?_⟩
      rw [List.map_cons, timeAtAux]
      have hs : (pairChange n).snap.le s = true := hn
      have hd : snapDist (pairChange p).snap (pairChange n).snap (pairChange p).met = 0 := by
        have : (pairChange p).snap = (pairChange n).snap := by simp [pairChange, h]
        rw [this]; exact snapDist_self _ _
      rw [if_pos hs, hd, zero_mul, add_zero]
      exact ht
    · refine ⟨p, dropOverridden (n :: r), by simp [dropOverridden, h], rfl, ?_⟩
      obtain ⟨q, l', e, hq⟩ := dropOverridden_head n r
      rw [e, List.map_cons, List.map_cons, timeAtAux, timeAtAux]
      have hsn : (pairChange q).snap = (pairChange n).snap := by simp [pairChange, hq]
      rw [hsn]
      by_cases hs : (pairChange n).snap.le s = true
      · rw [if_pos hs, if_pos hs]
        obtain ⟨q', l'', e', _, ht⟩ := ih n (T + snapDist (pairChange p).snap (pairChange n).snap (pairChange p).met *
          beatLen (pairChange p).bpm) hs
        rw [e] at e'
        obtain ⟨rfl, rfl⟩ := List.cons.inj e'
        exact ht
      · rw [if_neg hs, if_neg hs]

/-- the beats of the pairs in force are strictly ascending when the pairs are ascending -/
theorem dropOverridden_strict (l : List (Rat × Rat)) (h : l.Pairwise (fun a b => a.1 ≤ b.1)) :
    (dropOverridden l).Pairwise (fun a b => a.1 < b.1) := by
  induction l with
  | nil => exact List.Pairwise.nil
  | cons p t ih =>
    have hp := List.pairwise_cons.mp h
    cases t with
    | nil => simp [dropOverridden]
    | cons n r =>
      by_cases e : p.1 = n.1
      · simp only [dropOverridden, e, if_true]
        exact ih hp.2
      · simp only [dropOverridden, e, if_false]
        refine List.pairwise_cons.mpr ⟨?_, ih hp.2⟩
        intro z hz
        have hpn : p.1 < n.1 := lt_of_le_of_ne (hp.1 n (by simp)) e
        -- every pair kept is one of `n :: r`
        have hsub : ∀ (l : List (Rat × Rat)) z, z ∈ dropOverridden l → z ∈ l := by
          intro l
          induction l with
          | nil => intro z hz; simp [dropOverridden] at hz
          | cons a t iht =>
            intro z hz
            cases t with
            | nil => simpa [dropOverridden] using hz
            | cons b u =>
              by_cases e' : a.1 = b.1
              · simp only [dropOverridden, e', if_true] at hz
                exact List.mem_cons_of_mem _ (iht z hz)
              · simp only [dropOverridden, e', if_false] at hz
                rcases List.mem_cons.mp hz with rfl | hz'
                · simp
                · exact List.mem_cons_of_mem _ (iht z hz')
        have hz' := hsub _ z hz
        rcases List.mem_cons.mp hz' with rfl | hzr
        · exact hpn
        · exact lt_of_lt_of_le hpn ((List.pairwise_cons.mp hp.2).1 z hzr)

theorem isort_pairs_sorted (bpms : List (Rat × Rat)) :
    (isort (fun a b : Rat × Rat => decide (a.1 ≤ b.1)) bpms).Pairwise (fun a b => a.1 ≤ b.1) := by
  have := Reamber.Analysis.isort_pairwise (fun a b : Rat × Rat => decide (a.1 ≤ b.1))
    (by intro a b; simp only [decide_eq_true_eq]; exact le_total _ _)
    (by intro a b c; simp only [decide_eq_true_eq]; exact le_trans) bpms
  simpa using this

end Reamber.SM
