/-
C03 — the measures `SMMap.write` emits, by index: measure number `m` of the chart is the grid filled from the objects
of measure `m` when there are any, the four-row padding otherwise.
-/
import Reamber.Lemmas.SMFill
import Mathlib.Tactic.Linarith

namespace Reamber.SM

open Reamber.Timing

/-- strictly ascending measure numbers, all above `prev` -/
def AscAbove : Int → List Int → Prop
  | _, [] => True
  | prev, m :: rest => prev < m ∧ AscAbove m rest

theorem ascAbove_lt : ∀ (ms : List Int) (prev : Int), AscAbove prev ms → ∀ x ∈ ms, prev < x := by
  intro ms
  induction ms with
  | nil => intro _ _ x hx; cases hx
  | cons m t ih =>
    intro prev h x hx
    rcases List.mem_cons.mp hx with rfl | hx
    · exact h.1
    · exact lt_trans h.1 (ih m h.2 x hx)

/-- **The written measures, by index.**  For strictly ascending measure numbers `ms` above `prev`: the output has one
entry per measure number from `prev + 1` to the last of `ms`; entry `i` is the filled grid of measure `prev + 1 + i`
when that number is in `ms`, and the padding measure otherwise. -/
theorem writeLoop_index (keys : Nat) (S : List Slot) : ∀ (ms : List Int) (prev : Int) (out : List (List Str)),
    AscAbove prev ms → writeLoop keys S prev ms = .ok out →
    (out.length : Int) = (ms.getLast?.getD prev) - prev ∧
    ∀ (i : Nat) (hi : i < out.length),
      (prev + 1 + (i : Int) ∈ ms →
        fillMeasure keys (S.filter (fun s => s.measure = prev + 1 + (i : Int))) = .ok out[i]) ∧
      (prev + 1 + (i : Int) ∉ ms → out[i] = paddingMeasure) := by
  intro ms
  induction ms with
  | nil =>
    intro prev out _ h
    simp [writeLoop] at h
    subst h
    simp
  | cons m rest ih =>
    intro prev out hasc h
    obtain ⟨hlt, hrest⟩ := hasc
    simp only [writeLoop] at h
    cases hf : fillMeasure keys (S.filter fun s => s.measure = m) with
    | error e => simp [hf] at h
    | ok rows =>
      cases ht : writeLoop keys S m rest with
      | error e => simp [hf, ht] at h
      | ok tl =>
        simp only [hf, ht] at h
        cases h
        obtain ⟨hlen, hidx⟩ := ih m tl hrest ht
        have hk : (((m - prev - 1).toNat : Nat) : Int) = m - prev - 1 := Int.toNat_of_nonneg (by omega)
        have hg : (rest.getLast?.getD m) = ((m :: rest).getLast?.getD prev) := by
          cases rest with
          | nil => simp
          | cons a r =>
            rw [List.getLast?_cons_cons]
            cases hgl : (a :: r).getLast? with
            | none => simp at hgl
            | some v => simp
        refine ⟨?_, ?_⟩
        · simp only [List.length_append, List.length_replicate, List.length_cons]
          rw [← hg]
          push_cast
          omega
        · intro i hi
          have hlenr : (List.replicate (m - prev - 1).toNat paddingMeasure).length = (m - prev - 1).toNat := by simp
          by_cases h1 : i < (m - prev - 1).toNat
          · -- inside the padding
            have hget : (List.replicate (m - prev - 1).toNat paddingMeasure ++ rows :: tl)[i] = paddingMeasure := by
              rw [List.getElem_append_left (by rw [hlenr]; exact h1)]
              simp
            have hnot : prev + 1 + (i : Int) ∉ m :: rest := by
              intro hm
              have : m ≤ prev + 1 + (i : Int) := by
                rcases List.mem_cons.mp hm with h | h
                · omega
                · exact le_of_lt (ascAbove_lt rest m hrest _ h)
              omega
            exact ⟨fun hm => absurd hm hnot, fun _ => hget⟩
          · by_cases h2 : i = (m - prev - 1).toNat
            · -- the measure itself
              have hget : (List.replicate (m - prev - 1).toNat paddingMeasure ++ rows :: tl)[i] = rows := by
                rw [List.getElem_append_right (by rw [hlenr]; omega)]
                simp [h2]
              have hmi : prev + 1 + (i : Int) = m := by omega
              refine ⟨fun _ => ?_, fun hn => ?_⟩
              · rw [hget, hmi]; exact hf
              · exact absurd (by rw [hmi]; simp) hn
            · -- behind it: the tail of the loop
              have hj : i - (m - prev - 1).toNat - 1 < tl.length := by
                simp only [List.length_append, List.length_replicate, List.length_cons] at hi
                omega
              have hget : (List.replicate (m - prev - 1).toNat paddingMeasure ++ rows :: tl)[i] =
                  tl[i - (m - prev - 1).toNat - 1] := by
                apply Option.some.inj
                rw [← List.getElem?_eq_getElem, ← List.getElem?_eq_getElem,
                  List.getElem?_append_right (by rw [hlenr]; omega), hlenr]
                have : i - (m - prev - 1).toNat = (i - (m - prev - 1).toNat - 1) + 1 := by omega
                rw [this, List.getElem?_cons_succ]
                simp
              have hidx' := hidx (i - (m - prev - 1).toNat - 1) hj
              have hmi : m + 1 + ((i - (m - prev - 1).toNat - 1 : Nat) : Int) = prev + 1 + (i : Int) := by omega
              rw [hmi] at hidx'
              rw [hget]
              refine ⟨fun hm => hidx'.1 ?_, fun hn => hidx'.2 ?_⟩
              · rcases List.mem_cons.mp hm with h | h
                · omega
                · exact h
              · intro hmem; exact hn (List.mem_cons_of_mem _ hmem)

end Reamber.SM
