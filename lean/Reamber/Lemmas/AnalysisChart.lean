/-
Helper lemmas for the chart-level statements of C19: bounds of the stacked offsets (fold of min / max),
the first maximum over ascending keys.
-/
import Reamber.Lemmas.Analysis

namespace Reamber.Analysis

theorem rmax_ge_left (a b : Rat) : a ≤ rmax a b := by
  unfold rmax; split
  · assumption
  · exact le_refl _

theorem rmax_ge_right (a b : Rat) : b ≤ rmax a b := by
  unfold rmax; split
  · exact le_refl _
  · rename_i h; exact le_of_lt (not_le.mp h)

theorem rmin_le_left (a b : Rat) : rmin a b ≤ a := by
  unfold rmin; split
  · exact le_refl _
  · rename_i h; exact le_of_lt (not_le.mp h)

theorem rmin_le_right (a b : Rat) : rmin a b ≤ b := by
  unfold rmin; split
  · assumption
  · exact le_refl _

theorem rmax_mem (a b : Rat) : rmax a b = a ∨ rmax a b = b := by
  unfold rmax; split <;> simp

theorem rmin_mem (a b : Rat) : rmin a b = a ∨ rmin a b = b := by
  unfold rmin; split <;> simp

theorem foldl_rmax_spec (t : List Rat) : ∀ a : Rat,
    (∀ x ∈ a :: t, x ≤ t.foldl rmax a) ∧ t.foldl rmax a ∈ a :: t := by
  induction t with
  | nil => intro a; simp
  | cons b t ih =>
    intro a
    obtain ⟨hle, hmem⟩ := ih (rmax a b)
    simp only [List.foldl_cons]
    constructor
    · intro x hx
      have h0 := hle (rmax a b) (by simp)
      rcases List.mem_cons.mp hx with rfl | hx
      · exact le_trans (rmax_ge_left _ b) h0
      · rcases List.mem_cons.mp hx with rfl | hx
        · exact le_trans (rmax_ge_right a _) h0
        · exact hle x (List.mem_cons_of_mem _ hx)
    · rcases List.mem_cons.mp hmem with h | h
      · rw [h]
        rcases rmax_mem a b with h' | h' <;> simp [h']
      · exact List.mem_cons_of_mem _ (List.mem_cons_of_mem _ h)

theorem foldl_rmin_spec (t : List Rat) : ∀ a : Rat,
    (∀ x ∈ a :: t, t.foldl rmin a ≤ x) ∧ t.foldl rmin a ∈ a :: t := by
  induction t with
  | nil => intro a; simp
  | cons b t ih =>
    intro a
    obtain ⟨hle, hmem⟩ := ih (rmin a b)
    simp only [List.foldl_cons]
    constructor
    · intro x hx
      have h0 := hle (rmin a b) (by simp)
      rcases List.mem_cons.mp hx with rfl | hx
      · exact le_trans h0 (rmin_le_left _ b)
      · rcases List.mem_cons.mp hx with rfl | hx
        · exact le_trans h0 (rmin_le_right a _)
        · exact hle x (List.mem_cons_of_mem _ hx)
    · rcases List.mem_cons.mp hmem with h | h
      · rw [h]
        rcases rmin_mem a b with h' | h' <;> simp [h']
      · exact List.mem_cons_of_mem _ (List.mem_cons_of_mem _ h)

/-! ### the first maximum -/

/-- `argmaxAux` returns the FIRST row with the maximal value: every row before it is strictly smaller -/
theorem argmaxAux_first (l : List (Rat × Rat)) : ∀ best : Rat × Rat,
    ∃ pre post, best :: l = pre ++ argmaxAux best l :: post ∧ ∀ q ∈ pre, q.2 < (argmaxAux best l).2 := by
  induction l with
  | nil => intro best; exact ⟨[], [], by simp [argmaxAux], by simp⟩
  | cons p t ih =>
    intro best
    unfold argmaxAux
    by_cases h : best.2 < p.2
    · simp only [h, if_true]
      obtain ⟨pre, post, heq, hlt⟩ := ih p
      refine ⟨best :: pre, post, by rw [heq]; rfl, ?_⟩
      intro q hq
      rcases List.mem_cons.mp hq with rfl | hq
      · exact lt_of_lt_of_le h ((argmaxAux_spec t p).2 p (by simp))
      · exact hlt q hq
    · simp only [h, if_false]
      obtain ⟨pre, post, heq, hlt⟩ := ih best
      cases pre with
      | nil =>
        simp only [List.nil_append, List.cons.injEq] at heq
        refine ⟨[], p :: post, ?_, by simp⟩
        simp only [List.nil_append]
        rw [← heq.1, heq.2]
      | cons b pre' =>
        simp only [List.cons_append, List.cons.injEq] at heq
        refine ⟨best :: p :: pre', post, ?_, ?_⟩
        · simp only [List.cons_append]
          exact congrArg (fun x => best :: p :: x) heq.2
        · intro q hq
          have hb : best.2 < (argmaxAux best t).2 := by
            have := hlt b (by simp)
            rw [← heq.1] at this
            exact this
          rcases List.mem_cons.mp hq with rfl | hq
          · exact hb
          · rcases List.mem_cons.mp hq with rfl | hq
            · exact lt_of_le_of_lt (not_lt.mp h) hb
            · exact hlt q (List.mem_cons_of_mem _ hq)

theorem sortRat_sorted (l : List Rat) : (sortRat l).Pairwise (fun a b => a ≤ b) := by
  have := isort_pairwise (fun a b : Rat => decide (a ≤ b))
    (by intro a b; simp only [decide_eq_true_eq]; exact le_total _ _)
    (by intro a b c; simp only [decide_eq_true_eq]; exact le_trans) l
  simpa [sortRat] using this

/-- over rows whose keys ascend, `idxmax` returns the LEAST key among the rows with the maximal value -/
theorem idxmax_least {l : List (Rat × Rat)} (hs : l.Pairwise (fun a b => a.1 ≤ b.1)) {k : Rat}
    (hk : idxmax l = some k) : ∀ q ∈ l, (∀ r ∈ l, r.2 ≤ q.2) → k ≤ q.1 := by
  cases l with
  | nil => simp [idxmax] at hk
  | cons p t =>
    simp only [idxmax, Option.some.injEq] at hk
    obtain ⟨pre, post, heq, hlt⟩ := argmaxAux_first t p
    intro q hq hmax
    rw [heq] at hq hs
    rcases List.mem_append.mp hq with hq | hq
    · have h1 := hlt q hq
      have h2 := hmax (argmaxAux p t) (by rw [heq]; simp)
      exact absurd (lt_of_lt_of_le h1 h2) (lt_irrefl _)
    · rcases List.mem_cons.mp hq with rfl | hq
      · rw [← hk]
      · have := (List.pairwise_append.mp hs).2.1
        rw [← hk]
        exact (List.pairwise_cons.mp this).1 q hq

end Reamber.Analysis
