/-
Helper lemmas for C04 (BMS reading): lanes are independent in the reader's event loop; the per-lane stack
discipline; permutations of events.  Core Lean only.
-/
import Reamber.Model.BMS
import Reamber.Spec.BMS

namespace Reamber.BMS

open Reamber.Timing

/-- what lane `k` sees of an event list: `(is LNOBJ, sample, position)` in processing order -/
def laneEvs (k : Nat) (evs : List Ev) : List (Bool × Bytes × Snap) :=
  evs.filterMap fun
    | .note c t s p => if c = k then some (t, s, p) else none
    | _ => none

/-- the reader's loop restricted to one lane -/
def laneFold : Lane → List (Bool × Bytes × Snap) → Except Err Lane
  | l, [] => .ok l
  | l, e :: rest =>
    match laneStep e.1 e.2.1 e.2.2 l with
    | .error err => .error err
    | .ok l' => laneFold l' rest

theorem foldlE_cons {σ α} (f : σ → α → Except Err σ) (s : σ) (a : α) (t : List α) :
    foldlE f s (a :: t) = (match f s a with | .error e => .error e | .ok s' => foldlE f s' t) := rfl

/-- **Lanes are independent.** If the whole event loop succeeds, lane `k` of the final state is what the
one-lane loop computes from lane `k`'s own events. -/
theorem lanes_independent (k : Nat) (evs : List Ev) (st st' : St) (h : foldlE applyEv st evs = .ok st') :
    laneFold (st.lanes k) (laneEvs k evs) = .ok (st'.lanes k) := by
  induction evs generalizing st with
  | nil =>
    simp only [foldlE] at h
    cases h
    simp [laneEvs, laneFold]
  | cons e t ih =>
    rw [foldlE_cons] at h
    cases e with
    | bad err => simp [applyEv] at h
    | tempo b =>
      simp only [applyEv] at h
      have := ih _ h
      simpa [laneEvs] using this
    | note c tl s p =>
      simp only [applyEv] at h
      by_cases hc : c ≥ maxKeys
      · simp [hc] at h
      · simp only [hc, if_false] at h
        cases hl : laneStep tl s p (st.lanes c) with
        | error err => simp [hl] at h
        | ok l =>
          simp only [hl] at h
          have := ih _ h
          by_cases hk : c = k
          · subst hk
            simp only [laneEvs, List.filterMap_cons, if_true, laneFold, hl]
            simpa [laneEvs] using this
          · have hk' : ¬ (k = c) := fun e => hk e.symm
            simp only [laneEvs, List.filterMap_cons, hk, if_false]
            simpa [laneEvs, hk'] using this

/-- without `#LNOBJ` objects the one-lane loop only pushes -/
theorem laneFold_no_tail (l : Lane) (es : List (Bool × Bytes × Snap)) (h : ∀ e ∈ es, e.1 = false) :
    laneFold l es = .ok ⟨(es.map (fun e => (⟨e.2.1, e.2.2⟩ : HitS))).reverse ++ l.hits, l.holds⟩ := by
  induction es generalizing l with
  | nil => simp [laneFold]
  | cons e t ih =>
    have he : e.1 = false := h e (by simp)
    simp only [laneFold, laneStep, he, Bool.false_eq_true, if_false]
    rw [ih _ (fun x hx => h x (by simp [hx]))]
    simp

theorem laneEvs_perm (k : Nat) {e₁ e₂ : List Ev} (h : e₁.Perm e₂) : (laneEvs k e₁).Perm (laneEvs k e₂) :=
  h.filterMap _

theorem events_perm (ctx : Ctx) {n₁ n₂ : List (Bytes × Bytes × Bytes)} (h : n₁.Perm n₂) :
    (events ctx n₁).Perm (events ctx n₂) := by
  unfold events
  exact h.flatMap_right _

/-! ### the stack discipline against the by-the-book pairing -/

def SHit.toHitS (h : SHit) : HitS := ⟨h.sample, h.snap⟩
def SHold.toHoldS (h : SHold) : HoldS := ⟨⟨h.sample, h.head⟩, h.tail⟩

/-- a lane's objects as the reader's events -/
def objEv (lnEnd : Bytes) (sampleOf : Bytes → Bytes) (o : Obj) : Bool × Bytes × Snap :=
  (decide (o.id = lnEnd), if o.id = lnEnd then [] else sampleOf o.id, o.snap)

theorem pairing_invariant (lnobj : Option Bytes) (lnEnd : Bytes) (sampleOf : Bytes → Bytes) (col : Nat)
    (os : List Obj) (hln : ∀ o ∈ os, (some o.id = lnobj ↔ o.id = lnEnd)) :
    ∀ (prev : Option Obj) (stack : List HitS) (holds : List HoldS) (H : List SHit) (L : List SHold),
      pairLane lnobj sampleOf col prev os = some (H, L) →
      laneFold ⟨(prev.toList.map (fun p => (⟨sampleOf p.id, p.snap⟩ : HitS))) ++ stack, holds⟩ (os.map (objEv lnEnd sampleOf))
        = .ok ⟨(H.map SHit.toHitS).reverse ++ stack, (L.map SHold.toHoldS).reverse ++ holds⟩ := by
  induction os with
  | nil =>
    intro prev stack holds H L h
    cases prev with
    | none =>
      simp only [pairLane, Option.some.injEq, Prod.mk.injEq] at h
      obtain ⟨rfl, rfl⟩ := h
      simp [laneFold]
    | some p =>
      simp only [pairLane, Option.some.injEq, Prod.mk.injEq] at h
      obtain ⟨rfl, rfl⟩ := h
      simp [laneFold, SHit.toHitS]
  | cons o rest ih =>
    intro prev stack holds H L h
    have hln' : ∀ o ∈ rest, (some o.id = lnobj ↔ o.id = lnEnd) := fun x hx => hln x (by simp [hx])
    have hlo := hln o (by simp)
    by_cases ho : some o.id = lnobj
    · have hoe : o.id = lnEnd := hlo.mp ho
      cases prev with
      | none => simp [pairLane, ho] at h
      | some p =>
        simp only [pairLane, ho, if_true, Option.map_eq_some_iff] at h
        obtain ⟨r, hr, hrl⟩ := h
        simp only [Prod.mk.injEq] at hrl
        obtain ⟨rfl, rfl⟩ := hrl
        have := ih hln' none stack (⟨⟨sampleOf p.id, p.snap⟩, o.snap⟩ :: holds) r.1 r.2 (by simpa using hr)
        simp only [List.map_cons, laneFold, objEv, hoe, decide_true, laneStep, if_true, Option.toList, List.cons_append,
          List.nil_append, List.map_nil]
        simp only [Option.toList, List.map_nil, List.nil_append] at this
        rw [this]
        simp [SHold.toHoldS]
    · have hoe : ¬ o.id = lnEnd := fun e => ho (hlo.mpr e)
      cases prev with
      | none =>
        simp only [pairLane, ho, if_false] at h
        have := ih hln' (some o) stack holds H L h
        simp only [List.map_cons, laneFold, objEv, hoe, decide_false, laneStep, if_false, Option.toList, List.map_nil,
          List.nil_append, Bool.false_eq_true]
        simpa [Option.toList] using this
      | some p =>
        simp only [pairLane, ho, if_false, Option.map_eq_some_iff] at h
        obtain ⟨r, hr, hrl⟩ := h
        simp only [Prod.mk.injEq] at hrl
        obtain ⟨rfl, rfl⟩ := hrl
        have := ih hln' (some o) ((⟨sampleOf p.id, p.snap⟩ : HitS) :: stack) holds r.1 r.2
          (by simpa using hr)
        simp only [List.map_cons, laneFold, objEv, hoe, decide_false, laneStep, if_false, Option.toList, List.cons_append,
          Bool.false_eq_true, List.map_nil, List.nil_append]
        simp only [Option.toList, List.map_cons, List.map_nil, List.cons_append, List.nil_append] at this
        rw [this]
        simp [SHit.toHitS]

end Reamber.BMS
