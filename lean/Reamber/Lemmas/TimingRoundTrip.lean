/-
K1 — milliseconds → positions → milliseconds.  `TimingMap.snaps` (reverse pointer sweep by offset + un-permutation
+ `Snap.from_offset`) followed by `TimingMap.offsets` returns the same time for every time whose beat distance
from the active tempo change is a grid value.
-/
import Reamber.Lemmas.TimingMono
import Reamber.Lemmas.TimingOrder

namespace Reamber.Timing

/-! ### the sweep of `snaps` = independent per-query lookup -/

/-- independent per-query lookup by millisecond offset (`rb` lists the changes latest first) -/
def lookupSnap (g : Array Rat) (rb : List (BcSnap × BcOff)) (t : Rat) : Except Err Snap :=
  match rb.dropWhile (fun p => decide (p.2.offset > t)) with
  | [] => .error .index
  | (bcs, bco) :: _ => snapFromOffset g t bco bcs

/-- queries weakly descending -/
def DescRats : List Rat → Prop
  | [] => True
  | [_] => True
  | a :: b :: rest => b ≤ a ∧ DescRats (b :: rest)

theorem DescRats.tail {q : Rat} {qs : List Rat} (h : DescRats (q :: qs)) : DescRats qs := by
  cases qs with
  | nil => trivial
  | cons b rest => exact h.2

theorem DescRats.all_le {q : Rat} {qs : List Rat} (h : DescRats (q :: qs)) : ∀ q' ∈ qs, q' ≤ q := by
  induction qs generalizing q with
  | nil => intro _ hm; cases hm
  | cons b rest ih =>
    intro q' hmem
    rcases List.mem_cons.mp hmem with e | hm
    · rw [e]; exact h.1
    · exact le_trans (ih h.2 q' hm) h.1

theorem sweepSnaps_eq_mapE (g : Array Rat) (rb : List (BcSnap × BcOff)) (qs : List Rat) (hq : DescRats qs) :
    sweepSnaps g rb qs = mapE (lookupSnap g rb) qs := by
  induction qs generalizing rb with
  | nil => simp [sweepSnaps, mapE]
  | cons q qs ih =>
    have hq' := hq.tail
    have hall := hq.all_le
    unfold sweepSnaps
    simp only [mapE]
    generalize hR : mapE (lookupSnap g rb) qs = R
    unfold lookupSnap
    cases hdw : rb.dropWhile (fun p => decide (p.2.offset > q)) with
    | nil => simp [bind, Except.bind]
    | cons hd rb' =>
      obtain ⟨bcs, bco⟩ := hd
      simp only []
      have key : mapE (lookupSnap g ((bcs, bco) :: rb')) qs = mapE (lookupSnap g rb) qs := by
        apply mapE_congr
        intro q' hmem
        unfold lookupSnap
        rw [← hdw, dropWhile_dropWhile_of_imp]
        intro x hx
        simp only [decide_eq_true_eq] at hx ⊢
        exact lt_of_le_of_lt (hall q' hmem) hx
      rw [ih _ hq', key, hR]

/-- `σ` arranges the millisecond queries in ascending order (any tie order) -/
def SortsAscR (σ : List Nat) (qs : List Rat) : Prop :=
  IsPerm σ ∧ σ.length = qs.length ∧ DescRats (gather qs σ).reverse

/-- results of `TimingMap.snaps` come back in the order of the queries -/
theorem snapsWith_order (g : Array Rat) (σ : List Nat) (tm : List BcOff) (qs : List Rat)
    (bco : List BcOff) (bcs : List BcSnap) (F : Rat → Snap)
    (hb : bcsOfBco g tm = .ok (bco, bcs)) (hσ : SortsAscR σ qs)
    (hF : ∀ q ∈ qs, lookupSnap g (bcs.zip bco).reverse q = .ok (F q)) :
    snapsWith g σ tm qs = .ok (qs.map F) := by
  obtain ⟨hperm, hlen, hdesc⟩ := hσ
  unfold snapsWith
  simp only [hb, bind, Except.bind]
  have hg : gather qs σ.reverse = (gather qs σ).reverse := by simp [gather]
  rw [sweepSnaps_eq_mapE _ _ _ (by rw [hg]; exact hdesc)]
  have hmem : ∀ q ∈ gather qs σ.reverse, lookupSnap g (bcs.zip bco).reverse q = .ok (F q) := by
    intro q hq
    simp only [gather, List.mem_map] at hq
    obtain ⟨i, hi, rfl⟩ := hq
    apply hF
    have hi' : i < qs.length := by
      have := (isPerm_reverse hperm).mem_iff i
      rw [this] at hi
      simpa [hlen] using hi
    simp [List.getD_eq_getElem?_getD, List.getElem?_eq_getElem hi']
  rw [mapE_eq_ok_map _ F _ hmem]
  simp only []
  rw [gather_map_argsort F qs σ.reverse (isPerm_reverse hperm) (by simpa using hlen)]

/-! ### a generic backwards scan -/

/-- forward search: the last element before the first one that is `above` -/
def activeGen {α} (above : α → Bool) (cur : α) : List α → α
  | [] => cur
  | n :: rest => if above n then cur else activeGen above n rest

theorem dropWhile_reverse_gen {α} (above : α → Bool) (cur : α) (rest : List α)
    (hmono : (cur :: rest).Pairwise (fun a b => above a = true → above b = true)) (hcur : above cur = false) :
    ∃ tl, ((cur :: rest).reverse).dropWhile above = activeGen above cur rest :: tl := by
  induction rest generalizing cur with
  | nil => exact ⟨[], by simp [activeGen, hcur]⟩
  | cons n rest ih =>
    have hp := List.pairwise_cons.mp hmono
    rw [List.reverse_cons]
    by_cases hn : above n = true
    · refine ⟨[], ?_⟩
      have hall : ∀ a ∈ (n :: rest).reverse, above a = true := by
        intro a ha
        rcases List.mem_cons.mp (List.mem_reverse.mp ha) with rfl | ha
        · exact hn
        · exact (List.pairwise_cons.mp hp.2).1 a ha hn
      rw [List.dropWhile_append_of_pos hall]
      simp [activeGen, hn, hcur]
    · have hn' : above n = false := by simpa using hn
      obtain ⟨tl, htl⟩ := ih n hp.2 hn'
      refine ⟨tl ++ [cur], ?_⟩
      rw [List.dropWhile_append, htl]
      simp [activeGen, hn']

/-! ### `Snap.from_offset` in general -/

theorem snapOn_nonneg {g : Array Rat} (hg : GridOK g) {x : Rat} (hx : 0 ≤ x) : 0 ≤ snapOn g x := by
  have hn := snapOn_nearest hg.asc x ⟨1, hg.one_mem, le_of_lt (frac_lt_one x)⟩
  have hb := (hg.bounds _ hn.1).1
  have hf : (0 : Rat) ≤ ((ffloor x : Int) : Rat) := by
    have : (0 : Int) ≤ ffloor x := Rat.le_floor_iff.mpr (by simpa using hx)
    exact_mod_cast this
  linarith

/-- the beat distance `Snap.from_offset` really uses: whole measures + the snapped remainder -/
def snappedDist (g : Array Rat) (M D : Rat) : Rat :=
  (((D / M).floor : Int) : Rat) * M + snapOn g (D - (((D / M).floor : Int) : Rat) * M)

/-- `Snap.from_offset(T + D·beat_length, bco, bcs)`, `D ≥ 0`: succeeds, is normalised to the active metronome, and
sits `snappedDist` beats after the active change. -/
theorem snapFromOffset_total {g : Array Rat} (hg : GridOK g) (T D : Rat) (cur : BcSnap) (wc : WfChange cur)
    (hD : 0 ≤ D) :
    ∃ S, snapFromOffset g (T + D * beatLen cur.bpm) ⟨cur.bpm, cur.met, T⟩ cur = .ok S ∧ S.met = some cur.met ∧
      0 ≤ S.measure ∧ 0 ≤ S.beat ∧ S.beat < cur.met ∧
      (S.measure : Rat) * cur.met + S.beat =
        (cur.snap.measure : Rat) * cur.met + cur.snap.beat + snappedDist g cur.met D := by
  have hbl := beatLen_pos wc.bpm_pos
  have hM := wc.met_pos
  have e1 : T + D * beatLen cur.bpm - T = D * beatLen cur.bpm := by ring
  have e2 : D * beatLen cur.bpm / (beatLen cur.bpm * cur.met) = D / cur.met := by
    field_simp
  have e3 : (D * beatLen cur.bpm - (((D / cur.met).floor : Int) : Rat) * (beatLen cur.bpm * cur.met)) / beatLen cur.bpm
      = D - (((D / cur.met).floor : Int) : Rat) * cur.met := by
    field_simp
  have hsf : snapFromOffset g (T + D * beatLen cur.bpm) ⟨cur.bpm, cur.met, T⟩ cur
      = Snap.make ((D / cur.met).floor + cur.snap.measure)
          (snapOn g (D - (((D / cur.met).floor : Int) : Rat) * cur.met) + cur.snap.beat) (some cur.met) := by
    unfold snapFromOffset pyFloorDiv measLen
    simp only []
    rw [e1, e2, e3]
  rw [hsf]
  have hk0 : 0 ≤ (D / cur.met).floor := Rat.le_floor_iff.mpr (by simpa using div_nonneg hD hM.le)
  have hfl := Rat.floor_le (D / cur.met)
  have h1 : (((D / cur.met).floor : Int) : Rat) * cur.met ≤ D := by
    have := mul_le_mul_of_nonneg_right hfl hM.le
    rwa [div_mul_cancel₀ D (ne_of_gt hM)] at this
  have hsn := snapOn_nonneg hg (x := D - (((D / cur.met).floor : Int) : Rat) * cur.met) (by linarith)
  have hcm := wc.measure_nonneg
  have hcb := wc.beat_nonneg
  have hk0' : (0 : Rat) ≤ (((D / cur.met).floor : Int) : Rat) := by exact_mod_cast hk0
  obtain ⟨s, hs, hmet, hm0, hsb0, hsbM, hval⟩ := Snap.make_spec ((D / cur.met).floor + cur.snap.measure)
    (snapOn g (D - (((D / cur.met).floor : Int) : Rat) * cur.met) + cur.snap.beat) cur.met (by omega) hM
    (by push_cast
        have := mul_nonneg (show (0 : Rat) ≤ (cur.snap.measure : Rat) by exact_mod_cast hcm) hM.le
        have := mul_nonneg hk0' hM.le
        nlinarith)
  refine ⟨s, hs, hmet, hm0, hsb0, hsbM, ?_⟩
  rw [hval]; unfold snappedDist; push_cast; ring

theorem snappedDist_of_grid {g : Array Rat} (hg : GridOK g) {M D : Rat} (hMint : ∃ k : Int, M = (k : Rat))
    (hgrid : frac D ∈ g.toList) : snappedDist g M D = D := by
  obtain ⟨kM, hkM⟩ := hMint
  unfold snappedDist
  have hfr : frac (D - (((D / M).floor : Int) : Rat) * M) = frac D := by
    have : (((D / M).floor : Int) : Rat) * M = (((D / M).floor * kM : Int) : Rat) := by
      rw [hkM]; push_cast; ring
    rw [this, frac_sub_int]
  rw [snapOn_fix hg.asc _ (by rw [hfr]; exact hgrid)]
  ring

/-! ### positions normalised to one metronome: lexicographic order = order of the beat counts -/

theorem Snap.le_of_total_le {a b : Snap} {M : Rat} (hM : 0 < M) (ha0 : 0 ≤ a.beat) (_haM : a.beat < M)
    (_hb0 : 0 ≤ b.beat) (hbM : b.beat < M)
    (h : (a.measure : Rat) * M + a.beat ≤ (b.measure : Rat) * M + b.beat) : a.le b = true := by
  simp only [Snap.le, Snap.lt, Snap.eqv, Bool.or_eq_true, Bool.and_eq_true, decide_eq_true_eq]
  rcases lt_trichotomy a.measure b.measure with hlt | heq | hgt
  · exact Or.inl (Or.inl hlt)
  · rw [heq] at h
    have : a.beat ≤ b.beat := by linarith
    rcases lt_or_eq_of_le this with h1 | h1
    · exact Or.inl (Or.inr ⟨heq, h1⟩)
    · exact Or.inr ⟨heq, h1⟩
  · exfalso
    have : (b.measure : Rat) + 1 ≤ (a.measure : Rat) := by exact_mod_cast hgt
    have := mul_le_mul_of_nonneg_right this hM.le
    nlinarith

theorem Snap.not_le_of_total_lt {a b : Snap} {M : Rat} (hM : 0 < M) (ha0 : 0 ≤ a.beat) (hbM : b.beat < M)
    (h : (a.measure : Rat) * M + a.beat < (b.measure : Rat) * M + b.beat) : ¬ (b.le a = true) := by
  intro hle
  simp only [Snap.le, Snap.lt, Snap.eqv, Bool.or_eq_true, Bool.and_eq_true, decide_eq_true_eq] at hle
  rcases hle with (h1 | ⟨h1, h2⟩) | ⟨h1, h2⟩
  · have : (b.measure : Rat) + 1 ≤ (a.measure : Rat) := by exact_mod_cast h1
    have := mul_le_mul_of_nonneg_right this hM.le
    nlinarith
  · rw [h1] at h; linarith
  · rw [h1, h2] at h; exact lt_irrefl _ h

/-! ### the declarative inverse and the round trip -/

/-- declarative inverse of `timeAt`: find the segment by time, then `Snap.from_offset` there -/
def snapAtAux (g : Array Rat) (T : Rat) (cur : BcSnap) : List BcSnap → Rat → Except Err Snap
  | [], t => snapFromOffset g t ⟨cur.bpm, cur.met, T⟩ cur
  | n :: rest, t =>
    if T + snapDist cur.snap n.snap cur.met * beatLen cur.bpm ≤ t then
      snapAtAux g (T + snapDist cur.snap n.snap cur.met * beatLen cur.bpm) n rest t
    else snapFromOffset g t ⟨cur.bpm, cur.met, T⟩ cur

def snapAt (g : Array Rat) (t0 : Rat) (cs : List BcSnap) (t : Rat) : Except Err Snap :=
  match cs with
  | [] => .error .index
  | c :: rest => snapAtAux g t0 c rest t

/-- the beat distance of `t` from its active tempo change is a grid value -/
def onGridAux (g : List Rat) (T : Rat) (cur : BcSnap) : List BcSnap → Rat → Prop
  | [], t => frac ((t - T) / beatLen cur.bpm) ∈ g
  | n :: rest, t =>
    if T + snapDist cur.snap n.snap cur.met * beatLen cur.bpm ≤ t then
      onGridAux g (T + snapDist cur.snap n.snap cur.met * beatLen cur.bpm) n rest t
    else frac ((t - T) / beatLen cur.bpm) ∈ g

/-- `t` is at or after the first change and lies on the snap grid of its active segment -/
def OnGridAt (g : List Rat) (t0 : Rat) (cs : List BcSnap) (t : Rat) : Prop :=
  match cs with
  | [] => False
  | c :: rest => t0 ≤ t ∧ onGridAux g t0 c rest t

theorem pairwise_zip_snd {α β} {R : β → β → Prop} {l' : List β} (h : l'.Pairwise R) (l : List α) :
    (l.zip l').Pairwise (fun a b => R a.2 b.2) := by
  induction l' generalizing l with
  | nil => simp
  | cons b t' ih =>
    cases l with
    | nil => simp
    | cons a t =>
      have hp := List.pairwise_cons.mp h
      simp only [List.zip_cons_cons]
      refine List.pairwise_cons.mpr ⟨?_, ih hp.2 t⟩
      intro x hx
      exact hp.1 x.2 (List.of_mem_zip (a := x.1) (b := x.2) hx).2

theorem snapAtAux_eq_active (g : Array Rat) (T : Rat) (cur : BcSnap) (rest : List BcSnap) (t : Rat) :
    snapAtAux g T cur rest t =
      snapFromOffset g t
        (activeGen (fun p : BcSnap × BcOff => decide (p.2.offset > t)) (cur, ⟨cur.bpm, cur.met, T⟩)
          (rest.zip (tmTail T cur rest))).2
        (activeGen (fun p : BcSnap × BcOff => decide (p.2.offset > t)) (cur, ⟨cur.bpm, cur.met, T⟩)
          (rest.zip (tmTail T cur rest))).1 := by
  induction rest generalizing T cur with
  | nil => simp [snapAtAux, activeGen]
  | cons n rest ih =>
    simp only [snapAtAux, tmTail, List.zip_cons_cons, activeGen]
    by_cases h : T + snapDist cur.snap n.snap cur.met * beatLen cur.bpm ≤ t
    · have h' : ¬ (T + snapDist cur.snap n.snap cur.met * beatLen cur.bpm > t) := not_lt.mpr h
      simp only [h, if_true, h', decide_false, Bool.false_eq_true, if_false]
      exact ih _ n
    · have h' : T + snapDist cur.snap n.snap cur.met * beatLen cur.bpm > t := not_le.mp h
      simp only [h, if_false, h', decide_true, if_true]

theorem lookupSnap_eq_snapAtAux (g : Array Rat) (T : Rat) (cur : BcSnap) (rest : List BcSnap) (t : Rat)
    (hwf : wfChanges (cur :: rest) = true) (hs : sortedSnaps (cur :: rest) = true) (hT : T ≤ t) :
    lookupSnap g ((cur, (⟨cur.bpm, cur.met, T⟩ : BcOff)) :: rest.zip (tmTail T cur rest)).reverse t
      = snapAtAux g T cur rest t := by
  have hpw : ((cur, (⟨cur.bpm, cur.met, T⟩ : BcOff)) :: rest.zip (tmTail T cur rest)).Pairwise
      (fun a b => (fun p : BcSnap × BcOff => decide (p.2.offset > t)) a = true →
        (fun p : BcSnap × BcOff => decide (p.2.offset > t)) b = true) := by
    have h1 : ((⟨cur.bpm, cur.met, T⟩ : BcOff) :: tmTail T cur rest).Pairwise (fun a b => a.offset ≤ b.offset) := by
      refine List.pairwise_cons.mpr ⟨tmTail_ge T cur rest hwf hs, ?_⟩
      exact (tmTail_pairwise T cur rest hwf hs).imp (fun h => by simpa using h)
    have h3 := pairwise_zip_snd h1 (cur :: rest)
    simp only [List.zip_cons_cons] at h3
    exact h3.imp (fun {a b} hab => by
      simp only [decide_eq_true_eq]
      intro h; exact lt_of_lt_of_le h hab)
  obtain ⟨tl, htl⟩ := dropWhile_reverse_gen (fun p : BcSnap × BcOff => decide (p.2.offset > t))
    (cur, ⟨cur.bpm, cur.met, T⟩) (rest.zip (tmTail T cur rest)) hpw (by simpa using hT)
  unfold lookupSnap
  rw [htl, snapAtAux_eq_active]

theorem snapDist_eq_of_total {c S : Snap} {M D : Rat}
    (h : (S.measure : Rat) * M + S.beat = (c.measure : Rat) * M + c.beat + D) : snapDist c S M = D := by
  unfold snapDist; push_cast; linarith

/-- in the segment that starts at `cur` (time `T`), an on-grid time `t ≥ T` maps to a position `S` with
`cur ≤ S`, at beat distance `(t − T)/beat_length` from `cur`, normalised to `cur`'s metronome -/
theorem snapFromOffset_onGrid {g : Array Rat} (hg : GridOK g) (T t : Rat) (cur : BcSnap) (wc : WfChange cur)
    (hT : T ≤ t) (hgrid : frac ((t - T) / beatLen cur.bpm) ∈ g.toList) :
    ∃ S, snapFromOffset g t ⟨cur.bpm, cur.met, T⟩ cur = .ok S ∧ cur.snap.le S = true ∧ 0 ≤ S.beat ∧
      S.beat < cur.met ∧
      (S.measure : Rat) * cur.met + S.beat =
        (cur.snap.measure : Rat) * cur.met + cur.snap.beat + (t - T) / beatLen cur.bpm ∧
      T + snapDist cur.snap S cur.met * beatLen cur.bpm = t := by
  have hbl := beatLen_pos wc.bpm_pos
  have hD : 0 ≤ (t - T) / beatLen cur.bpm := div_nonneg (by linarith) hbl.le
  obtain ⟨S, hS, _, _, hb0, hbM, htot⟩ := snapFromOffset_total hg T ((t - T) / beatLen cur.bpm) cur wc hD
  have ht : T + (t - T) / beatLen cur.bpm * beatLen cur.bpm = t := by
    rw [div_mul_cancel₀ _ (ne_of_gt hbl)]; ring
  rw [ht] at hS
  rw [snappedDist_of_grid hg wc.met_int hgrid] at htot
  refine ⟨S, hS, ?_, hb0, hbM, htot, ?_⟩
  · exact Snap.le_of_total_le wc.met_pos wc.beat_nonneg wc.beat_lt hb0 hbM (by linarith)
  · rw [snapDist_eq_of_total htot]; exact ht

/-- **ms → position → ms is the identity on the grid** (declarative form): the position the inverse assigns to an
on-grid time integrates back to that time. -/
theorem timeAtAux_snapAtAux {g : Array Rat} (hg : GridOK g) (T : Rat) (cur : BcSnap) (rest : List BcSnap) (t : Rat)
    (hwf : wfChanges (cur :: rest) = true) (hs : sortedSnaps (cur :: rest) = true)
    (hm : metronomeOk (cur :: rest) = true) (hT : T ≤ t) (hgrid : onGridAux g.toList T cur rest t) :
    ∃ S, snapAtAux g T cur rest t = .ok S ∧ cur.snap.le S = true ∧ 0 ≤ S.beat ∧ timeAtAux T cur rest S = t := by
  induction rest generalizing T cur with
  | nil =>
    have wc := wfChanges_mem hwf (List.mem_cons_self)
    obtain ⟨S, hS, hle, hb0, _, _, hback⟩ := snapFromOffset_onGrid hg T t cur wc hT hgrid
    exact ⟨S, hS, hle, hb0, hback⟩
  | cons n rest ih =>
    have wc := wfChanges_mem hwf (List.mem_cons_self)
    have wn := wfChanges_mem hwf (List.mem_cons_of_mem _ List.mem_cons_self)
    obtain ⟨hm1, hm2⟩ := metronomeOk_cons hm
    have hcn : cur.snap.le n.snap = true := sortedSnaps_head_le hs n List.mem_cons_self
    simp only [snapAtAux, onGridAux] at hgrid ⊢
    by_cases h : T + snapDist cur.snap n.snap cur.met * beatLen cur.bpm ≤ t
    · rw [if_pos h] at hgrid ⊢
      obtain ⟨S, hS, hle, hb0, hback⟩ := ih _ n (wfChanges_tail hwf) (sortedSnaps_tail hs) hm2 h hgrid
      refine ⟨S, hS, Snap.le_trans hcn hle, hb0, ?_⟩
      simp only [timeAtAux, hle, if_true]
      exact hback
    · rw [if_neg h] at hgrid ⊢
      obtain ⟨S, hS, hle, hb0, _, htot, hback⟩ := snapFromOffset_onGrid hg T t cur wc hT hgrid
      refine ⟨S, hS, hle, hb0, ?_⟩
      have hbl := beatLen_pos wc.bpm_pos
      have hnb : n.snap.beat < cur.met := by
        rcases hm1 with h' | h'
        · rw [h']; exact wn.beat_lt
        · rw [h']; exact wc.met_pos
      -- t lies before the next change, so S lies before the next change's position
      have hlt : (t - T) / beatLen cur.bpm < snapDist cur.snap n.snap cur.met := by
        rw [div_lt_iff₀ hbl]; linarith [not_le.mp h]
      have hnle : ¬ (n.snap.le S = true) := by
        apply Snap.not_le_of_total_lt wc.met_pos hb0 hnb
        rw [htot]
        unfold snapDist at hlt
        push_cast at hlt
        linarith
      simp only [timeAtAux, hnle]
      exact hback

end Reamber.Timing
