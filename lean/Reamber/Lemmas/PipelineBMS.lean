/-
C09 glue for BMS sources: the list frames of an in-memory `BMSMap` as the converters read them.  `BMSToOsu.convert`
reads the `sample` column of the hit and hold lists (`hitsound_file`), which the generic embedding `embA` does not have:
`embBMS` adds it (the byte → text codec is a parameter, as in C08).  Lemmas: a column appended to a frame does not change
the projection on the key columns; `embBMS` commutes with the abstraction and satisfies C08's well-formedness.
-/
import Reamber.Lemmas.PipelineGeneric

namespace Reamber.Pipeline

open Reamber.Convert

/-- the frame with one more column `k` (after the existing ones) -/
def withCol (f : Frame) (k : String) (v : List Cell) : Frame := ⟨f.index, f.cols ++ [(k, v)]⟩

theorem withCol_col_of_some (f : Frame) (k : String) (v : List Cell) (k' : String) (c : List Cell)
    (h : f.col? k' = some c) : (withCol f k v).col? k' = some c := by
  simp only [Frame.col?, withCol] at h ⊢
  rw [List.lookup_append, h]
  rfl

theorem colsOf_withCol (f : Frame) (k : String) (v : List Cell) (ks : List String) (r : List (List Cell))
    (h : colsOf f ks = some r) : colsOf (withCol f k v) ks = some r := by
  induction ks generalizing r with
  | nil => simpa [colsOf] using h
  | cons a t ih =>
    simp only [colsOf] at h ⊢
    cases hc : f.col? a with
    | none => simp [hc] at h
    | some c =>
      cases ht : colsOf f t with
      | none => simp [hc, ht] at h
      | some r' =>
        rw [withCol_col_of_some f k v a c hc, ih r' ht]
        simpa [hc, ht] using h

theorem rowsOfFrame_withCol (f : Frame) (k : String) (v : List Cell) (ks : List String)
    (h : (colsOf f ks).isSome = true) : rowsOfFrame (withCol f k v) ks = rowsOfFrame f ks := by
  obtain ⟨r, hr⟩ := Option.isSome_iff_exists.mp h
  unfold rowsOfFrame projRows
  rw [colsOf_withCol f k v ks r hr, hr]
  rfl

/-- the list frames of an in-memory `BMSMap`: key columns and the `sample` column (text by `dec`) of hits and holds, the
stored tempo list; row labels `0..n-1` -/
def embBMS (dec : BMS.Bytes → String) (c : BMS.Chart) (attrs : List (String × String)) (lv : String) : SrcMap :=
  ⟨[("hits", withCol (numFrame c.hits [("offset", fun h => h.offset), ("column", fun h => (((h.col : Nat) : Int) : Rat))]) "sample"
        (c.hits.map fun h => Cell.str (dec h.sample))),
    ("holds", withCol (numFrame c.holds [("offset", fun h => h.offset), ("column", fun h => (((h.col : Nat) : Int) : Rat)),
        ("length", fun h => h.length)]) "sample" (c.holds.map fun h => Cell.str (dec h.sample))),
    ("bpms", numFrame c.bpms [("offset", fun b => b.offset), ("bpm", fun b => b.bpm)])], attrs, lv⟩

/-- the abstract chart of what the BMS reader returns (hits, holds, the stored — re-seated — tempo list) -/
def ofBMSRead (c : BMS.Chart) : AChart :=
  { hits := c.hits.map (fun h => (h.offset, (h.col : Int)))
    holds := c.holds.map (fun h => (h.offset, (h.col : Int), h.length))
    bpms := c.bpms.map (fun b => (b.offset, b.bpm)) }

theorem numFrame_map {α β} (l : List α) (g : α → β) (cols : List (String × (β → Rat))) :
    numFrame (l.map g) cols = numFrame l (cols.map fun p => (p.1, p.2 ∘ g)) := by
  simp [numFrame, List.map_map, Function.comp]

/-- **embedding commutes with abstraction** -/
theorem ofSrcMap_embBMS (dec : BMS.Bytes → String) (c : BMS.Chart) (attrs : List (String × String)) (lv : String) :
    ofSrcMap (embBMS dec c attrs lv) = ofBMSRead c := by
  have key : ofSrcMap (embBMS dec c attrs lv) = ofSrcMap (embA (ofBMSRead c) none attrs lv) := by
    obtain ⟨l1, l2, l3⟩ := embA_lookups (ofBMSRead c) none attrs lv
    unfold ofSrcMap
    rw [l1, l2, l3]
    simp only [embBMS, List.lookup, beq_self_eq_true, show ("holds" == "hits") = false by decide,
      show ("bpms" == "hits") = false by decide, show ("bpms" == "holds") = false by decide, ofFrames]
    rw [rowsOfFrame_withCol _ _ _ _ (by simp [colsOf, Frame.col?, numFrame, keysHits, List.lookup]),
        rowsOfFrame_withCol _ _ _ _ (by simp [colsOf, Frame.col?, numFrame, keysHolds, List.lookup])]
    simp only [ofBMSRead, numFrame_map, List.map_cons, List.map_nil]
    rfl
  rw [key, ofSrcMap_embA]

theorem srcMapOk_embBMS (dec : BMS.Bytes → String) (c : BMS.Chart) (attrs : List (String × String)) (lv : String) :
    srcMapOk (embBMS dec c attrs lv) = true := by
  simp [srcMapOk, embBMS, withCol, colsOf, Frame.col?, numFrame, keysHits, keysHolds, keysBpms, frameWF, Frame.nrows,
    rangeIdx, List.lookup]

end Reamber.Pipeline
