/-
C03 — reading a chart's rows: the specification's `events` (row `r` of the `R` rows of measure `m` at beat `4m + 4r/R`,
symbols with their columns) lists exactly the symbol cells of the text, in strictly ascending (beat, column) order.
-/
import Reamber.Lemmas.SMPairInv
import Reamber.Lemmas.SMFill
import Mathlib.Tactic.Ring
import Mathlib.Tactic.FieldSimp
import Mathlib.Tactic.Positivity

namespace Reamber.SM

open Reamber.Timing

theorem mem_zipIdx_off {α} : ∀ (l : List α) (n : Nat) (p : α × Nat),
    p ∈ l.zipIdx n ↔ n ≤ p.2 ∧ l[p.2 - n]? = some p.1 := by
  intro l
  induction l with
  | nil => intro n p; simp
  | cons a t ih =>
    intro n p
    rw [List.zipIdx_cons, List.mem_cons, ih]
    constructor
    · rintro (rfl | ⟨h1, h2⟩)
      · simp
      · refine ⟨by omega, ?_⟩
        have : p.2 - n = (p.2 - (n + 1)) + 1 := by omega
        rw [this, List.getElem?_cons_succ]; exact h2
    · rintro ⟨h1, h2⟩
      by_cases h : p.2 = n
      · left
        rw [h, Nat.sub_self, List.getElem?_cons_zero] at h2
        cases p; simp_all
      · right
        refine ⟨by omega, ?_⟩
        have : p.2 - n = (p.2 - (n + 1)) + 1 := by omega
        rw [this, List.getElem?_cons_succ] at h2; exact h2

theorem mem_zipIdx0 {α} (l : List α) (p : α × Nat) : p ∈ l.zipIdx ↔ l[p.2]? = some p.1 := by
  rw [mem_zipIdx_off]; simp

theorem pairwise_zipIdx_lt {α} : ∀ (l : List α) (n : Nat), (l.zipIdx n).Pairwise (fun p q => p.2 < q.2) := by
  intro l
  induction l with
  | nil => intro n; simp
  | cons a t ih =>
    intro n
    rw [List.zipIdx_cons, List.pairwise_cons]
    refine ⟨?_, ih (n + 1)⟩
    intro q hq
    have := (mem_zipIdx_off t (n + 1) q).mp hq
    simp only
    omega

/-- a list built by `flatMap` over indexed elements is pairwise related when each block is, and blocks of smaller
index come before blocks of larger index -/
theorem pairwise_flatMap_zipIdx {α β} (R : β → β → Prop) (l : List α) (f : α × Nat → List β)
    (h1 : ∀ p ∈ l.zipIdx, (f p).Pairwise R)
    (h2 : ∀ p ∈ l.zipIdx, ∀ q ∈ l.zipIdx, p.2 < q.2 → ∀ x ∈ f p, ∀ y ∈ f q, R x y) :
    (l.zipIdx.flatMap f).Pairwise R := by
  rw [List.pairwise_flatMap]
  refine ⟨h1, ?_⟩
  exact (pairwise_zipIdx_lt l 0).imp_of_mem (fun {p q} hp hq hlt => h2 p hp q hq hlt)

/-- the symbols of a row, by cell -/
theorem mem_rowSyms (row : Str) (c : Nat) (s : Sym) :
    (c, s) ∈ rowSyms row ↔ ∃ ch, row[c]? = some ch ∧ symOf ch = some s := by
  unfold rowSyms
  rw [List.mem_filterMap]
  constructor
  · rintro ⟨ci, hci, hmap⟩
    rw [mem_zipIdx0] at hci
    cases hs : symOf ci.1 with
    | none => simp [hs] at hmap
    | some s' =>
      simp only [hs, Option.map_some, Option.some.injEq, Prod.mk.injEq] at hmap
      obtain ⟨rfl, rfl⟩ := hmap
      exact ⟨ci.1, hci, hs⟩
  · rintro ⟨ch, hch, hs⟩
    exact ⟨(ch, c), (mem_zipIdx0 row (ch, c)).mpr hch, by simp [hs]⟩

theorem pairwise_rowSyms (row : Str) : (rowSyms row).Pairwise (fun a b => a.1 < b.1) := by
  unfold rowSyms
  apply List.Pairwise.filterMap (R := fun (p q : Char × Nat) => p.2 < q.2)
  · intro a a' haa b hb b' hb'
    cases hs : symOf a.1 with
    | none => simp [hs] at hb
    | some s =>
      cases hs' : symOf a'.1 with
      | none => simp [hs'] at hb'
      | some s' =>
        simp only [hs, hs', Option.map_some, Option.mem_def, Option.some.injEq] at hb hb'
        subst hb hb'
        exact haa
  · exact pairwise_zipIdx_lt row 0

/-- the beat of row `r` of the `R` rows of measure `m` -/
def rowBeat (m r R : Nat) : Rat := 4 * (m : Rat) + 4 * (r : Rat) / (R : Rat)

/-- **The events of a chart text, by cell**: `(c, b, s)` is an event iff some row `r` of some measure `m` has a
symbol character at column `c`, and `b` is that row's beat. -/
theorem mem_events (ms : List (List Str)) (c : Nat) (b : Rat) (s : Sym) :
    (c, b, s) ∈ events ms ↔
      ∃ m rows r row ch, ms[m]? = some rows ∧ rows[r]? = some row ∧ row[c]? = some ch ∧ symOf ch = some s ∧
        b = rowBeat m r rows.length := by
  unfold events
  simp only [List.mem_flatMap, List.mem_map]
  constructor
  · rintro ⟨rm, hrm, rr, hrr, cs, hcs, heq⟩
    rw [mem_zipIdx0] at hrm hrr
    obtain ⟨c', s'⟩ := cs
    simp only [Prod.mk.injEq] at heq
    obtain ⟨rfl, rfl, rfl⟩ := heq
    obtain ⟨ch, hch, hs⟩ := (mem_rowSyms rr.1 c' s').mp hcs
    exact ⟨rm.2, rm.1, rr.2, rr.1, ch, hrm, hrr, hch, hs, rfl⟩
  · rintro ⟨m, rows, r, row, ch, hm, hr, hc, hs, rfl⟩
    exact ⟨(rows, m), (mem_zipIdx0 ms (rows, m)).mpr hm, (row, r), (mem_zipIdx0 rows (row, r)).mpr hr, (c, s),
      (mem_rowSyms row c s).mpr ⟨ch, hc, hs⟩, rfl⟩

/-- **Reading order**: the events of any chart text are in strictly ascending (beat, column) order. -/
theorem events_sorted (ms : List (List Str)) : (events ms).Pairwise ltEv := by
  unfold events
  apply pairwise_flatMap_zipIdx
  · intro rm hrm
    apply pairwise_flatMap_zipIdx
    · intro rr _
      rw [List.pairwise_map]
      exact (pairwise_rowSyms rr.1).imp (fun {a b} h => Or.inr ⟨rfl, h⟩)
    · intro rr hrr rr' hrr' hlt x hx y hy
      obtain ⟨cs, _, rfl⟩ := List.mem_map.mp hx
      obtain ⟨cs', _, rfl⟩ := List.mem_map.mp hy
      left
      simp only
      have hR : 0 < rm.1.length := by
        have := (mem_zipIdx0 rm.1 rr).mp hrr
        have := (List.getElem?_eq_some_iff.mp this).1
        omega
      have hRq : (0 : Rat) < (rm.1.length : Rat) := by exact_mod_cast hR
      have hlt' : (rr.2 : Rat) < (rr'.2 : Rat) := by exact_mod_cast hlt
      have : 4 * (rr.2 : Rat) / (rm.1.length : Rat) < 4 * (rr'.2 : Rat) / (rm.1.length : Rat) := by
        apply div_lt_div_of_pos_right _ hRq
        linarith
      linarith
  · intro rm hrm rm' hrm' hlt x hx y hy
    obtain ⟨rr, hrr, hx'⟩ := List.mem_flatMap.mp hx
    obtain ⟨rr', hrr', hy'⟩ := List.mem_flatMap.mp hy
    obtain ⟨cs, _, rfl⟩ := List.mem_map.mp hx'
    obtain ⟨cs', _, rfl⟩ := List.mem_map.mp hy'
    left
    simp only
    have hr : rr.2 < rm.1.length := by
      have := (mem_zipIdx0 rm.1 rr).mp hrr
      exact (List.getElem?_eq_some_iff.mp this).1
    have hRq : (0 : Rat) < (rm.1.length : Rat) := by
      have : 0 < rm.1.length := by omega
      exact_mod_cast this
    have h1 : 4 * (rr.2 : Rat) / (rm.1.length : Rat) < 4 := by
      rw [div_lt_iff₀ hRq]
      have : (rr.2 : Rat) < (rm.1.length : Rat) := by exact_mod_cast hr
      linarith
    have h2 : (0 : Rat) ≤ 4 * (rr'.2 : Rat) / (rm'.1.length : Rat) :=
      div_nonneg (mul_nonneg (by norm_num) (Nat.cast_nonneg _)) (Nat.cast_nonneg _)
    have h3 : (rm.2 : Rat) + 1 ≤ (rm'.2 : Rat) := by exact_mod_cast hlt
    linarith

end Reamber.SM
