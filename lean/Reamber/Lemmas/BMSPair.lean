/-
C04 — supporting lemmas for the assembled `read = denote` theorem: what `pairLane` returns, positions of
by-the-book objects, layout lookups, the header record, flattening lanes, `allSome`.
-/
import Reamber.Lemmas.BMSTempo

namespace Reamber.BMS

open Reamber.Timing

/-! ### `allSome` -/

theorem allSome_eq_some {α β} (f : α → Option β) : ∀ (l : List α) (r : List β), allSome (l.map f) = some r →
    (∀ a ∈ l, (f a).isSome = true) ∧ r = l.filterMap f
  | [], r, h => by
    simp only [List.map_nil, allSome, Option.some.injEq] at h
    subst h
    simp
  | a :: t, r, h => by
    simp only [List.map_cons] at h
    cases hf : f a with
    | none => simp [hf, allSome] at h
    | some b =>
      simp only [hf, allSome, Option.map_eq_some_iff] at h
      obtain ⟨r', hr', rfl⟩ := h
      obtain ⟨h1, h2⟩ := allSome_eq_some f t r' hr'
      refine ⟨?_, ?_⟩
      · intro x hx
        rcases List.mem_cons.mp hx with rfl | hx
        · simp [hf]
        · exact h1 x hx
      · simp [hf, h2]

/-- `allSome` of a map: every entry is defined, and the result lists the values in order -/
theorem allSome_map_get {α β} [Inhabited β] (f : α → Option β) (l : List α) (r : List β) (h : allSome (l.map f) = some r) :
    (∀ a ∈ l, f a = some ((f a).getD default)) ∧ r = l.map (fun a => (f a).getD default) := by
  induction l generalizing r with
  | nil =>
    simp only [List.map_nil, allSome, Option.some.injEq] at h
    subst h
    simp
  | cons a t ih =>
    simp only [List.map_cons] at h
    cases hf : f a with
    | none => simp [hf, allSome] at h
    | some b =>
      simp only [hf, allSome, Option.map_eq_some_iff] at h
      obtain ⟨r', hr', rfl⟩ := h
      obtain ⟨h1, h2⟩ := ih r' hr'
      refine ⟨?_, ?_⟩
      · intro x hx
        rcases List.mem_cons.mp hx with rfl | hx
        · simp [hf]
        · exact h1 x hx
      · simp [hf, h2]

/-! ### positions of by-the-book objects -/

theorem objsOfPairs_pos (m : Nat) (ps : List Bytes) :
    ∀ o ∈ objsOfPairs m ps, 0 ≤ o.snap.measure ∧ 0 ≤ o.snap.beat ∧ o.snap.beat < 4 ∧ o.id.length = 2 ∨
      (0 ≤ o.snap.measure ∧ 0 ≤ o.snap.beat ∧ o.snap.beat < 4) := by
  intro o ho
  right
  simp only [objsOfPairs, List.mem_filterMap] at ho
  obtain ⟨p, hp, hpo⟩ := ho
  obtain ⟨_, hlt, _⟩ := zipIdxFrom_mem ps 0 p hp
  by_cases h00 : p.2 = ['0', '0']
  · simp [h00] at hpo
  · simp only [h00, if_false, Option.some.injEq] at hpo
    subst hpo
    have hn : (0 : Rat) < ((ps.length : Nat) : Rat) := by
      have : 0 < ps.length := by omega
      exact_mod_cast this
    have hi : ((p.1 : Nat) : Rat) < ((ps.length : Nat) : Rat) := by
      have : p.1 < ps.length := by omega
      exact_mod_cast this
    have hi0 : (0 : Rat) ≤ ((p.1 : Nat) : Rat) := by exact_mod_cast Nat.zero_le _
    refine ⟨by simp, ?_, ?_⟩
    · simp only; apply div_nonneg <;> linarith
    · simp only; rw [div_lt_iff₀ hn]; linarith

theorem objsOfPairs_id (m : Nat) (ps : List Bytes) (hlen : ∀ p ∈ ps, p.length = 2) :
    ∀ o ∈ objsOfPairs m ps, o.id.length = 2 := by
  intro o ho
  simp only [objsOfPairs, List.mem_filterMap] at ho
  obtain ⟨p, hp, hpo⟩ := ho
  obtain ⟨_, _, hmem⟩ := zipIdxFrom_mem ps 0 p hp
  by_cases h00 : p.2 = ['0', '0']
  · simp [h00] at hpo
  · simp only [h00, if_false, Option.some.injEq] at hpo
    subst hpo
    exact hlen p.2 hmem

/-- every object of a channel sits at a non-negative position inside its measure and carries a two-character id -/
theorem laneObjs_pos (notes : List (Bytes × Bytes × Bytes)) (ch : Bytes) :
    ∀ o ∈ laneObjs notes ch, 0 ≤ o.snap.measure ∧ 0 ≤ o.snap.beat ∧ o.snap.beat < 4 ∧ o.id.length = 2 := by
  intro o ho
  simp only [laneObjs, List.mem_flatMap, List.mem_filter] at ho
  obtain ⟨d, _, hod⟩ := ho
  unfold objsOfLine at hod
  cases hm : parseNat d.1 with
  | none => simp [hm] at hod
  | some m =>
    cases hps : evenPairs d.2.2 with
    | none => simp [hm, hps] at hod
    | some ps =>
      simp only [hm, hps] at hod
      have h1 := objsOfPairs_pos m ps o hod
      have h2 := objsOfPairs_id m ps (evenPairs_spec d.2.2 ps hps).2.2 o hod
      rcases h1 with h | h
      · exact ⟨h.1, h.2.1, h.2.2.1, h2⟩
      · exact ⟨h.1, h.2.1, h.2.2, h2⟩

/-! ### what `pairLane` returns -/

/-- every hit and hold that `pairLane` returns sits in the lane's column, at positions of the lane's objects -/
theorem pairLane_forall (P : Snap → Prop) (lnobj : Option Bytes) (so : Bytes → Bytes) (col : Nat) :
    ∀ (os : List Obj) (prev : Option Obj) (H : List SHit) (L : List SHold),
      (∀ o ∈ os, P o.snap) → (∀ p, prev = some p → P p.snap) → pairLane lnobj so col prev os = some (H, L) →
      (∀ h ∈ H, h.col = col ∧ P h.snap) ∧ (∀ l ∈ L, l.col = col ∧ P l.head ∧ P l.tail) := by
  intro os
  induction os with
  | nil =>
    intro prev H L _ hp h
    cases prev with
    | none =>
      simp only [pairLane, Option.some.injEq, Prod.mk.injEq] at h
      obtain ⟨rfl, rfl⟩ := h
      simp
    | some p =>
      simp only [pairLane, Option.some.injEq, Prod.mk.injEq] at h
      obtain ⟨rfl, rfl⟩ := h
      simp [hp p rfl]
  | cons o rest ih =>
    intro prev H L hos hp h
    have hos' : ∀ x ∈ rest, P x.snap := fun x hx => hos x (by simp [hx])
    have ho : P o.snap := hos o (by simp)
    by_cases hln : some o.id = lnobj
    · cases prev with
      | none => simp [pairLane, hln] at h
      | some p =>
        simp only [pairLane, hln, if_true, Option.map_eq_some_iff] at h
        obtain ⟨r, hr, hrl⟩ := h
        simp only [Prod.mk.injEq] at hrl
        obtain ⟨rfl, rfl⟩ := hrl
        obtain ⟨h1, h2⟩ := ih none r.1 r.2 hos' (by intro p hp'; cases hp') (by simpa using hr)
        refine ⟨h1, ?_⟩
        intro l hl
        rcases List.mem_cons.mp hl with rfl | hl
        · exact ⟨rfl, hp p rfl, ho⟩
        · exact h2 l hl
    · cases prev with
      | none =>
        simp only [pairLane, hln, if_false] at h
        exact ih (some o) H L hos' (by intro p hp'; cases hp'; exact ho) h
      | some p =>
        simp only [pairLane, hln, if_false, Option.map_eq_some_iff] at h
        obtain ⟨r, hr, hrl⟩ := h
        simp only [Prod.mk.injEq] at hrl
        obtain ⟨rfl, rfl⟩ := hrl
        obtain ⟨h1, h2⟩ := ih (some o) r.1 r.2 hos' (by intro p hp'; cases hp'; exact ho) (by simpa using hr)
        refine ⟨?_, h2⟩
        intro x hx
        rcases List.mem_cons.mp hx with rfl | hx
        · exact ⟨rfl, hp p rfl⟩
        · exact h1 x hx

/-! ### layout lookups -/

/-- what the assembled theorem needs of a layout (all of it follows from `Layout.wellFormed`) -/
structure LayoutOK (lay : Layout) : Prop where
  inj : LaneInj lay
  mem : ∀ lane ∈ lay.lanes, laneOf lay lane.1 = some lane.2
  of_lane : ∀ ch col, laneOf lay ch = some col → (ch, col) ∈ lay.lanes
  cols_nodup : (lay.lanes.map (·.2)).Nodup
  col_lt : ∀ lane ∈ lay.lanes, lane.2 < maxKeys
  not_tempo : ∀ lane ∈ lay.lanes, (lane.1 = lay.bpmCh || lane.1 = lay.exbpmCh) = false
  tempo_ne : lay.bpmCh ≠ lay.exbpmCh

theorem find_fst_of_mem {α β} [DecidableEq α] : ∀ (l : List (α × β)), (l.map (·.1)).Nodup → ∀ p ∈ l,
    l.find? (fun q => q.1 = p.1) = some p
  | [], _, p, hp => by cases hp
  | a :: t, hnd, p, hp => by
    have hnd' : a.1 ∉ t.map (·.1) ∧ (t.map (·.1)).Nodup := List.nodup_cons.mp (by rw [List.map_cons] at hnd; exact hnd)
    rcases List.mem_cons.mp hp with rfl | hp
    · simp
    · have hne : ¬ a.1 = p.1 := by
        intro e
        exact hnd'.1 (by rw [e]; exact List.mem_map_of_mem (f := fun q : α × β => q.1) hp)
      simp only [List.find?_cons, hne, decide_false]
      exact find_fst_of_mem t hnd'.2 p hp

theorem snd_inj_of_nodup {α β} : ∀ (l : List (α × β)), (l.map (·.2)).Nodup → ∀ p ∈ l, ∀ q ∈ l, p.2 = q.2 → p = q := by
  intro l
  induction l with
  | nil => intro _ p hp; cases hp
  | cons a t ih =>
    intro hnd p hp q hq h
    have hnd' : a.2 ∉ t.map (·.2) ∧ (t.map (·.2)).Nodup := List.nodup_cons.mp (by rw [List.map_cons] at hnd; exact hnd)
    rcases List.mem_cons.mp hp with ep | hp'
    · rcases List.mem_cons.mp hq with eq | hq'
      · rw [ep, eq]
      · exact absurd (by rw [← ep, h]; exact List.mem_map_of_mem (f := fun q : α × β => q.2) hq') hnd'.1
    · rcases List.mem_cons.mp hq with eq | hq'
      · exact absurd (by rw [← eq, ← h]; exact List.mem_map_of_mem (f := fun q : α × β => q.2) hp') hnd'.1
      · exact ih hnd'.2 p hp' q hq' h

theorem layoutOK_of (lay : Layout) (h1 : (lay.lanes.map (·.1)).Nodup) (h2 : (lay.lanes.map (·.2)).Nodup)
    (h3 : ∀ lane ∈ lay.lanes, lane.2 < maxKeys)
    (h4 : ∀ lane ∈ lay.lanes, lane.1 ≠ lay.bpmCh ∧ lane.1 ≠ lay.exbpmCh) (h5 : lay.bpmCh ≠ lay.exbpmCh) : LayoutOK lay := by
  have hof : ∀ ch col, laneOf lay ch = some col → (ch, col) ∈ lay.lanes := by
    intro ch col h
    simp only [laneOf, Option.map_eq_some_iff] at h
    obtain ⟨p, hp, rfl⟩ := h
    have hm := List.mem_of_find?_eq_some hp
    have he := List.find?_some hp
    simp only [decide_eq_true_eq] at he
    rw [← he]
    exact hm
  refine ⟨?_, ?_, hof, h2, h3, ?_, h5⟩
  · intro ch ch' col hl hl'
    have := snd_inj_of_nodup lay.lanes h2 _ (hof ch col hl) _ (hof ch' col hl') rfl
    exact (Prod.mk.inj this).1
  · intro lane hlane
    simp only [laneOf]
    rw [find_fst_of_mem lay.lanes h1 lane hlane]
    rfl
  · intro lane hlane
    have := h4 lane hlane
    simp [this.1, this.2]

/-! ### the header record -/

theorem readHeader_fields (data : Dict Bytes) (hdr : Header) (h : readHeader data = .ok hdr) :
    hdr.lnEnd = (dictGet? data "LNOBJ".toList).getD [] := by
  unfold readHeader at h
  cases hf : foldlE exbpmStep [] data with
  | error e => simp [hf, bind, Except.bind] at h
  | ok ex =>
    simp only [hf, bind, Except.bind] at h
    split at h
    · cases h
    · split at h
      · cases h
      · injection h with h
        rw [← h]

/-! ### flattening lanes -/

theorem zip_map_self {α β γ} (f : α → β) (h : α × β → γ) : ∀ l : List α, (l.zip (l.map f)).map h = l.map (fun x => h (x, f x))
  | [] => rfl
  | a :: t => by simp [zip_map_self f h t]

theorem zip_map_self2 {α β γ δ} (f : α → β) (g : α → γ) (h : α × β × γ → δ) :
    ∀ l : List α, (l.zip ((l.map f).zip (l.map g))).map h = l.map (fun x => h (x, f x, g x))
  | [] => rfl
  | a :: t => by simp [zip_map_self2 f g h t]

theorem flatMap_nil_of {α β} (G : α → List β) : ∀ l : List α, (∀ a ∈ l, G a = []) → l.flatMap G = []
  | [], _ => rfl
  | a :: t, h => by simp [h a (by simp), flatMap_nil_of G t (fun x hx => h x (by simp [hx]))]

/-- flattening per column over `0..n-1` is, up to order, flattening over the lanes of the layout, when every
column that is no lane contributes nothing -/
theorem flatMap_range_perm {β γ} (n : Nat) (lanes : List (β × Nat)) (G : Nat → List γ)
    (hnd : (lanes.map (·.2)).Nodup) (hlt : ∀ lane ∈ lanes, lane.2 < n)
    (hnil : ∀ k, (∀ lane ∈ lanes, lane.2 ≠ k) → G k = []) :
    ((List.range n).flatMap G).Perm (lanes.flatMap (fun lane => G lane.2)) := by
  let cols := lanes.map (·.2)
  let p : Nat → Bool := fun k => decide (k ∈ cols)
  have h1 : (List.range n).Perm ((List.range n).filter p ++ (List.range n).filter (fun k => !p k)) :=
    (List.filter_append_perm p (List.range n)).symm
  have h2 : ((List.range n).filter (fun k => !p k)).flatMap G = [] := by
    apply flatMap_nil_of
    intro k hk
    simp only [List.mem_filter, p, Bool.not_eq_true', decide_eq_false_iff_not] at hk
    apply hnil
    intro lane hl e
    exact hk.2 (by rw [← e]; exact List.mem_map_of_mem hl)
  have h3 : ((List.range n).filter p).Perm cols := by
    apply (List.perm_ext_iff_of_nodup (List.Nodup.filter _ List.nodup_range) hnd).mpr
    intro k
    simp only [List.mem_filter, List.mem_range, p, decide_eq_true_eq]
    constructor
    · exact fun h => h.2
    · intro h
      refine ⟨?_, h⟩
      obtain ⟨lane, hl, rfl⟩ := List.mem_map.mp h
      exact hlt lane hl
  have h4 := (h1.flatMap_right G)
  rw [List.flatMap_append, h2, List.append_nil] at h4
  refine h4.trans ((h3.flatMap_right G).trans ?_)
  simp [cols, List.flatMap_map]

end Reamber.BMS
