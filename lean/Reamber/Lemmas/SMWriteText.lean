/-
C03 — the items of a written file (`fileItems`) are well-formed MSD items and their values are the header values
followed by one `#NOTES` value per chart whose data parameter is the note data itself.
-/
import Reamber.Lemmas.SMRenderFile
import Reamber.Lemmas.SMWriteClean
import Reamber.Lemmas.SMText

namespace Reamber.SM

open Reamber.Timing

/-- none of the characters the MSD layer or the comment stripper react to -/
def NoSpecial (p : Str) : Prop := ∀ c ∈ p, c ≠ '#' ∧ c ≠ ':' ∧ c ≠ ';' ∧ c ≠ '\\' ∧ c ≠ '/'

instance (p : Str) : Decidable (NoSpecial p) := by unfold NoSpecial; infer_instance

theorem noCmt_of_noSlash : ∀ (p : Str), (∀ c ∈ p, c ≠ '/') → NoCmt p := by
  intro p
  induction p with
  | nil => intro _; trivial
  | cons c t ih =>
    intro h
    cases t with
    | nil => trivial
    | cons d r => exact ⟨fun e => h c (by simp) e.1, ih (fun x hx => h x (List.mem_cons_of_mem _ hx))⟩

theorem cleanParam_of_noSpecial (p : Str) (h : NoSpecial p) : CleanParam p :=
  ⟨fun c hc => ⟨(h c hc).1, (h c hc).2.1, (h c hc).2.2.1, (h c hc).2.2.2.1⟩,
   noCmt_of_noSlash p (fun c hc => (h c hc).2.2.2.2)⟩

theorem noCmt_prefix : ∀ (a b : Str), (∀ c ∈ a, c ≠ '/') → NoCmt b → NoCmt (a ++ b) := by
  intro a
  induction a with
  | nil => intro b _ hb; simpa using hb
  | cons c t ih =>
    intro b h hb
    have := ih b (fun x hx => h x (List.mem_cons_of_mem _ hx)) hb
    exact noCmt_append_sep [] (t ++ b) c trivial this (h c (by simp))

theorem cleanParam_prefix (a b : Str) (ha : NoSpecial a) (hb : CleanParam b) : CleanParam (a ++ b) := by
  refine ⟨?_, noCmt_prefix a b (fun c hc => (ha c hc).2.2.2.2) hb.2⟩
  intro c hc
  rcases List.mem_append.mp hc with h | h
  · exact ⟨(ha c h).1, (ha c h).2.1, (ha c h).2.2.1, (ha c h).2.2.2.1⟩
  · exact hb.1 c h

theorem mem_joinWith (sep : Str) : ∀ (l : List Str) (c : Char), c ∈ joinWith sep l → c ∈ sep ∨ ∃ p ∈ l, c ∈ p := by
  intro l
  induction l with
  | nil => intro c h; simp [joinWith] at h
  | cons p t ih =>
    intro c h
    cases t with
    | nil => simp only [joinWith] at h; exact Or.inr ⟨p, by simp, h⟩
    | cons q r =>
      simp only [joinWith, List.mem_append] at h
      rcases h with (h | h) | h
      · exact Or.inr ⟨p, by simp, h⟩
      · exact Or.inl h
      · rcases ih c h with h' | ⟨x, hx, hcx⟩
        · exact Or.inl h'
        · exact Or.inr ⟨x, List.mem_cons_of_mem _ hx, hcx⟩

/-! ### trimming what the writer wraps in line breaks and indentation -/

theorem isWs_nl : isWs '\n' = true := by decide
theorem isWs_sp : isWs ' ' = true := by decide

theorem trim_nl_wrap (X : Str) : trim ('\n' :: X ++ ['\n']) = trim X := by
  unfold trim
  rw [List.cons_append, List.dropWhile_cons_of_pos isWs_nl, List.dropWhile_append]
  by_cases h : (X.dropWhile isWs).isEmpty = true
  · have h' : X.dropWhile isWs = [] := List.isEmpty_iff.mp h
    simp [h', isWs_nl]
  · simp only [h, Bool.false_eq_true, if_false]
    rw [List.reverse_append, List.reverse_singleton, List.singleton_append, List.dropWhile_cons_of_pos isWs_nl]

theorem trim_indent (x : Str) : trim ('\n' :: (indent5 ++ x)) = trim x := by
  unfold trim indent5
  simp [List.dropWhile_cons, isWs_nl, isWs_sp]

theorem trim_of_ends (X Y1 Y2 : Str) (a b : Char) (h1 : X = a :: Y1) (h2 : X = Y2 ++ [b])
    (ha : isWs a = false) (hb : isWs b = false) : trim X = X := by
  unfold trim
  have e1 : X.dropWhile isWs = X := by rw [h1, List.dropWhile_cons_of_neg (by simp [ha])]
  rw [e1]
  have e2 : X.reverse.dropWhile isWs = X.reverse := by
    rw [h2, List.reverse_append, List.reverse_singleton, List.singleton_append,
      List.dropWhile_cons_of_neg (by simp [hb])]
  rw [e2, List.reverse_reverse]

theorem joinWith_head (sep : Str) (a : Char) (x : Str) (l : List Str) :
    ∃ Y, joinWith sep ((a :: x) :: l) = a :: Y := by
  cases l with
  | nil => exact ⟨x, rfl⟩
  | cons q r => exact ⟨x ++ sep ++ joinWith sep (q :: r), by simp [joinWith]⟩

theorem joinWith_last (sep : Str) (b : Char) (x : Str) : ∀ (l : List Str),
    ∃ Y, joinWith sep (l ++ [x ++ [b]]) = Y ++ [b] := by
  intro l
  induction l with
  | nil => exact ⟨x, rfl⟩
  | cons p t ih =>
    obtain ⟨Y, hY⟩ := ih
    cases ht : t ++ [x ++ [b]] with
    | nil => simp at ht
    | cons q r =>
      refine ⟨p ++ sep ++ Y, ?_⟩
      rw [List.cons_append, ht]
      simp only [joinWith]
      rw [← ht, hY]
      simp

/-! ### the note data of written measures -/

/-- measures as the writer emits them -/
def RowsOK (out : List (List Str)) : Prop :=
  out ≠ [] ∧ ∀ rows ∈ out, rows ≠ [] ∧ ∀ p ∈ rows, p ≠ [] ∧ ∀ c ∈ p, c ∈ noteChars

theorem noteChars_noSpecial : ∀ c ∈ noteChars, c ≠ '#' ∧ c ≠ ':' ∧ c ≠ ';' ∧ c ≠ '\\' ∧ c ≠ '/' := by decide

theorem noteData_eq_renderRows (out : List (List Str)) : noteData out = renderRows out := rfl

theorem noteData_noSpecial (out : List (List Str)) (h : RowsOK out) : NoSpecial ('\n' :: (noteData out ++ ['\n'])) := by
  have key : ∀ c ∈ noteData out, c = '\n' ∨ c = ',' ∨ c ∈ noteChars := by
    intro c hc
    rcases mem_joinWith _ _ c hc with h1 | ⟨m, hm, hcm⟩
    · simp at h1; rcases h1 with h1 | h1 | h1 <;> simp [h1]
    · obtain ⟨rows, hrows, rfl⟩ := List.mem_map.mp hm
      rcases mem_joinWith _ _ c hcm with h2 | ⟨p, hp, hcp⟩
      · simp at h2; simp [h2]
      · exact Or.inr (Or.inr (((h.2 rows hrows).2 p hp).2 c hcp))
  intro c hc
  have : c = '\n' ∨ c = ',' ∨ c ∈ noteChars := by
    simp only [List.mem_cons, List.mem_append, List.not_mem_nil, or_false] at hc
    rcases hc with h1 | h1 | h1
    · exact Or.inl h1
    · exact key c h1
    · exact Or.inl h1
  rcases this with h1 | h1 | h1
  · rw [h1]; decide
  · rw [h1]; decide
  · exact noteChars_noSpecial c h1

theorem trim_noteData (out : List (List Str)) (h : RowsOK out) : trim (noteData out) = noteData out := by
  obtain ⟨hne, hrows⟩ := h
  -- first character
  obtain ⟨Y1, a, ha, h1⟩ : ∃ Y1 a, a ∈ noteChars ∧ noteData out = a :: Y1 := by
    cases out with
    | nil => exact absurd rfl hne
    | cons m0 ms =>
      obtain ⟨hm0, hr⟩ := hrows m0 (by simp)
      cases m0 with
      | nil => exact absurd rfl hm0
      | cons r0 rs =>
        obtain ⟨hr0, hc⟩ := hr r0 (by simp)
        cases r0 with
        | nil => exact absurd rfl hr0
        | cons a r0' =>
          obtain ⟨Y, hY⟩ := joinWith_head ['\n'] a r0' rs
          obtain ⟨Y', hY'⟩ := joinWith_head ['\n', ',', '\n'] a Y (ms.map (joinWith ['\n']))
          refine ⟨Y', a, hc a (by simp), ?_⟩
          unfold noteData
          rw [List.map_cons, hY, hY']
  -- last character
  obtain ⟨Y2, b, hb, h2⟩ : ∃ Y2 b, b ∈ noteChars ∧ noteData out = Y2 ++ [b] := by
    have e1 := (List.dropLast_append_getLast hne).symm
    obtain ⟨hmL, hr⟩ := hrows (out.getLast hne) (List.getLast_mem hne)
    have e2 := (List.dropLast_append_getLast hmL).symm
    obtain ⟨hrL, hc⟩ := hr ((out.getLast hne).getLast hmL) (List.getLast_mem hmL)
    have e3 := (List.dropLast_append_getLast hrL).symm
    obtain ⟨Y, hY⟩ := joinWith_last ['\n'] (((out.getLast hne).getLast hmL).getLast hrL)
      ((out.getLast hne).getLast hmL).dropLast (out.getLast hne).dropLast
    rw [← e3, ← e2] at hY
    obtain ⟨Y', hY'⟩ := joinWith_last ['\n', ',', '\n'] (((out.getLast hne).getLast hmL).getLast hrL) Y
      (out.dropLast.map (joinWith ['\n']))
    refine ⟨Y', _, hc _ (List.getLast_mem hrL), ?_⟩
    unfold noteData
    rw [← hY']
    conv => lhs; rw [e1, List.map_append, List.map_singleton, hY]
  exact trim_of_ends _ Y1 Y2 a b h1 h2 (noteChars_facts a ha).1 (noteChars_facts b hb).1

/-! ### the items of a written file -/

/-- the renderer's outputs contain none of the MSD characters (Python's `repr(float)` / `str(int)`: digits, sign, '.',
'e', "inf", "nan") -/
structure ShowsOK (sh : Shows) : Prop where
  rat : ∀ q, NoSpecial (sh.rat q)
  int : ∀ i, NoSpecial (sh.int i) ∧ '\n' ∉ sh.int i

/-- what the final theorem asks of the strings of a written file: the 16 string lines carry the writer's tags and
values without `# : ; \` and `//`; chart type, description and difficulty likewise, type and difficulty without
line breaks (they are part of the banner comment line) -/
structure StringsOK (w : Written) : Prop where
  tags : w.strs.map (·.1) = stringTags.map (·.1)
  vals : ∀ tv ∈ w.strs, CleanParam tv.2
  sel : w.selectable = yesStr ∨ w.selectable = noStr
  charts : ∀ c ∈ w.charts, CleanParam c.chartType ∧ CleanParam c.description ∧ CleanParam c.difficulty ∧
    '\n' ∉ c.chartType ∧ '\n' ∉ c.difficulty

theorem stringTags_text_facts : ∀ ta ∈ stringTags.map (·.1),
    ta = '#' :: ta.drop 1 ∧ (∀ c ∈ ta.drop 1, c ≠ '#' ∧ c ≠ ':' ∧ c ≠ ';' ∧ c ≠ '\\' ∧ c ≠ '/') ∧
    trim (ta.drop 1) ≠ tagNotes ∧ trim (ta.drop 1) ≠ tagOffsetS ∧ trim (ta.drop 1) ≠ tagBpmsS := by
  decide +kernel

theorem strs_tag_mem (w : Written) (h : StringsOK w) : ∀ tv ∈ w.strs, tv.1 ∈ stringTags.map (·.1) := by
  intro tv htv
  rw [← h.tags]
  exact List.mem_map.mpr ⟨tv, htv, rfl⟩

theorem itemOk_intersperse : ∀ (l : List Item), (∀ it ∈ l, ItemOk it) → ∀ it ∈ l.intersperse .newline, ItemOk it := by
  intro l
  induction l with
  | nil => intro _ it h; simp at h
  | cons a t ih =>
    intro h it hit
    cases t with
    | nil => simp at hit; rw [hit]; exact h a (by simp)
    | cons b r =>
      rw [List.intersperse_cons₂] at hit
      simp only [List.mem_cons] at hit
      rcases hit with rfl | rfl | hit
      · exact h _ (by simp)
      · trivial
      · exact ih (fun x hx => h x (List.mem_cons_of_mem _ hx)) it (by simpa using hit)

theorem valuesOf_append (a b : List Item) : valuesOf (a ++ b) = valuesOf a ++ valuesOf b := by
  simp [valuesOf, List.filterMap_append]

theorem valuesOf_intersperse : ∀ (V : List (List Str)),
    valuesOf ((V.map Item.value).intersperse .newline) = V.map (List.map trim) := by
  intro V
  induction V with
  | nil => rfl
  | cons a t ih =>
    cases t with
    | nil => simp [valuesOf]
    | cons b r =>
      rw [List.map_cons, List.map_cons, List.intersperse_cons₂]
      rw [List.map_cons] at ih
      simp only [valuesOf, List.filterMap_cons] at ih ⊢
      rw [ih]
      simp

theorem valuesOf_charts (sh : Shows) : ∀ (cs : List WrittenChart),
    valuesOf ((cs.map (chartItems sh)).flatten) = cs.map (fun c => (notesParams sh c).map trim) := by
  intro cs
  induction cs with
  | nil => rfl
  | cons c t ih =>
    rw [List.map_cons, List.flatten_cons, valuesOf_append, ih]
    simp [valuesOf, chartItems]

theorem valuesOf_fileItems (sh : Shows) (w : Written) :
    valuesOf (fileItems sh w) =
      (hdrValues sh w).map (List.map trim) ++ w.charts.map (fun c => (notesParams sh c).map trim) := by
  unfold fileItems
  rw [valuesOf_append, valuesOf_intersperse, valuesOf_charts]

theorem noSpecial_joinWith (sep : Str) (l : List Str) (hs : NoSpecial sep) (hl : ∀ p ∈ l, NoSpecial p) :
    NoSpecial (joinWith sep l) := by
  intro c hc
  rcases mem_joinWith sep l c hc with h | ⟨p, hp, hcp⟩
  · exact hs c h
  · exact hl p hp c hcp

theorem noSpecial_append (a b : Str) (ha : NoSpecial a) (hb : NoSpecial b) : NoSpecial (a ++ b) := by
  intro c hc
  rcases List.mem_append.mp hc with h | h
  · exact ha c h
  · exact hb c h

theorem noSpecial_nl_indent : NoSpecial ('\n' :: indent5) := by decide

theorem bpmsParam_noSpecial (sh : Shows) (hsh : ShowsOK sh) (bpms : List (Rat × Rat)) :
    NoSpecial (bpmsParam sh bpms) := by
  apply noSpecial_joinWith
  · decide
  · intro p hp
    obtain ⟨x, _, rfl⟩ := List.mem_map.mp hp
    exact noSpecial_append _ _ (hsh.rat x.1) (noSpecial_append ['='] _ (by decide) (hsh.rat x.2))

theorem strValue_ok (w : Written) (h : StringsOK w) (tv : Str × Str) (htv : tv ∈ w.strs) :
    ItemOk (.value (strValue tv)) := by
  refine ⟨by simp [strValue], ?_⟩
  intro p hp
  simp only [strValue, List.mem_cons, List.not_mem_nil, or_false] at hp
  rcases hp with rfl | rfl
  · exact cleanParam_of_noSpecial _ (stringTags_text_facts tv.1 (strs_tag_mem w h tv htv)).2.1
  · exact h.vals tv htv

theorem hdrValues_ok (sh : Shows) (hsh : ShowsOK sh) (w : Written) (h : StringsOK w) :
    ∀ ps ∈ hdrValues sh w, ItemOk (.value ps) := by
  intro ps hps
  unfold hdrValues at hps
  simp only [List.mem_append, List.mem_map, List.mem_cons, List.not_mem_nil, or_false] at hps
  have two : ∀ (a b : Str), NoSpecial a → NoSpecial b → ItemOk (.value [a, b]) := by
    intro a b ha hb
    refine ⟨by simp, ?_⟩
    intro p hp
    simp only [List.mem_cons, List.not_mem_nil, or_false] at hp
    rcases hp with rfl | rfl
    · exact cleanParam_of_noSpecial _ ha
    · exact cleanParam_of_noSpecial _ hb
  rcases hps with (((⟨tv, htv, rfl⟩ | hnum) | ⟨tv, htv, rfl⟩) | rfl) | ⟨tv, htv, rfl⟩
  · exact strValue_ok w h tv (List.mem_of_mem_take htv)
  · rcases hnum with rfl | rfl | rfl | rfl | rfl
    · exact two _ _ (by decide) (hsh.rat _)
    · exact two _ _ (by decide) (bpmsParam_noSpecial sh hsh _)
    · exact two _ _ (by decide) (by intro c hc; simp at hc)
    · exact two _ _ (by decide) (hsh.rat _)
    · exact two _ _ (by decide) (hsh.rat _)
  · exact strValue_ok w h tv (List.mem_of_mem_drop (List.mem_of_mem_take htv))
  · rcases h.sel with hs | hs <;> rw [hs] <;> exact two _ _ (by decide) (by decide)
  · exact strValue_ok w h tv (List.mem_of_mem_drop htv)

theorem chartItems_ok (sh : Shows) (hsh : ShowsOK sh) (c : WrittenChart)
    (hc : CleanParam c.chartType ∧ CleanParam c.description ∧ CleanParam c.difficulty ∧
      '\n' ∉ c.chartType ∧ '\n' ∉ c.difficulty)
    (hr : RowsOK c.measures) : ∀ it ∈ chartItems sh c, ItemOk it := by
  obtain ⟨h1, h2, h3, h4, h5⟩ := hc
  intro it hit
  simp only [chartItems, List.mem_cons, List.not_mem_nil, or_false] at hit
  rcases hit with rfl | rfl | rfl | rfl | rfl
  · trivial
  · -- the banner line has no line break
    show '\n' ∉ bannerText sh c
    have hi := (hsh.int c.difficultyVal).2
    simp [bannerText, h4, h5, hi]
  · refine ⟨by simp [notesParams], ?_⟩
    intro p hp
    simp only [notesParams, List.mem_cons, List.not_mem_nil, or_false] at hp
    rcases hp with rfl | rfl | rfl | rfl | rfl | rfl | rfl
    · exact cleanParam_of_noSpecial _ (by decide)
    · exact cleanParam_prefix ('\n' :: indent5) _ noSpecial_nl_indent h1
    · exact cleanParam_prefix ('\n' :: indent5) _ noSpecial_nl_indent h2
    · exact cleanParam_prefix ('\n' :: indent5) _ noSpecial_nl_indent h3
    · exact cleanParam_prefix ('\n' :: indent5) _ noSpecial_nl_indent (cleanParam_of_noSpecial _ (hsh.int _).1)
    · exact cleanParam_prefix ('\n' :: indent5) _ noSpecial_nl_indent
        (cleanParam_of_noSpecial _ (noSpecial_joinWith _ _ (by decide) (fun p hp => by
          obtain ⟨q, _, rfl⟩ := List.mem_map.mp hp
          exact hsh.rat q)))
    · exact cleanParam_of_noSpecial _ (noteData_noSpecial _ hr)
  · trivial
  · trivial

theorem fileItems_ok (sh : Shows) (hsh : ShowsOK sh) (w : Written) (h : StringsOK w)
    (hr : ∀ c ∈ w.charts, RowsOK c.measures) : ∀ it ∈ fileItems sh w, ItemOk it := by
  intro it hit
  unfold fileItems at hit
  rcases List.mem_append.mp hit with hit | hit
  · refine itemOk_intersperse _ ?_ it hit
    intro x hx
    obtain ⟨ps, hps, rfl⟩ := List.mem_map.mp hx
    exact hdrValues_ok sh hsh w h ps hps
  · obtain ⟨l, hl, hitl⟩ := List.mem_flatten.mp hit
    obtain ⟨c, hc, rfl⟩ := List.mem_map.mp hl
    exact chartItems_ok sh hsh c (h.charts c hc) (hr c hc) it hitl

/-! ### what `denote` finds among the values -/

theorem filter_strs (w : Written) (h : StringsOK w) (name : Str)
    (hname : ∀ ta ∈ stringTags.map (·.1), trim (ta.drop 1) ≠ name) (l : List (Str × Str)) (hl : ∀ tv ∈ l, tv ∈ w.strs) :
    ((l.map strValue).map (List.map trim)).filter (tagIs name) = [] := by
  apply List.filter_eq_nil_iff.mpr
  intro v hv
  obtain ⟨ps, hps, rfl⟩ := List.mem_map.mp hv
  obtain ⟨tv, htv, rfl⟩ := List.mem_map.mp hps
  have := hname tv.1 (strs_tag_mem w h tv (hl tv htv))
  simp only [strValue, tagIs, List.map_cons, List.head?_cons]
  simpa using this

theorem trim_tags : trim (tagOffset.drop 1) = tagOffsetS ∧ trim (tagBpms.drop 1) = tagBpmsS ∧
    trim (tagStops.drop 1) = ['S','T','O','P','S'] ∧
    trim (tagSampleStart.drop 1) = ['S','A','M','P','L','E','S','T','A','R','T'] ∧
    trim (tagSampleLength.drop 1) = ['S','A','M','P','L','E','L','E','N','G','T','H'] ∧
    trim (tagSelectable.drop 1) = ['S','E','L','E','C','T','A','B','L','E'] ∧ trim tagNotes = tagNotes := by
  decide +kernel

theorem hdr_filter (sh : Shows) (w : Written) (h : StringsOK w) (name : Str)
    (hname : ∀ ta ∈ stringTags.map (·.1), trim (ta.drop 1) ≠ name) :
    ((hdrValues sh w).map (List.map trim)).filter (tagIs name) =
      ([ [tagOffsetS, trim (sh.rat w.offsetSec)], [tagBpmsS, trim (bpmsParam sh w.bpms)],
         [['S','T','O','P','S'], trim []],
         [['S','A','M','P','L','E','S','T','A','R','T'], trim (sh.rat w.sampleStartSec)],
         [['S','A','M','P','L','E','L','E','N','G','T','H'], trim (sh.rat w.sampleLengthSec)],
         [['S','E','L','E','C','T','A','B','L','E'], trim w.selectable] ] : List (List Str)).filter (tagIs name) := by
  obtain ⟨t1, t2, t3, t4, t5, t6, _⟩ := trim_tags
  unfold hdrValues
  simp only [List.map_append, List.filter_append,
    filter_strs w h name hname _ (fun tv hx => List.mem_of_mem_take hx),
    filter_strs w h name hname _ (fun tv hx => List.mem_of_mem_drop (List.mem_of_mem_take hx)),
    filter_strs w h name hname _ (fun tv hx => List.mem_of_mem_drop hx),
    List.nil_append, List.append_nil, List.map_cons, List.map_nil, t1, t2, t3, t4, t5, t6]
  rw [← List.filter_append]
  rfl

theorem charts_tag (sh : Shows) (cs : List WrittenChart) :
    ∀ v ∈ cs.map (fun c => (notesParams sh c).map trim), v.head? = some tagNotes := by
  intro v hv
  obtain ⟨c, _, rfl⟩ := List.mem_map.mp hv
  simp [notesParams, trim_tags.2.2.2.2.2.2]

theorem stringTags_ne (name : Str) (h : name = tagNotes ∨ name = tagOffsetS ∨ name = tagBpmsS) :
    ∀ ta ∈ stringTags.map (·.1), trim (ta.drop 1) ≠ name := by
  intro ta hta
  obtain ⟨_, _, h1, h2, h3⟩ := stringTags_text_facts ta hta
  rcases h with rfl | rfl | rfl <;> assumption

/-- the `#NOTES` values of the file are the charts' values, in order -/
theorem file_notes (sh : Shows) (w : Written) (h : StringsOK w) :
    (valuesOf (fileItems sh w)).filter (tagIs tagNotes) = w.charts.map (fun c => (notesParams sh c).map trim) := by
  rw [valuesOf_fileItems, List.filter_append, hdr_filter sh w h tagNotes (stringTags_ne _ (Or.inl rfl))]
  have hC : (w.charts.map (fun c => (notesParams sh c).map trim)).filter (tagIs tagNotes) =
      w.charts.map (fun c => (notesParams sh c).map trim) := by
    apply List.filter_eq_self.mpr
    intro v hv
    simp [tagIs, charts_tag sh _ v hv]
  rw [hC]
  have : ∀ (x1 x2 x3 x4 x5 x6 : Str), ([ [tagOffsetS, x1], [tagBpmsS, x2], [['S','T','O','P','S'], x3],
      [['S','A','M','P','L','E','S','T','A','R','T'], x4], [['S','A','M','P','L','E','L','E','N','G','T','H'], x5],
      [['S','E','L','E','C','T','A','B','L','E'], x6] ] : List (List Str)).filter (tagIs tagNotes) = [] := by
    intro x1 x2 x3 x4 x5 x6
    simp [tagIs, tagOffsetS, tagBpmsS, tagNotes]
  rw [this]
  rfl

theorem file_offset (sh : Shows) (w : Written) (h : StringsOK w) :
    firstParam (valuesOf (fileItems sh w)) tagOffsetS = some (trim (sh.rat w.offsetSec)) := by
  unfold firstParam
  rw [valuesOf_fileItems, List.filter_append, hdr_filter sh w h tagOffsetS (stringTags_ne _ (Or.inr (Or.inl rfl)))]
  have hC : (w.charts.map (fun c => (notesParams sh c).map trim)).filter (tagIs tagOffsetS) = [] := by
    apply List.filter_eq_nil_iff.mpr
    intro v hv
    simp [tagIs, charts_tag sh _ v hv, tagNotes, tagOffsetS]
  rw [hC]
  simp [tagIs, tagOffsetS, tagBpmsS]

theorem file_bpms (sh : Shows) (w : Written) (h : StringsOK w) :
    firstParam (valuesOf (fileItems sh w)) tagBpmsS = some (trim (bpmsParam sh w.bpms)) := by
  unfold firstParam
  rw [valuesOf_fileItems, List.filter_append, hdr_filter sh w h tagBpmsS (stringTags_ne _ (Or.inr (Or.inr rfl)))]
  have hC : (w.charts.map (fun c => (notesParams sh c).map trim)).filter (tagIs tagBpmsS) = [] := by
    apply List.filter_eq_nil_iff.mpr
    intro v hv
    simp [tagIs, charts_tag sh _ v hv, tagNotes, tagBpmsS]
  rw [hC]
  simp [tagIs, tagOffsetS, tagBpmsS]

/-- the value of one chart, trimmed: the writer's indentation and line breaks disappear -/
theorem notesParams_trim (sh : Shows) (c : WrittenChart) (hr : RowsOK c.measures) :
    (notesParams sh c).map trim =
      [tagNotes, trim c.chartType, trim c.description, trim c.difficulty, trim (sh.int c.difficultyVal),
       trim (joinWith [','] (c.groove.map sh.rat)), renderRows c.measures] := by
  simp only [notesParams, List.map_cons, List.map_nil, trim_indent, trim_tags.2.2.2.2.2.2]
  rw [show ('\n' :: (noteData c.measures ++ ['\n'])) = '\n' :: noteData c.measures ++ ['\n'] by rfl,
    trim_nl_wrap, trim_noteData _ hr]
  rfl

/-! ### what `SM.write` returns -/

theorem mapE_zip {α β} (f : α → Except Err β) : ∀ (l : List α) (r : List β), mapE f l = .ok r →
    r.length = l.length ∧ ∀ p ∈ l.zip r, f p.1 = .ok p.2 := by
  intro l
  induction l with
  | nil =>
    intro r h
    simp only [mapE] at h
    cases h
    exact ⟨rfl, by simp⟩
  | cons a t ih =>
    intro r h
    simp only [mapE, bind, Except.bind] at h
    cases hfa : f a with
    | error e => rw [hfa] at h; cases h
    | ok b =>
      rw [hfa] at h
      cases ht : mapE f t with
      | error e => rw [ht] at h; cases h
      | ok r' =>
        rw [ht] at h
        cases h
        obtain ⟨hl, hp⟩ := ih r' ht
        refine ⟨by simp [hl], ?_⟩
        intro p hp'
        simp only [List.zip_cons_cons, List.mem_cons] at hp'
        rcases hp' with rfl | hp'
        · exact hfa
        · exact hp p hp'

/-- the chart part of `SM.write`: one written chart per chart, with its fields and the rows `writeChartRows` emits -/
theorem write_ok (h : WHeader) (charts : List WChart) (w : Written) (hw : SM.write h charts = .ok w) :
    w.strs.map (·.1) = stringTags.map (·.1) ∧
    (∀ tv ∈ w.strs, ∃ ta ∈ stringTags, tv.2 = (h.strs.lookup ta.2).getD []) ∧
    (w.selectable = yesStr ∨ w.selectable = noStr) ∧
    w.charts.length = charts.length ∧
    ∀ p ∈ charts.zip w.charts, writeChartRows p.1 = .ok p.2.measures ∧ p.2.chartType = p.1.chartType ∧
      p.2.description = p.1.description ∧ p.2.difficulty = p.1.difficulty := by
  unfold SM.write at hw
  cases charts with
  | nil => cases hw
  | cons c0 rest =>
    simp only [bind, Except.bind] at hw
    split at hw
    · cases hw
    · split at hw
      · cases hw
      · rename_i ws hws
        cases hw
        obtain ⟨hl, hp⟩ := mapE_zip _ _ _ hws
        refine ⟨?_, ?_, ?_, hl, ?_⟩
        · simp [writeStringTags, List.map_map, Function.comp]
        · intro tv htv
          simp only [writeStringTags, List.mem_map] at htv
          obtain ⟨ta, hta, rfl⟩ := htv
          exact ⟨ta, hta, rfl⟩
        · by_cases hs : h.selectable = true <;> simp [hs]
        · intro p hp'
          have := hp p hp'
          cases hr : writeChartRows p.1 with
          | error e => rw [hr] at this; cases this
          | ok ms =>
            rw [hr] at this
            have e := (Except.ok.inj this).symm
            rw [e]
            exact ⟨rfl, rfl, rfl, rfl⟩

/-! ### the numeric header lines read back (from the per-number renderer assumption) -/

/-- a number text: non-empty, no whitespace, no ',' and no '=' -/
def NumText (s : Str) : Prop := s ≠ [] ∧ ∀ c ∈ s, isWs c = false ∧ c ≠ ',' ∧ c ≠ '='

/-- the renderer assumption, per number: `parseFloat (show q) = .ok q`, and the text is a number text -/
structure ShowsParse (sh : Shows) : Prop where
  text : ∀ q, NumText (sh.rat q)
  parse : ∀ q, parseFloat (sh.rat q) = .ok q

theorem trim_noWs (s : Str) (h : ∀ c ∈ s, isWs c = false) : trim s = s := by
  unfold trim
  rw [dropWhile_eq_self isWs s h, dropWhile_eq_self isWs s.reverse (fun c hc => h c (List.mem_reverse.mp hc)),
    List.reverse_reverse]

theorem trim_nl_cons (y : Str) : trim ('\n' :: y) = trim y := by
  unfold trim
  rw [List.dropWhile_cons_of_pos isWs_nl]

theorem joinWith_cons_head (sep : Str) (a : Char) (x : Str) (l : List Str) :
    joinWith sep ((a :: x) :: l) = a :: joinWith sep (x :: l) := by
  cases l <;> simp [joinWith]

theorem joinWith_comma_nl : ∀ (l : List Str) (y : Str),
    joinWith [',', '\n'] (y :: l) = joinWith [','] (y :: l.map (fun q => '\n' :: q)) := by
  intro l
  induction l with
  | nil => intro y; rfl
  | cons q r ih =>
    intro y
    simp only [joinWith, List.map_cons]
    rw [ih q, joinWith_cons_head]
    simp

/-- one `beat=bpm` entry -/
def pairText (sh : Shows) (p : Rat × Rat) : Str := sh.rat p.1 ++ '=' :: sh.rat p.2

theorem pairText_facts (sh : Shows) (h : ShowsParse sh) (p : Rat × Rat) :
    pairText sh p ≠ [] ∧ (∀ c ∈ pairText sh p, isWs c = false ∧ c ≠ ',') ∧ parsePair (pairText sh p) = some p := by
  obtain ⟨h1, h1c⟩ := h.text p.1
  obtain ⟨h2, h2c⟩ := h.text p.2
  refine ⟨by simp [pairText], ?_, ?_⟩
  · intro c hc
    simp only [pairText, List.mem_append, List.mem_cons] at hc
    rcases hc with hc | rfl | hc
    · exact ⟨(h1c c hc).1, (h1c c hc).2.1⟩
    · decide
    · exact ⟨(h2c c hc).1, (h2c c hc).2.1⟩
  · unfold parsePair pairText
    rw [splitOn_append_sep '=' _ _ (fun hm => (h1c _ hm).2.2 rfl), splitOn_no_sep '=' _ (fun hm => (h2c _ hm).2.2 rfl)]
    simp [h.parse]

theorem foldr_parsePair (sh : Shows) (h : ShowsParse sh) : ∀ (ps : List (Rat × Rat)),
    (ps.map (pairText sh)).foldr (fun it acc => match parsePair it, acc with
      | some p, some l => some (p :: l)
      | _, _ => none) (some []) = some ps := by
  intro ps
  induction ps with
  | nil => rfl
  | cons p t ih => simp only [List.map_cons, List.foldr_cons, ih, (pairText_facts sh h p).2.2]

/-- **the `#BPMS` parameter reads back** -/
theorem parsePairs_bpmsParam (sh : Shows) (h : ShowsParse sh) (bpms : List (Rat × Rat)) :
    parsePairs (bpmsParam sh bpms) = some bpms := by
  cases bpms with
  | nil => simp [bpmsParam, parsePairs, joinWith, splitOn, trim]
  | cons p0 ps =>
    unfold parsePairs
    have hX : bpmsParam sh (p0 :: ps) = joinWith [','] (pairText sh p0 :: (ps.map (pairText sh)).map (fun q => '\n' :: q)) := by
      unfold bpmsParam
      rw [List.map_cons]
      exact joinWith_comma_nl _ _
    have hsplit : splitOn ',' (bpmsParam sh (p0 :: ps)) =
        pairText sh p0 :: (ps.map (pairText sh)).map (fun q => '\n' :: q) := by
      rw [hX]
      apply splitOn_joinWith ',' _ (by simp)
      intro y hy hm
      simp only [List.mem_cons, List.mem_map] at hy
      rcases hy with rfl | ⟨q, ⟨p, _, rfl⟩, rfl⟩
      · exact ((pairText_facts sh h p0).2.1 _ hm).2 rfl
      · simp only [List.mem_cons] at hm
        rcases hm with hm | hm
        · revert hm; decide
        · exact ((pairText_facts sh h p).2.1 _ hm).2 rfl
    have hitems : ((splitOn ',' (bpmsParam sh (p0 :: ps))).map trim).filter (fun x => !x.isEmpty) =
        (p0 :: ps).map (pairText sh) := by
      rw [hsplit]
      have e1 : ((pairText sh p0 :: (ps.map (pairText sh)).map (fun q => '\n' :: q)).map trim) =
          (p0 :: ps).map (pairText sh) := by
        simp only [List.map_cons, List.map_map]
        congr 1
        · exact trim_noWs _ (fun c hc => ((pairText_facts sh h p0).2.1 c hc).1)
        · apply List.map_congr_left
          intro p _
          simp only [Function.comp]
          rw [trim_nl_cons]
          exact trim_noWs _ (fun c hc => ((pairText_facts sh h p).2.1 c hc).1)
      rw [e1]
      apply List.filter_eq_self.mpr
      intro y hy
      obtain ⟨p, _, rfl⟩ := List.mem_map.mp hy
      have := (pairText_facts sh h p).1
      cases hh : pairText sh p with
      | nil => exact absurd hh this
      | cons a b => rfl
    simp only [hitems]
    exact foldr_parsePair sh h (p0 :: ps)

/-- the whole parameter has no surrounding whitespace -/
theorem trim_bpmsParam (sh : Shows) (h : ShowsParse sh) (bpms : List (Rat × Rat)) :
    trim (bpmsParam sh bpms) = bpmsParam sh bpms := by
  cases hb : bpms with
  | nil => simp [bpmsParam, joinWith, trim]
  | cons p0 ps =>
    have hne : bpms ≠ [] := by rw [hb]; simp
    rw [← hb]
    -- first character
    obtain ⟨Y1, a, ha, h1⟩ : ∃ Y1 a, isWs a = false ∧ bpmsParam sh bpms = a :: Y1 := by
      rw [hb]
      obtain ⟨hne1, hc1⟩ := h.text p0.1
      cases hr : sh.rat p0.1 with
      | nil => exact absurd hr hne1
      | cons a r =>
        obtain ⟨Y, hY⟩ := joinWith_head [',', '\n'] a (r ++ '=' :: sh.rat p0.2) (ps.map (fun p => sh.rat p.1 ++ '=' :: sh.rat p.2))
        refine ⟨Y, a, (hc1 a (by rw [hr]; simp)).1, ?_⟩
        unfold bpmsParam
        rw [List.map_cons, hr]
        exact hY
    -- last character
    obtain ⟨Y2, b, hbw, h2⟩ : ∃ Y2 b, isWs b = false ∧ bpmsParam sh bpms = Y2 ++ [b] := by
      have e1 := (List.dropLast_append_getLast hne).symm
      obtain ⟨hne2, hc2⟩ := h.text (bpms.getLast hne).2
      have e2 := (List.dropLast_append_getLast hne2).symm
      obtain ⟨Y, hY⟩ := joinWith_last [',', '\n'] ((sh.rat (bpms.getLast hne).2).getLast hne2)
        (sh.rat (bpms.getLast hne).1 ++ '=' :: (sh.rat (bpms.getLast hne).2).dropLast)
        (bpms.dropLast.map (fun p => sh.rat p.1 ++ '=' :: sh.rat p.2))
      refine ⟨Y, _, (hc2 _ (List.getLast_mem hne2)).1, ?_⟩
      rw [← hY]
      unfold bpmsParam
      conv => lhs; rw [e1, List.map_append, List.map_singleton]
      congr 2
      conv => lhs; rw [e2]
      simp
    exact trim_of_ends _ Y1 Y2 a b h1 h2 ha hbw

end Reamber.SM
