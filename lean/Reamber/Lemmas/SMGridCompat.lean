/-
C03 — `#BPMS` beats that are multiples of 1/96 beat (measure lines, 1/16 and 1/48 beats among them) give a
`gridCompatible` tempo-change list: the fractional beat distance of consecutive changes is `k/96`, a point of the snap grid.
-/
import Reamber.Lemmas.SMChanges
import Reamber.Lemmas.SMTol
import Reamber.Lemmas.Snapper

namespace Reamber.SM

open Reamber.Timing

theorem frac_mem_grid96 (x : Rat) (h : (x * 96).den = 1) : frac x ∈ grid 96 := by
  have hn : (((x * 96).num : Int) : Rat) = x * 96 := (Rat.den_eq_one_iff _).mp h
  generalize (x * 96).num = n at hn
  have hf1 := Rat.floor_le x
  have hf2 := Rat.lt_floor_add_one x
  push_cast at hf2
  have hk0 : (0 : Int) ≤ n - 96 * x.floor := by
    have : ((96 * x.floor : Int) : Rat) ≤ (n : Rat) := by push_cast; linarith
    have := Int.cast_le.mp this
    omega
  have hk1 : n - 96 * x.floor < 96 := by
    have : (n : Rat) < ((96 * x.floor + 96 : Int) : Rat) := by push_cast; linarith
    have := Int.cast_lt.mp this
    omega
  have e : (((n - 96 * x.floor).toNat : Nat) : Rat) = (n : Rat) - 96 * (x.floor : Rat) := by
    have h1 : (((n - 96 * x.floor).toNat : Nat) : Int) = n - 96 * x.floor := Int.toNat_of_nonneg hk0
    have h2 := congrArg (fun z : Int => (z : Rat)) h1
    push_cast at h2
    simpa using h2
  have hfr : frac x = (((n - 96 * x.floor).toNat : Nat) : Rat) / ((96 : Nat) : Rat) := by
    unfold frac
    rw [e, hn]
    push_cast
    ring
  rw [hfr]
  apply div_mem_grid _ (by decide)
  omega

theorem den96_sub (a b : Rat) (ha : (a * 96).den = 1) (hb : (b * 96).den = 1) : ((b - a) * 96).den = 1 := by
  have h1 := (Rat.den_eq_one_iff _).mp ha
  have h2 := (Rat.den_eq_one_iff _).mp hb
  have : (b - a) * 96 = (((b * 96).num - (a * 96).num : Int) : Rat) := by push_cast; rw [h1, h2]; ring
  rw [this]
  exact Rat.den_intCast _

/-- every `#BPMS` beat a multiple of 1/96 ⇒ the denoted change list is `gridCompatible` for the writer's snap grid -/
theorem gridCompatible_map (l : List (Rat × Rat)) (h : ∀ p ∈ l, (p.1 * 96).den = 1) :
    gridCompatible (grid defaultMaxDiv) (l.map pairChange) = true := by
  induction l with
  | nil => rfl
  | cons a t ih =>
    cases t with
    | nil => rfl
    | cons b u =>
      simp only [List.map_cons, gridCompatible, Bool.and_eq_true]
      refine ⟨?_, by simpa using ih (fun p hp => h p (List.mem_cons_of_mem _ hp))⟩
      have hd : snapDist (pairChange a).snap (pairChange b).snap (pairChange a).met = b.1 - a.1 :=
        snapDist_snapOfBeat a.1 b.1
      rw [hd]
      exact List.contains_iff_mem.mpr (frac_mem_grid96 _ (den96_sub a.1 b.1 (h a (by simp)) (h b (by simp))))

theorem gridCompatible_changesOf (bpms : List (Rat × Rat)) (h : ∀ p ∈ bpms, (p.1 * 96).den = 1) :
    gridCompatible (grid defaultMaxDiv) (changesOf bpms) = true := by
  rw [changesOf_eq]
  apply gridCompatible_map
  intro p hp
  exact h p ((Reamber.Analysis.isort_perm _ bpms).mem_iff.mp hp)

end Reamber.SM
