/- C01 — whole-text level: the lines of a written file, `strip`, section indices. -/
import Reamber.Lemmas.OsuLines

namespace Reamber.Osu

/-! ### split of a join, in general (pieces may contain the separator) -/

theorem splitOn_append_sep' (c : Char) (p rest : Str) :
    splitOn c (p ++ c :: rest) = splitOn c p ++ splitOn c rest := by
  induction p with
  | nil => rw [List.nil_append, splitOn_cons_eq]; rfl
  | cons x xs ih =>
    show splitOn c (x :: (xs ++ c :: rest)) = _
    by_cases hx : x = c
    · subst hx
      rw [splitOn_cons_eq, splitOn_cons_eq, ih]; rfl
    · rw [splitOn_cons_ne c x _ hx, splitOn_cons_ne c x xs hx, ih]
      cases hs : splitOn c xs with
      | nil => exact absurd hs (splitOn_ne_nil c xs)
      | cons q qs => rfl

/-- `sep.join(ps).split(sep)` is the concatenation of the pieces' own splits -/
theorem splitOn_joinWith_flatten (c : Char) (ps : List Str) (hne : ps ≠ []) :
    splitOn c (joinWith c ps) = (ps.map (splitOn c)).flatten := by
  induction ps with
  | nil => exact absurd rfl hne
  | cons p qs ih =>
    cases qs with
    | nil => simp [joinWith]
    | cons q rs =>
      show splitOn c (p ++ c :: joinWith c (q :: rs)) = _
      rw [splitOn_append_sep', ih (by simp)]
      simp

theorem flatten_map_splitOn_noSep (c : Char) (ls : List Str) (h : ∀ l ∈ ls, c ∉ l) :
    (ls.map (splitOn c)).flatten = ls := by
  induction ls with
  | nil => rfl
  | cons l t ih =>
    rw [List.map_cons, List.flatten_cons, splitOn_noSep c l (h l (by simp)), ih (fun l' hl' => h l' (by simp [hl']))]
    rfl

/-! ### the lines of a written file -/

def headLines (R : Render) (c : Chart) : List Str := (writeMeta c.md).map R.line
def tpLines (R : Render) (c : Chart) : List Str := (c.bpms.map writeBpm ++ c.svs.map writeSv).map R.line
def objLines (R : Render) (c : Chart) : List Str :=
  ((sortedObjs c).map (writeObj (pyTrunc c.md.circleSize))).map R.line

/-- **`"\n".join(write()).split("\n")`**: the header lines, a blank line, `[TimingPoints]`, the timing lines, two
blank lines, `[HitObjects]`, the object lines — provided no rendered line contains a line break -/
theorem lines_writeText (R : Render) (c : Chart) (hh : ∀ l ∈ headLines R c, '\n' ∉ l)
    (ht : ∀ l ∈ tpLines R c, '\n' ∉ l) (ho : ∀ l ∈ objLines R c, '\n' ∉ l) :
    splitOn '\n' (writeText R c) =
      headLines R c ++ [[], hTiming] ++ tpLines R c ++ [[], [], hObjects] ++ objLines R c := by
  unfold writeText
  rw [splitOn_joinWith_flatten '\n' _ (by simp [write])]
  have l1 : R.line [L "\n[TimingPoints]"] = "\n[TimingPoints]".toList := by simp [Render.line, L, Render.tok]
  have l2 : R.line [L "\n\n[HitObjects]"] = "\n\n[HitObjects]".toList := by simp [Render.line, L, Render.tok]
  have e1 : splitOn '\n' (R.line [L "\n[TimingPoints]"]) = [[], hTiming] := by rw [l1]; decide +kernel
  have e2 : splitOn '\n' (R.line [L "\n\n[HitObjects]"]) = [[], [], hObjects] := by rw [l2]; decide +kernel
  have hw : (write c).map R.line = headLines R c ++ [R.line [L "\n[TimingPoints]"]] ++ tpLines R c ++
      [R.line [L "\n\n[HitObjects]"]] ++ objLines R c := by
    simp [write, headLines, tpLines, objLines]
  rw [hw]
  simp only [List.map_append, List.flatten_append, List.map_cons, List.map_nil, List.flatten_cons, List.flatten_nil,
    flatten_map_splitOn_noSep '\n' _ hh, flatten_map_splitOn_noSep '\n' _ ht, flatten_map_splitOn_noSep '\n' _ ho,
    e1, e2, List.append_nil]

end Reamber.Osu

namespace Reamber.Osu

/-! ### `OsuMap.read` on a list of lines with the two headers located -/

theorem indexOf?_append (x : Str) (A B : List Str) (h : x ∉ A) : indexOf? x (A ++ x :: B) = some A.length := by
  induction A with
  | nil => simp [indexOf?]
  | cons a t ih =>
    have ha : a ≠ x := fun e => h (by simp [e])
    have ht : x ∉ t := fun e => h (by simp [e])
    show indexOf? x (a :: (t ++ x :: B)) = _
    rw [indexOf?, if_neg ha, ih ht]; rfl

/-- the section split of `OsuMap.read`, once the trimmed lines are known to be `H ++ [TimingPoints] ++ T ++
[HitObjects] ++ O` with no earlier occurrence of the two headers: metadata from `H`, scroll velocities and tempo
points from `T`, hits and holds from `O` with the key count of the metadata just read -/
theorem read_sections (lines0 H T O : List Str)
    (hl : lines0.map strip = H ++ hTiming :: (T ++ hObjects :: O))
    (hT : hTiming ∉ H) (hO : hObjects ∉ H) (hO' : hObjects ∉ T)
    (md : Meta) (svs : List Sv) (bpms : List Bpm) (hits : List Hit) (holds : List Hold)
    (hm : readMeta {} H = .ok md)
    (hs : mapE readSv (T.filter isSliderVelocity) = .ok svs)
    (hb : mapE readBpm (T.filter isTimingPoint) = .ok bpms)
    (hh : mapE (fun s => readHit s (pyTrunc md.circleSize)) (O.filter isHit) = .ok hits)
    (hd : mapE (fun s => readHold s (pyTrunc md.circleSize)) (O.filter isHold) = .ok holds) :
    read lines0 = .ok { md := md, bpms := bpms, svs := svs, hits := hits, holds := holds } := by
  have i1 : indexOf? hTiming (lines0.map strip) = some H.length := by
    rw [hl]; exact indexOf?_append hTiming H _ hT
  have i2 : indexOf? hObjects (lines0.map strip) = some (H.length + 1 + T.length) := by
    have e : H ++ hTiming :: (T ++ hObjects :: O) = (H ++ hTiming :: T) ++ hObjects :: O := by simp
    rw [hl, e, indexOf?_append hObjects (H ++ hTiming :: T) O]
    · simp; omega
    · simp only [List.mem_append, List.mem_cons, not_or]
      exact ⟨hO, by decide +kernel, hO'⟩
  have t1 : (lines0.map strip).take H.length = H := by
    rw [hl]; exact List.take_left' rfl
  have t2 : ((lines0.map strip).take (H.length + 1 + T.length)).drop (H.length + 1) = T := by
    have e : H ++ hTiming :: (T ++ hObjects :: O) = ((H ++ [hTiming]) ++ T) ++ hObjects :: O := by simp
    rw [hl, e, List.take_left' (by simp; omega), List.drop_left' (by simp)]
  have t3 : (lines0.map strip).drop (H.length + 1 + T.length + 1) = O := by
    have e : H ++ hTiming :: (T ++ hObjects :: O) = (((H ++ [hTiming]) ++ T) ++ [hObjects]) ++ O := by simp
    rw [hl, e, List.drop_left' (by simp; omega)]
  unfold read
  simp only [i1, i2, t1, t2, t3, hm, hs, hb, hh, hd]

end Reamber.Osu
