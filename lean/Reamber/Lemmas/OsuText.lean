/- C01 — whole-text level: the lines of a written file, `strip`, section indices. -/
import Reamber.Lemmas.OsuLines

namespace Reamber.Osu

/-! ### split of a join, in general (pieces may contain the separator) -/

theorem splitOn_append_sep' (c : Char) (p rest : Str) :
    splitOn c (p ++ c :: rest) = splitOn c p ++ splitOn c rest := by
  induction p with
  | nil => rw [List.nil_append, splitOn_cons_eq]; rfl
  | cons x xs ih =>
    show splitOn c (x :: (xs ++ c :: rest)) = _
    by_cases hx : x = c
    · subst hx
      rw [splitOn_cons_eq, splitOn_cons_eq, ih]; rfl
    · rw [splitOn_cons_ne c x _ hx, splitOn_cons_ne c x xs hx, ih]
      cases hs : splitOn c xs with
      | nil => exact absurd hs (splitOn_ne_nil c xs)
      | cons q qs => rfl

/-- `sep.join(ps).split(sep)` is the concatenation of the pieces' own splits -/
theorem splitOn_joinWith_flatten (c : Char) (ps : List Str) (hne : ps ≠ []) :
    splitOn c (joinWith c ps) = (ps.map (splitOn c)).flatten := by
  induction ps with
  | nil => exact absurd rfl hne
  | cons p qs ih =>
    cases qs with
    | nil => simp [joinWith]
    | cons q rs =>
      show splitOn c (p ++ c :: joinWith c (q :: rs)) = _
      rw [splitOn_append_sep', ih (by simp)]
      simp

theorem flatten_map_splitOn_noSep (c : Char) (ls : List Str) (h : ∀ l ∈ ls, c ∉ l) :
    (ls.map (splitOn c)).flatten = ls := by
  induction ls with
  | nil => rfl
  | cons l t ih =>
    rw [List.map_cons, List.flatten_cons, splitOn_noSep c l (h l (by simp)), ih (fun l' hl' => h l' (by simp [hl']))]
    rfl

/-! ### the lines of a written file -/

def headLines (R : Render) (c : Chart) : List Str := (writeMeta c.md).map R.line
def tpLines (R : Render) (c : Chart) : List Str := (c.bpms.map writeBpm ++ c.svs.map writeSv).map R.line
def objLines (R : Render) (c : Chart) : List Str :=
  ((sortedObjs c).map (writeObj (pyTrunc c.md.circleSize))).map R.line

/-- **`"\n".join(write()).split("\n")`**: the header lines, a blank line, `[TimingPoints]`, the timing lines, two
blank lines, `[HitObjects]`, the object lines — provided no rendered line contains a line break -/
theorem lines_writeText (R : Render) (c : Chart) (hh : ∀ l ∈ headLines R c, '\n' ∉ l)
    (ht : ∀ l ∈ tpLines R c, '\n' ∉ l) (ho : ∀ l ∈ objLines R c, '\n' ∉ l) :
    splitOn '\n' (writeText R c) =
      headLines R c ++ [[], hTiming] ++ tpLines R c ++ [[], [], hObjects] ++ objLines R c := by
  unfold writeText
  rw [splitOn_joinWith_flatten '\n' _ (by simp [write])]
  have l1 : R.line [L "\n[TimingPoints]"] = "\n[TimingPoints]".toList := by simp [Render.line, L, Render.tok]
  have l2 : R.line [L "\n\n[HitObjects]"] = "\n\n[HitObjects]".toList := by simp [Render.line, L, Render.tok]
  have e1 : splitOn '\n' (R.line [L "\n[TimingPoints]"]) = [[], hTiming] := by rw [l1]; decide +kernel
  have e2 : splitOn '\n' (R.line [L "\n\n[HitObjects]"]) = [[], [], hObjects] := by rw [l2]; decide +kernel
  have hw : (write c).map R.line = headLines R c ++ [R.line [L "\n[TimingPoints]"]] ++ tpLines R c ++
      [R.line [L "\n\n[HitObjects]"]] ++ objLines R c := by
    simp [write, headLines, tpLines, objLines]
  rw [hw]
  simp only [List.map_append, List.flatten_append, List.map_cons, List.map_nil, List.flatten_cons, List.flatten_nil,
    flatten_map_splitOn_noSep '\n' _ hh, flatten_map_splitOn_noSep '\n' _ ht, flatten_map_splitOn_noSep '\n' _ ho,
    e1, e2, List.append_nil]

end Reamber.Osu

namespace Reamber.Osu

/-! ### `OsuMap.read` on a list of lines with the two headers located -/

theorem indexOf?_append (x : Str) (A B : List Str) (h : x ∉ A) : indexOf? x (A ++ x :: B) = some A.length := by
  induction A with
  | nil => simp [indexOf?]
  | cons a t ih =>
    have ha : a ≠ x := fun e => h (by simp [e])
    have ht : x ∉ t := fun e => h (by simp [e])
    show indexOf? x (a :: (t ++ x :: B)) = _
    rw [indexOf?, if_neg ha, ih ht]; rfl

/-- the section split of `OsuMap.read`, once the trimmed lines are known to be `H ++ [TimingPoints] ++ T ++
[HitObjects] ++ O` with no earlier occurrence of the two headers: metadata from `H`, scroll velocities and tempo
points from `T`, hits and holds from `O` with the key count of the metadata just read -/
theorem read_sections (lines0 H T O : List Str)
    (hl : lines0.map strip = H ++ hTiming :: (T ++ hObjects :: O))
    (hT : hTiming ∉ H) (hO : hObjects ∉ H) (hO' : hObjects ∉ T)
    (md : Meta) (svs : List Sv) (bpms : List Bpm) (hits : List Hit) (holds : List Hold)
    (hm : readMeta {} H = .ok md)
    (hs : mapE readSv (T.filter isSliderVelocity) = .ok svs)
    (hb : mapE readBpm (T.filter isTimingPoint) = .ok bpms)
    (hh : mapE (fun s => readHit s (pyTrunc md.circleSize)) (O.filter isHit) = .ok hits)
    (hd : mapE (fun s => readHold s (pyTrunc md.circleSize)) (O.filter isHold) = .ok holds) :
    read lines0 = .ok { md := md, bpms := bpms, svs := svs, hits := hits, holds := holds } := by
  have i1 : indexOf? hTiming (lines0.map strip) = some H.length := by
    rw [hl]; exact indexOf?_append hTiming H _ hT
  have i2 : indexOf? hObjects (lines0.map strip) = some (H.length + 1 + T.length) := by
    have e : H ++ hTiming :: (T ++ hObjects :: O) = (H ++ hTiming :: T) ++ hObjects :: O := by simp
    rw [hl, e, indexOf?_append hObjects (H ++ hTiming :: T) O]
    · simp; omega
    · simp only [List.mem_append, List.mem_cons, not_or]
      exact ⟨hO, by decide +kernel, hO'⟩
  have t1 : (lines0.map strip).take H.length = H := by
    rw [hl]; exact List.take_left' rfl
  have t2 : ((lines0.map strip).take (H.length + 1 + T.length)).drop (H.length + 1) = T := by
    have e : H ++ hTiming :: (T ++ hObjects :: O) = ((H ++ [hTiming]) ++ T) ++ hObjects :: O := by simp
    rw [hl, e, List.take_left' (by simp; omega), List.drop_left' (by simp)]
  have t3 : (lines0.map strip).drop (H.length + 1 + T.length + 1) = O := by
    have e : H ++ hTiming :: (T ++ hObjects :: O) = (((H ++ [hTiming]) ++ T) ++ [hObjects]) ++ O := by simp
    rw [hl, e, List.drop_left' (by simp; omega)]
  unfold read
  simp only [i1, i2, t1, t2, t3, hm, hs, hb, hh, hd]

end Reamber.Osu

namespace Reamber.Osu

/-! ### `strip` -/

theorem dropWhile_append_stop {α} (p : α → Bool) (a : List α) (b : α) (c : List α) (hb : p b = false) :
    (a ++ b :: c).dropWhile p = a.dropWhile p ++ b :: c := by
  induction a with
  | nil => simp [List.dropWhile, hb]
  | cons x xs ih =>
    show (x :: (xs ++ b :: c)).dropWhile p = _
    rw [List.dropWhile_cons, List.dropWhile_cons]
    by_cases hx : p x = true
    · simp [hx, ih]
    · simp [hx]

/-- trailing white space goes, everything up to the last non-blank character stays -/
theorem rstrip_append_stop (a : Str) (b : Char) (c : Str) (hb : isWs b = false) :
    rstrip (a ++ b :: c) = a ++ b :: rstrip c := by
  unfold rstrip
  have : (a ++ b :: c).reverse = c.reverse ++ b :: a.reverse := by simp
  rw [this, dropWhile_append_stop isWs _ b _ hb]
  simp

theorem lstrip_of_head (a : Char) (t : Str) (ha : isWs a = false) : lstrip (a :: t) = a :: t := by
  unfold lstrip; rw [List.dropWhile_cons]; simp [ha]

/-- a text that begins and ends with non-blank characters is its own `strip` -/
theorem strip_of_ends (a : Char) (m : Str) (b : Char) (ha : isWs a = false) (hb : isWs b = false) :
    strip (a :: (m ++ [b])) = a :: (m ++ [b]) := by
  unfold strip
  rw [lstrip_of_head a _ ha]
  have := rstrip_append_stop (a :: m) b [] hb
  simpa [rstrip] using this

theorem strip_singleton (a : Char) (ha : isWs a = false) : strip [a] = [a] :=
  strip_of_noWs [a] (by intro ch hch; simp at hch; rw [hch]; exact ha)

/-- `strip` of `prefix ++ tail` when the prefix is non-empty and blank-free and the tail does not end in a blank -/
theorem strip_prefix_tail (P f : Str) (hP : P ≠ []) (hPw : ∀ ch ∈ P, isWs ch = false)
    (hf : ∀ t a, f = t ++ [a] → isWs a = false) : strip (P ++ f) = P ++ f := by
  cases P with
  | nil => exact absurd rfl hP
  | cons a P' =>
    have ha := hPw a (by simp)
    rcases List.eq_nil_or_concat f with rfl | ⟨t, b, rfl⟩
    · rw [List.append_nil]; exact strip_of_noWs _ hPw
    · have hb := hf t b List.concat_eq_append
      have : a :: P' ++ t.concat b = a :: ((P' ++ t) ++ [b]) := by simp
      rw [this]; exact strip_of_ends a _ b ha hb

/-- a `key:value` line: the key stays, the value loses its trailing blanks -/
theorem strip_key_value (k w : Str) (hk : k ≠ []) (hkw : ∀ ch ∈ k, isWs ch = false) :
    strip (k ++ ':' :: w) = k ++ ':' :: rstrip w := by
  unfold strip
  cases k with
  | nil => exact absurd rfl hk
  | cons a k' =>
    show rstrip (lstrip (a :: (k' ++ ':' :: w))) = _
    rw [lstrip_of_head a _ (hkw a (by simp))]
    exact rstrip_append_stop (a :: k') ':' w (by decide +kernel)

end Reamber.Osu

namespace Reamber.Osu

/-! ### written object and timing lines are their own `strip` and contain no line break -/

theorem isWs_nl : isWs '\n' = true := by decide +kernel

theorem line_append (R : Render) (l₁ l₂ : TLine) : R.line (l₁ ++ l₂) = R.line l₁ ++ R.line l₂ := by
  simp [Render.line]

/-- a token that renders to blank-free characters for every renderer: an integer or a separator -/
def PlainTok (t : Tok) : Prop := (∃ i, t = .int i) ∨ t = comma ∨ t = colon

theorem line_noWs_of_plain (R : Render) (l : TLine) (h : ∀ t ∈ l, PlainTok t) : ∀ ch ∈ R.line l, isWs ch = false := by
  induction l with
  | nil => intro ch hch; simp [Render.line] at hch
  | cons t ts ih =>
    intro ch hch
    have : R.line (t :: ts) = R.tok t ++ R.line ts := by simp [Render.line]
    rw [this, List.mem_append] at hch
    rcases hch with hch | hch
    · rcases h t (by simp) with ⟨i, rfl⟩ | rfl | rfl
      · exact showInt_noWs i ch hch
      · simp [Render.tok, comma] at hch; rw [hch]; decide +kernel
      · simp [Render.tok, colon] at hch; rw [hch]; decide +kernel
    · exact ih (fun t' ht' => h t' (by simp [ht'])) ch hch

/-- a file name that can stand at the end of a line: no line break inside, no blank at its end -/
def TailOk (f : Str) : Prop := '\n' ∉ f ∧ ∀ t a, f = t ++ [a] → isWs a = false

theorem prefix_tail_line (P f : Str) (hP : P ≠ []) (hPw : ∀ ch ∈ P, isWs ch = false) (hf : TailOk f) :
    strip (P ++ f) = P ++ f ∧ '\n' ∉ P ++ f := by
  refine ⟨strip_prefix_tail P f hP hPw hf.2, ?_⟩
  intro hm
  rcases List.mem_append.mp hm with h | h
  · have := hPw _ h; rw [isWs_nl] at this; exact Bool.noConfusion this
  · exact hf.1 h

theorem hit_line_ok (R : Render) (h : Hit) (k : Int) (hf : TailOk h.file) :
    strip (R.line (writeHit h k)) = R.line (writeHit h k) ∧ '\n' ∉ R.line (writeHit h k) := by
  have e : writeHit h k = (writeHit h k).dropLast ++ [.lit h.file] := rfl
  have hl : R.line (writeHit h k) = R.line (writeHit h k).dropLast ++ h.file := by
    conv => lhs; rw [e]
    rw [line_append]; simp [Render.line, Render.tok]
  rw [hl]
  apply prefix_tail_line _ _ _ _ hf
  · intro h0
    have : ',' ∈ R.line (writeHit h k).dropLast := by
      simp [writeHit, Render.line, Render.tok, comma, colon, List.dropLast]
    rw [h0] at this; simp at this
  · apply line_noWs_of_plain
    simp [writeHit, List.dropLast, PlainTok, comma, colon]

end Reamber.Osu

namespace Reamber.Osu

theorem hold_line_ok (R : Render) (h : Hold) (k : Int) (hf : TailOk h.file) :
    strip (R.line (writeHold h k)) = R.line (writeHold h k) ∧ '\n' ∉ R.line (writeHold h k) := by
  have e : writeHold h k = (writeHold h k).dropLast ++ [.lit h.file] := rfl
  have hl : R.line (writeHold h k) = R.line (writeHold h k).dropLast ++ h.file := by
    conv => lhs; rw [e]
    rw [line_append]; simp [Render.line, Render.tok]
  rw [hl]
  apply prefix_tail_line _ _ _ _ hf
  · intro h0
    have : ',' ∈ R.line (writeHold h k).dropLast := by
      simp [writeHold, Render.line, Render.tok, comma, colon, List.dropLast]
    rw [h0] at this; simp at this
  · apply line_noWs_of_plain
    simp [writeHold, List.dropLast, PlainTok, comma, colon]

/-- the strengthened hypotheses on one object: column inside the key count, file name free of `,` `:` and line
breaks, not ending in a blank -/
def ObjOk2 (k : Int) : Obj → Prop
  | .hit h => 0 ≤ h.column ∧ h.column < k ∧ ',' ∉ h.file ∧ ':' ∉ h.file ∧ TailOk h.file
  | .hold h => 0 ≤ h.column ∧ h.column < k ∧ ',' ∉ h.file ∧ ':' ∉ h.file ∧ TailOk h.file

theorem ObjOk2.toObjOk {k : Int} {o : Obj} (h : ObjOk2 k o) : ObjOk k o := by
  cases o with
  | hit x => exact ⟨h.1, h.2.1, h.2.2.1, h.2.2.2.1⟩
  | hold x => exact ⟨h.1, h.2.1, h.2.2.1, h.2.2.2.1⟩

theorem obj_line_ok (R : Render) (k : Int) (o : Obj) (h : ObjOk2 k o) :
    strip (R.line (writeObj k o)) = R.line (writeObj k o) ∧ '\n' ∉ R.line (writeObj k o) := by
  cases o with
  | hit x => exact hit_line_ok R x k h.2.2.2.2
  | hold x => exact hold_line_ok R x k h.2.2.2.2

theorem map_strip_of (ls : List Str) (h : ∀ l ∈ ls, strip l = l) : ls.map strip = ls := by
  induction ls with
  | nil => rfl
  | cons l t ih => rw [List.map_cons, h l (by simp), ih (fun l' hl' => h l' (by simp [hl']))]

/-! ### timing lines -/

/-- the renderer hypotheses for one float: reads back exactly, no comma, no blank (hence no line break) -/
def ReprOk (R : Render) (q : Rat) : Prop :=
  readFloat (R.repr q) = .ok q ∧ ',' ∉ R.repr q ∧ ∀ ch ∈ R.repr q, isWs ch = false

def BpmOk2 (R : Render) (b : Bpm) : Prop := b.bpm ≠ 0 ∧ ReprOk R b.offset ∧ ReprOk R (bpmCode b.bpm)
def SvOk2 (R : Render) (b : Sv) : Prop := b.multiplier ≠ 0 ∧ ReprOk R b.offset ∧ ReprOk R (svCode b.multiplier)

theorem BpmOk2.toBpmOk {R : Render} {b : Bpm} (h : BpmOk2 R b) : BpmOk R b :=
  ⟨h.1, h.2.1.1, h.2.2.1, h.2.1.2.1, h.2.2.2.1⟩
theorem SvOk2.toSvOk {R : Render} {b : Sv} (h : SvOk2 R b) : SvOk R b :=
  ⟨h.1, h.2.1.1, h.2.2.1, h.2.1.2.1, h.2.2.2.1⟩

theorem noWs_not_nl (s : Str) (h : ∀ ch ∈ s, isWs ch = false) : '\n' ∉ s := by
  intro hm; have := h _ hm; rw [isWs_nl] at this; exact Bool.noConfusion this

theorem joinWith_noWs (c : Char) (hc : isWs c = false) (ps : List Str) (h : ∀ p ∈ ps, ∀ ch ∈ p, isWs ch = false) :
    ∀ ch ∈ joinWith c ps, isWs ch = false := by
  induction ps with
  | nil => intro ch hch; simp [joinWith] at hch
  | cons p qs ih =>
    cases qs with
    | nil => simpa [joinWith] using h p (by simp)
    | cons q rs =>
      intro ch hch
      have : joinWith c (p :: q :: rs) = p ++ c :: joinWith c (q :: rs) := rfl
      rw [this] at hch
      simp only [List.mem_append, List.mem_cons] at hch
      rcases hch with hch | rfl | hch
      · exact h p (by simp) ch hch
      · exact hc
      · exact ih (fun p' hp' => h p' (by simp [hp'])) ch hch

theorem bpm_line_noWs (R : Render) (b : Bpm) (h : BpmOk2 R b) : ∀ ch ∈ R.line (writeBpm b), isWs ch = false := by
  rw [line_writeBpm]
  apply joinWith_noWs ',' (by decide +kernel)
  intro p hp
  simp only [bpmFields, List.mem_cons, List.not_mem_nil, or_false] at hp
  rcases hp with rfl | rfl | rfl | rfl | rfl | rfl | rfl | rfl
  · exact h.2.1.2.2
  · exact h.2.2.2.2
  all_goals exact showInt_noWs _

theorem sv_line_noWs (R : Render) (b : Sv) (h : SvOk2 R b) : ∀ ch ∈ R.line (writeSv b), isWs ch = false := by
  rw [line_writeSv]
  apply joinWith_noWs ',' (by decide +kernel)
  intro p hp
  simp only [svFields, List.mem_cons, List.not_mem_nil, or_false] at hp
  rcases hp with rfl | rfl | rfl | rfl | rfl | rfl | rfl | rfl
  · exact h.2.1.2.2
  · exact h.2.2.2.2
  all_goals exact showInt_noWs _

/-- every timing line of a written chart: blank-free (so trimmed and free of line breaks) and not a section header -/
theorem tpLines_ok (R : Render) (c : Chart) (hb : ∀ b ∈ c.bpms, BpmOk2 R b) (hs : ∀ b ∈ c.svs, SvOk2 R b) :
    ∀ l ∈ tpLines R c, (∀ ch ∈ l, isWs ch = false) ∧ l ≠ hObjects := by
  intro l hl
  simp only [tpLines, List.map_append, List.map_map, List.mem_append, List.mem_map, Function.comp] at hl
  rcases hl with ⟨b, hbm, rfl⟩ | ⟨b, hbm, rfl⟩
  · refine ⟨bpm_line_noWs R b (hb b hbm), ?_⟩
    intro he
    have := split_writeBpm R b (hb b hbm).2.1.2.1 (hb b hbm).2.2.2.1
    rw [he] at this
    have h2 : (splitOn ',' hObjects).length = 1 := by decide +kernel
    rw [this] at h2; simp [bpmFields] at h2
  · refine ⟨sv_line_noWs R b (hs b hbm), ?_⟩
    intro he
    have := split_writeSv R b (hs b hbm).2.1.2.1 (hs b hbm).2.2.2.1
    rw [he] at this
    have h2 : (splitOn ',' hObjects).length = 1 := by decide +kernel
    rw [this] at h2; simp [svFields] at h2

end Reamber.Osu

namespace Reamber.Osu

/-! ### `strip` after `rstrip` -/

theorem dropWhile_append_singleton {α} (p : α → Bool) (x : List α) (a : α) :
    (x ++ [a]).dropWhile p = if x.dropWhile p = [] then (if p a then [] else [a]) else x.dropWhile p ++ [a] := by
  induction x with
  | nil => simp [List.dropWhile]; cases p a <;> simp
  | cons y ys ih =>
    show (y :: (ys ++ [a])).dropWhile p = _
    rw [List.dropWhile_cons, List.dropWhile_cons]
    by_cases hy : p y = true
    · simp only [hy, if_true]; exact ih
    · simp [hy]

theorem rstrip_cons (a : Char) (t : Str) :
    rstrip (a :: t) = if rstrip t = [] then (if isWs a then [] else [a]) else a :: rstrip t := by
  unfold rstrip
  rw [List.reverse_cons, dropWhile_append_singleton]
  by_cases h : List.dropWhile isWs t.reverse = []
  · simp [h]; cases isWs a <;> simp
  · simp [h]

theorem rstrip_nil : rstrip ([] : Str) = [] := rfl

theorem lstrip_rstrip_comm (w : Str) : lstrip (rstrip w) = rstrip (lstrip w) := by
  induction w with
  | nil => rfl
  | cons a t ih =>
    by_cases ha : isWs a = true
    · have hl : lstrip (a :: t) = lstrip t := by unfold lstrip; rw [List.dropWhile_cons]; simp [ha]
      rw [hl, rstrip_cons]
      by_cases hr : rstrip t = []
      · rw [if_pos hr, if_pos ha, ← ih, hr]
      · rw [if_neg hr]
        have : lstrip (a :: rstrip t) = lstrip (rstrip t) := by unfold lstrip; rw [List.dropWhile_cons]; simp [ha]
        rw [this, ih]
    · have ha' : isWs a = false := by simpa using ha
      rw [lstrip_of_head a t ha', rstrip_cons]
      by_cases hr : rstrip t = []
      · rw [if_pos hr]; simp only [ha', Bool.false_eq_true, if_false]; exact lstrip_of_head a [] ha'
      · rw [if_neg hr]; exact lstrip_of_head a _ ha'

theorem rstrip_idem (w : Str) : rstrip (rstrip w) = rstrip w := by
  unfold rstrip
  rw [List.reverse_reverse]
  congr 1
  generalize w.reverse = x
  induction x with
  | nil => rfl
  | cons y ys ih =>
    rw [List.dropWhile_cons]
    by_cases hy : isWs y = true
    · simp [hy, ih]
    · simp [hy]

/-- trimming the end first changes nothing for `strip` — hence nothing for `int()`, `float()`, `.strip()` of a value
whose line has been trimmed -/
theorem strip_rstrip (w : Str) : strip (rstrip w) = strip w := by
  unfold strip
  rw [lstrip_rstrip_comm, rstrip_idem]

theorem any_isSep_rstrip (w : Str) (h : w.any isSep = false) : (rstrip w).any isSep = false := by
  rw [Bool.eq_false_iff] at h ⊢
  intro ha
  apply h
  rw [List.any_eq_true] at ha ⊢
  obtain ⟨ch, hch, hs⟩ := ha
  refine ⟨ch, ?_, hs⟩
  unfold rstrip at hch
  rw [List.mem_reverse] at hch
  have := (List.dropWhile_sublist (l := w.reverse) isWs).subset hch
  exact List.mem_reverse.mp this

/-- the trailing white space that the line-level `strip` removed makes no difference to a number — unless the text
contains one of \x1c–\x1f, on which `int()` / `float()` fail while `strip()` removes them -/
theorem numPrep_rstrip (w : Str) (h : w.any isSep = false) : numPrep (rstrip w) = numPrep w := by
  unfold numPrep
  rw [any_isSep_rstrip w h, h, strip_rstrip]

theorem numPrep_of_sep (w : Str) (h : w.any isSep = true) : numPrep w = none := by
  unfold numPrep; rw [h]; rfl

theorem readInt_rstrip (w : Str) (v : Int) (h : readInt w = .ok v) : readInt (rstrip w) = .ok v := by
  cases hs : w.any isSep with
  | true => unfold readInt at h; rw [numPrep_of_sep w hs] at h; cases h
  | false => unfold readInt at h ⊢; rw [numPrep_rstrip w hs]; exact h

theorem readFloat_rstrip (w : Str) (v : Rat) (h : readFloat w = .ok v) : readFloat (rstrip w) = .ok v := by
  cases hs : w.any isSep with
  | true => unfold readFloat at h; rw [numPrep_of_sep w hs] at h; cases h
  | false => unfold readFloat at h ⊢; rw [numPrep_rstrip w hs]; exact h

theorem readBoolInt_rstrip (w : Str) (v : Bool) (h : readBoolInt w = .ok v) : readBoolInt (rstrip w) = .ok v := by
  unfold readBoolInt at h ⊢
  cases hi : readInt w with
  | error e => rw [hi] at h; cases h
  | ok i => rw [hi] at h; rw [readInt_rstrip w i hi]; exact h

end Reamber.Osu

namespace Reamber.Osu

theorem tailOk_iff (f : Str) : TailOk f ↔ ('\n' ∉ f ∧ f.getLast?.map isWs ≠ some true) := by
  unfold TailOk
  constructor
  · rintro ⟨h1, h2⟩
    refine ⟨h1, ?_⟩
    rcases List.eq_nil_or_concat f with rfl | ⟨t, a, rfl⟩
    · simp
    · have := h2 t a List.concat_eq_append
      simp [this]
  · rintro ⟨h1, h2⟩
    refine ⟨h1, ?_⟩
    intro t a hf
    subst hf
    simp at h2
    simpa using h2

instance (f : Str) : Decidable (TailOk f) := decidable_of_iff _ (tailOk_iff f).symm

instance (k : Int) (o : Obj) : Decidable (ObjOk2 k o) := by
  cases o <;> (unfold ObjOk2; infer_instance)

instance (R : Render) (q : Rat) : Decidable (ReprOk R q) := by unfold ReprOk; infer_instance
instance (R : Render) (b : Bpm) : Decidable (BpmOk2 R b) := by unfold BpmOk2; infer_instance
instance (R : Render) (b : Sv) : Decidable (SvOk2 R b) := by unfold SvOk2; infer_instance

end Reamber.Osu
