/-
C13 — the stacker invariant: after any sequence of column assignments the stacked frame is the concatenation of
the original lists transformed column-wise, and `_update` hands each list its own transformed rows.
-/
import Reamber.Lemmas.Rate

namespace Reamber.Rate

/-- columns of the stacked frame -/
abbrev U (fs : List Frame) : List String := unionCols (fs.map (·.cols))

/-- rows of `pd.concat` -/
def stackedRows (fs : List Frame) : List (List Cell) := fs.flatMap (fun f => f.rows.map (reindex (U fs) f.cols))

/-- the state of a `Map.Stacker` over the lists `fs` after column assignments that amount to `h` -/
structure Stage (fs : List Frame) (h : String → Cell → Cell) (s : Stacker) : Prop where
  ixs : s.ixs = ixsFrom 0 fs
  cols : s.unstacked.map (·.cols) = fs.map (·.cols)
  stacked : s.stacked = ⟨U fs, (stackedRows fs).map (mapAll h (U fs))⟩

theorem Stage.init (fs : List Frame) : Stage fs (fun _ v => v) (Stacker.init fs) := by
  refine ⟨rfl, rfl, ?_⟩
  simp only [Stacker.init, concat, stackedRows]
  congr 1
  rw [List.map_congr_left (g := id) (fun row _ => by simp [mapAll_id])]
  simp

theorem stackedRows_map (fs : List Frame) (T : List Cell → List Cell) :
    (stackedRows fs).map T = fs.flatMap (fun f => f.rows.map (fun row => T (reindex (U fs) f.cols row))) := by
  simp [stackedRows, List.map_flatMap, List.map_map, Function.comp_def]

/-- one `stack.c = g(stack.c)` -/
theorem Stage.step {fs : List Frame} {h : String → Cell → Cell} {s : Stacker} (st : Stage fs h s)
    (c : String) (g : Cell → Cell) (hc : c ∈ U fs)
    (hnum : ∀ f ∈ fs, ∀ row ∈ f.rows, (h c (lookupCell f.cols row c)).numeric = true)
    (hwf : ∀ f ∈ fs, f.wf = true) :
    ∃ s', s.opCol c g = .ok s' ∧ Stage fs (fun k v => if k = c then g (h k v) else h k v) s' ∧
      s'.unstacked = fs.map (fun f => ⟨f.cols, f.rows.map (mapAll (fun k v => if k = c then g (h k v) else h k v) f.cols)⟩) := by
  have hcheck : s.stacked.arithCheck c = .ok () := by
    unfold Frame.arithCheck
    rw [st.stacked]
    have h1 : (U fs).contains c = true := by simpa using hc
    simp only [h1, Bool.not_true, Bool.false_eq_true, if_false]
    have : (Frame.col ⟨U fs, (stackedRows fs).map (mapAll h (U fs))⟩ c).all Cell.numeric = true := by
      rw [List.all_eq_true]
      intro x hx
      simp only [Frame.col, List.mem_map] at hx
      obtain ⟨row', ⟨row0, hrow0, rfl⟩, rfl⟩ := hx
      simp only [stackedRows, List.mem_flatMap, List.mem_map] at hrow0
      obtain ⟨f, hf, row, hrow, rfl⟩ := hrow0
      unfold reindex
      rw [lookupCell_mapAll_map h _ _ c hc]
      exact hnum f hf row hrow
    simp [this]
  have hrows : (s.stacked.mapCol c g) =
      ⟨U fs, (stackedRows fs).map (mapAll (fun k v => if k = c then g (h k v) else h k v) (U fs))⟩ := by
    rw [st.stacked]
    simp only [Frame.mapCol, List.map_map]
    congr 1
    apply List.map_congr_left
    intro row _
    simp only [Function.comp_def, mapAt_eq_mapAll, mapAll_comp]
  refine ⟨_, by simp only [Stacker.opCol, hcheck, bind, Except.bind]; rfl, ?_⟩
  have hu : updateWith (s.stacked.mapCol c g) s.unstacked s.ixs =
      fs.map (fun f => ⟨f.cols, f.rows.map (mapAll (fun k v => if k = c then g (h k v) else h k v) f.cols)⟩) := by
    rw [hrows, st.ixs, stackedRows_map]
    have := updateWith_slices (U fs) (mapAll (fun k v => if k = c then g (h k v) else h k v) (U fs)) fs s.unstacked [] [] st.cols
    simp only [List.nil_append, List.append_nil, List.length_nil] at this
    rw [this]
    apply List.map_congr_left
    intro f hf
    congr 1
    apply List.map_congr_left
    intro row hrow
    have hw := hwf f hf
    simp only [Frame.wf, Bool.and_eq_true, List.all_eq_true] at hw
    exact reindex_mapAll_reindex _ (U fs) f.cols row hw.1 (by simpa using hw.2 row hrow) (cols_subset_union fs f hf)
  refine ⟨⟨st.ixs, ?_, hrows⟩, hu⟩
  simp only [Stacker.update]
  rw [hu]
  simp [List.map_map, Function.comp_def]

end Reamber.Rate
