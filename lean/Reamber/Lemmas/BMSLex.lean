/-
C04 — the specification's own lexer (`Spec/BMS.lean`: `trimBlank`, `bookLine`, `bookTable`, `bookDoc`) against the
reader's (`Model/BMS.lean`: `strip`, `classify` with `split(b" ", 1)` / `split(b":")` / slices, the dict fold of
`parseDoc`), on all byte strings.
-/
import Reamber.Model.BMS
import Reamber.Spec.BMS

namespace Reamber.BMS

/-! ### white space -/

theorem isBlank_eq_isWs (c : Char) : isBlank c = isWs c := by
  have key : ∀ n : Nat, (c = Char.ofNat n) ↔ (c.toNat = (Char.ofNat n).toNat) := by
    intro n
    constructor
    · intro h; rw [h]
    · intro h
      have := congrArg Char.ofNat h
      rwa [Char.ofNat_toNat, Char.ofNat_toNat] at this
  have h32 : (c = ' ') ↔ (c.toNat = 32) := key 32
  have h9 : (c = '\t') ↔ (c.toNat = 9) := key 9
  have h10 : (c = '\n') ↔ (c.toNat = 10) := key 10
  have h13 : (c = '\r') ↔ (c.toNat = 13) := key 13
  unfold isBlank isWs
  simp only [h32, h9, h10, h13]
  generalize c.toNat = n
  by_cases a : n = 32 <;> by_cases b : n = 9 <;> by_cases d : n = 10 <;> by_cases e : n = 13 <;>
    by_cases f : n = 11 <;> by_cases g : n = 12 <;> simp [a, b, d, e, f, g] <;> omega

theorem lstrip_eq_dropWhile (s : Bytes) : lstrip s = s.dropWhile isBlank := by
  induction s with
  | nil => rfl
  | cons c t ih =>
    simp only [lstrip, List.dropWhile_cons, isBlank_eq_isWs]
    split <;> simp_all

/-- the specification's trimming is the reader's `strip()` -/
theorem trimBlank_eq_strip (s : Bytes) : trimBlank s = strip s := by
  unfold trimBlank strip
  rw [lstrip_eq_dropWhile, lstrip_eq_dropWhile]

/-! ### `split(b" ", 1)` and `split(b":")` -/

theorem splitSpace1_noSpace (l : Bytes) (h : l.contains ' ' = false) : splitSpace1 l = (l, none) := by
  induction l with
  | nil => rfl
  | cons c t ih =>
    simp only [List.contains_cons, Bool.or_eq_false_iff, beq_eq_false_iff_ne, ne_eq] at h
    have hc : ¬ c = ' ' := fun e => h.1 e.symm
    simp only [splitSpace1, hc, if_false, ih h.2]

theorem splitSpace1_space (l : Bytes) (h : l.contains ' ' = true) :
    splitSpace1 l = (l.takeWhile (fun c => c != ' '), some ((l.dropWhile (fun c => c != ' ')).drop 1)) := by
  induction l with
  | nil => simp at h
  | cons c t ih =>
    by_cases hc : c = ' '
    · subst hc
      simp [splitSpace1]
    · have ht : t.contains ' ' = true := by
        simp only [List.contains_cons, Bool.or_eq_true, beq_iff_eq] at h
        rcases h with h | h
        · exact absurd h.symm hc
        · exact h
      have hne : (c != ' ') = true := by simp [hc]
      simp only [splitSpace1, hc, if_false, ih ht, List.takeWhile_cons, List.dropWhile_cons, hne, if_true]

theorem splitOnC_noSep (sep : Char) (l : Bytes) (h : l.contains sep = false) : splitOnC sep l = [l] := by
  induction l with
  | nil => rfl
  | cons c t ih =>
    simp only [List.contains_cons, Bool.or_eq_false_iff, beq_eq_false_iff_ne, ne_eq] at h
    have hc : ¬ c = sep := fun e => h.1 e.symm
    simp only [splitOnC, hc, if_false, ih h.2]

theorem splitOnC_cons_ne (sep c : Char) (t : Bytes) (hc : c ≠ sep) (a : Bytes) (r : List Bytes)
    (h : splitOnC sep t = a :: r) : splitOnC sep (c :: t) = (c :: a) :: r := by
  simp only [splitOnC, hc, if_false, h]

theorem splitOnC_sep (sep : Char) (t : Bytes) : splitOnC sep (sep :: t) = [] :: splitOnC sep t := by
  simp [splitOnC]

/-! ### one line -/

theorem isDigit_ne_colon {c : Char} (h : isDigit c = true) : c ≠ ':' := by
  intro e; subst e; revert h; decide

theorem isAlnum_ne_colon {c : Char} (h : isAlnum c = true) : c ≠ ':' := by
  intro e; subst e; revert h; decide

theorem isDigit_ne_space {c : Char} (h : isDigit c = true) : c ≠ ' ' := by
  intro e; subst e; revert h; decide

/-- **The reader's line classifier agrees with the specification's lexer** on every byte string to which the
specification gives a meaning: `strip`, `startswith(b"#")`, `split(b" ", 1)`, the digit test on the second byte,
`split(b":")` and the slices `[1:4]`, `[4:6]` produce exactly the by-the-book header name / value, measure /
channel / data, or "ignored". -/
theorem bookLine_classify (raw : Bytes) (l : Line) (h : bookLine raw = some l) : classify raw = .ok l := by
  unfold bookLine at h
  unfold classify
  rw [trimBlank_eq_strip] at h
  generalize strip raw = line at h ⊢
  cases line with
  | nil => simp only [Option.some.injEq] at h; subst h; rfl
  | cons c body =>
    by_cases hc : c = '#'
    rotate_left
    · -- a comment line
      have hl : l = .skip := by
        split at h
        · rename_i body' heq
          injection heq with h1 _
          exact absurd h1 hc
        · simp only [Option.some.injEq] at h; exact h.symm
      subst hl
      try dsimp only
      split
      · rename_i heq
        injection heq with h1 _
        exact absurd h1 hc
      · rfl
    · subst hc
      simp only at h ⊢
      by_cases hsp : body.contains ' ' = true
      · -- header command
        simp only [hsp, if_true, Option.some.injEq] at h
        subst h
        have hsp' : ('#' :: body).contains ' ' = true := by
          simp only [List.contains_cons, hsp, Bool.or_true]
        rw [splitSpace1_space _ hsp']
        have hne : ('#' != ' ') = true := by decide
        simp only [List.takeWhile_cons, List.dropWhile_cons, hne, if_true, List.drop_succ_cons, List.drop_zero]
      · have hsp0 : body.contains ' ' = false := by simpa using hsp
        simp only [hsp0, Bool.false_eq_true, if_false] at h
        have hsp' : ('#' :: body).contains ' ' = false := by
          simp only [List.contains_cons, Bool.or_eq_false_iff, beq_eq_false_iff_ne, ne_eq]
          exact ⟨by decide, hsp0⟩
        rw [splitSpace1_noSpace _ hsp']
        cases body with
        | nil => cases h
        | cons d rest =>
          simp only at h ⊢
          by_cases hd : isDigit d = true
          rotate_left
          · simp only [hd, Bool.false_eq_true, if_false, Option.some.injEq] at h
            subst h
            simp [hd]
          · simp only [hd, if_true] at h ⊢
            rcases rest with _ | ⟨m2, _ | ⟨m3, _ | ⟨c1, _ | ⟨c2, _ | ⟨c6, data⟩⟩⟩⟩⟩
            · simp at h
            · simp at h
            · simp at h
            · simp at h
            · simp at h
            · by_cases h6 : c6 = ':'
              rotate_left
              · exfalso
                split at h
                · rename_i heq
                  simp only [List.cons.injEq] at heq
                  exact h6 heq.2.2.2.2.2.1
                · cases h
              · subst h6
                simp only at h
                by_cases hg : (isDigit m2 && isDigit m3 && isAlnum c1 && isAlnum c2 && !(data.contains ':')) = true
                rotate_left
                · rw [if_neg hg] at h; cases h
                · rw [if_pos hg] at h
                  simp only [Option.some.injEq] at h
                  subst h
                  simp only [Bool.and_eq_true, Bool.not_eq_true'] at hg
                  obtain ⟨⟨⟨⟨g2, g3⟩, g4⟩, g5⟩, g6⟩ := hg
                  have e1 : splitOnC ':' (':' :: data) = [[], data] := by
                    rw [splitOnC_sep, splitOnC_noSep _ _ g6]
                  have e := splitOnC_cons_ne ':' c2 _ (isAlnum_ne_colon g5) _ _ e1
                  have e := splitOnC_cons_ne ':' c1 _ (isAlnum_ne_colon g4) _ _ e
                  have e := splitOnC_cons_ne ':' m3 _ (isDigit_ne_colon g3) _ _ e
                  have e := splitOnC_cons_ne ':' m2 _ (isDigit_ne_colon g2) _ _ e
                  have e := splitOnC_cons_ne ':' d _ (isDigit_ne_colon hd) _ _ e
                  have e := splitOnC_cons_ne ':' '#' _ (by decide) _ _ e
                  rw [e]
                  rfl

/-! ### the header table -/

theorem lastValue_cons_self {α} (k : Bytes) (v : α) (rest : List (Bytes × α)) :
    lastValue k ((k, v) :: rest) = some ((lastValue k rest).getD v) := by
  simp only [lastValue]
  cases lastValue k rest <;> simp

theorem lastValue_cons_ne {α} (k k' : Bytes) (v : α) (rest : List (Bytes × α)) (h : k' ≠ k) :
    lastValue k ((k', v) :: rest) = lastValue k rest := by
  simp only [lastValue]
  cases lastValue k rest <;> simp [h]

/-- the reader's insertion-ordered dict after more definitions: old entries keep their place and take the last
value defined for their name, new names follow in the order of their first definition -/
theorem dictFold_eq {α} (hs : List (Bytes × α)) : ∀ (acc : Dict α),
    hs.foldl (fun d kv => dictSet d kv.1 kv.2) acc =
      acc.map (fun p => (p.1, (lastValue p.1 hs).getD p.2)) ++
        (bookTable hs).filter (fun p => !(acc.any (fun q => q.1 = p.1))) := by
  induction hs with
  | nil => intro acc; simp [bookTable, lastValue]
  | cons kv rest ih =>
    intro acc
    obtain ⟨k, v⟩ := kv
    rw [List.foldl_cons, ih]
    by_cases hk : acc.any (fun q => q.1 = k) = true
    · -- an old name: updated in place
      have hset : dictSet acc k v = acc.map (fun p => if p.1 = k then (k, v) else p) := by simp [dictSet, hk]
      rw [hset]
      congr 1
      · rw [List.map_map]
        apply List.map_congr_left
        intro p _
        by_cases hp : p.1 = k
        · simp only [Function.comp, hp, if_true]
          rw [lastValue_cons_self]
          simp
        · simp only [Function.comp, hp, if_false]
          rw [lastValue_cons_ne _ _ _ _ (fun e => hp e.symm)]
      · simp only [bookTable, List.filter_cons, hk, Bool.not_true, Bool.false_eq_true, if_false, List.filter_filter]
        apply List.filter_congr
        intro p _
        have hany : (acc.map (fun p => if p.1 = k then (k, v) else p)).any (fun q => q.1 = p.1) = acc.any (fun q => q.1 = p.1) := by
          rw [List.any_map]
          congr 1
          funext q
          by_cases hq : q.1 = k <;> simp [hq]
        rw [hany]
        by_cases hp : p.1 = k
        · subst hp
          simp [hk]
        · simp [hp]
    · -- a new name: appended
      have hk' : acc.any (fun q => q.1 = k) = false := (Bool.not_eq_true _).mp hk
      have hset : dictSet acc k v = acc ++ [(k, v)] := by simp [dictSet, hk']
      rw [hset, List.map_append, List.append_assoc]
      congr 1
      · apply List.map_congr_left
        intro p hp
        have hpk : p.1 ≠ k := by
          intro e
          have h1 : acc.any (fun q => q.1 = k) = true := List.any_eq_true.mpr ⟨p, hp, decide_eq_true e⟩
          rw [hk'] at h1; cases h1
        rw [lastValue_cons_ne _ _ _ _ (fun e => hpk e.symm)]
      · simp only [bookTable, List.map_cons, List.map_nil, List.filter_cons, hk', Bool.not_false, if_true,
          List.singleton_append, List.filter_filter]
        congr 1
        apply List.filter_congr
        intro p _
        simp only [List.any_append, List.any_cons, List.any_nil, Bool.or_false]
        by_cases hp : p.1 = k
        · simp [hp]
        · have : ¬ k = p.1 := fun e => hp e.symm
          simp [hp, this]

/-- **The reader's header dict is the by-the-book table** -/
theorem bookTable_eq_fold {α} (hs : List (Bytes × α)) :
    hs.foldl (fun d kv => dictSet d kv.1 kv.2) [] = bookTable hs := by
  rw [dictFold_eq]
  simp

/-- looking a name up in the by-the-book table gives its last definition -/
theorem dictGet?_bookTable {α} (hs : List (Bytes × α)) (k : Bytes) : dictGet? (bookTable hs) k = lastValue k hs := by
  induction hs with
  | nil => rfl
  | cons kv rest ih =>
    obtain ⟨k', v⟩ := kv
    by_cases hk : k' = k
    · subst hk
      rw [lastValue_cons_self]
      simp [bookTable, dictGet?]
    · rw [lastValue_cons_ne _ _ _ _ hk, ← ih]
      simp only [bookTable, dictGet?, List.find?_cons, hk, decide_false]
      congr 1
      clear ih
      induction bookTable rest with
      | nil => rfl
      | cons a t iht =>
        by_cases ha : a.1 = k'
        · have h1 : decide (a.1 ≠ k') = false := decide_eq_false (fun h => h ha)
          have h2 : decide (a.1 = k) = false := decide_eq_false (fun e => hk (ha.symm.trans e))
          simp only [List.filter_cons, h1, Bool.false_eq_true, if_false, List.find?_cons, h2, iht]
        · have h1 : decide (a.1 ≠ k') = true := decide_eq_true ha
          by_cases hak : a.1 = k
          · have h2 : decide (a.1 = k) = true := decide_eq_true hak
            simp only [List.filter_cons, h1, if_true, List.find?_cons, h2]
          · have h2 : decide (a.1 = k) = false := decide_eq_false hak
            simp only [List.filter_cons, h1, if_true, List.find?_cons, h2, iht]

/-! ### the whole text -/

@[simp] theorem headerOf_header (k v : Bytes) : Line.headerOf (.header k v) = some (k, v) := rfl
@[simp] theorem headerOf_note (m c x : Bytes) : Line.headerOf (.note m c x) = none := rfl
@[simp] theorem headerOf_skip : Line.headerOf .skip = none := rfl
@[simp] theorem messageOf_header (k v : Bytes) : Line.messageOf (.header k v) = none := rfl
@[simp] theorem messageOf_note (m c x : Bytes) : Line.messageOf (.note m c x) = some (m, c, x) := rfl
@[simp] theorem messageOf_skip : Line.messageOf .skip = none := rfl

theorem fm_msg_header (k v : Bytes) (ls : List Line) :
    List.filterMap Line.messageOf (Line.header k v :: ls) = List.filterMap Line.messageOf ls := rfl
theorem fm_msg_note (m c x : Bytes) (ls : List Line) :
    List.filterMap Line.messageOf (Line.note m c x :: ls) = (m, c, x) :: List.filterMap Line.messageOf ls := rfl
theorem fm_msg_skip (ls : List Line) :
    List.filterMap Line.messageOf (Line.skip :: ls) = List.filterMap Line.messageOf ls := rfl
theorem fm_hdr_header (k v : Bytes) (ls : List Line) :
    List.filterMap Line.headerOf (Line.header k v :: ls) = (k, v) :: List.filterMap Line.headerOf ls := rfl
theorem fm_hdr_note (m c x : Bytes) (ls : List Line) :
    List.filterMap Line.headerOf (Line.note m c x :: ls) = List.filterMap Line.headerOf ls := rfl
theorem fm_hdr_skip (ls : List Line) :
    List.filterMap Line.headerOf (Line.skip :: ls) = List.filterMap Line.headerOf ls := rfl

theorem parseDoc_acc (ls : List Line) : ∀ (lines : List Bytes) (d : Doc),
    allSome (lines.map bookLine) = some ls →
    foldlE docStep d lines = .ok ⟨(ls.filterMap Line.headerOf).foldl (fun d kv => dictSet d kv.1 kv.2) d.header,
      d.notes ++ ls.filterMap Line.messageOf⟩ := by
  induction ls with
  | nil =>
    intro lines d h
    cases lines with
    | nil => simp [foldlE]
    | cons r t =>
      simp only [List.map_cons, allSome] at h
      cases hb : bookLine r with
      | none => simp [hb, allSome] at h
      | some l =>
        simp only [hb, allSome] at h
        cases ht : allSome (t.map bookLine) <;> simp [ht] at h
  | cons l ls ih =>
    intro lines d h
    cases lines with
    | nil => simp [allSome] at h
    | cons r t =>
      simp only [List.map_cons] at h
      cases hb : bookLine r with
      | none => simp [hb, allSome] at h
      | some l' =>
        simp only [hb, allSome] at h
        cases ht : allSome (t.map bookLine) with
        | none => simp [ht] at h
        | some ls' =>
          simp only [ht, Option.map_some, Option.some.injEq, List.cons.injEq] at h
          obtain ⟨rfl, rfl⟩ := h
          have hc := bookLine_classify r l' hb
          simp only [foldlE, docStep, hc]
          cases l' with
          | header k v =>
            simp only
            rw [ih t _ ht]
            simp only [fm_msg_header, fm_msg_note, fm_msg_skip, fm_hdr_header, fm_hdr_note, fm_hdr_skip, List.foldl_cons, List.append_assoc, List.singleton_append, List.cons_append, List.nil_append]
          | note m c s =>
            simp only
            rw [ih t _ ht]
            simp only [fm_msg_header, fm_msg_note, fm_msg_skip, fm_hdr_header, fm_hdr_note, fm_hdr_skip, List.foldl_cons, List.append_assoc, List.singleton_append, List.cons_append, List.nil_append]
          | skip =>
            simp only
            rw [ih t _ ht]
            simp only [fm_msg_header, fm_msg_note, fm_msg_skip, fm_hdr_header, fm_hdr_note, fm_hdr_skip, List.foldl_cons, List.append_assoc, List.singleton_append, List.cons_append, List.nil_append]

/-- **The reader's line loop agrees with the specification's lexer on every text**: wherever the by-the-book lexer
gives every line a meaning, `BMSMap.read`'s loop (classifier, insertion-ordered header dict, note list) ends with
exactly the by-the-book header table and channel messages. -/
theorem bookDoc_parseDoc (lines : List Bytes) (doc : Doc) (h : bookDoc lines = some doc) : parseDoc lines = .ok doc := by
  unfold bookDoc at h
  cases hl : allSome (lines.map bookLine) with
  | none => simp [hl] at h
  | some ls =>
    simp only [hl, Option.map_some, Option.some.injEq] at h
    subst h
    unfold parseDoc
    rw [parseDoc_acc ls lines ⟨[], []⟩ hl, bookTable_eq_fold]
    simp

/-! ### the FILE entry point -/

theorem pyLinesAux_eq : ∀ (n : Nat) (b cur : Bytes), b.length ≤ n → (∀ c ∈ b, pyExoticSep c = false) →
    pyLinesAux cur b = fileLinesAux cur b := by
  intro n
  induction n with
  | zero =>
    intro b cur hl _
    cases b with
    | nil => simp [pyLinesAux, fileLinesAux]
    | cons c t => simp at hl
  | succ n ih =>
    intro b cur hl hx
    match b, hl, hx with
    | [], _, _ => simp [pyLinesAux, fileLinesAux]
    | [c], _, hx =>
      have hc : pyExoticSep c = false := hx c (by simp)
      simp [pyLinesAux, fileLinesAux, hc]
    | c :: d :: t, hl, hx =>
      have hc : pyExoticSep c = false := hx c (by simp)
      have ht : ∀ c' ∈ d :: t, pyExoticSep c' = false := fun c' h => hx c' (List.mem_cons_of_mem _ h)
      have ht' : ∀ c' ∈ t, pyExoticSep c' = false := fun c' h => ht c' (List.mem_cons_of_mem _ h)
      have hlt : (d :: t).length ≤ n := by simp at hl ⊢; omega
      have hlt' : t.length ≤ n := by simp at hl; omega
      rw [pyLinesAux, fileLinesAux]
      simp only [hc, Bool.or_false, decide_eq_true_eq, ih t [] hlt' ht', ih (d :: t) [] hlt ht,
        ih (d :: t) (c :: cur) hlt ht]

/-- **Python's line splitting of the file is the by-the-book one** on every file that holds none of the control
bytes VT, FF, FS, GS, RS (which `str.splitlines` also treats as line ends: dialect) -/
theorem pyLines_eq_fileLines (b : Bytes) (h : ∀ c ∈ b, pyExoticSep c = false) : pyLines b = fileLines b :=
  pyLinesAux_eq b.length b [] (Nat.le_refl _) h

end Reamber.BMS
