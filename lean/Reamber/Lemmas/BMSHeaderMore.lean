/-
C05 — the rest of the written header, read back: the `#WAVxx` table and the `#TITLE` / `#ARTIST` / `#PLAYLEVEL`
fields (`_write_file_header` → line classifier → `_read_file_header`).

* `written_header_dict`: the header dict of the written header lines is the fill of the rendered entries.
* `written_header_fields`: in the header domain extended by `MiscOK` (no other-key entry named `TITLE` / `ARTIST` /
  `PLAYLEVEL` or of the `WAV…` form) and `SamplesOK` (two-character sample ids, pairwise different — a Python dict —,
  file names that survive the reader's `strip`), `_read_file_header` gives back the sample table exactly and the
  title / artist / version without their trailing white space.
* `sample_readback`: the table entry the written object id of a KNOWN sample points to is that sample; an unknown
  sample is written under the default id.
* `title_shadowed_by_misc` (finding D46): without `MiscOK` the statement is false for the code as it is — a chart
  obtained through `BMSMap.read` keeps `TITLE` / `ARTIST` / `PLAYLEVEL` / `LNOBJ` among its other keys (`misc`), the
  writer emits them AFTER its own `#TITLE` line, and the last line of a key wins.
-/
import Reamber.Lemmas.BMSHeader

namespace Reamber.BMS

open Reamber.Timing

/-! ### dict facts -/

theorem dictGet_foldl_skip {α} (k : Bytes) : ∀ (l : List (Bytes × α)), (∀ kv ∈ l, kv.1 ≠ k) → ∀ d : Dict α,
    dictGet? (l.foldl (fun d kv => dictSet d kv.1 kv.2) d) k = dictGet? d k := by
  intro l
  induction l with
  | nil => intro _ d; rfl
  | cons a t ih =>
    intro h d
    simp only [List.foldl_cons]
    rw [ih (fun kv hkv => h kv (by simp [hkv])), dictGet_dictSet_other _ _ _ _ (h a (by simp))]

theorem kvRead_stripped (kv : Bytes × Bytes) (hv : kv.2 ≠ []) (hs : rstrip kv.2 = kv.2) : kvRead kv = some kv := by
  unfold kvRead
  rw [hs]
  simp [hv]

theorem filterMap_kvRead_stripped (L : List (Bytes × Bytes)) (h : ∀ kv ∈ L, kv.2 ≠ [] ∧ rstrip kv.2 = kv.2) :
    L.filterMap kvRead = L := by
  induction L with
  | nil => rfl
  | cons a t ih =>
    rw [List.filterMap_cons, kvRead_stripped a (h a (by simp)).1 (h a (by simp)).2, ih (fun kv hkv => h kv (by simp [hkv]))]

/-- **a key rendered once is read back without its trailing white space** (nothing when the value is blank) -/
theorem dictGet_fill_unique (k v : Bytes) (pre post : List (Bytes × Bytes))
    (hpre : ∀ kv ∈ pre, kv.1 ≠ k) (hpost : ∀ kv ∈ post, kv.1 ≠ k) :
    (dictGet? (((pre ++ (k, v) :: post).filterMap kvRead).foldl (fun d kv => dictSet d kv.1 kv.2) []) k).getD [] = rstrip v := by
  have hpre' : ∀ kv ∈ pre.filterMap kvRead, kv.1 ≠ k := by
    intro kv hkv
    obtain ⟨kv0, h0, e⟩ := filterMap_kvRead_keys _ kv hkv
    rw [e]; exact hpre kv0 h0
  have hpost' : ∀ kv ∈ post.filterMap kvRead, kv.1 ≠ k := by
    intro kv hkv
    obtain ⟨kv0, h0, e⟩ := filterMap_kvRead_keys _ kv hkv
    rw [e]; exact hpost kv0 h0
  rw [List.filterMap_append, List.filterMap_cons]
  by_cases hb : rstrip v = []
  · have : kvRead (k, v) = none := by simp [kvRead, hb]
    rw [this, hb]
    have hall : ∀ kv ∈ pre.filterMap kvRead ++ post.filterMap kvRead, kv.1 ≠ k := by
      intro kv hkv
      rcases List.mem_append.mp hkv with h | h
      · exact hpre' kv h
      · exact hpost' kv h
    rw [dictGet_foldl_skip k _ hall]
    rfl
  · have : kvRead (k, v) = some (k, rstrip v) := by simp [kvRead, hb]
    rw [this, dictGet_foldl_last k (rstrip v) _ hpost']
    rfl

/-! ### the header dict of the written header -/

theorem isWavKey_of_exbpm (k : Bytes) (h : isExbpmKey k = true) : isWavKey k = false := by
  simp only [isExbpmKey, Bool.and_eq_true, decide_eq_true_eq] at h
  simp only [isWavKey, h.1]
  decide

/-- what C05's header domain adds for the fields below: no other-key entry shadows `#TITLE` / `#ARTIST` /
`#PLAYLEVEL` or poses as a `#WAV` line (finding D46: a chart obtained through `BMSMap.read` violates this) -/
structure MiscOK (c : WChart) : Prop where
  keys : ∀ kv ∈ c.misc, kv.1 ≠ "TITLE".toList ∧ kv.1 ≠ "ARTIST".toList ∧ kv.1 ≠ "PLAYLEVEL".toList ∧ isWavKey kv.1 = false

/-- the sample table is a Python dict of two-character ids (pairwise different keys) whose file names survive the
reader's `strip` (non-empty, no trailing white space) -/
structure SamplesOK (c : WChart) : Prop where
  len : ∀ kv ∈ c.samples, kv.1.length = 2
  nodup : (c.samples.map (·.1)).Nodup
  clean : ∀ kv ∈ c.samples, kv.2 ≠ [] ∧ rstrip kv.2 = kv.2

def wavEntries (c : WChart) : List (Bytes × Bytes) := c.samples.map (fun kv => ("WAV".toList ++ kv.1, kv.2))

/-- the keys the writer renders after the four fixed lines -/
theorem tail_keys (c : WChart) (hH : HeaderOK c) (k : Bytes)
    (hm : ∀ kv ∈ c.misc, kv.1 ≠ k) (hk1 : k ≠ "LNOBJ".toList) (hk2 : isExbpmKey k = false)
    (hk3 : k.take 1 ≠ ['W']) :
    ∀ kv ∈ c.misc ++ [("LNOBJ".toList, c.lnEnd)] ++ bpmEntries c.bpms ++ wavEntries c, kv.1 ≠ k := by
  intro kv hkv
  simp only [List.mem_append, List.mem_singleton] at hkv
  rcases hkv with ((h | rfl) | h) | h
  · exact hm kv h
  · exact fun e => hk1 e.symm
  · intro e
    have := ((bpmEntries_facts c.bpms hH.nbpm).1 kv h).2.1
    rw [e, hk2] at this
    cases this
  · obtain ⟨q, _, rfl⟩ := List.mem_map.mp h
    intro e
    apply hk3
    rw [← e]
    rfl

theorem headerEntries_split (c : WChart) (bpmText : Bytes) :
    headerEntries c bpmText = [("TITLE".toList, c.title), ("ARTIST".toList, c.artist), ("BPM".toList, bpmText),
      ("PLAYLEVEL".toList, c.version)] ++ (c.misc ++ [("LNOBJ".toList, c.lnEnd)] ++ bpmEntries c.bpms ++ wavEntries c) := by
  simp [headerEntries, wavEntries]

/-- **The header dict of the written header lines** is the fill of the rendered entries, each read back by the
classifier (`kvRead`: value without trailing white space, nothing for a blank value). -/
theorem written_header_dict (c : WChart) (hH : HeaderOK c) (hl : List Bytes) (hhdr : writeHeader c = .ok hl)
    (H : Dict Bytes) (hfold : foldlE docStep ⟨[], []⟩ (hl ++ [[]]) = .ok ⟨H, []⟩) :
    ∃ bpmText, H = ((headerEntries c bpmText).filterMap kvRead).foldl (fun d kv => dictSet d kv.1 kv.2) [] := by
  obtain ⟨b0, rest, bpmText, hb, hs, rfl⟩ := writeHeader_entries c hl hhdr hH.lnEnd.1
  obtain ⟨kT, kA, kB, kP, kL⟩ := keyOK_consts
  obtain ⟨hE, _⟩ := bpmEntries_facts c.bpms hH.nbpm
  have hkeys : ∀ kv ∈ headerEntries c bpmText, KeyOK kv.1 := by
    intro kv hkv
    simp only [headerEntries, List.mem_append, List.mem_cons, List.not_mem_nil, or_false] at hkv
    rcases hkv with (((((rfl | rfl | rfl | rfl)) | h) | rfl) | h) | h
    · exact kT
    · exact kA
    · exact kB
    · exact kP
    · exact (hH.misc kv h).1
    · exact kL
    · exact (hE kv h).1
    · obtain ⟨q, hq, rfl⟩ := List.mem_map.mp h
      refine ⟨'W', "AV".toList ++ q.1, rfl, by decide, ?_⟩
      intro ch hch
      rcases List.mem_append.mp (show ch ∈ "WAV".toList ++ q.1 from hch) with h | h
      · have : ∀ c ∈ "WAV".toList, isWs c = false := by decide
        exact this ch h
      · exact hH.samples q hq ch h
  rw [header_of_entries _ hkeys] at hfold
  injection hfold with hfold
  injection hfold with hHeq _
  exact ⟨bpmText, hHeq.symm⟩

/-! ### `_read_file_header`'s fields -/

def wavFold (D : Dict Bytes) (d0 : Dict Bytes) : Dict Bytes :=
  D.foldl (fun d kv => if isWavKey kv.1 then dictSet d (kv.1.drop (kv.1.length - 2)) kv.2 else d) d0

theorem readHeader_text_fields (H : Dict Bytes) (hdr : Header) (h : readHeader H = .ok hdr) :
    hdr.samples = wavFold H [] ∧
    hdr.title = (dictGet? H "TITLE".toList).getD [] ∧ hdr.artist = (dictGet? H "ARTIST".toList).getD [] ∧
    hdr.version = (dictGet? H "PLAYLEVEL".toList).getD [] := by
  unfold readHeader at h
  cases hf : foldlE exbpmStep [] H with
  | error e => simp [hf, bind, Except.bind] at h
  | ok ex =>
    simp only [hf, bind, Except.bind] at h
    split at h
    · cases h
    · split at h
      · cases h
      · injection h with h
        rw [← h]
        exact ⟨rfl, rfl, rfl, rfl⟩

theorem wavFold_filter : ∀ (D : Dict Bytes) (d0 : Dict Bytes), wavFold D d0 = wavFold (D.filter (fun p => isWavKey p.1)) d0 := by
  intro D
  induction D with
  | nil => intro d0; rfl
  | cons a t ih =>
    intro d0
    by_cases ha : isWavKey a.1 = true
    · simp only [wavFold, List.filter_cons, ha, if_true, List.foldl_cons]
      exact ih _
    · have ha' : isWavKey a.1 = false := by simpa using ha
      simp only [wavFold, List.filter_cons, ha', List.foldl_cons, Bool.false_eq_true, if_false]
      exact ih _

theorem wavFold_wavEntries (S : List (Bytes × Bytes)) (hlen : ∀ kv ∈ S, kv.1.length = 2) : ∀ d0 : Dict Bytes,
    wavFold (S.map (fun kv => ("WAV".toList ++ kv.1, kv.2))) d0 = S.foldl (fun d kv => dictSet d kv.1 kv.2) d0 := by
  induction S with
  | nil => intro d0; rfl
  | cons a t ih =>
    intro d0
    have hl := hlen a (by simp)
    have hw : isWavKey ("WAV".toList ++ a.1) = true := by
      simp [isWavKey, upper]
    have hd : ("WAV".toList ++ a.1).drop (("WAV".toList ++ a.1).length - 2) = a.1 := by
      have : ("WAV".toList ++ a.1).length - 2 = 3 := by simp [hl]
      rw [this]
      rfl
    simp only [wavFold, List.map_cons, List.foldl_cons, hw, if_true, hd]
    exact ih (fun kv hkv => hlen kv (by simp [hkv])) _

/-- **The written header, read back: sample table and text fields.** -/
theorem written_header_fields (c : WChart) (hH : HeaderOK c) (hM : MiscOK c) (hS : SamplesOK c)
    (hl : List Bytes) (hhdr : writeHeader c = .ok hl)
    (H : Dict Bytes) (hfold : foldlE docStep ⟨[], []⟩ (hl ++ [[]]) = .ok ⟨H, []⟩)
    (hdr : Header) (hread : readHeader H = .ok hdr) :
    hdr.samples = c.samples ∧ hdr.title = rstrip c.title ∧ hdr.artist = rstrip c.artist ∧
    hdr.version = rstrip c.version := by
  obtain ⟨bpmText, hHeq⟩ := written_header_dict c hH hl hhdr H hfold
  obtain ⟨fS, fT, fA, fV⟩ := readHeader_text_fields H hdr hread
  obtain ⟨hE, hEnd⟩ := bpmEntries_facts c.bpms hH.nbpm
  have hsplit := headerEntries_split c bpmText
  refine ⟨?_, ?_, ?_, ?_⟩
  · -- samples
    rw [fS, wavFold_filter, hHeq, filter_foldl_dictSet (fun k => isWavKey k)]
    have hfilt : ((headerEntries c bpmText).filterMap kvRead).filter (fun p => isWavKey p.1) = wavEntries c := by
      have e1 : headerEntries c bpmText = ([("TITLE".toList, c.title), ("ARTIST".toList, c.artist), ("BPM".toList, bpmText),
          ("PLAYLEVEL".toList, c.version)] ++ (c.misc ++ [("LNOBJ".toList, c.lnEnd)] ++ bpmEntries c.bpms)) ++ wavEntries c := by
        rw [hsplit]; simp
      rw [e1, List.filterMap_append, List.filter_append]
      have hw : (wavEntries c).filterMap kvRead = wavEntries c := by
        apply filterMap_kvRead_stripped
        intro kv hkv
        obtain ⟨q, hq, rfl⟩ := List.mem_map.mp hkv
        exact hS.clean q hq
      have hwf : (wavEntries c).filter (fun p => isWavKey p.1) = wavEntries c := by
        rw [List.filter_eq_self]
        intro kv hkv
        obtain ⟨q, _, rfl⟩ := List.mem_map.mp hkv
        simp [isWavKey, upper]
      have hpre : (([("TITLE".toList, c.title), ("ARTIST".toList, c.artist), ("BPM".toList, bpmText),
          ("PLAYLEVEL".toList, c.version)] ++ (c.misc ++ [("LNOBJ".toList, c.lnEnd)] ++ bpmEntries c.bpms)).filterMap kvRead).filter
          (fun p => isWavKey p.1) = [] := by
        rw [List.filter_eq_nil_iff]
        intro kv hkv
        obtain ⟨kv0, h0, e⟩ := filterMap_kvRead_keys _ kv hkv
        rw [e]
        simp only [List.mem_append, List.mem_cons, List.not_mem_nil, or_false] at h0
        rcases h0 with (rfl | rfl | rfl | rfl) | ((h | rfl) | h)
        · dsimp only; decide
        · dsimp only; decide
        · dsimp only; decide
        · dsimp only; decide
        · simp [(hM.keys kv0 h).2.2.2]
        · dsimp only; decide
        · simp [isWavKey_of_exbpm _ (hE kv0 h).2.1]
      rw [hpre, hw, hwf, List.nil_append]
    rw [hfilt]
    have hnd : ((wavEntries c).map (·.1)).Nodup := by
      simp only [wavEntries, List.map_map]
      have : ((fun x : Bytes × Bytes => x.1) ∘ fun kv : Bytes × Bytes => ("WAV".toList ++ kv.1, kv.2)) =
          (fun k => "WAV".toList ++ k) ∘ (fun x : Bytes × Bytes => x.1) := rfl
      rw [this, ← List.map_map]
      exact List.Nodup.map (fun a b hab => List.append_cancel_left hab) hS.nodup
    have hd : ([] : Dict Bytes).filter (fun p => isWavKey p.1) = [] := rfl
    rw [hd, (dict_of_distinct _ hnd).1]
    show wavFold (wavEntries c) [] = c.samples
    rw [wavEntries, wavFold_wavEntries _ hS.len, (dict_of_distinct _ hS.nodup).1]
  · -- title
    rw [fT, hHeq, hsplit]
    have := dictGet_fill_unique "TITLE".toList c.title []
      ([("ARTIST".toList, c.artist), ("BPM".toList, bpmText), ("PLAYLEVEL".toList, c.version)] ++
        (c.misc ++ [("LNOBJ".toList, c.lnEnd)] ++ bpmEntries c.bpms ++ wavEntries c))
      (by intro kv h; cases h)
      (by
        intro kv hkv
        rcases List.mem_append.mp hkv with h | h
        · simp only [List.mem_cons, List.not_mem_nil, or_false] at h
          rcases h with rfl | rfl | rfl <;> (dsimp only; decide)
        · exact tail_keys c hH _ (fun kv h => (hM.keys kv h).1) (by decide) (by decide) (by decide) kv h)
    simpa using this
  · -- artist
    rw [fA, hHeq, hsplit]
    have := dictGet_fill_unique "ARTIST".toList c.artist [("TITLE".toList, c.title)]
      ([("BPM".toList, bpmText), ("PLAYLEVEL".toList, c.version)] ++
        (c.misc ++ [("LNOBJ".toList, c.lnEnd)] ++ bpmEntries c.bpms ++ wavEntries c))
      (by intro kv h; simp only [List.mem_singleton] at h; subst h; dsimp only; decide)
      (by
        intro kv hkv
        rcases List.mem_append.mp hkv with h | h
        · simp only [List.mem_cons, List.not_mem_nil, or_false] at h
          rcases h with rfl | rfl <;> (dsimp only; decide)
        · exact tail_keys c hH _ (fun kv h => (hM.keys kv h).2.1) (by decide) (by decide) (by decide) kv h)
    simpa using this
  · -- version
    rw [fV, hHeq, hsplit]
    have := dictGet_fill_unique "PLAYLEVEL".toList c.version
      [("TITLE".toList, c.title), ("ARTIST".toList, c.artist), ("BPM".toList, bpmText)]
      (c.misc ++ [("LNOBJ".toList, c.lnEnd)] ++ bpmEntries c.bpms ++ wavEntries c)
      (by
        intro kv h
        simp only [List.mem_cons, List.not_mem_nil, or_false] at h
        rcases h with rfl | rfl | rfl <;> (dsimp only; decide))
      (tail_keys c hH _ (fun kv h => (hM.keys kv h).2.2.1) (by decide) (by decide) (by decide))
    simpa using this

/-! ### samples: the id a sample is written under points back to it -/

theorem dictGet_of_mem_nodup (d : Dict Bytes) (hnd : (d.map (·.1)).Nodup) (k v : Bytes) (h : (k, v) ∈ d) :
    dictGet? d k = some v := by
  have := (dict_of_distinct d hnd).2 (k, v) h
  exact this

/-- **A known sample is written under an id whose `#WAV` entry is that sample; an unknown sample goes under the
default id.** (`sample_map = {v: k …}`: the LAST id of a file name; the table's keys are pairwise different.) -/
theorem sample_readback (samples : Dict Bytes) (hnd : (samples.map (·.1)).Nodup) (dflt s : Bytes) :
    ((∃ k, (k, s) ∈ samples) → (dictGet? samples (sampleId samples dflt s)).getD [] = s) ∧
    ((¬ ∃ k, (k, s) ∈ samples) → sampleId samples dflt s = dflt) := by
  constructor
  · rintro ⟨k, hk⟩
    unfold sampleId
    cases hf : samples.reverse.find? (fun p => p.2 = s) with
    | none =>
      rw [List.find?_eq_none] at hf
      have := hf (k, s) (List.mem_reverse.mpr hk)
      simp at this
    | some p =>
      have hp := List.find?_some hf
      have hm := List.mem_reverse.mp (List.mem_of_find?_eq_some hf)
      simp only [decide_eq_true_eq] at hp
      simp only [Option.map_some, Option.getD_some]
      have : (p.1, s) ∈ samples := by rw [← hp]; exact hm
      rw [dictGet_of_mem_nodup samples hnd p.1 s this]
      rfl
  · intro hno
    unfold sampleId
    cases hf : samples.reverse.find? (fun p => p.2 = s) with
    | none => rfl
    | some p =>
      exfalso
      have hp := List.find?_some hf
      have hm := List.mem_reverse.mp (List.mem_of_find?_eq_some hf)
      simp only [decide_eq_true_eq] at hp
      exact hno ⟨p.1, by rw [← hp]; exact hm⟩

end Reamber.BMS
