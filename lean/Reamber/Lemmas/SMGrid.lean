/-
C02 — tempo changes on the 1/48-beat grid are grid-compatible: a finite decimal that is a multiple of 1/48 is a
multiple of 1/16; distances between multiples of 1/16 (4 beats per measure) have a fractional part k/16, which is an
allowed fraction of `Snapper()` (denominator ≤ 96).
-/
import Reamber.Lemmas.SMDefs
import Reamber.Lemmas.Snapper
import Mathlib.Tactic.Ring
import Mathlib.Tactic.Linarith
import Mathlib.Tactic.FieldSimp
import Mathlib.Algebra.Order.Field.Rat

namespace Reamber.SM

open Reamber.Timing

/-- a finite decimal `a / 10^n` on the 1/48 grid is on the 1/16 grid -/
theorem decimal_48_is_16 (a n : Nat) (h : 10 ^ n ∣ 48 * a) : 10 ^ n ∣ 16 * a := by
  have hc : Nat.Coprime (10 ^ n) 3 := Nat.Coprime.pow_left n (by decide)
  have : 10 ^ n ∣ (16 * a) * 3 := by
    have e : 48 * a = (16 * a) * 3 := by ring
    rw [← e]; exact h
  exact hc.dvd_of_dvd_mul_right this

theorem frac_div16 (J : Int) : frac ((J : Rat) / 16) = ((J % 16 : Int) : Rat) / 16 := by
  have hJ := Int.emod_add_mul_ediv J 16
  have h0 := Int.emod_nonneg J (by norm_num : (16 : Int) ≠ 0)
  have h1 := Int.emod_lt_of_pos J (by norm_num : (0 : Int) < 16)
  have hJR : (J : Rat) = ((J % 16 : Int) : Rat) + 16 * ((J / 16 : Int) : Rat) := by
    have := congrArg (fun z : Int => (z : Rat)) hJ
    push_cast at this
    linarith
  have h0R : (0 : Rat) ≤ ((J % 16 : Int) : Rat) := by exact_mod_cast h0
  have h1R : ((J % 16 : Int) : Rat) < 16 := by exact_mod_cast h1
  have hfl : ((J : Rat) / 16).floor = J / 16 := by
    apply floor_eq_of
    · rw [le_div_iff₀ (by norm_num)]; linarith
    · rw [div_lt_iff₀ (by norm_num)]; linarith
  unfold frac
  rw [hfl]
  field_simp
  linarith

theorem sixteenth_mem_grid (j : Int) (h0 : 0 ≤ j) (h1 : j < 16) : ((j : Rat) / 16) ∈ grid 96 := by
  have hj : j = ((j.toNat : Nat) : Int) := (Int.toNat_of_nonneg h0).symm
  have hk : 6 * j.toNat ≤ 96 := by omega
  have := div_mem_grid (N := 96) (k := 6 * j.toNat) hk (by norm_num)
  have e : (((6 * j.toNat : Nat) : Rat)) / ((96 : Nat) : Rat) = (j : Rat) / 16 := by
    have : (j : Rat) = ((j.toNat : Nat) : Rat) := by exact_mod_cast hj
    rw [this]; push_cast; ring
  rw [e] at this
  exact this

/-- **1/16-beat tempo changes are grid-compatible** (4 beats per measure): C10's `gridCompatible` hypothesis holds for
every `#BPMS` list whose beats are multiples of 1/16 — hence for every finite-decimal list on the 1/48 grid. -/
theorem sixteenth_gridCompatible : ∀ (cs : List BcSnap), (∀ c ∈ cs, c.met = 4) →
    (∀ c ∈ cs, ∃ k : Int, c.snap.beat = (k : Rat) / 16) → gridCompatible (grid 96) cs = true := by
  intro cs
  induction cs with
  | nil => intro _ _; rfl
  | cons a t ih =>
    intro hm h16
    cases t with
    | nil => rfl
    | cons b r =>
      simp only [gridCompatible, Bool.and_eq_true]
      refine ⟨?_, ih (fun c hc => hm c (List.mem_cons_of_mem _ hc)) (fun c hc => h16 c (List.mem_cons_of_mem _ hc))⟩
      obtain ⟨ka, hka⟩ := h16 a (by simp)
      obtain ⟨kb, hkb⟩ := h16 b (by simp)
      have hd : snapDist a.snap b.snap a.met = ((64 * (b.snap.measure - a.snap.measure) + (kb - ka) : Int) : Rat) / 16 := by
        unfold snapDist
        rw [hm a (by simp), hka, hkb]
        push_cast
        ring
      rw [hd, frac_div16]
      rw [List.contains_iff_mem]
      exact sixteenth_mem_grid _ (Int.emod_nonneg _ (by norm_num)) (Int.emod_lt_of_pos _ (by norm_num))

end Reamber.SM
