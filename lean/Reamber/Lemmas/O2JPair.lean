/-
Helper lemmas for C07, pairing part: the per-column hold buffer of `read_events_note` (model: `foldBuf`) realises the
declarative pairing `Spec.pairFrom` ("a tail closes the most recent long-note event of its column, which must be a head").
-/
import Reamber.Spec.O2J

namespace Reamber.O2J

open Reamber.O2J.Spec

theorem Buf.get_erase (b : Buf) (c c' : Int) : (b.erase c).get c' = if c' = c then none else b.get c' := by
  induction b with
  | nil => simp [Buf.erase, Buf.get]
  | cons p rest ih =>
    simp only [Buf.erase, Buf.get] at ih ⊢
    simp only [List.filter_cons, List.find?_cons]
    by_cases h1 : p.1 = c <;> by_cases h2 : c' = c <;> by_cases h3 : p.1 = c' <;> simp_all

theorem Buf.get_set (b : Buf) (c c' : Int) (s : Slot) : (b.set c s).get c' = if c' = c then some s else b.get c' := by
  by_cases h : c' = c
  · subst h; simp [Buf.set, Buf.get]
  · have hne : ¬ c = c' := fun h' => h h'.symm
    have := Buf.get_erase b c c'
    simp only [h, if_false] at this ⊢
    rw [← this]
    simp [Buf.set, Buf.get, hne]

/-- the buffer holds exactly the heads the specification calls open after the prefix -/
def BufRep (buf : Buf) (revPre : List Slot) : Prop := ∀ c, buf.get c = openHead revPre c

theorem bufRep_nil : BufRep [] [] := by intro c; rfl

theorem openHead_cons_hit (s : Slot) (revPre : List Slot) (c : Int) (h : s.kind = .hit) :
    openHead (s :: revPre) c = openHead revPre c := by
  simp [openHead, lastLn, List.find?_cons, h]

theorem openHead_cons_ln (s : Slot) (revPre : List Slot) (c : Int) (h : s.kind ≠ .hit) :
    openHead (s :: revPre) c = if c = s.col then (if s.kind = .head then some s else none) else openHead revPre c := by
  by_cases hc : c = s.col
  · subst hc; simp [openHead, lastLn, List.find?_cons, h]
  · have : ¬ s.col = c := fun h' => hc h'.symm
    simp [openHead, lastLn, List.find?_cons, this, hc]

/-- **Head/tail pairing through the buffer is the declarative pairing**, from any buffer state that represents a
prefix of the event stream (so across package, measure and difficulty boundaries): same notes, same error, and the
buffer afterwards represents the extended prefix. -/
theorem foldBuf_pairFrom (slots : List Slot) : ∀ (buf : Buf) (revPre : List Slot), BufRep buf revPre →
    match foldBuf buf slots with
    | .ok (ns, b) => pairFrom revPre slots = .ok ns ∧ BufRep b (slots.reverse ++ revPre)
    | .error e => pairFrom revPre slots = .error e := by
  induction slots with
  | nil => intro buf revPre h; exact ⟨rfl, by simpa using h⟩
  | cons s rest ih =>
    intro buf revPre hrep
    unfold foldBuf pairFrom
    cases hk : s.kind with
    | hit =>
      have hrep' : BufRep buf (s :: revPre) := fun c => by rw [openHead_cons_hit s revPre c hk]; exact hrep c
      have := ih buf (s :: revPre) hrep'
      simp only []
      cases hf : foldBuf buf rest with
      | error e => rw [hf] at this; simp only [this, bind, Except.bind]
      | ok r =>
        obtain ⟨ns, b⟩ := r
        rw [hf] at this
        simp only [this.1, bind, Except.bind]
        refine ⟨by first | rfl | trivial, ?_⟩
        have := this.2
        simpa [List.reverse_cons, List.append_assoc] using this
    | head =>
      have hrep' : BufRep (buf.set s.col s) (s :: revPre) := fun c => by
        rw [openHead_cons_ln s revPre c (by rw [hk]; decide), Buf.get_set]
        by_cases hc : c = s.col
        · simp [hc, hk]
        · simp only [hc, if_false]; exact hrep c
      have := ih (buf.set s.col s) (s :: revPre) hrep'
      simp only []
      cases hf : foldBuf (buf.set s.col s) rest with
      | error e => rw [hf] at this; exact this
      | ok r =>
        obtain ⟨ns, b⟩ := r
        rw [hf] at this
        refine ⟨this.1, ?_⟩
        have := this.2
        simpa [List.reverse_cons, List.append_assoc] using this
    | tail =>
      simp only []
      rw [← hrep s.col]
      cases hg : buf.get s.col with
      | none => rfl
      | some h =>
        have hrep' : BufRep (buf.erase s.col) (s :: revPre) := fun c => by
          rw [openHead_cons_ln s revPre c (by rw [hk]; decide), Buf.get_erase]
          by_cases hc : c = s.col
          · simp [hc, hk]
          · simp only [hc, if_false]; exact hrep c
        have := ih (buf.erase s.col) (s :: revPre) hrep'
        simp only []
        cases hf : foldBuf (buf.erase s.col) rest with
        | error e => rw [hf] at this; simp only [this, bind, Except.bind]
        | ok r =>
          obtain ⟨ns, b⟩ := r
          rw [hf] at this
          simp only [this.1, bind, Except.bind]
          refine ⟨by first | rfl | trivial, ?_⟩
          have := this.2
          simpa [List.reverse_cons, List.append_assoc] using this

end Reamber.O2J
