/-
K1 — `Snapper.snap` is monotone on every ascending grid that contains 0 and 1, and so is the beat distance
`Snap.from_offset` uses (whole measures + snapped remainder).
-/
import Reamber.Lemmas.TimingRoundTripErr

namespace Reamber.Timing

/-- a point of the lattice the snapper can return: an integer plus a grid value -/
def OnLattice (g : Array Rat) (z : Rat) : Prop := frac z ∈ g.toList

theorem rabs_le_iff_mid {X Y x : Rat} (hXY : Y < X) : rabs (X - x) ≤ rabs (Y - x) ↔ (X + Y) / 2 ≤ x := by
  unfold rabs
  constructor
  · intro h
    split_ifs at h <;> linarith
  · intro h
    split_ifs <;> linarith

/-- **nearest over the whole lattice**: no lattice point is nearer to `x` than `snap x` -/
theorem snapOn_nearest_lattice {g : Array Rat} (hg : GridOK g) (x z : Rat) (hz : OnLattice g z) :
    rabs (snapOn g x - x) ≤ rabs (z - x) := by
  have hn := snapOn_nearest hg.asc x ⟨1, hg.one_mem, le_of_lt (frac_lt_one x)⟩
  have hx := frac_add_floor x
  have hzz := frac_add_floor z
  have hfx0 := frac_nonneg x
  have hfx1 := frac_lt_one x
  have hfz0 := frac_nonneg z
  have hfz1 := frac_lt_one z
  have e : snapOn g x - x = (snapOn g x - (ffloor x : Rat)) - frac x := by linarith
  rcases lt_trichotomy (ffloor z) (ffloor x) with hlt | heq | hgt
  · -- z lies at or below ⌊x⌋, which is itself a lattice point of x's cell
    have h1 : ((ffloor z : Int) : Rat) + 1 ≤ ((ffloor x : Int) : Rat) := by exact_mod_cast hlt
    have h0 := hn.2 0 hg.zero_mem
    rw [e]
    have hr : rabs (z - x) = x - z := by rw [rabs_of_nonpos (by linarith)]; ring
    have h0' : rabs (0 - frac x) = frac x := by rw [rabs_of_nonpos (by linarith)]; ring
    rw [hr]; rw [h0'] at h0
    linarith
  · have h2 := hn.2 _ hz
    rw [e]
    have : z - x = frac z - frac x := by
      have h3 : ((ffloor z : Int) : Rat) = ((ffloor x : Int) : Rat) := by rw [heq]
      linarith
    rw [this]; exact h2
  · have h1 : ((ffloor x : Int) : Rat) + 1 ≤ ((ffloor z : Int) : Rat) := by exact_mod_cast hgt
    have h0 := hn.2 1 hg.one_mem
    rw [e]
    have hr : rabs (z - x) = z - x := rabs_of_nonneg (by linarith)
    have h0' : rabs (1 - frac x) = 1 - frac x := rabs_of_nonneg (by linarith)
    rw [hr]; rw [h0'] at h0
    linarith

/-- **`Snapper.snap` is monotone.** -/
theorem snapOn_mono {g : Array Rat} (hg : GridOK g) {x y : Rat} (hxy : x ≤ y) : snapOn g x ≤ snapOn g y := by
  by_contra hc
  have hXY : snapOn g y < snapOn g x := not_le.mp hc
  have h1 := snapOn_nearest_lattice hg x (snapOn g y) (frac_snapOn_mem hg y)
  have h2 := snapOn_nearest_lattice hg y (snapOn g x) (frac_snapOn_mem hg x)
  have m1 := (rabs_le_iff_mid hXY).mp h1
  -- for y the roles are swapped: y is at most the midpoint
  have m2 : y ≤ (snapOn g x + snapOn g y) / 2 := by
    unfold rabs at h2
    split_ifs at h2 <;> linarith
  have hxe : x = y := le_antisymm hxy (by linarith)
  rw [hxe] at hXY
  exact lt_irrefl _ hXY

/-- whole measures + snapped remainder is monotone in the beat distance (integer metronome) -/
theorem snappedDist_mono {g : Array Rat} (hg : GridOK g) {M D1 D2 : Rat} (hM : 0 < M) (hMint : ∃ k : Int, M = (k : Rat))
    (h0 : 0 ≤ D1) (h12 : D1 ≤ D2) : snappedDist g M D1 ≤ snappedDist g M D2 := by
  obtain ⟨kM, hkM⟩ := hMint
  unfold snappedDist
  have hf12 : (D1 / M).floor ≤ (D2 / M).floor := Rat.floor_monotone (div_le_div_of_nonneg_right h12 hM.le)
  have hfl1 := Rat.floor_le (D1 / M)
  have hfl2 := Rat.floor_le (D2 / M)
  have hlt1 := Rat.lt_floor_add_one (D1 / M)
  have r1lo : (((D1 / M).floor : Int) : Rat) * M ≤ D1 := by
    have := mul_le_mul_of_nonneg_right hfl1 hM.le
    rwa [div_mul_cancel₀ D1 (ne_of_gt hM)] at this
  have r2lo : (((D2 / M).floor : Int) : Rat) * M ≤ D2 := by
    have := mul_le_mul_of_nonneg_right hfl2 hM.le
    rwa [div_mul_cancel₀ D2 (ne_of_gt hM)] at this
  have r1hi : D1 < ((((D1 / M).floor : Int) : Rat) + 1) * M := by
    have := mul_lt_mul_of_pos_right hlt1 hM
    rw [div_mul_cancel₀ D1 (ne_of_gt hM)] at this
    push_cast at this
    exact this
  rcases Int.lt_or_eq_of_le hf12 with hlt | heq
  · -- different measures: the first never passes the end of its measure
    have hMl : frac M ∈ g.toList := by
      have : frac M = 0 := by
        rw [hkM]; unfold frac; rw [Rat.floor_intCast]; simp
      rw [this]; exact hg.zero_mem
    have hs1 := snapOn_le_of_le_grid hg (x := D1 - (((D1 / M).floor : Int) : Rat) * M) (y := M) (by linarith) hMl
    have hs2 := snapOn_nonneg hg (x := D2 - (((D2 / M).floor : Int) : Rat) * M) (by linarith)
    have hk : (((D1 / M).floor : Int) : Rat) + 1 ≤ (((D2 / M).floor : Int) : Rat) := by exact_mod_cast hlt
    have := mul_le_mul_of_nonneg_right hk hM.le
    linarith
  · rw [heq]
    have := snapOn_mono hg (x := D1 - (((D2 / M).floor : Int) : Rat) * M) (y := D2 - (((D2 / M).floor : Int) : Rat) * M)
      (by linarith)
    linarith

end Reamber.Timing
