/-
K1 — `Snapper.snap` is monotone on every ascending grid that contains 0 and 1, and so is the beat distance
`Snap.from_offset` uses (whole measures + snapped remainder).
-/
import Reamber.Lemmas.TimingRoundTripErr
import Reamber.Lemmas.TimingBeats

namespace Reamber.Timing

/-- a point of the lattice the snapper can return: an integer plus a grid value -/
def OnLattice (g : Array Rat) (z : Rat) : Prop := frac z ∈ g.toList

theorem rabs_le_iff_mid {X Y x : Rat} (hXY : Y < X) : rabs (X - x) ≤ rabs (Y - x) ↔ (X + Y) / 2 ≤ x := by
  unfold rabs
  constructor
  · intro h
    split_ifs at h <;> linarith
  · intro h
    split_ifs <;> linarith

/-- **nearest over the whole lattice**: no lattice point is nearer to `x` than `snap x` -/
theorem snapOn_nearest_lattice {g : Array Rat} (hg : GridOK g) (x z : Rat) (hz : OnLattice g z) :
    rabs (snapOn g x - x) ≤ rabs (z - x) := by
  have hn := snapOn_nearest hg.asc x ⟨1, hg.one_mem, le_of_lt (frac_lt_one x)⟩
  have hx := frac_add_floor x
  have hzz := frac_add_floor z
  have hfx0 := frac_nonneg x
  have hfx1 := frac_lt_one x
  have hfz0 := frac_nonneg z
  have hfz1 := frac_lt_one z
  have e : snapOn g x - x = (snapOn g x - (ffloor x : Rat)) - frac x := by linarith
  rcases lt_trichotomy (ffloor z) (ffloor x) with hlt | heq | hgt
  · -- z lies at or below ⌊x⌋, which is itself a lattice point of x's cell
    have h1 : ((ffloor z : Int) : Rat) + 1 ≤ ((ffloor x : Int) : Rat) := by exact_mod_cast hlt
    have h0 := hn.2 0 hg.zero_mem
    rw [e]
    have hr : rabs (z - x) = x - z := by rw [rabs_of_nonpos (by linarith)]; ring
    have h0' : rabs (0 - frac x) = frac x := by rw [rabs_of_nonpos (by linarith)]; ring
    rw [hr]; rw [h0'] at h0
    linarith
  · have h2 := hn.2 _ hz
    rw [e]
    have : z - x = frac z - frac x := by
      have h3 : ((ffloor z : Int) : Rat) = ((ffloor x : Int) : Rat) := by rw [heq]
      linarith
    rw [this]; exact h2
  · have h1 : ((ffloor x : Int) : Rat) + 1 ≤ ((ffloor z : Int) : Rat) := by exact_mod_cast hgt
    have h0 := hn.2 1 hg.one_mem
    rw [e]
    have hr : rabs (z - x) = z - x := rabs_of_nonneg (by linarith)
    have h0' : rabs (1 - frac x) = 1 - frac x := rabs_of_nonneg (by linarith)
    rw [hr]; rw [h0'] at h0
    linarith

/-- **`Snapper.snap` is monotone.** -/
theorem snapOn_mono {g : Array Rat} (hg : GridOK g) {x y : Rat} (hxy : x ≤ y) : snapOn g x ≤ snapOn g y := by
  by_contra hc
  have hXY : snapOn g y < snapOn g x := not_le.mp hc
  have h1 := snapOn_nearest_lattice hg x (snapOn g y) (frac_snapOn_mem hg y)
  have h2 := snapOn_nearest_lattice hg y (snapOn g x) (frac_snapOn_mem hg x)
  have m1 := (rabs_le_iff_mid hXY).mp h1
  -- for y the roles are swapped: y is at most the midpoint
  have m2 : y ≤ (snapOn g x + snapOn g y) / 2 := by
    unfold rabs at h2
    split_ifs at h2 <;> linarith
  have hxe : x = y := le_antisymm hxy (by linarith)
  rw [hxe] at hXY
  exact lt_irrefl _ hXY

/-- whole measures + snapped remainder is monotone in the beat distance (integer metronome) -/
theorem snappedDist_mono {g : Array Rat} (hg : GridOK g) {M D1 D2 : Rat} (hM : 0 < M) (hMint : ∃ k : Int, M = (k : Rat))
    (h0 : 0 ≤ D1) (h12 : D1 ≤ D2) : snappedDist g M D1 ≤ snappedDist g M D2 := by
  obtain ⟨kM, hkM⟩ := hMint
  unfold snappedDist
  have hf12 : (D1 / M).floor ≤ (D2 / M).floor := Rat.floor_monotone (div_le_div_of_nonneg_right h12 hM.le)
  have hfl1 := Rat.floor_le (D1 / M)
  have hfl2 := Rat.floor_le (D2 / M)
  have hlt1 := Rat.lt_floor_add_one (D1 / M)
  have r1lo : (((D1 / M).floor : Int) : Rat) * M ≤ D1 := by
    have := mul_le_mul_of_nonneg_right hfl1 hM.le
    rwa [div_mul_cancel₀ D1 (ne_of_gt hM)] at this
  have r2lo : (((D2 / M).floor : Int) : Rat) * M ≤ D2 := by
    have := mul_le_mul_of_nonneg_right hfl2 hM.le
    rwa [div_mul_cancel₀ D2 (ne_of_gt hM)] at this
  have r1hi : D1 < ((((D1 / M).floor : Int) : Rat) + 1) * M := by
    have := mul_lt_mul_of_pos_right hlt1 hM
    rw [div_mul_cancel₀ D1 (ne_of_gt hM)] at this
    push_cast at this
    exact this
  rcases Int.lt_or_eq_of_le hf12 with hlt | heq
  · -- different measures: the first never passes the end of its measure
    have hMl : frac M ∈ g.toList := by
      have : frac M = 0 := by
        rw [hkM]; unfold frac; rw [Rat.floor_intCast]; simp
      rw [this]; exact hg.zero_mem
    have hs1 := snapOn_le_of_le_grid hg (x := D1 - (((D1 / M).floor : Int) : Rat) * M) (y := M) (by linarith) hMl
    have hs2 := snapOn_nonneg hg (x := D2 - (((D2 / M).floor : Int) : Rat) * M) (by linarith)
    have hk : (((D1 / M).floor : Int) : Rat) + 1 ≤ (((D2 / M).floor : Int) : Rat) := by exact_mod_cast hlt
    have := mul_le_mul_of_nonneg_right hk hM.le
    linarith
  · rw [heq]
    have := snapOn_mono hg (x := D1 - (((D2 / M).floor : Int) : Rat) * M) (y := D2 - (((D2 / M).floor : Int) : Rat) * M)
      (by linarith)
    linarith

/-! ### `TimingMap.snaps` is monotone in the time (constant metronome) -/

theorem snappedDist_nonneg {g : Array Rat} (hg : GridOK g) {M D : Rat} (hM : 0 < M) (hD : 0 ≤ D) : 0 ≤ snappedDist g M D := by
  unfold snappedDist
  have hk0 : 0 ≤ (D / M).floor := Rat.le_floor_iff.mpr (by simpa using div_nonneg hD hM.le)
  have hk0' : (0 : Rat) ≤ (((D / M).floor : Int) : Rat) := by exact_mod_cast hk0
  have hfl := Rat.floor_le (D / M)
  have h1 : (((D / M).floor : Int) : Rat) * M ≤ D := by
    have := mul_le_mul_of_nonneg_right hfl hM.le
    rwa [div_mul_cancel₀ D (ne_of_gt hM)] at this
  have hs := snapOn_nonneg hg (x := D - (((D / M).floor : Int) : Rat) * M) (by linarith)
  have := mul_nonneg hk0' hM.le
  linarith

/-- the position inside the segment of `cur` (which sits at `T`): total beat count, normalised -/
theorem snapFromOffset_at {g : Array Rat} (hg : GridOK g) (T t : Rat) (cur : BcSnap) (wc : WfChange cur) (hT : T ≤ t) :
    ∃ S, snapFromOffset g t ⟨cur.bpm, cur.met, T⟩ cur = .ok S ∧ 0 ≤ S.beat ∧ S.beat < cur.met ∧
      snapTotal cur.met S = snapTotal cur.met cur.snap + snappedDist g cur.met ((t - T) / beatLen cur.bpm) := by
  have hbl := beatLen_pos wc.bpm_pos
  have hD : 0 ≤ (t - T) / beatLen cur.bpm := div_nonneg (by linarith) hbl.le
  obtain ⟨S, hS, _, _, hb0, hbM, htot⟩ := snapFromOffset_total hg T ((t - T) / beatLen cur.bpm) cur wc hD
  have e : T + (t - T) / beatLen cur.bpm * beatLen cur.bpm = t := by
    rw [div_mul_cancel₀ _ (ne_of_gt hbl)]; ring
  rw [e] at hS
  exact ⟨S, hS, hb0, hbM, by unfold snapTotal; exact htot⟩

theorem snapTotal_step {M : Rat} (a b : Snap) : snapTotal M b = snapTotal M a + snapDist a b M := by
  unfold snapTotal snapDist
  push_cast
  ring

/-- every position `snaps` assigns at or after `T` lies at or after the change in force at `T` -/
theorem snapAtAux_total_ge {g : Array Rat} (hg : GridOK g) (M : Rat) (rest : List BcSnap) :
    ∀ (T : Rat) (cur : BcSnap) (t : Rat), wfChanges (cur :: rest) = true → sortedSnaps (cur :: rest) = true →
      (∀ c ∈ cur :: rest, c.met = M) → T ≤ t →
      ∃ S, snapAtAux g T cur rest t = .ok S ∧ 0 ≤ S.beat ∧ S.beat < M ∧ snapTotal M cur.snap ≤ snapTotal M S := by
  induction rest with
  | nil =>
    intro T cur t hwf _ hmet hT
    have wc := wfChanges_mem hwf (List.mem_cons_self)
    have hM := hmet cur (by simp)
    obtain ⟨S, hS, hb0, hbM, htot⟩ := snapFromOffset_at hg T t cur wc hT
    rw [hM] at hbM htot
    have := snappedDist_nonneg hg (M := M) (D := (t - T) / beatLen cur.bpm) (by rw [← hM]; exact wc.met_pos)
      (div_nonneg (by linarith) (beatLen_pos wc.bpm_pos).le)
    exact ⟨S, by simpa [snapAtAux] using hS, hb0, hbM, by linarith⟩
  | cons n r ih =>
    intro T cur t hwf hs hmet hT
    have wc := wfChanges_mem hwf (List.mem_cons_self)
    have wn := wfChanges_mem hwf (List.mem_cons_of_mem _ List.mem_cons_self)
    have hM := hmet cur (by simp)
    have hle : cur.snap.le n.snap = true := sortedSnaps_head_le hs n List.mem_cons_self
    have hD := snapDist_nonneg wc wn hle
    by_cases hadv : T + snapDist cur.snap n.snap cur.met * beatLen cur.bpm ≤ t
    · obtain ⟨S, hS, hb0, hbM, hge⟩ := ih _ n t (wfChanges_tail hwf) (sortedSnaps_tail hs)
        (fun c hc => hmet c (by simp [hc])) hadv
      refine ⟨S, by simpa [snapAtAux, hadv] using hS, hb0, hbM, ?_⟩
      have := snapTotal_step (M := M) cur.snap n.snap
      rw [hM] at hD
      linarith
    · obtain ⟨S, hS, hb0, hbM, htot⟩ := snapFromOffset_at hg T t cur wc hT
      rw [hM] at hbM htot
      have := snappedDist_nonneg hg (M := M) (D := (t - T) / beatLen cur.bpm) (by rw [← hM]; exact wc.met_pos)
        (div_nonneg (by linarith) (beatLen_pos wc.bpm_pos).le)
      exact ⟨S, by simpa [snapAtAux, hadv] using hS, hb0, hbM, by linarith⟩

/-- **`TimingMap.snaps` is monotone in the time** (constant integer metronome, grid-compatible tempo list): a later
time is never sent to an earlier position. -/
theorem snapAtAux_mono {g : Array Rat} (hg : GridOK g) (M : Rat) (rest : List BcSnap) :
    ∀ (T : Rat) (cur : BcSnap) (t1 t2 : Rat), wfChanges (cur :: rest) = true → sortedSnaps (cur :: rest) = true →
      gridCompatible g.toList (cur :: rest) = true → (∀ c ∈ cur :: rest, c.met = M) → T ≤ t1 → t1 ≤ t2 →
      ∃ S1 S2, snapAtAux g T cur rest t1 = .ok S1 ∧ snapAtAux g T cur rest t2 = .ok S2 ∧ S1.le S2 = true := by
  induction rest with
  | nil =>
    intro T cur t1 t2 hwf _ _ hmet hT h12
    have wc := wfChanges_mem hwf (List.mem_cons_self)
    have hM := hmet cur (by simp)
    have hbl := beatLen_pos wc.bpm_pos
    obtain ⟨S1, hS1, a0, aM, atot⟩ := snapFromOffset_at hg T t1 cur wc hT
    obtain ⟨S2, hS2, b0, bM, btot⟩ := snapFromOffset_at hg T t2 cur wc (by linarith)
    have hmono := snappedDist_mono hg (M := cur.met) (D1 := (t1 - T) / beatLen cur.bpm) (D2 := (t2 - T) / beatLen cur.bpm)
      wc.met_pos wc.met_int (div_nonneg (by linarith) hbl.le) (div_le_div_of_nonneg_right (by linarith) hbl.le)
    refine ⟨S1, S2, by simpa [snapAtAux] using hS1, by simpa [snapAtAux] using hS2, ?_⟩
    apply Snap.le_of_total_le wc.met_pos a0 aM b0 bM
    unfold snapTotal at atot btot
    linarith
  | cons n r ih =>
    intro T cur t1 t2 hwf hs hgc hmet hT h12
    have wc := wfChanges_mem hwf (List.mem_cons_self)
    have wn := wfChanges_mem hwf (List.mem_cons_of_mem _ List.mem_cons_self)
    have hM := hmet cur (by simp)
    have hMn := hmet n (by simp)
    have hbl := beatLen_pos wc.bpm_pos
    have hle : cur.snap.le n.snap = true := sortedSnaps_head_le hs n List.mem_cons_self
    have hD := snapDist_nonneg wc wn hle
    obtain ⟨hgrid, hgc'⟩ := gridCompatible_cons hgc
    by_cases hadv1 : T + snapDist cur.snap n.snap cur.met * beatLen cur.bpm ≤ t1
    · have hadv2 : T + snapDist cur.snap n.snap cur.met * beatLen cur.bpm ≤ t2 := by linarith
      obtain ⟨S1, S2, h1, h2, h3⟩ := ih _ n t1 t2 (wfChanges_tail hwf) (sortedSnaps_tail hs) hgc'
        (fun c hc => hmet c (by simp [hc])) hadv1 h12
      exact ⟨S1, S2, by simpa [snapAtAux, hadv1] using h1, by simpa [snapAtAux, hadv2] using h2, h3⟩
    · obtain ⟨S1, hS1, a0, aM, atot⟩ := snapFromOffset_at hg T t1 cur wc hT
      by_cases hadv2 : T + snapDist cur.snap n.snap cur.met * beatLen cur.bpm ≤ t2
      · -- t1 before the next change, t2 at or after it
        obtain ⟨S2, hS2, b0, bM, bge⟩ := snapAtAux_total_ge hg M r _ n t2 (wfChanges_tail hwf) (sortedSnaps_tail hs)
          (fun c hc => hmet c (by simp [hc])) hadv2
        refine ⟨S1, S2, by simpa [snapAtAux, hadv1] using hS1, by simpa [snapAtAux, hadv2] using hS2, ?_⟩
        have hlt1 : (t1 - T) / beatLen cur.bpm ≤ snapDist cur.snap n.snap cur.met := by
          rw [div_le_iff₀ hbl]; linarith [not_le.mp hadv1]
        have hcap := snappedDist_le_of_le_grid hg (M := cur.met) wc.met_int hlt1 hgrid
        have hstep := snapTotal_step (M := M) cur.snap n.snap
        rw [hM] at aM atot hcap
        apply Snap.le_of_total_le (M := M) (by rw [← hM]; exact wc.met_pos) a0 aM b0 bM
        unfold snapTotal at atot hstep bge
        linarith
      · obtain ⟨S2, hS2, b0, bM, btot⟩ := snapFromOffset_at hg T t2 cur wc (by linarith)
        have hmono := snappedDist_mono hg (M := cur.met) (D1 := (t1 - T) / beatLen cur.bpm) (D2 := (t2 - T) / beatLen cur.bpm)
          wc.met_pos wc.met_int (div_nonneg (by linarith) hbl.le) (div_le_div_of_nonneg_right (by linarith) hbl.le)
        refine ⟨S1, S2, by simpa [snapAtAux, hadv1] using hS1, by simpa [snapAtAux, hadv2] using hS2, ?_⟩
        apply Snap.le_of_total_le wc.met_pos a0 aM b0 bM
        unfold snapTotal at atot btot
        linarith

end Reamber.Timing
