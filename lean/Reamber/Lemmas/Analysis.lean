/-
Helper lemmas for C19: insertion sort (permutation, sortedness, identity on sorted input), the "next tempo
time" characterisation and its invariance under permutation, the positional pairing of a sorted tempo list
with the differences of its times, group sums, first-maximum.
-/
import Reamber.Spec.Analysis
import Mathlib.Tactic.Linarith
import Mathlib.Tactic.Ring
import Mathlib.Algebra.Order.Field.Rat

namespace Reamber.Analysis

open Reamber.Timing (isort insertBy)

/-! ### insertion sort -/

theorem insertBy_perm {α} (le : α → α → Bool) (x : α) (l : List α) : (insertBy le x l).Perm (x :: l) := by
  induction l with
  | nil => exact List.Perm.refl _
  | cons y ys ih =>
    unfold insertBy
    split
    · exact List.Perm.refl _
    · exact (List.Perm.cons y ih).trans (List.Perm.swap x y ys)

theorem isort_cons {α} (le : α → α → Bool) (a : α) (t : List α) :
    isort le (a :: t) = insertBy le a (isort le t) := rfl

theorem isort_perm {α} (le : α → α → Bool) (l : List α) : (isort le l).Perm l := by
  induction l with
  | nil => exact List.Perm.refl _
  | cons a t ih =>
    rw [isort_cons]
    exact (insertBy_perm le a _).trans (List.Perm.cons a ih)

theorem insertBy_pairwise {α} (le : α → α → Bool) (htot : ∀ a b, le a b = true ∨ le b a = true)
    (htrans : ∀ a b c, le a b = true → le b c = true → le a c = true) (x : α) (l : List α)
    (h : l.Pairwise (fun a b => le a b = true)) : (insertBy le x l).Pairwise (fun a b => le a b = true) := by
  induction l with
  | nil => simp [insertBy]
  | cons y ys ih =>
    have hy := List.pairwise_cons.mp h
    unfold insertBy
    split
    · rename_i hxy
      refine List.pairwise_cons.mpr ⟨?_, h⟩
      intro z hz
      rcases List.mem_cons.mp hz with rfl | hz
      · exact hxy
      · exact htrans _ _ _ hxy (hy.1 z hz)
    · rename_i hxy
      have hyx : le y x = true := by
        rcases htot x y with h1 | h1
        · exact absurd h1 hxy
        · exact h1
      refine List.pairwise_cons.mpr ⟨?_, ih hy.2⟩
      intro z hz
      have := (insertBy_perm le x ys).mem_iff.mp hz
      rcases List.mem_cons.mp this with rfl | hz'
      · exact hyx
      · exact hy.1 z hz'

theorem isort_pairwise {α} (le : α → α → Bool) (htot : ∀ a b, le a b = true ∨ le b a = true)
    (htrans : ∀ a b c, le a b = true → le b c = true → le a c = true) (l : List α) :
    (isort le l).Pairwise (fun a b => le a b = true) := by
  induction l with
  | nil => exact List.Pairwise.nil
  | cons a t ih =>
    rw [isort_cons]
    exact insertBy_pairwise le htot htrans a _ ih

theorem insertBy_eq_cons {α} (le : α → α → Bool) (x : α) (l : List α) (h : ∀ y ∈ l, le x y = true) :
    insertBy le x l = x :: l := by
  cases l with
  | nil => rfl
  | cons y ys => simp [insertBy, h y (by simp)]

/-- a sorted list is left as it is -/
theorem isort_eq_self {α} (le : α → α → Bool) (l : List α) (h : l.Pairwise (fun a b => le a b = true)) :
    isort le l = l := by
  induction l with
  | nil => rfl
  | cons a t ih =>
    have h' := List.pairwise_cons.mp h
    rw [isort_cons, ih h'.2]
    exact insertBy_eq_cons le a t h'.1

theorem sortTp_perm (l : List Tp) : (sortTp l).Perm l := isort_perm _ l
theorem sortRat_perm (l : List Rat) : (sortRat l).Perm l := isort_perm _ l

theorem sortTp_sorted (l : List Tp) : (sortTp l).Pairwise (fun a b => a.time ≤ b.time) := by
  have := isort_pairwise (fun a b : Tp => decide (a.time ≤ b.time))
    (by intro a b; simp only [decide_eq_true_eq]; exact le_total _ _)
    (by intro a b c; simp only [decide_eq_true_eq]; exact le_trans) l
  simpa [sortTp] using this

/-! ### dedup / group keys -/

theorem mem_dedup {x : Rat} {l : List Rat} : x ∈ dedup l ↔ x ∈ l := by
  induction l with
  | nil => simp [dedup]
  | cons a t ih =>
    unfold dedup
    split
    · rename_i hat
      rw [ih]
      constructor
      · intro h; exact List.mem_cons_of_mem _ h
      · intro h
        rcases List.mem_cons.mp h with rfl | h
        · exact hat
        · exact h
    · simp [ih]

theorem mem_groupKeys {x : Rat} {l : List Rat} : x ∈ groupKeys l ↔ x ∈ l := by
  unfold groupKeys
  rw [(sortRat_perm _).mem_iff, mem_dedup]

/-! ### sums -/

theorem sumRat_perm {l l' : List Rat} (h : l.Perm l') : sumRat l = sumRat l' := by
  induction h with
  | nil => rfl
  | cons x _ ih => simp [sumRat, ih]
  | swap x y l => simp only [sumRat]; ring
  | trans _ _ ih1 ih2 => exact ih1.trans ih2

/-! ### next tempo time -/

theorem nextTime_spec (ts : List Rat) (t : Rat) :
    match nextTime ts t with
    | none => ∀ x ∈ ts, ¬ t < x
    | some y => y ∈ ts ∧ t < y ∧ ∀ x ∈ ts, t < x → y ≤ x := by
  induction ts with
  | nil => simp [nextTime]
  | cons x xs ih =>
    unfold nextTime
    cases h : nextTime xs t with
    | none =>
      rw [h] at ih
      dsimp only
      by_cases htx : t < x
      · rw [if_pos htx]
        refine ⟨by simp, htx, ?_⟩
        intro z hz htz
        rcases List.mem_cons.mp hz with rfl | hz
        · exact le_refl _
        · exact absurd htz (ih z hz)
      · rw [if_neg htx]
        intro z hz
        rcases List.mem_cons.mp hz with rfl | hz
        · exact htx
        · exact ih z hz
    | some y =>
      rw [h] at ih
      obtain ⟨hy, hty, hmin⟩ := ih
      dsimp only
      by_cases hc : t < x ∧ x < y
      · rw [if_pos hc]
        refine ⟨by simp, hc.1, ?_⟩
        intro z hz htz
        rcases List.mem_cons.mp hz with rfl | hz
        · exact le_refl _
        · exact le_of_lt (lt_of_lt_of_le hc.2 (hmin z hz htz))
      · rw [if_neg hc]
        refine ⟨List.mem_cons_of_mem _ hy, hty, ?_⟩
        intro z hz htz
        rcases List.mem_cons.mp hz with rfl | hz
        · by_contra hlt
          exact hc ⟨htz, lt_of_not_ge hlt⟩
        · exact hmin z hz htz

theorem nextTime_eq_some {ts : List Rat} {t y : Rat} (hy : y ∈ ts) (hty : t < y)
    (hmin : ∀ x ∈ ts, t < x → y ≤ x) : nextTime ts t = some y := by
  have := nextTime_spec ts t
  cases h : nextTime ts t with
  | none => rw [h] at this; exact absurd hty (this y hy)
  | some y' =>
    rw [h] at this
    obtain ⟨hy', hty', hmin'⟩ := this
    exact congrArg some (le_antisymm (hmin' y hy hty) (hmin y' hy' hty'))

theorem nextTime_eq_none {ts : List Rat} {t : Rat} (h : ∀ x ∈ ts, ¬ t < x) : nextTime ts t = none := by
  have := nextTime_spec ts t
  cases h' : nextTime ts t with
  | none => rfl
  | some y => rw [h'] at this; exact absurd this.2.1 (h y this.1)

/-- the next tempo time depends on the set of times only -/
theorem nextTime_perm {ts ts' : List Rat} (h : ts.Perm ts') (t : Rat) : nextTime ts t = nextTime ts' t := by
  have := nextTime_spec ts t
  cases h' : nextTime ts t with
  | none =>
    rw [h'] at this
    exact (nextTime_eq_none (fun x hx => this x (h.mem_iff.mpr hx))).symm
  | some y =>
    rw [h'] at this
    obtain ⟨hy, hty, hmin⟩ := this
    exact (nextTime_eq_some (h.mem_iff.mp hy) hty (fun x hx => hmin x (h.mem_iff.mpr hx))).symm

theorem span_perm {ts ts' : List Rat} (h : ts.Perm ts') (L t : Rat) : span ts L t = span ts' L t := by
  unfold span
  rw [nextTime_perm h t]

/-! ### the positional pairing is the per-point span, on a sorted tempo list -/

theorem rows_sorted (sb : List Tp) (L : Rat) : ∀ (pre : List Rat),
    (sb.map (·.time)).Pairwise (· < ·) → (∀ x ∈ pre, ∀ p ∈ sb, x < p.time) → (∀ p ∈ sb, p.time ≤ L) →
    (sb.map (·.bpm)).zip (diffs (sb.map (·.time) ++ [L]))
      = sb.map (fun p => (p.bpm, span (pre ++ sb.map (·.time)) L p.time)) := by
  induction sb with
  | nil => intro pre _ _ _; simp [diffs]
  | cons a rest ih =>
    intro pre hs hpre hL
    have hs' := List.pairwise_cons.mp hs
    cases rest with
    | nil =>
      have hn : nextTime (pre ++ [a.time]) a.time = none := by
        apply nextTime_eq_none
        intro x hx
        rcases List.mem_append.mp hx with hx | hx
        · exact not_lt.mpr (le_of_lt (hpre x hx a (by simp)))
        · simp at hx; subst hx; exact lt_irrefl _
      have haL : a.time ≤ L := hL a (by simp)
      simp only [List.map_cons, List.map_nil, List.cons_append, List.nil_append, diffs, List.zip_cons_cons,
        List.zip_nil_right, span, hn]
      by_cases h : L ≤ a.time
      · have : L = a.time := le_antisymm h haL
        simp [this]
      · simp [h]
    | cons b r =>
      have hab : a.time < b.time := hs'.1 b.time (by simp)
      have hbL : b.time ≤ L := hL b (by simp)
      have hn : nextTime (pre ++ (a :: b :: r).map (·.time)) a.time = some b.time := by
        apply nextTime_eq_some
        · simp
        · exact hab
        · intro x hx hax
          rcases List.mem_append.mp hx with hx | hx
          · exact absurd hax (not_lt.mpr (le_of_lt (hpre x hx a (by simp))))
          · simp only [List.map_cons, List.mem_cons] at hx
            rcases hx with rfl | rfl | hx
            · exact absurd hax (lt_irrefl _)
            · exact le_refl _
            · have hs'' := List.pairwise_cons.mp hs'.2
              exact le_of_lt (hs''.1 x hx)
      have ih' := ih (pre ++ [a.time]) hs'.2
        (by
          intro x hx p hp
          rcases List.mem_append.mp hx with hx | hx
          · exact hpre x hx p (List.mem_cons_of_mem _ hp)
          · simp at hx; subst hx
            exact hs'.1 p.time (List.mem_map_of_mem hp))
        (fun p hp => hL p (List.mem_cons_of_mem _ hp))
      have e1 : pre ++ [a.time] ++ (b :: r).map (·.time) = pre ++ (a :: b :: r).map (·.time) := by simp
      rw [e1] at ih'
      have hhead : span (pre ++ (a :: b :: r).map (·.time)) L a.time = b.time - a.time := by
        unfold span
        rw [hn]
        simp only [hbL, if_true]
        rw [if_neg (not_le.mpr hab)]
      have e2 : (a :: b :: r).map (·.time) ++ [L] = a.time :: (b.time :: (r.map (·.time) ++ [L])) := by simp
      have e3 : (b :: r).map (·.time) ++ [L] = b.time :: (r.map (·.time) ++ [L]) := by simp
      rw [e2, diffs, ← e3]
      rw [List.map_cons (f := fun p : Tp => p.bpm), List.zip_cons_cons, ih']
      simp only [List.map_cons] at hhead ⊢
      rw [hhead]

/-! ### group sums of (bpm, span) rows -/

theorem filter_rows (g : Tp → Rat) (k : Rat) (l : List Tp) :
    ((l.map (fun p => (p.bpm, g p))).filter (fun r => r.1 = k)).map (·.2)
      = (l.filter (fun p => p.bpm = k)).map g := by
  induction l with
  | nil => rfl
  | cons a t ih =>
    by_cases h : a.bpm = k
    · simp [h, ih]
    · simp [h, ih]

/-! ### first maximum -/

theorem argmaxAux_spec (l : List (Rat × Rat)) : ∀ best : Rat × Rat,
    argmaxAux best l ∈ best :: l ∧ ∀ q ∈ best :: l, q.2 ≤ (argmaxAux best l).2 := by
  induction l with
  | nil => intro best; simp [argmaxAux]
  | cons p t ih =>
    intro best
    unfold argmaxAux
    obtain ⟨hm, hmax⟩ := ih (if best.2 < p.2 then p else best)
    constructor
    · rcases List.mem_cons.mp hm with h | h
      · rw [h]; split <;> simp
      · exact List.mem_cons_of_mem _ (List.mem_cons_of_mem _ h)
    · intro q hq
      have hb := hmax (if best.2 < p.2 then p else best) (by simp)
      rcases List.mem_cons.mp hq with rfl | hq
      · refine le_trans ?_ hb
        split
        · rename_i h; exact le_of_lt h
        · exact le_refl _
      · rcases List.mem_cons.mp hq with rfl | hq
        · refine le_trans ?_ hb
          split
          · exact le_refl _
          · rename_i h; exact not_lt.mp h
        · exact hmax q (List.mem_cons_of_mem _ hq)

theorem idxmax_spec {l : List (Rat × Rat)} (hne : l ≠ []) :
    ∃ p ∈ l, idxmax l = some p.1 ∧ ∀ q ∈ l, q.2 ≤ p.2 := by
  cases l with
  | nil => exact absurd rfl hne
  | cons p t =>
    obtain ⟨hm, hmax⟩ := argmaxAux_spec t p
    exact ⟨argmaxAux p t, hm, rfl, hmax⟩

/-! ### forward fill = the last valid value at or before each row -/

/-- a value wins over the carried one -/
def pick (v cur : Option Rat) : Option Rat := match v with | some x => some x | none => cur

theorem ffillAux_cons (cur : Option Rat) (t : Rat) (v : Option Rat) (rest : List Row) :
    ffillAux cur ((t, v) :: rest) = (t, pick v cur) :: ffillAux (pick v cur) rest := by
  cases v <;> rfl

theorem lastSome_snoc (vs : List (Option Rat)) (v : Option Rat) :
    lastSome (vs ++ [v]) = pick v (lastSome vs) := by
  induction vs with
  | nil => cases v <;> simp [lastSome, pick]
  | cons a t ih =>
    simp only [List.cons_append, lastSome, ih]
    cases v with
    | some x => rfl
    | none => rfl

/-- every row of `ffillAux` started with the last valid value of the rows `pre` already seen is a row of the
input carrying the last valid value among `pre` and the input rows up to and including itself -/
theorem mem_ffillAux (l : List Row) : ∀ (pre : List Row) (x : Row),
    x ∈ ffillAux (lastSome (pre.map (·.2))) l →
    ∃ a r b, l = a ++ r :: b ∧ x = (r.1, lastSome ((pre ++ a ++ [r]).map (·.2))) := by
  induction l with
  | nil => intro pre x hx; simp [ffillAux] at hx
  | cons h rest ih =>
    intro pre x hx
    obtain ⟨t, v⟩ := h
    have hc : pick v (lastSome (pre.map (·.2))) = lastSome ((pre ++ [(t, v)]).map (·.2)) := by
      rw [List.map_append, List.map_cons, List.map_nil, lastSome_snoc]
    rw [ffillAux_cons, hc] at hx
    rcases List.mem_cons.mp hx with rfl | hx
    · exact ⟨[], (t, v), rest, rfl, by simp⟩
    · obtain ⟨a, r, b, hl, hxr⟩ := ih (pre ++ [(t, v)]) x hx
      refine ⟨(t, v) :: a, r, b, by rw [hl]; rfl, ?_⟩
      rw [hxr]
      simp [List.append_assoc]

/-- the last valid value is the value of some row, and every later row is empty -/
theorem lastSome_eq_some {vs : List (Option Rat)} {x : Rat} (h : lastSome vs = some x) :
    ∃ v1 v2, vs = v1 ++ some x :: v2 ∧ ∀ v ∈ v2, v = none := by
  induction vs with
  | nil => simp [lastSome] at h
  | cons a t ih =>
    simp only [lastSome] at h
    cases ht : lastSome t with
    | some y =>
      rw [ht] at h
      simp only [Option.some.injEq] at h
      subst h
      obtain ⟨v1, v2, hv, hn⟩ := ih ht
      exact ⟨a :: v1, v2, by rw [hv]; rfl, hn⟩
    | none =>
      rw [ht] at h
      simp only at h
      subst h
      refine ⟨[], t, rfl, ?_⟩
      clear ih
      induction t with
      | nil => simp
      | cons b u ihu =>
        simp only [lastSome] at ht
        cases hu : lastSome u with
        | some z => rw [hu] at ht; simp at ht
        | none =>
          rw [hu] at ht
          simp only at ht
          intro v hv
          rcases List.mem_cons.mp hv with rfl | hv
          · exact ht
          · exact ihu hu v hv

/-! ### the stable sort keeps valued rows before valueless rows of the same offset -/

/-- recursive form of `ValuedFirst` -/
def VF : List Row → Prop
  | [] => True
  | (t, none) :: rest => (∀ r ∈ rest, r.1 = t → r.2 = none) ∧ VF rest
  | (_, some _) :: rest => VF rest

theorem VF_tail {h : Row} {rest : List Row} (hv : VF (h :: rest)) : VF rest := by
  obtain ⟨t, v⟩ := h
  cases v with
  | none => exact hv.2
  | some _ => exact hv

theorem VF_valuedFirst (l : List Row) (hv : VF l) : ValuedFirst l := by
  induction l with
  | nil => intro a b t h; simp at h
  | cons h rest ih =>
    intro a b t hl r hr hrt
    cases a with
    | nil =>
      simp only [List.nil_append, List.cons.injEq] at hl
      obtain ⟨rfl, rfl⟩ := hl
      exact hv.1 r hr hrt
    | cons h' a' =>
      simp only [List.cons_append, List.cons.injEq] at hl
      exact ih (VF_tail hv) a' b t hl.2 r hr hrt

theorem VF_of_all_none (l : List Row) (h : ∀ r ∈ l, r.2 = none) : VF l := by
  induction l with
  | nil => trivial
  | cons x rest ih =>
    obtain ⟨t, v⟩ := x
    have hv : v = none := h (t, v) (by simp)
    subst hv
    exact ⟨fun r hr _ => h r (List.mem_cons_of_mem _ hr), ih (fun r hr => h r (List.mem_cons_of_mem _ hr))⟩

theorem VF_insertBy (t : Rat) (b : Rat) (s : List Row) (hv : VF s) :
    VF (insertBy (fun a b : Row => decide (a.1 ≤ b.1)) (t, some b) s) := by
  induction s with
  | nil => simp [insertBy, VF]
  | cons y ys ih =>
    unfold insertBy
    split
    · exact hv
    · rename_i hle
      obtain ⟨ty, vy⟩ := y
      cases vy with
      | some _ => exact ih hv
      | none =>
        refine ⟨?_, ih hv.2⟩
        intro r hr hrt
        rcases List.mem_cons.mp ((insertBy_perm _ _ ys).mem_iff.mp hr) with rfl | hr
        · simp only [decide_eq_true_eq] at hle
          exact absurd (le_of_eq hrt) hle
        · exact hv.1 r hr hrt

theorem VF_sortRow (A M : List Row) (hA : ∀ r ∈ A, r.2 ≠ none) (hM : ∀ r ∈ M, r.2 = none) :
    VF (sortRow (A ++ M)) := by
  induction A with
  | nil =>
    apply VF_of_all_none
    intro r hr
    exact hM r ((isort_perm _ _).mem_iff.mp hr)
  | cons x A' ih =>
    obtain ⟨t, v⟩ := x
    cases v with
    | none => exact absurd rfl (hA (t, none) (by simp))
    | some b =>
      have := ih (fun r hr => hA r (List.mem_cons_of_mem _ hr))
      exact VF_insertBy t b _ this

theorem sortRow_sorted (l : List Row) : (sortRow l).Pairwise (fun a b => a.1 ≤ b.1) := by
  have := isort_pairwise (fun a b : Row => decide (a.1 ≤ b.1))
    (by intro a b; simp only [decide_eq_true_eq]; exact le_total _ _)
    (by intro a b c; simp only [decide_eq_true_eq]; exact le_trans) l
  simpa [sortRow] using this

/-! ### bfill, drop_duplicates -/

theorem mem_bfill {l : List Row} {x : Row} (hx : x ∈ bfill l) : x ∈ l ∨ (x.1, none) ∈ l := by
  unfold bfill at hx
  rw [List.mem_reverse] at hx
  obtain ⟨a, r, b, hl, rfl⟩ := mem_ffillAux l.reverse [] x (by simpa [ffill, lastSome] using hx)
  have hr : r ∈ l := by
    have : r ∈ l.reverse := by rw [hl]; simp
    exact List.mem_reverse.mp this
  obtain ⟨t, v⟩ := r
  simp only [List.nil_append, List.map_append, List.map_cons, List.map_nil, lastSome_snoc]
  cases v with
  | some y => left; exact hr
  | none => right; exact hr

theorem mem_dropDup {l : List Row} {x : Row} (hx : x ∈ dropDup l) : x ∈ l := by
  induction l with
  | nil => simp [dropDup] at hx
  | cons r t ih =>
    simp only [dropDup] at hx
    rcases List.mem_cons.mp hx with rfl | hx
    · simp
    · exact List.mem_cons_of_mem _ (ih (List.mem_filter.mp hx).1)

theorem lastSome_eq_none {vs : List (Option Rat)} (h : lastSome vs = none) : ∀ v ∈ vs, v = none := by
  induction vs with
  | nil => simp
  | cons a t ih =>
    simp only [lastSome] at h
    cases ht : lastSome t with
    | some y => rw [ht] at h; simp at h
    | none =>
      rw [ht] at h
      simp only at h
      intro v hv
      rcases List.mem_cons.mp hv with rfl | hv
      · exact h
      · exact ih ht v hv

end Reamber.Analysis
