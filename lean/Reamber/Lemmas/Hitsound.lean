/-
Helper lemmas for C18 (hitsound copy): the slot loops are a zip of the remaining slot indexes with a payload
queue; the indexed writes are a single pass over the rows; per time the result rows are the reset target rows
with the first payloads applied.  Core Lean only.
-/
import Reamber.Lemmas.Perm
import Reamber.Spec.Hitsound

namespace Reamber.Hitsound

open Reamber.Timing (gather isort insertBy IsPerm)

/-! ### generic list facts -/

theorem zip_append_right {α β} (l : List α) (a b : List β) :
    l.zip (a ++ b) = l.zip a ++ (l.drop a.length).zip b := by
  induction a generalizing l with
  | nil => simp
  | cons x a ih =>
    cases l with
    | nil => simp
    | cons y l => simp [ih]

theorem insertBy_perm {α} (le : α → α → Bool) (x : α) (l : List α) : (insertBy le x l).Perm (x :: l) := by
  induction l with
  | nil => simp [insertBy]
  | cons y ys ih =>
    simp only [insertBy]
    split
    · exact List.Perm.refl _
    · exact (List.Perm.cons y ih).trans (List.Perm.swap x y ys)

theorem isort_perm {α} (le : α → α → Bool) (l : List α) : (isort le l).Perm l := by
  induction l with
  | nil => simp [isort]
  | cons x xs ih =>
    have : isort le (x :: xs) = insertBy le x (isort le xs) := by simp [isort]
    rw [this]
    exact (insertBy_perm le x _).trans (List.Perm.cons x ih)

theorem mem_dedup {α} [DecidableEq α] (a : α) (l : List α) : a ∈ dedup l ↔ a ∈ l := by
  induction l with
  | nil => simp [dedup]
  | cons x xs ih =>
    simp only [dedup, List.mem_cons, List.mem_filter, ih]
    by_cases h : a = x <;> simp [h]

theorem nodup_dedup {α} [DecidableEq α] (l : List α) : (dedup l).Nodup := by
  induction l with
  | nil => simp [dedup]
  | cons x xs ih =>
    simp only [dedup, List.nodup_cons]
    refine ⟨by simp, ?_⟩
    exact ih.sublist List.filter_sublist

theorem mem_keysRat (a : Rat) (l : List Rat) : a ∈ keysRat l ↔ a ∈ l := by
  unfold keysRat; rw [(isort_perm _ _).mem_iff, mem_dedup]
theorem nodup_keysRat (l : List Rat) : (keysRat l).Nodup := by
  unfold keysRat; exact (isort_perm _ _).nodup_iff.mpr (nodup_dedup l)
theorem mem_keysInt (a : Int) (l : List Int) : a ∈ keysInt l ↔ a ∈ l := by
  unfold keysInt; rw [(isort_perm _ _).mem_iff, mem_dedup]
theorem nodup_keysInt (l : List Int) : (keysInt l).Nodup := by
  unfold keysInt; exact (isort_perm _ _).nodup_iff.mpr (nodup_dedup l)

/-- gathering through a permutation of the indexes only reorders -/
theorem gather_perm {α} [Inhabited α] (xs : List α) (σ : List Nat) (hσ : IsPerm σ) (hl : σ.length = xs.length) :
    (gather xs σ).Perm xs := by
  unfold IsPerm at hσ
  have h1 : (gather xs σ).Perm (gather xs (List.range σ.length)) := by
    unfold gather; exact hσ.map _
  refine h1.trans ?_
  have : gather xs (List.range σ.length) = xs := by
    apply List.ext_getElem
    · simp [gather, hl]
    · intro i h1 h2
      simp [gather, List.getD_eq_getElem?_getD, List.getElem?_eq_getElem h2]
  rw [this]

/-- counting over the groups of a partition by key -/
theorem sum_countP_groups {α κ} [DecidableEq κ] (key : α → κ) (p : α → Bool) (ks : List κ) (hk : ks.Nodup) (l : List α)
    (hl : ∀ x ∈ l, key x ∈ ks) :
    (ks.map (fun k => (l.filter (fun x => key x == k)).countP p)).sum = l.countP p := by
  induction ks generalizing l with
  | nil =>
    cases l with
    | nil => simp
    | cons x xs => exact absurd (hl x (by simp)) (by simp)
  | cons k ks ih =>
    rw [List.nodup_cons] at hk
    obtain ⟨hnk, hks⟩ := hk
    have hl' : ∀ x ∈ l.filter (fun x => !(key x == k)), key x ∈ ks := by
      intro x hx
      rw [List.mem_filter] at hx
      have := hl x hx.1
      simp only [List.mem_cons] at this
      rcases this with h | h
      · simp [h] at hx
      · exact h
    have ih' := ih hks _ hl'
    have hrew : ∀ k' ∈ ks, ((l.filter (fun x => !(key x == k))).filter (fun x => key x == k')).countP p
        = (l.filter (fun x => key x == k')).countP p := by
      intro k' hk'
      have hne : k' ≠ k := fun h => hnk (h ▸ hk')
      rw [List.filter_filter]
      congr 1
      apply List.filter_congr
      intro x _
      by_cases hx : key x = k'
      · simp [hx, hne]
      · simp [hx]
    have hmap : ks.map (fun k' => ((l.filter (fun x => !(key x == k))).filter (fun x => key x == k')).countP p)
        = ks.map (fun k' => (l.filter (fun x => key x == k')).countP p) :=
      List.map_congr_left hrew
    rw [hmap] at ih'
    simp only [List.map_cons, List.sum_cons, ih']
    have := (List.filter_append_perm (fun x => key x == k) l).countP_eq p
    rw [List.countP_append] at this
    exact this

/-- the part of a `flatMap` over distinct keys that belongs to one key -/
theorem filter_flatMap_key {α κ} [DecidableEq κ] (key : α → κ) (h : κ → List α) (hh : ∀ t, ∀ e ∈ h t, key e = t)
    (ks : List κ) (hk : ks.Nodup) (u : κ) :
    (ks.flatMap h).filter (fun e => key e == u) = if u ∈ ks then h u else [] := by
  induction ks with
  | nil => simp
  | cons k ks ih =>
    rw [List.nodup_cons] at hk
    simp only [List.flatMap_cons, List.filter_append, ih hk.2]
    by_cases hku : k = u
    · subst hku
      have h1 : (h k).filter (fun e => key e == k) = h k := by
        rw [List.filter_eq_self]; intro e he; simp [hh k e he]
      simp [h1, hk.1]
    · have h1 : (h k).filter (fun e => key e == u) = [] := by
        rw [List.filter_eq_nil_iff]; intro e he; simp [hh k e he, hku]
      have : (u = k) = False := by simp [Ne.symm hku]
      simp [h1, this]

/-! ### `";".join` then `.split(";")` -/

theorem splitSep_ne_nil (s : Nat) (l : File) : splitSep s l ≠ [] := by
  cases l with
  | nil => simp [splitSep]
  | cons c cs =>
    simp only [splitSep]
    split
    · simp
    · split <;> simp

theorem splitSep_piece (s : Nat) (p : File) (hp : ¬ s ∈ p) : splitSep s p = [p] := by
  induction p with
  | nil => simp [splitSep]
  | cons c cs ih =>
    have hc : c ≠ s := fun h => hp (by simp [h])
    have hcs : ¬ s ∈ cs := fun h => hp (by simp [h])
    simp [splitSep, hc, ih hcs]

theorem splitSep_append (s : Nat) (p rest : File) (hp : ¬ s ∈ p) :
    splitSep s (p ++ s :: rest) = p :: splitSep s rest := by
  induction p with
  | nil => simp [splitSep]
  | cons c cs ih =>
    have hc : c ≠ s := fun h => hp (by simp [h])
    have hcs : ¬ s ∈ cs := fun h => hp (by simp [h])
    simp [splitSep, hc, ih hcs]

theorem splitSep_joinSep (s : Nat) (ps : List File) (hne : ps ≠ []) (hp : ∀ p ∈ ps, ¬ s ∈ p) :
    splitSep s (joinSep s ps) = ps := by
  induction ps with
  | nil => exact absurd rfl hne
  | cons p ps ih =>
    cases ps with
    | nil => simpa [joinSep] using splitSep_piece s p (hp p (by simp))
    | cons q qs =>
      simp only [joinSep]
      rw [splitSep_append s p _ (hp p (by simp)), ih (by simp) (fun x hx => hp x (by simp [hx]))]

/-- the named samples of a volume group survive the join/split when no name contains the separator -/
theorem split_join_filter (s : Nat) (ps : List File) (hp : ∀ p ∈ ps, ¬ s ∈ p) :
    (splitSep s (joinSep s ps)).filter (fun f => f.length > 0) = ps.filter (fun f => f.length > 0) := by
  cases ps with
  | nil => simp [joinSep, splitSep]
  | cons p ps => rw [splitSep_joinSep s _ (by simp) hp]

/-! ### the slot loops are a zip with a payload queue -/

/-- the values the default-sample loop slots, one per iteration -/
def defaultVals : Nat → Nat → Nat → Nat → List Nat
  | 0, _, _, _ => []
  | n + 1, c, f, w => slotVal c f w :: defaultVals n (c - 1) (f - 1) (w - 1)

theorem defaultVals_length (n c f w : Nat) : (defaultVals n c f w).length = n := by
  induction n generalizing c f w with
  | zero => rfl
  | succ n ih => simp [defaultVals, ih]

def mkEv (t : Rat) : Payload → Option Ev
  | .file f vol => some ⟨t, f, vol⟩
  | .dflt _ _ => none

/-- the event samples appended for the payloads that found no slot (defaults are dropped) -/
def evsOf (t : Rat) (ps : List Payload) : List Ev := ps.filterMap (mkEv t)

theorem defaultsLoop_eq (vol : Int) (n c f w : Nat) (slots : List Nat) :
    defaultsLoop vol n c f w slots
      = (slots.zip ((defaultVals n c f w).map (fun v => Payload.dflt v vol)), slots.drop n) := by
  induction n generalizing c f w slots with
  | zero => simp [defaultsLoop, defaultVals]
  | succ n ih =>
    cases slots with
    | nil => simp [defaultsLoop]
    | cons i rest => simp [defaultsLoop, defaultVals, ih]

theorem filesLoop_eq (t : Rat) (vol : Int) (fs : List File) (slots : List Nat) :
    filesLoop t vol fs slots
      = (slots.zip (fs.map (fun f => Payload.file f vol)),
         evsOf t ((fs.map (fun f => Payload.file f vol)).drop slots.length), slots.drop fs.length) := by
  induction fs generalizing slots with
  | nil => simp [filesLoop, evsOf]
  | cons f fs ih =>
    cases slots with
    | nil =>
      have := ih []
      simp only [List.zip_nil_left, List.length_nil, List.drop_zero, List.drop_nil] at this
      simp [filesLoop, this, evsOf, mkEv]
    | cons i rest => simp [filesLoop, ih]

/-- the payload queue of one volume group: the default values, then the named samples -/
def payloadsOf (g : VGroup) : List Payload :=
  let claps := g.clapSum / hsClap
  let finishes := g.finSum / hsFinish
  let whistles := g.whiSum / hsWhistle
  (defaultVals (max claps (max finishes whistles)) claps finishes whistles).map (fun v => Payload.dflt v g.volume)
    ++ (groupFiles g).map (fun f => Payload.file f g.volume)

theorem evsOf_dflt (t : Rat) (vol : Int) (vs : List Nat) : evsOf t (vs.map (fun v => Payload.dflt v vol)) = [] := by
  induction vs with
  | nil => rfl
  | cons v vs ih => simp [evsOf, mkEv]

theorem evsOf_append (t : Rat) (a b : List Payload) : evsOf t (a ++ b) = evsOf t a ++ evsOf t b := by
  simp [evsOf]

theorem evsOf_drop_dflt (t : Rat) (vol : Int) (vs : List Nat) (k : Nat) :
    evsOf t ((vs.map (fun v => Payload.dflt v vol)).drop k) = [] := by
  rw [← List.map_drop]; exact evsOf_dflt t vol _

theorem groupStep_eq (t : Rat) (g : VGroup) (slots : List Nat) :
    groupStep t g slots
      = (slots.zip (payloadsOf g), evsOf t ((payloadsOf g).drop slots.length), slots.drop (payloadsOf g).length) := by
  simp only [groupStep, defaultsLoop_eq, filesLoop_eq, payloadsOf]
  refine Prod.ext ?_ (Prod.ext ?_ ?_)
  · simp only [zip_append_right, List.length_map, defaultVals_length]
  · simp only [List.drop_append, evsOf_append, evsOf_drop_dflt, List.nil_append, List.length_drop, List.length_map,
      defaultVals_length]
  · simp only [List.drop_drop, List.length_append, List.length_map, defaultVals_length]

theorem groupsLoop_eq (t : Rat) (gs : List VGroup) (slots : List Nat) :
    groupsLoop t gs slots
      = (slots.zip (gs.flatMap payloadsOf), evsOf t ((gs.flatMap payloadsOf).drop slots.length)) := by
  induction gs generalizing slots with
  | nil => simp [groupsLoop, evsOf]
  | cons g gs ih =>
    simp only [groupsLoop, groupStep_eq, ih, List.flatMap_cons]
    refine Prod.ext ?_ ?_
    · simp only [zip_append_right]
    · simp only [List.drop_append, evsOf_append, List.length_drop]

/-! ### the indexed writes are one pass over the rows -/

/-- rows of time `t` take the payloads in order -/
def fillRows (t : Rat) : List Note → List Payload → List Note
  | [], _ => []
  | r :: rs, [] => r :: rs
  | r :: rs, p :: ps => if r.offset = t then applyP p r :: fillRows t rs ps else r :: fillRows t rs (p :: ps)

theorem fillRows_nil (t : Rat) (df : List Note) : fillRows t df [] = df := by
  cases df <;> rfl

theorem applyWrites_shift (x : Note) (xs : List Note) (ws : List (Nat × Payload)) :
    applyWrites (x :: xs) (ws.map (fun w => (w.1 + 1, w.2))) = x :: applyWrites xs ws := by
  induction ws generalizing xs with
  | nil => rfl
  | cons w ws ih =>
    simp only [applyWrites, List.map_cons, List.foldl_cons, modifyAt] at ih ⊢
    exact ih _

theorem slotsFrom_succ (b : Nat) (t : Rat) (os : List Rat) :
    slotsFrom (b + 1) t os = (slotsFrom b t os).map (· + 1) := by
  induction os generalizing b with
  | nil => rfl
  | cons o os ih =>
    simp only [slotsFrom]
    split <;> simp [ih]

theorem zip_map_succ (l : List Nat) (ps : List Payload) :
    (l.map (· + 1)).zip ps = (l.zip ps).map (fun w => (w.1 + 1, w.2)) := by
  induction l generalizing ps with
  | nil => simp
  | cons a l ih => cases ps <;> simp [ih]

theorem applyWrites_eq_fillRows (t : Rat) (df : List Note) (ps : List Payload) :
    applyWrites df ((slotsFrom 0 t (df.map (·.offset))).zip ps) = fillRows t df ps := by
  induction df generalizing ps with
  | nil => simp [slotsFrom, applyWrites, fillRows]
  | cons r rs ih =>
    simp only [List.map_cons, slotsFrom]
    by_cases h : r.offset = t
    · simp only [h, if_true]
      cases ps with
      | nil => simp [applyWrites, fillRows]
      | cons p ps =>
        rw [slotsFrom_succ, List.zip_cons_cons, zip_map_succ]
        have : applyWrites (r :: rs) ((0, p) :: ((slotsFrom 0 t (rs.map (·.offset))).zip ps).map (fun w => (w.1 + 1, w.2)))
            = applyWrites (applyP p r :: rs) (((slotsFrom 0 t (rs.map (·.offset))).zip ps).map (fun w => (w.1 + 1, w.2))) := by
          simp [applyWrites, modifyAt]
        rw [this, applyWrites_shift, ih]
        simp [fillRows, h]
    · simp only [h, if_false]
      rw [slotsFrom_succ, zip_map_succ, applyWrites_shift, ih]
      cases ps with
      | nil => simp [fillRows_nil]
      | cons p ps => simp [fillRows, h]

theorem slotsFrom_length (b : Nat) (t : Rat) (os : List Rat) : (slotsFrom b t os).length = os.countP (· == t) := by
  induction os generalizing b with
  | nil => rfl
  | cons o os ih =>
    simp only [slotsFrom, List.countP_cons]
    split <;> simp_all

theorem fillRows_offsets (t : Rat) (df : List Note) (ps : List Payload) :
    (fillRows t df ps).map (·.offset) = df.map (·.offset) := by
  induction df generalizing ps with
  | nil => rfl
  | cons r rs ih =>
    cases ps with
    | nil => rfl
    | cons p ps =>
      simp only [fillRows]
      split
      · cases p <;> simp [applyP, ih]
      · simp [ih]

/-- (time, column, length) — what no write touches -/
def core (n : Note) : Rat × Int × Option Rat := (n.offset, n.column, n.length)

theorem core_applyP (p : Payload) (r : Note) : core (applyP p r) = core r := by
  cases p <;> rfl

theorem fillRows_core (t : Rat) (df : List Note) (ps : List Payload) :
    (fillRows t df ps).map core = df.map core := by
  induction df generalizing ps with
  | nil => rfl
  | cons r rs ih =>
    cases ps with
    | nil => rfl
    | cons p ps =>
      simp only [fillRows]
      split
      · simp [core_applyP, ih]
      · simp [ih]

/-- the first payloads applied to the rows, in order -/
def zipApply : List Payload → List Note → List Note
  | _, [] => []
  | [], r :: rs => r :: rs
  | p :: ps, r :: rs => applyP p r :: zipApply ps rs

theorem zipApply_nil (rows : List Note) : zipApply [] rows = rows := by cases rows <;> rfl

theorem offset_applyP (p : Payload) (r : Note) : (applyP p r).offset = r.offset := by cases p <;> rfl

theorem fillRows_filter_same (t : Rat) (df : List Note) (ps : List Payload) :
    (fillRows t df ps).filter (fun n => n.offset == t) = zipApply ps (df.filter (fun n => n.offset == t)) := by
  induction df generalizing ps with
  | nil => simp [fillRows, zipApply]
  | cons r rs ih =>
    cases ps with
    | nil => simp [fillRows, zipApply_nil]
    | cons p ps =>
      simp only [fillRows]
      by_cases h : r.offset = t
      · simp [h, offset_applyP, zipApply, ih]
      · simp [h, ih]

theorem fillRows_filter_other (t u : Rat) (hu : u ≠ t) (df : List Note) (ps : List Payload) :
    (fillRows t df ps).filter (fun n => n.offset == u) = df.filter (fun n => n.offset == u) := by
  induction df generalizing ps with
  | nil => simp [fillRows]
  | cons r rs ih =>
    cases ps with
    | nil => simp [fillRows]
    | cons p ps =>
      simp only [fillRows]
      by_cases h : r.offset = t
      · have : ¬ r.offset = u := fun h' => hu (h' ▸ h)
        simp [h, offset_applyP, ih, Ne.symm hu]
      · simp [h, List.filter_cons, ih]

/-! ### the whole loop -/

/-- the source notes in the order of `df_src` (filtered, sorted by `σs`) -/
def srcSorted (σs : List Nat) (src : Chart) : List Note := gather ((concatNotes src).filter active) σs

/-- the payload queue of time `u`: all volume groups of that time, ascending volume -/
def queue (S : List Note) (u : Rat) : List Payload :=
  (volGroups ((S.map toSRow).filter (fun r => r.offset == u))).flatMap payloadsOf

theorem keyStep_eq (S : List Note) (offs : List Rat) (t : Rat) :
    keyStep (S.map toSRow) offs t
      = ((slotsFrom 0 t offs).zip (queue S t), evsOf t ((queue S t).drop (offs.countP (· == t)))) := by
  simp only [keyStep, groupsLoop_eq, queue, slotsFrom_length]

theorem keysLoop_eq (S : List Note) (offs : List Rat) (ks : List Rat) (st : List Note × List Ev)
    (h : st.1.map (·.offset) = offs) :
    keysLoop (S.map toSRow) offs ks st
      = (ks.foldl (fun d t => fillRows t d (queue S t)) st.1,
         st.2 ++ ks.flatMap (fun t => evsOf t ((queue S t).drop (offs.countP (· == t))))) := by
  induction ks generalizing st with
  | nil => simp [keysLoop]
  | cons t ts ih =>
    simp only [keysLoop, keyStep_eq]
    rw [ih]
    · have : applyWrites st.1 ((slotsFrom 0 t offs).zip (queue S t)) = fillRows t st.1 (queue S t) := by
        rw [← h]; exact applyWrites_eq_fillRows t st.1 _
      simp [this, List.append_assoc]
    · have : applyWrites st.1 ((slotsFrom 0 t offs).zip (queue S t)) = fillRows t st.1 (queue S t) := by
        rw [← h]; exact applyWrites_eq_fillRows t st.1 _
      simp only [this, fillRows_offsets, h]

theorem foldl_fill_core (Q : Rat → List Payload) (ks : List Rat) (d : List Note) :
    (ks.foldl (fun d t => fillRows t d (Q t)) d).map core = d.map core := by
  induction ks generalizing d with
  | nil => rfl
  | cons t ts ih => simp only [List.foldl_cons, ih, fillRows_core]

theorem foldl_fill_filter (Q : Rat → List Payload) (ks : List Rat) (hk : ks.Nodup) (d : List Note) (u : Rat) :
    (ks.foldl (fun d t => fillRows t d (Q t)) d).filter (fun n => n.offset == u)
      = if u ∈ ks then zipApply (Q u) (d.filter (fun n => n.offset == u)) else d.filter (fun n => n.offset == u) := by
  induction ks generalizing d with
  | nil => simp
  | cons t ts ih =>
    rw [List.nodup_cons] at hk
    simp only [List.foldl_cons, ih hk.2]
    by_cases hut : u = t
    · subst hut
      simp [hk.1, fillRows_filter_same]
    · simp [hut, fillRows_filter_other t u hut]

/-! ### one volume group, on notes -/

def pBit (m : Nat) : Payload → Bool
  | .dflt v _ => hasBit v m
  | .file _ _ => false

def pFile (f : File) : Payload → Bool
  | .dflt _ _ => false
  | .file g _ => g == f

/-- a payload that makes its note "used" -/
def pUsed : Payload → Bool
  | .dflt v _ => v != 0
  | .file f _ => f != []

def queueG (G : List Note) (v : Int) : List Payload :=
  (defaultVals (max (G.countP isClap) (max (G.countP isFinish) (G.countP isWhistle)))
      (G.countP isClap) (G.countP isFinish) (G.countP isWhistle)).map (fun x => Payload.dflt x v)
    ++ ((G.map (·.file)).filter (fun f => f.length > 0)).map (fun f => Payload.file f v)

theorem sum_bit (m : Nat) (hm : 0 < m) (G : List Note) :
    (G.map (fun n => if hasBit n.hs m then m else 0)).sum / m = G.countP (fun n => hasBit n.hs m) := by
  have : (G.map (fun n => if hasBit n.hs m then m else 0)).sum = m * G.countP (fun n => hasBit n.hs m) := by
    induction G with
    | nil => simp
    | cons n G ih =>
      simp only [List.map_cons, List.sum_cons, List.countP_cons, ih]
      split <;> simp [Nat.mul_add, Nat.add_comm]
  rw [this, Nat.mul_div_cancel_left _ hm]

theorem filter_map_toSRow_vol (L : List Note) (v : Int) :
    (L.map toSRow).filter (fun r => r.volume == v) = (L.filter (fun n => n.volume == v)).map toSRow := by
  induction L with
  | nil => rfl
  | cons n L ih =>
    simp only [List.map_cons, List.filter_cons]
    have : (toSRow n).volume = n.volume := rfl
    rw [this]
    split <;> simp [ih]

theorem filter_map_toSRow_off (L : List Note) (u : Rat) :
    (L.map toSRow).filter (fun r => r.offset == u) = (L.filter (fun n => n.offset == u)).map toSRow := by
  induction L with
  | nil => rfl
  | cons n L ih =>
    simp only [List.map_cons, List.filter_cons]
    have : (toSRow n).offset = n.offset := rfl
    rw [this]
    split <;> simp [ih]

theorem payloadsOf_mk (L : List Note) (v : Int) :
    payloadsOf (mkVGroup (L.map toSRow) v) = queueG (L.filter (fun n => n.volume == v)) v := by
  have hc := sum_bit hsClap (by decide) (L.filter (fun n => n.volume == v))
  have hf := sum_bit hsFinish (by decide) (L.filter (fun n => n.volume == v))
  have hw := sum_bit hsWhistle (by decide) (L.filter (fun n => n.volume == v))
  simp only [payloadsOf, mkVGroup, queueG, groupFiles, filter_map_toSRow_vol, List.map_map]
  have e1 : ((fun r : SRow => r.clap) ∘ toSRow) = (fun n => if hasBit n.hs hsClap then hsClap else 0) := rfl
  have e2 : ((fun r : SRow => r.fin) ∘ toSRow) = (fun n => if hasBit n.hs hsFinish then hsFinish else 0) := rfl
  have e3 : ((fun r : SRow => r.whi) ∘ toSRow) = (fun n => if hasBit n.hs hsWhistle then hsWhistle else 0) := rfl
  have e4 : ((fun r : SRow => r.file) ∘ toSRow) = (fun n => n.file) := rfl
  rw [e1, e2, e3, e4, hc, hf, hw]
  rfl

theorem queue_eq (S : List Note) (u : Rat) :
    queue S u = (keysInt ((S.filter (fun n => n.offset == u)).map (·.volume))).flatMap
      (fun v => queueG ((S.filter (fun n => n.offset == u)).filter (fun n => n.volume == v)) v) := by
  simp only [queue, volGroups, filter_map_toSRow_off, List.map_map, List.flatMap_map]
  have : ((fun r : SRow => r.volume) ∘ toSRow) = (fun n => n.volume) := rfl
  rw [this]
  congr 1
  funext v
  exact payloadsOf_mk _ v

theorem slotVal_clap (c f w : Nat) : hasBit (slotVal c f w) hsClap = decide (c ≠ 0) := by
  by_cases hc : c = 0 <;> by_cases hf : f = 0 <;> by_cases hw : w = 0 <;>
    simp [slotVal, hasBit, hsClap, hsFinish, hsWhistle, hc, hf, hw]
theorem slotVal_finish (c f w : Nat) : hasBit (slotVal c f w) hsFinish = decide (f ≠ 0) := by
  by_cases hc : c = 0 <;> by_cases hf : f = 0 <;> by_cases hw : w = 0 <;>
    simp [slotVal, hasBit, hsClap, hsFinish, hsWhistle, hc, hf, hw]
theorem slotVal_whistle (c f w : Nat) : hasBit (slotVal c f w) hsWhistle = decide (w ≠ 0) := by
  by_cases hc : c = 0 <;> by_cases hf : f = 0 <;> by_cases hw : w = 0 <;>
    simp [slotVal, hasBit, hsClap, hsFinish, hsWhistle, hc, hf, hw]

theorem defaultVals_clap (n c f w : Nat) (h : c ≤ n) :
    (defaultVals n c f w).countP (fun v => hasBit v hsClap) = c := by
  induction n generalizing c f w with
  | zero => simp [defaultVals]; omega
  | succ n ih =>
    simp only [defaultVals, List.countP_cons, slotVal_clap, ih (c - 1) (f - 1) (w - 1) (by omega)]
    by_cases hc : c = 0 <;> simp [hc]; omega
theorem defaultVals_finish (n c f w : Nat) (h : f ≤ n) :
    (defaultVals n c f w).countP (fun v => hasBit v hsFinish) = f := by
  induction n generalizing c f w with
  | zero => simp [defaultVals]; omega
  | succ n ih =>
    simp only [defaultVals, List.countP_cons, slotVal_finish, ih (c - 1) (f - 1) (w - 1) (by omega)]
    by_cases hc : f = 0 <;> simp [hc]; omega
theorem defaultVals_whistle (n c f w : Nat) (h : w ≤ n) :
    (defaultVals n c f w).countP (fun v => hasBit v hsWhistle) = w := by
  induction n generalizing c f w with
  | zero => simp [defaultVals]; omega
  | succ n ih =>
    simp only [defaultVals, List.countP_cons, slotVal_whistle, ih (c - 1) (f - 1) (w - 1) (by omega)]
    by_cases hc : w = 0 <;> simp [hc]; omega

theorem slotVal_ne_zero (c f w : Nat) (h : 0 < max c (max f w)) : slotVal c f w ≠ 0 := by
  unfold slotVal hsClap hsFinish hsWhistle
  by_cases hc : c = 0 <;> by_cases hf : f = 0 <;> by_cases hw : w = 0 <;> simp [hc, hf, hw]
  simp [hc, hf, hw] at h

theorem defaultVals_ne_zero (n c f w : Nat) (h : n ≤ max c (max f w)) : ∀ v ∈ defaultVals n c f w, v ≠ 0 := by
  induction n generalizing c f w with
  | zero => simp [defaultVals]
  | succ n ih =>
    intro v hv
    simp only [defaultVals, List.mem_cons] at hv
    rcases hv with rfl | hv
    · exact slotVal_ne_zero c f w (by omega)
    · exact ih (c - 1) (f - 1) (w - 1) (by omega) v hv

theorem countP_pBit_files (m : Nat) (v : Int) (fs : List File) :
    (fs.map (fun f => Payload.file f v)).countP (pBit m) = 0 := by
  induction fs with
  | nil => rfl
  | cons f fs ih => simp [pBit, ih]

theorem countP_pFile_dflt (f : File) (v : Int) (vs : List Nat) :
    (vs.map (fun x => Payload.dflt x v)).countP (pFile f) = 0 := by
  induction vs with
  | nil => rfl
  | cons x vs ih => simp [pFile, ih]

theorem queueG_clap (G : List Note) (v : Int) : (queueG G v).countP (pBit hsClap) = G.countP isClap := by
  unfold queueG
  rw [List.countP_append, countP_pBit_files, Nat.add_zero, List.countP_map]
  exact defaultVals_clap _ _ _ _ (Nat.le_max_left _ _)
theorem queueG_finish (G : List Note) (v : Int) : (queueG G v).countP (pBit hsFinish) = G.countP isFinish := by
  unfold queueG
  rw [List.countP_append, countP_pBit_files, Nat.add_zero, List.countP_map]
  exact defaultVals_finish _ _ _ _ (Nat.le_trans (Nat.le_max_left _ _) (Nat.le_max_right _ _))
theorem queueG_whistle (G : List Note) (v : Int) : (queueG G v).countP (pBit hsWhistle) = G.countP isWhistle := by
  unfold queueG
  rw [List.countP_append, countP_pBit_files, Nat.add_zero, List.countP_map]
  exact defaultVals_whistle _ _ _ _ (Nat.le_trans (Nat.le_max_right _ _) (Nat.le_max_right _ _))

/-- no file name in the list contains the separator (a hypothesis of C15's lemmas; not needed here any more) -/
def NoSepL (L : List Note) : Prop := ∀ n ∈ L, ¬ sep ∈ n.file

theorem queueG_file (G : List Note) (v : Int) (f : File) (hf : f ≠ []) :
    (queueG G v).countP (pFile f) = G.countP (fun n => n.file == f) := by
  unfold queueG
  rw [List.countP_append, countP_pFile_dflt, Nat.zero_add, List.countP_map, List.countP_filter, List.countP_map]
  apply List.countP_congr
  intro n _
  simp only [Function.comp, pFile, beq_iff_eq, Bool.and_eq_true, decide_eq_true_eq]
  constructor
  · exact fun h => h.1
  · intro h
    refine ⟨h, ?_⟩
    rw [h]
    exact List.length_pos_iff.mpr hf

theorem queueG_used (G : List Note) (v : Int) : ∀ p ∈ queueG G v, pUsed p = true := by
  intro p hp
  simp only [queueG, List.mem_append, List.mem_map, List.mem_filter] at hp
  rcases hp with ⟨x, hx, rfl⟩ | ⟨f, ⟨_, hf⟩, rfl⟩
  · have := defaultVals_ne_zero _ _ _ _ (Nat.le_refl _) x hx
    simpa [pUsed] using this
  · simp only [pUsed, bne_iff_ne, ne_eq]
    intro h; subst h; simp at hf

/-! ### one time, on notes -/

theorem queue_count (S : List Note) (u : Rat) (q : Payload → Bool) (p : Note → Bool)
    (h : ∀ (G : List Note) (v : Int), (∀ n ∈ G, n ∈ S) → (queueG G v).countP q = G.countP p) :
    (queue S u).countP q = (S.filter (fun n => n.offset == u)).countP p := by
  rw [queue_eq, List.countP_flatMap]
  have := sum_countP_groups (fun n : Note => n.volume) p
    (keysInt ((S.filter (fun n => n.offset == u)).map (·.volume))) (nodup_keysInt _)
    (S.filter (fun n => n.offset == u)) (by
      intro x hx; rw [mem_keysInt]; exact List.mem_map_of_mem hx)
  rw [← this]
  congr 1
  apply List.map_congr_left
  intro v _
  simp only [Function.comp]
  apply h
  intro n hn
  exact (List.mem_filter.mp (List.mem_filter.mp hn).1).1

theorem queue_used (S : List Note) (u : Rat) : ∀ p ∈ queue S u, pUsed p = true := by
  intro p hp
  rw [queue_eq, List.mem_flatMap] at hp
  obtain ⟨v, _, hp⟩ := hp
  exact queueG_used _ v p hp

theorem queue_nil (S : List Note) (u : Rat) (h : S.filter (fun n => n.offset == u) = []) : queue S u = [] := by
  rw [queue_eq, h]; rfl

/-! ### payloads applied to reset rows -/

def isReset (r : Note) : Prop := r.hs = 0 ∧ r.file = [] ∧ r.sampleSet = 0 ∧ r.additionSet = 0 ∧ r.customSet = 0

theorem zipApply_bit (m : Nat) (hm : hasBit 0 m = false) (ps : List Payload) (rows : List Note)
    (hr : ∀ r ∈ rows, isReset r) :
    (zipApply ps rows).countP (fun n => hasBit n.hs m) = (ps.take rows.length).countP (pBit m) := by
  induction rows generalizing ps with
  | nil => simp [zipApply]
  | cons r rs ih =>
    have hr0 : r.hs = 0 := (hr r (by simp)).1
    have hrs : ∀ r ∈ rs, isReset r := fun x hx => hr x (by simp [hx])
    cases ps with
    | nil =>
      simp only [zipApply, List.take_nil, List.countP_nil]
      rw [List.countP_eq_zero]
      intro x hx
      have : x.hs = 0 := (hr x hx).1
      simp [this, hm]
    | cons p ps =>
      have key : hasBit (applyP p r).hs m = pBit m p := by
        cases p with
        | dflt v vol => rfl
        | file f vol => simp [applyP, pBit, hr0, hm]
      simp only [zipApply, List.length_cons, List.take_succ_cons, List.countP_cons, ih ps hrs, key]

theorem zipApply_file (f : File) (hf : f ≠ []) (ps : List Payload) (rows : List Note)
    (hr : ∀ r ∈ rows, isReset r) :
    (zipApply ps rows).countP (fun n => n.file == f) = (ps.take rows.length).countP (pFile f) := by
  induction rows generalizing ps with
  | nil => simp [zipApply]
  | cons r rs ih =>
    have hr0 : r.file = [] := (hr r (by simp)).2.1
    have hrs : ∀ r ∈ rs, isReset r := fun x hx => hr x (by simp [hx])
    cases ps with
    | nil =>
      simp only [zipApply, List.take_nil, List.countP_nil]
      rw [List.countP_eq_zero]
      intro x hx
      have : x.file = [] := (hr x hx).2.1
      simp [this, hf]
    | cons p ps =>
      have key : ((applyP p r).file == f) = pFile f p := by
        cases p with
        | dflt v vol => simp [applyP, pFile, hr0, hf]
        | file g vol => rfl
      simp only [zipApply, List.length_cons, List.take_succ_cons, List.countP_cons, ih ps hrs, key]

theorem zipApply_mem (ps : List Payload) (rows : List Note) (n : Note) (h : n ∈ zipApply ps rows) :
    n ∈ rows ∨ ∃ p ∈ ps, ∃ r ∈ rows, n = applyP p r := by
  induction rows generalizing ps with
  | nil => simp [zipApply] at h
  | cons r rs ih =>
    cases ps with
    | nil => left; simpa [zipApply] using h
    | cons p ps =>
      simp only [zipApply, List.mem_cons] at h
      rcases h with rfl | h
      · right; exact ⟨p, by simp, r, by simp, rfl⟩
      · rcases ih ps h with h' | ⟨p', hp', r', hr', rfl⟩
        · left; simp [h']
        · right; exact ⟨p', by simp [hp'], r', by simp [hr'], rfl⟩

theorem used_applyP (p : Payload) (r : Note) (hp : pUsed p = true) : unused (applyP p r) = false := by
  cases p with
  | dflt v vol => simp [pUsed] at hp; simp [applyP, unused, hp]
  | file f vol => simp [pUsed] at hp; simp [applyP, unused, hp]

theorem zipApply_room (ps : List Payload) (rows : List Note) (hp : ∀ p ∈ ps, pUsed p = true)
    (n : Note) (hn : n ∈ zipApply ps rows) (hu : unused n = true) : ps.length < rows.length := by
  induction rows generalizing ps with
  | nil => simp [zipApply] at hn
  | cons r rs ih =>
    cases ps with
    | nil => simp
    | cons p ps =>
      simp only [zipApply, List.mem_cons] at hn
      rcases hn with rfl | hn
      · rw [used_applyP p r (hp p (by simp))] at hu; exact absurd hu (by simp)
      · have := ih ps (fun q hq => hp q (by simp [hq])) hn
        simp only [List.length_cons]; omega

theorem evsOf_offset (t : Rat) (ps : List Payload) : ∀ e ∈ evsOf t ps, e.offset = t := by
  intro e he
  simp only [evsOf, List.mem_filterMap] at he
  obtain ⟨p, _, hp⟩ := he
  cases p with
  | dflt v vol => simp [mkEv] at hp
  | file f vol => simp only [mkEv, Option.some.injEq] at hp; rw [← hp]

theorem evsOf_countP (t : Rat) (f : File) (ps : List Payload) :
    (evsOf t ps).countP (fun e => e.file == f) = ps.countP (pFile f) := by
  induction ps with
  | nil => rfl
  | cons p ps ih =>
    cases p with
    | dflt v vol =>
      have h1 : evsOf t (Payload.dflt v vol :: ps) = evsOf t ps := rfl
      rw [h1, ih]; simp [pFile]
    | file g vol =>
      have h1 : evsOf t (Payload.file g vol :: ps) = ⟨t, g, vol⟩ :: evsOf t ps := rfl
      rw [h1, List.countP_cons, List.countP_cons, ih]; rfl

theorem evsOf_mem (t : Rat) (ps : List Payload) (e : Ev) (he : e ∈ evsOf t ps) :
    ∃ vol, Payload.file e.file vol ∈ ps := by
  simp only [evsOf, List.mem_filterMap] at he
  obtain ⟨p, hp, h⟩ := he
  cases p with
  | dflt v vol => simp [mkEv] at h
  | file f vol =>
    simp only [mkEv, Option.some.injEq] at h
    exact ⟨vol, by rw [← h]; exact hp⟩

end Reamber.Hitsound
