/-
K4 — permutations: gathering through a permutation and un-gathering through its argsort.
Core Lean only.
-/
import Reamber.Model.Timing

namespace Reamber.Timing

/-- `τ` is a permutation of `0..n-1` (as a list of indices) -/
def IsPerm (τ : List Nat) : Prop := τ.Perm (List.range τ.length)

theorem IsPerm.mem_iff {τ : List Nat} (h : IsPerm τ) (i : Nat) : i ∈ τ ↔ i < τ.length := by
  have := List.Perm.mem_iff (a := i) h
  rw [this]; simp

theorem IsPerm.nodup {τ : List Nat} (h : IsPerm τ) : τ.Nodup := h.nodup_iff.mpr List.nodup_range

theorem gather_length {α} [Inhabited α] (xs : List α) (idx : List Nat) : (gather xs idx).length = idx.length := by
  simp [gather]

theorem argsortPerm_length (τ : List Nat) : (argsortPerm τ).length = τ.length := by simp [argsortPerm]

/-- position `idxOf i τ` holds `i` -/
theorem getD_idxOf {τ : List Nat} {i : Nat} (h : i ∈ τ) : τ.getD (τ.idxOf i) 0 = i := by
  have hlt : τ.idxOf i < τ.length := List.idxOf_lt_length_of_mem h
  simp [List.getD_eq_getElem?_getD, List.getElem?_eq_getElem hlt]

/-- Un-permutation: results computed in the order `gather xs τ` and read back through `argsort τ`
come out in the order of `xs`. This is `np.array(r)[τ.argsort()]`. -/
theorem gather_map_argsort {α β} [Inhabited α] [Inhabited β] (f : α → β) (xs : List α) (τ : List Nat)
    (hτ : IsPerm τ) (hlen : τ.length = xs.length) :
    gather ((gather xs τ).map f) (argsortPerm τ) = xs.map f := by
  apply List.ext_getElem
  · simp [gather, argsortPerm, hlen]
  · intro i h1 h2
    have hi : i < τ.length := by simpa [gather, argsortPerm] using h1
    have hmem : i ∈ τ := (hτ.mem_iff i).mpr hi
    have hpos : τ.idxOf i < τ.length := List.idxOf_lt_length_of_mem hmem
    have hix : i < xs.length := by omega
    have hτi : τ[τ.idxOf i] = i := List.getElem_idxOf hpos
    simp only [gather, argsortPerm, List.getElem_map, List.getElem_range, List.map_map, Function.comp]
    simp [List.getD_eq_getElem?_getD, List.getElem?_eq_getElem hpos, hτi, List.getElem?_eq_getElem hix]

theorem isPerm_reverse {σ : List Nat} (h : IsPerm σ) : IsPerm σ.reverse := by
  unfold IsPerm at *
  simpa using (List.reverse_perm σ).trans h

end Reamber.Timing
