/-
K1 — the chain behind `offsets_correct`:
 (i)   `from_bpm_changes_snap(reseat=False)` stores the cumulative times `tmOf` (= `changeTimes`);
 (ii)  `bpm_changes_offset_to_snap` re-derives exactly the original positions from those times when consecutive
       changes are grid-compatible and the metronome changes only on measure lines;
 (iii) looking a query up in the (reversed) change list and adding `Snap.offset` of the difference is the
       declarative integration `timeAt`.
-/
import Reamber.Lemmas.Snapper
import Reamber.Lemmas.Sweep
import Mathlib.Tactic.FieldSimp
import Mathlib.Tactic.Positivity

namespace Reamber.Timing

/-! ### Snap construction with carry -/

theorem euclid_unique {M : Rat} (hM : 0 < M) {m m' : Int} {b b' : Rat} (hb : 0 ≤ b) (hbM : b < M)
    (hb' : 0 ≤ b') (hbM' : b' < M) (h : (m : Rat) * M + b = (m' : Rat) * M + b') : m = m' ∧ b = b' := by
  have hm : m = m' := by
    rcases lt_trichotomy m m' with hlt | heq | hgt
    · have : (m : Rat) + 1 ≤ (m' : Rat) := by exact_mod_cast hlt
      have := mul_le_mul_of_nonneg_right this hM.le
      nlinarith
    · exact heq
    · have : (m' : Rat) + 1 ≤ (m : Rat) := by exact_mod_cast hgt
      have := mul_le_mul_of_nonneg_right this hM.le
      nlinarith
  subst hm
  exact ⟨rfl, by linarith⟩

/-- `Snap(m, b, M)` with `m ≥ 0`, `M > 0` and a non-negative total position succeeds, and `__post_init__`'s carry
preserves the total position `measure · M + beat` while normalising `0 ≤ beat < M`. -/
theorem Snap.make_spec (m : Int) (b M : Rat) (hm : 0 ≤ m) (hM : 0 < M) (hv : 0 ≤ (m : Rat) * M + b) :
    ∃ s, Snap.make m b (some M) = .ok s ∧ s.met = some M ∧ 0 ≤ s.measure ∧ 0 ≤ s.beat ∧ s.beat < M ∧
      (s.measure : Rat) * M + s.beat = (m : Rat) * M + b := by
  unfold Snap.make
  simp only [not_lt.mpr hm, if_false]
  by_cases hc : b < 0 ∨ b ≥ M
  · simp only [hc, if_true, ne_of_gt hM, if_false]
    have hfl := Rat.floor_le (b / M)
    have hfu := Rat.lt_floor_add_one (b / M)
    push_cast at hfu
    have h1 : M * ((b / M).floor : Rat) ≤ b := by
      have := mul_le_mul_of_nonneg_left hfl hM.le
      rwa [mul_div_cancel₀ b (ne_of_gt hM)] at this
    have h2 : b < M * ((b / M).floor : Rat) + M := by
      have := mul_lt_mul_of_pos_left hfu hM
      rw [mul_div_cancel₀ b (ne_of_gt hM)] at this
      linarith
    have h3 : 0 ≤ m + (b / M).floor := by
      have : -m ≤ (b / M).floor := by
        apply Rat.le_floor_iff.mpr
        rw [le_div_iff₀ hM]
        push_cast
        linarith
      omega
    have hne : ¬ (pyMod b M < 0 ∨ m + pyFloorDiv b M < 0) := by
      unfold pyMod pyFloorDiv
      intro h
      rcases h with h | h
      · linarith
      · omega
    simp only [hne, if_false]
    refine ⟨_, rfl, rfl, ?_, ?_, ?_, ?_⟩
    · exact h3
    · unfold pyMod; linarith
    · unfold pyMod; linarith
    · unfold pyMod pyFloorDiv; push_cast; ring
  · have hc' : 0 ≤ b ∧ b < M := by
      constructor
      · by_contra h; exact hc (Or.inl (not_le.mp h))
      · by_contra h; exact hc (Or.inr (not_lt.mp h))
    have hne : ¬ (b < 0 ∨ m < 0) := by
      intro h; rcases h with h | h
      · linarith
      · omega
    rw [if_neg hc]
    simp only [if_false, or_false, not_lt.mpr hc'.1]
    exact ⟨⟨m, b, some M⟩, rfl, rfl, hm, hc'.1, hc'.2, rfl⟩

/-! ### well-formedness, order -/

structure WfChange (c : BcSnap) : Prop where
  met_tie : c.snap.met = some c.met
  met_int : ∃ k : Int, c.met = (k : Rat)
  met_pos : 0 < c.met
  bpm_pos : 0 < c.bpm
  measure_nonneg : 0 ≤ c.snap.measure
  beat_nonneg : 0 ≤ c.snap.beat
  beat_lt : c.snap.beat < c.met

theorem wfChange_iff (c : BcSnap) : wfChange c = true → WfChange c := by
  intro h
  simp only [wfChange, Bool.and_eq_true, decide_eq_true_eq] at h
  obtain ⟨⟨⟨⟨⟨⟨h1, h2⟩, h3⟩, h4⟩, h5⟩, h6⟩, h7⟩ := h
  refine ⟨h1, ⟨c.met.num, ?_⟩, h3, h4, h5, h6, h7⟩
  exact ((Rat.den_eq_one_iff c.met).mp h2).symm

theorem wfChanges_mem {cs : List BcSnap} (h : wfChanges cs = true) {c : BcSnap} (hc : c ∈ cs) : WfChange c := by
  simp only [wfChanges, List.all_eq_true] at h
  exact wfChange_iff c (h c hc)

theorem wfChanges_tail {c : BcSnap} {cs : List BcSnap} (h : wfChanges (c :: cs) = true) : wfChanges cs = true := by
  simp only [wfChanges, List.all_cons, Bool.and_eq_true] at h ⊢
  exact h.2

theorem sortedSnaps_tail {c : BcSnap} {cs : List BcSnap} (h : sortedSnaps (c :: cs) = true) :
    sortedSnaps cs = true := by
  cases cs with
  | nil => rfl
  | cons b rest => simp only [sortedSnaps, Bool.and_eq_true] at h; exact h.2

theorem sortedSnaps_head_le {c : BcSnap} {cs : List BcSnap} (h : sortedSnaps (c :: cs) = true) :
    ∀ x ∈ cs, c.snap.le x.snap = true := by
  induction cs generalizing c with
  | nil => intro x hx; cases hx
  | cons b rest ih =>
    simp only [sortedSnaps, Bool.and_eq_true] at h
    intro x hx
    rcases List.mem_cons.mp hx with rfl | hx
    · exact h.1
    · exact Snap.le_trans h.1 (ih h.2 x hx)

theorem sortedSnaps_pairwise {cs : List BcSnap} (h : sortedSnaps cs = true) :
    cs.Pairwise (fun a b => a.snap.le b.snap = true) := by
  induction cs with
  | nil => exact List.Pairwise.nil
  | cons c rest ih => exact List.pairwise_cons.mpr ⟨sortedSnaps_head_le h, ih (sortedSnaps_tail h)⟩

theorem Snap.not_lt_of_le {a b : Snap} (h : a.le b = true) : (!(b.lt a)) = true := by
  simp only [Snap.le, Snap.lt, Snap.eqv, Bool.or_eq_true, Bool.and_eq_true, decide_eq_true_eq, Bool.not_eq_true',
    Bool.or_eq_false_iff, Bool.and_eq_false_iff, decide_eq_false_iff_not] at *
  grind

theorem Snap.gt_eq_not_le (a b : Snap) : a.gt b = !(a.le b) := by
  simp [Snap.gt, Snap.le]

/-- something above `q` stays above `q` when replaced by something later -/
theorem Snap.gt_of_le_of_gt {p p' q : Snap} (h : p.gt q = true) (hp : p.le p' = true) : p'.gt q = true := by
  simp only [Snap.gt, Snap.le, Snap.lt, Snap.eqv, Bool.and_eq_true, Bool.not_eq_true', Bool.or_eq_true,
    Bool.or_eq_false_iff, Bool.and_eq_false_iff, decide_eq_true_eq, decide_eq_false_iff_not] at *
  grind

theorem sortBcSnap_eq_self {cs : List BcSnap} (h : sortedSnaps cs = true) : sortBcSnap cs = cs := by
  unfold sortBcSnap
  apply isort_eq_self
  exact (sortedSnaps_pairwise h).imp (fun hab => Snap.not_lt_of_le hab)

/-! ### Snap difference -/

theorem beatLen_pos {bpm : Rat} (h : 0 < bpm) : 0 < beatLen bpm := by
  unfold beatLen minToMsec
  exact div_pos (by norm_num) h

/-- `a - b` for `b ≤ a` (lexicographically), `b` carrying metronome `M`, succeeds; `Snap.offset` of the result is
the beat distance `snapDist b a M` times the beat length. -/
theorem Snap.sub_spec {a b : Snap} {M : Rat} (bpm : Rat) (hmet : b.met = some M) (hM : 0 < M) (hle : b.le a = true)
    (ha : 0 ≤ a.beat) (hb : b.beat ≤ M) :
    ∃ d, a.sub b = .ok d ∧ d.offset bpm M = snapDist b a M * beatLen bpm ∧ 0 ≤ snapDist b a M := by
  have hm : 0 ≤ a.measure - b.measure ∧ 0 ≤ ((a.measure - b.measure : Int) : Rat) * M + (a.beat - b.beat) := by
    simp only [Snap.le, Snap.lt, Snap.eqv, Bool.or_eq_true, Bool.and_eq_true, decide_eq_true_eq] at hle
    rcases hle with (h | ⟨h1, h2⟩) | ⟨h1, h2⟩
    · have h' : (1 : Rat) ≤ ((a.measure - b.measure : Int) : Rat) := by exact_mod_cast (by omega : 1 ≤ a.measure - b.measure)
      have := mul_le_mul_of_nonneg_right h' hM.le
      exact ⟨by omega, by linarith⟩
    · rw [h1]; simp only [sub_self, Int.cast_zero, zero_mul, zero_add]; exact ⟨_root_.le_refl _, by linarith⟩
    · rw [h1, h2]; simp
  obtain ⟨d, hd, _, _, _, _, hval⟩ := Snap.make_spec (a.measure - b.measure) (a.beat - b.beat) M hm.1 hM hm.2
  refine ⟨d, ?_, ?_, ?_⟩
  · unfold Snap.sub; rw [hmet]; exact hd
  · unfold Snap.offset measLen snapDist
    have : (d.measure : Rat) * M + d.beat = ((a.measure - b.measure : Int) : Rat) * M + (a.beat - b.beat) := hval
    calc beatLen bpm * M * (d.measure : Rat) + beatLen bpm * d.beat
        = beatLen bpm * ((d.measure : Rat) * M + d.beat) := by ring
      _ = _ := by rw [this]; ring
  · unfold snapDist; exact hm.2

/-! ### (i) the stored times are the cumulative integration -/

/-- times of the changes after `cur` (which sits at `T`) -/
def tmTail (T : Rat) (cur : BcSnap) : List BcSnap → List BcOff
  | [] => []
  | n :: rest =>
    ⟨n.bpm, n.met, T + snapDist cur.snap n.snap cur.met * beatLen cur.bpm⟩ ::
      tmTail (T + snapDist cur.snap n.snap cur.met * beatLen cur.bpm) n rest

/-- what `from_bpm_changes_snap(t0, cs, reseat=False)` stores -/
def tmOf (t0 : Rat) : List BcSnap → List BcOff
  | [] => []
  | c :: rest => ⟨c.bpm, c.met, t0⟩ :: tmTail t0 c rest

theorem cumOffsets_eq (T : Rat) (cur : BcSnap) (rest : List BcSnap) (hwf : wfChanges (cur :: rest) = true)
    (hs : sortedSnaps (cur :: rest) = true) : cumOffsets T cur rest = .ok (tmTail T cur rest) := by
  induction rest generalizing T cur with
  | nil => rfl
  | cons n rest ih =>
    have wc := wfChanges_mem hwf (List.mem_cons_self)
    have wn := wfChanges_mem hwf (List.mem_cons_of_mem _ List.mem_cons_self)
    have hle : cur.snap.le n.snap = true := sortedSnaps_head_le hs n List.mem_cons_self
    obtain ⟨d, hd, hoff, _⟩ := Snap.sub_spec cur.bpm wc.met_tie wc.met_pos hle wn.beat_nonneg (le_of_lt wc.beat_lt)
    simp only [cumOffsets, hd, bind, Except.bind, hoff, tmTail]
    rw [ih _ n (wfChanges_tail hwf) (sortedSnaps_tail hs)]

/-- **(i)** `from_bpm_changes_snap(t0, cs, reseat=False)` succeeds on a sorted, well-formed list that starts at
(0, 0) and stores the cumulative times. -/
theorem fromBcSnapNoReseat_eq (t0 : Rat) (cs : List BcSnap) (hwf : wfChanges cs = true)
    (hs : sortedSnaps cs = true) (h0 : firstAtZero cs = true) : fromBcSnapNoReseat t0 cs = .ok (tmOf t0 cs) := by
  unfold fromBcSnapNoReseat
  rw [sortBcSnap_eq_self hs]
  cases cs with
  | nil => simp [firstAtZero] at h0
  | cons c rest =>
    simp only [firstAtZero, Bool.and_eq_true, decide_eq_true_eq] at h0
    have : ¬ (c.snap.measure ≠ 0 ∨ c.snap.beat ≠ 0) := by simp [h0.1, h0.2]
    simp only [this, if_false, cumOffsets_eq t0 c rest hwf hs, bind, Except.bind, tmOf]

/-! ### (ii) the re-derivation of the positions from the stored times -/

theorem snapDist_nonneg {cur n : BcSnap} (wc : WfChange cur) (wn : WfChange n) (hle : cur.snap.le n.snap = true) :
    0 ≤ snapDist cur.snap n.snap cur.met := by
  obtain ⟨_, _, _, h⟩ := Snap.sub_spec cur.bpm wc.met_tie wc.met_pos hle wn.beat_nonneg (le_of_lt wc.beat_lt)
  exact h

theorem tmTail_ge (T : Rat) (cur : BcSnap) (rest : List BcSnap) (hwf : wfChanges (cur :: rest) = true)
    (hs : sortedSnaps (cur :: rest) = true) : ∀ o ∈ tmTail T cur rest, T ≤ o.offset := by
  induction rest generalizing T cur with
  | nil => intro o ho; cases ho
  | cons n rest ih =>
    have wc := wfChanges_mem hwf (List.mem_cons_self)
    have wn := wfChanges_mem hwf (List.mem_cons_of_mem _ List.mem_cons_self)
    have hle : cur.snap.le n.snap = true := sortedSnaps_head_le hs n List.mem_cons_self
    have hD := snapDist_nonneg wc wn hle
    have hstep : T ≤ T + snapDist cur.snap n.snap cur.met * beatLen cur.bpm := by
      have := mul_nonneg hD (le_of_lt (beatLen_pos wc.bpm_pos))
      linarith
    intro o ho
    simp only [tmTail, List.mem_cons] at ho
    rcases ho with rfl | ho
    · exact hstep
    · exact le_trans hstep (ih _ n (wfChanges_tail hwf) (sortedSnaps_tail hs) o ho)

theorem tmTail_pairwise (T : Rat) (cur : BcSnap) (rest : List BcSnap) (hwf : wfChanges (cur :: rest) = true)
    (hs : sortedSnaps (cur :: rest) = true) :
    (tmTail T cur rest).Pairwise (fun a b => decide (a.offset ≤ b.offset) = true) := by
  induction rest generalizing T cur with
  | nil => exact List.Pairwise.nil
  | cons n rest ih =>
    simp only [tmTail]
    refine List.pairwise_cons.mpr ⟨?_, ih _ n (wfChanges_tail hwf) (sortedSnaps_tail hs)⟩
    intro o ho
    simpa using tmTail_ge _ n rest (wfChanges_tail hwf) (sortedSnaps_tail hs) o ho

theorem sortBcOff_tmOf (t0 : Rat) (cs : List BcSnap) (hwf : wfChanges cs = true) (hs : sortedSnaps cs = true) :
    sortBcOff (tmOf t0 cs) = tmOf t0 cs := by
  unfold sortBcOff
  apply isort_eq_self
  cases cs with
  | nil => exact List.Pairwise.nil
  | cons c rest =>
    simp only [tmOf]
    refine List.pairwise_cons.mpr ⟨?_, tmTail_pairwise t0 c rest hwf hs⟩
    intro o ho
    simpa using tmTail_ge t0 c rest hwf hs o ho

theorem frac_sub_int (x : Rat) (n : Int) : frac (x - (n : Rat)) = frac x := by
  unfold frac
  have : x - (n : Rat) = x + ((-n : Int) : Rat) := by push_cast; ring
  rw [this, Rat.floor_add_intCast]
  push_cast
  ring

/-- `Snap.from_offset` applied to the stored time of the next change gives back that change's position -/
theorem snapFromOffset_rederive {g : Array Rat} (hg : GridOK g) (T : Rat) (cur n : BcSnap) (wc : WfChange cur)
    (wn : WfChange n) (hle : cur.snap.le n.snap = true)
    (hgc : frac (snapDist cur.snap n.snap cur.met) ∈ g.toList) (hmet : cur.met = n.met ∨ n.snap.beat = 0) :
    ∃ s, snapFromOffset g (T + snapDist cur.snap n.snap cur.met * beatLen cur.bpm) ⟨cur.bpm, cur.met, T⟩ cur = .ok s ∧
      s.measure = n.snap.measure ∧ s.beat = n.snap.beat := by
  have hD := snapDist_nonneg wc wn hle
  have hbl := beatLen_pos wc.bpm_pos
  have hM := wc.met_pos
  generalize hDv : snapDist cur.snap n.snap cur.met = D at hD hgc
  have e1 : T + D * beatLen cur.bpm - T = D * beatLen cur.bpm := by ring
  have e2 : D * beatLen cur.bpm / (beatLen cur.bpm * cur.met) = D / cur.met := by
    field_simp
  have e3 : (D * beatLen cur.bpm - (((D / cur.met).floor : Int) : Rat) * (beatLen cur.bpm * cur.met)) / beatLen cur.bpm
      = D - (((D / cur.met).floor : Int) : Rat) * cur.met := by
    field_simp
  have hsf : snapFromOffset g (T + D * beatLen cur.bpm) ⟨cur.bpm, cur.met, T⟩ cur
      = Snap.make ((D / cur.met).floor + cur.snap.measure)
          (snapOn g (D - (((D / cur.met).floor : Int) : Rat) * cur.met) + cur.snap.beat) (some cur.met) := by
    unfold snapFromOffset pyFloorDiv measLen
    simp only []
    rw [e1, e2, e3]
  rw [hsf]
  -- the quotient and the remainder
  have hk0 : 0 ≤ (D / cur.met).floor := Rat.le_floor_iff.mpr (by simpa using div_nonneg hD hM.le)
  have hfl := Rat.floor_le (D / cur.met)
  have hfu := Rat.lt_floor_add_one (D / cur.met)
  push_cast at hfu
  have h1 : (((D / cur.met).floor : Int) : Rat) * cur.met ≤ D := by
    have := mul_le_mul_of_nonneg_right hfl hM.le
    rwa [div_mul_cancel₀ D (ne_of_gt hM)] at this
  have h2 : D < (((D / cur.met).floor : Int) : Rat) * cur.met + cur.met := by
    have := mul_lt_mul_of_pos_right hfu hM
    rw [div_mul_cancel₀ D (ne_of_gt hM)] at this
    linarith
  -- the remainder is on the grid, so the snapper leaves it alone
  obtain ⟨kM, hkM⟩ := wc.met_int
  have hfr : frac (D - (((D / cur.met).floor : Int) : Rat) * cur.met) = frac D := by
    have : (((D / cur.met).floor : Int) : Rat) * cur.met = (((D / cur.met).floor * kM : Int) : Rat) := by
      rw [hkM]; push_cast; ring
    rw [this, frac_sub_int]
  have hsn : snapOn g (D - (((D / cur.met).floor : Int) : Rat) * cur.met)
      = D - (((D / cur.met).floor : Int) : Rat) * cur.met := snapOn_fix hg.asc _ (by rw [hfr]; exact hgc)
  rw [hsn]
  have hcm := wc.measure_nonneg
  have hcb := wc.beat_nonneg
  obtain ⟨s, hs, _, _, hsb0, hsbM, hval⟩ := Snap.make_spec ((D / cur.met).floor + cur.snap.measure)
    (D - (((D / cur.met).floor : Int) : Rat) * cur.met + cur.snap.beat) cur.met (by omega) hM
    (by push_cast
        have := mul_nonneg (show (0 : Rat) ≤ (cur.snap.measure : Rat) by exact_mod_cast hcm) hM.le
        nlinarith)
  refine ⟨s, hs, ?_⟩
  have hnb : n.snap.beat < cur.met := by
    rcases hmet with h | h
    · rw [h]; exact wn.beat_lt
    · rw [h]; exact hM
  have htot : (s.measure : Rat) * cur.met + s.beat = (n.snap.measure : Rat) * cur.met + n.snap.beat := by
    rw [hval, ← hDv]
    unfold snapDist
    push_cast
    ring
  exact euclid_unique hM hsb0 hsbM wn.beat_nonneg hnb htot

theorem gridCompatible_cons {g : List Rat} {a b : BcSnap} {rest : List BcSnap}
    (h : gridCompatible g (a :: b :: rest) = true) :
    frac (snapDist a.snap b.snap a.met) ∈ g ∧ gridCompatible g (b :: rest) = true := by
  simp only [gridCompatible, Bool.and_eq_true] at h
  exact ⟨by simpa using h.1, h.2⟩

theorem metronomeOk_cons {a b : BcSnap} {rest : List BcSnap} (h : metronomeOk (a :: b :: rest) = true) :
    (a.met = b.met ∨ b.snap.beat = 0) ∧ metronomeOk (b :: rest) = true := by
  simp only [metronomeOk, Bool.and_eq_true, Bool.or_eq_true, decide_eq_true_eq] at h
  exact h

theorem bcsLoop_rederive {g : Array Rat} (hg : GridOK g) (T : Rat) (cur : BcSnap) (rest : List BcSnap)
    (hwf : wfChanges (cur :: rest) = true) (hs : sortedSnaps (cur :: rest) = true)
    (hgc : gridCompatible g.toList (cur :: rest) = true) (hm : metronomeOk (cur :: rest) = true) :
    bcsLoop g ⟨cur.bpm, cur.met, T⟩ cur (tmTail T cur rest) = .ok rest := by
  induction rest generalizing T cur with
  | nil => rfl
  | cons n rest ih =>
    have wc := wfChanges_mem hwf (List.mem_cons_self)
    have wn := wfChanges_mem hwf (List.mem_cons_of_mem _ List.mem_cons_self)
    have hle : cur.snap.le n.snap = true := sortedSnaps_head_le hs n List.mem_cons_self
    obtain ⟨hgc1, hgc2⟩ := gridCompatible_cons hgc
    obtain ⟨hm1, hm2⟩ := metronomeOk_cons hm
    obtain ⟨s, hs1, hs2, hs3⟩ := snapFromOffset_rederive hg T cur n wc wn hle hgc1 hm1
    have hn : (⟨n.bpm, n.met, { s with met := some n.met }⟩ : BcSnap) = n := by
      obtain ⟨bpm, met, ⟨m, b, mt⟩⟩ := n
      have := wn.met_tie
      simp only at this hs2 hs3 ⊢
      rw [hs2, hs3, this]
    simp only [tmTail, bcsLoop, hs1, bind, Except.bind, hn]
    rw [ih _ n (wfChanges_tail hwf) (sortedSnaps_tail hs) hgc2 hm2]

/-- **(ii)** `bpm_changes_offset_to_snap` applied to the stored times returns the original change list. -/
theorem bcsOfBco_rederive {g : Array Rat} (hg : GridOK g) (t0 : Rat) (cs : List BcSnap) (hwf : wfChanges cs = true)
    (hs : sortedSnaps cs = true) (h0 : firstAtZero cs = true) (hgc : gridCompatible g.toList cs = true)
    (hm : metronomeOk cs = true) : bcsOfBco g (tmOf t0 cs) = .ok (tmOf t0 cs, cs) := by
  unfold bcsOfBco
  rw [sortBcOff_tmOf t0 cs hwf hs]
  cases cs with
  | nil => simp [firstAtZero] at h0
  | cons c rest =>
    have wc := wfChanges_mem hwf (List.mem_cons_self)
    simp only [firstAtZero, Bool.and_eq_true, decide_eq_true_eq] at h0
    have hmk : Snap.make 0 0 (some c.met) = .ok ⟨0, 0, some c.met⟩ := by
      obtain ⟨s, hs', hmet, _, hb0, hbM, hval⟩ := Snap.make_spec 0 0 c.met (le_refl _) wc.met_pos (by simp)
      have := euclid_unique wc.met_pos hb0 hbM (le_refl (0 : Rat)) wc.met_pos (m' := 0) (by rw [hval])
      rw [hs']
      obtain ⟨m, b, mt⟩ := s
      simp only at this hmet
      rw [this.1, this.2, hmet]
    have hc : (⟨c.bpm, c.met, ⟨0, 0, some c.met⟩⟩ : BcSnap) = c := by
      obtain ⟨bpm, met, ⟨m, b, mt⟩⟩ := c
      have := wc.met_tie
      simp only at this h0 ⊢
      rw [h0.1, h0.2, this]
    simp only [tmOf, hmk, bind, Except.bind, hc]
    rw [bcsLoop_rederive hg t0 c rest hwf hs hgc hm]

/-! ### (iii) the lookup of the active change + `Snap.offset` of the difference = `timeAt` -/

/-- forward search for the active change: the last one whose position is `≤ q` -/
def activeFwd (cur : BcSnap × BcOff) : List (BcSnap × BcOff) → Snap → BcSnap × BcOff
  | [], _ => cur
  | n :: rest, q => if n.1.snap.le q then activeFwd n rest q else cur

theorem activeFwd_le (cur : BcSnap × BcOff) (rest : List (BcSnap × BcOff)) (q : Snap)
    (h : cur.1.snap.le q = true) : (activeFwd cur rest q).1.snap.le q = true := by
  induction rest generalizing cur with
  | nil => exact h
  | cons n rest ih =>
    simp only [activeFwd]
    split
    · rename_i hn; exact ih n hn
    · exact h

theorem activeFwd_mem (cur : BcSnap × BcOff) (rest : List (BcSnap × BcOff)) (q : Snap) :
    activeFwd cur rest q ∈ cur :: rest := by
  induction rest generalizing cur with
  | nil => simp [activeFwd]
  | cons n rest ih =>
    simp only [activeFwd]
    split
    · exact List.mem_cons_of_mem _ (ih n)
    · exact List.mem_cons_self

/-- the backwards scan of `TimingMap.offsets` (`while bcs_s[bc_i].snap > snap: bc_i -= 1`) stops at the active change -/
theorem dropWhile_reverse_active (cur : BcSnap × BcOff) (rest : List (BcSnap × BcOff)) (q : Snap)
    (hsorted : (cur :: rest).Pairwise (fun a b => a.1.snap.le b.1.snap = true)) (hq : cur.1.snap.le q = true) :
    ∃ tl, ((cur :: rest).reverse).dropWhile (fun p => p.1.snap.gt q) = activeFwd cur rest q :: tl := by
  induction rest generalizing cur with
  | nil =>
    refine ⟨[], ?_⟩
    simp [activeFwd, Snap.gt_eq_not_le, hq]
  | cons n rest ih =>
    have hp := List.pairwise_cons.mp hsorted
    rw [List.reverse_cons]
    by_cases hn : n.1.snap.le q = true
    · obtain ⟨tl, htl⟩ := ih n hp.2 hn
      refine ⟨tl ++ [cur], ?_⟩
      rw [List.dropWhile_append, htl]
      simp [activeFwd, hn]
    · refine ⟨[], ?_⟩
      have hgt : n.1.snap.gt q = true := by rw [Snap.gt_eq_not_le]; simpa using hn
      have hall : ∀ a ∈ (n :: rest).reverse, (fun p : BcSnap × BcOff => p.1.snap.gt q) a = true := by
        intro a ha
        rcases List.mem_cons.mp (List.mem_reverse.mp ha) with rfl | ha
        · exact hgt
        · exact Snap.gt_of_le_of_gt hgt ((List.pairwise_cons.mp hp.2).1 a ha)
      rw [List.dropWhile_append_of_pos hall]
      simp [activeFwd, hn, Snap.gt_eq_not_le, hq]

theorem timeAtAux_eq_active (T : Rat) (cur : BcSnap) (rest : List BcSnap) (q : Snap) :
    timeAtAux T cur rest q =
      (activeFwd (cur, ⟨cur.bpm, cur.met, T⟩) (rest.zip (tmTail T cur rest)) q).2.offset +
        snapDist (activeFwd (cur, ⟨cur.bpm, cur.met, T⟩) (rest.zip (tmTail T cur rest)) q).1.snap q
          (activeFwd (cur, ⟨cur.bpm, cur.met, T⟩) (rest.zip (tmTail T cur rest)) q).1.met *
        beatLen (activeFwd (cur, ⟨cur.bpm, cur.met, T⟩) (rest.zip (tmTail T cur rest)) q).1.bpm := by
  induction rest generalizing T cur with
  | nil => simp [timeAtAux, activeFwd]
  | cons n rest ih =>
    simp only [timeAtAux, tmTail, List.zip_cons_cons, activeFwd]
    split
    · exact ih _ n
    · rfl

theorem pairwise_zip_fst {α β} {R : α → α → Prop} {l : List α} (h : l.Pairwise R) (l' : List β) :
    (l.zip l').Pairwise (fun a b => R a.1 b.1) := by
  induction l generalizing l' with
  | nil => simp
  | cons a t ih =>
    cases l' with
    | nil => simp
    | cons b t' =>
      have hp := List.pairwise_cons.mp h
      simp only [List.zip_cons_cons]
      refine List.pairwise_cons.mpr ⟨?_, ih hp.2 t'⟩
      intro x hx
      exact hp.1 x.1 (List.of_mem_zip (a := x.1) (b := x.2) hx).1

/-- **(iii)** for a sorted well-formed change list, the per-query lookup used by the sweep returns the declarative
integration `timeAt` for every query at or after the first change. -/
theorem lookupOffset_eq_timeAt (t0 : Rat) (cs : List BcSnap) (q : Snap) (hwf : wfChanges cs = true)
    (hs : sortedSnaps cs = true) (hq : queryOk cs q = true) :
    lookupOffset (cs.zip (tmOf t0 cs)).reverse q = .ok (timeAt t0 cs q) := by
  cases cs with
  | nil => simp [queryOk] at hq
  | cons c rest =>
    simp only [queryOk, Bool.and_eq_true, decide_eq_true_eq] at hq
    have hpw : ((c, (⟨c.bpm, c.met, t0⟩ : BcOff)) :: rest.zip (tmTail t0 c rest)).Pairwise
        (fun a b => a.1.snap.le b.1.snap = true) := by
      have := pairwise_zip_fst (sortedSnaps_pairwise hs) (tmOf t0 (c :: rest))
      simpa [tmOf] using this
    obtain ⟨tl, htl⟩ := dropWhile_reverse_active (c, ⟨c.bpm, c.met, t0⟩) (rest.zip (tmTail t0 c rest)) q hpw hq.1
    have hmem := activeFwd_mem (c, (⟨c.bpm, c.met, t0⟩ : BcOff)) (rest.zip (tmTail t0 c rest)) q
    have hle := activeFwd_le (c, (⟨c.bpm, c.met, t0⟩ : BcOff)) (rest.zip (tmTail t0 c rest)) q hq.1
    have hT := timeAtAux_eq_active t0 c rest q
    generalize activeFwd (c, (⟨c.bpm, c.met, t0⟩ : BcOff)) (rest.zip (tmTail t0 c rest)) q = p at htl hmem hle hT
    have hpc : p.1 ∈ c :: rest := by
      rcases List.mem_cons.mp hmem with rfl | h
      · exact List.mem_cons_self
      · exact List.mem_cons_of_mem _ (List.of_mem_zip (a := p.1) (b := p.2) h).1
    have wp := wfChanges_mem hwf hpc
    obtain ⟨d, hd, hoff, _⟩ := Snap.sub_spec p.1.bpm wp.met_tie wp.met_pos hle hq.2 (le_of_lt wp.beat_lt)
    unfold lookupOffset
    simp only [tmOf, List.zip_cons_cons]
    rw [htl]
    obtain ⟨bcs, bco⟩ := p
    simp only [hd, bind, Except.bind, timeAt, hT, hoff]

/-! ### the stored times are `timeAt` at the change points -/

theorem Snap.eqv_of_le_le {a b : Snap} (h1 : a.le b = true) (h2 : b.le a = true) :
    a.measure = b.measure ∧ a.beat = b.beat := by
  simp only [Snap.le, Snap.lt, Snap.eqv, Bool.or_eq_true, Bool.and_eq_true, decide_eq_true_eq] at *
  grind

theorem snapDist_self_of_eq {a b : Snap} (M : Rat) (h : a.measure = b.measure ∧ a.beat = b.beat) :
    snapDist a b M = 0 := by
  unfold snapDist; rw [h.1, h.2]; simp

/-- at a position equal to the current change's, the integration has not advanced -/
theorem timeAtAux_at_cur (T : Rat) (cur : BcSnap) (rest : List BcSnap) (s : Snap)
    (hs : sortedSnaps (cur :: rest) = true) (h1 : cur.snap.le s = true) (h2 : s.le cur.snap = true) :
    timeAtAux T cur rest s = T := by
  induction rest generalizing T cur with
  | nil => simp [timeAtAux, snapDist_self_of_eq cur.met (Snap.eqv_of_le_le h1 h2)]
  | cons n rest ih =>
    simp only [timeAtAux]
    split
    · rename_i hn
      have hcn : cur.snap.le n.snap = true := sortedSnaps_head_le hs n List.mem_cons_self
      have hnc : n.snap.le cur.snap = true := Snap.le_trans hn h2
      rw [snapDist_self_of_eq cur.met (Snap.eqv_of_le_le hcn hnc)]
      simp only [zero_mul, add_zero]
      exact ih T n (sortedSnaps_tail hs) hn (Snap.le_trans h2 hcn)
    · simp [snapDist_self_of_eq cur.met (Snap.eqv_of_le_le h1 h2)]

theorem timeAtAux_changes (T : Rat) (cur : BcSnap) (rest : List BcSnap) (hs : sortedSnaps (cur :: rest) = true) :
    (cur :: rest).map (fun c => timeAtAux T cur rest c.snap) = T :: (tmTail T cur rest).map (·.offset) := by
  induction rest generalizing T cur with
  | nil => simp [timeAtAux, tmTail, snapDist]
  | cons n rest ih =>
    have hcn : cur.snap.le n.snap = true := sortedSnaps_head_le hs n List.mem_cons_self
    have hall := sortedSnaps_head_le (sortedSnaps_tail hs)
    rw [List.map_cons, timeAtAux_at_cur T cur (n :: rest) cur.snap hs (Snap.le_refl _) (Snap.le_refl _)]
    congr 1
    have := ih (T + snapDist cur.snap n.snap cur.met * beatLen cur.bpm) n (sortedSnaps_tail hs)
    have e : (tmTail T cur (n :: rest)).map (·.offset) = (T + snapDist cur.snap n.snap cur.met * beatLen cur.bpm) ::
        (tmTail (T + snapDist cur.snap n.snap cur.met * beatLen cur.bpm) n rest).map (·.offset) := by
      simp [tmTail]
    rw [e, ← this]
    apply List.map_congr_left
    intro c hc
    have hnc : n.snap.le c.snap = true := by
      rcases List.mem_cons.mp hc with rfl | hc
      · exact Snap.le_refl _
      · exact hall c hc
    simp only [timeAtAux, hnc, if_true]

theorem tmOf_offsets_eq_changeTimes (t0 : Rat) (cs : List BcSnap) (_hwf : wfChanges cs = true)
    (hs : sortedSnaps cs = true) : (tmOf t0 cs).map (·.offset) = changeTimes t0 cs := by
  cases cs with
  | nil => rfl
  | cons c rest =>
    unfold changeTimes
    simp only [timeAt, tmOf, List.map_cons]
    exact (timeAtAux_changes t0 c rest hs).symm

end Reamber.Timing
