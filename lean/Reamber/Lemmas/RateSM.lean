/-
C13 — a rate change seen by the timing kernel: with the initial offset divided by `r > 0` and every tempo multiplied
by `r`, times scale by `1/r` and **beat positions do not move** — declaratively (`timeAt`, `beatAt`, `OnGridAt`),
for the stored tempo map (`tmOf`), and for `TimingMap.beats` as executed (via C10's `beats_run_exact`).
-/
import Reamber.Props.C10
import Mathlib.Tactic.Ring
import Mathlib.Tactic.Linarith
import Mathlib.Tactic.FieldSimp
import Mathlib.Algebra.Order.Field.Rat

namespace Reamber.Rate

open Reamber.Timing

/-- tempo change with the tempo multiplied by `r` (position and metronome kept) -/
def rateBc (r : Rat) (c : BcSnap) : BcSnap := { c with bpm := c.bpm * r }

/-- stored tempo point of the rated chart -/
def rateBcOff (r : Rat) (b : BcOff) : BcOff := ⟨b.bpm * r, b.met, b.offset / r⟩

theorem beatLen_rate (b r : Rat) : beatLen (b * r) = beatLen b / r := by
  simp only [beatLen]; rw [div_mul_eq_div_div]

theorem seg_rate (T d bl r : Rat) : T / r + d * (bl / r) = (T + d * bl) / r := by ring

theorem le_div_iff_rate {r : Rat} (hr : 0 < r) (a b : Rat) : a / r ≤ b / r ↔ a ≤ b :=
  div_le_div_iff_of_pos_right hr

theorem timeAtAux_rate (r : Rat) (rest : List BcSnap) (T : Rat) (cur : BcSnap) (s : Snap) :
    timeAtAux (T / r) (rateBc r cur) (rest.map (rateBc r)) s = timeAtAux T cur rest s / r := by
  induction rest generalizing T cur with
  | nil =>
    simp only [List.map_nil, timeAtAux, rateBc, beatLen_rate]
    ring
  | cons nxt rest ih =>
    simp only [List.map_cons, timeAtAux]
    have e : (rateBc r nxt).snap = nxt.snap := rfl
    rw [e]
    split
    · have : T / r + snapDist (rateBc r cur).snap nxt.snap (rateBc r cur).met * beatLen (rateBc r cur).bpm
          = (T + snapDist cur.snap nxt.snap cur.met * beatLen cur.bpm) / r := by
        simp only [rateBc, beatLen_rate]; ring
      rw [this, ih]
    · simp only [rateBc, beatLen_rate]
      ring

/-- beat positions are untouched by a rate change -/
theorem beatAtAux_rate {r : Rat} (hr : 0 < r) (rest : List BcSnap) (T B : Rat) (cur : BcSnap) (t : Rat)
    (hb : cur.bpm ≠ 0) (hbs : ∀ c ∈ rest, c.bpm ≠ 0) :
    beatAtAux (T / r) B (rateBc r cur) (rest.map (rateBc r)) (t / r) = beatAtAux T B cur rest t := by
  have hbl : beatLen cur.bpm ≠ 0 := by
    simp only [beatLen, minToMsec]; exact div_ne_zero (by norm_num) hb
  have hlast : B + (t / r - T / r) / beatLen (rateBc r cur).bpm = B + (t - T) / beatLen cur.bpm := by
    simp only [rateBc, beatLen_rate]
    have : r ≠ 0 := ne_of_gt hr
    field_simp
  induction rest generalizing T B cur with
  | nil => simpa only [List.map_nil, beatAtAux] using hlast
  | cons n rest ih =>
    simp only [List.map_cons, beatAtAux]
    have e : (rateBc r n).snap = n.snap := rfl
    have hseg : T / r + snapDist (rateBc r cur).snap n.snap (rateBc r cur).met * beatLen (rateBc r cur).bpm
        = (T + snapDist cur.snap n.snap cur.met * beatLen cur.bpm) / r := by
      simp only [rateBc, beatLen_rate]; ring
    rw [e, hseg]
    by_cases hc : T + snapDist cur.snap n.snap cur.met * beatLen cur.bpm ≤ t
    · have hc' := (le_div_iff_rate hr _ _).mpr hc
      simp only [hc, hc', if_true]
      have hn : n.bpm ≠ 0 := hbs n (by simp)
      have hbln : beatLen n.bpm ≠ 0 := by
        simp only [beatLen, minToMsec]; exact div_ne_zero (by norm_num) hn
      have := ih (T + snapDist cur.snap n.snap cur.met * beatLen cur.bpm) (B + snapDist cur.snap n.snap cur.met) n hn
        (fun c hc => hbs c (by simp [hc])) hbln
        (by
          simp only [rateBc, beatLen_rate]
          have : r ≠ 0 := ne_of_gt hr
          field_simp)
      simpa [rateBc] using this
    · have hc' : ¬ (T + snapDist cur.snap n.snap cur.met * beatLen cur.bpm) / r ≤ t / r :=
        fun h => hc ((le_div_iff_rate hr _ _).mp h)
      simp only [hc, hc', if_false]
      exact hlast

theorem onGridAux_rate {r : Rat} (hr : 0 < r) (g : List Rat) (rest : List BcSnap) (T : Rat) (cur : BcSnap) (t : Rat)
    (hb : cur.bpm ≠ 0) (hbs : ∀ c ∈ rest, c.bpm ≠ 0) :
    onGridAux g (T / r) (rateBc r cur) (rest.map (rateBc r)) (t / r) ↔ onGridAux g T cur rest t := by
  have key : ∀ (cur : BcSnap), cur.bpm ≠ 0 → ∀ T : Rat,
      (t / r - T / r) / beatLen (rateBc r cur).bpm = (t - T) / beatLen cur.bpm := by
    intro cur hb T
    have hbl : beatLen cur.bpm ≠ 0 := by
      simp only [beatLen, minToMsec]; exact div_ne_zero (by norm_num) hb
    simp only [rateBc, beatLen_rate]
    have : r ≠ 0 := ne_of_gt hr
    field_simp
  induction rest generalizing T cur with
  | nil => simp only [List.map_nil, onGridAux, key cur hb T]
  | cons n rest ih =>
    simp only [List.map_cons, onGridAux]
    have e : (rateBc r n).snap = n.snap := rfl
    have hseg : T / r + snapDist (rateBc r cur).snap n.snap (rateBc r cur).met * beatLen (rateBc r cur).bpm
        = (T + snapDist cur.snap n.snap cur.met * beatLen cur.bpm) / r := by
      simp only [rateBc, beatLen_rate]; ring
    rw [e, hseg]
    by_cases hc : T + snapDist cur.snap n.snap cur.met * beatLen cur.bpm ≤ t
    · have hc' := (le_div_iff_rate hr _ _).mpr hc
      simp only [hc, hc', if_true]
      have := ih (T + snapDist cur.snap n.snap cur.met * beatLen cur.bpm) n (hbs n (by simp))
        (fun c hc => hbs c (by simp [hc]))
      simpa [rateBc] using this
    · have hc' : ¬ (T + snapDist cur.snap n.snap cur.met * beatLen cur.bpm) / r ≤ t / r :=
        fun h => hc ((le_div_iff_rate hr _ _).mp h)
      simp only [hc, hc', if_false]
      rw [key cur hb T]

theorem tmTail_rate (r : Rat) (rest : List BcSnap) (T : Rat) (cur : BcSnap) :
    tmTail (T / r) (rateBc r cur) (rest.map (rateBc r)) = (tmTail T cur rest).map (rateBcOff r) := by
  induction rest generalizing T cur with
  | nil => rfl
  | cons n rest ih =>
    simp only [List.map_cons, tmTail]
    have e : (rateBc r n).snap = n.snap := rfl
    have hseg : T / r + snapDist (rateBc r cur).snap n.snap (rateBc r cur).met * beatLen (rateBc r cur).bpm
        = (T + snapDist cur.snap n.snap cur.met * beatLen cur.bpm) / r := by
      simp only [rateBc, beatLen_rate]; ring
    rw [e, hseg, ih]
    simp [rateBcOff, rateBc]

/-- the stored tempo map of the rated chart is the rated stored tempo map -/
theorem tmOf_rate (r t0 : Rat) (cs : List BcSnap) :
    tmOf (t0 / r) (cs.map (rateBc r)) = (tmOf t0 cs).map (rateBcOff r) := by
  cases cs with
  | nil => rfl
  | cons c rest =>
    simp only [List.map_cons, tmOf, tmTail_rate]
    simp [rateBcOff, rateBc]

/-! ### C10's domain is preserved (positions and metronomes are untouched, tempos stay positive for `r > 0`) -/

theorem wfChanges_rate {r : Rat} (hr : 0 < r) (cs : List BcSnap) (h : wfChanges cs = true) :
    wfChanges (cs.map (rateBc r)) = true := by
  simp only [wfChanges, List.all_eq_true, List.mem_map] at h ⊢
  rintro c ⟨c0, hc0, rfl⟩
  have := h c0 hc0
  simp only [wfChange, Bool.and_eq_true] at this ⊢
  obtain ⟨⟨⟨⟨⟨⟨h1, h2⟩, h3⟩, h4⟩, h5⟩, h6⟩, h7⟩ := this
  refine ⟨⟨⟨⟨⟨⟨h1, h2⟩, h3⟩, ?_⟩, h5⟩, h6⟩, h7⟩
  exact decide_eq_true (mul_pos (of_decide_eq_true h4) hr)

theorem sortedSnaps_rate (r : Rat) : ∀ cs : List BcSnap, sortedSnaps (cs.map (rateBc r)) = sortedSnaps cs
  | [] => rfl
  | [_] => rfl
  | a :: b :: rest => by
    have := sortedSnaps_rate r (b :: rest)
    simp only [List.map_cons, sortedSnaps] at this ⊢
    rw [this]; rfl

theorem firstAtZero_rate (r : Rat) (cs : List BcSnap) : firstAtZero (cs.map (rateBc r)) = firstAtZero cs := by
  cases cs <;> rfl

theorem gridCompatible_rate (r : Rat) (g : List Rat) : ∀ cs : List BcSnap,
    gridCompatible g (cs.map (rateBc r)) = gridCompatible g cs
  | [] => rfl
  | [_] => rfl
  | a :: b :: rest => by
    have := gridCompatible_rate r g (b :: rest)
    simp only [List.map_cons, gridCompatible] at this ⊢
    rw [this]; rfl

theorem metronomeOk_rate (r : Rat) : ∀ cs : List BcSnap, metronomeOk (cs.map (rateBc r)) = metronomeOk cs
  | [] => rfl
  | [_] => rfl
  | a :: b :: rest => by
    have := metronomeOk_rate r (b :: rest)
    simp only [List.map_cons, metronomeOk] at this ⊢
    rw [this]; rfl

theorem bpm_ne_zero_of_wf {cs : List BcSnap} (h : wfChanges cs = true) : ∀ c ∈ cs, c.bpm ≠ 0 := by
  intro c hc
  simp only [wfChanges, List.all_eq_true] at h
  have := h c hc
  simp only [wfChange, Bool.and_eq_true, decide_eq_true_eq] at this
  exact ne_of_gt this.1.1.1.2

theorem beatAt_rate {r : Rat} (hr : 0 < r) (t0 : Rat) (cs : List BcSnap) (hwf : wfChanges cs = true) (t : Rat) :
    beatAt (t0 / r) (cs.map (rateBc r)) (t / r) = beatAt t0 cs t := by
  cases cs with
  | nil => rfl
  | cons c rest =>
    have hb := bpm_ne_zero_of_wf hwf
    exact beatAtAux_rate hr rest t0 0 c t (hb c (by simp)) (fun x hx => hb x (by simp [hx]))

theorem onGridAt_rate {r : Rat} (hr : 0 < r) (g : List Rat) (t0 : Rat) (cs : List BcSnap) (hwf : wfChanges cs = true)
    (t : Rat) : OnGridAt g (t0 / r) (cs.map (rateBc r)) (t / r) ↔ OnGridAt g t0 cs t := by
  cases cs with
  | nil => simp [OnGridAt]
  | cons c rest =>
    have hb := bpm_ne_zero_of_wf hwf
    simp only [List.map_cons, OnGridAt, le_div_iff_rate hr,
      onGridAux_rate hr g rest t0 c t (hb c (by simp)) (fun x hx => hb x (by simp [hx]))]

/-- **`TimingMap.beats` is invariant under a rate change** (as executed, in C10's domain): the beats computed for
the rated times against the rated tempo map are the beats computed for the original times against the original map. -/
theorem beats_rate {r : Rat} (hr : 0 < r) (t0 : Rat) (cs : List BcSnap)
    (hwf : wfChanges cs = true) (hs : sortedSnaps cs = true) (h0 : firstAtZero cs = true)
    (hgc : gridCompatible (grid defaultMaxDiv) cs = true) (hm : metronomeOk cs = true)
    (M : Rat) (hM : ∀ c ∈ cs, c.met = M) (ts : List Rat) (hts : ∀ t ∈ ts, OnGridAt (grid defaultMaxDiv) t0 cs t) :
    beats defaultGrid ((tmOf t0 cs).map (rateBcOff r)) (ts.map (· / r)) = beats defaultGrid (tmOf t0 cs) ts := by
  have hg : defaultGrid.toList = grid defaultMaxDiv := by simp [defaultGrid]
  have e1 := beats_run_exact defaultGrid (gridOK_grid (by decide)) t0 cs hwf hs h0 (by rw [hg]; exact hgc) hm M hM ts
    (by rw [hg]; exact hts)
  have e2 := beats_run_exact defaultGrid (gridOK_grid (by decide)) (t0 / r) (cs.map (rateBc r)) (wfChanges_rate hr cs hwf)
      (by rw [sortedSnaps_rate]; exact hs) (by rw [firstAtZero_rate]; exact h0)
      (by rw [hg, gridCompatible_rate]; exact hgc) (by rw [metronomeOk_rate]; exact hm) M
      (by
        intro c hc
        simp only [List.mem_map] at hc
        obtain ⟨c0, hc0, rfl⟩ := hc
        exact hM c0 hc0)
      (ts.map (· / r))
      (by
        intro t ht
        simp only [List.mem_map] at ht
        obtain ⟨t1, ht1, rfl⟩ := ht
        rw [hg]
        exact (onGridAt_rate hr _ t0 cs hwf t1).mpr (hts t1 ht1))
  refine (congrArg (fun tm => beats defaultGrid tm (ts.map (· / r))) (tmOf_rate r t0 cs).symm).trans
    (e2.trans (Eq.trans ?_ e1.symm))
  refine congrArg Except.ok ?_
  rw [List.map_map]
  exact List.map_congr_left (fun t _ => beatAt_rate hr t0 cs hwf t)

end Reamber.Rate
