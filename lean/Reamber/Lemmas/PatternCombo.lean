/-
C20 — lemmas about the combination side: cartesian product, permutations, sliding chunks, the positional
hash of the column filter, min/max and ranges used by the option expansions.
-/
import Reamber.Spec.Pattern

namespace Reamber.Pattern

/-! ### cartesian product -/

/-- `s` takes one element from each list, in order -/
def OneEach {α} : List α → List (List α) → Prop
  | [], [] => True
  | a :: s, l :: ls => a ∈ l ∧ OneEach s ls
  | _, _ => False

theorem mem_product {α} (s : List α) (ls : List (List α)) : s ∈ product ls ↔ OneEach s ls := by
  induction ls generalizing s with
  | nil => cases s <;> simp [product, OneEach]
  | cons l ls ih =>
    simp only [product, List.mem_flatMap, List.mem_map]
    constructor
    · rintro ⟨a, ha, t, ht, rfl⟩
      exact ⟨ha, (ih t).mp ht⟩
    · intro h
      cases s with
      | nil => simp [OneEach] at h
      | cons a t => exact ⟨a, h.1, t, (ih t).mpr h.2, rfl⟩

theorem takesOneEach_iff (s : List Row) (ch : List (List Row)) : takesOneEach s ch = true ↔ OneEach s ch := by
  induction ch generalizing s with
  | nil => cases s <;> simp [takesOneEach, OneEach]
  | cons g gs ih =>
    cases s with
    | nil => simp [takesOneEach, OneEach]
    | cons r t => simp [takesOneEach, OneEach, ih t]

theorem OneEach.length_eq {α} {s : List α} {ls : List (List α)} (h : OneEach s ls) : s.length = ls.length := by
  induction ls generalizing s with
  | nil => cases s <;> simp_all [OneEach]
  | cons l ls ih =>
    cases s with
    | nil => simp [OneEach] at h
    | cons a t => simp [ih h.2]

/-! ### permutations -/

theorem mem_inserts {α} (x : α) (ys l : List α) :
    l ∈ inserts x ys ↔ ∃ a b, ys = a ++ b ∧ l = a ++ x :: b := by
  induction ys generalizing l with
  | nil =>
    simp only [inserts, List.mem_singleton]
    constructor
    · rintro rfl; exact ⟨[], [], rfl, rfl⟩
    · rintro ⟨a, b, hab, rfl⟩
      have h := List.append_eq_nil_iff.mp hab.symm
      rw [h.1, h.2]; rfl
  | cons y ys ih =>
    simp only [inserts, List.mem_cons, List.mem_map]
    constructor
    · rintro (rfl | ⟨l', hl', rfl⟩)
      · exact ⟨[], y :: ys, rfl, rfl⟩
      · obtain ⟨a, b, rfl, rfl⟩ := (ih l').mp hl'
        exact ⟨y :: a, b, rfl, rfl⟩
    · rintro ⟨a, b, hab, rfl⟩
      cases a with
      | nil => left; simp at hab; rw [← hab]; rfl
      | cons a0 a' =>
        right
        simp only [List.cons_append, List.cons.injEq] at hab
        obtain ⟨rfl, rfl⟩ := hab
        exact ⟨a' ++ x :: b, (ih _).mpr ⟨a', b, rfl, rfl⟩, rfl⟩

/-- `perms t` lists exactly the rearrangements of `t` -/
theorem mem_perms {α} (s t : List α) : s ∈ perms t ↔ s.Perm t := by
  induction t generalizing s with
  | nil => simp [perms]
  | cons x xs ih =>
    simp only [perms, List.mem_flatMap]
    constructor
    · rintro ⟨p, hp, hs⟩
      obtain ⟨a, b, rfl, rfl⟩ := (mem_inserts x p s).mp hs
      exact List.perm_middle.trans (((ih _).mp hp).cons x)
    · intro h
      have hx : x ∈ s := h.symm.subset (List.mem_cons_self ..)
      obtain ⟨a, b, rfl⟩ := List.append_of_mem hx
      have h' : (a ++ b).Perm xs := (List.perm_middle.symm.trans h).cons_inv
      exact ⟨a ++ b, (ih _).mpr h', (mem_inserts x _ _).mpr ⟨a, b, rfl, rfl⟩⟩

/-! ### combinations -/

/-- **none missing, none extra**: a sequence is reported iff it is allowed. Holds for arbitrary filter callables. -/
theorem mem_combinations_iff (gs : List (List Row)) (n : Nat) (F : Filters) (s : List Row) :
    s ∈ (combinations gs n F).flatten ↔ allowed gs n F s = true := by
  simp only [combinations, allowed, windowsOf, List.mem_flatten, List.mem_filter, List.mem_map, List.mem_range,
    List.any_eq_true, Bool.and_eq_true]
  constructor
  · rintro ⟨c, ⟨⟨ch, ⟨⟨i, hi, rfl⟩, hch⟩, rfl⟩, _⟩, hs⟩
    simp only [List.mem_filter] at hs
    exact ⟨i, hi, ⟨⟨⟨(takesOneEach_iff _ _).mpr ((mem_product _ _).mp hs.1.1), hch⟩, hs.1.2⟩, hs.2⟩⟩
  · rintro ⟨i, hi, ⟨⟨⟨h1, h2⟩, h3⟩, h4⟩⟩
    have hmem : s ∈ ((product ((gs.drop i).take n)).filter (comboOk F)).filter (typeOk F) := by
      simp only [List.mem_filter]
      exact ⟨⟨(mem_product _ _).mpr ((takesOneEach_iff _ _).mp h1), h3⟩, h4⟩
    refine ⟨_, ⟨⟨_, ⟨⟨i, hi, rfl⟩, h2⟩, rfl⟩, ?_⟩, hmem⟩
    cases hc : ((product ((gs.drop i).take n)).filter (comboOk F)).filter (typeOk F) with
    | nil => rw [hc] at hmem; simp at hmem
    | cons _ _ => simp

/-- the unfiltered enumeration used by `combosSpec` misses no allowed sequence -/
theorem allowed_mem_candidates (gs : List (List Row)) (n : Nat) (F : Filters) (s : List Row)
    (h : allowed gs n F s = true) : s ∈ candidates gs n := by
  simp only [allowed, List.any_eq_true, List.mem_range, Bool.and_eq_true] at h
  obtain ⟨i, hi, ⟨⟨⟨h1, _⟩, _⟩, _⟩⟩ := h
  simp only [candidates, windowsOf, List.mem_flatMap, List.mem_map, List.mem_range]
  exact ⟨_, ⟨i, hi, rfl⟩, (mem_product _ _).mpr ((takesOneEach_iff _ _).mp h1)⟩

/-! ### the positional hash -/

theorem hash_step_inj (k a1 a2 c1 c2 : Int) (h1 : 0 ≤ c1) (h1' : c1 < k) (h2 : 0 ≤ c2) (h2' : c2 < k)
    (h : a1 * k + c1 = a2 * k + c2) : a1 = a2 ∧ c1 = c2 := by
  have hk : 0 < k := by omega
  have e1 : (a1 * k + c1) % k = c1 := by
    rw [Int.add_comm, Int.add_mul_emod_self_right, Int.emod_eq_of_lt h1 h1']
  have e2 : (a2 * k + c2) % k = c2 := by
    rw [Int.add_comm, Int.add_mul_emod_self_right, Int.emod_eq_of_lt h2 h2']
  have hc : c1 = c2 := by rw [← e1, ← e2, h]
  subst hc
  have : a1 * k = a2 * k := by omega
  exact ⟨Int.eq_of_mul_eq_mul_right (by omega) this, rfl⟩

theorem foldl_hash_inj (k : Int) (l1 l2 : List Int) (a1 a2 : Int) (hlen : l1.length = l2.length)
    (hr1 : inRange k l1 = true) (hr2 : inRange k l2 = true)
    (h : l1.foldl (fun acc c => acc * k + c) a1 = l2.foldl (fun acc c => acc * k + c) a2) : a1 = a2 ∧ l1 = l2 := by
  induction l1 generalizing l2 a1 a2 with
  | nil =>
    cases l2 with
    | nil => simpa using h
    | cons _ _ => simp at hlen
  | cons c1 t1 ih =>
    cases l2 with
    | nil => simp at hlen
    | cons c2 t2 =>
      simp only [inRange, List.all_cons, Bool.and_eq_true, decide_eq_true_eq] at hr1 hr2
      simp only [List.foldl_cons] at h
      obtain ⟨hacc, ht⟩ := ih t2 (a1 * k + c1) (a2 * k + c2) (by simpa using hlen)
        (by simpa [inRange] using hr1.2) (by simpa [inRange] using hr2.2) h
      obtain ⟨ha, hc⟩ := hash_step_inj k a1 a2 c1 c2 hr1.1.1 hr1.1.2 hr2.1.1 hr2.1.2 hacc
      exact ⟨ha, by rw [hc, ht]⟩

/-- `combo_hash_injective`: on rows of equal length over the columns `0..keys-1` the hash determines the row -/
theorem hashCols_inj (k : Int) (l1 l2 : List Int) (hlen : l1.length = l2.length)
    (hr1 : inRange k l1 = true) (hr2 : inRange k l2 = true) (h : hashCols k l1 = hashCols k l2) : l1 = l2 :=
  (foldl_hash_inj k l1 l2 0 0 hlen hr1 hr2 h).2

theorem contains_map_hash (k : Int) (ar : List (List Int)) (data : List Int)
    (har : ∀ r ∈ ar, r.length = data.length ∧ inRange k r = true) (hd : inRange k data = true) :
    (ar.map (hashCols k)).contains (hashCols k data) = ar.contains data := by
  induction ar with
  | nil => rfl
  | cons r t ih =>
    have ht := ih (fun r hr => har r (List.mem_cons_of_mem _ hr))
    obtain ⟨hl, hr⟩ := har r (List.mem_cons_self ..)
    simp only [List.map_cons, List.contains_cons, ht]
    by_cases he : data = r
    · subst he; simp
    · have : hashCols k data ≠ hashCols k r := fun hh => he (hashCols_inj k data r hl.symm hd hr hh)
      rw [beq_eq_false_iff_ne.mpr he, beq_eq_false_iff_ne.mpr this]

theorem any_beq_eq_contains (ar : List (List Int)) (x : List Int) : ar.any (fun r => r == x) = ar.contains x := by
  induction ar with
  | nil => rfl
  | cons r t ih =>
    simp only [List.any_cons, List.contains_cons, ih]
    by_cases h : r = x
    · subst h; simp
    · have : ¬ x = r := fun e => h e.symm
      rw [beq_eq_false_iff_ne.mpr h, beq_eq_false_iff_ne.mpr this]

theorem typeRowMatch_eq_subRow (tys tf : List Ty) (h : tf.length = tys.length) : typeRowMatch tys tf = subRow tys tf := by
  induction tys generalizing tf with
  | nil =>
    cases tf with
    | nil => rfl
    | cons _ _ => simp at h
  | cons d ds ih =>
    cases tf with
    | nil => simp at h
    | cons c cs => simp [typeRowMatch, subRow, ih cs (by simpa using h)]

/-! ### min / max / ranges -/

theorem foldl_min_spec (t : List Int) (a : Int) :
    t.foldl min a ≤ a ∧ (∀ x ∈ t, t.foldl min a ≤ x) ∧ (t.foldl min a = a ∨ t.foldl min a ∈ t) := by
  induction t generalizing a with
  | nil => simp
  | cons b t ih =>
    obtain ⟨h1, h2, h3⟩ := ih (min a b)
    simp only [List.foldl_cons, List.mem_cons]
    refine ⟨by omega, ?_, ?_⟩
    · rintro x (rfl | hx)
      · omega
      · exact h2 x hx
    · rcases h3 with h3 | h3
      · rcases Int.le_total a b with hab | hab
        · left; rw [h3]; omega
        · right; left; rw [h3]; omega
      · right; right; exact h3

theorem foldl_max_spec (t : List Int) (a : Int) :
    a ≤ t.foldl max a ∧ (∀ x ∈ t, x ≤ t.foldl max a) ∧ (t.foldl max a = a ∨ t.foldl max a ∈ t) := by
  induction t generalizing a with
  | nil => simp
  | cons b t ih =>
    obtain ⟨h1, h2, h3⟩ := ih (max a b)
    simp only [List.foldl_cons, List.mem_cons]
    refine ⟨by omega, ?_, ?_⟩
    · rintro x (rfl | hx)
      · omega
      · exact h2 x hx
    · rcases h3 with h3 | h3
      · rcases Int.le_total a b with hab | hab
        · right; left; rw [h3]; omega
        · left; rw [h3]; omega
      · right; right; exact h3

theorem lmin_le (c : List Int) (x : Int) (hx : x ∈ c) : lmin c ≤ x := by
  cases c with
  | nil => simp at hx
  | cons a t =>
    obtain ⟨h1, h2, _⟩ := foldl_min_spec t a
    rcases List.mem_cons.mp hx with rfl | hx
    · exact h1
    · exact h2 x hx

theorem lmin_mem (c : List Int) (hc : c ≠ []) : lmin c ∈ c := by
  cases c with
  | nil => exact absurd rfl hc
  | cons a t =>
    obtain ⟨_, _, h3⟩ := foldl_min_spec t a
    rcases h3 with h3 | h3
    · simp [lmin, h3]
    · exact List.mem_cons_of_mem _ h3

theorem le_lmax (c : List Int) (x : Int) (hx : x ∈ c) : x ≤ lmax c := by
  cases c with
  | nil => simp at hx
  | cons a t =>
    obtain ⟨h1, h2, _⟩ := foldl_max_spec t a
    rcases List.mem_cons.mp hx with rfl | hx
    · exact h1
    · exact h2 x hx

theorem lmax_mem (c : List Int) (hc : c ≠ []) : lmax c ∈ c := by
  cases c with
  | nil => exact absurd rfl hc
  | cons a t =>
    obtain ⟨_, _, h3⟩ := foldl_max_spec t a
    rcases h3 with h3 | h3
    · simp [lmax, h3]
    · exact List.mem_cons_of_mem _ h3

theorem mem_arange (n d : Int) : d ∈ arange n ↔ 0 ≤ d ∧ d < n := by
  simp only [arange, List.mem_map, List.mem_range]
  constructor
  · rintro ⟨i, hi, rfl⟩
    constructor
    · exact Int.natCast_nonneg i
    · show (i : Int) < n
      omega
  · rintro ⟨h0, h1⟩
    exact ⟨d.toNat, by omega, by show ((d.toNat : Nat) : Int) = d; omega⟩

theorem mem_rangeIncl (a b x : Int) : x ∈ rangeIncl a b ↔ a ≤ x ∧ x ≤ b := by
  simp only [rangeIncl, List.mem_map, mem_arange]
  constructor
  · rintro ⟨d, ⟨h0, h1⟩, rfl⟩; omega
  · rintro ⟨h0, h1⟩; exact ⟨x - a, ⟨by omega, by omega⟩, by omega⟩

theorem inRange_iff (k : Int) (l : List Int) : inRange k l = true ↔ ∀ x ∈ l, 0 ≤ x ∧ x < k := by
  simp [inRange]

/-- REPEAT: the expansion of one base row is exactly its sideways translations that stay inside the `keys` columns -/
theorem mem_repeatExpand (keys : Int) (c row : List Int) (hc : c ≠ []) :
    row ∈ repeatExpand keys c ↔ isTranslate keys c row = true := by
  simp only [repeatExpand, List.mem_map, mem_arange]
  cases c with
  | nil => exact absurd rfl hc
  | cons b0 bt =>
    have hmn_le := lmin_le (b0 :: bt)
    have hmx_ge := le_lmax (b0 :: bt)
    have hmn_mem := lmin_mem (b0 :: bt) hc
    have hmx_mem := lmax_mem (b0 :: bt) hc
    constructor
    · rintro ⟨d, ⟨hd0, hd1⟩, rfl⟩
      simp only [List.map_cons, isTranslate, Bool.and_eq_true, beq_iff_eq]
      refine ⟨?_, ?_⟩
      · have : b0 + (d - lmin (b0 :: bt)) - b0 = d - lmin (b0 :: bt) := by omega
        simp [this]
      · rw [← List.map_cons (f := fun x => x + (d - lmin (b0 :: bt))), inRange_iff]
        intro y hy
        obtain ⟨x, hx, rfl⟩ := List.mem_map.mp hy
        have := hmn_le x hx
        have := hmx_ge x hx
        omega
    · intro h
      cases row with
      | nil => simp [isTranslate] at h
      | cons r0 rt =>
        simp only [isTranslate, Bool.and_eq_true, beq_iff_eq] at h
        obtain ⟨heq, hin⟩ := h
        rw [inRange_iff] at hin
        have hmem : ∀ x ∈ (b0 :: bt), 0 ≤ x + (r0 - b0) ∧ x + (r0 - b0) < keys := by
          intro x hx
          apply hin
          rw [heq]
          exact List.mem_map.mpr ⟨x, hx, rfl⟩
        have h1 := hmem _ hmn_mem
        have h2 := hmem _ hmx_mem
        refine ⟨(r0 - b0) + lmin (b0 :: bt), ⟨by omega, by omega⟩, ?_⟩
        rw [heq]
        apply List.map_congr_left
        intro x _
        omega

end Reamber.Pattern
