/-
C09 glue between C08's frames and the abstract chart: the rows `contentOk` speaks about (projected cells) decoded to
`AChart` rows, and what `contentOk` then says about them.
-/
import Reamber.Lemmas.Pipeline
import Reamber.Spec.Convert

namespace Reamber.Pipeline

open Reamber.Convert

/-- a projected `(offset, column)` row as an abstract hit; the column cell is a number (pandas int column) -/
def decodeHit : List Cell → Option AHit
  | [.num t, .num c] => some (t, c.floor)
  | _ => none

def decodeHold : List Cell → Option AHold
  | [.num t, .num c, .num l] => some (t, c.floor, l)
  | _ => none

def decodeBpm : List Cell → Option ABpm
  | [.num t, .num b] => some (t, b)
  | _ => none

def rowsOfFrame (f : Frame) (ks : List String) : List (List Cell) := (projRows f ks).getD []

/-- the abstract chart held by three frames -/
def ofFrames (hits holds bpms : Frame) : AChart :=
  { hits := (rowsOfFrame hits keysHits).filterMap decodeHit
    holds := (rowsOfFrame holds keysHolds).filterMap decodeHold
    bpms := (rowsOfFrame bpms keysBpms).filterMap decodeBpm }

def ofTChart (t : TChart) : AChart := ofFrames t.hits t.holds t.bpms

def ofSrcMap (m : SrcMap) : AChart :=
  match m.lists.lookup "hits", m.lists.lookup "holds", m.lists.lookup "bpms" with
  | some h, some l, some b => ofFrames h l b
  | _, _, _ => {}

/-- every column moved by `k` -/
def shiftCols (k : Int) (a : AChart) : AChart :=
  { hits := a.hits.map (fun h => (h.1, h.2 + k))
    holds := a.holds.map (fun h => (h.1, h.2.1 + k, h.2.2))
    bpms := a.bpms }

theorem decodeHit_shift (k : Int) (r : List Cell) :
    decodeHit (shiftRow k r) = (decodeHit r).map (fun h => (h.1, h.2 + k)) := by
  match r with
  | [] => rfl
  | [a] => cases a <;> rfl
  | [.num t, .num c] => simp [shiftRow, addCell, decodeHit, Rat.floor_add_intCast]
  | [.num _, .nan] => rfl
  | [.num _, .str _] => rfl
  | [.num _, .bool _] => rfl
  | [.num _, .other _] => rfl
  | [.nan, c] => cases c <;> rfl
  | [.str _, c] => cases c <;> rfl
  | [.bool _, c] => cases c <;> rfl
  | [.other _, c] => cases c <;> rfl
  | a :: b :: c :: rest => cases a <;> cases b <;> rfl

theorem decodeHold_shift (k : Int) (r : List Cell) :
    decodeHold (shiftRow k r) = (decodeHold r).map (fun h => (h.1, h.2.1 + k, h.2.2)) := by
  match r with
  | [] => rfl
  | [a] => cases a <;> rfl
  | [a, b] => cases a <;> cases b <;> rfl
  | [.num t, .num c, .num l] => simp [shiftRow, addCell, decodeHold, Rat.floor_add_intCast]
  | [.num _, .num _, .nan] => rfl
  | [.num _, .num _, .str _] => rfl
  | [.num _, .num _, .bool _] => rfl
  | [.num _, .num _, .other _] => rfl
  | [.num _, .nan, l] => cases l <;> rfl
  | [.num _, .str _, l] => cases l <;> rfl
  | [.num _, .bool _, l] => cases l <;> rfl
  | [.num _, .other _, l] => cases l <;> rfl
  | [.nan, c, l] => cases c <;> cases l <;> rfl
  | [.str _, c, l] => cases c <;> cases l <;> rfl
  | [.bool _, c, l] => cases c <;> cases l <;> rfl
  | [.other _, c, l] => cases c <;> cases l <;> rfl
  | a :: b :: c :: d :: rest => cases a <;> cases b <;> cases c <;> rfl

theorem filterMap_map_shift {α β} (f : α → Option β) (g : α → α) (g' : β → β) (h : ∀ a, f (g a) = (f a).map g') :
    ∀ l : List α, (l.map g).filterMap f = (l.filterMap f).map g'
  | [] => rfl
  | a :: t => by
    simp only [List.map_cons, List.filterMap_cons, h a]
    cases f a with
    | none => simpa using filterMap_map_shift f g g' h t
    | some b => simpa using filterMap_map_shift f g g' h t

/-- what `sameRows` says after decoding: the target's rows are the source's (column shifted), as multisets -/
theorem sameRows_decode {β} (dec : List Cell → Option β) (sh : β → β) (tgt src : Frame) (ks : List String) (k : Int)
    (hdec : ∀ r, dec (shiftRow k r) = (dec r).map sh) (h : sameRows tgt src ks k = true) :
    ((rowsOfFrame tgt ks).filterMap dec).Perm (((rowsOfFrame src ks).filterMap dec).map sh) := by
  unfold sameRows at h
  unfold rowsOfFrame
  cases ht : projRows tgt ks with
  | none => rw [ht] at h; simp at h
  | some rt =>
    cases hs : projRows src ks with
    | none => rw [ht, hs] at h; simp at h
    | some rs =>
      rw [ht, hs] at h
      simp only [Option.getD_some]
      have hp : rt.Perm (rs.map (shiftRow k)) := List.isPerm_iff.mp h
      rw [← filterMap_map_shift dec (shiftRow k) sh hdec rs]
      exact hp.filterMap dec

theorem shiftRow_zero' (r : List Cell) : shiftRow 0 r = r := by
  match r with
  | [] => rfl
  | [_] => rfl
  | o :: c :: rest =>
    cases c <;> simp [shiftRow, addCell]

/-- **`contentOk` on abstract charts**: the converted chart's hits, holds and tempo points are those of the source
map with the columns moved by `k`, as multisets. -/
theorem contentOk_abstract (k : Int) (m : SrcMap) (t : TChart) (h : contentOk k m t = true) :
    (ofTChart t).hits.Perm (shiftCols k (ofSrcMap m)).hits ∧
    (ofTChart t).holds.Perm (shiftCols k (ofSrcMap m)).holds ∧
    (ofTChart t).bpms.Perm (shiftCols k (ofSrcMap m)).bpms := by
  unfold contentOk at h
  unfold ofSrcMap
  cases hh : m.lists.lookup "hits" with
  | none => rw [hh] at h; simp at h
  | some fh =>
    cases hl : m.lists.lookup "holds" with
    | none => rw [hh, hl] at h; simp at h
    | some fl =>
      cases hb : m.lists.lookup "bpms" with
      | none => rw [hh, hl, hb] at h; simp at h
      | some fb =>
        rw [hh, hl, hb] at h
        simp only [Bool.and_eq_true] at h
        obtain ⟨⟨h1, h2⟩, h3⟩ := h
        refine ⟨sameRows_decode decodeHit _ _ _ _ k (decodeHit_shift k) h1,
                sameRows_decode decodeHold _ _ _ _ k (decodeHold_shift k) h2, ?_⟩
        have := sameRows_decode decodeBpm id t.bpms fb keysBpms 0
          (fun r => by rw [shiftRow_zero']; cases decodeBpm r <;> rfl) h3
        simpa [shiftCols, ofTChart, ofFrames] using this

end Reamber.Pipeline
