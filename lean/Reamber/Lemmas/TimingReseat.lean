/-
K1 × C11 — what `reseat` returns is again a tempo list in C10's domain: every point well-formed (in C10's sense),
on a measure line, ascending, first at (0, 0), hence grid-compatible for every valid grid and `metronomeOk`.
Used by `Props/C10.lean: offsets_after_reseat` (the `TimingMap.reseat()` entry point).
-/
import Reamber.Lemmas.ReseatProps
import Reamber.Lemmas.TimingChain

namespace Reamber.Timing

theorem wfChange_mk {bpm met : Rat} {mm : Int} (hden : met.den = 1) (hmet : 0 < met) (hb : 0 < bpm) (hm : 0 ≤ mm) :
    wfChange ⟨bpm, met, ⟨mm, 0, some met⟩⟩ = true := by
  simp [wfChange, hden, hmet, hb, hm]

theorem wfChange_parts {c : BcSnap} (h : wfChange c = true) :
    c.snap.met = some c.met ∧ c.met.den = 1 ∧ 0 < c.met ∧ 0 < c.bpm ∧ 0 ≤ c.snap.measure ∧ 0 ≤ c.snap.beat ∧
      c.snap.beat < c.met := by
  simp only [wfChange, Bool.and_eq_true, decide_eq_true_eq] at h
  obtain ⟨⟨⟨⟨⟨⟨h1, h2⟩, h3⟩, h4⟩, h5⟩, h6⟩, h7⟩ := h
  exact ⟨h1, h2, h3, h4, h5, h6, h7⟩

theorem wfChange_seatAt {nx : BcSnap} {m : Int} (h : wfChange nx = true) (hm : 0 ≤ m) :
    wfChange (seatAt nx m) = true := by
  obtain ⟨h1, h2, h3, h4, _, _, _⟩ := wfChange_parts h
  obtain ⟨bpm, met, ⟨mm, b, sm⟩⟩ := nx
  simp only at h1 h2 h3 h4
  simp [wfChange, seatAt, h1, h2, h3, h4, hm]

/-- the points one interval emits are well-formed and seated, and the next measure does not go back -/
theorem stepRef_wf (thr : Rat) (m : Int) (cur : BcSnap) (D : Rat) (hthr : 0 ≤ thr)
    (hI : IntervalOK thr cur.bpm cur.met D) (hw : wfChange cur = true) (hcm : cur.snap.measure = m)
    (hcb : cur.snap.beat = 0) :
    (∀ x ∈ (stepRef thr m cur D).1, wfChange x = true ∧ x.snap.beat = 0) ∧ m ≤ (stepRef thr m cur D).2 := by
  obtain ⟨_, hden, hmet, hbpm, hm0, _, _⟩ := wfChange_parts hw
  rw [hcm] at hm0
  have hmq : 0 ≤ ffloor (D / cur.met) := ffloor_nonneg (div_nonneg hI.d_nonneg hmet.le)
  have hfr0 := rs_frac_nonneg (D / cur.met)
  have hdec := floor_add_frac (D / cur.met)
  by_cases c1 : 0 < frac (D / cur.met) ∧ frac (D / cur.met) ≤ thr
  · have hq1 : 1 ≤ ffloor (D / cur.met) := by
      by_contra hc
      have h0 : ffloor (D / cur.met) = 0 := by omega
      rw [h0] at hdec
      apply hI.no_tiny
      constructor
      · rw [hdec]; simpa using c1.1
      · rw [hdec]; simpa using c1.2
    have hnew : wfChange ⟨cur.bpm / (frac (D / cur.met) + 1), cur.met, ⟨m + ffloor (D / cur.met) - 1, 0, some cur.met⟩⟩ = true :=
      wfChange_mk hden hmet (div_pos hbpm (by linarith)) (by omega)
    by_cases hq : ffloor (D / cur.met) = 1
    · simp only [stepRef, c1, and_self, if_true, hq]
      refine ⟨?_, by omega⟩
      intro x hx
      simp only [List.mem_singleton] at hx
      rw [hx]; rw [hq] at hnew; exact ⟨hnew, rfl⟩
    · simp only [stepRef, c1, and_self, if_true, hq, if_false]
      refine ⟨?_, by omega⟩
      intro x hx
      simp only [List.mem_cons, List.not_mem_nil, or_false] at hx
      rcases hx with rfl | rfl
      · exact ⟨hw, hcb⟩
      · exact ⟨hnew, rfl⟩
  · by_cases c3 : frac (D / cur.met) > thr
    · have hr : 0 < frac (D / cur.met) := lt_of_le_of_lt hthr c3
      have hnew : wfChange ⟨cur.bpm / frac (D / cur.met), cur.met, ⟨m + ffloor (D / cur.met), 0, some cur.met⟩⟩ = true :=
        wfChange_mk hden hmet (div_pos hbpm hr) (by omega)
      by_cases hq : ffloor (D / cur.met) = 0
      · simp only [stepRef, c1, if_false, c3, if_true, hq]
        refine ⟨?_, by omega⟩
        intro x hx
        simp only [List.mem_singleton] at hx
        rw [hx]; rw [hq] at hnew; exact ⟨hnew, rfl⟩
      · simp only [stepRef, c1, if_false, c3, if_true, hq]
        refine ⟨?_, by omega⟩
        intro x hx
        simp only [List.mem_cons, List.not_mem_nil, or_false] at hx
        rcases hx with rfl | rfl
        · exact ⟨hw, hcb⟩
        · exact ⟨hnew, rfl⟩
    · simp only [stepRef, c1, if_false, c3]
      refine ⟨?_, by omega⟩
      intro x hx
      simp only [List.mem_singleton] at hx
      rw [hx]; exact ⟨hw, hcb⟩

/-- every point of the reseated list is well-formed (C10's `wfChange`) and on a measure line -/
theorem seatFromD_wf (thr : Rat) (hthr : 0 ≤ thr) :
    ∀ (pairs : List (Rat × BcSnap)) (m : Int) (cur : BcSnap),
      HypsL thr cur.bpm cur.met pairs → wfChange cur = true → cur.snap.measure = m → cur.snap.beat = 0 →
      (∀ p ∈ pairs, wfChange p.2 = true) →
      ∀ x ∈ seatFromD thr m cur pairs, wfChange x = true ∧ x.snap.beat = 0 := by
  intro pairs
  induction pairs with
  | nil =>
    intro m cur _ hw _ hcb _ x hx
    simp only [seatFromD, List.mem_singleton] at hx
    rw [hx]; exact ⟨hw, hcb⟩
  | cons p rest ih =>
    obtain ⟨D, nx⟩ := p
    intro m cur hh hw hcm hcb hall x hx
    obtain ⟨hI, hh'⟩ := hh
    obtain ⟨hstep, hmm⟩ := stepRef_wf thr m cur D hthr hI hw hcm hcb
    have hm0 : 0 ≤ m := by rw [← hcm]; exact (wfChange_parts hw).2.2.2.2.1
    simp only [seatFromD, List.mem_append] at hx
    rcases hx with hx | hx
    · exact hstep x hx
    · have hwn : wfChange nx = true := hall (D, nx) List.mem_cons_self
      exact ih (stepRef thr m cur D).2 (seatAt nx (stepRef thr m cur D).2) (by simpa using hh')
        (wfChange_seatAt hwn (by omega)) rfl rfl (fun p hp => hall p (List.mem_cons_of_mem _ hp)) x hx

/-! ### a seated well-formed ascending list is in C10's domain -/

theorem seated_gridCompatible {g : List Rat} (h0 : (0 : Rat) ∈ g) :
    ∀ (l : List BcSnap), (∀ x ∈ l, wfChange x = true ∧ x.snap.beat = 0) → gridCompatible g l = true := by
  intro l
  induction l with
  | nil => intro _; rfl
  | cons a t ih =>
    intro hall
    cases t with
    | nil => rfl
    | cons b t' =>
      have ha := hall a List.mem_cons_self
      have hb := hall b (List.mem_cons_of_mem _ List.mem_cons_self)
      obtain ⟨_, hden, _, _, _, _, _⟩ := wfChange_parts ha.1
      simp only [gridCompatible, Bool.and_eq_true]
      refine ⟨?_, ih (fun x hx => hall x (List.mem_cons_of_mem _ hx))⟩
      have hk : a.met = ((a.met.num : Int) : Rat) := ((Rat.den_eq_one_iff a.met).mp hden).symm
      have : snapDist a.snap b.snap a.met = (((b.snap.measure - a.snap.measure) * a.met.num : Int) : Rat) := by
        unfold snapDist; rw [ha.2, hb.2]; push_cast; rw [← hk]; ring
      rw [this, frac_intCast]
      simpa using h0

theorem seated_metronomeOk : ∀ (l : List BcSnap), (∀ x ∈ l, x.snap.beat = 0) → metronomeOk l = true := by
  intro l
  induction l with
  | nil => intro _; rfl
  | cons a t ih =>
    intro hall
    cases t with
    | nil => rfl
    | cons b t' =>
      simp only [metronomeOk, Bool.and_eq_true, Bool.or_eq_true, decide_eq_true_eq]
      exact ⟨Or.inr (hall b (List.mem_cons_of_mem _ List.mem_cons_self)), ih (fun x hx => hall x (List.mem_cons_of_mem _ hx))⟩

end Reamber.Timing
