/-
C03 — `render_items`: the text `SMMapSet.write` returns (`Model/SM.lean: renderWritten`) is literally the rendering of
a list of MSD items (`Lemmas/SMMsd.lean: renderItems`): the 22 header values separated by line breaks, then per chart a
line break, the banner comment line, the `#NOTES` value (tag, five indented header parameters on their own lines, the
note data wrapped in line breaks) and two line breaks.
Core Lean only.
-/
import Reamber.Lemmas.SMDenoteFile

namespace Reamber.SM

open Reamber.Timing

/-- a plain string line as an MSD value: tag without '#', value -/
def strValue (tv : Str × Str) : List Str := [tv.1.drop 1, tv.2]

/-- the 22 header values of `_write_metadata`, in file order -/
def hdrValues (sh : Shows) (w : Written) : List (List Str) :=
  (w.strs.take 13).map strValue ++
  [ [tagOffset.drop 1, sh.rat w.offsetSec],
    [tagBpms.drop 1, bpmsParam sh w.bpms],
    [tagStops.drop 1, []],
    [tagSampleStart.drop 1, sh.rat w.sampleStartSec],
    [tagSampleLength.drop 1, sh.rat w.sampleLengthSec] ] ++
  ((w.strs.drop 13).take 1).map strValue ++
  [ [tagSelectable.drop 1, w.selectable] ] ++
  (w.strs.drop 14).map strValue

/-- the `#NOTES` value of one chart as the writer lays it out -/
def notesParams (sh : Shows) (c : WrittenChart) : List Str :=
  [ tagNotes,
    '\n' :: (indent5 ++ c.chartType),
    '\n' :: (indent5 ++ c.description),
    '\n' :: (indent5 ++ c.difficulty),
    '\n' :: (indent5 ++ sh.int c.difficultyVal),
    '\n' :: (indent5 ++ joinWith [','] (c.groove.map sh.rat)),
    '\n' :: (noteData c.measures ++ ['\n']) ]

def chartItems (sh : Shows) (c : WrittenChart) : List Item :=
  [ .newline, .comment (bannerText sh c), .value (notesParams sh c), .newline, .newline ]

/-- the whole file as items -/
def fileItems (sh : Shows) (w : Written) : List Item :=
  ((hdrValues sh w).map Item.value).intersperse .newline ++ (w.charts.map (chartItems sh)).flatten

theorem joinWith_char (c : Char) (p : Str) (t : List Str) :
    joinWith [c] (p :: t) = p ++ (t.map (fun q => c :: q)).flatten := by
  induction t generalizing p with
  | nil => simp [joinWith]
  | cons q r ih => simp [joinWith, ih q]

theorem joinWith_char_append (c : Char) (H C : List Str) (hH : H ≠ []) :
    joinWith [c] (H ++ C) = joinWith [c] H ++ (C.map (fun q => c :: q)).flatten := by
  cases H with
  | nil => exact absurd rfl hH
  | cons a l => simp [joinWith_char, List.map_append]

theorem joinWith_values (V : List (List Str)) :
    joinWith ['\n'] (V.map (fun ps => renderItem (.value ps))) = renderItems ((V.map Item.value).intersperse .newline) := by
  induction V with
  | nil => rfl
  | cons a t ih =>
    cases t with
    | nil => simp [joinWith, renderItems]
    | cons b r =>
      simp only [List.map_cons, joinWith] at ih ⊢
      rw [List.intersperse_cons₂] 
      simp only [renderItems, List.map_cons, List.flatten_cons] at ih ⊢
      rw [ih]
      simp [renderItem]

theorem strLine_eq (tv : Str × Str) (h : tv.1 = '#' :: tv.1.drop 1) :
    strLine tv = renderItem (.value (strValue tv)) := by
  unfold strLine strValue renderItem
  conv => lhs; rw [h]
  simp [joinWith]

theorem headerLines_eq (sh : Shows) (w : Written) (hs : ∀ tv ∈ w.strs, tv.1 = '#' :: tv.1.drop 1) :
    headerLines sh w = (hdrValues sh w).map (fun ps => renderItem (.value ps)) := by
  have hm : ∀ (l : List (Str × Str)), (∀ tv ∈ l, tv ∈ w.strs) →
      l.map strLine = (l.map strValue).map (fun ps => renderItem (.value ps)) := by
    intro l hl
    rw [List.map_map]
    apply List.map_congr_left
    intro tv htv
    exact strLine_eq tv (hs tv (hl tv htv))
  unfold headerLines hdrValues
  simp only [List.map_append]
  rw [hm _ (fun tv h => List.mem_of_mem_take h),
    hm _ (fun tv h => List.mem_of_mem_drop (List.mem_of_mem_take h)),
    hm _ (fun tv h => List.mem_of_mem_drop h)]
  rfl

theorem chartLines_eq (sh : Shows) (c : WrittenChart) :
    ((chartLines sh c).map (fun q => '\n' :: q)).flatten = renderItems (chartItems sh c) := by
  simp [chartLines, chartItems, renderItems, renderItem, notesParams, joinWith, notesTag, tagNotes]

/-- **`render_items`**: the text of `SMMapSet.write` is the rendering of `fileItems`. -/
theorem render_items (sh : Shows) (w : Written) (hs : ∀ tv ∈ w.strs, tv.1 = '#' :: tv.1.drop 1) :
    renderWritten sh w = renderItems (fileItems sh w) := by
  unfold renderWritten fileItems
  have hne : headerLines sh w ≠ [] := by
    unfold headerLines
    simp
  rw [joinWith_char_append '\n' _ _ hne, headerLines_eq sh w hs, joinWith_values]
  unfold renderItems
  rw [List.map_append, List.flatten_append]
  congr 1
  induction w.charts with
  | nil => rfl
  | cons c t ih =>
    simp only [List.map_cons, List.flatten_cons, List.map_append, List.flatten_append]
    rw [ih, chartLines_eq]
    rfl

end Reamber.SM
