/-
K1 — `timeAt` and `beatAt` are inverse to each other for a constant metronome `M`:
  * the position whose cumulative beat count is `beatAt t0 cs t` is read back by `timeAt` at exactly `t`;
  * the cumulative beat count at the time of a (normalised) position is that position's beat count.
Instances for the StepMania specification (`M = 4`: `snapOfBeat`, `absBeat`) at the end.
-/
import Reamber.Lemmas.TimingClosedForm
import Reamber.Lemmas.SMDefs

namespace Reamber.Timing

/-- the position `(measure, beat)` of a beat count under metronome `M` -/
def snapOfTotal (M q : Rat) : Snap :=
  ⟨(q / M).floor, q - M * (((q / M).floor : Int) : Rat), some M⟩

theorem snapOfTotal_spec {M : Rat} (hM : 0 < M) (q : Rat) :
    snapTotal M (snapOfTotal M q) = q ∧ 0 ≤ (snapOfTotal M q).beat ∧ (snapOfTotal M q).beat < M := by
  have hfl := Rat.floor_le (q / M)
  have hfu := Rat.lt_floor_add_one (q / M)
  push_cast at hfu
  have h1 : M * (((q / M).floor : Int) : Rat) ≤ q := by
    have := mul_le_mul_of_nonneg_left hfl hM.le
    rwa [mul_div_cancel₀ q (ne_of_gt hM)] at this
  have h2 : q < M * (((q / M).floor : Int) : Rat) + M := by
    have := mul_lt_mul_of_pos_left hfu hM
    rw [mul_div_cancel₀ q (ne_of_gt hM)] at this
    linarith
  refine ⟨?_, ?_, ?_⟩
  · unfold snapTotal snapOfTotal; simp only; ring
  · unfold snapOfTotal; simp only; linarith
  · unfold snapOfTotal; simp only; linarith

theorem snapDist_eq_total_sub {M : Rat} (c s : Snap) : snapDist c s M = snapTotal M s - snapTotal M c := by
  unfold snapDist snapTotal; push_cast; ring

/-- **position of the beat count at `t` ↦ `t`** (recursive form) -/
theorem timeAtAux_snapOfTotal_beatAtAux {M : Rat} (T B : Rat) (cur : BcSnap) (rest : List BcSnap) (t : Rat)
    (hwf : wfChanges (cur :: rest) = true) (hs : sortedSnaps (cur :: rest) = true)
    (hM : ∀ c ∈ cur :: rest, c.met = M) (hB : B = snapTotal M cur.snap) (hT : T ≤ t) :
    timeAtAux T cur rest (snapOfTotal M (beatAtAux T B cur rest t)) = t := by
  induction rest generalizing T B cur with
  | nil =>
    have wc := wfChanges_mem hwf (List.mem_cons_self)
    have hcM := hM cur List.mem_cons_self
    have hMpos : 0 < M := by rw [← hcM]; exact wc.met_pos
    have hbl := beatLen_pos wc.bpm_pos
    obtain ⟨htot, _, _⟩ := snapOfTotal_spec hMpos (beatAtAux T B cur [] t)
    simp only [timeAtAux, hcM, snapDist_eq_total_sub, htot]
    simp only [beatAtAux, hB]
    have : (snapTotal M cur.snap + (t - T) / beatLen cur.bpm - snapTotal M cur.snap) * beatLen cur.bpm = t - T := by
      rw [add_sub_cancel_left, div_mul_cancel₀ _ (ne_of_gt hbl)]
    linarith
  | cons n rest ih =>
    have wc := wfChanges_mem hwf (List.mem_cons_self)
    have wn := wfChanges_mem hwf (List.mem_cons_of_mem _ List.mem_cons_self)
    have hcM := hM cur List.mem_cons_self
    have hnM := hM n (List.mem_cons_of_mem _ List.mem_cons_self)
    have hMpos : 0 < M := by rw [← hcM]; exact wc.met_pos
    have hbl := beatLen_pos wc.bpm_pos
    have hB' : B + snapDist cur.snap n.snap cur.met = snapTotal M n.snap := by
      rw [hB, hcM, snapDist_eq_total_sub]; ring
    simp only [beatAtAux]
    by_cases h : T + snapDist cur.snap n.snap cur.met * beatLen cur.bpm ≤ t
    · rw [if_pos h]
      obtain ⟨htot, hb0, hbM⟩ := snapOfTotal_spec hMpos
        (beatAtAux (T + snapDist cur.snap n.snap cur.met * beatLen cur.bpm) (B + snapDist cur.snap n.snap cur.met) n rest t)
      have hge := beatAtAux_ge (T + snapDist cur.snap n.snap cur.met * beatLen cur.bpm)
        (B + snapDist cur.snap n.snap cur.met) n rest t (wfChanges_tail hwf) (sortedSnaps_tail hs) h
      have hnS : n.snap.le (snapOfTotal M (beatAtAux (T + snapDist cur.snap n.snap cur.met * beatLen cur.bpm)
          (B + snapDist cur.snap n.snap cur.met) n rest t)) = true := by
        apply Snap.le_of_total_le hMpos wn.beat_nonneg (by rw [← hnM]; exact wn.beat_lt) hb0 hbM
        have e1 : (n.snap.measure : Rat) * M + n.snap.beat = snapTotal M n.snap := rfl
        rw [e1, ← hB']
        exact le_trans hge (le_of_eq htot.symm)
      simp only [timeAtAux, hnS, if_true]
      exact ih _ _ n (wfChanges_tail hwf) (sortedSnaps_tail hs) (fun c hc => hM c (List.mem_cons_of_mem _ hc)) hB' h
    · rw [if_neg h]
      obtain ⟨htot, hb0, hbM⟩ := snapOfTotal_spec hMpos (B + (t - T) / beatLen cur.bpm)
      have hlt : (t - T) / beatLen cur.bpm < snapDist cur.snap n.snap cur.met := by
        rw [div_lt_iff₀ hbl]; linarith [not_le.mp h]
      have hnS : ¬ (n.snap.le (snapOfTotal M (B + (t - T) / beatLen cur.bpm)) = true) := by
        apply Snap.not_le_of_total_lt hMpos hb0 (by rw [← hnM]; exact wn.beat_lt)
        have e1 : (n.snap.measure : Rat) * M + n.snap.beat = snapTotal M n.snap := rfl
        have e2 : ((snapOfTotal M (B + (t - T) / beatLen cur.bpm)).measure : Rat) * M
            + (snapOfTotal M (B + (t - T) / beatLen cur.bpm)).beat = B + (t - T) / beatLen cur.bpm := htot
        rw [e1, e2, ← hB']
        linarith
      simp only [timeAtAux]
      rw [if_neg hnS, hcM, snapDist_eq_total_sub, htot, hB]
      have : (snapTotal M cur.snap + (t - T) / beatLen cur.bpm - snapTotal M cur.snap) * beatLen cur.bpm = t - T := by
        rw [add_sub_cancel_left, div_mul_cancel₀ _ (ne_of_gt hbl)]
      linarith

/-- **beat count at the time of a position ↦ that position's beat count** (recursive form) -/
theorem beatAtAux_timeAtAux {M : Rat} (T B : Rat) (cur : BcSnap) (rest : List BcSnap) (s : Snap)
    (hwf : wfChanges (cur :: rest) = true) (hs : sortedSnaps (cur :: rest) = true)
    (hM : ∀ c ∈ cur :: rest, c.met = M) (hB : B = snapTotal M cur.snap) (hle : cur.snap.le s = true)
    (hs0 : 0 ≤ s.beat) (hsM : s.beat < M) :
    beatAtAux T B cur rest (timeAtAux T cur rest s) = snapTotal M s := by
  induction rest generalizing T B cur with
  | nil =>
    have wc := wfChanges_mem hwf (List.mem_cons_self)
    have hcM := hM cur List.mem_cons_self
    have hbl := beatLen_pos wc.bpm_pos
    simp only [timeAtAux, beatAtAux, hcM, snapDist_eq_total_sub, hB]
    rw [add_sub_cancel_left, mul_div_cancel_right₀ _ (ne_of_gt hbl)]; ring
  | cons n rest ih =>
    have wc := wfChanges_mem hwf (List.mem_cons_self)
    have wn := wfChanges_mem hwf (List.mem_cons_of_mem _ List.mem_cons_self)
    have hcM := hM cur List.mem_cons_self
    have hnM := hM n (List.mem_cons_of_mem _ List.mem_cons_self)
    have hMpos : 0 < M := by rw [← hcM]; exact wc.met_pos
    have hbl := beatLen_pos wc.bpm_pos
    have hB' : B + snapDist cur.snap n.snap cur.met = snapTotal M n.snap := by
      rw [hB, hcM, snapDist_eq_total_sub]; ring
    simp only [timeAtAux]
    by_cases hn : n.snap.le s = true
    · rw [if_pos hn]
      have hge := timeAtAux_ge (T + snapDist cur.snap n.snap cur.met * beatLen cur.bpm) n rest s
        (wfChanges_tail hwf) (sortedSnaps_tail hs) hn hs0
      simp only [beatAtAux, hge, if_true]
      exact ih _ _ n (wfChanges_tail hwf) (sortedSnaps_tail hs) (fun c hc => hM c (List.mem_cons_of_mem _ hc)) hB' hn
    · rw [if_neg hn]
      -- s lies strictly before n
      have hlt : snapTotal M s < snapTotal M n.snap := by
        by_contra hc
        exact hn (Snap.le_of_total_le hMpos wn.beat_nonneg (by rw [← hnM]; exact wn.beat_lt) hs0 hsM (not_lt.mp hc))
      have hd : snapDist cur.snap s cur.met < snapDist cur.snap n.snap cur.met := by
        rw [hcM, snapDist_eq_total_sub, snapDist_eq_total_sub]; linarith
      have hτ : ¬ (T + snapDist cur.snap n.snap cur.met * beatLen cur.bpm ≤ T + snapDist cur.snap s cur.met * beatLen cur.bpm) := by
        have := mul_lt_mul_of_pos_right hd hbl
        exact not_le.mpr (by linarith)
      simp only [beatAtAux, hτ, if_false]
      rw [add_sub_cancel_left, mul_div_cancel_right₀ _ (ne_of_gt hbl), hcM, snapDist_eq_total_sub, hB]; ring

/-- **`timeAt ∘ (position of) ∘ beatAt = id`** for a constant metronome, times at or after the first change. -/
theorem timeAt_snapOfTotal_beatAt {M : Rat} (t0 : Rat) (cs : List BcSnap) (t : Rat) (hwf : wfChanges cs = true)
    (hs : sortedSnaps cs = true) (h0 : firstAtZero cs = true) (hM : ∀ c ∈ cs, c.met = M) (hT : t0 ≤ t) :
    timeAt t0 cs (snapOfTotal M (beatAt t0 cs t)) = t := by
  cases cs with
  | nil => simp [firstAtZero] at h0
  | cons c rest =>
    simp only [firstAtZero, Bool.and_eq_true, decide_eq_true_eq] at h0
    have hB : (0 : Rat) = snapTotal M c.snap := by unfold snapTotal; rw [h0.1, h0.2]; simp
    exact timeAtAux_snapOfTotal_beatAtAux t0 0 c rest t hwf hs hM hB hT

/-- **`beatAt ∘ timeAt = beat count`** for a constant metronome, positions normalised to it and at/after the first change. -/
theorem beatAt_timeAt {M : Rat} (t0 : Rat) (cs : List BcSnap) (s : Snap) (hwf : wfChanges cs = true)
    (hs : sortedSnaps cs = true) (h0 : firstAtZero cs = true) (hM : ∀ c ∈ cs, c.met = M)
    (hq : queryOk cs s = true) (hsM : s.beat < M) : beatAt t0 cs (timeAt t0 cs s) = snapTotal M s := by
  cases cs with
  | nil => simp [firstAtZero] at h0
  | cons c rest =>
    simp only [firstAtZero, Bool.and_eq_true, decide_eq_true_eq] at h0
    simp only [queryOk, Bool.and_eq_true, decide_eq_true_eq] at hq
    have hB : (0 : Rat) = snapTotal M c.snap := by unfold snapTotal; rw [h0.1, h0.2]; simp
    exact beatAtAux_timeAtAux t0 0 c rest s hwf hs hM hB hq.1 hq.2 hsM

/-! ### the StepMania instances (`M = 4`) -/

theorem snapOfBeat_eq (q : Rat) : SM.snapOfBeat q = snapOfTotal 4 q := rfl

theorem absBeat_eq (s : Snap) : SM.absBeat s = snapTotal 4 s := by unfold SM.absBeat snapTotal; ring

/-- what C03 needs: the position of the beat count of `t` is read back at exactly `t` -/
theorem timeAt_snapOfBeat_beatAt (t0 : Rat) (cs : List BcSnap) (t : Rat) (hwf : wfChanges cs = true)
    (hs : sortedSnaps cs = true) (h0 : firstAtZero cs = true) (hM : ∀ c ∈ cs, c.met = 4) (hT : t0 ≤ t) :
    timeAt t0 cs (SM.snapOfBeat (beatAt t0 cs t)) = t := by
  rw [snapOfBeat_eq]; exact timeAt_snapOfTotal_beatAt t0 cs t hwf hs h0 hM hT

/-- … and its companion -/
theorem beatAt_timeAt_absBeat (t0 : Rat) (cs : List BcSnap) (s : Snap) (hwf : wfChanges cs = true)
    (hs : sortedSnaps cs = true) (h0 : firstAtZero cs = true) (hM : ∀ c ∈ cs, c.met = 4)
    (hq : queryOk cs s = true) (hs4 : s.beat < 4) : beatAt t0 cs (timeAt t0 cs s) = SM.absBeat s := by
  rw [absBeat_eq]; exact beatAt_timeAt t0 cs s hwf hs h0 hM hq hs4

/-- `snapOfBeat` of a non-negative beat is a legal query (so the hypotheses of `offsets_correct` hold for it) -/
theorem queryOk_snapOfBeat (cs : List BcSnap) (h0 : firstAtZero cs = true) (hwf : wfChanges cs = true) (q : Rat)
    (hq : 0 ≤ q) : queryOk cs (SM.snapOfBeat q) = true := by
  cases cs with
  | nil => simp [firstAtZero] at h0
  | cons c rest =>
    simp only [firstAtZero, Bool.and_eq_true, decide_eq_true_eq] at h0
    obtain ⟨htot, hb0, hbM⟩ := snapOfTotal_spec (M := 4) (by norm_num) q
    rw [snapOfBeat_eq]
    simp only [queryOk, Bool.and_eq_true, decide_eq_true_eq]
    refine ⟨?_, hb0⟩
    have hm0 : (0 : Int) ≤ (snapOfTotal 4 q).measure := by
      unfold snapOfTotal; simp only
      exact Rat.le_floor_iff.mpr (by simpa using div_nonneg hq (by norm_num : (0 : Rat) ≤ 4))
    simp only [Snap.le, Snap.lt, Snap.eqv, Bool.or_eq_true, Bool.and_eq_true, decide_eq_true_eq, h0.1, h0.2]
    rcases lt_or_eq_of_le hm0 with h | h
    · exact Or.inl (Or.inl h)
    · rcases lt_or_eq_of_le hb0 with h' | h'
      · exact Or.inl (Or.inr ⟨h, h'⟩)
      · exact Or.inr ⟨h, h'⟩

end Reamber.Timing
