/- C01 — read ∘ write of one hit-object line, down to the characters (the line contains integers only). -/
import Reamber.Lemmas.OsuRt

namespace Reamber.Osu

theorem showInt_no_comma (i : Int) : ',' ∉ showInt i := fun hm => (showInt_chars i _ hm).1 rfl
theorem showInt_no_colon (i : Int) : ':' ∉ showInt i := fun hm => (showInt_chars i _ hm).2.1 rfl

def hitExtras (h : Hit) : List Str :=
  [showInt h.sampleSet, showInt h.additionSet, showInt h.customSet, showInt h.volume, h.file]

def hitFields (h : Hit) (k : Int) : List Str :=
  [showInt (colToX h.column k), showInt 192, showInt (pyTrunc h.offset), showInt 1, showInt h.hitsoundSet,
   joinWith ':' (hitExtras h)]

theorem line_writeHit (R : Render) (h : Hit) (k : Int) :
    R.line (writeHit h k) = joinWith ',' (hitFields h k) := by
  simp [Render.line, writeHit, Render.tok, joinWith, hitFields, hitExtras, comma, colon]

/-- generic: a line of six comma fields whose first five have no colon and whose last is `n` colon pieces -/
theorem counts_of_fields (f0 f1 f2 f3 f4 : Str) (ex : List Str) (hex : ex ≠ [])
    (c0 : ',' ∉ f0) (c1 : ',' ∉ f1) (c2 : ',' ∉ f2) (c3 : ',' ∉ f3) (c4 : ',' ∉ f4)
    (d0 : ':' ∉ f0) (d1 : ':' ∉ f1) (d2 : ':' ∉ f2) (d3 : ':' ∉ f3) (d4 : ':' ∉ f4)
    (cex : ∀ p ∈ ex, ',' ∉ p) (dex : ∀ p ∈ ex, ':' ∉ p) :
    let line := joinWith ',' [f0, f1, f2, f3, f4, joinWith ':' ex]
    splitOn ',' line = [f0, f1, f2, f3, f4, joinWith ':' ex] ∧ splitOn ':' (joinWith ':' ex) = ex ∧
    countC ',' line = 5 ∧ countC ':' line + 1 = ex.length := by
  intro line
  have hexc : ',' ∉ joinWith ':' ex := not_mem_joinWith ':' ',' (by decide) ex cex
  have hs : splitOn ',' line = [f0, f1, f2, f3, f4, joinWith ':' ex] := by
    apply splitOn_joinWith ',' _ (by simp)
    intro p hp
    simp only [List.mem_cons, List.not_mem_nil, or_false] at hp
    rcases hp with rfl | rfl | rfl | rfl | rfl | rfl <;> assumption
  have hs2 : splitOn ':' (joinWith ':' ex) = ex := splitOn_joinWith ':' ex hex dex
  have hc := classify_fields line f0 f1 f2 f3 f4 (joinWith ':' ex) hs
    (count_eq_zero_of_not_mem _ _ d0) (count_eq_zero_of_not_mem _ _ d1) (count_eq_zero_of_not_mem _ _ d2)
    (count_eq_zero_of_not_mem _ _ d3) (count_eq_zero_of_not_mem _ _ d4)
  rw [hs2] at hc
  exact ⟨hs, hs2, hc.1, hc.2⟩

end Reamber.Osu

namespace Reamber.Osu

/-- **read ∘ write of a hit line** (text level, every key count up to 256): the note comes back in its column with
its time truncated — whatever the renderer parameters are (the line holds integers and the file name only) -/
theorem readHit_writeHit (R : Render) (h : Hit) (k : Int) (hk : 0 < k) (hk' : k ≤ 256) (hc0 : 0 ≤ h.column)
    (hc : h.column < k) (hf1 : ',' ∉ h.file) (hf2 : ':' ∉ h.file) :
    readHit (R.line (writeHit h k)) k = .ok (qHit h) := by
  rw [line_writeHit]
  have H := counts_of_fields (showInt (colToX h.column k)) (showInt 192) (showInt (pyTrunc h.offset)) (showInt 1)
    (showInt h.hitsoundSet) (hitExtras h) (by simp [hitExtras])
    (showInt_no_comma _) (showInt_no_comma _) (showInt_no_comma _) (showInt_no_comma _) (showInt_no_comma _)
    (showInt_no_colon _) (showInt_no_colon _) (showInt_no_colon _) (showInt_no_colon _) (showInt_no_colon _)
    (by intro p hp; simp only [hitExtras, List.mem_cons, List.not_mem_nil, or_false] at hp
        rcases hp with rfl | rfl | rfl | rfl | rfl
        · exact showInt_no_comma _
        · exact showInt_no_comma _
        · exact showInt_no_comma _
        · exact showInt_no_comma _
        · exact hf1)
    (by intro p hp; simp only [hitExtras, List.mem_cons, List.not_mem_nil, or_false] at hp
        rcases hp with rfl | rfl | rfl | rfl | rfl
        · exact showInt_no_colon _
        · exact showInt_no_colon _
        · exact showInt_no_colon _
        · exact showInt_no_colon _
        · exact hf2)
  obtain ⟨hs, hs2, hcomma, hcolon⟩ := H
  have hlen : (hitExtras h).length = 5 := rfl
  rw [hlen] at hcolon
  have hcolon4 := Nat.succ.inj hcolon
  unfold readHit
  simp only [hitFields]
  simp only [isHit, hcolon4, hcomma, hs, List.getLastD]
  have hs2' : splitOn ':' (joinWith ':' [showInt h.sampleSet, showInt h.additionSet, showInt h.customSet,
      showInt h.volume, h.file]) = [showInt h.sampleSet, showInt h.additionSet, showInt h.customSet,
      showInt h.volume, h.file] := hs2
  simp [hitExtras, hs2', idx, readFloat_showInt, readInt_showInt, bind, Except.bind, pure, Except.pure,
        xToCol_colToX h.column k hk hk' hc0 hc, qHit]

end Reamber.Osu

namespace Reamber.Osu

def holdExtras (h : Hold) : List Str :=
  [showInt (pyTrunc (h.offset + h.length)), showInt h.sampleSet, showInt h.additionSet, showInt h.customSet,
   showInt h.volume, h.file]

def holdFields (h : Hold) (k : Int) : List Str :=
  [showInt (colToX h.column k), showInt 192, showInt (pyTrunc h.offset), showInt 128, showInt h.hitsoundSet,
   joinWith ':' (holdExtras h)]

theorem line_writeHold (R : Render) (h : Hold) (k : Int) :
    R.line (writeHold h k) = joinWith ',' (holdFields h k) := by
  simp [Render.line, writeHold, Render.tok, joinWith, holdFields, holdExtras, comma, colon]

/-- **read ∘ write of a hold line**: head and tail are truncated separately (`qHold`) -/
theorem readHold_writeHold (R : Render) (h : Hold) (k : Int) (hk : 0 < k) (hk' : k ≤ 256) (hc0 : 0 ≤ h.column)
    (hc : h.column < k) (hf1 : ',' ∉ h.file) (hf2 : ':' ∉ h.file) :
    readHold (R.line (writeHold h k)) k = .ok (qHold h) := by
  rw [line_writeHold]
  have H := counts_of_fields (showInt (colToX h.column k)) (showInt 192) (showInt (pyTrunc h.offset)) (showInt 128)
    (showInt h.hitsoundSet) (holdExtras h) (by simp [holdExtras])
    (showInt_no_comma _) (showInt_no_comma _) (showInt_no_comma _) (showInt_no_comma _) (showInt_no_comma _)
    (showInt_no_colon _) (showInt_no_colon _) (showInt_no_colon _) (showInt_no_colon _) (showInt_no_colon _)
    (by intro p hp; simp only [holdExtras, List.mem_cons, List.not_mem_nil, or_false] at hp
        rcases hp with rfl | rfl | rfl | rfl | rfl | rfl
        · exact showInt_no_comma _
        · exact showInt_no_comma _
        · exact showInt_no_comma _
        · exact showInt_no_comma _
        · exact showInt_no_comma _
        · exact hf1)
    (by intro p hp; simp only [holdExtras, List.mem_cons, List.not_mem_nil, or_false] at hp
        rcases hp with rfl | rfl | rfl | rfl | rfl | rfl
        · exact showInt_no_colon _
        · exact showInt_no_colon _
        · exact showInt_no_colon _
        · exact showInt_no_colon _
        · exact showInt_no_colon _
        · exact hf2)
  obtain ⟨hs, hs2, hcomma, hcolon⟩ := H
  have hlen : (holdExtras h).length = 6 := rfl
  rw [hlen] at hcolon
  have hcolon5 := Nat.succ.inj hcolon
  unfold readHold
  simp only [holdFields]
  simp only [isHold, hcolon5, hcomma, hs, List.getLastD]
  have hs2' : splitOn ':' (joinWith ':' [showInt (pyTrunc (h.offset + h.length)), showInt h.sampleSet,
      showInt h.additionSet, showInt h.customSet, showInt h.volume, h.file]) =
      [showInt (pyTrunc (h.offset + h.length)), showInt h.sampleSet, showInt h.additionSet, showInt h.customSet,
       showInt h.volume, h.file] := hs2
  simp [holdExtras, hs2', idx, readFloat_showInt, readInt_showInt, bind, Except.bind, pure, Except.pure,
        xToCol_colToX h.column k hk hk' hc0 hc, qHold]

theorem line_writeSample (R : Render) (s : Sample) :
    R.line (writeSample s) = joinWith ',' ["Sample".toList, showInt (pyTrunc s.offset), ['0'], s.file, showInt s.volume] := by
  simp [Render.line, writeSample, Render.tok, joinWith, L, comma]

/-- **read ∘ write of a sample event** -/
theorem readSample_writeSample (R : Render) (s : Sample) (hf : ',' ∉ s.file) :
    readSample (R.line (writeSample s)) = .ok (qSample s) := by
  rw [line_writeSample]
  have hs : splitOn ',' (joinWith ',' ["Sample".toList, showInt (pyTrunc s.offset), ['0'], s.file, showInt s.volume])
      = ["Sample".toList, showInt (pyTrunc s.offset), ['0'], s.file, showInt s.volume] := by
    apply splitOn_joinWith ',' _ (by simp)
    intro p hp
    simp only [List.mem_cons, List.not_mem_nil, or_false] at hp
    rcases hp with rfl | rfl | rfl | rfl | rfl
    · decide
    · exact showInt_no_comma _
    · decide
    · exact hf
    · exact showInt_no_comma _
  unfold readSample
  simp only [hs]
  simp [readFloat_showInt, readInt_showInt, qSample]

end Reamber.Osu

namespace Reamber.Osu

theorem showInt_one : showInt 1 = ['1'] := by decide +kernel
theorem showInt_zero : showInt 0 = ['0'] := by decide +kernel

theorem readBoolInt_showInt_boolInt (b : Bool) : readBoolInt (showInt (boolInt b)) = .ok b := by
  unfold readBoolInt
  rw [readInt_showInt]
  cases b <;> simp [boolInt, bind, Except.bind, pure, Except.pure]

def bpmFields (R : Render) (b : Bpm) : List Str :=
  [R.repr b.offset, R.repr (bpmCode b.bpm), showInt (pyTrunc b.metronome), showInt b.sampleSet,
   showInt b.sampleSetIndex, showInt b.volume, showInt 1, showInt (boolInt b.kiai)]

theorem line_writeBpm (R : Render) (b : Bpm) : R.line (writeBpm b) = joinWith ',' (bpmFields R b) := by
  simp [Render.line, writeBpm, Render.tok, joinWith, bpmFields, comma]

/-- **read ∘ write of a tempo line**, parametric in the float renderer: if `repr` of the two floats reads back
exactly and contains no comma (true of Python's `repr` on doubles — asserted by the harness), the tempo point comes
back with its bpm exactly (`60000/(60000/v) = v`) and its metronome truncated -/
theorem readBpm_writeBpm (R : Render) (b : Bpm) (hv : b.bpm ≠ 0)
    (hro : readFloat (R.repr b.offset) = .ok b.offset)
    (hrc : readFloat (R.repr (bpmCode b.bpm)) = .ok (bpmCode b.bpm))
    (hno : ',' ∉ R.repr b.offset) (hnc : ',' ∉ R.repr (bpmCode b.bpm)) :
    readBpm (R.line (writeBpm b)) = .ok (qBpm b) := by
  rw [line_writeBpm]
  have hs : splitOn ',' (joinWith ',' (bpmFields R b)) = bpmFields R b := by
    apply splitOn_joinWith ',' _ (by simp [bpmFields])
    intro p hp
    simp only [bpmFields, List.mem_cons, List.not_mem_nil, or_false] at hp
    rcases hp with rfl | rfl | rfl | rfl | rfl | rfl | rfl | rfl
    · exact hno
    · exact hnc
    all_goals exact showInt_no_comma _
  unfold readBpm isTimingPoint
  simp only [hs]
  simp [bpmFields, showInt_one, idx, hro, hrc, readInt_showInt, readBoolInt_showInt_boolInt, bind, Except.bind, pure,
        Except.pure, bpmCode_ne_zero b.bpm hv, bpmCode_bpmCode b.bpm hv, qBpm]

def svFields (R : Render) (b : Sv) : List Str :=
  [R.repr b.offset, R.repr (svCode b.multiplier), showInt 4, showInt b.sampleSet,
   showInt b.sampleSetIndex, showInt b.volume, showInt 0, showInt (boolInt b.kiai)]

theorem line_writeSv (R : Render) (b : Sv) : R.line (writeSv b) = joinWith ',' (svFields R b) := by
  simp [Render.line, writeSv, Render.tok, joinWith, svFields, comma]

/-- **read ∘ write of a scroll-velocity line** — the point comes back unchanged -/
theorem readSv_writeSv (R : Render) (b : Sv) (hv : b.multiplier ≠ 0)
    (hro : readFloat (R.repr b.offset) = .ok b.offset)
    (hrc : readFloat (R.repr (svCode b.multiplier)) = .ok (svCode b.multiplier))
    (hno : ',' ∉ R.repr b.offset) (hnc : ',' ∉ R.repr (svCode b.multiplier)) :
    readSv (R.line (writeSv b)) = .ok b := by
  rw [line_writeSv]
  have hs : splitOn ',' (joinWith ',' (svFields R b)) = svFields R b := by
    apply splitOn_joinWith ',' _ (by simp [svFields])
    intro p hp
    simp only [svFields, List.mem_cons, List.not_mem_nil, or_false] at hp
    rcases hp with rfl | rfl | rfl | rfl | rfl | rfl | rfl | rfl
    · exact hno
    · exact hnc
    all_goals exact showInt_no_comma _
  unfold readSv isSliderVelocity
  simp only [hs]
  simp [svFields, showInt_zero, idx, hro, hrc, readInt_showInt, readBoolInt_showInt_boolInt, bind, Except.bind, pure,
        Except.pure, svCode_ne_zero b.multiplier hv, svCode_svCode b.multiplier hv]

/-- non-vacuity of the renderer hypotheses: integers rendered as integers -/
def intRender : Render := { repr := fun q => showInt q.floor, uni := id }

example : readBpm (intRender.line (writeBpm { offset := 1000, bpm := 120, kiai := true })) =
    .ok { offset := 1000, bpm := 120, kiai := true } := by
  have := readBpm_writeBpm intRender { offset := 1000, bpm := 120, kiai := true } (by decide +kernel)
    (by decide +kernel) (by decide +kernel) (by decide +kernel) (by decide +kernel)
  rw [this]; decide +kernel

end Reamber.Osu

namespace Reamber.Osu

/-- a written hit line is classified as a hit and not as a hold -/
theorem classify_writeHit (R : Render) (h : Hit) (k : Int) (hf1 : ',' ∉ h.file) (hf2 : ':' ∉ h.file) :
    isHit (R.line (writeHit h k)) = true ∧ isHold (R.line (writeHit h k)) = false := by
  rw [line_writeHit]
  have H := counts_of_fields (showInt (colToX h.column k)) (showInt 192) (showInt (pyTrunc h.offset)) (showInt 1)
    (showInt h.hitsoundSet) (hitExtras h) (by simp [hitExtras])
    (showInt_no_comma _) (showInt_no_comma _) (showInt_no_comma _) (showInt_no_comma _) (showInt_no_comma _)
    (showInt_no_colon _) (showInt_no_colon _) (showInt_no_colon _) (showInt_no_colon _) (showInt_no_colon _)
    (by intro p hp; simp only [hitExtras, List.mem_cons, List.not_mem_nil, or_false] at hp
        rcases hp with rfl | rfl | rfl | rfl | rfl
        · exact showInt_no_comma _
        · exact showInt_no_comma _
        · exact showInt_no_comma _
        · exact showInt_no_comma _
        · exact hf1)
    (by intro p hp; simp only [hitExtras, List.mem_cons, List.not_mem_nil, or_false] at hp
        rcases hp with rfl | rfl | rfl | rfl | rfl
        · exact showInt_no_colon _
        · exact showInt_no_colon _
        · exact showInt_no_colon _
        · exact showInt_no_colon _
        · exact hf2)
  obtain ⟨_, _, hcomma, hcolon⟩ := H
  have hlen : (hitExtras h).length = 5 := rfl
  rw [hlen] at hcolon
  have hcolon4 := Nat.succ.inj hcolon
  unfold isHit isHold
  simp only [hitFields]
  simp [hcolon4, hcomma]

/-- a written hold line is classified as a hold and not as a hit -/
theorem classify_writeHold (R : Render) (h : Hold) (k : Int) (hf1 : ',' ∉ h.file) (hf2 : ':' ∉ h.file) :
    isHit (R.line (writeHold h k)) = false ∧ isHold (R.line (writeHold h k)) = true := by
  rw [line_writeHold]
  have H := counts_of_fields (showInt (colToX h.column k)) (showInt 192) (showInt (pyTrunc h.offset)) (showInt 128)
    (showInt h.hitsoundSet) (holdExtras h) (by simp [holdExtras])
    (showInt_no_comma _) (showInt_no_comma _) (showInt_no_comma _) (showInt_no_comma _) (showInt_no_comma _)
    (showInt_no_colon _) (showInt_no_colon _) (showInt_no_colon _) (showInt_no_colon _) (showInt_no_colon _)
    (by intro p hp; simp only [holdExtras, List.mem_cons, List.not_mem_nil, or_false] at hp
        rcases hp with rfl | rfl | rfl | rfl | rfl | rfl
        · exact showInt_no_comma _
        · exact showInt_no_comma _
        · exact showInt_no_comma _
        · exact showInt_no_comma _
        · exact showInt_no_comma _
        · exact hf1)
    (by intro p hp; simp only [holdExtras, List.mem_cons, List.not_mem_nil, or_false] at hp
        rcases hp with rfl | rfl | rfl | rfl | rfl | rfl
        · exact showInt_no_colon _
        · exact showInt_no_colon _
        · exact showInt_no_colon _
        · exact showInt_no_colon _
        · exact showInt_no_colon _
        · exact hf2)
  obtain ⟨_, _, hcomma, hcolon⟩ := H
  have hlen : (holdExtras h).length = 6 := rfl
  rw [hlen] at hcolon
  have hcolon5 := Nat.succ.inj hcolon
  unfold isHit isHold
  simp only [holdFields]
  simp [hcolon5, hcomma]

/-- the hypotheses on one object of a chart: column inside the key count, file name free of separators -/
def ObjOk (k : Int) : Obj → Prop
  | .hit h => 0 ≤ h.column ∧ h.column < k ∧ ',' ∉ h.file ∧ ':' ∉ h.file
  | .hold h => 0 ≤ h.column ∧ h.column < k ∧ ',' ∉ h.file ∧ ':' ∉ h.file

/-- **the whole `[HitObjects]` section**: for every list of objects (any length, any interleaving of hits and
holds), classifying the written lines by counting and reading them back yields exactly the quantized hits and the
quantized holds, in file order -/
theorem readObjs_writeObjs (R : Render) (k : Int) (hk : 0 < k) (hk' : k ≤ 256) (objs : List Obj)
    (hok : ∀ o ∈ objs, ObjOk k o) :
    mapE (fun s => readHit s k) (((objs.map (writeObj k)).map R.line).filter isHit)
      = .ok ((objs.filterMap objHit).map qHit) ∧
    mapE (fun s => readHold s k) (((objs.map (writeObj k)).map R.line).filter isHold)
      = .ok ((objs.filterMap objHold).map qHold) := by
  induction objs with
  | nil => exact ⟨rfl, rfl⟩
  | cons o os ih =>
    obtain ⟨ih1, ih2⟩ := ih (fun o' ho' => hok o' (by simp [ho']))
    have ho := hok o (by simp)
    cases o with
    | hit h =>
      obtain ⟨a, b, c, d⟩ := ho
      obtain ⟨c1, c2⟩ := classify_writeHit R h k c d
      have r := readHit_writeHit R h k hk hk' a b c d
      constructor
      · simp only [List.map_cons, writeObj, List.filter_cons, c1, if_true, mapE, r, ih1, List.filterMap_cons, objHit]
      · simp only [List.map_cons, writeObj, List.filter_cons, c2, objHold, List.filterMap_cons]
        exact ih2
    | hold h =>
      obtain ⟨a, b, c, d⟩ := ho
      obtain ⟨c1, c2⟩ := classify_writeHold R h k c d
      have r := readHold_writeHold R h k hk hk' a b c d
      constructor
      · simp only [List.map_cons, writeObj, List.filter_cons, c1, objHit, List.filterMap_cons]
        exact ih1
      · simp only [List.map_cons, writeObj, List.filter_cons, c2, if_true, mapE, r, ih2, List.filterMap_cons, objHold]

end Reamber.Osu

namespace Reamber.Osu

/-- the renderer hypotheses for the floats of one tempo line (true of Python's `repr` on doubles) -/
def BpmOk (R : Render) (b : Bpm) : Prop :=
  b.bpm ≠ 0 ∧ readFloat (R.repr b.offset) = .ok b.offset ∧
  readFloat (R.repr (bpmCode b.bpm)) = .ok (bpmCode b.bpm) ∧ ',' ∉ R.repr b.offset ∧ ',' ∉ R.repr (bpmCode b.bpm)

def SvOk (R : Render) (b : Sv) : Prop :=
  b.multiplier ≠ 0 ∧ readFloat (R.repr b.offset) = .ok b.offset ∧
  readFloat (R.repr (svCode b.multiplier)) = .ok (svCode b.multiplier) ∧ ',' ∉ R.repr b.offset ∧
  ',' ∉ R.repr (svCode b.multiplier)

theorem split_writeBpm (R : Render) (b : Bpm) (hno : ',' ∉ R.repr b.offset) (hnc : ',' ∉ R.repr (bpmCode b.bpm)) :
    splitOn ',' (R.line (writeBpm b)) = bpmFields R b := by
  rw [line_writeBpm]
  apply splitOn_joinWith ',' _ (by simp [bpmFields])
  intro p hp
  simp only [bpmFields, List.mem_cons, List.not_mem_nil, or_false] at hp
  rcases hp with rfl | rfl | rfl | rfl | rfl | rfl | rfl | rfl
  · exact hno
  · exact hnc
  all_goals exact showInt_no_comma _

theorem split_writeSv (R : Render) (b : Sv) (hno : ',' ∉ R.repr b.offset) (hnc : ',' ∉ R.repr (svCode b.multiplier)) :
    splitOn ',' (R.line (writeSv b)) = svFields R b := by
  rw [line_writeSv]
  apply splitOn_joinWith ',' _ (by simp [svFields])
  intro p hp
  simp only [svFields, List.mem_cons, List.not_mem_nil, or_false] at hp
  rcases hp with rfl | rfl | rfl | rfl | rfl | rfl | rfl | rfl
  · exact hno
  · exact hnc
  all_goals exact showInt_no_comma _

theorem classify_writeBpm (R : Render) (b : Bpm) (hno : ',' ∉ R.repr b.offset) (hnc : ',' ∉ R.repr (bpmCode b.bpm)) :
    isTimingPoint (R.line (writeBpm b)) = true ∧ isSliderVelocity (R.line (writeBpm b)) = false := by
  unfold isTimingPoint isSliderVelocity
  simp only [split_writeBpm R b hno hnc]
  simp [bpmFields, showInt_one]

theorem classify_writeSv (R : Render) (b : Sv) (hno : ',' ∉ R.repr b.offset) (hnc : ',' ∉ R.repr (svCode b.multiplier)) :
    isTimingPoint (R.line (writeSv b)) = false ∧ isSliderVelocity (R.line (writeSv b)) = true := by
  unfold isTimingPoint isSliderVelocity
  simp only [split_writeSv R b hno hnc]
  simp [svFields, showInt_zero]

theorem bpmLines (R : Render) (bpms : List Bpm) (hb : ∀ b ∈ bpms, BpmOk R b) :
    ((bpms.map writeBpm).map R.line).filter isSliderVelocity = [] ∧
    mapE readBpm (((bpms.map writeBpm).map R.line).filter isTimingPoint) = .ok (bpms.map qBpm) := by
  induction bpms with
  | nil => exact ⟨rfl, rfl⟩
  | cons b bs ih =>
    obtain ⟨i1, i2⟩ := ih (fun b' hb' => hb b' (by simp [hb']))
    obtain ⟨h0, h1, h2, h3, h4⟩ := hb b (by simp)
    obtain ⟨c1, c2⟩ := classify_writeBpm R b h3 h4
    have r := readBpm_writeBpm R b h0 h1 h2 h3 h4
    constructor
    · simp only [List.map_cons, List.filter_cons, c2]; exact i1
    · simp only [List.map_cons, List.filter_cons, c1, if_true, mapE, r, i2]

theorem svLines (R : Render) (svs : List Sv) (hs : ∀ b ∈ svs, SvOk R b) :
    ((svs.map writeSv).map R.line).filter isTimingPoint = [] ∧
    mapE readSv (((svs.map writeSv).map R.line).filter isSliderVelocity) = .ok svs := by
  induction svs with
  | nil => exact ⟨rfl, rfl⟩
  | cons b bs ih =>
    obtain ⟨i1, i2⟩ := ih (fun b' hb' => hs b' (by simp [hb']))
    obtain ⟨h0, h1, h2, h3, h4⟩ := hs b (by simp)
    obtain ⟨c1, c2⟩ := classify_writeSv R b h3 h4
    have r := readSv_writeSv R b h0 h1 h2 h3 h4
    constructor
    · simp only [List.map_cons, List.filter_cons, c1]; exact i1
    · simp only [List.map_cons, List.filter_cons, c2, if_true, mapE, r, i2]

/-- **the whole `[TimingPoints]` section**: the lines `write` emits (all tempo points, then all scroll velocities),
classified by field 6 and read back, are the tempo points (metronome truncated, bpm exact) and the scroll
velocities (unchanged) — for lists of any length; parametric in the float renderer -/
theorem readTiming_writeTiming (R : Render) (bpms : List Bpm) (svs : List Sv)
    (hb : ∀ b ∈ bpms, BpmOk R b) (hs : ∀ b ∈ svs, SvOk R b) :
    mapE readSv (((bpms.map writeBpm ++ svs.map writeSv).map R.line).filter isSliderVelocity) = .ok svs ∧
    mapE readBpm (((bpms.map writeBpm ++ svs.map writeSv).map R.line).filter isTimingPoint) = .ok (bpms.map qBpm) := by
  obtain ⟨b1, b2⟩ := bpmLines R bpms hb
  obtain ⟨s1, s2⟩ := svLines R svs hs
  simp only [List.map_append, List.filter_append, b1, s1, List.nil_append, List.append_nil]
  exact ⟨s2, b2⟩

end Reamber.Osu
