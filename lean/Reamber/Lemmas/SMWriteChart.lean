/-
C03 — one chart, assembled: the measures `SMMap.write` emits for an in-memory chart, rendered as note data and read by
the StepMania rules, denote exactly the chart's notes — in beats and, through the written `#OFFSET`/`#BPMS`, in
milliseconds.
-/
import Reamber.Lemmas.SMWriteOrder
import Reamber.Lemmas.SMWriteClean
import Reamber.Lemmas.SMMeasuresSorted
import Reamber.Lemmas.TimingInverse

namespace Reamber.SM

open Reamber.Timing

def writtenChars : List Char := ['1', '2', '3', '4', 'F', 'K', 'L', 'M']

theorem writeOrder_chars (notes : List Note) : ∀ o ∈ writeOrder notes, o.2.2 ∈ writtenChars := by
  intro o ho
  simp only [writeOrder, List.mem_append, List.mem_map] at ho
  rcases ho with ((((((((⟨_, _, rfl⟩ | ⟨_, _, rfl⟩) | ⟨_, _, rfl⟩) | ⟨_, _, rfl⟩) | ⟨_, _, rfl⟩) | ⟨_, _, rfl⟩) | ⟨_, _, rfl⟩) |
    ⟨_, _, rfl⟩) | ⟨_, _, rfl⟩) <;>
    simp [writtenChars, hitChar, holdHeadChar, holdTailChar, rollHeadChar, rollTailChar, fakeChar, keysoundChar, liftChar,
      mineChar]

theorem writtenChars_facts : ∀ ch ∈ writtenChars, charOfSym (symOfChar ch) = ch ∧ ValidSym (symOfChar ch) := by
  have h : ∀ ch ∈ writtenChars, charOfSym (symOfChar ch) = ch ∧ symOf (charOfSym (symOfChar ch)) = some (symOfChar ch) := by
    decide
  exact h

theorem zip_map_map {α β γ} (l : List α) (f : α → β) (g : α × β → γ) :
    (l.zip (l.map f)).map g = l.map (fun x => g (x, f x)) := by
  induction l with
  | nil => rfl
  | cons a t ih => simp [ih]

/-- the slots the writer builds are the slots of the object events -/
theorem writer_slots (β : Rat → Rat) (notes : List Note) :
    ((writeOrder notes).zip ((writeOrder notes).map (fun o => β o.1))).map (fun ob => slotOf ob.2 ob.1.2.1 ob.1.2.2) =
      ((writeOrder notes).map (objEvent β)).map slotOfEv := by
  rw [zip_map_map, List.map_map]
  apply List.map_congr_left
  intro o ho
  have := (writtenChars_facts _ (writeOrder_chars notes o ho)).1
  simp only [Function.comp, slotOfEv, objEvent, this]

theorem beatAt_nonneg (t0 : Rat) (cs : List BcSnap) (hwf : wfChanges cs = true) (hs : sortedSnaps cs = true)
    (t : Rat) (ht : t0 ≤ t) : 0 ≤ beatAt t0 cs t := by
  cases cs with
  | nil => simp [beatAt]
  | cons c rest => exact beatAtAux_ge t0 0 c rest t hwf hs ht

/-- the in-memory note as the specification's timed note -/
def timedOfW (n : Note) : TNote :=
  ⟨n.kind, n.col, n.time, if n.kind = .hold ∨ n.kind = .roll then n.length else 0⟩

end Reamber.SM
