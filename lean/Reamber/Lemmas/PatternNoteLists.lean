/-
C20 — `Pattern.from_note_lists`: the frame holds every note of every list and, when requested, one `HoldTail`
per item of every list whose item class is a `Hold` — nothing else.
-/
import Reamber.Lemmas.PatternGroup

namespace Reamber.Pattern

theorem flatMap_filter_ite {α β} (p : α → Bool) (f : α → List β) (l : List α) :
    (l.filter p).flatMap f = l.flatMap (fun x => if p x = true then f x else []) := by
  induction l with
  | nil => rfl
  | cons a t ih => cases hp : p a <;> simp [List.filter_cons, hp, ih]

theorem flatMap_filter_of_nil {α β} (p : α → Bool) (f : α → List β) (l : List α)
    (h : ∀ x ∈ l, p x = false → f x = []) : (l.filter p).flatMap f = l.flatMap f := by
  induction l with
  | nil => rfl
  | cons a t ih =>
    have iht := ih (fun x hx => h x (List.mem_cons_of_mem _ hx))
    cases hp : p a
    · simp [List.filter_cons, hp, iht, h a (List.mem_cons_self ..) hp]
    · simp [List.filter_cons, hp, iht]

theorem flatMap_append_perm {α β} (f g : α → List β) (l : List α) :
    (l.flatMap (fun x => f x ++ g x)).Perm (l.flatMap f ++ l.flatMap g) := by
  induction l with
  | nil => simp
  | cons a t ih =>
    simp only [List.flatMap_cons, List.append_assoc]
    refine List.Perm.append_left (f a) ?_
    -- g a ++ R ~ F ++ (g a ++ G)
    refine (List.Perm.append_left (g a) ih).trans ?_
    have e1 : g a ++ (t.flatMap f ++ t.flatMap g) = (g a ++ t.flatMap f) ++ t.flatMap g := by
      rw [List.append_assoc]
    have e2 : t.flatMap f ++ (g a ++ t.flatMap g) = (t.flatMap f ++ g a) ++ t.flatMap g := by
      rw [List.append_assoc]
    rw [e1, e2]
    exact List.Perm.append_right _ List.perm_append_comm

def headsOf (nl : NoteList) : List Row := nl.items.map (fun it => (⟨it.1, it.2.1, nl.ty⟩ : Row))
def tailsOf (nl : NoteList) : List Row := nl.items.map (fun it => (⟨it.1, it.2.1 + it.2.2, .holdTail⟩ : Row))

theorem fromNoteLists_perm (nls : List NoteList) (includeTails : Bool) :
    (fromNoteLists nls includeTails).Perm (expectedRows nls includeTails) := by
  unfold fromNoteLists mkPattern
  refine (isort_perm _ _).trans ?_
  have hdrop : (nls.filter (fun nl => !nl.items.isEmpty)).flatMap (noteListRows includeTails)
      = nls.flatMap (noteListRows includeTails) := by
    apply flatMap_filter_of_nil
    intro nl _ hnl
    have : nl.items = [] := by
      cases h : nl.items with
      | nil => rfl
      | cons _ _ => simp [h] at hnl
    simp [noteListRows, this]
  rw [hdrop]
  have hfun : noteListRows includeTails =
      fun nl => headsOf nl ++ (if (includeTails && isSub nl.ty .hold) = true then tailsOf nl else []) := by
    funext nl; rfl
  rw [hfun]
  refine (flatMap_append_perm _ _ nls).trans ?_
  have hexp : expectedRows nls includeTails = nls.flatMap headsOf ++
      (if includeTails = true then (nls.filter (fun nl => isSub nl.ty .hold)).flatMap tailsOf else []) := rfl
  rw [hexp]
  refine List.Perm.append_left _ ?_
  cases includeTails
  · simp
  · simp only [Bool.true_and, if_true]
    rw [flatMap_filter_ite]

end Reamber.Pattern
