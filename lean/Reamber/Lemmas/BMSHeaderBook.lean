/-
C04 — the specification's header record (`bookHeader`: tables by `bookTable`, selection by `exbpmId` / `wavId`)
against the reader's `_read_file_header` (`readHeader`: two loops over the dict with `upper().startswith`, slices
`k[3:]`, `k[-2:]`, pops), on every header table.
-/
import Reamber.Lemmas.BMSLex

namespace Reamber.BMS

theorem exbpmId_spec (k : Bytes) :
    (exbpmId k).isSome = isExbpmKey k ∧ ∀ id, exbpmId k = some id → id = k.drop 3 := by
  rcases k with _ | ⟨a, _ | ⟨b, _ | ⟨c, _ | ⟨d, _ | ⟨e, _ | ⟨f, t⟩⟩⟩⟩⟩⟩
  · exact ⟨by simp [exbpmId, isExbpmKey], by intro id h; simp [exbpmId] at h⟩
  · exact ⟨by simp [exbpmId, isExbpmKey], by intro id h; simp [exbpmId] at h⟩
  · exact ⟨by simp [exbpmId, isExbpmKey], by intro id h; simp [exbpmId] at h⟩
  · exact ⟨by simp [exbpmId, isExbpmKey], by intro id h; simp [exbpmId] at h⟩
  · exact ⟨by simp [exbpmId, isExbpmKey], by intro id h; simp [exbpmId] at h⟩
  · constructor
    · by_cases h : upper a = 'B' ∧ upper b = 'P' ∧ upper c = 'M'
      · simp [exbpmId, isExbpmKey, h]
      · have h' : ¬ (upper a = 'B' ∧ upper b = 'P' ∧ upper c = 'M') := h
        simp only [exbpmId, isExbpmKey, h, if_false, Option.isSome_none, List.take_succ_cons, List.take_zero,
          List.map_cons, List.map_nil, List.length_cons, List.length_nil]
        symm
        simp only [Bool.and_eq_false_iff, decide_eq_false_iff_not, List.cons.injEq, and_true]
        left
        intro hh
        exact h' ⟨hh.1, hh.2.1, hh.2.2⟩
    · intro id h
      simp only [exbpmId] at h
      split at h
      · injection h with h; rw [← h]; rfl
      · cases h
  · exact ⟨by simp [exbpmId, isExbpmKey], by intro id h; simp [exbpmId] at h⟩

theorem wavId_spec (k : Bytes) :
    ((wavId k).isSome = true → isWavKey k = true) ∧ (isWavKey k = wavLike k) ∧
    ∀ id, wavId k = some id → id = k.drop (k.length - 2) := by
  rcases k with _ | ⟨a, _ | ⟨b, _ | ⟨c, _ | ⟨d, _ | ⟨e, _ | ⟨f, t⟩⟩⟩⟩⟩⟩
  · exact ⟨(by intro h; simp [wavId] at h), (by simp [isWavKey, wavLike]), (by intro id h; simp [wavId] at h)⟩
  · exact ⟨(by intro h; simp [wavId] at h), (by simp [isWavKey, wavLike]), (by intro id h; simp [wavId] at h)⟩
  · exact ⟨(by intro h; simp [wavId] at h), (by simp [isWavKey, wavLike]), (by intro id h; simp [wavId] at h)⟩
  · exact ⟨(by intro h; simp [wavId] at h), (by simp [isWavKey, wavLike, Bool.and_assoc]), (by intro id h; simp [wavId] at h)⟩
  · exact ⟨(by intro h; simp [wavId] at h), (by simp [isWavKey, wavLike, Bool.and_assoc]), (by intro id h; simp [wavId] at h)⟩
  · refine ⟨?_, (by simp [isWavKey, wavLike, Bool.and_assoc]), ?_⟩
    · intro h
      simp only [wavId] at h
      split at h
      · rename_i hh
        simp [isWavKey, hh.1, hh.2.1, hh.2.2]
      · cases h
    · intro id h
      simp only [wavId] at h
      split at h
      · injection h with h; rw [← h]; rfl
      · cases h
  · exact ⟨(by intro h; simp [wavId] at h), (by simp [isWavKey, wavLike, Bool.and_assoc]), (by intro id h; simp [wavId] at h)⟩

/-- the `#BPMxx` loop: all values parse ⇒ the loop succeeds with the fold of the parsed definitions -/
theorem exbpmFold (tbl : Dict Bytes) : ∀ (ex : List (Bytes × Rat)) (acc : Dict Rat),
    allSome ((tbl.filterMap (fun kv => (exbpmId kv.1).map (fun id => (id, kv.2)))).map
      (fun p => (parseFloat p.2).map (fun v => (p.1, v)))) = some ex →
    foldlE exbpmStep acc tbl = .ok (ex.foldl (fun d kv => dictSet d kv.1 kv.2) acc) := by
  induction tbl with
  | nil =>
    intro ex acc h
    simp only [List.filterMap_nil, List.map_nil, allSome, Option.some.injEq] at h
    subst h; rfl
  | cons kv t ih =>
    intro ex acc h
    obtain ⟨hs, hid⟩ := exbpmId_spec kv.1
    cases hk : exbpmId kv.1 with
    | none =>
      have hfm : (kv :: t).filterMap (fun kv => (exbpmId kv.1).map (fun id => (id, kv.2))) =
          t.filterMap (fun kv => (exbpmId kv.1).map (fun id => (id, kv.2))) := by
        simp [List.filterMap_cons, hk]
      rw [hfm] at h
      have hno : isExbpmKey kv.1 = false := by rw [← hs, hk]; rfl
      simp only [foldlE, exbpmStep, hno, Bool.false_eq_true, if_false]
      exact ih ex acc h
    | some id =>
      have hfm : (kv :: t).filterMap (fun kv => (exbpmId kv.1).map (fun id => (id, kv.2))) =
          (id, kv.2) :: t.filterMap (fun kv => (exbpmId kv.1).map (fun id => (id, kv.2))) := by
        simp [List.filterMap_cons, hk]
      rw [hfm] at h
      have hyes : isExbpmKey kv.1 = true := by rw [← hs, hk]; rfl
      have hdrop : id = kv.1.drop 3 := hid id hk
      simp only [List.map_cons, allSome] at h
      cases hp : parseFloat kv.2 with
      | none => simp [hp, allSome] at h
      | some v =>
        simp only [hp, Option.map_some, allSome] at h
        cases hrest : allSome ((t.filterMap (fun kv => (exbpmId kv.1).map (fun id => (id, kv.2)))).map
            (fun p => (parseFloat p.2).map (fun v => (p.1, v)))) with
        | none => simp [hrest] at h
        | some ex' =>
          simp only [hrest, Option.map_some, Option.some.injEq] at h
          subst h
          simp only [foldlE, exbpmStep, hyes, if_true, hp, List.foldl_cons, ← hdrop]
          exact ih ex' _ hrest

/-- the `#WAVxx` loop: with no `#WAV…` name other than `#WAVxx`, the loop is the fold of the `#WAVxx` definitions -/
theorem wavFold_book (tbl : Dict Bytes) (hw : ∀ kv ∈ tbl, wavLike kv.1 = true → (wavId kv.1).isSome = true) :
    ∀ (acc : Dict Bytes),
    tbl.foldl (fun d kv => if isWavKey kv.1 then dictSet d (kv.1.drop (kv.1.length - 2)) kv.2 else d) acc =
      (tbl.filterMap (fun kv => (wavId kv.1).map (fun id => (id, kv.2)))).foldl (fun d kv => dictSet d kv.1 kv.2) acc := by
  induction tbl with
  | nil => intro acc; rfl
  | cons kv t ih =>
    intro acc
    obtain ⟨h1, h2, h3⟩ := wavId_spec kv.1
    have ih' := ih (fun kv' hkv' => hw kv' (List.mem_cons_of_mem _ hkv'))
    cases hk : wavId kv.1 with
    | none =>
      have hnl : wavLike kv.1 = false := by
        cases hl : wavLike kv.1 with
        | false => rfl
        | true =>
          have := hw kv (by simp) hl
          rw [hk] at this; cases this
      have hno : isWavKey kv.1 = false := by rw [h2, hnl]
      simp only [List.foldl_cons, hno, Bool.false_eq_true, if_false, List.filterMap_cons, hk, Option.map_none]
      exact ih' acc
    | some id =>
      have hyes : isWavKey kv.1 = true := h1 (by rw [hk]; rfl)
      have hdrop := h3 id hk
      simp only [List.foldl_cons, hyes, if_true, List.filterMap_cons, hk, Option.map_some, ← hdrop]
      exact ih' _

theorem dictGet?_filter {α} (d : Dict α) (p : Bytes × α → Bool) (k : Bytes) (hp : ∀ kv ∈ d, kv.1 = k → p kv = true) :
    dictGet? (d.filter p) k = dictGet? d k := by
  unfold dictGet?
  congr 1
  induction d with
  | nil => rfl
  | cons a t ih =>
    have iht := ih (fun kv hkv => hp kv (List.mem_cons_of_mem _ hkv))
    by_cases ha : a.1 = k
    · have := hp a (by simp) ha
      simp [List.filter_cons, this, List.find?_cons, ha]
    · by_cases hpa : p a = true
      · simp only [List.filter_cons, hpa, if_true, List.find?_cons, ha, decide_false]
        exact iht
      · simp only [List.filter_cons, hpa, Bool.false_eq_true, if_false, List.find?_cons, ha, decide_false]
        exact iht

/-- **The reader's `_read_file_header` is the by-the-book header record** on every header table to which the
specification gives a meaning. -/
theorem bookHeader_readHeader (tbl : Dict Bytes) (h : Header) (hb : bookHeader tbl = some h) : readHeader tbl = .ok h := by
  unfold bookHeader at hb
  by_cases hany : tbl.any (fun kv => wavLike kv.1 && (wavId kv.1).isNone) = true
  · rw [if_pos hany] at hb; cases hb
  · rw [if_neg hany] at hb
    have hw : ∀ kv ∈ tbl, wavLike kv.1 = true → (wavId kv.1).isSome = true := by
      intro kv hkv hl
      cases hs : (wavId kv.1).isSome with
      | true => rfl
      | false =>
        exfalso
        apply hany
        refine List.any_eq_true.mpr ⟨kv, hkv, ?_⟩
        have : (wavId kv.1).isNone = true := by
          cases hx : wavId kv.1 with
          | none => rfl
          | some _ => rw [hx] at hs; cases hs
        rw [hl, this]; rfl
    cases hex : allSome ((tbl.filterMap (fun kv => (exbpmId kv.1).map (fun id => (id, kv.2)))).map
        (fun p => (parseFloat p.2).map (fun v => (p.1, v)))) with
    | none => rw [hex] at hb; cases hb
    | some ex =>
      rw [hex] at hb
      cases hbpm : dictGet? tbl "BPM".toList with
      | none => rw [hbpm] at hb; cases hb
      | some v =>
        rw [hbpm] at hb
        cases hpf : parseFloat v with
        | none =>
          rw [show (some v).bind parseFloat = parseFloat v from rfl, hpf] at hb
          cases hb
        | some bpm0 =>
          rw [show (some v).bind parseFloat = parseFloat v from rfl, hpf] at hb
          injection hb with hb
          subst hb
          have hd : Generated.BMS.missingHeaderDefault.toList = [] := by decide +kernel
          have hfilter : ∀ kv : Bytes × Bytes, (!(isExbpmKey kv.1) && !(isWavKey kv.1)) =
              ((exbpmId kv.1).isNone && (wavLike kv.1 == false)) := by
            intro kv
            rw [← (exbpmId_spec kv.1).1, (wavId_spec kv.1).2.1]
            cases exbpmId kv.1 <;> cases wavLike kv.1 <;> rfl
          have hrestBPM : dictGet? (tbl.filter (fun kv => !(isExbpmKey kv.1) && !(isWavKey kv.1))) "BPM".toList = some v := by
            rw [dictGet?_filter _ _ _ ?_, hbpm]
            intro kv _ hk
            rw [hk]; decide
          have hmisc : (tbl.filter (fun kv => !(isExbpmKey kv.1) && !(isWavKey kv.1))).filter (fun kv => kv.1 ≠ "BPM".toList) =
              tbl.filter (fun kv => (exbpmId kv.1).isNone && (wavId kv.1).isNone && decide (kv.1 ≠ "BPM".toList)) := by
            rw [List.filter_filter]
            apply List.filter_congr
            intro kv hkv
            rw [hfilter kv]
            cases hl : wavLike kv.1 with
            | false =>
              have : (wavId kv.1).isNone = true := by
                cases hx : wavId kv.1 with
                | none => rfl
                | some id =>
                  have := (wavId_spec kv.1).1 (by rw [hx]; rfl)
                  rw [(wavId_spec kv.1).2.1, hl] at this; cases this
              rw [this]
              cases (exbpmId kv.1).isNone <;> cases decide (kv.1 ≠ "BPM".toList) <;> rfl
            | true =>
              have := hw kv hkv hl
              have hn : (wavId kv.1).isNone = false := by
                cases hx : wavId kv.1 with
                | none => rw [hx] at this; cases this
                | some _ => rfl
              rw [hn]
              cases (exbpmId kv.1).isNone <;> cases decide (kv.1 ≠ "BPM".toList) <;> rfl
          unfold readHeader
          rw [exbpmFold tbl ex [] hex]
          simp only [bind, Except.bind]
          rw [hrestBPM]
          simp only [hpf]
          rw [hd, wavFold_book tbl hw [], bookTable_eq_fold, bookTable_eq_fold, hmisc]

/-- **The specification's denotation — its own lexer, header table and header record — is the shared-semantics
denotation `denote` of the same text**, and the reader's line loop and header reader produce exactly the
specification's `Doc` and header record. -/
theorem denoteText_eq_denote (lay : Layout) (lines : List Bytes) (d : Denotation) (h : denoteText lay lines = some d) :
    denote lay lines = some d ∧ ∃ doc, bookDoc lines = some doc ∧ parseDoc lines = .ok doc ∧
      bookHeader doc.header = some d.header ∧ readHeader doc.header = .ok d.header := by
  unfold denoteText at h
  cases hb : bookDoc lines with
  | none => simp [hb] at h
  | some doc =>
    simp only [hb] at h
    have hp := bookDoc_parseDoc lines doc hb
    unfold denoteDocBook at h
    cases hh : bookHeader doc.header with
    | none => simp [hh] at h
    | some hdr =>
      simp only [hh] at h
      have hr := bookHeader_readHeader doc.header hdr hh
      have hdh : d.header = hdr := by
        split at h
        · cases h
        · injection h with h; rw [← h]
      refine ⟨?_, doc, rfl, hp, by rw [hdh]; exact hh, by rw [hdh]; exact hr⟩
      unfold denote
      simp only [hp, hr]
      exact h

end Reamber.BMS
