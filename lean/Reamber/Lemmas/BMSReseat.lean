/-
C04 — the final `tm.reseat()` of `BMSMap._read_notes` lies in C11's domain.

The tempo list the BMS reader hands to the timing engine has metronome 4 everywhere and, when it is grid-compatible
on the shipped grid of 96 (¬D22), every beat distance between consecutive changes has a fractional part that is
either 0 or at least 1/96 — far above the reseat threshold 1/1000.  Hence branch 2 ("extend by metronome", D16)
never fires and no gap is tiny (D16b): the list is in `Dom extendThreshold` and C11's theorems apply.  No
hypothesis beyond grid-compatibility is needed.
-/
import Reamber.Lemmas.SMTempo
import Reamber.Lemmas.TimingD22

namespace Reamber.Timing

/-- a positive rational is at least the reciprocal of any bound on its denominator -/
theorem ge_inv_of_den_le {z : Rat} {N : Nat} (hz : 0 < z) (hd : z.den ≤ N) : (1 : Rat) / (N : Rat) ≤ z := by
  have hnum : (1 : Int) ≤ z.num := Rat.num_pos.mpr hz
  have hden : (0 : Rat) < (z.den : Rat) := by exact_mod_cast z.den_pos
  have hN : (0 : Rat) < (N : Rat) := lt_of_lt_of_le hden (by exact_mod_cast hd)
  have hzq : z = (z.num : Rat) / (z.den : Rat) := (Rat.num_div_den z).symm
  rw [hzq, div_le_div_iff₀ hN hden]
  have h1 : (1 : Rat) ≤ (z.num : Rat) := by exact_mod_cast hnum
  have h2 : (z.den : Rat) ≤ (N : Rat) := by exact_mod_cast hd
  nlinarith

/-- a positive value of `grid N` is at least `1/N` -/
theorem grid_pos_ge {N : Nat} (hN : 0 < N) {z : Rat} (h : z ∈ grid N) (hz : 0 < z) : (1 : Rat) / (N : Rat) ≤ z :=
  ge_inv_of_den_le hz (grid_den_le hN h)

theorem frac_eq_self {x : Rat} (h0 : 0 ≤ x) (h1 : x < 1) : frac x = x := by
  have hfl : x.floor = 0 := by
    have h := Rat.floor_le x
    have h' := Rat.lt_floor_add_one x
    have a : (x.floor : Rat) < 1 := lt_of_le_of_lt h h1
    have b : (-1 : Rat) < (x.floor : Rat) := by push_cast at h'; linarith
    have a' : x.floor < 1 := by exact_mod_cast a
    have b' : (-1 : Int) < x.floor := by exact_mod_cast b
    omega
  unfold frac
  rw [hfl]; simp

/-- **Grid-compatible 4/4 tempo lists lie in C11's domain.**  For an ascending list of constructor-built changes
with metronome 4 that starts at measure 0 beat 0 and is grid-compatible on `grid N` with `1/N` above the threshold:
branch 2 never fires and no gap is tiny. -/
theorem dom_of_gridCompatible {N : Nat} (hN : 0 < N) (thr : Rat) (hthr : 4 * thr < 1 / (N : Rat)) (_hthr0 : 0 ≤ thr)
    (cs : List BcSnap) (hwf : wfB cs = true) (hmet : ∀ c ∈ cs, c.met = 4)
    (hs : sortedSnaps cs = true) (h0 : firstZeroB cs = true) (hgc : gridCompatible (grid N) cs = true) :
    Dom thr cs := by
  have hNq : (0 : Rat) < (N : Rat) := by exact_mod_cast hN
  have hinv : (0 : Rat) < 1 / (N : Rat) := by positivity
  have hinv1 : 1 / (N : Rat) ≤ 1 := by
    rw [div_le_one hNq]; exact_mod_cast hN
  refine ⟨hs, hwf, h0, ?_, ?_, ?_⟩
  · -- branch 2 never fires
    simp only [noBeatExtendB, Bool.not_eq_true']
    clear hs h0 hwf
    induction cs with
    | nil => rfl
    | cons a t ih =>
      cases t with
      | nil => rfl
      | cons b r =>
        obtain ⟨hmem, hrest⟩ := gridCompatible_cons hgc
        simp only [anyAdj, Bool.or_eq_false_iff]
        refine ⟨?_, ih (fun c hc => hmet c (List.mem_cons_of_mem _ hc)) hrest⟩
        simp only [beatExtendAt, beatDist, Bool.and_eq_false_iff]
        by_cases hp : 0 < frac (snapDist a.snap b.snap a.met)
        · right
          have := grid_pos_ge hN hmem hp
          apply decide_eq_false
          intro hle
          linarith
        · left; right; exact decide_eq_false hp
  · -- no tiny gap
    simp only [noTinyGapB, Bool.not_eq_true']
    clear hs h0 hwf
    induction cs with
    | nil => rfl
    | cons a t ih =>
      cases t with
      | nil => rfl
      | cons b r =>
        obtain ⟨hmem, hrest⟩ := gridCompatible_cons hgc
        simp only [anyAdj, Bool.or_eq_false_iff]
        refine ⟨?_, ih (fun c hc => hmet c (List.mem_cons_of_mem _ hc)) hrest⟩
        have ha : a.met = 4 := hmet a (by simp)
        simp only [tinyGapAt, measDist, beatDist, Bool.and_eq_false_iff, ha]
        by_cases hp : 0 < snapDist a.snap b.snap 4 / 4
        · right
          apply decide_eq_false
          intro hle
          have hd0 : 0 < snapDist a.snap b.snap 4 := by linarith
          have hd1 : snapDist a.snap b.snap 4 ≤ 4 * thr := by linarith
          have hlt : snapDist a.snap b.snap 4 < 1 := by linarith
          have hfr := frac_eq_self (le_of_lt hd0) hlt
          rw [ha, hfr] at hmem
          have := grid_pos_ge hN hmem hd0
          linarith
        · left; exact decide_eq_false hp
  · -- the metronome 4 is whole
    simp only [metOkB, List.all_eq_true]
    intro c hc
    have h4 : frac (4 : Rat) = 0 := by decide +kernel
    rw [hmet c hc, h4]
    simp

/-- `tmOf` starts at `t0` -/
theorem tmOf_head_offset (t0 : Rat) (c : BcSnap) (rest : List BcSnap) :
    ((tmOf t0 (c :: rest)).head?.map (·.offset)).getD 0 = t0 := by
  simp [tmOf]

end Reamber.Timing
