/-
Helper lemmas for C12 (stacking): cell lookup / projection algebra, positional slices of pointwise updates,
the write-back = per-list update step, coupling after `mkStacker` and after every assignment.
-/
import Reamber.Spec.Stack

namespace Reamber.Stack

/-! ### lookup and projection -/

theorem getC_of_not_mem (cs : Cells) (c : String) (h : c ∉ keys cs) : getC cs c = .nan := by
  induction cs with
  | nil => rfl
  | cons kv t ih =>
    obtain ⟨k, v⟩ := kv
    simp only [keys, List.map_cons, List.mem_cons, not_or] at h
    simp only [getC]
    rw [if_neg (fun e => h.1 e.symm)]
    exact ih (by simpa [keys] using h.2)

theorem mem_keys_cons (k : String) (v : Cell) (t : Cells) (c : String) (hk : ¬ k = c) :
    c ∈ keys ((k, v) :: t) ↔ c ∈ keys t := by
  unfold keys
  rw [List.map_cons, List.mem_cons]
  constructor
  · intro h; rcases h with h | h
    · exact absurd h.symm hk
    · exact h
  · intro h; exact Or.inr h

theorem mem_keys_self (k : String) (v : Cell) (t : Cells) : k ∈ keys ((k, v) :: t) := by
  unfold keys; rw [List.map_cons]; exact List.mem_cons_self

theorem getC_cons_eq (k : String) (v : Cell) (t : Cells) : getC ((k, v) :: t) k = v := by
  show (if k = k then v else getC t k) = v
  rw [if_pos rfl]

theorem getC_cons_ne (k : String) (v : Cell) (t : Cells) (c : String) (hk : ¬ k = c) :
    getC ((k, v) :: t) c = getC t c := by
  show (if k = c then v else getC t c) = getC t c
  rw [if_neg hk]

theorem getC_append (a b : Cells) (c : String) :
    getC (a ++ b) c = if c ∈ keys a then getC a c else getC b c := by
  induction a with
  | nil => simp [keys]
  | cons kv t ih =>
    obtain ⟨k, v⟩ := kv
    rw [List.cons_append]
    by_cases hk : k = c
    · subst hk
      rw [getC_cons_eq, if_pos (mem_keys_self k v t), getC_cons_eq]
    · rw [getC_cons_ne _ _ _ _ hk, ih, getC_cons_ne _ _ _ _ hk]
      by_cases hm : c ∈ keys t
      · rw [if_pos hm, if_pos ((mem_keys_cons k v t c hk).mpr hm)]
      · rw [if_neg hm, if_neg (fun h => hm ((mem_keys_cons k v t c hk).mp h))]

theorem getC_map_mk (L : List String) (h : String → Cell) (c : String) :
    getC (L.map (fun k => (k, h k))) c = if c ∈ L then h c else .nan := by
  induction L with
  | nil => simp [getC]
  | cons k t ih =>
    rw [List.map_cons]
    by_cases hk : k = c
    · subst hk
      rw [getC_cons_eq, if_pos List.mem_cons_self]
    · rw [getC_cons_ne _ _ _ _ hk, ih]
      by_cases hm : c ∈ t
      · rw [if_pos hm, if_pos (List.mem_cons_of_mem _ hm)]
      · have : c ∉ k :: t := by
          intro h2; rcases List.mem_cons.mp h2 with h2 | h2
          · exact hk h2.symm
          · exact hm h2
        rw [if_neg hm, if_neg this]

theorem getC_proj (cols : List String) (cs : Cells) (c : String) :
    getC (proj cols cs) c = if c ∈ cols then getC cs c else .nan := by
  unfold proj
  exact getC_map_mk cols (fun k => getC cs k) c

/-- one cell of the per-list assignment -/
def specKV (cols : List String) (g : String → Cell → Cell) (kv : String × Cell) : String × Cell :=
  if cols.contains kv.1 then (kv.1, g kv.1 kv.2) else kv

theorem specKV_fst (cols : List String) (g : String → Cell → Cell) (kv : String × Cell) :
    (specKV cols g kv).1 = kv.1 := by
  unfold specKV; split <;> rfl

theorem specKV_snd (cols : List String) (g : String → Cell → Cell) (k : String) (v : Cell) :
    (specKV cols g (k, v)).2 = if cols.contains k then g k v else v := by
  unfold specKV; split <;> rfl

theorem specCells_eq (cols : List String) (g : String → Cell → Cell) (cs : Cells) :
    specCells cols g cs = cs.map (specKV cols g) := rfl

theorem keys_specCells (cols : List String) (g : String → Cell → Cell) (cs : Cells) :
    keys (specCells cols g cs) = keys cs := by
  rw [specCells_eq]
  unfold keys
  rw [List.map_map]
  apply List.map_congr_left
  intro kv _
  exact specKV_fst cols g kv

theorem getC_specCells_mem (cols : List String) (g : String → Cell → Cell) (cs : Cells) (c : String)
    (hm : c ∈ keys cs) :
    getC (specCells cols g cs) c = if cols.contains c then g c (getC cs c) else getC cs c := by
  rw [specCells_eq]
  induction cs with
  | nil => simp [keys] at hm
  | cons kv t ih =>
    obtain ⟨k, v⟩ := kv
    rw [List.map_cons]
    have hpair : specKV cols g (k, v) = (k, (specKV cols g (k, v)).2) := by
      have := specKV_fst cols g (k, v)
      exact Prod.ext this rfl
    rw [hpair]
    by_cases hk : k = c
    · subst hk
      rw [getC_cons_eq, getC_cons_eq, specKV_snd]
    · rw [getC_cons_ne _ _ _ _ hk, getC_cons_ne _ _ _ _ hk]
      exact ih ((mem_keys_cons k v t c hk).mp hm)

theorem getC_updCells (cols : List String) (g : String → Cell → Cell) (cs : Cells) (c : String) :
    getC (updCells cols g cs) c = if cols.contains c then g c (getC cs c) else getC cs c := by
  have hupd : updCells cols g cs
      = specCells cols g cs ++ (cols.filter (fun c => !(keys cs).contains c)).map (fun c => (c, g c .nan)) := rfl
  rw [hupd, getC_append, keys_specCells]
  by_cases hm : c ∈ keys cs
  · rw [if_pos hm, getC_specCells_mem cols g cs c hm]
  · rw [if_neg hm, getC_map_mk, getC_of_not_mem cs c hm]
    by_cases hc : cols.contains c = true
    · have hmem : c ∈ cols.filter (fun c => !(keys cs).contains c) := by
        rw [List.mem_filter]
        refine ⟨by simpa using hc, ?_⟩
        simpa using hm
      rw [if_pos hmem, if_pos hc]
    · have hmem : c ∉ cols.filter (fun c => !(keys cs).contains c) := by
        rw [List.mem_filter]
        intro h
        exact hc (by simpa using h.1)
      rw [if_neg hmem, if_neg hc]

theorem getC_padCells (cols : List String) (cs : Cells) (c : String) :
    getC (padCells cols cs) c = getC cs c := by
  unfold padCells
  rw [getC_append]
  by_cases hm : c ∈ keys cs
  · rw [if_pos hm]
  · rw [if_neg hm, getC_map_mk, getC_of_not_mem cs c hm]
    split <;> rfl

theorem proj_updCells (C cols : List String) (g : String → Cell → Cell) (cs : Cells) :
    proj C (updCells cols g cs) = specCells cols g (proj C cs) := by
  rw [specCells_eq]
  unfold proj
  rw [List.map_map]
  apply List.map_congr_left
  intro c _
  show (c, getC (updCells cols g cs) c) = specKV cols g (c, getC cs c)
  rw [getC_updCells]
  unfold specKV
  by_cases hc : cols.contains c = true
  · rw [if_pos hc, if_pos hc]
  · rw [if_neg hc, if_neg hc]

theorem proj_padCells (C cols : List String) (cs : Cells) : proj C (padCells cols cs) = proj C cs := by
  unfold proj
  apply List.map_congr_left
  intro c _
  rw [getC_padCells]

theorem proj_proj (C U : List String) (cs : Cells) (h : ∀ c ∈ C, c ∈ U) : proj C (proj U cs) = proj C cs := by
  unfold proj
  apply List.map_congr_left
  intro c hc
  have := getC_proj U cs c
  unfold proj at this
  rw [this, if_pos (h c hc)]

theorem proj_cons_of_ne (C : List String) (k : String) (v : Cell) (cs : Cells) (h : k ∉ C) :
    proj C ((k, v) :: cs) = proj C cs := by
  unfold proj
  apply List.map_congr_left
  intro c hc
  have : ¬ k = c := fun e => h (e ▸ hc)
  simp [getC, this]

theorem proj_self : ∀ (cols : List String) (cs : Cells), keys cs = cols → cols.Nodup → proj cols cs = cs := by
  intro cols cs
  induction cs generalizing cols with
  | nil => intro h _; simp [keys] at h; subst h; rfl
  | cons kv t ih =>
    obtain ⟨k, v⟩ := kv
    intro h hn
    cases cols with
    | nil => simp [keys] at h
    | cons c cs' =>
      simp only [keys, List.map_cons, List.cons.injEq] at h
      obtain ⟨hk, ht⟩ := h
      subst hk
      have hn' := List.nodup_cons.mp hn
      have h1 : proj cs' ((k, v) :: t) = proj cs' t := proj_cons_of_ne cs' k v t hn'.1
      show (k, getC ((k, v) :: t) k) :: proj cs' ((k, v) :: t) = (k, v) :: t
      rw [h1, ih cs' (by simpa [keys] using ht) hn'.2]
      simp [getC]

/-! ### positional slices of a pointwise update -/

theorem updRows_length (sel : Nat → Bool) (cols : List String) (g : Nat → String → Cell → Cell) :
    ∀ (i : Nat) (rows : List Cells), (updRows sel cols g i rows).length = rows.length := by
  intro i rows
  induction rows generalizing i with
  | nil => rfl
  | cons r rs ih => simp [updRows, ih]

theorem drop_updRows (sel : Nat → Bool) (cols : List String) (g : Nat → String → Cell → Cell) :
    ∀ (a i : Nat) (rows : List Cells), (updRows sel cols g i rows).drop a = updRows sel cols g (i + a) (rows.drop a) := by
  intro a
  induction a with
  | zero => intro i rows; simp
  | succ a ih =>
    intro i rows
    cases rows with
    | nil => simp [updRows]
    | cons r rs =>
      simp only [updRows, List.drop_succ_cons]
      rw [ih (i + 1) rs]
      congr 1
      omega

theorem take_updRows (sel : Nat → Bool) (cols : List String) (g : Nat → String → Cell → Cell) :
    ∀ (n i : Nat) (rows : List Cells), (updRows sel cols g i rows).take n = updRows sel cols g i (rows.take n) := by
  intro n
  induction n with
  | zero => intro i rows; simp [updRows]
  | succ n ih =>
    intro i rows
    cases rows with
    | nil => simp [updRows]
    | cons r rs => simp [updRows, ih]

theorem sliceRows_updRows (sel : Nat → Bool) (cols : List String) (g : Nat → String → Cell → Cell)
    (rows : List Cells) (off n : Nat) :
    sliceRows (updRows sel cols g 0 rows) off n = updRows sel cols g off (sliceRows rows off n) := by
  unfold sliceRows
  rw [drop_updRows, take_updRows]
  simp

theorem map_proj_updRows (C : List String) (sel : Nat → Bool) (cols : List String) (g : Nat → String → Cell → Cell) :
    ∀ (i : Nat) (rows : List Cells),
      (updRows sel cols g i rows).map (proj C) = specRows sel cols g i (rows.map (proj C)) := by
  intro i rows
  induction rows generalizing i with
  | nil => rfl
  | cons r rs ih =>
    simp only [updRows, List.map_cons, specRows, ih]
    by_cases hs : sel i
    · simp [hs, proj_updCells]
    · simp [hs, proj_padCells]

theorem mkRows_cells (cols : List String) : ∀ (i : Nat) (xs : List Cells),
    (mkRows cols i xs).map (·.cells) = xs.map (proj cols) := by
  intro i xs
  induction xs generalizing i with
  | nil => rfl
  | cons x xs ih => simp [mkRows, ih]

theorem mkRows_length (cols : List String) : ∀ (i : Nat) (xs : List Cells), (mkRows cols i xs).length = xs.length := by
  intro i xs
  induction xs generalizing i with
  | nil => rfl
  | cons x xs ih => simp [mkRows, ih]

theorem specRows_length (sel : Nat → Bool) (cols : List String) (g : Nat → String → Cell → Cell) :
    ∀ (i : Nat) (rows : List Cells), (specRows sel cols g i rows).length = rows.length := by
  intro i rows
  induction rows generalizing i with
  | nil => rfl
  | cons r rs ih => simp [specRows, ih]

/-! ### write-back of an assignment = the assignment on every member list -/

theorem writeBack_spec (a : Action) (srows : List Cells) :
    ∀ (ls : List TList) (off : Nat) (slots : List (Option Nat)), Coupled srows off ls slots →
      contents (writeBack (updRows a.sel a.cols a.g 0 srows) off ls slots)
        = specTbls a off (contents ls) (slots.map Option.isSome) := by
  intro ls
  induction ls with
  | nil => intro off slots _; simp [writeBack, contents, specTbls]
  | cons l ls ih =>
    intro off slots hc
    cases slots with
    | nil => simp [writeBack, contents, specTbls]
    | cons s ss =>
      cases s with
      | none =>
        simp only [Coupled] at hc
        have := ih off ss hc
        simp only [contents] at this
        simp [writeBack, contents, specTbls, this]
      | some n =>
        simp only [Coupled] at hc
        obtain ⟨hn, hrows, hrest⟩ := hc
        have := ih (off + n) ss hrest
        simp only [contents] at this
        simp only [writeBack, contents, List.map_cons, Option.isSome_some, specTbls, this, TList.content]
        congr 1
        · congr 1
          rw [mkRows_cells, sliceRows_updRows, map_proj_updRows, hrows]
        · simp [hn]

/-- the stacker stays coupled to the lists it has just written -/
theorem coupled_writeBack (a : Action) (srows : List Cells) :
    ∀ (ls : List TList) (off : Nat) (slots : List (Option Nat)), Coupled srows off ls slots →
      Coupled (updRows a.sel a.cols a.g 0 srows) off
        (writeBack (updRows a.sel a.cols a.g 0 srows) off ls slots) slots := by
  intro ls
  induction ls with
  | nil => intro off slots _; simp [writeBack, Coupled]
  | cons l ls ih =>
    intro off slots hc
    cases slots with
    | nil => simp [writeBack, Coupled]
    | cons s ss =>
      cases s with
      | none =>
        simp only [Coupled] at hc
        simp only [writeBack, Coupled]
        exact ih off ss hc
      | some n =>
        simp only [Coupled] at hc
        obtain ⟨hn, hrows, hrest⟩ := hc
        simp only [writeBack, Coupled]
        have hlen : (sliceRows srows off n).length = n := by
          have := congrArg List.length hrows
          simp at this
          omega
        refine ⟨?_, ?_, ih (off + n) ss hrest⟩
        · rw [mkRows_length, sliceRows_updRows, updRows_length, hlen]
        · rw [mkRows_cells]

/-! ### a new stacker is coupled -/

theorem mem_addCols_left (acc cs : List String) (c : String) (h : c ∈ acc) : c ∈ addCols acc cs := by
  simp [addCols, h]

theorem mem_addCols_right (acc cs : List String) (c : String) (h : c ∈ cs) : c ∈ addCols acc cs := by
  unfold addCols
  by_cases ha : c ∈ acc
  · simp [ha]
  · simp [List.mem_append, List.mem_filter, h, ha]

theorem mem_foldl_addCols (L : List (List String)) : ∀ (acc : List String) (c : String),
    (c ∈ acc ∨ ∃ cs ∈ L, c ∈ cs) → c ∈ L.foldl addCols acc := by
  induction L with
  | nil => intro acc c h; rcases h with h | ⟨cs, hcs, _⟩; exact h; simp at hcs
  | cons x xs ih =>
    intro acc c h
    simp only [List.foldl_cons]
    apply ih
    rcases h with h | ⟨cs, hcs, hc⟩
    · exact Or.inl (mem_addCols_left _ _ _ h)
    · rcases List.mem_cons.mp hcs with rfl | hcs
      · exact Or.inl (mem_addCols_right _ _ _ hc)
      · exact Or.inr ⟨cs, hcs, hc⟩

theorem mem_unionCols (L : List (List String)) (cs : List String) (c : String) (h1 : cs ∈ L) (h2 : c ∈ cs) :
    c ∈ unionCols L := mem_foldl_addCols L [] c (Or.inr ⟨cs, h1, h2⟩)

theorem coupled_stackedRows (incl : TList → Bool) (U : List String) (hidx : "index" ∉ U) :
    ∀ (ls : List TList) (pre : List Cells),
      (∀ l ∈ ls, WFList l) →
      (∀ cs ∈ memberCols ls (slotsOf incl ls), ∀ c ∈ cs, c ∈ U) →
      Coupled (pre ++ stackedRows U ls (slotsOf incl ls)) pre.length ls (slotsOf incl ls) := by
  intro ls
  induction ls with
  | nil => intro pre _ _; simp [slotsOf, Coupled]
  | cons l ls ih =>
    intro pre hwf hU
    by_cases hi : incl l
    · have hs : slotsOf incl (l :: ls) = some l.frame.rows.length :: slotsOf incl ls := by simp [slotsOf, hi]
      rw [hs] at hU ⊢
      simp only [memberCols, List.mem_cons, forall_eq_or_imp] at hU
      simp only [stackedRows, Coupled, true_and]
      refine ⟨?_, ?_⟩
      · have hsl : sliceRows (pre ++ (l.frame.rows.map (stackRow U) ++ stackedRows U ls (slotsOf incl ls))) pre.length
            l.frame.rows.length = l.frame.rows.map (stackRow U) := by
          unfold sliceRows
          rw [List.drop_left' rfl]
          rw [List.take_left' (by simp)]
        rw [hsl, List.map_map]
        apply List.map_congr_left
        intro r hr
        obtain ⟨hnd, hkeys⟩ := hwf l (by simp)
        have hsub : ∀ c ∈ l.frame.cols, c ∈ U := hU.1
        have hni : "index" ∉ l.frame.cols := fun h => hidx (hsub _ h)
        simp only [Function.comp, stackRow]
        rw [proj_cons_of_ne _ _ _ _ hni, proj_proj _ _ _ hsub, proj_self _ _ (hkeys r hr) hnd]
      · have := ih (pre ++ l.frame.rows.map (stackRow U)) (fun x hx => hwf x (by simp [hx])) hU.2
        simpa [List.append_assoc] using this
    · have hs : slotsOf incl (l :: ls) = none :: slotsOf incl ls := by simp [slotsOf, hi]
      rw [hs] at hU ⊢
      simp only [memberCols] at hU
      simp only [stackedRows, Coupled]
      exact ih pre (fun x hx => hwf x (by simp [hx])) hU

theorem coupled_mkStacker (incl : TList → Bool) (ls : List TList) (s : Stacker)
    (hwf : ∀ l ∈ ls, WFList l) (h : mkStacker incl ls = .ok s) : Coupled s.srows 0 ls s.slots := by
  unfold mkStacker at h
  simp only at h
  split at h
  · cases h
  · split at h
    · cases h
    · rename_i hidx
      injection h with h
      subst h
      have hidx' : "index" ∉ unionCols (memberCols ls (slotsOf incl ls)) := by simpa using hidx
      have := coupled_stackedRows incl _ hidx' ls [] hwf
        (fun cs hcs c hc => mem_unionCols _ cs c hcs hc)
      simpa using this

/-! ### well-formedness is preserved by write-back -/

theorem keys_proj (cols : List String) (cs : Cells) : keys (proj cols cs) = cols := by
  unfold keys proj
  rw [List.map_map]
  induction cols with
  | nil => rfl
  | cons c t ih => rw [List.map_cons, ih]; rfl

theorem wf_mkRows (cols : List String) : ∀ (i : Nat) (xs : List Cells), ∀ r ∈ mkRows cols i xs, keys r.cells = cols := by
  intro i xs
  induction xs generalizing i with
  | nil => intro r hr; simp [mkRows] at hr
  | cons x xs ih =>
    intro r hr
    simp only [mkRows, List.mem_cons] at hr
    rcases hr with rfl | hr
    · exact keys_proj cols x
    · exact ih (i + 1) r hr

theorem wf_writeBack (srows : List Cells) : ∀ (ls : List TList) (off : Nat) (slots : List (Option Nat)),
    (∀ l ∈ ls, WFList l) → ∀ l ∈ writeBack srows off ls slots, WFList l := by
  intro ls
  induction ls with
  | nil => intro off slots _ l hl; simp [writeBack] at hl
  | cons x xs ih =>
    intro off slots hwf l hl
    cases slots with
    | nil => simp only [writeBack] at hl; exact hwf l hl
    | cons s ss =>
      cases s with
      | none =>
        simp only [writeBack, List.mem_cons] at hl
        rcases hl with rfl | hl
        · exact hwf _ (by simp)
        · exact ih off ss (fun y hy => hwf y (by simp [hy])) l hl
      | some n =>
        simp only [writeBack, List.mem_cons] at hl
        rcases hl with rfl | hl
        · exact ⟨(hwf x (by simp)).1, wf_mkRows _ _ _⟩
        · exact ih (off + n) ss (fun y hy => hwf y (by simp [hy])) l hl

/-! ### an empty copy: whatever is written back, the (empty) member lists stay as they are -/

theorem writeBack_of_empty (a : Action) (srows' : List Cells) :
    ∀ (ls : List TList) (off : Nat) (slots : List (Option Nat)), Coupled [] off ls slots →
      contents (writeBack srows' off ls slots) = specTbls a off (contents ls) (slots.map Option.isSome) := by
  intro ls
  induction ls with
  | nil => intro off slots _; simp [writeBack, contents, specTbls]
  | cons l ls ih =>
    intro off slots hc
    cases slots with
    | nil => simp [writeBack, contents, specTbls]
    | cons s ss =>
      cases s with
      | none =>
        simp only [Coupled] at hc
        have := ih off ss hc
        simp only [contents] at this
        simp [writeBack, contents, specTbls, this]
      | some n =>
        simp only [Coupled] at hc
        obtain ⟨hn, hrows, hrest⟩ := hc
        have hnil : l.frame.rows = [] := by
          have := congrArg List.length hrows
          simp [sliceRows] at this
          exact List.eq_nil_of_length_eq_zero this.symm
        have hn0 : n = 0 := by rw [hn, hnil]; rfl
        subst hn0
        have := ih (off + 0) ss hrest
        simp only [contents, Nat.add_zero] at this
        simp [writeBack, contents, specTbls, this, TList.content, hnil, sliceRows, mkRows, specRows]

theorem coupled_of_empty (srows' : List Cells) :
    ∀ (ls : List TList) (off : Nat) (slots : List (Option Nat)), Coupled [] off ls slots →
      Coupled srows' off (writeBack srows' off ls slots) slots := by
  intro ls
  induction ls with
  | nil => intro off slots _; simp [writeBack, Coupled]
  | cons l ls ih =>
    intro off slots hc
    cases slots with
    | nil => simp [writeBack, Coupled]
    | cons s ss =>
      cases s with
      | none =>
        simp only [Coupled] at hc
        simp only [writeBack, Coupled]
        exact ih off ss hc
      | some n =>
        simp only [Coupled] at hc
        obtain ⟨hn, hrows, hrest⟩ := hc
        have hnil : l.frame.rows = [] := by
          have := congrArg List.length hrows
          simp [sliceRows] at this
          exact List.eq_nil_of_length_eq_zero this.symm
        have hn0 : n = 0 := by rw [hn, hnil]; rfl
        subst hn0
        simp only [writeBack, Coupled]
        refine ⟨by simp [sliceRows, mkRows], by simp [sliceRows, mkRows], ?_⟩
        exact ih (off + 0) ss hrest

end Reamber.Stack
