/-
Helper lemmas for C07, assembly: the event decoders with the generated constants are the specification's, one
difficulty read by `readLevel` (framing and decoding interleaved, buffer carried along) is the declarative pairing of the
difficulty's whole slot stream plus its tempo events, and `readLevels` followed by `read_pkgs` per difficulty is
`specLevel` per framed difficulty.
-/
import Reamber.Lemmas.O2JTime
import Reamber.Lemmas.O2JPair

namespace Reamber.O2J

open Reamber.O2J.Spec
open Reamber.Generated

theorem isNoteChannel_eq (ch : Int) : isNoteChannel ch = isColChannel ch := by
  simp only [isNoteChannel, isColChannel, O2J.colRangeStart, O2J.colRangeStop]
  by_cases h1 : (2 : Int) ≤ ch <;> by_cases h2 : ch < 9 <;> simp [h1, h2] <;> omega

/-- with those constants the model's event decoders are the specification's (which uses literals) -/
theorem slotsOf_eq_spec (p : RawPkg) (h : isNoteChannel p.channel = true) : slotsOf p = specSlots p := by
  have hc : isColChannel p.channel = true := by rw [← isNoteChannel_eq]; exact h
  have haux : ∀ (m c : Int) (n : Nat) (gs : List (List Nat)) (i : Nat),
      slotsAux m c n i gs = specSlotsAux m c n i gs := by
    intro m c n gs
    induction gs with
    | nil => intro i; rfl
    | cons g rest ih =>
      intro i
      have hs : slotOf m c n i g = specSlot m c n i g := rfl
      unfold slotsAux specSlotsAux
      rw [hs]
      cases specSlot m c n i g <;> simp [ih]
  simp only [slotsOf, specSlots, hc, if_true, haux]


/-- what a note package contributes is the pairing of its decoded slots (decoded with the format's constants) -/
theorem decodePkg_notes (p : RawPkg) (buf : Buf) (revPre : List Slot) (h : BufRep buf revPre)
    (hc : isNoteChannel p.channel = true) :
    match decodePkg p buf with
    | .ok (pk, b) => pairFrom revPre (specSlots p) = .ok pk.notes ∧ pk.slots = specSlots p ∧ pk.bpms = [] ∧
        pk.mfrac = false ∧ BufRep b ((specSlots p).reverse ++ revPre)
    | .error e => pairFrom revPre (specSlots p) = .error e := by
  unfold decodePkg
  simp only [hc, if_true]
  have := foldBuf_pairFrom (slotsOf p) buf revPre h
  rw [slotsOf_eq_spec p hc] at this ⊢
  cases hf : foldBuf buf (specSlots p) with
  | error e => rw [hf] at this; simp only [bind, Except.bind]; exact this
  | ok r =>
    obtain ⟨ns, b⟩ := r
    rw [hf] at this
    simp only [bind, Except.bind]
    refine ⟨this.1, ?_, ?_, ?_, this.2⟩ <;> first | rfl | trivial


theorem bpmsAux_eq_spec (m : Int) (n : Nat) : ∀ (gs : List (List Nat)) (i : Nat),
    gs.all (fun g => match decodeF32 g with | .fin _ => true | _ => false) = true →
    bpmsAux m n i gs = .ok (specBpmsAux m n i gs) := by
  intro gs
  induction gs with
  | nil => intro i _; rfl
  | cons g rest ih =>
    intro i h
    simp only [List.all_cons, Bool.and_eq_true] at h
    unfold bpmsAux specBpmsAux
    cases hd : decodeF32 g with
    | fin q =>
      simp only []
      by_cases hq : q = 0
      · simp only [hq, if_true]; exact ih (i + 1) h.2
      · simp only [hq, if_false]; rw [ih (i + 1) h.2]; rfl
    | inf b => rw [hd] at h; simp at h
    | nan => rw [hd] at h; simp at h

/-- a tempo package whose floats are all finite decodes to the specification's tempo events -/
theorem bpmsOf_eq_spec (p : RawPkg) (hc : p.channel = 1) (hf : allFinite p = true) : bpmsOf p = .ok (specBpms p) := by
  unfold allFinite at hf
  rw [if_pos hc] at hf
  unfold bpmsOf specBpms
  rw [if_pos hc]
  exact bpmsAux_eq_spec _ _ _ _ hf

theorem specSlots_of_not_col (p : RawPkg) (h : isNoteChannel p.channel = false) : specSlots p = [] := by
  unfold specSlots
  rw [← isNoteChannel_eq, h]
  rfl

theorem specBpms_of_ne (p : RawPkg) (h : p.channel ≠ 1) : specBpms p = [] := by
  unfold specBpms; rw [if_neg h]

theorem isNoteChannel_one : isNoteChannel 1 = false := by decide

/-- what any package other than a measure-fraction one contributes -/
theorem decodePkg_spec (p : RawPkg) (buf : Buf) (revPre : List Slot) (h : BufRep buf revPre)
    (h0 : p.channel ≠ 0) (hf : allFinite p = true) (ns : List Note) (hp : pairFrom revPre (specSlots p) = .ok ns) :
    ∃ pk b, decodePkg p buf = .ok (pk, b) ∧ pk.notes = ns ∧ pk.bpms = specBpms p ∧ pk.mfrac = false ∧
      BufRep b ((specSlots p).reverse ++ revPre) := by
  by_cases hc : isNoteChannel p.channel = true
  · have := decodePkg_notes p buf revPre h hc
    have h1 : p.channel ≠ 1 := by intro h1; rw [h1, isNoteChannel_one] at hc; exact absurd hc (by simp)
    cases hd : decodePkg p buf with
    | error e => rw [hd] at this; simp only [] at this; rw [this] at hp; cases hp
    | ok r =>
      obtain ⟨pk, b⟩ := r
      rw [hd] at this
      simp only [] at this
      refine ⟨pk, b, rfl, ?_, ?_, this.2.2.2.1, this.2.2.2.2⟩
      · have := this.1; rw [hp] at this; cases this; rfl
      · rw [this.2.2.1, specBpms_of_ne p h1]
  · have hc' : isNoteChannel p.channel = false := by simpa using hc
    have hs := specSlots_of_not_col p hc'
    rw [hs] at hp ⊢
    have hns : ns = [] := by simp only [pairFrom] at hp; cases hp; rfl
    subst hns
    unfold decodePkg
    simp only [hc', Bool.false_eq_true, if_false]
    by_cases h1 : p.channel = O2J.chBpmChange
    · have h1' : p.channel = 1 := h1
      rw [if_pos h1, bpmsOf_eq_spec p h1' hf]
      exact ⟨_, _, rfl, rfl, rfl, rfl, by simpa using h⟩
    · have h1' : p.channel ≠ 1 := h1
      have h0' : ¬ p.channel = O2J.chMeasureFraction := h0
      rw [if_neg h1, if_neg h0']
      exact ⟨_, _, rfl, rfl, (specBpms_of_ne p h1').symm, rfl, by simpa using h⟩

/-- pairing of a concatenated stream: first part, then the second part after the first as prefix -/
theorem pairFrom_append (a b : List Slot) : ∀ (revPre : List Slot) (ns : List Note),
    pairFrom revPre (a ++ b) = .ok ns →
    ∃ x y, pairFrom revPre a = .ok x ∧ pairFrom (a.reverse ++ revPre) b = .ok y ∧ ns = x ++ y := by
  induction a with
  | nil => intro revPre ns h; exact ⟨[], ns, rfl, by simpa using h, rfl⟩
  | cons s rest ih =>
    intro revPre ns h
    simp only [List.cons_append] at h
    rw [pairFrom] at h
    cases hk : s.kind with
    | hit =>
      rw [hk] at h
      simp only [] at h
      cases hr : pairFrom (s :: revPre) (rest ++ b) with
      | error e => rw [hr] at h; simp [bind, Except.bind] at h
      | ok r =>
        rw [hr] at h
        simp only [bind, Except.bind, Except.ok.injEq] at h
        obtain ⟨x, y, hx, hy, hxy⟩ := ih _ _ hr
        refine ⟨.hit s :: x, y, ?_, by simpa [List.append_assoc] using hy, ?_⟩
        · rw [pairFrom]; simp only [hk, hx, bind, Except.bind]
        · rw [← h, hxy]; rfl
    | head =>
      rw [hk] at h
      simp only [] at h
      obtain ⟨x, y, hx, hy, hxy⟩ := ih _ _ h
      refine ⟨x, y, ?_, by simpa [List.append_assoc] using hy, hxy⟩
      rw [pairFrom]; simp only [hk, hx]
    | tail =>
      rw [hk] at h
      simp only [] at h
      cases ho : openHead revPre s.col with
      | none => rw [ho] at h; cases h
      | some hd =>
        rw [ho] at h
        simp only [] at h
        cases hr : pairFrom (s :: revPre) (rest ++ b) with
        | error e => rw [hr] at h; simp [bind, Except.bind] at h
        | ok r =>
          rw [hr] at h
          simp only [bind, Except.bind, Except.ok.injEq] at h
          obtain ⟨x, y, hx, hy, hxy⟩ := ih _ _ hr
          refine ⟨.hold hd s :: x, y, ?_, by simpa [List.append_assoc] using hy, ?_⟩
          · rw [pairFrom]; simp only [hk, ho, hx, bind, Except.bind]
          · rw [← h, hxy]; rfl

theorem popPkg_nonempty (q : List Nat) (r : RawPkg × List Nat) (h : popPkg q = .ok r) : q.isEmpty = false := by
  unfold popPkg at h
  by_cases hl : q.length < 8
  · rw [if_pos hl] at h; cases h
  · cases q with
    | nil => simp at hl
    | cons a t => rfl

/-- **one difficulty**: if the bytes frame into packages `rps` (no measure-fraction package, finite tempo floats) and
the declarative pairing of the difficulty's whole slot stream succeeds with notes `ns`, then `readLevel` — framing and
decoding interleaved, the hold buffer carried from package to package — returns packages whose notes are `ns`
(in stream order) and whose tempo events are the specification's, no package missing, and a buffer that represents the
stream read so far -/
theorem readLevel_spec : ∀ (n : Nat) (q : List Nat) (buf : Buf) (revPre : List Slot) (rps : List RawPkg) (q' : List Nat),
    BufRep buf revPre → frame n q = some (rps, q') →
    (∀ p ∈ rps, p.channel ≠ 0) → (∀ p ∈ rps, allFinite p = true) →
    ∀ ns, pairFrom revPre (rps.flatMap specSlots) = .ok ns →
    ∃ pkgs buf', readLevel n q buf = .ok (pkgs, false, q', buf') ∧ pkgs.flatMap (·.notes) = ns ∧
      pkgs.flatMap (·.bpms) = rps.flatMap specBpms ∧ pkgs.any (·.mfrac) = false ∧
      BufRep buf' ((rps.flatMap specSlots).reverse ++ revPre) := by
  intro n
  induction n with
  | zero =>
    intro q buf revPre rps q' hb hf _ _ ns hp
    simp only [frame, Option.some.injEq, Prod.mk.injEq] at hf
    obtain ⟨rfl, rfl⟩ := hf
    simp only [List.flatMap_nil, pairFrom] at hp
    cases hp
    exact ⟨[], buf, rfl, rfl, rfl, rfl, by simpa using hb⟩
  | succ n ih =>
    intro q buf revPre rps q' hb hf h0 hfin ns hp
    simp only [frame] at hf
    cases hpop : popPkg q with
    | error e => rw [hpop] at hf; cases hf
    | ok r =>
      obtain ⟨p, q1⟩ := r
      rw [hpop] at hf
      simp only [] at hf
      cases hfr : frame n q1 with
      | none => rw [hfr] at hf; cases hf
      | some r2 =>
        obtain ⟨ps, q2⟩ := r2
        rw [hfr] at hf
        simp only [Option.some.injEq, Prod.mk.injEq] at hf
        obtain ⟨rfl, rfl⟩ := hf
        simp only [List.flatMap_cons] at hp ⊢
        obtain ⟨x, y, hx, hy, hxy⟩ := pairFrom_append _ _ _ _ hp
        obtain ⟨pk, b, hd, hn, hbp, hm, hrep⟩ := decodePkg_spec p buf revPre hb (h0 p (by simp)) (hfin p (by simp)) x hx
        obtain ⟨pkgs, buf', hrl, hns, hbs, hmf, hrep'⟩ := ih q1 b _ ps q2 hrep hfr (fun z hz => h0 z (by simp [hz]))
          (fun z hz => hfin z (by simp [hz])) y hy
        refine ⟨pk :: pkgs, buf', ?_, ?_, ?_, ?_, ?_⟩
        · unfold readLevel
          rw [popPkg_nonempty q _ hpop]
          simp only [Bool.false_eq_true, if_false, hpop, hd, hrl, bind, Except.bind]
        · simp only [List.flatMap_cons, hn, hns, hxy]
        · simp only [List.flatMap_cons, hbp, hbs]
        · simp only [List.any_cons, hm, hmf, Bool.or_self]
        · simpa [List.reverse_append, List.append_assoc] using hrep'

/-- no head open after a closed stream -/
theorem closed_openHead (slots : List Slot) (h : closedB slots = true) : ∀ c, openHead slots.reverse c = none := by
  intro c
  unfold openHead
  cases hl : lastLn slots.reverse c with
  | none => rfl
  | some s =>
    simp only []
    have hmem : s ∈ slots := by
      have := List.mem_of_find?_eq_some hl
      simpa using this
    have hcol : s.col = c := by
      have := List.find?_some hl
      simp only [Bool.and_eq_true, decide_eq_true_eq] at this
      exact this.1
    have := List.all_eq_true.mp h s hmem
    unfold openHead at this
    rw [hcol, hl] at this
    simp only [] at this
    by_cases hk : s.kind = .head
    · rw [if_pos hk] at this; simp at this
    · rw [if_neg hk]

theorem bufRep_closed (b : Buf) (slots : List Slot) (hb : BufRep b (slots.reverse ++ [])) (hc : closedB slots = true) :
    BufRep b [] := by
  intro c
  have := hb c
  rw [List.append_nil, closed_openHead slots hc c] at this
  rw [this]; rfl

/-- the level the model returns for well-formed packages is the specification's level -/
theorem readPkgs_specLevel (init : Rat) (h0 : init ≠ 0) (pkgs : List Pkg) (rps : List RawPkg) (ns : List Note)
    (hp : pairFrom [] (rps.flatMap specSlots) = .ok ns) (hn : pkgs.flatMap (·.notes) = ns)
    (hb : pkgs.flatMap (·.bpms) = rps.flatMap specBpms) (hm : pkgs.any (·.mfrac) = false) :
    readPkgs pkgs false init = specLevel init rps := by
  rw [readPkgs_eq pkgs init hm h0]
  unfold specLevel
  rw [hp, hn, hb]
  rfl

/-- **all difficulties**: when the body frames into `lvls` (one list per package-count entry, empty lists included)
and every level is `wfLevel`, reading the levels and timing each equals `specLevel` of each framed level — in
particular there is exactly one level per package-count entry -/
theorem readLevels_spec (init : Rat) (h0 : init ≠ 0) : ∀ (counts : List Int) (q : List Nat) (buf : Buf)
    (lvls : List (List RawPkg)), BufRep buf [] → frameLevels counts q = some lvls → lvls.all wfLevel = true →
    (readLevels counts q buf >>= fun pls => mapE (fun (l : List Pkg × Bool) => readPkgs l.1 l.2 init) pls)
      = mapE (specLevel init) lvls := by
  intro counts
  induction counts with
  | nil =>
    intro q buf lvls _ hf _
    simp only [frameLevels, Option.some.injEq] at hf
    subst hf
    rfl
  | cons c cs ih =>
    intro q buf lvls hb hf hw
    simp only [frameLevels] at hf
    cases hfr : frame c.toNat q with
    | none => rw [hfr] at hf; cases hf
    | some r =>
      obtain ⟨ps, q1⟩ := r
      rw [hfr] at hf
      simp only [] at hf
      cases hfl : frameLevels cs q1 with
      | none => rw [hfl] at hf; cases hf
      | some rl =>
        rw [hfl] at hf
        simp only [Option.some.injEq] at hf
        subst hf
        simp only [List.all_cons, Bool.and_eq_true] at hw
        obtain ⟨hwl, hwr⟩ := hw
        unfold wfLevel at hwl
        simp only [Bool.and_eq_true, List.all_eq_true, decide_eq_true_eq] at hwl
        obtain ⟨⟨⟨hch, hfin⟩, hcl⟩, hpair⟩ := hwl
        cases hp : pairFrom [] (ps.flatMap specSlots) with
        | error e => rw [hp] at hpair; simp at hpair
        | ok ns =>
          obtain ⟨pkgs, buf', hrl, hns, hbs, hmf, hrep⟩ := readLevel_spec c.toNat q buf [] ps q1 hb hfr hch hfin ns hp
          have hb' : BufRep buf' [] := bufRep_closed buf' _ hrep hcl
          have hlev := readPkgs_specLevel init h0 pkgs ps ns hp hns hbs hmf
          have hok := readPkgs_eq pkgs init hmf h0
          have hspec := hlev ▸ hok
          have hih := ih q1 buf' rl hb' hfl hwr
          unfold readLevels
          simp only [hrl, bind, Except.bind, mapE, hspec]
          cases hr : readLevels cs q1 buf' with
          | error e =>
            rw [hr] at hih
            simp only [bind, Except.bind] at hih
            simp only [← hih]
          | ok pls =>
            rw [hr] at hih
            simp only [bind, Except.bind] at hih
            simp only [mapE, hok, hih, bind, Except.bind]

end Reamber.O2J
