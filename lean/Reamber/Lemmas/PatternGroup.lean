/-
C20 — lemmas about `Pattern.group`'s model: masks, `select`/`scatter`, the loop invariant
("everything before `ix` is grouped"), and the per-group facts (leader first, windows, no repeated column).
-/
import Reamber.Spec.Pattern
import Mathlib.Algebra.Order.Field.Rat
import Mathlib.Tactic.Linarith

namespace Reamber.Pattern

/-! ### select -/

theorem select_nil_right {α} (l : List α) : select l [] = [] := by cases l <;> rfl

theorem select_sublist {α} (l : List α) (m : List Bool) : (select l m).Sublist l := by
  induction l generalizing m with
  | nil => simp [select]
  | cons a t ih =>
    cases m with
    | nil => simp [select]
    | cons b m =>
      cases b
      · simpa [select] using (ih m).cons a
      · simpa [select] using (ih m).cons_cons a

theorem select_append {α} (a b : List α) (ma mb : List Bool) (h : ma.length = a.length) :
    select (a ++ b) (ma ++ mb) = select a ma ++ select b mb := by
  induction a generalizing ma with
  | nil =>
    cases ma with
    | nil => simp [select]
    | cons _ _ => simp at h
  | cons x t ih =>
    cases ma with
    | nil => simp at h
    | cons c m =>
      have hm : m.length = t.length := by simpa using h
      cases c <;> simp [select, ih m hm]

theorem select_replicate_false {α} (l : List α) (n : Nat) : select l (List.replicate n false) = [] := by
  induction l generalizing n with
  | nil => cases n <;> rfl
  | cons a t ih =>
    cases n with
    | zero => rfl
    | succ n => simp [List.replicate_succ, select, ih]

theorem select_perm_split {α} (l : List α) (m : List Bool) (h : m.length = l.length) :
    (select l m ++ select l (m.map not)).Perm l := by
  induction l generalizing m with
  | nil => cases m <;> simp [select]
  | cons a t ih =>
    cases m with
    | nil => simp at h
    | cons b m =>
      have hm : m.length = t.length := by simpa using h
      cases b
      · simp only [select, List.map_cons, Bool.not_false, Bool.false_eq_true, if_false, if_true]
        exact (List.perm_middle).trans ((ih m hm).cons a)
      · simp only [select, List.map_cons, Bool.not_true, Bool.false_eq_true, if_false, if_true, List.cons_append]
        exact (ih m hm).cons a

/-- `mask &= other` can only remove entries -/
theorem select_and_sublist_left {α} (l : List α) (m1 m2 : List Bool) :
    (select l (List.zipWith (fun a b => a && b) m1 m2)).Sublist (select l m1) := by
  induction l generalizing m1 m2 with
  | nil => simp [select]
  | cons a t ih =>
    cases m1 with
    | nil => simp [select]
    | cons b1 m1 =>
      cases m2 with
      | nil => simp [select]
      | cons b2 m2 =>
        cases b1 <;> cases b2 <;> simp [select, ih m1 m2]

theorem select_and_sublist_right {α} (l : List α) (m1 m2 : List Bool) :
    (select l (List.zipWith (fun a b => a && b) m1 m2)).Sublist (select l m2) := by
  induction l generalizing m1 m2 with
  | nil => simp [select]
  | cons a t ih =>
    cases m1 with
    | nil => simp [select]
    | cons b1 m1 =>
      cases m2 with
      | nil => simp [select]
      | cons b2 m2 =>
        cases b1 <;> cases b2 <;> simp [select, ih m1 m2]

/-! ### masks -/

theorem firstOcc_length (seen cs : List Int) : (firstOcc seen cs).length = cs.length := by
  induction cs generalizing seen with
  | nil => rfl
  | cons c t ih => simp [firstOcc, ih]

theorem vMask_length (ar : List Row) (o v : Rat) (aj : Bool) : (vMask ar o v aj).length = ar.length := by
  unfold vMask
  simp only [List.length_append, List.length_replicate]
  have h1 := congrArg List.length (List.takeWhile_append_dropWhile (p := fun r : Row => decide (r.off < o)) (l := ar))
  have h2 := congrArg List.length (List.takeWhile_append_dropWhile (p := fun r : Row => decide (r.off ≤ o + v))
    (l := ar.dropWhile (fun r : Row => decide (r.off < o))))
  simp only [List.length_append] at h1 h2
  split <;> simp [firstOcc_length] <;> omega

theorem hMask_length (ar : List Row) (c h : Int) : (hMask ar c h).length = ar.length := by simp [hMask]

theorem groupMask_length (U : List Row) (r : Row) (v : Rat) (h : Option Int) (aj : Bool) :
    (groupMask U r v h aj).length = U.length := by
  unfold groupMask
  cases h <;> simp [vMask_length, hMask_length]

theorem mem_takeWhile_imp' {α} (p : α → Bool) (l : List α) (x : α) (h : x ∈ l.takeWhile p) : p x = true := by
  induction l with
  | nil => simp at h
  | cons a t ih =>
    simp only [List.takeWhile_cons] at h
    split at h
    · rename_i hp
      rcases List.mem_cons.mp h with rfl | h
      · exact hp
      · exact ih h
    · simp at h

/-- the selected part of a vertical mask lies inside the window part of the array -/
theorem select_vMask (ar : List Row) (o v : Rat) (aj : Bool) :
    ∃ win : List Row, (∀ x ∈ win, x.off ≤ o + v) ∧ win.Sublist ar ∧
      select ar (vMask ar o v aj) =
        select win (if aj then firstOcc [] (win.map (·.col)) else List.replicate win.length true) := by
  let pLt : Row → Bool := fun r => decide (r.off < o)
  let pLe : Row → Bool := fun r => decide (r.off ≤ o + v)
  refine ⟨(ar.dropWhile pLt).takeWhile pLe, ?_, ?_, ?_⟩
  · intro x hx
    have := mem_takeWhile_imp' _ _ _ hx
    simpa [pLe] using this
  · exact (List.takeWhile_sublist _).trans (List.dropWhile_sublist _)
  · have e1 : ar = ar.takeWhile pLt ++ ((ar.dropWhile pLt).takeWhile pLe ++ (ar.dropWhile pLt).dropWhile pLe) := by
      rw [List.takeWhile_append_dropWhile, List.takeWhile_append_dropWhile]
    unfold vMask
    conv => lhs; arg 1; rw [e1]
    rw [List.append_assoc, select_append _ _ _ _ (by simp [pLt]), select_replicate_false, List.nil_append,
      select_append _ _ _ _ (by split <;> simp [firstOcc_length, pLt, pLe]), select_replicate_false, List.append_nil]

theorem mem_select_hMask (ar : List Row) (c h : Int) (x : Row) (hx : x ∈ select ar (hMask ar c h)) :
    ((c - x.col).natAbs : Int) ≤ h := by
  induction ar with
  | nil => simp [select, hMask] at hx
  | cons a t ih =>
    simp only [hMask, List.map_cons, select] at hx
    split at hx
    · rename_i hb
      rcases List.mem_cons.mp hx with rfl | hx
      · simpa using hb
      · exact ih hx
    · exact ih hx

/-- first occurrences: the selected columns are pairwise different and new w.r.t. `seen` -/
theorem select_firstOcc_nodup (seen : List Int) (l : List Row) :
    ((select l (firstOcc seen (l.map (·.col)))).map (·.col)).Nodup ∧
    ∀ c ∈ (select l (firstOcc seen (l.map (·.col)))).map (·.col), c ∉ seen := by
  induction l generalizing seen with
  | nil => simp [select, firstOcc]
  | cons a t ih =>
    obtain ⟨ih1, ih2⟩ := ih (a.col :: seen)
    simp only [List.map_cons, firstOcc, select]
    by_cases hs : seen.contains a.col = true
    · simp only [hs, Bool.not_true, Bool.false_eq_true, if_false]
      exact ⟨ih1, fun c hc => fun hcs => ih2 c hc (List.mem_cons_of_mem _ hcs)⟩
    · have hs' : a.col ∉ seen := by simpa using hs
      simp only [hs, Bool.not_eq_true] at *
      simp only [hs, Bool.not_false, if_true, List.map_cons]
      refine ⟨List.nodup_cons.mpr ⟨fun hmem => ih2 _ hmem (List.mem_cons_self ..), ih1⟩, ?_⟩
      intro c hc
      rcases List.mem_cons.mp hc with rfl | hc
      · exact hs'
      · exact fun hcs => ih2 c hc (List.mem_cons_of_mem _ hcs)

/-- the leader is always picked by its own mask (needs the guards `v ≥ 0`, `h ≥ 0` of `group`) -/
theorem groupMask_head (r : Row) (U' : List Row) (v : Rat) (h : Option Int) (aj : Bool)
    (hv : 0 ≤ v) (hh : ∀ hw, h = some hw → 0 ≤ hw) :
    ∃ m', groupMask (r :: U') r v h aj = true :: m' := by
  have hlt : decide (r.off < r.off) = false := by simp
  have hle : decide (r.off ≤ r.off + v) = true := by
    simp only [decide_eq_true_eq]; linarith
  have hvm : ∃ m', vMask (r :: U') r.off v aj = true :: m' := by
    unfold vMask
    simp only [List.takeWhile_cons, List.dropWhile_cons, hlt, hle, Bool.false_eq_true, if_false, if_true,
      List.length_nil, List.replicate_zero, List.nil_append, List.map_cons, List.length_cons]
    cases aj
    · simp [List.replicate_succ]
    · simp [firstOcc]
  obtain ⟨m0, hm0⟩ := hvm
  unfold groupMask
  cases h with
  | none => exact ⟨m0, hm0⟩
  | some hw =>
    have : decide (((r.col - r.col).natAbs : Int) ≤ hw) = true := by
      simp only [decide_eq_true_eq]
      have := hh hw rfl
      simp; exact this
    simp only [hm0, hMask, List.map_cons, this, List.zipWith_cons_cons, Bool.and_self]
    exact ⟨_, rfl⟩

/-! ### the `is_grouped` state -/

theorem ungrouped_append (a b : List (Row × Bool)) : ungrouped (a ++ b) = ungrouped a ++ ungrouped b := by
  simp [ungrouped]

theorem ungrouped_allGrouped (pre : List (Row × Bool)) (h : ∀ p ∈ pre, p.2 = true) : ungrouped pre = [] := by
  induction pre with
  | nil => rfl
  | cons a t ih =>
    have ha := h a (List.mem_cons_self ..)
    have := ih (fun p hp => h p (List.mem_cons_of_mem _ hp))
    simp only [ungrouped, List.filter_cons, ha, Bool.not_true, Bool.false_eq_true, if_false] at this ⊢
    exact this

theorem scatter_allGrouped_append (pre post : List (Row × Bool)) (m : List Bool) (h : ∀ p ∈ pre, p.2 = true) :
    scatter (pre ++ post) m = pre ++ scatter post m := by
  induction pre with
  | nil => rfl
  | cons a t ih =>
    obtain ⟨r, b⟩ := a
    have hb : b = true := h (r, b) (List.mem_cons_self ..)
    subst hb
    simp only [List.cons_append, scatter, ih (fun p hp => h p (List.mem_cons_of_mem _ hp))]

theorem scatter_length (st : List (Row × Bool)) (m : List Bool) : (scatter st m).length = st.length := by
  induction st generalizing m with
  | nil => rfl
  | cons a t ih =>
    obtain ⟨r, b⟩ := a
    cases b
    · cases m <;> simp [scatter, ih]
    · simp [scatter, ih]

theorem scatter_map_fst (st : List (Row × Bool)) (m : List Bool) : (scatter st m).map (·.1) = st.map (·.1) := by
  induction st generalizing m with
  | nil => rfl
  | cons a t ih =>
    obtain ⟨r, b⟩ := a
    cases b
    · cases m <;> simp [scatter, ih]
    · simp [scatter, ih]

theorem ungrouped_scatter (st : List (Row × Bool)) (m : List Bool) (h : m.length = (ungrouped st).length) :
    ungrouped (scatter st m) = select (ungrouped st) (m.map not) := by
  induction st generalizing m with
  | nil => simp [scatter, ungrouped, select]
  | cons a t ih =>
    obtain ⟨r, b⟩ := a
    cases b
    · cases m with
      | nil => simp [ungrouped] at h
      | cons c m =>
        have hm : m.length = (ungrouped t).length := by simpa [ungrouped] using h
        have := ih m hm
        cases c
        · simp only [scatter, List.map_cons, Bool.not_false]
          simp only [ungrouped, List.filter_cons, Bool.not_false, if_true, List.map_cons, select] at this ⊢
          rw [this]
        · simp only [scatter, List.map_cons, Bool.not_true]
          simp only [ungrouped, List.filter_cons, Bool.not_false, Bool.not_true, Bool.false_eq_true, if_true, if_false,
            List.map_cons, select] at this ⊢
          rw [this]
    · have hm : m.length = (ungrouped t).length := by simpa [ungrouped] using h
      have := ih m hm
      simp only [scatter]
      simp only [ungrouped, List.filter_cons, Bool.not_true, Bool.false_eq_true, if_false] at this ⊢
      exact this

theorem ungrouped_sublist (st : List (Row × Bool)) : (ungrouped st).Sublist (st.map (·.1)) := by
  unfold ungrouped
  exact (List.filter_sublist).map _

/-! ### the loop -/

/-- Loop invariant: everything before `ix` is grouped. Then the groups produced from here on are, together,
exactly the notes still ungrouped. -/
theorem groupLoop_perm (v : Rat) (h : Option Int) (aj : Bool) (hv : 0 ≤ v) (hh : ∀ hw, h = some hw → 0 ≤ hw) :
    ∀ (fuel : Nat) (pre post : List (Row × Bool)), (∀ p ∈ pre, p.2 = true) → post.length = fuel →
      (groupLoop v h aj (pre ++ post) pre.length fuel).flatten.Perm (ungrouped post) := by
  intro fuel
  induction fuel with
  | zero =>
    intro pre post _ hpost
    have : post = [] := List.eq_nil_of_length_eq_zero hpost
    subst this
    simp [groupLoop, ungrouped]
  | succ fuel ih =>
    intro pre post hpre hpost
    match post, hpost with
    | (r, b) :: post', hpost =>
      have hlen : post'.length = fuel := by simpa using hpost
      have hget : (pre ++ (r, b) :: post')[pre.length]? = some (r, b) := by simp
      have hpre' : ∀ p ∈ pre ++ [(r, true)], p.2 = true := by
        intro p hp
        rcases List.mem_append.mp hp with hp | hp
        · exact hpre p hp
        · simp at hp; subst hp; rfl
      unfold groupLoop
      rw [hget]
      cases b
      · -- a new leader
        have hU : ungrouped (pre ++ (r, false) :: post') = r :: ungrouped post' := by
          rw [ungrouped_append, ungrouped_allGrouped pre hpre]; simp [ungrouped]
        simp only []
        rw [hU]
        obtain ⟨m', hm'⟩ := groupMask_head r (ungrouped post') v h aj hv hh
        have hmlen := groupMask_length (r :: ungrouped post') r v h aj
        rw [hm'] at hmlen ⊢
        have hm'len : m'.length = (ungrouped post').length := by simpa using hmlen
        have hsc : scatter (pre ++ (r, false) :: post') (true :: m') = (pre ++ [(r, true)]) ++ scatter post' m' := by
          rw [scatter_allGrouped_append _ _ _ hpre]; simp [scatter]
        rw [hsc]
        have hix : pre.length + 1 = (pre ++ [(r, true)]).length := by simp
        rw [hix]
        have := ih (pre ++ [(r, true)]) (scatter post' m') hpre' (by rw [scatter_length]; exact hlen)
        rw [ungrouped_scatter post' m' hm'len] at this
        simp only [List.flatten_cons, select, if_true, List.cons_append]
        refine List.Perm.cons r ?_
        exact (List.Perm.append_left _ this).trans (select_perm_split _ _ hm'len)
      · -- already grouped: `continue`
        simp only []
        have hix : pre.length + 1 = (pre ++ [(r, true)]).length := by simp
        have hst : pre ++ (r, true) :: post' = (pre ++ [(r, true)]) ++ post' := by simp
        rw [hix, hst]
        have := ih (pre ++ [(r, true)]) post' hpre' hlen
        simpa [ungrouped] using this

/-- Every group produced by the loop: its first note is its leader, all times lie in `[t, t+v]`, all columns
within `h`, no column twice when jacks are avoided. Needs the frame to be sorted by offset. -/
theorem groupLoop_groupOk (v : Rat) (h : Option Int) (aj : Bool) (hv : 0 ≤ v) (hh : ∀ hw, h = some hw → 0 ≤ hw) :
    ∀ (fuel : Nat) (pre post : List (Row × Bool)), (∀ p ∈ pre, p.2 = true) → post.length = fuel →
      SortedOff (post.map (·.1)) →
      ∀ g ∈ groupLoop v h aj (pre ++ post) pre.length fuel, groupOk v h aj g = true := by
  intro fuel
  induction fuel with
  | zero => intro pre post _ _ _ g hg; simp [groupLoop] at hg
  | succ fuel ih =>
    intro pre post hpre hpost hsorted g hg
    match post, hpost with
    | (r, b) :: post', hpost =>
      have hlen : post'.length = fuel := by simpa using hpost
      have hget : (pre ++ (r, b) :: post')[pre.length]? = some (r, b) := by simp
      have hpre' : ∀ p ∈ pre ++ [(r, true)], p.2 = true := by
        intro p hp
        rcases List.mem_append.mp hp with hp | hp
        · exact hpre p hp
        · simp at hp; subst hp; rfl
      have hsorted' : SortedOff (post'.map (·.1)) := by
        simp only [SortedOff, List.map_cons] at hsorted ⊢
        exact (List.pairwise_cons.mp hsorted).2
      have hix : pre.length + 1 = (pre ++ [(r, true)]).length := by simp
      unfold groupLoop at hg
      rw [hget] at hg
      cases b
      · have hU : ungrouped (pre ++ (r, false) :: post') = r :: ungrouped post' := by
          rw [ungrouped_append, ungrouped_allGrouped pre hpre]; simp [ungrouped]
        simp only [] at hg
        rw [hU] at hg
        obtain ⟨m', hm'⟩ := groupMask_head r (ungrouped post') v h aj hv hh
        have hmlen := groupMask_length (r :: ungrouped post') r v h aj
        have hm'len : m'.length = (ungrouped post').length := by rw [hm'] at hmlen; simpa using hmlen
        rcases List.mem_cons.mp hg with rfl | hg
        · -- the group made now
          set U := r :: ungrouped post' with hUdef
          have hUsorted : ∀ x ∈ U, r.off ≤ x.off := by
            intro x hx
            rcases List.mem_cons.mp hx with rfl | hx
            · exact le_refl _
            · have hx' : x ∈ post'.map (·.1) := (ungrouped_sublist post').subset hx
              simp only [SortedOff, List.map_cons] at hsorted
              exact (List.pairwise_cons.mp hsorted).1 x hx'
          have hsubU : (select U (groupMask U r v h aj)).Sublist U := select_sublist _ _
          have hhead : ∃ t, select U (groupMask U r v h aj) = r :: t := by
            rw [hm']; exact ⟨select (ungrouped post') m', by simp [hUdef, select]⟩
          obtain ⟨t, ht⟩ := hhead
          -- vertical part
          obtain ⟨win, hwin, _, hsel⟩ := select_vMask U r.off v aj
          have hsubV : (select U (groupMask U r v h aj)).Sublist (select U (vMask U r.off v aj)) := by
            unfold groupMask
            cases h with
            | none => exact List.Sublist.refl _
            | some hw => exact select_and_sublist_left _ _ _
          have hV : ∀ x ∈ select U (groupMask U r v h aj), x.off ≤ r.off + v := by
            intro x hx
            have := hsubV.subset hx
            rw [hsel] at this
            exact hwin x ((select_sublist _ _).subset this)
          have hvw : vWindowOk v (select U (groupMask U r v h aj)) = true := by
            rw [ht]
            simp only [vWindowOk, List.all_eq_true, Bool.and_eq_true, decide_eq_true_eq]
            intro x hx
            rw [← ht] at hx
            exact ⟨hUsorted x (hsubU.subset hx), hV x hx⟩
          -- horizontal part
          have hhw : hWindowOk h (select U (groupMask U r v h aj)) = true := by
            rw [ht]
            cases h with
            | none => simp [hWindowOk]
            | some hw =>
              simp only [hWindowOk, List.all_eq_true, decide_eq_true_eq]
              intro x hx
              rw [← ht] at hx
              have hsubH : (select U (groupMask U r v (some hw) aj)).Sublist (select U (hMask U r.col hw)) := by
                unfold groupMask; exact select_and_sublist_right _ _ _
              exact mem_select_hMask U r.col hw x (hsubH.subset hx)
          -- no repeated column
          have hnr : noRepeatOk aj (select U (groupMask U r v h aj)) = true := by
            cases aj with
            | false => simp [noRepeatOk]
            | true =>
              simp only [noRepeatOk, Bool.not_true, Bool.false_or, decide_eq_true_eq]
              have h1 := (select_firstOcc_nodup [] win).1
              have h2 : ((select U (groupMask U r v h true)).map (·.col)).Sublist
                  ((select win (firstOcc [] (win.map (·.col)))).map (·.col)) := by
                have := hsubV
                rw [hsel] at this
                simpa using this.map (·.col)
              exact h1.sublist h2
          simp [groupOk, hvw, hhw, hnr]
        · -- a later group
          rw [hm'] at hg
          have hsc : scatter (pre ++ (r, false) :: post') (true :: m') = (pre ++ [(r, true)]) ++ scatter post' m' := by
            rw [scatter_allGrouped_append _ _ _ hpre]; simp [scatter]
          rw [hsc, hix] at hg
          exact ih (pre ++ [(r, true)]) (scatter post' m') hpre' (by rw [scatter_length]; exact hlen)
            (by rw [scatter_map_fst]; exact hsorted') g hg
      · simp only [] at hg
        have hst : pre ++ (r, true) :: post' = (pre ++ [(r, true)]) ++ post' := by simp
        rw [hix, hst] at hg
        exact ih (pre ++ [(r, true)]) post' hpre' hlen hsorted' g hg

/-! ### sorting -/

theorem insertBy_perm {α} (le : α → α → Bool) (x : α) (l : List α) : (insertBy le x l).Perm (x :: l) := by
  induction l with
  | nil => simp [insertBy]
  | cons y ys ih =>
    simp only [insertBy]
    split
    · exact List.Perm.refl _
    · exact ((ih.cons y).trans (List.Perm.swap x y ys))

theorem isort_perm {α} (le : α → α → Bool) (l : List α) : (isort le l).Perm l := by
  induction l with
  | nil => simp [isort]
  | cons a t ih =>
    simp only [isort, List.foldr_cons] at ih ⊢
    exact (insertBy_perm le a _).trans (ih.cons a)

theorem insertBy_sorted (x : Row) (l : List Row) (h : SortedOff l) : SortedOff (insertBy offLe x l) := by
  induction l with
  | nil => simp [insertBy, SortedOff]
  | cons y ys ih =>
    simp only [insertBy]
    have hy := List.pairwise_cons.mp h
    split
    · rename_i hle
      have hxy : x.off ≤ y.off := by simpa [offLe] using hle
      refine List.pairwise_cons.mpr ⟨?_, h⟩
      intro z hz
      rcases List.mem_cons.mp hz with rfl | hz
      · exact hxy
      · exact le_trans hxy (hy.1 z hz)
    · rename_i hle
      have hyx : y.off ≤ x.off := by
        have : ¬ x.off ≤ y.off := by simpa [offLe] using hle
        exact le_of_lt (not_le.mp this)
      refine List.pairwise_cons.mpr ⟨?_, ih hy.2⟩
      intro z hz
      have := (insertBy_perm offLe x ys).subset hz
      rcases List.mem_cons.mp this with rfl | hz
      · exact hyx
      · exact hy.1 z hz

theorem isort_sorted (l : List Row) : SortedOff (isort offLe l) := by
  induction l with
  | nil => simp [isort, SortedOff]
  | cons a t ih =>
    simp only [isort, List.foldr_cons] at ih ⊢
    exact insertBy_sorted a _ ih

theorem sortedOffB_iff (l : List Row) : sortedOffB l = true ↔ SortedOff l := by
  induction l with
  | nil => simp [sortedOffB, SortedOff]
  | cons a t ih =>
    simp only [sortedOffB, Bool.and_eq_true, List.all_eq_true, decide_eq_true_eq, ih, SortedOff, List.pairwise_cons]

end Reamber.Pattern
