/-
K1 — milliseconds → positions → milliseconds off the grid: the time comes back within the snapper's error bound
(`1/(2N)` beat for `grid N`) measured with the beat length of the active tempo.
-/
import Reamber.Lemmas.TimingRoundTrip

namespace Reamber.Timing

/-- snapping never jumps over a grid value: if `x ≤ y` and `frac y` is a value of the array, `snap x ≤ y` -/
theorem snapOn_le_of_le_grid {g : Array Rat} (hg : GridOK g) {x y : Rat} (hxy : x ≤ y) (hy : frac y ∈ g.toList) :
    snapOn g x ≤ y := by
  have hn := snapOn_nearest hg.asc x ⟨1, hg.one_mem, le_of_lt (frac_lt_one x)⟩
  have hv1 := (hg.bounds _ hn.1).2
  have hfm : ffloor x ≤ ffloor y := Rat.floor_monotone hxy
  have hx := frac_add_floor x
  have hyy := frac_add_floor y
  rcases Int.lt_or_eq_of_le hfm with hlt | heq
  · have h1 : ((ffloor x : Int) : Rat) + 1 ≤ ((ffloor y : Int) : Rat) := by exact_mod_cast hlt
    have := frac_nonneg y
    linarith
  · have hfr : frac x ≤ frac y := by rw [heq] at hx; linarith
    have h2 := hn.2 _ hy
    rw [rabs_of_nonneg (show 0 ≤ frac y - frac x by linarith)] at h2
    by_cases hc : snapOn g x - (ffloor x : Rat) ≤ frac y
    · rw [heq] at hc; linarith
    · have hc' := not_le.mp hc
      rw [rabs_of_nonneg (by linarith)] at h2
      linarith

theorem rabs_mul_of_pos (x : Rat) {b : Rat} (hb : 0 < b) : rabs (x * b) = rabs x * b := by
  unfold rabs
  by_cases h : x < 0
  · have : x * b < 0 := mul_neg_of_neg_of_pos h hb
    rw [if_pos h, if_pos this]; ring
  · have : ¬ (x * b < 0) := not_lt.mpr (mul_nonneg (not_lt.mp h) hb.le)
    rw [if_neg h, if_neg this]

/-- beat length of the tempo in force at time `t` -/
def activeBeatLenAux (T : Rat) (cur : BcSnap) : List BcSnap → Rat → Rat
  | [], _ => beatLen cur.bpm
  | n :: rest, t =>
    if T + snapDist cur.snap n.snap cur.met * beatLen cur.bpm ≤ t then
      activeBeatLenAux (T + snapDist cur.snap n.snap cur.met * beatLen cur.bpm) n rest t
    else beatLen cur.bpm

def activeBeatLen (t0 : Rat) (cs : List BcSnap) (t : Rat) : Rat :=
  match cs with
  | [] => 0
  | c :: rest => activeBeatLenAux t0 c rest t

theorem snappedDist_err {g : Array Rat} {ε M D : Rat} (herr : ∀ x, rabs (snapOn g x - x) ≤ ε) :
    rabs (snappedDist g M D - D) ≤ ε := by
  unfold snappedDist
  have := herr (D - (((D / M).floor : Int) : Rat) * M)
  have e : ((((D / M).floor : Int) : Rat) * M + snapOn g (D - (((D / M).floor : Int) : Rat) * M) - D)
      = snapOn g (D - (((D / M).floor : Int) : Rat) * M) - (D - (((D / M).floor : Int) : Rat) * M) := by ring
  rw [e]; exact this

/-- whole measures + snapped remainder never passes a later on-grid distance -/
theorem snappedDist_le_of_le_grid {g : Array Rat} (hg : GridOK g) {M D Dn : Rat} (hMint : ∃ k : Int, M = (k : Rat))
    (hD : D ≤ Dn) (hgrid : frac Dn ∈ g.toList) : snappedDist g M D ≤ Dn := by
  obtain ⟨kM, hkM⟩ := hMint
  unfold snappedDist
  have hfr : frac (Dn - (((D / M).floor : Int) : Rat) * M) = frac Dn := by
    have : (((D / M).floor : Int) : Rat) * M = (((D / M).floor * kM : Int) : Rat) := by
      rw [hkM]; push_cast; ring
    rw [this, frac_sub_int]
  have := snapOn_le_of_le_grid hg (x := D - (((D / M).floor : Int) : Rat) * M)
    (y := Dn - (((D / M).floor : Int) : Rat) * M) (by linarith) (by rw [hfr]; exact hgrid)
  linarith

/-- **ms → position → ms, general**: the position assigned to ANY time `t ≥ T` integrates back to a time within
`ε` beats (at the active tempo) of `t`, where `ε` bounds the snapper's error. -/
theorem timeAtAux_snapAtAux_err {g : Array Rat} (hg : GridOK g) {ε : Rat} (herr : ∀ x, rabs (snapOn g x - x) ≤ ε)
    (T : Rat) (cur : BcSnap) (rest : List BcSnap) (t : Rat)
    (hwf : wfChanges (cur :: rest) = true) (hs : sortedSnaps (cur :: rest) = true)
    (hgc : gridCompatible g.toList (cur :: rest) = true)
    (hm : metronomeOk (cur :: rest) = true) (hT : T ≤ t) :
    ∃ S, snapAtAux g T cur rest t = .ok S ∧ cur.snap.le S = true ∧ 0 ≤ S.beat ∧
      rabs (timeAtAux T cur rest S - t) ≤ ε * activeBeatLenAux T cur rest t := by
  induction rest generalizing T cur with
  | nil =>
    have wc := wfChanges_mem hwf (List.mem_cons_self)
    have hbl := beatLen_pos wc.bpm_pos
    have hD : 0 ≤ (t - T) / beatLen cur.bpm := div_nonneg (by linarith) hbl.le
    obtain ⟨S, hS, _, _, hb0, hbM, htot⟩ := snapFromOffset_total hg T ((t - T) / beatLen cur.bpm) cur wc hD
    have ht : T + (t - T) / beatLen cur.bpm * beatLen cur.bpm = t := by
      rw [div_mul_cancel₀ _ (ne_of_gt hbl)]; ring
    rw [ht] at hS
    have hsd0 : 0 ≤ snappedDist g cur.met ((t - T) / beatLen cur.bpm) := by
      unfold snappedDist
      have hk0 : (0 : Rat) ≤ ((((t - T) / beatLen cur.bpm / cur.met).floor : Int) : Rat) := by
        exact_mod_cast (Rat.le_floor_iff.mpr (by simpa using div_nonneg hD wc.met_pos.le) : (0 : Int) ≤ _)
      have h1 : ((((t - T) / beatLen cur.bpm / cur.met).floor : Int) : Rat) * cur.met ≤ (t - T) / beatLen cur.bpm := by
        have := mul_le_mul_of_nonneg_right (Rat.floor_le ((t - T) / beatLen cur.bpm / cur.met)) wc.met_pos.le
        rwa [div_mul_cancel₀ _ (ne_of_gt wc.met_pos)] at this
      have := snapOn_nonneg hg (x := (t - T) / beatLen cur.bpm -
        ((((t - T) / beatLen cur.bpm / cur.met).floor : Int) : Rat) * cur.met) (by linarith)
      have := mul_nonneg hk0 wc.met_pos.le
      linarith
    refine ⟨S, hS, ?_, hb0, ?_⟩
    · exact Snap.le_of_total_le wc.met_pos wc.beat_nonneg wc.beat_lt hb0 hbM (by linarith)
    · simp only [timeAtAux, activeBeatLenAux]
      rw [snapDist_eq_of_total htot]
      have e : T + snappedDist g cur.met ((t - T) / beatLen cur.bpm) * beatLen cur.bpm - t
          = (snappedDist g cur.met ((t - T) / beatLen cur.bpm) - (t - T) / beatLen cur.bpm) * beatLen cur.bpm := by
        rw [sub_mul, div_mul_cancel₀ _ (ne_of_gt hbl)]; ring
      rw [e, rabs_mul_of_pos _ hbl]
      exact mul_le_mul_of_nonneg_right (snappedDist_err herr) hbl.le
  | cons n rest ih =>
    have wc := wfChanges_mem hwf (List.mem_cons_self)
    have wn := wfChanges_mem hwf (List.mem_cons_of_mem _ List.mem_cons_self)
    obtain ⟨hm1, hm2⟩ := metronomeOk_cons hm
    obtain ⟨hgc1, hgc2⟩ := gridCompatible_cons hgc
    have hcn : cur.snap.le n.snap = true := sortedSnaps_head_le hs n List.mem_cons_self
    simp only [snapAtAux, activeBeatLenAux]
    by_cases h : T + snapDist cur.snap n.snap cur.met * beatLen cur.bpm ≤ t
    · rw [if_pos h, if_pos h]
      obtain ⟨S, hS, hle, hb0, hback⟩ := ih _ n (wfChanges_tail hwf) (sortedSnaps_tail hs) hgc2 hm2 h
      refine ⟨S, hS, Snap.le_trans hcn hle, hb0, ?_⟩
      simp only [timeAtAux, hle, if_true]
      exact hback
    · rw [if_neg h, if_neg h]
      have hbl := beatLen_pos wc.bpm_pos
      have hD : 0 ≤ (t - T) / beatLen cur.bpm := div_nonneg (by linarith) hbl.le
      obtain ⟨S, hS, _, _, hb0, hbM, htot⟩ := snapFromOffset_total hg T ((t - T) / beatLen cur.bpm) cur wc hD
      have ht : T + (t - T) / beatLen cur.bpm * beatLen cur.bpm = t := by
        rw [div_mul_cancel₀ _ (ne_of_gt hbl)]; ring
      rw [ht] at hS
      have hnb : n.snap.beat < cur.met := by
        rcases hm1 with h' | h'
        · rw [h']; exact wn.beat_lt
        · rw [h']; exact wc.met_pos
      have hlt : (t - T) / beatLen cur.bpm < snapDist cur.snap n.snap cur.met := by
        rw [div_lt_iff₀ hbl]; linarith [not_le.mp h]
      have hsle := snappedDist_le_of_le_grid hg wc.met_int (le_of_lt hlt) hgc1
      have hsd0 : 0 ≤ snappedDist g cur.met ((t - T) / beatLen cur.bpm) := by
        unfold snappedDist
        have hk0 : (0 : Rat) ≤ ((((t - T) / beatLen cur.bpm / cur.met).floor : Int) : Rat) := by
          exact_mod_cast (Rat.le_floor_iff.mpr (by simpa using div_nonneg hD wc.met_pos.le) : (0 : Int) ≤ _)
        have h1 : ((((t - T) / beatLen cur.bpm / cur.met).floor : Int) : Rat) * cur.met ≤ (t - T) / beatLen cur.bpm := by
          have := mul_le_mul_of_nonneg_right (Rat.floor_le ((t - T) / beatLen cur.bpm / cur.met)) wc.met_pos.le
          rwa [div_mul_cancel₀ _ (ne_of_gt wc.met_pos)] at this
        have := snapOn_nonneg hg (x := (t - T) / beatLen cur.bpm -
          ((((t - T) / beatLen cur.bpm / cur.met).floor : Int) : Rat) * cur.met) (by linarith)
        have := mul_nonneg hk0 wc.met_pos.le
        linarith
      have hcS : cur.snap.le S = true :=
        Snap.le_of_total_le wc.met_pos wc.beat_nonneg wc.beat_lt hb0 hbM (by linarith)
      refine ⟨S, hS, hcS, hb0, ?_⟩
      -- in either case (S before the next change, or exactly on it) the integration gives T + snapped·bl
      have hval : timeAtAux T cur (n :: rest) S
          = T + snappedDist g cur.met ((t - T) / beatLen cur.bpm) * beatLen cur.bpm := by
        have hntot : (n.snap.measure : Rat) * cur.met + n.snap.beat
            = (cur.snap.measure : Rat) * cur.met + cur.snap.beat + snapDist cur.snap n.snap cur.met := by
          unfold snapDist; push_cast; ring
        simp only [timeAtAux]
        by_cases hnS : n.snap.le S = true
        · -- S is at the next change's position
          have hSn : S.le n.snap = true :=
            Snap.le_of_total_le wc.met_pos hb0 hbM wn.beat_nonneg hnb (by rw [htot, hntot]; linarith)
          have heq := Snap.eqv_of_le_le hnS hSn
          have hD' : snappedDist g cur.met ((t - T) / beatLen cur.bpm) = snapDist cur.snap n.snap cur.met := by
            have : (S.measure : Rat) * cur.met + S.beat = (n.snap.measure : Rat) * cur.met + n.snap.beat := by
              rw [heq.1, heq.2]
            rw [htot, hntot] at this; linarith
          rw [if_pos hnS, timeAtAux_at_cur _ n rest S (sortedSnaps_tail hs) hnS hSn, hD']
        · rw [if_neg hnS, snapDist_eq_of_total htot]
      rw [hval]
      have e : T + snappedDist g cur.met ((t - T) / beatLen cur.bpm) * beatLen cur.bpm - t
          = (snappedDist g cur.met ((t - T) / beatLen cur.bpm) - (t - T) / beatLen cur.bpm) * beatLen cur.bpm := by
        rw [sub_mul, div_mul_cancel₀ _ (ne_of_gt hbl)]; ring
      rw [e, rabs_mul_of_pos _ hbl]
      exact mul_le_mul_of_nonneg_right (snappedDist_err herr) hbl.le

end Reamber.Timing
