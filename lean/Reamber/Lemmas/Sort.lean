/-
K4 — the structural insertion sort used by every model (`isort`): it permutes, it sorts, and for an
antisymmetric total order its result depends only on the multiset of its input (so any model that
starts by sorting with a total key is invariant under permutations of its rows — the shape of C15).
Core Lean only.
-/
import Reamber.Model.Timing

namespace Reamber.Timing

variable {α : Type}

theorem insertBy_perm (le : α → α → Bool) (x : α) (l : List α) : (insertBy le x l).Perm (x :: l) := by
  induction l with
  | nil => simp [insertBy]
  | cons y ys ih =>
    simp only [insertBy]
    split
    · exact List.Perm.refl _
    · exact (List.Perm.cons y ih).trans (List.Perm.swap x y ys)

theorem isort_perm (le : α → α → Bool) (l : List α) : (isort le l).Perm l := by
  induction l with
  | nil => simp [isort]
  | cons x xs ih =>
    have : isort le (x :: xs) = insertBy le x (isort le xs) := by simp [isort]
    rw [this]
    exact (insertBy_perm le x _).trans (List.Perm.cons x ih)

theorem isort_length (le : α → α → Bool) (l : List α) : (isort le l).length = l.length :=
  (isort_perm le l).length_eq

theorem mem_isort {le : α → α → Bool} {l : List α} {a : α} : a ∈ isort le l ↔ a ∈ l :=
  (isort_perm le l).mem_iff

/-- `le` is a total preorder (as a Bool relation) -/
structure TotalPre (le : α → α → Bool) : Prop where
  total : ∀ a b, le a b = true ∨ le b a = true
  trans : ∀ a b c, le a b = true → le b c = true → le a c = true

def Sorted (le : α → α → Bool) (l : List α) : Prop := l.Pairwise (fun a b => le a b = true)

theorem insertBy_sorted {le : α → α → Bool} (h : TotalPre le) (x : α) {l : List α} (hl : Sorted le l) :
    Sorted le (insertBy le x l) := by
  induction l with
  | nil => simp [insertBy, Sorted]
  | cons y ys ih =>
    simp only [insertBy]
    have hy : ∀ b ∈ ys, le y b = true := (List.pairwise_cons.mp hl).1
    have hys : Sorted le ys := (List.pairwise_cons.mp hl).2
    split
    · rename_i hxy
      refine List.pairwise_cons.mpr ⟨?_, hl⟩
      intro b hb
      rcases List.mem_cons.mp hb with rfl | hb
      · exact hxy
      · exact h.trans _ _ _ hxy (hy b hb)
    · rename_i hxy
      have hyx : le y x = true := by
        rcases h.total x y with h1 | h1
        · exact absurd h1 hxy
        · exact h1
      refine List.pairwise_cons.mpr ⟨?_, ih hys⟩
      intro b hb
      have : b ∈ x :: ys := (insertBy_perm le x ys).mem_iff.mp hb
      rcases List.mem_cons.mp this with rfl | hb
      · exact hyx
      · exact hy b hb

theorem isort_sorted {le : α → α → Bool} (h : TotalPre le) (l : List α) : Sorted le (isort le l) := by
  induction l with
  | nil => simp [isort, Sorted]
  | cons x xs ih =>
    have : isort le (x :: xs) = insertBy le x (isort le xs) := by simp [isort]
    rw [this]
    exact insertBy_sorted h x ih

/-- two sorted lists with the same elements are equal when the order is antisymmetric -/
theorem sorted_perm_eq {le : α → α → Bool} (anti : ∀ a b, le a b = true → le b a = true → a = b) :
    ∀ {l₁ l₂ : List α}, l₁.Perm l₂ → Sorted le l₁ → Sorted le l₂ → l₁ = l₂ := by
  intro l₁
  induction l₁ with
  | nil => intro l₂ hp _ _; exact (List.Perm.nil_eq hp)
  | cons a t ih =>
    intro l₂ hp h1 h2
    cases l₂ with
    | nil => exact absurd (List.Perm.eq_nil hp) (by simp)
    | cons b t₂ =>
      have ha : ∀ x ∈ t, le a x = true := (List.pairwise_cons.mp h1).1
      have hb : ∀ x ∈ t₂, le b x = true := (List.pairwise_cons.mp h2).1
      have hab : a = b := by
        have hbmem : b ∈ a :: t := hp.mem_iff.mpr (by simp)
        have hamem : a ∈ b :: t₂ := hp.mem_iff.mp (by simp)
        rcases List.mem_cons.mp hbmem with e | hbt
        · exact e.symm
        · rcases List.mem_cons.mp hamem with e | hat
          · exact e
          · exact anti a b (ha b hbt) (hb a hat)
      subst hab
      have hp' : t.Perm t₂ := List.Perm.cons_inv hp
      rw [ih hp' (List.pairwise_cons.mp h1).2 (List.pairwise_cons.mp h2).2]

/-- **Order independence of sorting**: for a total antisymmetric order, sorting any two permutations of
the same rows gives the same list. -/
theorem isort_eq_of_perm {le : α → α → Bool} (h : TotalPre le)
    (anti : ∀ a b, le a b = true → le b a = true → a = b) {l₁ l₂ : List α} (hp : l₁.Perm l₂) :
    isort le l₁ = isort le l₂ :=
  sorted_perm_eq anti (((isort_perm le l₁).trans hp).trans (isort_perm le l₂).symm)
    (isort_sorted h l₁) (isort_sorted h l₂)

/-- a sorted list is a fixed point of the sort (stability is not needed for this) -/
theorem isort_of_sorted {le : α → α → Bool} : ∀ {l : List α}, Sorted le l → isort le l = l := by
  intro l
  induction l with
  | nil => intro _; rfl
  | cons x xs ih =>
    intro h
    have hx : ∀ b ∈ xs, le x b = true := (List.pairwise_cons.mp h).1
    have : isort le (x :: xs) = insertBy le x (isort le xs) := by simp [isort]
    rw [this, ih (List.pairwise_cons.mp h).2]
    cases xs with
    | nil => rfl
    | cons y ys => simp [insertBy, hx y (by simp)]

theorem isort_idem {le : α → α → Bool} (h : TotalPre le) (l : List α) : isort le (isort le l) = isort le l :=
  isort_of_sorted (isort_sorted h l)

end Reamber.Timing
