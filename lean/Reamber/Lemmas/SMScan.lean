/-
C03 — the note data the writer emits scans back to its rows: `"\n,\n".join("\n".join(rows) for each measure)`, read by
the specification's row scanner (`Spec/SM.lean: scanRows`), gives exactly the measures and rows that were written —
for rows that are non-empty, contain no ',' or line break and have no surrounding whitespace (true of rows over the
note symbols).  Core Lean only.
-/
import Reamber.Lemmas.SMDefs

namespace Reamber.SM

open Reamber.Timing

/-- the note data text of `SMMap.write`: rows joined by "\n", measures joined by "\n,\n" -/
def renderRows (ms : List (List Str)) : Str := joinWith ['\n', ',', '\n'] (ms.map (joinWith ['\n']))

/-- a row as the writer emits it -/
def CleanRow (p : Str) : Prop := p ≠ [] ∧ trim p = p ∧ ∀ c ∈ p, c ≠ ',' ∧ c ≠ '\n'

def scanFrom (s : Scan) (t : Str) : Scan := t.foldl scanStep s

theorem scanFrom_append (s : Scan) (a b : Str) : scanFrom s (a ++ b) = scanFrom (scanFrom s a) b := by
  simp [scanFrom, List.foldl_append]

theorem scanFrom_row (s : Scan) (p : Str) (h : ∀ c ∈ p, c ≠ ',' ∧ c ≠ '\n') :
    scanFrom s p = { s with line := p.reverse ++ s.line } := by
  induction p generalizing s with
  | nil => simp [scanFrom]
  | cons c t ih =>
    have hc := h c (by simp)
    have : scanStep s c = { s with line := c :: s.line } := by simp [scanStep, hc.1, hc.2]
    simp only [scanFrom, List.foldl_cons] at ih ⊢
    rw [this, ih _ (fun x hx => h x (List.mem_cons_of_mem _ hx))]
    simp

theorem endLine_row (s : Scan) (p : Str) (hp : CleanRow p) :
    ({ s with line := p.reverse } : Scan).endLine = { s with rows := p :: s.rows, line := [] } := by
  obtain ⟨hne, htrim, _⟩ := hp
  unfold Scan.endLine
  simp only [List.reverse_reverse, htrim]
  have : p.isEmpty = false := by cases p with
    | nil => exact absurd rfl hne
    | cons _ _ => rfl
  simp [this]

theorem endLine_empty (s : Scan) (h : s.line = []) : s.endLine = s := by
  cases s
  simp_all [Scan.endLine, trim]

/-- the rows of one measure -/
theorem scan_measure : ∀ (rows : List Str) (s : Scan), s.line = [] → (∀ p ∈ rows, CleanRow p) →
    (scanFrom s (joinWith ['\n'] rows)).endLine = { s with rows := rows.reverse ++ s.rows, line := [] } := by
  intro rows
  induction rows with
  | nil =>
    intro s hl _
    simp only [joinWith, scanFrom, List.foldl_nil, List.reverse_nil, List.nil_append]
    rw [endLine_empty s hl]
    cases s; simp_all
  | cons p t ih =>
    intro s hl hc
    have hp := hc p (by simp)
    cases t with
    | nil =>
      simp only [joinWith]
      rw [scanFrom_row s p hp.2.2, hl, List.append_nil, endLine_row s p hp]
      simp
    | cons q r =>
      simp only [joinWith, List.append_assoc, List.singleton_append]
      rw [scanFrom_append, scanFrom_row s p hp.2.2, hl, List.append_nil]
      have hstep : scanFrom ({ s with line := p.reverse } : Scan) ('\n' :: joinWith ['\n'] (q :: r)) =
          scanFrom ({ s with rows := p :: s.rows, line := [] } : Scan) (joinWith ['\n'] (q :: r)) := by
        simp only [scanFrom, List.foldl_cons]
        have : scanStep ({ s with line := p.reverse } : Scan) '\n' = ({ s with line := p.reverse } : Scan).endLine := by
          simp [scanStep]
        rw [this, endLine_row s p hp]
      rw [hstep, ih _ rfl (fun x hx => hc x (List.mem_cons_of_mem _ hx))]
      simp

theorem endMeasure_eq (s : Scan) : s.endMeasure = { s.endLine with measures := s.endLine.rows.reverse :: s.endLine.measures, rows := [] } := rfl

/-- all measures: after the last one, `endMeasure` -/
theorem scan_measures : ∀ (ms : List (List Str)) (s : Scan), ms ≠ [] → s.line = [] → s.rows = [] →
    (∀ rows ∈ ms, ∀ p ∈ rows, CleanRow p) →
    (scanFrom s (renderRows ms)).endMeasure = { s with measures := ms.reverse ++ s.measures, rows := [], line := [] } := by
  intro ms
  induction ms with
  | nil => intro s h; exact absurd rfl h
  | cons m t ih =>
    intro s _ hl hr hc
    have hm := hc m (by simp)
    cases t with
    | nil =>
      simp only [renderRows, List.map_cons, List.map_nil, joinWith]
      rw [endMeasure_eq, scan_measure m s hl hm]
      simp [hr]
    | cons m2 r =>
      simp only [renderRows, List.map_cons, joinWith, List.append_assoc, List.cons_append, List.nil_append]
      rw [scanFrom_append]
      -- "\n,\n" after the measure: end the last row, close the measure, skip the empty line
      have hsep : ∀ (u : Scan) (rest : Str),
          scanFrom u ('\n' :: ',' :: '\n' :: rest) =
            scanFrom ({ u.endLine with measures := u.endLine.rows.reverse :: u.endLine.measures, rows := [], line := [] } : Scan) rest := by
        intro u rest
        simp only [scanFrom, List.foldl_cons]
        have h1 : scanStep u '\n' = u.endLine := by simp [scanStep]
        have hel : u.endLine.line = [] := by
          unfold Scan.endLine; simp only; split <;> rfl
        have h2 : scanStep u.endLine ',' = u.endLine.endMeasure := by simp [scanStep]
        have h3 : u.endLine.endMeasure =
            { u.endLine with measures := u.endLine.rows.reverse :: u.endLine.measures, rows := [], line := [] } := by
          rw [endMeasure_eq, endLine_empty u.endLine hel]
          cases hu : u.endLine; simp_all
        rw [h1, h2, h3]
        have h4 : scanStep ({ u.endLine with measures := u.endLine.rows.reverse :: u.endLine.measures, rows := [], line := [] } : Scan) '\n'
            = { u.endLine with measures := u.endLine.rows.reverse :: u.endLine.measures, rows := [], line := [] } := by
          simp only [scanStep]
          simp [Scan.endLine, trim]
        rw [h4]
      rw [hsep, scan_measure m s hl hm]
      have := ih ({ s with measures := m :: s.measures, rows := [], line := [] } : Scan) (by simp) rfl rfl
        (fun rows hrows => hc rows (List.mem_cons_of_mem _ hrows))
      simp only [renderRows, List.map_cons] at this
      simp only [hr, List.append_nil, List.reverse_reverse]
      rw [this]
      simp

/-- **`scanRows (render rows) = rows`**: the note data written by `SMMap.write`, scanned by the StepMania rules,
gives back exactly the measures and rows. -/
theorem scanRows_renderRows (ms : List (List Str)) (hne : ms ≠ []) (hc : ∀ rows ∈ ms, ∀ p ∈ rows, CleanRow p) :
    scanRows (renderRows ms) = ms := by
  unfold scanRows
  have := scan_measures ms {} hne rfl rfl hc
  simp only [scanFrom] at this
  rw [this]
  simp

end Reamber.SM
