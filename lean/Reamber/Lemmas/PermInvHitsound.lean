/-
C15 helper lemmas, part 3: hitsound copy.  Per time the result is `zipApply (queue S u) rows` plus the event samples
of `(queue S u).drop k`.  The queue is a sequence of blocks, one per volume in ascending order, each block being the
default values (a function of the group's clap/finish/whistle COUNTS) followed by the group's named samples in row
order.  Re-ordering the source rows permutes the named samples inside their blocks and nothing else, so

* the default payloads occupy the same positions (`take_filter_blocks`): the first `k` payloads carry the same
  default sounds;
* the named payloads are the same multiset: what does not fit on a note becomes an event sample.
-/
import Reamber.Props.C18
import Reamber.Lemmas.Sort

namespace Reamber.Hitsound

open Reamber.Timing (gather IsPerm)

def isDflt : Payload → Bool
  | .dflt _ _ => true
  | .file _ _ => false

/-! ### blocks -/

theorem take_filter_blocks (vs : List Int) (D F F' : Int → List Payload)
    (hD : ∀ v, ∀ p ∈ D v, isDflt p = true) (hF : ∀ v, ∀ p ∈ F v, isDflt p = false)
    (hF' : ∀ v, ∀ p ∈ F' v, isDflt p = false) (hl : ∀ v, (F v).length = (F' v).length) :
    ∀ k, ((vs.flatMap (fun v => D v ++ F v)).take k).filter isDflt
       = ((vs.flatMap (fun v => D v ++ F' v)).take k).filter isDflt := by
  induction vs with
  | nil => intro k; simp
  | cons v vs ih =>
    intro k
    have hlen : (D v ++ F v).length = (D v ++ F' v).length := by simp [hl v]
    have hblock : ∀ (X : List Payload), (∀ p ∈ X, isDflt p = false) →
        ((D v ++ X).take k).filter isDflt = (D v).take k := by
      intro X hX
      rw [List.take_append, List.filter_append]
      have h1 : ((D v).take k).filter isDflt = (D v).take k :=
        List.filter_eq_self.mpr (fun p hp => hD v p (List.mem_of_mem_take hp))
      have h2 : (X.take (k - (D v).length)).filter isDflt = [] :=
        List.filter_eq_nil_iff.mpr (fun p hp => by simp [hX p (List.mem_of_mem_take hp)])
      rw [h1, h2, List.append_nil]
    have tA : ∀ (A B : List Payload), ((A ++ B).take k).filter isDflt
        = (A.take k).filter isDflt ++ (B.take (k - A.length)).filter isDflt := by
      intro A B; rw [List.take_append, List.filter_append]
    simp only [List.flatMap_cons]
    rw [tA (D v ++ F v), tA (D v ++ F' v), hblock (F v) (hF v), hblock (F' v) (hF' v), hlen, ih]

/-! ### one volume group -/

def dPart (G : List Note) (v : Int) : List Payload :=
  (defaultVals (max (G.countP isClap) (max (G.countP isFinish) (G.countP isWhistle)))
      (G.countP isClap) (G.countP isFinish) (G.countP isWhistle)).map (fun x => Payload.dflt x v)

def fPart (G : List Note) (v : Int) : List Payload :=
  ((G.map (·.file)).filter (fun f => f.length > 0)).map (fun f => Payload.file f v)

theorem queueG_parts (G : List Note) (v : Int) : queueG G v = dPart G v ++ fPart G v := rfl

theorem dPart_perm {G G' : List Note} (h : G.Perm G') (v : Int) : dPart G v = dPart G' v := by
  simp only [dPart, h.countP_eq]

theorem dPart_dflt (G : List Note) (v : Int) : ∀ p ∈ dPart G v, isDflt p = true := by
  intro p hp
  simp only [dPart, List.mem_map] at hp
  obtain ⟨x, _, rfl⟩ := hp
  rfl

theorem fPart_file (G : List Note) (v : Int) : ∀ p ∈ fPart G v, isDflt p = false := by
  intro p hp
  simp only [fPart, List.mem_map] at hp
  obtain ⟨x, _, rfl⟩ := hp
  rfl

theorem fPart_length_perm {G G' : List Note} (h : G.Perm G') (hs : NoSepL G) (v : Int) :
    (fPart G v).length = (fPart G' v).length := by
  have hs' : NoSepL G' := fun n hn => hs n (h.mem_iff.mpr hn)
  have e1 := split_join_filter sep (G.map (·.file)) (by
    intro p hp; rw [List.mem_map] at hp; obtain ⟨n, hn, rfl⟩ := hp; exact hs n hn)
  have e2 := split_join_filter sep (G'.map (·.file)) (by
    intro p hp; rw [List.mem_map] at hp; obtain ⟨n, hn, rfl⟩ := hp; exact hs' n hn)
  simp only [fPart, List.length_map, e1, e2]
  exact ((h.map _).filter _).length_eq

/-! ### group keys -/

theorem dedup_perm {l l' : List Int} (h : l.Perm l') : (dedup l).Perm (dedup l') := by
  rw [List.perm_ext_iff_of_nodup (nodup_dedup l) (nodup_dedup l')]
  intro a
  rw [mem_dedup, mem_dedup]
  exact h.mem_iff

theorem keysInt_perm {l l' : List Int} (h : l.Perm l') : keysInt l = keysInt l' := by
  unfold keysInt
  apply Timing.isort_eq_of_perm
  · exact ⟨fun a b => by simp only [decide_eq_true_eq]; omega, fun a b c => by simp only [decide_eq_true_eq]; omega⟩
  · intro a b h1 h2
    simp only [decide_eq_true_eq] at h1 h2
    omega
  · exact dedup_perm h

/-! ### the queue of one time, for two orders of the source rows -/

/-- the rows of time `u` split by volume -/
def grp (S : List Note) (u : Rat) (v : Int) : List Note :=
  (S.filter (fun n => n.offset == u)).filter (fun n => n.volume == v)

theorem queue_blocks (S : List Note) (u : Rat) :
    queue S u = (keysInt ((S.filter (fun n => n.offset == u)).map (·.volume))).flatMap
      (fun v => dPart (grp S u v) v ++ fPart (grp S u v) v) := by
  rw [queue_eq]; rfl

theorem grp_perm {S S' : List Note} (h : S.Perm S') (u : Rat) (v : Int) : (grp S u v).Perm (grp S' u v) :=
  (h.filter _).filter _

theorem grp_noSep {S : List Note} (hs : NoSepL S) (u : Rat) (v : Int) : NoSepL (grp S u v) :=
  fun n hn => hs n (List.mem_filter.mp (List.mem_filter.mp hn).1).1

/-- **the default payloads sit at the same positions** whatever the order of the source rows -/
theorem queue_take_dflt {S S' : List Note} (h : S.Perm S') (hs : NoSepL S) (u : Rat) (k : Nat) :
    ((queue S u).take k).filter isDflt = ((queue S' u).take k).filter isDflt := by
  rw [queue_blocks, queue_blocks, ← keysInt_perm (((h.filter _).map _))]
  have hd : (fun v => dPart (grp S' u v) v ++ fPart (grp S' u v) v)
      = (fun v => dPart (grp S u v) v ++ fPart (grp S' u v) v) := by
    funext v
    rw [dPart_perm (grp_perm h u v) v]
  rw [hd]
  exact take_filter_blocks _ (fun v => dPart (grp S u v) v) (fun v => fPart (grp S u v) v)
    (fun v => fPart (grp S' u v) v) (fun v => dPart_dflt _ v) (fun v => fPart_file _ v) (fun v => fPart_file _ v)
    (fun v => fPart_length_perm (grp_perm h u v) (grp_noSep hs u v) v) k

/-- a predicate that only default payloads satisfy counts the same over the first `k` payloads -/
theorem queue_take_countP_dflt {S S' : List Note} (h : S.Perm S') (hs : NoSepL S) (u : Rat) (k : Nat)
    (q : Payload → Bool) (hq : ∀ p, q p = true → isDflt p = true) :
    ((queue S u).take k).countP q = ((queue S' u).take k).countP q := by
  have e : ∀ (l : List Payload), l.countP q = (l.filter isDflt).countP q := by
    intro l
    rw [List.countP_filter]
    apply List.countP_congr
    intro p _
    by_cases hp : q p = true
    · simp [hp, hq p hp]
    · simp [hp]
  rw [e, e ((queue S' u).take k), queue_take_dflt h hs u k]

/-! ### payload predicates that see the volume -/

/-- a note placement of this payload shows bit `m` at volume `w` -/
def ppBit (m : Nat) (w : Int) : Payload → Bool
  | .dflt v vol => hasBit v m && clampVol vol == w
  | .file _ _ => false

/-- a note placement of this payload shows the name `f` at volume `w` -/
def ppFile (f : File) (w : Int) : Payload → Bool
  | .dflt _ _ => false
  | .file g vol => g == f && clampVol vol == w

/-- this payload as an event sample is `(·, f, w)` -/
def peFile (f : File) (w : Int) : Payload → Bool
  | .dflt _ _ => false
  | .file g vol => g == f && vol == w

def pVol : Payload → Int
  | .dflt _ vol => vol
  | .file _ vol => vol

theorem zipApply_countP (P : Note → Bool) (Pp : Payload → Bool) (h0 : ∀ r, isReset r → P r = false)
    (h1 : ∀ r p, isReset r → P (applyP p r) = Pp p) (ps : List Payload) (rows : List Note)
    (hr : ∀ r ∈ rows, isReset r) :
    (zipApply ps rows).countP P = (ps.take rows.length).countP Pp := by
  induction rows generalizing ps with
  | nil => simp [zipApply]
  | cons r rs ih =>
    have hrs : ∀ r ∈ rs, isReset r := fun x hx => hr x (by simp [hx])
    cases ps with
    | nil =>
      simp only [zipApply, List.take_nil, List.countP_nil]
      rw [List.countP_eq_zero]
      intro x hx
      simp [h0 x (hr x hx)]
    | cons p ps =>
      simp only [zipApply, List.length_cons, List.take_succ_cons, List.countP_cons, ih ps hrs,
        h1 r p (hr r (by simp))]

theorem evsOf_countP_vol (t : Rat) (f : File) (w : Int) (ps : List Payload) :
    (evsOf t ps).countP (fun e => e.file == f && e.volume == w) = ps.countP (peFile f w) := by
  induction ps with
  | nil => rfl
  | cons p ps ih =>
    cases p with
    | dflt v vol =>
      have h1 : evsOf t (Payload.dflt v vol :: ps) = evsOf t ps := rfl
      rw [h1, ih]; simp [peFile]
    | file g vol =>
      have h1 : evsOf t (Payload.file g vol :: ps) = ⟨t, g, vol⟩ :: evsOf t ps := rfl
      rw [h1, List.countP_cons, List.countP_cons, ih]; rfl

theorem queueG_vol (G : List Note) (v : Int) : ∀ p ∈ queueG G v, pVol p = v := by
  intro p hp
  simp only [queueG, List.mem_append, List.mem_map] at hp
  rcases hp with ⟨x, _, rfl⟩ | ⟨x, _, rfl⟩ <;> rfl

/-- every payload of the queue carries the volume of a source row of that time -/
theorem queue_vol (S : List Note) (u : Rat) : ∀ p ∈ queue S u, ∃ n ∈ S, n.volume = pVol p := by
  intro p hp
  rw [queue_eq, List.mem_flatMap] at hp
  obtain ⟨v, hv, hp⟩ := hp
  rw [mem_keysInt, List.mem_map] at hv
  obtain ⟨n, hn, rfl⟩ := hv
  exact ⟨n, (List.mem_filter.mp hn).1, (queueG_vol _ _ p hp).symm⟩

theorem queueG_peFile (G : List Note) (v : Int) (hG : NoSepL G) (hv : ∀ n ∈ G, n.volume = v) (f : File) (hf : f ≠ [])
    (w : Int) : (queueG G v).countP (peFile f w) = G.countP (fun n => n.file == f && n.volume == w) := by
  by_cases hvw : v = w
  · subst hvw
    have e1 : (queueG G v).countP (peFile f v) = (queueG G v).countP (pFile f) := by
      apply List.countP_congr
      intro p hp
      have := queueG_vol G v p hp
      cases p with
      | dflt _ _ => simp [peFile, pFile]
      | file g vol =>
        have hvol : vol = v := this
        simp [peFile, pFile, hvol]
    rw [e1, queueG_file G v f hf]
    apply List.countP_congr
    intro n hn
    simp [hv n hn]
  · have e1 : (queueG G v).countP (peFile f w) = 0 := by
      rw [List.countP_eq_zero]
      intro p hp
      have := queueG_vol G v p hp
      cases p with
      | dflt _ _ => simp [peFile]
      | file g vol =>
        have hvol : vol = v := this
        simp [peFile, hvol, hvw]
    have e2 : G.countP (fun n => n.file == f && n.volume == w) = 0 := by
      rw [List.countP_eq_zero]
      intro n hn
      simp [hv n hn, hvw]
    rw [e1, e2]

/-- like `queue_count`, with the group's volume known -/
theorem queue_countV (S : List Note) (u : Rat) (q : Payload → Bool) (p : Note → Bool)
    (h : ∀ (G : List Note) (v : Int), (∀ n ∈ G, n ∈ S ∧ n.volume = v) → (queueG G v).countP q = G.countP p) :
    (queue S u).countP q = (S.filter (fun n => n.offset == u)).countP p := by
  rw [queue_eq, List.countP_flatMap]
  have := sum_countP_groups (fun n : Note => n.volume) p
    (keysInt ((S.filter (fun n => n.offset == u)).map (·.volume))) (nodup_keysInt _)
    (S.filter (fun n => n.offset == u)) (by
      intro x hx; rw [mem_keysInt]; exact List.mem_map_of_mem hx)
  rw [← this]
  congr 1
  apply List.map_congr_left
  intro v _
  simp only [Function.comp]
  apply h
  intro n hn
  have h2 := List.mem_filter.mp hn
  exact ⟨(List.mem_filter.mp h2.1).1, by simpa using h2.2⟩

/-- the named payloads of the queue are the named source rows of that time, with their volumes -/
theorem queue_peFile (S : List Note) (hS : NoSepL S) (u : Rat) (f : File) (hf : f ≠ []) (w : Int) :
    (queue S u).countP (peFile f w) = (S.filter (fun n => n.offset == u)).countP (fun n => n.file == f && n.volume == w) :=
  queue_countV S u _ _ (fun G v hG =>
    queueG_peFile G v (fun n hn => hS n (hG n hn).1) (fun n hn => (hG n hn).2) f hf w)

end Reamber.Hitsound
