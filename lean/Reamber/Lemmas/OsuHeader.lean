/- C01 — the metadata loop over a written header. -/
import Reamber.Lemmas.OsuText

set_option linter.unusedVariables false

namespace Reamber.Osu

/-- the key table the model's `metaAssign` implements: (key, attribute, conversion) -/
def modelKeyTable : List (String × String × String) :=
  [("AudioFilename", "audio_file_name", "strip"), ("AudioLeadIn", "audio_lead_in", "int"),
   ("PreviewTime", "preview_time", "int"), ("Countdown", "countdown", "boolint"),
   ("SampleSet", "sample_set", "sampleset"), ("StackLeniency", "stack_leniency", "float"), ("Mode", "mode", "int"),
   ("LetterboxInBreaks", "letterbox_in_breaks", "boolint"), ("SpecialStyle", "special_style", "boolint"),
   ("WidescreenStoryboard", "widescreen_storyboard", "boolint"), ("DistanceSpacing", "distance_spacing", "float"),
   ("BeatDivisor", "beat_divisor", "int"), ("GridSize", "grid_size", "int"), ("TimelineZoom", "timeline_zoom", "float"),
   ("Title", "title", "strip"), ("TitleUnicode", "title_unicode", "strip"), ("Artist", "artist", "strip"),
   ("ArtistUnicode", "artist_unicode", "strip"), ("Creator", "creator", "strip"), ("Version", "version", "strip"),
   ("Source", "source", "strip"), ("Tags", "tags", "tags"), ("BeatmapID", "beatmap_id", "int"),
   ("BeatmapSetID", "beatmap_set_id", "int"), ("HPDrainRate", "hp_drain_rate", "float"),
   ("CircleSize", "circle_size", "float"), ("OverallDifficulty", "overall_difficulty", "float"),
   ("ApproachRate", "approach_rate", "float"), ("SliderMultiplier", "slider_multiplier", "float"),
   ("SliderTickRate", "slider_tick_rate", "float")]

/-- keys outside the table leave the metadata untouched -/
theorem metaAssign_other (m : Meta) (k : Str) (v : MVal)
    (hk : ∀ e ∈ modelKeyTable, k ≠ e.1.toList) : metaAssign m k v = .ok m := by
  simp only [modelKeyTable, List.mem_cons, List.not_mem_nil, or_false, forall_eq_or_imp, forall_eq] at hk
  unfold metaAssign
  simp only [hk, if_false]

/-- one `Key:value` line: split at the first colon, then the key table — for every key without a colon that is not
one of the two event markers, and **every** value -/
theorem metaStep_key_value (m m' : Meta) (k v : Str) (rest : List Str) (hk : ':' ∉ k) (hb : k ≠ kBackground)
    (hs : k ≠ kSamples) (ha : metaAssign m k (some v) = .ok m') : metaStep m (k ++ ':' :: v) rest = .ok m' := by
  unfold metaStep
  have hne : k ++ ':' :: v ≠ [] := by simp
  rw [if_neg hne, split1_key_value ':' k v hk]
  simp only [ha, if_neg hb, if_neg hs]

/-- a header line `prefix + token` whose prefix is `key:` (possibly followed by a blank) -/
theorem metaStep_lit_tok (R : Render) (m m' : Meta) (k v0 : Str) (pre : String) (t : Tok) (rest : List Str)
    (hpre : pre.toList = k ++ ':' :: v0) (hk : ':' ∉ k) (hb : k ≠ kBackground) (hs : k ≠ kSamples)
    (ha : metaAssign m k (some (v0 ++ R.tok t)) = .ok m') : metaStep m (R.line [L pre, t]) rest = .ok m' := by
  have hl : R.line [L pre, t] = k ++ ':' :: (v0 ++ R.tok t) := by
    simp [Render.line, L, Render.tok, hpre]
  rw [hl]; exact metaStep_key_value m m' k _ rest hk hb hs ha

theorem mem_insertBy {α} (le : α → α → Bool) (x a : α) (l : List α) : a ∈ insertBy le x l ↔ a = x ∨ a ∈ l := by
  induction l with
  | nil => simp [insertBy]
  | cons y ys ih =>
    unfold insertBy
    split
    · simp
    · simp only [List.mem_cons, ih]
      constructor
      · rintro (h | h | h)
        · exact Or.inr (Or.inl h)
        · exact Or.inl h
        · exact Or.inr (Or.inr h)
      · rintro (h | h | h)
        · exact Or.inr (Or.inl h)
        · exact Or.inl h
        · exact Or.inr (Or.inr h)

theorem mem_isort {α} (le : α → α → Bool) (a : α) (l : List α) : a ∈ isort le l ↔ a ∈ l := by
  induction l with
  | nil => simp [isort]
  | cons y ys ih =>
    have : isort le (y :: ys) = insertBy le y (isort le ys) := rfl
    rw [this, mem_insertBy, ih]; simp

/-! ### one trimmed header line -/

theorem mStr_rstrip (w : Str) : mStr (some (rstrip w)) = mStr (some w) := by simp [mStr, strip_rstrip]
theorem ite_ok_imp {c : Prop} [Decidable c] {a b a' b' : Except Err Meta} {r : Meta}
    (h1 : a = .ok r → a' = .ok r) (h2 : b = .ok r → b' = .ok r) :
    (if c then a else b) = .ok r → (if c then a' else b') = .ok r := by
  split <;> assumption

/-- every conversion of the key table except `Tags` trims (or parses after trimming) its value, so the trailing
blanks that the line-level `strip` removed make no difference to a value that is accepted (a numeric value containing
one of \x1c–\x1f is rejected by `int()` / `float()` although `strip()` would remove it — hence one direction only) -/
theorem metaAssign_rstrip (m m' : Meta) (k w : Str) (hk : k ≠ "Tags".toList)
    (h : metaAssign m k (some w) = .ok m') : metaAssign m k (some (rstrip w)) = .ok m' := by
  cases hs : w.any isSep with
  | false =>
    have e1 : mInt (some (rstrip w)) = mInt (some w) := by simp only [mInt, readInt, numPrep_rstrip w hs]
    have e2 : mFloat (some (rstrip w)) = mFloat (some w) := by simp only [mFloat, readFloat, numPrep_rstrip w hs]
    have e3 : mBool (some (rstrip w)) = mBool (some w) := by
      simp only [mBool, readBoolInt, readInt, numPrep_rstrip w hs]
    rw [← h]
    unfold metaAssign
    simp only [mStr_rstrip, e1, e2, e3, if_neg hk]
  | true =>
    have e1 : mInt (some w) = .error .value := by simp only [mInt, readInt, numPrep_of_sep w hs]
    have e2 : mFloat (some w) = .error .value := by simp only [mFloat, readFloat, numPrep_of_sep w hs]
    have e3 : mBool (some w) = .error .value := by
      simp only [mBool, readBoolInt, readInt, numPrep_of_sep w hs]; rfl
    revert h
    unfold metaAssign
    simp only [mStr_rstrip, e1, e2, e3, if_neg hk]
    repeat' (first | exact id | (intro h; cases h; done) | apply ite_ok_imp)

/-- a line whose key part is neither in the table nor one of the two markers changes nothing -/
theorem metaStep_skip (m : Meta) (line : Str) (rest : List Str)
    (hk : ∀ e ∈ modelKeyTable, (split1 ':' line).1 ≠ e.1.toList)
    (hb : (split1 ':' line).1 ≠ kBackground) (hs : (split1 ':' line).1 ≠ kSamples) :
    metaStep m line rest = .ok m := by
  unfold metaStep
  by_cases hl : line = []
  · rw [if_pos hl]
  · rw [if_neg hl]
    simp only [metaAssign_other m _ _ hk, if_neg hb, if_neg hs]

/-- `key: value` after the line-level `strip` -/
def kvLine (key : String) (w : Str) : Str := key.toList ++ ':' :: rstrip w

theorem strip_line_kv (R : Render) (pre key : String) (v0 : Str) (t : Tok)
    (hpre : pre.toList = key.toList ++ ':' :: v0) (hk : key.toList ≠ []) (hkw : ∀ ch ∈ key.toList, isWs ch = false) :
    strip (R.line [L pre, t]) = kvLine key (v0 ++ R.tok t) := by
  have hl : R.line [L pre, t] = key.toList ++ ':' :: (v0 ++ R.tok t) := by
    simp [Render.line, L, Render.tok, hpre]
  rw [hl]; exact strip_key_value _ _ hk hkw

theorem metaStep_kvLine (m m' : Meta) (key : String) (w : Str) (rest : List Str)
    (hk : ':' ∉ key.toList) (hb : key.toList ≠ kBackground) (hs : key.toList ≠ kSamples)
    (ht : key.toList ≠ "Tags".toList) (ha : metaAssign m key.toList (some w) = .ok m') :
    metaStep m (kvLine key w) rest = .ok m' := by
  unfold kvLine
  apply metaStep_key_value m m' _ _ rest hk hb hs
  exact metaAssign_rstrip m m' _ w ht ha

/-! ### the written header, line by line (generated from the key table; see /tmp generator in the commit message) -/

def bgLine (bg : Str) : Str := "0,0,\"".toList ++ bg ++ "\",0,0".toList

/-- the 50 fixed header lines of `write_meta_string_list` as the reader sees them (after the line-level `strip`) -/
def hdrS (R : Render) (m : Meta) : List Str :=
  [ "osu file format v14".toList,
    [],
    "[General]".toList,
    kvLine "AudioFilename" (' ' :: m.audioFileName),
    kvLine "AudioLeadIn" (' ' :: R.tok (.num m.audioLeadIn)),
    kvLine "PreviewTime" (' ' :: showInt (pyTrunc m.previewTime)),
    kvLine "Countdown" (' ' :: showInt (boolInt m.countdown)),
    kvLine "SampleSet" (' ' :: sampleSetToString m.sampleSet),
    kvLine "StackLeniency" (' ' :: R.repr m.stackLeniency),
    kvLine "Mode" (' ' :: showInt m.mode),
    kvLine "LetterboxInBreaks" (' ' :: showInt (boolInt m.letterboxInBreaks)),
    kvLine "SpecialStyle" (' ' :: showInt (boolInt m.specialStyle)),
    kvLine "WidescreenStoryboard" (' ' :: showInt (boolInt m.widescreenStoryboard)),
    [],
    "[Editor]".toList,
    kvLine "DistanceSpacing" (' ' :: R.tok (.num m.distanceSpacing)),
    kvLine "BeatDivisor" (' ' :: R.tok (.num m.beatDivisor)),
    kvLine "GridSize" (' ' :: R.tok (.num m.gridSize)),
    kvLine "TimelineZoom" (' ' :: R.tok (.num m.timelineZoom)),
    [],
    "[Metadata]".toList,
    kvLine "Title" (R.uni m.title),
    kvLine "TitleUnicode" (m.titleUnicode),
    kvLine "Artist" (R.uni m.artist),
    kvLine "ArtistUnicode" (m.artistUnicode),
    kvLine "Creator" (m.creator),
    kvLine "Version" (m.version),
    kvLine "Source" (m.source),
    kvLine "Tags" (joinWith ' ' m.tags),
    kvLine "BeatmapID" (showInt m.beatmapId),
    kvLine "BeatmapSetID" (showInt m.beatmapSetId),
    [],
    "[Difficulty]".toList,
    kvLine "HPDrainRate" (R.tok (.num m.hpDrainRate)),
    kvLine "CircleSize" (R.tok (.num m.circleSize)),
    kvLine "OverallDifficulty" (R.tok (.num m.overallDifficulty)),
    kvLine "ApproachRate" (R.tok (.num m.approachRate)),
    kvLine "SliderMultiplier" (R.tok (.num m.sliderMultiplier)),
    kvLine "SliderTickRate" (R.tok (.num m.sliderTickRate)),
    [],
    "[Events]".toList,
    kBackground,
    bgLine m.backgroundFileName,
    "//Break Periods".toList,
    "//Storyboard Layer 0 (Background)".toList,
    "//Storyboard Layer 1 (Fail)".toList,
    "//Storyboard Layer 2 (Pass)".toList,
    "//Storyboard Layer 3 (Foreground)".toList,
    "//Storyboard Layer 4 (Overlay)".toList,
    kSamples ]


theorem strip_sandwich (A f B : Str) (hA : A ≠ []) (hAw : ∀ ch ∈ A, isWs ch = false) (hB : B ≠ [])
    (hBw : ∀ ch ∈ B, isWs ch = false) : strip (A ++ f ++ B) = A ++ f ++ B := by
  cases A with
  | nil => exact absurd rfl hA
  | cons a A' =>
    rcases List.eq_nil_or_concat B with rfl | ⟨B', b, rfl⟩
    · exact absurd rfl hB
    · have ha := hAw a (by simp)
      have hb := hBw b (by simp)
      have : a :: A' ++ f ++ B'.concat b = a :: ((A' ++ f ++ B') ++ [b]) := by simp
      rw [this]; exact strip_of_ends a _ b ha hb

theorem showInt_ne_nil (i : Int) : showInt i ≠ [] := by
  unfold showInt; split
  · simp
  · exact (showNat_spec _).2.1

theorem line_lit (R : Render) (s : String) : R.line [L s] = s.toList := by simp [Render.line, L, Render.tok]

theorem strip_line_lit (R : Render) (s : String) (h : strip s.toList = s.toList) : strip (R.line [L s]) = s.toList := by
  rw [line_lit, h]

theorem line_bg (R : Render) (bg : Str) : R.line [L "0,0,\"", .lit bg, L "\",0,0"] = bgLine bg := by
  simp [Render.line, L, Render.tok, bgLine]

theorem strip_bgLine (bg : Str) : strip (bgLine bg) = bgLine bg := by
  unfold bgLine
  exact strip_sandwich _ bg _ (by decide +kernel) (by decide +kernel) (by decide +kernel) (by decide +kernel)

theorem strip_sample_line (R : Render) (s : Sample) : strip (R.line (writeSample s)) = R.line (writeSample s) := by
  have hl : R.line (writeSample s) = ("Sample,".toList ++ showInt (pyTrunc s.offset) ++ ",0,".toList) ++ s.file ++
      (',' :: showInt s.volume) := by
    simp [Render.line, writeSample, Render.tok, L, comma]
  rw [hl]
  apply strip_sandwich
  · simp
  · intro ch hch
    simp only [List.mem_append] at hch
    rcases hch with (hch | hch) | hch
    · revert ch; decide +kernel
    · exact showInt_noWs _ ch hch
    · revert ch; decide +kernel
  · simp
  · intro ch hch
    simp only [List.mem_cons] at hch
    rcases hch with rfl | hch
    · decide +kernel
    · exact showInt_noWs _ ch hch

/-- **the header as the reader sees it**: every written header line, trimmed -/
theorem headS_eq (R : Render) (m : Meta) :
    ((writeMeta m).map R.line).map strip = hdrS R m ++ (m.samples.map writeSample).map R.line := by
  have l0 : strip (R.line [L "osu file format v14"]) = "osu file format v14".toList := strip_line_lit R _ (by decide +kernel)
  have l1 : strip (R.line [L "[General]"]) = "[General]".toList := strip_line_lit R _ (by decide +kernel)
  have l2 : strip (R.line [L "[Editor]"]) = "[Editor]".toList := strip_line_lit R _ (by decide +kernel)
  have l3 : strip (R.line [L "[Metadata]"]) = "[Metadata]".toList := strip_line_lit R _ (by decide +kernel)
  have l4 : strip (R.line [L "[Difficulty]"]) = "[Difficulty]".toList := strip_line_lit R _ (by decide +kernel)
  have l5 : strip (R.line [L "[Events]"]) = "[Events]".toList := strip_line_lit R _ (by decide +kernel)
  have l6 : strip (R.line [L "//Background and Video events"]) = "//Background and Video events".toList := strip_line_lit R _ (by decide +kernel)
  have l7 : strip (R.line [L "//Break Periods"]) = "//Break Periods".toList := strip_line_lit R _ (by decide +kernel)
  have l8 : strip (R.line [L "//Storyboard Layer 0 (Background)"]) = "//Storyboard Layer 0 (Background)".toList := strip_line_lit R _ (by decide +kernel)
  have l9 : strip (R.line [L "//Storyboard Layer 1 (Fail)"]) = "//Storyboard Layer 1 (Fail)".toList := strip_line_lit R _ (by decide +kernel)
  have l10 : strip (R.line [L "//Storyboard Layer 2 (Pass)"]) = "//Storyboard Layer 2 (Pass)".toList := strip_line_lit R _ (by decide +kernel)
  have l11 : strip (R.line [L "//Storyboard Layer 3 (Foreground)"]) = "//Storyboard Layer 3 (Foreground)".toList := strip_line_lit R _ (by decide +kernel)
  have l12 : strip (R.line [L "//Storyboard Layer 4 (Overlay)"]) = "//Storyboard Layer 4 (Overlay)".toList := strip_line_lit R _ (by decide +kernel)
  have l13 : strip (R.line [L "//Storyboard Sound Samples"]) = "//Storyboard Sound Samples".toList := strip_line_lit R _ (by decide +kernel)
  have k0 : strip (R.line [L "AudioFilename: ", .lit m.audioFileName]) = kvLine "AudioFilename" (' ' :: m.audioFileName) :=
    strip_line_kv R "AudioFilename: " "AudioFilename" [' '] (.lit m.audioFileName) (by decide +kernel) (by decide +kernel) (by decide +kernel)
  have k1 : strip (R.line [L "AudioLeadIn: ", .num m.audioLeadIn]) = kvLine "AudioLeadIn" (' ' :: R.tok (.num m.audioLeadIn)) :=
    strip_line_kv R "AudioLeadIn: " "AudioLeadIn" [' '] (.num m.audioLeadIn) (by decide +kernel) (by decide +kernel) (by decide +kernel)
  have k2 : strip (R.line [L "PreviewTime: ", .int (pyTrunc m.previewTime)]) = kvLine "PreviewTime" (' ' :: showInt (pyTrunc m.previewTime)) :=
    strip_line_kv R "PreviewTime: " "PreviewTime" [' '] (.int (pyTrunc m.previewTime)) (by decide +kernel) (by decide +kernel) (by decide +kernel)
  have k3 : strip (R.line [L "Countdown: ", .int (boolInt m.countdown)]) = kvLine "Countdown" (' ' :: showInt (boolInt m.countdown)) :=
    strip_line_kv R "Countdown: " "Countdown" [' '] (.int (boolInt m.countdown)) (by decide +kernel) (by decide +kernel) (by decide +kernel)
  have k4 : strip (R.line [L "SampleSet: ", .lit (sampleSetToString m.sampleSet)]) = kvLine "SampleSet" (' ' :: sampleSetToString m.sampleSet) :=
    strip_line_kv R "SampleSet: " "SampleSet" [' '] (.lit (sampleSetToString m.sampleSet)) (by decide +kernel) (by decide +kernel) (by decide +kernel)
  have k5 : strip (R.line [L "StackLeniency: ", .repr m.stackLeniency]) = kvLine "StackLeniency" (' ' :: R.repr m.stackLeniency) :=
    strip_line_kv R "StackLeniency: " "StackLeniency" [' '] (.repr m.stackLeniency) (by decide +kernel) (by decide +kernel) (by decide +kernel)
  have k6 : strip (R.line [L "Mode: ", .int m.mode]) = kvLine "Mode" (' ' :: showInt m.mode) :=
    strip_line_kv R "Mode: " "Mode" [' '] (.int m.mode) (by decide +kernel) (by decide +kernel) (by decide +kernel)
  have k7 : strip (R.line [L "LetterboxInBreaks: ", .int (boolInt m.letterboxInBreaks)]) = kvLine "LetterboxInBreaks" (' ' :: showInt (boolInt m.letterboxInBreaks)) :=
    strip_line_kv R "LetterboxInBreaks: " "LetterboxInBreaks" [' '] (.int (boolInt m.letterboxInBreaks)) (by decide +kernel) (by decide +kernel) (by decide +kernel)
  have k8 : strip (R.line [L "SpecialStyle: ", .int (boolInt m.specialStyle)]) = kvLine "SpecialStyle" (' ' :: showInt (boolInt m.specialStyle)) :=
    strip_line_kv R "SpecialStyle: " "SpecialStyle" [' '] (.int (boolInt m.specialStyle)) (by decide +kernel) (by decide +kernel) (by decide +kernel)
  have k9 : strip (R.line [L "WidescreenStoryboard: ", .int (boolInt m.widescreenStoryboard)]) = kvLine "WidescreenStoryboard" (' ' :: showInt (boolInt m.widescreenStoryboard)) :=
    strip_line_kv R "WidescreenStoryboard: " "WidescreenStoryboard" [' '] (.int (boolInt m.widescreenStoryboard)) (by decide +kernel) (by decide +kernel) (by decide +kernel)
  have k10 : strip (R.line [L "DistanceSpacing: ", .num m.distanceSpacing]) = kvLine "DistanceSpacing" (' ' :: R.tok (.num m.distanceSpacing)) :=
    strip_line_kv R "DistanceSpacing: " "DistanceSpacing" [' '] (.num m.distanceSpacing) (by decide +kernel) (by decide +kernel) (by decide +kernel)
  have k11 : strip (R.line [L "BeatDivisor: ", .num m.beatDivisor]) = kvLine "BeatDivisor" (' ' :: R.tok (.num m.beatDivisor)) :=
    strip_line_kv R "BeatDivisor: " "BeatDivisor" [' '] (.num m.beatDivisor) (by decide +kernel) (by decide +kernel) (by decide +kernel)
  have k12 : strip (R.line [L "GridSize: ", .num m.gridSize]) = kvLine "GridSize" (' ' :: R.tok (.num m.gridSize)) :=
    strip_line_kv R "GridSize: " "GridSize" [' '] (.num m.gridSize) (by decide +kernel) (by decide +kernel) (by decide +kernel)
  have k13 : strip (R.line [L "TimelineZoom: ", .num m.timelineZoom]) = kvLine "TimelineZoom" (' ' :: R.tok (.num m.timelineZoom)) :=
    strip_line_kv R "TimelineZoom: " "TimelineZoom" [' '] (.num m.timelineZoom) (by decide +kernel) (by decide +kernel) (by decide +kernel)
  have k14 : strip (R.line [L "Title:", .uni m.title]) = kvLine "Title" (R.uni m.title) :=
    strip_line_kv R "Title:" "Title" [] (.uni m.title) (by decide +kernel) (by decide +kernel) (by decide +kernel)
  have k15 : strip (R.line [L "TitleUnicode:", .lit m.titleUnicode]) = kvLine "TitleUnicode" (m.titleUnicode) :=
    strip_line_kv R "TitleUnicode:" "TitleUnicode" [] (.lit m.titleUnicode) (by decide +kernel) (by decide +kernel) (by decide +kernel)
  have k16 : strip (R.line [L "Artist:", .uni m.artist]) = kvLine "Artist" (R.uni m.artist) :=
    strip_line_kv R "Artist:" "Artist" [] (.uni m.artist) (by decide +kernel) (by decide +kernel) (by decide +kernel)
  have k17 : strip (R.line [L "ArtistUnicode:", .lit m.artistUnicode]) = kvLine "ArtistUnicode" (m.artistUnicode) :=
    strip_line_kv R "ArtistUnicode:" "ArtistUnicode" [] (.lit m.artistUnicode) (by decide +kernel) (by decide +kernel) (by decide +kernel)
  have k18 : strip (R.line [L "Creator:", .lit m.creator]) = kvLine "Creator" (m.creator) :=
    strip_line_kv R "Creator:" "Creator" [] (.lit m.creator) (by decide +kernel) (by decide +kernel) (by decide +kernel)
  have k19 : strip (R.line [L "Version:", .lit m.version]) = kvLine "Version" (m.version) :=
    strip_line_kv R "Version:" "Version" [] (.lit m.version) (by decide +kernel) (by decide +kernel) (by decide +kernel)
  have k20 : strip (R.line [L "Source:", .lit m.source]) = kvLine "Source" (m.source) :=
    strip_line_kv R "Source:" "Source" [] (.lit m.source) (by decide +kernel) (by decide +kernel) (by decide +kernel)
  have k21 : strip (R.line [L "Tags:", .lit (joinWith ' ' m.tags)]) = kvLine "Tags" (joinWith ' ' m.tags) :=
    strip_line_kv R "Tags:" "Tags" [] (.lit (joinWith ' ' m.tags)) (by decide +kernel) (by decide +kernel) (by decide +kernel)
  have k22 : strip (R.line [L "BeatmapID:", .int m.beatmapId]) = kvLine "BeatmapID" (showInt m.beatmapId) :=
    strip_line_kv R "BeatmapID:" "BeatmapID" [] (.int m.beatmapId) (by decide +kernel) (by decide +kernel) (by decide +kernel)
  have k23 : strip (R.line [L "BeatmapSetID:", .int m.beatmapSetId]) = kvLine "BeatmapSetID" (showInt m.beatmapSetId) :=
    strip_line_kv R "BeatmapSetID:" "BeatmapSetID" [] (.int m.beatmapSetId) (by decide +kernel) (by decide +kernel) (by decide +kernel)
  have k24 : strip (R.line [L "HPDrainRate:", .num m.hpDrainRate]) = kvLine "HPDrainRate" (R.tok (.num m.hpDrainRate)) :=
    strip_line_kv R "HPDrainRate:" "HPDrainRate" [] (.num m.hpDrainRate) (by decide +kernel) (by decide +kernel) (by decide +kernel)
  have k25 : strip (R.line [L "CircleSize:", .num m.circleSize]) = kvLine "CircleSize" (R.tok (.num m.circleSize)) :=
    strip_line_kv R "CircleSize:" "CircleSize" [] (.num m.circleSize) (by decide +kernel) (by decide +kernel) (by decide +kernel)
  have k26 : strip (R.line [L "OverallDifficulty:", .num m.overallDifficulty]) = kvLine "OverallDifficulty" (R.tok (.num m.overallDifficulty)) :=
    strip_line_kv R "OverallDifficulty:" "OverallDifficulty" [] (.num m.overallDifficulty) (by decide +kernel) (by decide +kernel) (by decide +kernel)
  have k27 : strip (R.line [L "ApproachRate:", .num m.approachRate]) = kvLine "ApproachRate" (R.tok (.num m.approachRate)) :=
    strip_line_kv R "ApproachRate:" "ApproachRate" [] (.num m.approachRate) (by decide +kernel) (by decide +kernel) (by decide +kernel)
  have k28 : strip (R.line [L "SliderMultiplier:", .num m.sliderMultiplier]) = kvLine "SliderMultiplier" (R.tok (.num m.sliderMultiplier)) :=
    strip_line_kv R "SliderMultiplier:" "SliderMultiplier" [] (.num m.sliderMultiplier) (by decide +kernel) (by decide +kernel) (by decide +kernel)
  have k29 : strip (R.line [L "SliderTickRate:", .num m.sliderTickRate]) = kvLine "SliderTickRate" (R.tok (.num m.sliderTickRate)) :=
    strip_line_kv R "SliderTickRate:" "SliderTickRate" [] (.num m.sliderTickRate) (by decide +kernel) (by decide +kernel) (by decide +kernel)
  have eb : strip (R.line [L "0,0,\"", .lit m.backgroundFileName, L "\",0,0"]) = bgLine m.backgroundFileName := by
    rw [line_bg]; exact strip_bgLine _
  have en : strip (R.line []) = [] := rfl
  have es : ((m.samples.map writeSample).map R.line).map strip = (m.samples.map writeSample).map R.line := by
    apply map_strip_of; intro l hl
    simp only [List.map_map, List.mem_map, Function.comp] at hl
    obtain ⟨s, _, rfl⟩ := hl; exact strip_sample_line R s
  have hk1 : kBackground = "//Background and Video events".toList := rfl
  have hk2 : kSamples = "//Storyboard Sound Samples".toList := rfl
  unfold writeMeta hdrS
  rw [List.map_append, List.map_append, es, hk1, hk2]
  simp only [List.map_cons, List.map_nil, en, eb, l0, l1, l2, l3, l4, l5, l6, l7, l8, l9, l10, l11, l12, l13, k0, k1, k2, k3, k4, k5, k6, k7, k8, k9, k10, k11, k12, k13, k14, k15, k16, k17, k18, k19, k20, k21, k22, k23, k24, k25, k26, k27, k28, k29]


/-! ### the metadata loop over the written header -/

theorem readMeta_step (m m' : Meta) (l : Str) (rest : List Str) (h : metaStep m l rest = .ok m') :
    readMeta m (l :: rest) = readMeta m' rest := by
  rw [readMeta, h]

theorem metaStep_nil (m : Meta) (rest : List Str) : metaStep m [] rest = .ok m := by
  unfold metaStep; rw [if_pos rfl]

theorem readBoolInt_cons_space (s : Str) : readBoolInt (' ' :: s) = readBoolInt s := by
  unfold readBoolInt; rw [readInt_cons_space]

theorem strip_sampleSetToString (i : Int) : strip (' ' :: sampleSetToString i) = sampleSetToString i := by
  rw [strip_cons_space]
  unfold sampleSetToString
  split_ifs <;> exact strip_of_noWs _ (by decide +kernel)

theorem split1_append_noSep (c : Char) (p x : Str) (hp : c ∉ p) :
    split1 c (p ++ x) = (p ++ (split1 c x).1, (split1 c x).2) := by
  induction p with
  | nil => rfl
  | cons a t ih =>
    have ha : a ≠ c := fun e => hp (by simp [e])
    have ht : c ∉ t := fun e => hp (by simp [e])
    show split1 c (a :: (t ++ x)) = _
    rw [split1, if_neg ha, ih ht]; rfl

/-- no key of the table has a comma as its 7th character, none starts with `0` or `/` -/
theorem keys_shape : ∀ e ∈ modelKeyTable, e.1.toList[6]? ≠ some ',' ∧ e.1.toList.head? ≠ some '0' ∧
    e.1.toList.head? ≠ some '/' := by decide +kernel

/-- a written sample event is not a metadata line -/
theorem metaStep_sample_line (R : Render) (m : Meta) (s : Sample) (rest : List Str) :
    metaStep m (R.line (writeSample s)) rest = .ok m := by
  have hl : R.line (writeSample s) = "Sample,".toList ++ (showInt (pyTrunc s.offset) ++ ",0,".toList ++ s.file ++
      (',' :: showInt s.volume)) := by
    simp [Render.line, writeSample, Render.tok, L, comma]
  have hsp := split1_append_noSep ':' "Sample,".toList (showInt (pyTrunc s.offset) ++ ",0,".toList ++ s.file ++
      (',' :: showInt s.volume)) (by decide +kernel)
  have h6 : ∀ y : Str, ("Sample,".toList ++ y)[6]? = some ',' := by intro y; rfl
  have h0 : ∀ y : Str, ("Sample,".toList ++ y).head? = some 'S' := by intro y; rfl
  rw [hl]
  apply metaStep_skip
  · intro e he heq
    rw [hsp] at heq
    have := (keys_shape e he).1
    rw [← heq, h6] at this; exact this rfl
  · rw [hsp]; intro heq
    have := h0 ((split1 ':' (showInt (pyTrunc s.offset) ++ ",0,".toList ++ s.file ++ (',' :: showInt s.volume))).1)
    dsimp only at heq
    rw [heq] at this; revert this; decide +kernel
  · rw [hsp]; intro heq
    have := h0 ((split1 ':' (showInt (pyTrunc s.offset) ++ ",0,".toList ++ s.file ++ (',' :: showInt s.volume))).1)
    dsimp only at heq
    rw [heq] at this; revert this; decide +kernel

/-- the background event line is not a metadata line -/
theorem metaStep_bgLine (m : Meta) (bg : Str) (rest : List Str) : metaStep m (bgLine bg) rest = .ok m := by
  have hl : bgLine bg = '0' :: (",0,\"".toList ++ bg ++ "\",0,0".toList) := by simp [bgLine]
  have hsp : (split1 ':' (bgLine bg)).1 = '0' :: (split1 ':' (",0,\"".toList ++ bg ++ "\",0,0".toList)).1 := by
    rw [hl, split1, if_neg (by decide +kernel)]
  apply metaStep_skip
  · intro e he heq
    have := (keys_shape e he).2.1
    rw [← heq, hsp] at this; exact this rfl
  · rw [hsp]; intro heq
    have : ('0' :: (split1 ':' (",0,\"".toList ++ bg ++ "\",0,0".toList)).1).head? = some '0' := rfl
    rw [heq] at this; revert this; decide +kernel
  · rw [hsp]; intro heq
    have : ('0' :: (split1 ':' (",0,\"".toList ++ bg ++ "\",0,0".toList)).1).head? = some '0' := rfl
    rw [heq] at this; revert this; decide +kernel

/-- `line[line.find('"') + 1 : line.rfind('"')]` of the written background line is the file name — whatever it
contains (the first and the last quote of the line are the two that the writer put there) -/
theorem quoted_bgLine (bg : Str) : quoted (bgLine bg) = bg := by
  have hf : findC '"' (bgLine bg) = 4 := by simp [bgLine, findC]
  have hrev : (bgLine bg).reverse = "0,0,\"".toList ++ (bg.reverse ++ "\",0,0".toList) := by
    simp [bgLine]
  have hr : rfindC '"' (bgLine bg) = (bg.length : Int) + 5 := by
    unfold rfindC
    rw [hrev]
    have : findC '"' ("0,0,\"".toList ++ (bg.reverse ++ "\",0,0".toList)) = 4 := by simp [findC]
    rw [this]
    simp [bgLine]; omega
  unfold quoted
  rw [hf, hr]
  have hlen : (bgLine bg).length = bg.length + 10 := by simp [bgLine]
  unfold pySlice sliceIx
  rw [hlen]
  have e1 : (if (4 : Int) + 1 < 0 then (4 : Int) + 1 + ((bg.length + 10 : Nat) : Int) else 4 + 1) = 5 := by simp
  have e2 : (if (bg.length : Int) + 5 < 0 then (bg.length : Int) + 5 + ((bg.length + 10 : Nat) : Int) else (bg.length : Int) + 5)
      = ((bg.length + 5 : Nat) : Int) := by
    have : ¬ ((bg.length : Int) + 5 < 0) := by omega
    rw [if_neg this]; simp
  simp only [e1, e2]
  have t1 : (5 : Int).toNat = 5 := rfl
  have t2 : ((bg.length + 5 : Nat) : Int).toNat = bg.length + 5 := by omega
  have n1 : ¬ ((5 : Int) < 0) := by omega
  have n2 : ¬ (((bg.length + 5 : Nat) : Int) < 0) := by omega
  rw [if_neg n1, if_neg n2, t1, t2]
  have m1 : min 5 (bg.length + 10) = 5 := by omega
  have m2 : min (bg.length + 5) (bg.length + 10) = bg.length + 5 := by omega
  rw [m1, m2]
  have : bgLine bg = ("0,0,\"".toList ++ bg) ++ "\",0,0".toList := rfl
  rw [this, List.take_left' (by simp), List.drop_left' (by decide +kernel)]

theorem metaStep_background (m : Meta) (l : Str) (rest : List Str) :
    metaStep m kBackground (l :: rest) = .ok { m with backgroundFileName := quoted l } := by
  have hs : split1 ':' kBackground = (kBackground, none) := by decide +kernel
  have hk : ∀ e ∈ modelKeyTable, kBackground ≠ e.1.toList := by decide +kernel
  unfold metaStep
  rw [if_neg (by decide +kernel), hs]
  simp only [metaAssign_other m _ _ hk, if_true]
  rw [if_neg (by decide +kernel)]

theorem metaStep_samples (m : Meta) (rest : List Str) (ss : List Sample)
    (h : mapE readSample (rest.filter (startsWith pSample)) = .ok ss) :
    metaStep m kSamples rest = .ok { m with samples := ss } := by
  have hs : split1 ':' kSamples = (kSamples, none) := by decide +kernel
  have hk : ∀ e ∈ modelKeyTable, kSamples ≠ e.1.toList := by decide +kernel
  unfold metaStep
  rw [if_neg (by decide +kernel), hs]
  simp only [metaAssign_other m _ _ hk, if_true, h]
  rw [if_neg (by decide +kernel)]

/-- the sample lines (and the blank line before `[TimingPoints]`) at the end of the header change nothing -/
theorem readMeta_sample_tail (R : Render) (m : Meta) (ss : List Sample) :
    readMeta m ((ss.map writeSample).map R.line ++ [[]]) = .ok m := by
  induction ss with
  | nil => show readMeta m [[]] = _; rw [readMeta_step m m [] [] (metaStep_nil m [])]; rfl
  | cons s t ih =>
    show readMeta m (R.line (writeSample s) :: ((t.map writeSample).map R.line ++ [[]])) = _
    rw [readMeta_step m m _ _ (metaStep_sample_line R m s _)]; exact ih

/-- a literal header line that is no key and no marker -/
theorem metaStep_lit (m : Meta) (s : String) (rest : List Str)
    (hk : ∀ e ∈ modelKeyTable, (split1 ':' s.toList).1 ≠ e.1.toList)
    (hb : (split1 ':' s.toList).1 ≠ kBackground) (hs : (split1 ':' s.toList).1 ≠ kSamples) :
    metaStep m s.toList rest = .ok m := metaStep_skip m _ rest hk hb hs




/-- a numeric attribute written by `_num` reads back: nothing to assume when it is integral -/
def NumOk (R : Render) (q : Rat) : Prop := q.den ≠ 1 → readFloat (R.repr q) = .ok q

/-- the sample events the writer emits, selected by their `Sample` prefix and read back, are the quantized samples -/
theorem samples_section_roundtrip (R : Render) (ss : List Sample) (hf : ∀ s ∈ ss, ',' ∉ s.file) :
    mapE readSample (((ss.map writeSample).map R.line).filter (startsWith pSample)) = .ok (ss.map qSample) := by
  induction ss with
  | nil => rfl
  | cons s t ih =>
    have r := readSample_writeSample R s (hf s (by simp))
    have hp : startsWith pSample (R.line (writeSample s)) = true := by
      rw [line_writeSample]; simp [startsWith, pSample, joinWith]
    simp only [List.map_cons, List.filter_cons, hp, if_true, mapE, r, ih (fun s' hs' => hf s' (by simp [hs']))]

/-! setters (kept folded while the loop runs, so that the state term grows linearly) -/

def set_audioFileName (v : Str) (m : Meta) : Meta := { m with audioFileName := v }
def set_audioLeadIn (v : Rat) (m : Meta) : Meta := { m with audioLeadIn := v }
def set_previewTime (v : Rat) (m : Meta) : Meta := { m with previewTime := v }
def set_countdown (v : Bool) (m : Meta) : Meta := { m with countdown := v }
def set_sampleSet (v : Int) (m : Meta) : Meta := { m with sampleSet := v }
def set_stackLeniency (v : Rat) (m : Meta) : Meta := { m with stackLeniency := v }
def set_mode (v : Int) (m : Meta) : Meta := { m with mode := v }
def set_letterboxInBreaks (v : Bool) (m : Meta) : Meta := { m with letterboxInBreaks := v }
def set_specialStyle (v : Bool) (m : Meta) : Meta := { m with specialStyle := v }
def set_widescreenStoryboard (v : Bool) (m : Meta) : Meta := { m with widescreenStoryboard := v }
def set_distanceSpacing (v : Rat) (m : Meta) : Meta := { m with distanceSpacing := v }
def set_beatDivisor (v : Rat) (m : Meta) : Meta := { m with beatDivisor := v }
def set_gridSize (v : Rat) (m : Meta) : Meta := { m with gridSize := v }
def set_timelineZoom (v : Rat) (m : Meta) : Meta := { m with timelineZoom := v }
def set_title (v : Str) (m : Meta) : Meta := { m with title := v }
def set_titleUnicode (v : Str) (m : Meta) : Meta := { m with titleUnicode := v }
def set_artist (v : Str) (m : Meta) : Meta := { m with artist := v }
def set_artistUnicode (v : Str) (m : Meta) : Meta := { m with artistUnicode := v }
def set_creator (v : Str) (m : Meta) : Meta := { m with creator := v }
def set_version (v : Str) (m : Meta) : Meta := { m with version := v }
def set_source (v : Str) (m : Meta) : Meta := { m with source := v }
def set_tags (v : List Str) (m : Meta) : Meta := { m with tags := v }
def set_beatmapId (v : Int) (m : Meta) : Meta := { m with beatmapId := v }
def set_beatmapSetId (v : Int) (m : Meta) : Meta := { m with beatmapSetId := v }
def set_hpDrainRate (v : Rat) (m : Meta) : Meta := { m with hpDrainRate := v }
def set_circleSize (v : Rat) (m : Meta) : Meta := { m with circleSize := v }
def set_overallDifficulty (v : Rat) (m : Meta) : Meta := { m with overallDifficulty := v }
def set_approachRate (v : Rat) (m : Meta) : Meta := { m with approachRate := v }
def set_sliderMultiplier (v : Rat) (m : Meta) : Meta := { m with sliderMultiplier := v }
def set_sliderTickRate (v : Rat) (m : Meta) : Meta := { m with sliderTickRate := v }
def set_backgroundFileName (v : Str) (m : Meta) : Meta := { m with backgroundFileName := v }
def set_samples (v : List Sample) (m : Meta) : Meta := { m with samples := v }

theorem step_AudioFilename (R : Render) (m m0 : Meta) (rest : List Str) :
    metaStep m0 (kvLine "AudioFilename" (' ' :: m.audioFileName)) rest = .ok (set_audioFileName (strip m.audioFileName) m0) := by
  exact metaStep_kvLine m0 _ "AudioFilename" _ rest (by decide +kernel) (by decide +kernel) (by decide +kernel)
    (by decide +kernel) (by unfold metaAssign; simp [mStr, strip_cons_space, set_audioFileName])

theorem step_AudioLeadIn (R : Render) (m m0 : Meta) (rest : List Str) (hq : m.audioLeadIn.den = 1) :
    metaStep m0 (kvLine "AudioLeadIn" (' ' :: R.tok (.num m.audioLeadIn))) rest = .ok (set_audioLeadIn (m.audioLeadIn) m0) := by
  exact metaStep_kvLine m0 _ "AudioLeadIn" _ rest (by decide +kernel) (by decide +kernel) (by decide +kernel)
    (by decide +kernel) (by unfold metaAssign; simp [mInt, readInt_cons_space, tok_num_of_den, hq, readInt_showInt, bind, Except.bind, pure, Except.pure, Rat.coe_int_num_of_den_eq_one hq, set_audioLeadIn])

theorem step_PreviewTime (R : Render) (m m0 : Meta) (rest : List Str) :
    metaStep m0 (kvLine "PreviewTime" (' ' :: showInt (pyTrunc m.previewTime))) rest = .ok (set_previewTime (((pyTrunc m.previewTime : Int) : Rat)) m0) := by
  exact metaStep_kvLine m0 _ "PreviewTime" _ rest (by decide +kernel) (by decide +kernel) (by decide +kernel)
    (by decide +kernel) (by unfold metaAssign; simp [mInt, readInt_cons_space, readInt_showInt, bind, Except.bind, pure, Except.pure, set_previewTime])

theorem step_Countdown (R : Render) (m m0 : Meta) (rest : List Str) :
    metaStep m0 (kvLine "Countdown" (' ' :: showInt (boolInt m.countdown))) rest = .ok (set_countdown (m.countdown) m0) := by
  exact metaStep_kvLine m0 _ "Countdown" _ rest (by decide +kernel) (by decide +kernel) (by decide +kernel)
    (by decide +kernel) (by unfold metaAssign; simp [mBool, readBoolInt_cons_space, readBoolInt_showInt_boolInt, bind, Except.bind, pure, Except.pure, set_countdown])

theorem step_SampleSet (R : Render) (m m0 : Meta) (rest : List Str) :
    metaStep m0 (kvLine "SampleSet" (' ' :: sampleSetToString m.sampleSet)) rest = .ok (set_sampleSet (sampleSetFromString (sampleSetToString m.sampleSet)) m0) := by
  exact metaStep_kvLine m0 _ "SampleSet" _ rest (by decide +kernel) (by decide +kernel) (by decide +kernel)
    (by decide +kernel) (by unfold metaAssign; simp [mStr, strip_sampleSetToString, set_sampleSet])

theorem step_StackLeniency (R : Render) (m m0 : Meta) (rest : List Str) (hq : readFloat (R.repr m.stackLeniency) = .ok m.stackLeniency) :
    metaStep m0 (kvLine "StackLeniency" (' ' :: R.repr m.stackLeniency)) rest = .ok (set_stackLeniency (m.stackLeniency) m0) := by
  exact metaStep_kvLine m0 _ "StackLeniency" _ rest (by decide +kernel) (by decide +kernel) (by decide +kernel)
    (by decide +kernel) (by unfold metaAssign; simp [mFloat, readFloat_cons_space, hq, bind, Except.bind, pure, Except.pure, set_stackLeniency])

theorem step_Mode (R : Render) (m m0 : Meta) (rest : List Str) :
    metaStep m0 (kvLine "Mode" (' ' :: showInt m.mode)) rest = .ok (set_mode (m.mode) m0) := by
  exact metaStep_kvLine m0 _ "Mode" _ rest (by decide +kernel) (by decide +kernel) (by decide +kernel)
    (by decide +kernel) (by unfold metaAssign; simp [mInt, readInt_cons_space, readInt_showInt, bind, Except.bind, pure, Except.pure, set_mode])

theorem step_LetterboxInBreaks (R : Render) (m m0 : Meta) (rest : List Str) :
    metaStep m0 (kvLine "LetterboxInBreaks" (' ' :: showInt (boolInt m.letterboxInBreaks))) rest = .ok (set_letterboxInBreaks (m.letterboxInBreaks) m0) := by
  exact metaStep_kvLine m0 _ "LetterboxInBreaks" _ rest (by decide +kernel) (by decide +kernel) (by decide +kernel)
    (by decide +kernel) (by unfold metaAssign; simp [mBool, readBoolInt_cons_space, readBoolInt_showInt_boolInt, bind, Except.bind, pure, Except.pure, set_letterboxInBreaks])

theorem step_SpecialStyle (R : Render) (m m0 : Meta) (rest : List Str) :
    metaStep m0 (kvLine "SpecialStyle" (' ' :: showInt (boolInt m.specialStyle))) rest = .ok (set_specialStyle (m.specialStyle) m0) := by
  exact metaStep_kvLine m0 _ "SpecialStyle" _ rest (by decide +kernel) (by decide +kernel) (by decide +kernel)
    (by decide +kernel) (by unfold metaAssign; simp [mBool, readBoolInt_cons_space, readBoolInt_showInt_boolInt, bind, Except.bind, pure, Except.pure, set_specialStyle])

theorem step_WidescreenStoryboard (R : Render) (m m0 : Meta) (rest : List Str) :
    metaStep m0 (kvLine "WidescreenStoryboard" (' ' :: showInt (boolInt m.widescreenStoryboard))) rest = .ok (set_widescreenStoryboard (m.widescreenStoryboard) m0) := by
  exact metaStep_kvLine m0 _ "WidescreenStoryboard" _ rest (by decide +kernel) (by decide +kernel) (by decide +kernel)
    (by decide +kernel) (by unfold metaAssign; simp [mBool, readBoolInt_cons_space, readBoolInt_showInt_boolInt, bind, Except.bind, pure, Except.pure, set_widescreenStoryboard])

theorem step_DistanceSpacing (R : Render) (m m0 : Meta) (rest : List Str) (hq : NumOk R m.distanceSpacing) :
    metaStep m0 (kvLine "DistanceSpacing" (' ' :: R.tok (.num m.distanceSpacing))) rest = .ok (set_distanceSpacing (m.distanceSpacing) m0) := by
  exact metaStep_kvLine m0 _ "DistanceSpacing" _ rest (by decide +kernel) (by decide +kernel) (by decide +kernel)
    (by decide +kernel) (by have hf := readFloat_tok_num R m.distanceSpacing hq; unfold metaAssign; simp [mFloat, readFloat_cons_space, hf, bind, Except.bind, pure, Except.pure, set_distanceSpacing])

theorem step_BeatDivisor (R : Render) (m m0 : Meta) (rest : List Str) (hq : m.beatDivisor.den = 1) :
    metaStep m0 (kvLine "BeatDivisor" (' ' :: R.tok (.num m.beatDivisor))) rest = .ok (set_beatDivisor (m.beatDivisor) m0) := by
  exact metaStep_kvLine m0 _ "BeatDivisor" _ rest (by decide +kernel) (by decide +kernel) (by decide +kernel)
    (by decide +kernel) (by unfold metaAssign; simp [mInt, readInt_cons_space, tok_num_of_den, hq, readInt_showInt, bind, Except.bind, pure, Except.pure, Rat.coe_int_num_of_den_eq_one hq, set_beatDivisor])

theorem step_GridSize (R : Render) (m m0 : Meta) (rest : List Str) (hq : m.gridSize.den = 1) :
    metaStep m0 (kvLine "GridSize" (' ' :: R.tok (.num m.gridSize))) rest = .ok (set_gridSize (m.gridSize) m0) := by
  exact metaStep_kvLine m0 _ "GridSize" _ rest (by decide +kernel) (by decide +kernel) (by decide +kernel)
    (by decide +kernel) (by unfold metaAssign; simp [mInt, readInt_cons_space, tok_num_of_den, hq, readInt_showInt, bind, Except.bind, pure, Except.pure, Rat.coe_int_num_of_den_eq_one hq, set_gridSize])

theorem step_TimelineZoom (R : Render) (m m0 : Meta) (rest : List Str) (hq : NumOk R m.timelineZoom) :
    metaStep m0 (kvLine "TimelineZoom" (' ' :: R.tok (.num m.timelineZoom))) rest = .ok (set_timelineZoom (m.timelineZoom) m0) := by
  exact metaStep_kvLine m0 _ "TimelineZoom" _ rest (by decide +kernel) (by decide +kernel) (by decide +kernel)
    (by decide +kernel) (by have hf := readFloat_tok_num R m.timelineZoom hq; unfold metaAssign; simp [mFloat, readFloat_cons_space, hf, bind, Except.bind, pure, Except.pure, set_timelineZoom])

theorem step_Title (R : Render) (m m0 : Meta) (rest : List Str) :
    metaStep m0 (kvLine "Title" (R.uni m.title)) rest = .ok (set_title (strip (R.uni m.title)) m0) := by
  exact metaStep_kvLine m0 _ "Title" _ rest (by decide +kernel) (by decide +kernel) (by decide +kernel)
    (by decide +kernel) (by unfold metaAssign; simp [mStr, set_title])

theorem step_TitleUnicode (R : Render) (m m0 : Meta) (rest : List Str) :
    metaStep m0 (kvLine "TitleUnicode" (m.titleUnicode)) rest = .ok (set_titleUnicode (strip m.titleUnicode) m0) := by
  exact metaStep_kvLine m0 _ "TitleUnicode" _ rest (by decide +kernel) (by decide +kernel) (by decide +kernel)
    (by decide +kernel) (by unfold metaAssign; simp [mStr, set_titleUnicode])

theorem step_Artist (R : Render) (m m0 : Meta) (rest : List Str) :
    metaStep m0 (kvLine "Artist" (R.uni m.artist)) rest = .ok (set_artist (strip (R.uni m.artist)) m0) := by
  exact metaStep_kvLine m0 _ "Artist" _ rest (by decide +kernel) (by decide +kernel) (by decide +kernel)
    (by decide +kernel) (by unfold metaAssign; simp [mStr, set_artist])

theorem step_ArtistUnicode (R : Render) (m m0 : Meta) (rest : List Str) :
    metaStep m0 (kvLine "ArtistUnicode" (m.artistUnicode)) rest = .ok (set_artistUnicode (strip m.artistUnicode) m0) := by
  exact metaStep_kvLine m0 _ "ArtistUnicode" _ rest (by decide +kernel) (by decide +kernel) (by decide +kernel)
    (by decide +kernel) (by unfold metaAssign; simp [mStr, set_artistUnicode])

theorem step_Creator (R : Render) (m m0 : Meta) (rest : List Str) :
    metaStep m0 (kvLine "Creator" (m.creator)) rest = .ok (set_creator (strip m.creator) m0) := by
  exact metaStep_kvLine m0 _ "Creator" _ rest (by decide +kernel) (by decide +kernel) (by decide +kernel)
    (by decide +kernel) (by unfold metaAssign; simp [mStr, set_creator])

theorem step_Version (R : Render) (m m0 : Meta) (rest : List Str) :
    metaStep m0 (kvLine "Version" (m.version)) rest = .ok (set_version (strip m.version) m0) := by
  exact metaStep_kvLine m0 _ "Version" _ rest (by decide +kernel) (by decide +kernel) (by decide +kernel)
    (by decide +kernel) (by unfold metaAssign; simp [mStr, set_version])

theorem step_Source (R : Render) (m m0 : Meta) (rest : List Str) :
    metaStep m0 (kvLine "Source" (m.source)) rest = .ok (set_source (strip m.source) m0) := by
  exact metaStep_kvLine m0 _ "Source" _ rest (by decide +kernel) (by decide +kernel) (by decide +kernel)
    (by decide +kernel) (by unfold metaAssign; simp [mStr, set_source])

theorem step_Tags (R : Render) (m m0 : Meta) (rest : List Str) :
    metaStep m0 (kvLine "Tags" (joinWith ' ' m.tags)) rest = .ok (set_tags (qTags m.tags) m0) := by
  unfold kvLine
  exact metaStep_key_value m0 _ "Tags".toList _ rest (by decide +kernel) (by decide +kernel) (by decide +kernel)
    (by unfold metaAssign; simp [mTags, qTags, set_tags])
theorem step_BeatmapID (R : Render) (m m0 : Meta) (rest : List Str) :
    metaStep m0 (kvLine "BeatmapID" (showInt m.beatmapId)) rest = .ok (set_beatmapId (m.beatmapId) m0) := by
  exact metaStep_kvLine m0 _ "BeatmapID" _ rest (by decide +kernel) (by decide +kernel) (by decide +kernel)
    (by decide +kernel) (by unfold metaAssign; simp [mInt, readInt_cons_space, readInt_showInt, bind, Except.bind, pure, Except.pure, set_beatmapId])

theorem step_BeatmapSetID (R : Render) (m m0 : Meta) (rest : List Str) :
    metaStep m0 (kvLine "BeatmapSetID" (showInt m.beatmapSetId)) rest = .ok (set_beatmapSetId (m.beatmapSetId) m0) := by
  exact metaStep_kvLine m0 _ "BeatmapSetID" _ rest (by decide +kernel) (by decide +kernel) (by decide +kernel)
    (by decide +kernel) (by unfold metaAssign; simp [mInt, readInt_cons_space, readInt_showInt, bind, Except.bind, pure, Except.pure, set_beatmapSetId])

theorem step_HPDrainRate (R : Render) (m m0 : Meta) (rest : List Str) (hq : NumOk R m.hpDrainRate) :
    metaStep m0 (kvLine "HPDrainRate" (R.tok (.num m.hpDrainRate))) rest = .ok (set_hpDrainRate (m.hpDrainRate) m0) := by
  exact metaStep_kvLine m0 _ "HPDrainRate" _ rest (by decide +kernel) (by decide +kernel) (by decide +kernel)
    (by decide +kernel) (by have hf := readFloat_tok_num R m.hpDrainRate hq; unfold metaAssign; simp [mFloat, readFloat_cons_space, hf, bind, Except.bind, pure, Except.pure, set_hpDrainRate])

theorem step_CircleSize (R : Render) (m m0 : Meta) (rest : List Str) (hq : NumOk R m.circleSize) :
    metaStep m0 (kvLine "CircleSize" (R.tok (.num m.circleSize))) rest = .ok (set_circleSize (m.circleSize) m0) := by
  exact metaStep_kvLine m0 _ "CircleSize" _ rest (by decide +kernel) (by decide +kernel) (by decide +kernel)
    (by decide +kernel) (by have hf := readFloat_tok_num R m.circleSize hq; unfold metaAssign; simp [mFloat, readFloat_cons_space, hf, bind, Except.bind, pure, Except.pure, set_circleSize])

theorem step_OverallDifficulty (R : Render) (m m0 : Meta) (rest : List Str) (hq : NumOk R m.overallDifficulty) :
    metaStep m0 (kvLine "OverallDifficulty" (R.tok (.num m.overallDifficulty))) rest = .ok (set_overallDifficulty (m.overallDifficulty) m0) := by
  exact metaStep_kvLine m0 _ "OverallDifficulty" _ rest (by decide +kernel) (by decide +kernel) (by decide +kernel)
    (by decide +kernel) (by have hf := readFloat_tok_num R m.overallDifficulty hq; unfold metaAssign; simp [mFloat, readFloat_cons_space, hf, bind, Except.bind, pure, Except.pure, set_overallDifficulty])

theorem step_ApproachRate (R : Render) (m m0 : Meta) (rest : List Str) (hq : NumOk R m.approachRate) :
    metaStep m0 (kvLine "ApproachRate" (R.tok (.num m.approachRate))) rest = .ok (set_approachRate (m.approachRate) m0) := by
  exact metaStep_kvLine m0 _ "ApproachRate" _ rest (by decide +kernel) (by decide +kernel) (by decide +kernel)
    (by decide +kernel) (by have hf := readFloat_tok_num R m.approachRate hq; unfold metaAssign; simp [mFloat, readFloat_cons_space, hf, bind, Except.bind, pure, Except.pure, set_approachRate])

theorem step_SliderMultiplier (R : Render) (m m0 : Meta) (rest : List Str) (hq : NumOk R m.sliderMultiplier) :
    metaStep m0 (kvLine "SliderMultiplier" (R.tok (.num m.sliderMultiplier))) rest = .ok (set_sliderMultiplier (m.sliderMultiplier) m0) := by
  exact metaStep_kvLine m0 _ "SliderMultiplier" _ rest (by decide +kernel) (by decide +kernel) (by decide +kernel)
    (by decide +kernel) (by have hf := readFloat_tok_num R m.sliderMultiplier hq; unfold metaAssign; simp [mFloat, readFloat_cons_space, hf, bind, Except.bind, pure, Except.pure, set_sliderMultiplier])

theorem step_SliderTickRate (R : Render) (m m0 : Meta) (rest : List Str) (hq : NumOk R m.sliderTickRate) :
    metaStep m0 (kvLine "SliderTickRate" (R.tok (.num m.sliderTickRate))) rest = .ok (set_sliderTickRate (m.sliderTickRate) m0) := by
  exact metaStep_kvLine m0 _ "SliderTickRate" _ rest (by decide +kernel) (by decide +kernel) (by decide +kernel)
    (by decide +kernel) (by have hf := readFloat_tok_num R m.sliderTickRate hq; unfold metaAssign; simp [mFloat, readFloat_cons_space, hf, bind, Except.bind, pure, Except.pure, set_sliderTickRate])


/-! ### the loop, section by section -/

theorem readMeta_General (R : Render) (m m0 : Meta) (rest : List Str) (h_audioLeadIn : m.audioLeadIn.den = 1) (h_stackLeniency : readFloat (R.repr m.stackLeniency) = .ok m.stackLeniency) :
    readMeta m0 ("osu file format v14".toList ::
      [] ::
      "[General]".toList ::
      (kvLine "AudioFilename" (' ' :: m.audioFileName)) ::
      (kvLine "AudioLeadIn" (' ' :: R.tok (.num m.audioLeadIn))) ::
      (kvLine "PreviewTime" (' ' :: showInt (pyTrunc m.previewTime))) ::
      (kvLine "Countdown" (' ' :: showInt (boolInt m.countdown))) ::
      (kvLine "SampleSet" (' ' :: sampleSetToString m.sampleSet)) ::
      (kvLine "StackLeniency" (' ' :: R.repr m.stackLeniency)) ::
      (kvLine "Mode" (' ' :: showInt m.mode)) ::
      (kvLine "LetterboxInBreaks" (' ' :: showInt (boolInt m.letterboxInBreaks))) ::
      (kvLine "SpecialStyle" (' ' :: showInt (boolInt m.specialStyle))) ::
      (kvLine "WidescreenStoryboard" (' ' :: showInt (boolInt m.widescreenStoryboard))) :: rest) =
      readMeta (set_widescreenStoryboard (m.widescreenStoryboard) (set_specialStyle (m.specialStyle) (set_letterboxInBreaks (m.letterboxInBreaks) (set_mode (m.mode) (set_stackLeniency (m.stackLeniency) (set_sampleSet (sampleSetFromString (sampleSetToString m.sampleSet)) (set_countdown (m.countdown) (set_previewTime (((pyTrunc m.previewTime : Int) : Rat)) (set_audioLeadIn (m.audioLeadIn) (set_audioFileName (strip m.audioFileName) (m0))))))))))) rest := by
  rw [readMeta_step _ _ _ _ (metaStep_lit _ "osu file format v14" _ (by decide +kernel) (by decide +kernel) (by decide +kernel))]
  rw [readMeta_step _ _ _ _ (metaStep_nil _ _)]
  rw [readMeta_step _ _ _ _ (metaStep_lit _ "[General]" _ (by decide +kernel) (by decide +kernel) (by decide +kernel))]
  rw [readMeta_step _ _ _ _ (step_AudioFilename R m _ _)]
  rw [readMeta_step _ _ _ _ (step_AudioLeadIn R m _ _ h_audioLeadIn)]
  rw [readMeta_step _ _ _ _ (step_PreviewTime R m _ _)]
  rw [readMeta_step _ _ _ _ (step_Countdown R m _ _)]
  rw [readMeta_step _ _ _ _ (step_SampleSet R m _ _)]
  rw [readMeta_step _ _ _ _ (step_StackLeniency R m _ _ h_stackLeniency)]
  rw [readMeta_step _ _ _ _ (step_Mode R m _ _)]
  rw [readMeta_step _ _ _ _ (step_LetterboxInBreaks R m _ _)]
  rw [readMeta_step _ _ _ _ (step_SpecialStyle R m _ _)]
  rw [readMeta_step _ _ _ _ (step_WidescreenStoryboard R m _ _)]

theorem readMeta_Editor (R : Render) (m m0 : Meta) (rest : List Str) (h_distanceSpacing : NumOk R m.distanceSpacing) (h_beatDivisor : m.beatDivisor.den = 1) (h_gridSize : m.gridSize.den = 1) (h_timelineZoom : NumOk R m.timelineZoom) :
    readMeta m0 ([] ::
      "[Editor]".toList ::
      (kvLine "DistanceSpacing" (' ' :: R.tok (.num m.distanceSpacing))) ::
      (kvLine "BeatDivisor" (' ' :: R.tok (.num m.beatDivisor))) ::
      (kvLine "GridSize" (' ' :: R.tok (.num m.gridSize))) ::
      (kvLine "TimelineZoom" (' ' :: R.tok (.num m.timelineZoom))) :: rest) =
      readMeta (set_timelineZoom (m.timelineZoom) (set_gridSize (m.gridSize) (set_beatDivisor (m.beatDivisor) (set_distanceSpacing (m.distanceSpacing) (m0))))) rest := by
  rw [readMeta_step _ _ _ _ (metaStep_nil _ _)]
  rw [readMeta_step _ _ _ _ (metaStep_lit _ "[Editor]" _ (by decide +kernel) (by decide +kernel) (by decide +kernel))]
  rw [readMeta_step _ _ _ _ (step_DistanceSpacing R m _ _ h_distanceSpacing)]
  rw [readMeta_step _ _ _ _ (step_BeatDivisor R m _ _ h_beatDivisor)]
  rw [readMeta_step _ _ _ _ (step_GridSize R m _ _ h_gridSize)]
  rw [readMeta_step _ _ _ _ (step_TimelineZoom R m _ _ h_timelineZoom)]

theorem readMeta_Metadata (R : Render) (m m0 : Meta) (rest : List Str)  :
    readMeta m0 ([] ::
      "[Metadata]".toList ::
      (kvLine "Title" (R.uni m.title)) ::
      (kvLine "TitleUnicode" (m.titleUnicode)) ::
      (kvLine "Artist" (R.uni m.artist)) ::
      (kvLine "ArtistUnicode" (m.artistUnicode)) ::
      (kvLine "Creator" (m.creator)) ::
      (kvLine "Version" (m.version)) ::
      (kvLine "Source" (m.source)) ::
      (kvLine "Tags" (joinWith ' ' m.tags)) ::
      (kvLine "BeatmapID" (showInt m.beatmapId)) ::
      (kvLine "BeatmapSetID" (showInt m.beatmapSetId)) :: rest) =
      readMeta (set_beatmapSetId (m.beatmapSetId) (set_beatmapId (m.beatmapId) (set_tags (qTags m.tags) (set_source (strip m.source) (set_version (strip m.version) (set_creator (strip m.creator) (set_artistUnicode (strip m.artistUnicode) (set_artist (strip (R.uni m.artist)) (set_titleUnicode (strip m.titleUnicode) (set_title (strip (R.uni m.title)) (m0))))))))))) rest := by
  rw [readMeta_step _ _ _ _ (metaStep_nil _ _)]
  rw [readMeta_step _ _ _ _ (metaStep_lit _ "[Metadata]" _ (by decide +kernel) (by decide +kernel) (by decide +kernel))]
  rw [readMeta_step _ _ _ _ (step_Title R m _ _)]
  rw [readMeta_step _ _ _ _ (step_TitleUnicode R m _ _)]
  rw [readMeta_step _ _ _ _ (step_Artist R m _ _)]
  rw [readMeta_step _ _ _ _ (step_ArtistUnicode R m _ _)]
  rw [readMeta_step _ _ _ _ (step_Creator R m _ _)]
  rw [readMeta_step _ _ _ _ (step_Version R m _ _)]
  rw [readMeta_step _ _ _ _ (step_Source R m _ _)]
  rw [readMeta_step _ _ _ _ (step_Tags R m _ _)]
  rw [readMeta_step _ _ _ _ (step_BeatmapID R m _ _)]
  rw [readMeta_step _ _ _ _ (step_BeatmapSetID R m _ _)]

theorem readMeta_Difficulty (R : Render) (m m0 : Meta) (rest : List Str) (h_hpDrainRate : NumOk R m.hpDrainRate) (h_circleSize : NumOk R m.circleSize) (h_overallDifficulty : NumOk R m.overallDifficulty) (h_approachRate : NumOk R m.approachRate) (h_sliderMultiplier : NumOk R m.sliderMultiplier) (h_sliderTickRate : NumOk R m.sliderTickRate) :
    readMeta m0 ([] ::
      "[Difficulty]".toList ::
      (kvLine "HPDrainRate" (R.tok (.num m.hpDrainRate))) ::
      (kvLine "CircleSize" (R.tok (.num m.circleSize))) ::
      (kvLine "OverallDifficulty" (R.tok (.num m.overallDifficulty))) ::
      (kvLine "ApproachRate" (R.tok (.num m.approachRate))) ::
      (kvLine "SliderMultiplier" (R.tok (.num m.sliderMultiplier))) ::
      (kvLine "SliderTickRate" (R.tok (.num m.sliderTickRate))) :: rest) =
      readMeta (set_sliderTickRate (m.sliderTickRate) (set_sliderMultiplier (m.sliderMultiplier) (set_approachRate (m.approachRate) (set_overallDifficulty (m.overallDifficulty) (set_circleSize (m.circleSize) (set_hpDrainRate (m.hpDrainRate) (m0))))))) rest := by
  rw [readMeta_step _ _ _ _ (metaStep_nil _ _)]
  rw [readMeta_step _ _ _ _ (metaStep_lit _ "[Difficulty]" _ (by decide +kernel) (by decide +kernel) (by decide +kernel))]
  rw [readMeta_step _ _ _ _ (step_HPDrainRate R m _ _ h_hpDrainRate)]
  rw [readMeta_step _ _ _ _ (step_CircleSize R m _ _ h_circleSize)]
  rw [readMeta_step _ _ _ _ (step_OverallDifficulty R m _ _ h_overallDifficulty)]
  rw [readMeta_step _ _ _ _ (step_ApproachRate R m _ _ h_approachRate)]
  rw [readMeta_step _ _ _ _ (step_SliderMultiplier R m _ _ h_sliderMultiplier)]
  rw [readMeta_step _ _ _ _ (step_SliderTickRate R m _ _ h_sliderTickRate)]

theorem readMeta_Events (R : Render) (m m0 : Meta) (rest : List Str)  :
    readMeta m0 ([] ::
      "[Events]".toList ::
      kBackground ::
      (bgLine m.backgroundFileName) ::
      "//Break Periods".toList ::
      "//Storyboard Layer 0 (Background)".toList ::
      "//Storyboard Layer 1 (Fail)".toList ::
      "//Storyboard Layer 2 (Pass)".toList ::
      "//Storyboard Layer 3 (Foreground)".toList ::
      "//Storyboard Layer 4 (Overlay)".toList :: rest) =
      readMeta (set_backgroundFileName m.backgroundFileName (m0)) rest := by
  rw [readMeta_step _ _ _ _ (metaStep_nil _ _)]
  rw [readMeta_step _ _ _ _ (metaStep_lit _ "[Events]" _ (by decide +kernel) (by decide +kernel) (by decide +kernel))]
  rw [readMeta_step _ _ _ _ (metaStep_background _ _ _), quoted_bgLine]
  rw [readMeta_step _ _ _ _ (metaStep_bgLine _ _ _)]
  rw [readMeta_step _ _ _ _ (metaStep_lit _ "//Break Periods" _ (by decide +kernel) (by decide +kernel) (by decide +kernel))]
  rw [readMeta_step _ _ _ _ (metaStep_lit _ "//Storyboard Layer 0 (Background)" _ (by decide +kernel) (by decide +kernel) (by decide +kernel))]
  rw [readMeta_step _ _ _ _ (metaStep_lit _ "//Storyboard Layer 1 (Fail)" _ (by decide +kernel) (by decide +kernel) (by decide +kernel))]
  rw [readMeta_step _ _ _ _ (metaStep_lit _ "//Storyboard Layer 2 (Pass)" _ (by decide +kernel) (by decide +kernel) (by decide +kernel))]
  rw [readMeta_step _ _ _ _ (metaStep_lit _ "//Storyboard Layer 3 (Foreground)" _ (by decide +kernel) (by decide +kernel) (by decide +kernel))]
  rw [readMeta_step _ _ _ _ (metaStep_lit _ "//Storyboard Layer 4 (Overlay)" _ (by decide +kernel) (by decide +kernel) (by decide +kernel))]
  rfl


/-- what the metadata loop needs from the chart's metadata and from the renderer: the three int-read attributes hold
integers; `repr` reads back for StackLeniency and for every non-integral `_num`-written number; sample file names
have no comma -/
def MetaOk (R : Render) (m : Meta) : Prop :=
  m.audioLeadIn.den = 1 ∧
  readFloat (R.repr m.stackLeniency) = .ok m.stackLeniency ∧
  NumOk R m.distanceSpacing ∧
  m.beatDivisor.den = 1 ∧
  m.gridSize.den = 1 ∧
  NumOk R m.timelineZoom ∧
  NumOk R m.hpDrainRate ∧
  NumOk R m.circleSize ∧
  NumOk R m.overallDifficulty ∧
  NumOk R m.approachRate ∧
  NumOk R m.sliderMultiplier ∧
  NumOk R m.sliderTickRate ∧
  (∀ s ∈ m.samples, ',' ∉ s.file)

/-- **the metadata loop over the whole written header**: the 50 trimmed lines that `write_meta_string_list` emits,
followed by the sample events and the blank line before `[TimingPoints]`, fed to `_read_meta_string_list` from the
default metadata, give exactly `qMeta` of the chart's metadata — every attribute, every value -/
theorem readMeta_header (R : Render) (m : Meta) (h : MetaOk R m) :
    readMeta {} (hdrS R m ++ ((m.samples.map writeSample).map R.line ++ [[]])) = .ok (qMeta R.uni m) := by
  obtain ⟨h_audioLeadIn, h_stackLeniency, h_distanceSpacing, h_beatDivisor, h_gridSize, h_timelineZoom, h_hpDrainRate, h_circleSize, h_overallDifficulty, h_approachRate, h_sliderMultiplier, h_sliderTickRate, hsf⟩ := h
  have hsmp : mapE readSample ((((m.samples.map writeSample).map R.line ++ [[]])).filter (startsWith pSample))
      = .ok (m.samples.map qSample) := by
    rw [List.filter_append, show ([[]] : List Str).filter (startsWith pSample) = [] from by decide +kernel, List.append_nil]
    exact samples_section_roundtrip R m.samples hsf
  unfold hdrS
  simp only [List.cons_append, List.nil_append]
  rw [readMeta_General R m _ _ h_audioLeadIn h_stackLeniency]
  rw [readMeta_Editor R m _ _ h_distanceSpacing h_beatDivisor h_gridSize h_timelineZoom]
  rw [readMeta_Metadata R m _ _ ]
  rw [readMeta_Difficulty R m _ _ h_hpDrainRate h_circleSize h_overallDifficulty h_approachRate h_sliderMultiplier h_sliderTickRate]
  rw [readMeta_Events R m]
  rw [readMeta_step _ _ _ _ (metaStep_samples _ _ _ hsmp), readMeta_sample_tail]
  rfl

end Reamber.Osu

namespace Reamber.Osu

/-! ### no header line is `[TimingPoints]` or `[HitObjects]`, none contains a line break -/

/-- the first two characters of the 50 fixed header lines do not depend on the chart -/
theorem hdrS_take2 (R : Render) (m : Meta) :
    (hdrS R m).map (List.take 2) = (hdrS intRender {}).map (List.take 2) := by
  unfold hdrS kvLine bgLine
  rfl

theorem hdrS_not_header (R : Render) (m : Meta) : hTiming ∉ hdrS R m ∧ hObjects ∉ hdrS R m := by
  have key : ∀ x ∈ (hdrS intRender {}).map (List.take 2), x ≠ hTiming.take 2 ∧ x ≠ hObjects.take 2 := by
    decide +kernel
  constructor
  · intro h
    have := List.mem_map_of_mem (f := List.take 2) h
    rw [hdrS_take2] at this
    exact (key _ this).1 rfl
  · intro h
    have := List.mem_map_of_mem (f := List.take 2) h
    rw [hdrS_take2] at this
    exact (key _ this).2 rfl

theorem sample_line_not_header (R : Render) (s : Sample) :
    R.line (writeSample s) ≠ hTiming ∧ R.line (writeSample s) ≠ hObjects := by
  have hl : R.line (writeSample s) = 'S' :: ("ample,".toList ++ showInt (pyTrunc s.offset) ++ ",0,".toList ++ s.file ++
      (',' :: showInt s.volume)) := by
    simp [Render.line, writeSample, Render.tok, L, comma]
  rw [hl]
  constructor
  · intro h
    have : some 'S' = hTiming.head? := congrArg List.head? h
    revert this; decide +kernel
  · intro h
    have : some 'S' = hObjects.head? := congrArg List.head? h
    revert this; decide +kernel

theorem line_no_nl (R : Render) (l : TLine) (h : ∀ t ∈ l, '\n' ∉ R.tok t) : '\n' ∉ R.line l := by
  unfold Render.line
  intro hm
  rw [List.mem_flatten] at hm
  obtain ⟨s, hs, hc⟩ := hm
  rw [List.mem_map] at hs
  obtain ⟨t, ht, rfl⟩ := hs
  exact h t ht hc

end Reamber.Osu

namespace Reamber.Osu
instance (R : Render) (q : Rat) : Decidable (NumOk R q) := by unfold NumOk; infer_instance
instance (R : Render) (m : Meta) : Decidable (MetaOk R m) := by unfold MetaOk; infer_instance
end Reamber.Osu
