/- C01 — the metadata loop over a written header. -/
import Reamber.Lemmas.OsuText

namespace Reamber.Osu

/-- the key table the model's `metaAssign` implements: (key, attribute, conversion) -/
def modelKeyTable : List (String × String × String) :=
  [("AudioFilename", "audio_file_name", "strip"), ("AudioLeadIn", "audio_lead_in", "int"),
   ("PreviewTime", "preview_time", "int"), ("Countdown", "countdown", "boolint"),
   ("SampleSet", "sample_set", "sampleset"), ("StackLeniency", "stack_leniency", "float"), ("Mode", "mode", "int"),
   ("LetterboxInBreaks", "letterbox_in_breaks", "boolint"), ("SpecialStyle", "special_style", "boolint"),
   ("WidescreenStoryboard", "widescreen_storyboard", "boolint"), ("DistanceSpacing", "distance_spacing", "float"),
   ("BeatDivisor", "beat_divisor", "int"), ("GridSize", "grid_size", "int"), ("TimelineZoom", "timeline_zoom", "float"),
   ("Title", "title", "strip"), ("TitleUnicode", "title_unicode", "strip"), ("Artist", "artist", "strip"),
   ("ArtistUnicode", "artist_unicode", "strip"), ("Creator", "creator", "strip"), ("Version", "version", "strip"),
   ("Source", "source", "strip"), ("Tags", "tags", "tags"), ("BeatmapID", "beatmap_id", "int"),
   ("BeatmapSetID", "beatmap_set_id", "int"), ("HPDrainRate", "hp_drain_rate", "float"),
   ("CircleSize", "circle_size", "float"), ("OverallDifficulty", "overall_difficulty", "float"),
   ("ApproachRate", "approach_rate", "float"), ("SliderMultiplier", "slider_multiplier", "float"),
   ("SliderTickRate", "slider_tick_rate", "float")]

/-- keys outside the table leave the metadata untouched -/
theorem metaAssign_other (m : Meta) (k : Str) (v : MVal)
    (hk : ∀ e ∈ modelKeyTable, k ≠ e.1.toList) : metaAssign m k v = .ok m := by
  simp only [modelKeyTable, List.mem_cons, List.not_mem_nil, or_false, forall_eq_or_imp, forall_eq] at hk
  unfold metaAssign
  simp only [hk, if_false]

/-- one `Key:value` line: split at the first colon, then the key table — for every key without a colon that is not
one of the two event markers, and **every** value -/
theorem metaStep_key_value (m m' : Meta) (k v : Str) (rest : List Str) (hk : ':' ∉ k) (hb : k ≠ kBackground)
    (hs : k ≠ kSamples) (ha : metaAssign m k (some v) = .ok m') : metaStep m (k ++ ':' :: v) rest = .ok m' := by
  unfold metaStep
  have hne : k ++ ':' :: v ≠ [] := by simp
  rw [if_neg hne, split1_key_value ':' k v hk]
  simp only [ha, if_neg hb, if_neg hs]

/-- a header line `prefix + token` whose prefix is `key:` (possibly followed by a blank) -/
theorem metaStep_lit_tok (R : Render) (m m' : Meta) (k v0 : Str) (pre : String) (t : Tok) (rest : List Str)
    (hpre : pre.toList = k ++ ':' :: v0) (hk : ':' ∉ k) (hb : k ≠ kBackground) (hs : k ≠ kSamples)
    (ha : metaAssign m k (some (v0 ++ R.tok t)) = .ok m') : metaStep m (R.line [L pre, t]) rest = .ok m' := by
  have hl : R.line [L pre, t] = k ++ ':' :: (v0 ++ R.tok t) := by
    simp [Render.line, L, Render.tok, hpre]
  rw [hl]; exact metaStep_key_value m m' k _ rest hk hb hs ha

theorem mem_insertBy {α} (le : α → α → Bool) (x a : α) (l : List α) : a ∈ insertBy le x l ↔ a = x ∨ a ∈ l := by
  induction l with
  | nil => simp [insertBy]
  | cons y ys ih =>
    unfold insertBy
    split
    · simp
    · simp only [List.mem_cons, ih]
      constructor
      · rintro (h | h | h)
        · exact Or.inr (Or.inl h)
        · exact Or.inl h
        · exact Or.inr (Or.inr h)
      · rintro (h | h | h)
        · exact Or.inr (Or.inl h)
        · exact Or.inl h
        · exact Or.inr (Or.inr h)

theorem mem_isort {α} (le : α → α → Bool) (a : α) (l : List α) : a ∈ isort le l ↔ a ∈ l := by
  induction l with
  | nil => simp [isort]
  | cons y ys ih =>
    have : isort le (y :: ys) = insertBy le y (isort le ys) := rfl
    rw [this, mem_insertBy, ih]; simp

/-! ### one trimmed header line -/

theorem mStr_rstrip (w : Str) : mStr (some (rstrip w)) = mStr (some w) := by simp [mStr, strip_rstrip]
theorem mInt_rstrip (w : Str) : mInt (some (rstrip w)) = mInt (some w) := by simp [mInt, readInt_rstrip]
theorem mFloat_rstrip (w : Str) : mFloat (some (rstrip w)) = mFloat (some w) := by simp [mFloat, readFloat_rstrip]
theorem mBool_rstrip (w : Str) : mBool (some (rstrip w)) = mBool (some w) := by simp [mBool, readBoolInt_rstrip]

/-- every conversion of the key table except `Tags` trims (or parses after trimming) its value, so the trailing
blanks that the line-level `strip` removed make no difference -/
theorem metaAssign_rstrip (m : Meta) (k w : Str) (hk : k ≠ "Tags".toList) :
    metaAssign m k (some (rstrip w)) = metaAssign m k (some w) := by
  unfold metaAssign
  simp only [mStr_rstrip, mInt_rstrip, mFloat_rstrip, mBool_rstrip, if_neg hk]

/-- a line whose key part is neither in the table nor one of the two markers changes nothing -/
theorem metaStep_skip (m : Meta) (line : Str) (rest : List Str)
    (hk : ∀ e ∈ modelKeyTable, (split1 ':' line).1 ≠ e.1.toList)
    (hb : (split1 ':' line).1 ≠ kBackground) (hs : (split1 ':' line).1 ≠ kSamples) :
    metaStep m line rest = .ok m := by
  unfold metaStep
  by_cases hl : line = []
  · rw [if_pos hl]
  · rw [if_neg hl]
    simp only [metaAssign_other m _ _ hk, if_neg hb, if_neg hs]

/-- `key: value` after the line-level `strip` -/
def kvLine (key : String) (w : Str) : Str := key.toList ++ ':' :: rstrip w

theorem strip_line_kv (R : Render) (pre key : String) (v0 : Str) (t : Tok)
    (hpre : pre.toList = key.toList ++ ':' :: v0) (hk : key.toList ≠ []) (hkw : ∀ ch ∈ key.toList, isWs ch = false) :
    strip (R.line [L pre, t]) = kvLine key (v0 ++ R.tok t) := by
  have hl : R.line [L pre, t] = key.toList ++ ':' :: (v0 ++ R.tok t) := by
    simp [Render.line, L, Render.tok, hpre]
  rw [hl]; exact strip_key_value _ _ hk hkw

theorem metaStep_kvLine (m m' : Meta) (key : String) (w : Str) (rest : List Str)
    (hk : ':' ∉ key.toList) (hb : key.toList ≠ kBackground) (hs : key.toList ≠ kSamples)
    (ht : key.toList ≠ "Tags".toList) (ha : metaAssign m key.toList (some w) = .ok m') :
    metaStep m (kvLine key w) rest = .ok m' := by
  unfold kvLine
  apply metaStep_key_value m m' _ _ rest hk hb hs
  rw [metaAssign_rstrip m _ w ht]; exact ha

/-! ### the written header, line by line (generated from the key table; see /tmp generator in the commit message) -/

def bgLine (bg : Str) : Str := "0,0,\"".toList ++ bg ++ "\",0,0".toList

/-- the 50 fixed header lines of `write_meta_string_list` as the reader sees them (after the line-level `strip`) -/
def hdrS (R : Render) (m : Meta) : List Str :=
  [ "osu file format v14".toList,
    [],
    "[General]".toList,
    kvLine "AudioFilename" (' ' :: m.audioFileName),
    kvLine "AudioLeadIn" (' ' :: R.tok (.num m.audioLeadIn)),
    kvLine "PreviewTime" (' ' :: showInt (pyTrunc m.previewTime)),
    kvLine "Countdown" (' ' :: showInt (boolInt m.countdown)),
    kvLine "SampleSet" (' ' :: sampleSetToString m.sampleSet),
    kvLine "StackLeniency" (' ' :: R.repr m.stackLeniency),
    kvLine "Mode" (' ' :: showInt m.mode),
    kvLine "LetterboxInBreaks" (' ' :: showInt (boolInt m.letterboxInBreaks)),
    kvLine "SpecialStyle" (' ' :: showInt (boolInt m.specialStyle)),
    kvLine "WidescreenStoryboard" (' ' :: showInt (boolInt m.widescreenStoryboard)),
    [],
    "[Editor]".toList,
    kvLine "DistanceSpacing" (' ' :: R.tok (.num m.distanceSpacing)),
    kvLine "BeatDivisor" (' ' :: R.tok (.num m.beatDivisor)),
    kvLine "GridSize" (' ' :: R.tok (.num m.gridSize)),
    kvLine "TimelineZoom" (' ' :: R.tok (.num m.timelineZoom)),
    [],
    "[Metadata]".toList,
    kvLine "Title" (R.uni m.title),
    kvLine "TitleUnicode" (m.titleUnicode),
    kvLine "Artist" (R.uni m.artist),
    kvLine "ArtistUnicode" (m.artistUnicode),
    kvLine "Creator" (m.creator),
    kvLine "Version" (m.version),
    kvLine "Source" (m.source),
    kvLine "Tags" (joinWith ' ' m.tags),
    kvLine "BeatmapID" (showInt m.beatmapId),
    kvLine "BeatmapSetID" (showInt m.beatmapSetId),
    [],
    "[Difficulty]".toList,
    kvLine "HPDrainRate" (R.tok (.num m.hpDrainRate)),
    kvLine "CircleSize" (R.tok (.num m.circleSize)),
    kvLine "OverallDifficulty" (R.tok (.num m.overallDifficulty)),
    kvLine "ApproachRate" (R.tok (.num m.approachRate)),
    kvLine "SliderMultiplier" (R.tok (.num m.sliderMultiplier)),
    kvLine "SliderTickRate" (R.tok (.num m.sliderTickRate)),
    [],
    "[Events]".toList,
    kBackground,
    bgLine m.backgroundFileName,
    "//Break Periods".toList,
    "//Storyboard Layer 0 (Background)".toList,
    "//Storyboard Layer 1 (Fail)".toList,
    "//Storyboard Layer 2 (Pass)".toList,
    "//Storyboard Layer 3 (Foreground)".toList,
    "//Storyboard Layer 4 (Overlay)".toList,
    kSamples ]


theorem strip_sandwich (A f B : Str) (hA : A ≠ []) (hAw : ∀ ch ∈ A, isWs ch = false) (hB : B ≠ [])
    (hBw : ∀ ch ∈ B, isWs ch = false) : strip (A ++ f ++ B) = A ++ f ++ B := by
  cases A with
  | nil => exact absurd rfl hA
  | cons a A' =>
    rcases List.eq_nil_or_concat B with rfl | ⟨B', b, rfl⟩
    · exact absurd rfl hB
    · have ha := hAw a (by simp)
      have hb := hBw b (by simp)
      have : a :: A' ++ f ++ B'.concat b = a :: ((A' ++ f ++ B') ++ [b]) := by simp
      rw [this]; exact strip_of_ends a _ b ha hb

theorem showInt_ne_nil (i : Int) : showInt i ≠ [] := by
  unfold showInt; split
  · simp
  · exact (showNat_spec _).2.1

theorem line_lit (R : Render) (s : String) : R.line [L s] = s.toList := by simp [Render.line, L, Render.tok]

theorem strip_line_lit (R : Render) (s : String) (h : strip s.toList = s.toList) : strip (R.line [L s]) = s.toList := by
  rw [line_lit, h]

theorem line_bg (R : Render) (bg : Str) : R.line [L "0,0,\"", .lit bg, L "\",0,0"] = bgLine bg := by
  simp [Render.line, L, Render.tok, bgLine]

theorem strip_bgLine (bg : Str) : strip (bgLine bg) = bgLine bg := by
  unfold bgLine
  exact strip_sandwich _ bg _ (by decide +kernel) (by decide +kernel) (by decide +kernel) (by decide +kernel)

theorem strip_sample_line (R : Render) (s : Sample) : strip (R.line (writeSample s)) = R.line (writeSample s) := by
  have hl : R.line (writeSample s) = ("Sample,".toList ++ showInt (pyTrunc s.offset) ++ ",0,".toList) ++ s.file ++
      (',' :: showInt s.volume) := by
    simp [Render.line, writeSample, Render.tok, L, comma]
  rw [hl]
  apply strip_sandwich
  · simp
  · intro ch hch
    simp only [List.mem_append] at hch
    rcases hch with (hch | hch) | hch
    · revert ch; decide +kernel
    · exact showInt_noWs _ ch hch
    · revert ch; decide +kernel
  · simp
  · intro ch hch
    simp only [List.mem_cons] at hch
    rcases hch with rfl | hch
    · decide +kernel
    · exact showInt_noWs _ ch hch

/-- **the header as the reader sees it**: every written header line, trimmed -/
theorem headS_eq (R : Render) (m : Meta) :
    ((writeMeta m).map R.line).map strip = hdrS R m ++ (m.samples.map writeSample).map R.line := by
  have l0 : strip (R.line [L "osu file format v14"]) = "osu file format v14".toList := strip_line_lit R _ (by decide +kernel)
  have l1 : strip (R.line [L "[General]"]) = "[General]".toList := strip_line_lit R _ (by decide +kernel)
  have l2 : strip (R.line [L "[Editor]"]) = "[Editor]".toList := strip_line_lit R _ (by decide +kernel)
  have l3 : strip (R.line [L "[Metadata]"]) = "[Metadata]".toList := strip_line_lit R _ (by decide +kernel)
  have l4 : strip (R.line [L "[Difficulty]"]) = "[Difficulty]".toList := strip_line_lit R _ (by decide +kernel)
  have l5 : strip (R.line [L "[Events]"]) = "[Events]".toList := strip_line_lit R _ (by decide +kernel)
  have l6 : strip (R.line [L "//Background and Video events"]) = "//Background and Video events".toList := strip_line_lit R _ (by decide +kernel)
  have l7 : strip (R.line [L "//Break Periods"]) = "//Break Periods".toList := strip_line_lit R _ (by decide +kernel)
  have l8 : strip (R.line [L "//Storyboard Layer 0 (Background)"]) = "//Storyboard Layer 0 (Background)".toList := strip_line_lit R _ (by decide +kernel)
  have l9 : strip (R.line [L "//Storyboard Layer 1 (Fail)"]) = "//Storyboard Layer 1 (Fail)".toList := strip_line_lit R _ (by decide +kernel)
  have l10 : strip (R.line [L "//Storyboard Layer 2 (Pass)"]) = "//Storyboard Layer 2 (Pass)".toList := strip_line_lit R _ (by decide +kernel)
  have l11 : strip (R.line [L "//Storyboard Layer 3 (Foreground)"]) = "//Storyboard Layer 3 (Foreground)".toList := strip_line_lit R _ (by decide +kernel)
  have l12 : strip (R.line [L "//Storyboard Layer 4 (Overlay)"]) = "//Storyboard Layer 4 (Overlay)".toList := strip_line_lit R _ (by decide +kernel)
  have l13 : strip (R.line [L "//Storyboard Sound Samples"]) = "//Storyboard Sound Samples".toList := strip_line_lit R _ (by decide +kernel)
  have k0 : strip (R.line [L "AudioFilename: ", .lit m.audioFileName]) = kvLine "AudioFilename" (' ' :: m.audioFileName) :=
    strip_line_kv R "AudioFilename: " "AudioFilename" [' '] (.lit m.audioFileName) (by decide +kernel) (by decide +kernel) (by decide +kernel)
  have k1 : strip (R.line [L "AudioLeadIn: ", .num m.audioLeadIn]) = kvLine "AudioLeadIn" (' ' :: R.tok (.num m.audioLeadIn)) :=
    strip_line_kv R "AudioLeadIn: " "AudioLeadIn" [' '] (.num m.audioLeadIn) (by decide +kernel) (by decide +kernel) (by decide +kernel)
  have k2 : strip (R.line [L "PreviewTime: ", .int (pyTrunc m.previewTime)]) = kvLine "PreviewTime" (' ' :: showInt (pyTrunc m.previewTime)) :=
    strip_line_kv R "PreviewTime: " "PreviewTime" [' '] (.int (pyTrunc m.previewTime)) (by decide +kernel) (by decide +kernel) (by decide +kernel)
  have k3 : strip (R.line [L "Countdown: ", .int (boolInt m.countdown)]) = kvLine "Countdown" (' ' :: showInt (boolInt m.countdown)) :=
    strip_line_kv R "Countdown: " "Countdown" [' '] (.int (boolInt m.countdown)) (by decide +kernel) (by decide +kernel) (by decide +kernel)
  have k4 : strip (R.line [L "SampleSet: ", .lit (sampleSetToString m.sampleSet)]) = kvLine "SampleSet" (' ' :: sampleSetToString m.sampleSet) :=
    strip_line_kv R "SampleSet: " "SampleSet" [' '] (.lit (sampleSetToString m.sampleSet)) (by decide +kernel) (by decide +kernel) (by decide +kernel)
  have k5 : strip (R.line [L "StackLeniency: ", .repr m.stackLeniency]) = kvLine "StackLeniency" (' ' :: R.repr m.stackLeniency) :=
    strip_line_kv R "StackLeniency: " "StackLeniency" [' '] (.repr m.stackLeniency) (by decide +kernel) (by decide +kernel) (by decide +kernel)
  have k6 : strip (R.line [L "Mode: ", .int m.mode]) = kvLine "Mode" (' ' :: showInt m.mode) :=
    strip_line_kv R "Mode: " "Mode" [' '] (.int m.mode) (by decide +kernel) (by decide +kernel) (by decide +kernel)
  have k7 : strip (R.line [L "LetterboxInBreaks: ", .int (boolInt m.letterboxInBreaks)]) = kvLine "LetterboxInBreaks" (' ' :: showInt (boolInt m.letterboxInBreaks)) :=
    strip_line_kv R "LetterboxInBreaks: " "LetterboxInBreaks" [' '] (.int (boolInt m.letterboxInBreaks)) (by decide +kernel) (by decide +kernel) (by decide +kernel)
  have k8 : strip (R.line [L "SpecialStyle: ", .int (boolInt m.specialStyle)]) = kvLine "SpecialStyle" (' ' :: showInt (boolInt m.specialStyle)) :=
    strip_line_kv R "SpecialStyle: " "SpecialStyle" [' '] (.int (boolInt m.specialStyle)) (by decide +kernel) (by decide +kernel) (by decide +kernel)
  have k9 : strip (R.line [L "WidescreenStoryboard: ", .int (boolInt m.widescreenStoryboard)]) = kvLine "WidescreenStoryboard" (' ' :: showInt (boolInt m.widescreenStoryboard)) :=
    strip_line_kv R "WidescreenStoryboard: " "WidescreenStoryboard" [' '] (.int (boolInt m.widescreenStoryboard)) (by decide +kernel) (by decide +kernel) (by decide +kernel)
  have k10 : strip (R.line [L "DistanceSpacing: ", .num m.distanceSpacing]) = kvLine "DistanceSpacing" (' ' :: R.tok (.num m.distanceSpacing)) :=
    strip_line_kv R "DistanceSpacing: " "DistanceSpacing" [' '] (.num m.distanceSpacing) (by decide +kernel) (by decide +kernel) (by decide +kernel)
  have k11 : strip (R.line [L "BeatDivisor: ", .num m.beatDivisor]) = kvLine "BeatDivisor" (' ' :: R.tok (.num m.beatDivisor)) :=
    strip_line_kv R "BeatDivisor: " "BeatDivisor" [' '] (.num m.beatDivisor) (by decide +kernel) (by decide +kernel) (by decide +kernel)
  have k12 : strip (R.line [L "GridSize: ", .num m.gridSize]) = kvLine "GridSize" (' ' :: R.tok (.num m.gridSize)) :=
    strip_line_kv R "GridSize: " "GridSize" [' '] (.num m.gridSize) (by decide +kernel) (by decide +kernel) (by decide +kernel)
  have k13 : strip (R.line [L "TimelineZoom: ", .num m.timelineZoom]) = kvLine "TimelineZoom" (' ' :: R.tok (.num m.timelineZoom)) :=
    strip_line_kv R "TimelineZoom: " "TimelineZoom" [' '] (.num m.timelineZoom) (by decide +kernel) (by decide +kernel) (by decide +kernel)
  have k14 : strip (R.line [L "Title:", .uni m.title]) = kvLine "Title" (R.uni m.title) :=
    strip_line_kv R "Title:" "Title" [] (.uni m.title) (by decide +kernel) (by decide +kernel) (by decide +kernel)
  have k15 : strip (R.line [L "TitleUnicode:", .lit m.titleUnicode]) = kvLine "TitleUnicode" (m.titleUnicode) :=
    strip_line_kv R "TitleUnicode:" "TitleUnicode" [] (.lit m.titleUnicode) (by decide +kernel) (by decide +kernel) (by decide +kernel)
  have k16 : strip (R.line [L "Artist:", .uni m.artist]) = kvLine "Artist" (R.uni m.artist) :=
    strip_line_kv R "Artist:" "Artist" [] (.uni m.artist) (by decide +kernel) (by decide +kernel) (by decide +kernel)
  have k17 : strip (R.line [L "ArtistUnicode:", .lit m.artistUnicode]) = kvLine "ArtistUnicode" (m.artistUnicode) :=
    strip_line_kv R "ArtistUnicode:" "ArtistUnicode" [] (.lit m.artistUnicode) (by decide +kernel) (by decide +kernel) (by decide +kernel)
  have k18 : strip (R.line [L "Creator:", .lit m.creator]) = kvLine "Creator" (m.creator) :=
    strip_line_kv R "Creator:" "Creator" [] (.lit m.creator) (by decide +kernel) (by decide +kernel) (by decide +kernel)
  have k19 : strip (R.line [L "Version:", .lit m.version]) = kvLine "Version" (m.version) :=
    strip_line_kv R "Version:" "Version" [] (.lit m.version) (by decide +kernel) (by decide +kernel) (by decide +kernel)
  have k20 : strip (R.line [L "Source:", .lit m.source]) = kvLine "Source" (m.source) :=
    strip_line_kv R "Source:" "Source" [] (.lit m.source) (by decide +kernel) (by decide +kernel) (by decide +kernel)
  have k21 : strip (R.line [L "Tags:", .lit (joinWith ' ' m.tags)]) = kvLine "Tags" (joinWith ' ' m.tags) :=
    strip_line_kv R "Tags:" "Tags" [] (.lit (joinWith ' ' m.tags)) (by decide +kernel) (by decide +kernel) (by decide +kernel)
  have k22 : strip (R.line [L "BeatmapID:", .int m.beatmapId]) = kvLine "BeatmapID" (showInt m.beatmapId) :=
    strip_line_kv R "BeatmapID:" "BeatmapID" [] (.int m.beatmapId) (by decide +kernel) (by decide +kernel) (by decide +kernel)
  have k23 : strip (R.line [L "BeatmapSetID:", .int m.beatmapSetId]) = kvLine "BeatmapSetID" (showInt m.beatmapSetId) :=
    strip_line_kv R "BeatmapSetID:" "BeatmapSetID" [] (.int m.beatmapSetId) (by decide +kernel) (by decide +kernel) (by decide +kernel)
  have k24 : strip (R.line [L "HPDrainRate:", .num m.hpDrainRate]) = kvLine "HPDrainRate" (R.tok (.num m.hpDrainRate)) :=
    strip_line_kv R "HPDrainRate:" "HPDrainRate" [] (.num m.hpDrainRate) (by decide +kernel) (by decide +kernel) (by decide +kernel)
  have k25 : strip (R.line [L "CircleSize:", .num m.circleSize]) = kvLine "CircleSize" (R.tok (.num m.circleSize)) :=
    strip_line_kv R "CircleSize:" "CircleSize" [] (.num m.circleSize) (by decide +kernel) (by decide +kernel) (by decide +kernel)
  have k26 : strip (R.line [L "OverallDifficulty:", .num m.overallDifficulty]) = kvLine "OverallDifficulty" (R.tok (.num m.overallDifficulty)) :=
    strip_line_kv R "OverallDifficulty:" "OverallDifficulty" [] (.num m.overallDifficulty) (by decide +kernel) (by decide +kernel) (by decide +kernel)
  have k27 : strip (R.line [L "ApproachRate:", .num m.approachRate]) = kvLine "ApproachRate" (R.tok (.num m.approachRate)) :=
    strip_line_kv R "ApproachRate:" "ApproachRate" [] (.num m.approachRate) (by decide +kernel) (by decide +kernel) (by decide +kernel)
  have k28 : strip (R.line [L "SliderMultiplier:", .num m.sliderMultiplier]) = kvLine "SliderMultiplier" (R.tok (.num m.sliderMultiplier)) :=
    strip_line_kv R "SliderMultiplier:" "SliderMultiplier" [] (.num m.sliderMultiplier) (by decide +kernel) (by decide +kernel) (by decide +kernel)
  have k29 : strip (R.line [L "SliderTickRate:", .num m.sliderTickRate]) = kvLine "SliderTickRate" (R.tok (.num m.sliderTickRate)) :=
    strip_line_kv R "SliderTickRate:" "SliderTickRate" [] (.num m.sliderTickRate) (by decide +kernel) (by decide +kernel) (by decide +kernel)
  have eb : strip (R.line [L "0,0,\"", .lit m.backgroundFileName, L "\",0,0"]) = bgLine m.backgroundFileName := by
    rw [line_bg]; exact strip_bgLine _
  have en : strip (R.line []) = [] := rfl
  have es : ((m.samples.map writeSample).map R.line).map strip = (m.samples.map writeSample).map R.line := by
    apply map_strip_of; intro l hl
    simp only [List.map_map, List.mem_map, Function.comp] at hl
    obtain ⟨s, _, rfl⟩ := hl; exact strip_sample_line R s
  have hk1 : kBackground = "//Background and Video events".toList := rfl
  have hk2 : kSamples = "//Storyboard Sound Samples".toList := rfl
  unfold writeMeta hdrS
  rw [List.map_append, List.map_append, es, hk1, hk2]
  simp only [List.map_cons, List.map_nil, en, eb, l0, l1, l2, l3, l4, l5, l6, l7, l8, l9, l10, l11, l12, l13, k0, k1, k2, k3, k4, k5, k6, k7, k8, k9, k10, k11, k12, k13, k14, k15, k16, k17, k18, k19, k20, k21, k22, k23, k24, k25, k26, k27, k28, k29]

end Reamber.Osu
