/-
K1 — the reverse pointer sweep of `TimingMap.offsets` / `TimingMap.snaps` equals an independent per-query
lookup of the active tempo change, for every descending arrangement of the queries; and the final
`np.array(r)[sorter[::-1].argsort()]` puts the answers back in the order of the queries.  Core Lean only.
-/
import Reamber.Lemmas.Perm

namespace Reamber.Timing

theorem dropWhile_dropWhile_of_imp {α} (p p' : α → Bool) (l : List α) (h : ∀ x, p x = true → p' x = true) :
    (l.dropWhile p).dropWhile p' = l.dropWhile p' := by
  induction l with
  | nil => simp
  | cons a t ih =>
    by_cases hp : p a = true
    · have hp' := h a hp
      simp [hp, hp', ih]
    · simp [hp]

/-- `Snap.gt` is antitone in the query: something above `q` is above anything at or below `q`. -/
theorem Snap.gt_of_gt_of_le {p q q' : Snap} (h : p.gt q = true) (hq : q'.le q = true) : p.gt q' = true := by
  simp only [Snap.gt, Snap.le, Snap.lt, Snap.eqv, Bool.and_eq_true, Bool.not_eq_true', Bool.or_eq_true,
    Bool.or_eq_false_iff, Bool.and_eq_false_iff, decide_eq_true_eq, decide_eq_false_iff_not] at *
  grind

theorem Snap.le_trans {a b c : Snap} (h1 : a.le b = true) (h2 : b.le c = true) : a.le c = true := by
  simp only [Snap.le, Snap.lt, Snap.eqv, Bool.or_eq_true, Bool.and_eq_true, decide_eq_true_eq] at *
  grind

theorem Snap.le_refl (a : Snap) : a.le a = true := by simp [Snap.le, Snap.eqv]

theorem Snap.le_total (a b : Snap) : a.le b = true ∨ b.le a = true := by
  simp only [Snap.le, Snap.lt, Snap.eqv, Bool.or_eq_true, Bool.and_eq_true, decide_eq_true_eq]
  grind

/-- independent per-query lookup: the latest change not after the query (`rb` lists changes latest first) -/
def lookupOffset (rb : List (BcSnap × BcOff)) (q : Snap) : Except Err Rat :=
  match rb.dropWhile (fun p => p.1.snap.gt q) with
  | [] => .error .index
  | (bcs, bco) :: _ => do
    let d ← q.sub bcs.snap
    .ok (bco.offset + d.offset bcs.bpm bcs.met)

/-- queries weakly descending -/
def DescSnaps : List Snap → Prop
  | [] => True
  | [_] => True
  | a :: b :: rest => b.le a = true ∧ DescSnaps (b :: rest)

theorem DescSnaps.tail {q : Snap} {qs : List Snap} (h : DescSnaps (q :: qs)) : DescSnaps qs := by
  cases qs with
  | nil => trivial
  | cons b rest => exact h.2

theorem DescSnaps.all_le {q : Snap} {qs : List Snap} (h : DescSnaps (q :: qs)) : ∀ q' ∈ qs, q'.le q = true := by
  induction qs generalizing q with
  | nil => intro _ hm; cases hm
  | cons b rest ih =>
    intro q' hmem
    rcases List.mem_cons.mp hmem with e | hm
    · rw [e]; exact h.1
    · exact Snap.le_trans (ih h.2 q' hm) h.1

theorem mapE_congr {α β} (f g : α → Except Err β) (l : List α) (h : ∀ a ∈ l, f a = g a) : mapE f l = mapE g l := by
  induction l with
  | nil => rfl
  | cons a t ih =>
    simp only [mapE]
    rw [h a (by simp), ih (fun x hx => h x (by simp [hx]))]

/-- **Pointer-sweep correctness.** For weakly descending queries the sweep (which never moves its pointer
back) returns exactly what looking every query up independently returns — including which error is raised
first. -/
theorem sweepOffsets_eq_mapE (rb : List (BcSnap × BcOff)) (qs : List Snap) (hq : DescSnaps qs) :
    sweepOffsets rb qs = mapE (lookupOffset rb) qs := by
  induction qs generalizing rb with
  | nil => simp [sweepOffsets, mapE]
  | cons q qs ih =>
    have hq' := hq.tail
    have hall := hq.all_le
    unfold sweepOffsets
    simp only [mapE]
    generalize hR : mapE (lookupOffset rb) qs = R
    unfold lookupOffset
    cases hdw : rb.dropWhile (fun p => p.1.snap.gt q) with
    | nil => simp [bind, Except.bind]
    | cons hd rb' =>
      obtain ⟨bcs, bco⟩ := hd
      simp only []
      have key : mapE (lookupOffset ((bcs, bco) :: rb')) qs = mapE (lookupOffset rb) qs := by
        apply mapE_congr
        intro q' hmem
        unfold lookupOffset
        rw [← hdw, dropWhile_dropWhile_of_imp]
        intro x hx
        exact Snap.gt_of_gt_of_le hx (hall q' hmem)
      rw [ih _ hq', key, hR]
      cases q.sub bcs.snap with
      | error e => simp [bind, Except.bind]
      | ok d => cases R <;> simp [bind, Except.bind]

theorem mapE_eq_ok_map {α β} (f : α → Except Err β) (F : α → β) (l : List α) (h : ∀ a ∈ l, f a = .ok (F a)) :
    mapE f l = .ok (l.map F) := by
  induction l with
  | nil => rfl
  | cons a t ih =>
    simp only [mapE, List.map_cons]
    rw [h a (by simp), ih (fun x hx => h x (by simp [hx]))]
    rfl

end Reamber.Timing
