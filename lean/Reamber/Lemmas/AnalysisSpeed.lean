/-
Helper lemmas for the scroll-speed part of C19: group keys (strictly sorted, determined by membership),
offsets through the fills / drop_duplicates, the executable spec predicates as propositions.
-/
import Reamber.Lemmas.Analysis

namespace Reamber.Analysis

open Reamber.Timing (isort insertBy)

/-! ### group keys -/

theorem dedup_nodup (l : List Rat) : (dedup l).Nodup := by
  induction l with
  | nil => simp [dedup]
  | cons a t ih =>
    unfold dedup
    split
    · exact ih
    · rename_i h
      exact List.nodup_cons.mpr ⟨fun hm => h (mem_dedup.mp hm), ih⟩

theorem sortRat_sorted (l : List Rat) : (sortRat l).Pairwise (· ≤ ·) := by
  have := isort_pairwise (fun a b : Rat => decide (a ≤ b))
    (by intro a b; simp only [decide_eq_true_eq]; exact le_total _ _)
    (by intro a b c; simp only [decide_eq_true_eq]; exact le_trans) l
  simpa [sortRat] using this

theorem groupKeys_nodup (l : List Rat) : (groupKeys l).Nodup :=
  (sortRat_perm _).nodup_iff.mpr (dedup_nodup l)

theorem groupKeys_strict (l : List Rat) : (groupKeys l).Pairwise (· < ·) :=
  ((sortRat_sorted (dedup l)).and (groupKeys_nodup l)).imp (fun h => lt_of_le_of_ne h.1 h.2)

/-- the keys are determined by the set of values -/
theorem groupKeys_congr {l l' : List Rat} (h : ∀ x, x ∈ l ↔ x ∈ l') : groupKeys l = groupKeys l' := by
  have hp : (groupKeys l).Perm (groupKeys l') :=
    (List.perm_ext_iff_of_nodup (groupKeys_nodup l) (groupKeys_nodup l')).mpr
      (fun x => by rw [mem_groupKeys, mem_groupKeys, h])
  exact List.Perm.eq_of_pairwise (le := (· < ·)) (fun a b _ _ h1 h2 => absurd h1 (lt_asymm h2))
    (groupKeys_strict l) (groupKeys_strict l') hp

/-! ### offsets through the fills -/

theorem map_fst_ffillAux (l : List Row) : ∀ cur, (ffillAux cur l).map (·.1) = l.map (·.1) := by
  induction l with
  | nil => intro cur; rfl
  | cons h t ih =>
    intro cur
    obtain ⟨a, v⟩ := h
    rw [ffillAux_cons]
    simp [ih]

theorem map_fst_ffill (l : List Row) : (ffill l).map (·.1) = l.map (·.1) := map_fst_ffillAux l none

theorem map_fst_bfill (l : List Row) : (bfill l).map (·.1) = l.map (·.1) := by
  unfold bfill
  rw [List.map_reverse, map_fst_ffill, List.map_reverse, List.reverse_reverse]

theorem mem_dropDup_iff {l : List Row} {x : Row} : x ∈ dropDup l ↔ x ∈ l := by
  induction l with
  | nil => simp [dropDup]
  | cons r t ih =>
    simp only [dropDup, List.mem_cons, List.mem_filter, ih, decide_eq_true_eq]
    by_cases h : x = r
    · simp [h]
    · simp [h]

/-- the offsets of the tempo frame are the tempo times and the first / last stacked offset -/
theorem mem_fst_bpmFrame (bpms : List Tp) (omin omax t : Rat) :
    t ∈ (bpmFrame bpms omin omax).map (·.1) ↔ t ∈ bpms.map (·.time) ∨ t = omin ∨ t = omax := by
  have h1 : t ∈ (bpmFrame bpms omin omax).map (·.1)
      ↔ t ∈ (bfill (ffill (sortRow (bpmRows bpms omin omax)))).map (·.1) := by
    simp only [bpmFrame, bpmFrameOf, List.mem_map]
    constructor
    · rintro ⟨x, hx, rfl⟩; exact ⟨x, mem_dropDup_iff.mp hx, rfl⟩
    · rintro ⟨x, hx, rfl⟩; exact ⟨x, mem_dropDup_iff.mpr hx, rfl⟩
  rw [h1, map_fst_bfill, map_fst_ffill]
  have h2 : t ∈ (sortRow (bpmRows bpms omin omax)).map (·.1) ↔ t ∈ (bpmRows bpms omin omax).map (·.1) :=
    ((isort_perm _ _).map _).mem_iff
  rw [h2]
  simp [bpmRows, headTailBpm, List.map_append, Function.comp_def]

/-! ### the executable specification as propositions -/

theorem mem_activeTps {bpms : List Tp} {t : Rat} {p : Tp} : p ∈ activeTps bpms t ↔ IsActiveTp bpms t p := by
  simp only [activeTps, IsActiveTp, List.mem_filter, Bool.and_eq_true, decide_eq_true_eq, List.all_eq_true]

theorem activeTps_nil_of_before {bpms : List Tp} {t : Rat} (h : ∀ p ∈ bpms, t < p.time) : activeTps bpms t = [] := by
  rw [List.eq_nil_iff_forall_not_mem]
  intro p hp
  have := mem_activeTps.mp hp
  exact absurd this.2.1 (not_le.mpr (h p this.1))

end Reamber.Analysis
