/-
Helper lemmas for the scroll-speed part of C19: group keys (strictly sorted, determined by membership),
offsets through the fills / drop_duplicates, the executable spec predicates as propositions.
-/
import Reamber.Lemmas.Analysis

namespace Reamber.Analysis

open Reamber.Timing (isort insertBy)

/-! ### group keys -/

theorem dedup_nodup (l : List Rat) : (dedup l).Nodup := by
  induction l with
  | nil => simp [dedup]
  | cons a t ih =>
    unfold dedup
    split
    · exact ih
    · rename_i h
      exact List.nodup_cons.mpr ⟨fun hm => h (mem_dedup.mp hm), ih⟩

theorem sortRat_sorted (l : List Rat) : (sortRat l).Pairwise (· ≤ ·) := by
  have := isort_pairwise (fun a b : Rat => decide (a ≤ b))
    (by intro a b; simp only [decide_eq_true_eq]; exact le_total _ _)
    (by intro a b c; simp only [decide_eq_true_eq]; exact le_trans) l
  simpa [sortRat] using this

theorem groupKeys_nodup (l : List Rat) : (groupKeys l).Nodup :=
  (sortRat_perm _).nodup_iff.mpr (dedup_nodup l)

theorem groupKeys_strict (l : List Rat) : (groupKeys l).Pairwise (· < ·) :=
  ((sortRat_sorted (dedup l)).and (groupKeys_nodup l)).imp (fun h => lt_of_le_of_ne h.1 h.2)

/-- the keys are determined by the set of values -/
theorem groupKeys_congr {l l' : List Rat} (h : ∀ x, x ∈ l ↔ x ∈ l') : groupKeys l = groupKeys l' := by
  have hp : (groupKeys l).Perm (groupKeys l') :=
    (List.perm_ext_iff_of_nodup (groupKeys_nodup l) (groupKeys_nodup l')).mpr
      (fun x => by rw [mem_groupKeys, mem_groupKeys, h])
  exact List.Perm.eq_of_pairwise (le := (· < ·)) (fun a b _ _ h1 h2 => absurd h1 (lt_asymm h2))
    (groupKeys_strict l) (groupKeys_strict l') hp

/-! ### offsets through the fills -/

theorem map_fst_ffillAux (l : List Row) : ∀ cur, (ffillAux cur l).map (·.1) = l.map (·.1) := by
  induction l with
  | nil => intro cur; rfl
  | cons h t ih =>
    intro cur
    obtain ⟨a, v⟩ := h
    rw [ffillAux_cons]
    simp [ih]

theorem map_fst_ffill (l : List Row) : (ffill l).map (·.1) = l.map (·.1) := map_fst_ffillAux l none

theorem map_fst_bfill (l : List Row) : (bfill l).map (·.1) = l.map (·.1) := by
  unfold bfill
  rw [List.map_reverse, map_fst_ffill, List.map_reverse, List.reverse_reverse]

theorem mem_dropDup_iff {l : List Row} {x : Row} : x ∈ dropDup l ↔ x ∈ l := by
  induction l with
  | nil => simp [dropDup]
  | cons r t ih =>
    simp only [dropDup, List.mem_cons, List.mem_filter, ih, decide_eq_true_eq]
    by_cases h : x = r
    · simp [h]
    · simp [h]

/-- the offsets of the tempo frame are the tempo times and the first / last stacked offset -/
theorem mem_fst_bpmFrame (bpms : List Tp) (omin omax t : Rat) :
    t ∈ (bpmFrame bpms omin omax).map (·.1) ↔ t ∈ bpms.map (·.time) ∨ t = omin ∨ t = omax := by
  have h1 : t ∈ (bpmFrame bpms omin omax).map (·.1)
      ↔ t ∈ (bfill (ffill (sortRow (bpmRows bpms omin omax)))).map (·.1) := by
    simp only [bpmFrame, bpmFrameOf, List.mem_map]
    constructor
    · rintro ⟨x, hx, rfl⟩; exact ⟨x, mem_dropDup_iff.mp hx, rfl⟩
    · rintro ⟨x, hx, rfl⟩; exact ⟨x, mem_dropDup_iff.mpr hx, rfl⟩
  rw [h1, map_fst_bfill, map_fst_ffill]
  have h2 : t ∈ (sortRow (bpmRows bpms omin omax)).map (·.1) ↔ t ∈ (bpmRows bpms omin omax).map (·.1) :=
    ((isort_perm _ _).map _).mem_iff
  rw [h2]
  simp [bpmRows, headTailBpm, List.map_append, Function.comp_def]

/-! ### the executable specification as propositions -/

theorem mem_activeTps {bpms : List Tp} {t : Rat} {p : Tp} : p ∈ activeTps bpms t ↔ IsActiveTp bpms t p := by
  simp only [activeTps, IsActiveTp, List.mem_filter, Bool.and_eq_true, decide_eq_true_eq, List.all_eq_true]

theorem activeTps_nil_of_before {bpms : List Tp} {t : Rat} (h : ∀ p ∈ bpms, t < p.time) : activeTps bpms t = [] := by
  rw [List.eq_nil_iff_forall_not_mem]
  intro p hp
  have := mem_activeTps.mp hp
  exact absurd this.2.1 (not_le.mpr (h p this.1))

/-! ### forward fill on a frame sorted by offset -/

/-- **the step-function mechanism**, for every frame: each row of `.ffill()` sits at the offset of an input
row and carries the last valid value among the rows up to and including it (in frame order) -/
theorem ffill_last_valid (l : List Row) (x : Row) (hx : x ∈ ffill l) :
    ∃ a r b, l = a ++ r :: b ∧ x = (r.1, lastSome ((a ++ [r]).map (·.2))) := by
  have := mem_ffillAux l [] x (by simpa [ffill, lastSome] using hx)
  simpa using this

/-- … and that value, when there is one, is the value of a row at or before it with only empty rows in between -/
theorem ffill_value_source (l : List Row) (x : Row) (v : Rat) (hx : x ∈ ffill l) (hv : x.2 = some v) :
    ∃ a r b, l = a ++ r :: b ∧ x.1 = r.1 ∧
      ∃ v1 v2, (a ++ [r]).map (·.2) = v1 ++ some v :: v2 ∧ ∀ w ∈ v2, w = none := by
  obtain ⟨a, r, b, hl, rfl⟩ := ffill_last_valid l x hx
  exact ⟨a, r, b, hl, rfl, lastSome_eq_some hv⟩


/-- every filled row has a source row at its offset; a valued source keeps its value -/
theorem ffill_source {l : List Row} {x : Row} (hx : x ∈ ffill l) :
    ∃ r ∈ l, r.1 = x.1 ∧ (∀ v, r.2 = some v → x.2 = some v) ∧ (x.2 = none → r.2 = none) := by
  obtain ⟨a, r, b, hl, rfl⟩ := ffill_last_valid l x hx
  obtain ⟨t, rv⟩ := r
  refine ⟨(t, rv), by rw [hl]; simp, rfl, ?_, ?_⟩
  · intro v hv
    simp only at hv
    subst hv
    simp [lastSome_snoc, pick]
  · intro h
    simp only [List.map_append, List.map_cons, List.map_nil, lastSome_snoc] at h
    cases rv with
    | none => rfl
    | some v => simp [pick] at h

/-- a value in a filled, sorted frame comes from a valued row `w` at or before it; every valued row strictly
before the offset is at or before `w`; and if `w` is strictly earlier, the row's own source is empty -/
theorem ffill_sorted_some {l : List Row} (hs : l.Pairwise (fun a b => a.1 ≤ b.1)) {x : Row} {v : Rat}
    (hx : x ∈ ffill l) (hv : x.2 = some v) :
    ∃ w ∈ l, w.2 = some v ∧ w.1 ≤ x.1 ∧ (∀ u ∈ l, u.2 ≠ none → u.1 < x.1 → u.1 ≤ w.1) ∧
      (w.1 < x.1 → ∃ r ∈ l, r.1 = x.1 ∧ r.2 = none) := by
  obtain ⟨a, r, b, hl, rfl⟩ := ffill_last_valid l x hx
  obtain ⟨t, rv⟩ := r
  simp only [List.map_append, List.map_cons, List.map_nil, lastSome_snoc] at hv
  rw [hl] at hs
  obtain ⟨hsa, hsrb, hab⟩ := List.pairwise_append.mp hs
  have hrb := (List.pairwise_cons.mp hsrb).1
  cases rv with
  | some v' =>
    simp only [pick, Option.some.injEq] at hv
    subst hv
    refine ⟨(t, some v'), by rw [hl]; simp, rfl, le_refl _, fun u _ _ h => le_of_lt h, fun h => absurd h (lt_irrefl _)⟩
  | none =>
    simp only [pick] at hv
    obtain ⟨v1, v2, hsplit, hnone⟩ := lastSome_eq_some hv
    obtain ⟨P1, P2', hP, hP1, hP2'⟩ := List.map_eq_append_iff.mp hsplit
    obtain ⟨w, P2, hP2, hw, hP2m⟩ := List.map_eq_cons_iff.mp hP2'
    subst hP2
    have hwa : w ∈ a := by rw [hP]; simp
    have hP2none : ∀ y ∈ P2, y.2 = none := by
      intro y hy
      exact hnone _ (by rw [← hP2m]; exact List.mem_map.mpr ⟨y, hy, rfl⟩)
    rw [hP] at hsa
    obtain ⟨_, _, hP1w⟩ := List.pairwise_append.mp hsa
    refine ⟨w, by rw [hl]; exact List.mem_append_left _ hwa, hw, hab w hwa (t, none) (by simp), ?_,
      fun _ => ⟨(t, none), by rw [hl]; simp, rfl, rfl⟩⟩
    intro u hu huv hut
    rw [hl] at hu
    rcases List.mem_append.mp hu with h | h
    · rw [hP] at h
      rcases List.mem_append.mp h with h | h
      · exact hP1w u h w (by simp)
      · rcases List.mem_cons.mp h with h | h
        · rw [h]
        · exact absurd (hP2none u h) huv
    · rcases List.mem_cons.mp h with h | h
      · rw [h] at hut; exact absurd hut (lt_irrefl _)
      · exact absurd hut (not_lt.mpr (hrb u h))

/-- an empty value in a filled, sorted frame: the source row is empty and every valued row is at or after it -/
theorem ffill_sorted_none {l : List Row} (hs : l.Pairwise (fun a b => a.1 ≤ b.1)) {x : Row}
    (hx : x ∈ ffill l) (hv : x.2 = none) :
    (∃ r ∈ l, r.1 = x.1 ∧ r.2 = none) ∧ ∀ u ∈ l, u.2 ≠ none → x.1 ≤ u.1 := by
  obtain ⟨a, r, b, hl, rfl⟩ := ffill_last_valid l x hx
  obtain ⟨t, rv⟩ := r
  simp only [List.map_append, List.map_cons, List.map_nil, lastSome_snoc] at hv
  rw [hl] at hs
  obtain ⟨_, hsrb, _⟩ := List.pairwise_append.mp hs
  have hrb := (List.pairwise_cons.mp hsrb).1
  cases rv with
  | some v' => simp [pick] at hv
  | none =>
    simp only [pick] at hv
    refine ⟨⟨(t, none), by rw [hl]; simp, rfl, rfl⟩, ?_⟩
    intro u hu huv
    rw [hl] at hu
    rcases List.mem_append.mp hu with h | h
    · exact absurd (lastSome_eq_none hv u.2 (List.mem_map.mpr ⟨u, h, rfl⟩)) huv
    · rcases List.mem_cons.mp h with h | h
      · rw [h] at huv; exact absurd rfl huv
      · exact hrb u h

/-! ### last valid value of concatenated pieces -/

theorem lastSome_append (a b : List (Option Rat)) : lastSome (a ++ b) = pick (lastSome b) (lastSome a) := by
  induction a with
  | nil => cases h : lastSome b <;> simp [lastSome, pick, h]
  | cons x t ih =>
    simp only [List.cons_append, lastSome, ih]
    cases lastSome b with
    | some y => simp [pick]
    | none =>
      simp only [pick]

theorem lastSome_some_mem {vs : List (Option Rat)} {m : Rat} (h : lastSome vs = some m) : some m ∈ vs := by
  obtain ⟨v1, v2, hv, _⟩ := lastSome_eq_some h
  rw [hv]; simp

/-! ### groupby(...).last() -/

theorem mem_groupLast {rows : List Row} {y : Row} :
    y ∈ groupLast rows ↔ y.1 ∈ rows.map (·.1) ∧ y.2 = lastSome ((rows.filter (fun r => r.1 = y.1)).map (·.2)) := by
  unfold groupLast
  rw [List.mem_map]
  constructor
  · rintro ⟨k, hk, rfl⟩
    exact ⟨mem_groupKeys.mp hk, rfl⟩
  · rintro ⟨h1, h2⟩
    exact ⟨y.1, mem_groupKeys.mpr h1, by rw [← h2]⟩

theorem map_fst_groupLast (rows : List Row) : (groupLast rows).map (·.1) = groupKeys (rows.map (·.1)) := by
  unfold groupLast
  rw [List.map_map]
  simp [Function.comp_def]

theorem groupLast_sorted (rows : List Row) : (groupLast rows).Pairwise (fun a b => a.1 ≤ b.1) := by
  have h := groupKeys_strict (rows.map (·.1))
  rw [← map_fst_groupLast, List.pairwise_map] at h
  exact h.imp (fun h => le_of_lt h)

/-! ### the SV frame -/

/-- last valid multiplier among the rows of the SV frame at offset `k` (its `groupby.last` value) -/
def gval (bpms : List Tp) (svs : List Sv) (omin omax k : Rat) : Option Rat :=
  lastSome (((svRows bpms svs omin omax).filter (fun r => r.1 = k)).map (·.2))

theorem mem_fst_svRows (bpms : List Tp) (svs : List Sv) (omin omax k : Rat) :
    k ∈ (svRows bpms svs omin omax).map (·.1) ↔
      k ∈ bpms.map (·.time) ∨ k = omin ∨ k = omax ∨ k ∈ svs.map (·.time) := by
  simp [svRows, headTailMult, List.map_append, Function.comp_def, or_assoc]

/-- no valid value at `k`: no SV, no tempo point there, and `k` is not the first stacked offset -/
theorem gval_none {bpms : List Tp} {svs : List Sv} {omin omax k : Rat} (h : gval bpms svs omin omax k = none) :
    (∀ s ∈ svs, s.time ≠ k) ∧ k ≠ omin ∧ ∀ p ∈ bpms, p.time ≠ k := by
  have hall := lastSome_eq_none h
  have key : ∀ r ∈ svRows bpms svs omin omax, r.1 = k → r.2 = none := by
    intro r hr hk
    exact hall r.2 (List.mem_map.mpr ⟨r, List.mem_filter.mpr ⟨hr, by simpa using hk⟩, rfl⟩)
  refine ⟨?_, ?_, ?_⟩
  · intro s hs hk
    have := key (s.time, some s.mult) (by simp only [svRows, List.mem_append, List.mem_map]; exact Or.inr ⟨s, hs, rfl⟩) hk
    simp at this
  · intro hk
    have := key (omin, some 1) (by simp [svRows, headTailMult]) hk.symm
    simp at this
  · intro p hp hk
    have := key (p.time, some resetMult) (by simp only [svRows, List.mem_append, List.mem_map]; exact Or.inl (Or.inl ⟨p, hp, rfl⟩)) hk
    simp at this

/-- a valid value at `k` is the multiplier of an SV at `k` when there is one (the SVs come last), else the
implicit 1 of a tempo point at `k` or of the first stacked offset -/
theorem gval_some {bpms : List Tp} {svs : List Sv} {omin omax k m : Rat} (h : gval bpms svs omin omax k = some m) :
    (∃ s ∈ svs, s.time = k ∧ s.mult = m) ∨
      ((∀ s ∈ svs, s.time ≠ k) ∧ m = 1 ∧ (k = omin ∨ ∃ p ∈ bpms, p.time = k)) := by
  unfold gval svRows at h
  rw [List.filter_append, List.map_append, lastSome_append] at h
  cases hC : lastSome (((svs.map (fun s => (s.time, some s.mult))).filter (fun r => r.1 = k)).map (·.2)) with
  | some c =>
    rw [hC] at h
    simp only [pick, Option.some.injEq] at h
    subst h
    left
    have := lastSome_some_mem hC
    simp only [List.mem_map, List.mem_filter, decide_eq_true_eq] at this
    obtain ⟨r, ⟨⟨s, hs, rfl⟩, hk⟩, hm⟩ := this
    simp only [Option.some.injEq] at hm
    exact ⟨s, hs, hk, hm⟩
  | none =>
    rw [hC] at h
    simp only [pick] at h
    right
    have hnoC := lastSome_eq_none hC
    refine ⟨?_, ?_⟩
    · intro s hs hk
      have := hnoC (some s.mult) (by
        simp only [List.mem_map, List.mem_filter, decide_eq_true_eq]
        exact ⟨(s.time, some s.mult), ⟨⟨s, hs, rfl⟩, hk⟩, rfl⟩)
      simp at this
    · have := lastSome_some_mem h
      simp only [List.mem_map, List.mem_filter, List.mem_append, decide_eq_true_eq, headTailMult,
        List.zip_cons_cons, List.zip_nil_right, List.mem_cons, List.not_mem_nil, or_false] at this
      obtain ⟨r, ⟨hr, hk⟩, hm⟩ := this
      rcases hr with ⟨p, hp, rfl⟩ | rfl | rfl
      · simp only [Option.some.injEq, resetMult] at hm
        exact ⟨hm.symm, Or.inr ⟨p, hp, hk⟩⟩
      · simp only [Option.some.injEq] at hm
        exact ⟨hm.symm, Or.inl hk.symm⟩
      · simp at hm

theorem mem_svGroups {bpms : List Tp} {svs : List Sv} {omin omax : Rat} {r : Row}
    (hr : r ∈ groupLast (svRows bpms svs omin omax)) : r.2 = gval bpms svs omin omax r.1 :=
  (mem_groupLast.mp hr).2

theorem svGroups_has {bpms : List Tp} {svs : List Sv} {omin omax k : Rat}
    (hk : k ∈ (svRows bpms svs omin omax).map (·.1)) :
    (k, gval bpms svs omin omax k) ∈ groupLast (svRows bpms svs omin omax) :=
  mem_groupLast.mpr ⟨hk, rfl⟩

/-! ### the multipliers the specification admits -/

theorem mem_activeMults_of_top {svs : List Sv} {t0 t : Rat} {s : Sv} (hs : s ∈ svs) (h1 : t0 ≤ s.time)
    (h2 : s.time ≤ t) (h3 : ∀ s' ∈ svs, t0 ≤ s'.time → s'.time ≤ t → s'.time ≤ s.time) :
    s.mult ∈ activeMults svs t0 t := by
  simp only [activeMults]
  have htop : s ∈ (svs.filter fun s => decide (t0 ≤ s.time) && decide (s.time ≤ t)).filter
      (fun s => (svs.filter fun s => decide (t0 ≤ s.time) && decide (s.time ≤ t)).all (fun s' => decide (s'.time ≤ s.time))) := by
    simp only [List.mem_filter, Bool.and_eq_true, decide_eq_true_eq, List.all_eq_true]
    exact ⟨⟨hs, h1, h2⟩, fun s' hs' => h3 s' hs'.1 hs'.2.1 hs'.2.2⟩
  split
  · rename_i he
    rw [List.isEmpty_iff] at he
    rw [he] at htop
    simp at htop
  · exact List.mem_map.mpr ⟨s, htop, rfl⟩

theorem one_mem_activeMults_of_none {svs : List Sv} {t0 t : Rat}
    (h : ∀ s ∈ svs, ¬ (t0 ≤ s.time ∧ s.time ≤ t)) : (1 : Rat) ∈ activeMults svs t0 t := by
  simp only [activeMults]
  have hc : (svs.filter fun s => decide (t0 ≤ s.time) && decide (s.time ≤ t)) = [] := by
    rw [List.filter_eq_nil_iff]
    intro s hs
    simpa using h s hs
  rw [hc]
  simp

/-- **the SV step function.** Every row of the SV frame (`concat`, `groupby.last`, `ffill`) at an offset
where a tempo point `p` is in force carries a multiplier the specification admits there: that of an SV at
the latest SV time at or before the offset and not before `p`, else 1 — provided no SV lies before the first
stacked offset (which is the minimum over the SVs too). -/
theorem svFrame_spec (bpms : List Tp) (svs : List Sv) (omin omax : Rat) (hmins : ∀ s ∈ svs, omin ≤ s.time)
    (y : Row) (hy : y ∈ svFrame bpms svs omin omax) (p : Tp) (hp : IsActiveTp bpms y.1 p) :
    ∃ m, y.2 = some m ∧ m ∈ activeMults svs p.time y.1 := by
  have hsorted := groupLast_sorted (svRows bpms svs omin omax)
  -- the group at the tempo point in force is valued
  have hpk : p.time ∈ (svRows bpms svs omin omax).map (·.1) :=
    (mem_fst_svRows ..).mpr (Or.inl (List.mem_map.mpr ⟨p, hp.1, rfl⟩))
  have hpv : gval bpms svs omin omax p.time ≠ none := fun h => (gval_none h).2.2 p hp.1 rfl
  unfold svFrame at hy
  cases hv : y.2 with
  | none =>
    exfalso
    obtain ⟨⟨r, hr, hr1, hr2⟩, hge⟩ := ffill_sorted_none hsorted hy hv
    have h1 := hge _ (svGroups_has hpk) hpv
    have heq : y.1 = p.time := le_antisymm h1 hp.2.1
    have := mem_svGroups hr
    rw [hr2, hr1, heq] at this
    exact hpv this.symm
  | some m =>
    refine ⟨m, rfl, ?_⟩
    obtain ⟨w, hw, hwv, hwle, hlt, hself⟩ := ffill_sorted_some hsorted hy hv
    -- every valued group at or before the offset is at or before `w`
    have hmax : ∀ k, k ∈ (svRows bpms svs omin omax).map (·.1) → gval bpms svs omin omax k ≠ none → k ≤ y.1 → k ≤ w.1 := by
      intro k hk hkv hky
      rcases lt_or_eq_of_le hky with h | h
      · exact hlt _ (svGroups_has hk) hkv h
      · rcases lt_or_eq_of_le hwle with h' | h'
        · obtain ⟨r, hr, hr1, hr2⟩ := hself h'
          have := mem_svGroups hr
          rw [hr2, hr1, ← h] at this
          exact absurd this.symm hkv
        · rw [h, h']
    have hpw : p.time ≤ w.1 := hmax _ hpk hpv hp.2.1
    have hwg := mem_svGroups hw
    rw [hwv] at hwg
    rcases gval_some hwg.symm with ⟨s, hs, hsk, hsm⟩ | ⟨hno, hm1, hwhy⟩
    · rw [← hsm]
      apply mem_activeMults_of_top hs (by rw [hsk]; exact hpw) (by rw [hsk]; exact hwle)
      intro s' hs' _ h2
      rw [hsk]
      apply hmax _ ((mem_fst_svRows ..).mpr (Or.inr (Or.inr (Or.inr (List.mem_map.mpr ⟨s', hs', rfl⟩))))) _ h2
      intro h
      exact (gval_none h).1 s' hs' rfl
    · rw [hm1]
      apply one_mem_activeMults_of_none
      rintro s' hs' ⟨h1, h2⟩
      have hle : s'.time ≤ w.1 :=
        hmax _ ((mem_fst_svRows ..).mpr (Or.inr (Or.inr (Or.inr (List.mem_map.mpr ⟨s', hs', rfl⟩)))))
          (fun h => (gval_none h).1 s' hs' rfl) h2
      have hlt' : s'.time < w.1 := lt_of_le_of_ne hle (hno s' hs')
      rcases hwhy with h | ⟨q, hq, hqk⟩
      · rw [h] at hlt'
        exact absurd (hmins s' hs') (not_le.mpr hlt')
      · have : q.time ≤ p.time := hp.2.2 q hq (by rw [hqk]; exact hwle)
        rw [hqk] at this
        exact absurd (lt_of_lt_of_le hlt' this) (not_lt.mpr h1)

/-! ### the outer merge -/

/-- the rows the outer merge produces for one key -/
def mergeChunk (l r : List Row) (k : Rat) : List MRow :=
  match l.filter (fun x => x.1 = k), r.filter (fun x => x.1 = k) with
  | [], rs => rs.map fun y => ⟨k, none, y.2⟩
  | ls, [] => ls.map fun x => ⟨k, x.2, none⟩
  | ls, rs => ls.flatMap fun x => rs.map fun y => ⟨k, x.2, y.2⟩

theorem mergeOuter_eq (l r : List Row) :
    mergeOuter l r = (groupKeys (l.map (·.1) ++ r.map (·.1))).flatMap (mergeChunk l r) := rfl

/-- a merged row sits at its key; each of its two values comes from a row of that side with the same key, or
is empty because that side has no row with the key -/
theorem mem_mergeChunk {l r : List Row} {k : Rat} {q : MRow} (hq : q ∈ mergeChunk l r k) :
    q.t = k ∧
    ((∃ x ∈ l, x.1 = k ∧ q.bpm = x.2) ∨ (q.bpm = none ∧ ∀ x ∈ l, x.1 ≠ k)) ∧
    ((∃ y ∈ r, y.1 = k ∧ q.mult = y.2) ∨ (q.mult = none ∧ ∀ y ∈ r, y.1 ≠ k)) := by
  unfold mergeChunk at hq
  have hl : ∀ x, x ∈ l.filter (fun x => x.1 = k) → x ∈ l ∧ x.1 = k := by
    intro x hx; simpa using List.mem_filter.mp hx
  have hr : ∀ y, y ∈ r.filter (fun x => x.1 = k) → y ∈ r ∧ y.1 = k := by
    intro y hy; simpa using List.mem_filter.mp hy
  have hlnil : l.filter (fun x => x.1 = k) = [] → ∀ x ∈ l, x.1 ≠ k := by
    intro h x hx; simpa using (List.filter_eq_nil_iff.mp h) x hx
  have hrnil : r.filter (fun x => x.1 = k) = [] → ∀ y ∈ r, y.1 ≠ k := by
    intro h y hy; simpa using (List.filter_eq_nil_iff.mp h) y hy
  cases hls : l.filter (fun x => x.1 = k) with
  | nil =>
    rw [hls] at hq hl
    simp only [List.mem_map] at hq
    obtain ⟨y, hy, rfl⟩ := hq
    exact ⟨rfl, Or.inr ⟨rfl, hlnil hls⟩, Or.inl ⟨y, (hr y hy).1, (hr y hy).2, rfl⟩⟩
  | cons x0 ls' =>
    cases hrs : r.filter (fun x => x.1 = k) with
    | nil =>
      rw [hls, hrs] at hq
      simp only [List.mem_map] at hq
      obtain ⟨x, hx, rfl⟩ := hq
      rw [← hls] at hx
      exact ⟨rfl, Or.inl ⟨x, (hl x hx).1, (hl x hx).2, rfl⟩, Or.inr ⟨rfl, hrnil hrs⟩⟩
    | cons y0 rs' =>
      rw [hls, hrs] at hq
      simp only [List.mem_flatMap, List.mem_map] at hq
      obtain ⟨x, hx, y, hy, rfl⟩ := hq
      rw [← hls] at hx
      rw [← hrs] at hy
      exact ⟨rfl, Or.inl ⟨x, (hl x hx).1, (hl x hx).2, rfl⟩, Or.inl ⟨y, (hr y hy).1, (hr y hy).2, rfl⟩⟩

theorem mergeChunk_ne_nil {l r : List Row} {k : Rat} (h : k ∈ l.map (·.1) ∨ k ∈ r.map (·.1)) :
    ∃ q, q ∈ mergeChunk l r k := by
  unfold mergeChunk
  cases hls : l.filter (fun x => x.1 = k) with
  | nil =>
    cases hrs : r.filter (fun x => x.1 = k) with
    | nil =>
      exfalso
      rcases h with h | h
      · obtain ⟨x, hx, hk⟩ := List.mem_map.mp h
        have := (List.filter_eq_nil_iff.mp hls) x hx
        simp [hk] at this
      · obtain ⟨y, hy, hk⟩ := List.mem_map.mp h
        have := (List.filter_eq_nil_iff.mp hrs) y hy
        simp [hk] at this
    | cons y0 rs' => exact ⟨⟨k, none, y0.2⟩, by simp⟩
  | cons x0 ls' =>
    cases hrs : r.filter (fun x => x.1 = k) with
    | nil => exact ⟨⟨k, x0.2, none⟩, by simp⟩
    | cons y0 rs' => exact ⟨⟨k, x0.2, y0.2⟩, by simp⟩

theorem mem_mergeOuter {l r : List Row} {q : MRow} (hq : q ∈ mergeOuter l r) :
    ((∃ x ∈ l, x.1 = q.t ∧ q.bpm = x.2) ∨ (q.bpm = none ∧ ∀ x ∈ l, x.1 ≠ q.t)) ∧
    ((∃ y ∈ r, y.1 = q.t ∧ q.mult = y.2) ∨ (q.mult = none ∧ ∀ y ∈ r, y.1 ≠ q.t)) := by
  rw [mergeOuter_eq, List.mem_flatMap] at hq
  obtain ⟨k, _, hk⟩ := hq
  obtain ⟨h1, h2, h3⟩ := mem_mergeChunk hk
  rw [h1]
  exact ⟨h2, h3⟩

/-- the offsets of the merged frame are the offsets of either side -/
theorem mem_t_mergeOuter {l r : List Row} {t : Rat} :
    t ∈ (mergeOuter l r).map (·.t) ↔ t ∈ l.map (·.1) ∨ t ∈ r.map (·.1) := by
  rw [mergeOuter_eq]
  constructor
  · intro h
    obtain ⟨q, hq, rfl⟩ := List.mem_map.mp h
    obtain ⟨k, hk, hqk⟩ := List.mem_flatMap.mp hq
    rw [(mem_mergeChunk hqk).1]
    exact List.mem_append.mp (mem_groupKeys.mp hk)
  · intro h
    obtain ⟨q, hq⟩ := mergeChunk_ne_nil h
    exact List.mem_map.mpr ⟨q, List.mem_flatMap.mpr ⟨t, mem_groupKeys.mpr (List.mem_append.mpr h), hq⟩,
      (mem_mergeChunk hq).1⟩

/-! ### the fills of the merged frame -/

theorem zip_fst_eq : ∀ (b m : List Row), b.map (·.1) = m.map (·.1) → ∀ p ∈ b.zip m, p.1.1 = p.2.1 := by
  intro b
  induction b with
  | nil => intro m _ p hp; simp at hp
  | cons x xs ih =>
    intro m h p hp
    cases m with
    | nil => simp at hp
    | cons y ys =>
      simp only [List.map_cons, List.cons.injEq] at h
      simp only [List.zip_cons_cons, List.mem_cons] at hp
      rcases hp with rfl | hp
      · exact h.1
      · exact ih ys h.2 p hp

theorem colB_fst (l : List MRow) :
    (bfill (ffill (l.map fun r => (r.t, r.bpm)))).map (·.1) = l.map (·.t) := by
  rw [map_fst_bfill, map_fst_ffill, List.map_map]; rfl

theorem colM_fst (l : List MRow) :
    (bfill (ffill (l.map fun r => (r.t, r.mult)))).map (·.1) = l.map (·.t) := by
  rw [map_fst_bfill, map_fst_ffill, List.map_map]; rfl

/-- a row of the filled merged frame pairs a row of the filled bpm column with a row of the filled multiplier
column at the same offset -/
theorem mem_fillMerged {l : List MRow} {q : MRow} (hq : q ∈ fillMerged l) :
    ∃ pb ∈ bfill (ffill (l.map fun r => (r.t, r.bpm))), ∃ pm ∈ bfill (ffill (l.map fun r => (r.t, r.mult))),
      pb.1 = q.t ∧ pm.1 = q.t ∧ pb.2 = q.bpm ∧ pm.2 = q.mult := by
  unfold fillMerged at hq
  simp only [List.mem_map] at hq
  obtain ⟨p, hp, rfl⟩ := hq
  have hfst := zip_fst_eq _ _ ((colB_fst l).trans (colM_fst l).symm) p hp
  obtain ⟨pb, pm⟩ := p
  obtain ⟨h1, h2⟩ := List.of_mem_zip hp
  exact ⟨pb, h1, pm, h2, rfl, hfst.symm, rfl, rfl⟩

theorem map_t_fillMerged (l : List MRow) : (fillMerged l).map (·.t) = l.map (·.t) := by
  unfold fillMerged
  simp only [List.map_map]
  have hlen : (bfill (ffill (l.map fun r => (r.t, r.bpm)))).length
      ≤ (bfill (ffill (l.map fun r => (r.t, r.mult)))).length := by
    have h1 := congrArg List.length (colB_fst l)
    have h2 := congrArg List.length (colM_fst l)
    simp only [List.length_map] at h1 h2
    omega
  have : ((bfill (ffill (l.map fun r => (r.t, r.bpm)))).zip (bfill (ffill (l.map fun r => (r.t, r.mult))))).map
      ((fun r : MRow => r.t) ∘ fun p => (⟨p.1.1, p.1.2, p.2.2⟩ : MRow))
      = (((bfill (ffill (l.map fun r => (r.t, r.bpm)))).zip (bfill (ffill (l.map fun r => (r.t, r.mult))))).map Prod.fst).map (·.1) := by
    rw [List.map_map]; rfl
  rw [this, List.map_fst_zip hlen, colB_fst]

end Reamber.Analysis
