/-
Helper lemmas for C07, byte level: what `struct.pack` writes (`encodeLE`, `toBits`), the integer decoders' round trips,
and the round trip of the package framing: the byte string of any list of abstract packages is framed back into
exactly those packages (so the well-formedness hypothesis of `read_spec` is satisfiable for every abstract chart).
-/
import Reamber.Spec.O2J

namespace Reamber.O2J

open Reamber.O2J.Spec

/-- little-endian bytes of `v` on `k` bytes (what `struct.pack` writes) -/
def encodeLE : Nat → Nat → List Nat
  | 0, _ => []
  | k + 1, v => v % 256 :: encodeLE k (v / 256)

/-- two's-complement bit pattern of an integer on `bits` bits -/
def toBits (bits : Nat) (n : Int) : Nat := (n % (2 ^ bits : Nat)).toNat

theorem leNat_encodeLE (k : Nat) : ∀ v, v < 256 ^ k → leNat (encodeLE k v) = v := by
  induction k with
  | zero => intro v h; simp at h; subst h; rfl
  | succ k ih =>
    intro v h
    simp only [encodeLE, leNat]
    rw [ih (v / 256) (by rw [Nat.pow_succ] at h; omega)]
    omega

/-- `unpack("<i", pack("<i", n)) = n` for every 32-bit integer -/
theorem decodeI32_encode (n : Int) (h1 : -2 ^ 31 ≤ n) (h2 : n < 2 ^ 31) :
    decodeI32 (encodeLE 4 (toBits 32 n)) = n := by
  unfold decodeI32
  rw [leNat_encodeLE 4 _ (by unfold toBits; omega)]
  unfold toSigned toBits
  split <;> omega

/-- `unpack("<h", pack("<h", n)) = n` for every 16-bit integer -/
theorem decodeI16_encode (n : Int) (h1 : -2 ^ 15 ≤ n) (h2 : n < 2 ^ 15) :
    decodeI16 (encodeLE 2 (toBits 16 n)) = n := by
  unfold decodeI16
  rw [leNat_encodeLE 2 _ (by unfold toBits; omega)]
  unfold toSigned toBits
  split <;> omega


theorem encodeLE_length (k : Nat) : ∀ v, (encodeLE k v).length = k := by
  induction k with
  | zero => intro v; rfl
  | succ k ih => intro v; simp [encodeLE, ih]

/-- an abstract package: header fields inside the ranges the format stores, four bytes per event -/
def WfRaw (p : RawPkg) : Prop :=
  -2 ^ 31 ≤ p.measure ∧ p.measure < 2 ^ 31 ∧ -2 ^ 15 ≤ p.channel ∧ p.channel < 2 ^ 15 ∧
  0 ≤ p.count ∧ p.count < 2 ^ 15 ∧ p.data.length = 4 * p.count.toNat

/-- the bytes of a package: int32 measure, int16 channel, int16 event count, the events -/
def encodePkg (p : RawPkg) : List Nat :=
  encodeLE 4 (toBits 32 p.measure) ++ (encodeLE 2 (toBits 16 p.channel) ++ (encodeLE 2 (toBits 16 p.count) ++ p.data))

def encodePkgs (ps : List RawPkg) : List Nat := ps.flatMap encodePkg

theorem split8 (A B C T : List Nat) (hA : A.length = 4) (hB : B.length = 2) (hC : C.length = 2) :
    (A ++ (B ++ (C ++ T))).take 4 = A ∧ ((A ++ (B ++ (C ++ T))).drop 4).take 2 = B ∧
    ((A ++ (B ++ (C ++ T))).drop 6).take 2 = C ∧ (A ++ (B ++ (C ++ T))).drop 8 = T ∧
    (A ++ (B ++ (C ++ T))).length = 8 + T.length := by
  rcases A with _ | ⟨a0, _ | ⟨a1, _ | ⟨a2, _ | ⟨a3, _ | ⟨a4, A⟩⟩⟩⟩⟩ <;>
    (try (simp only [List.length_cons, List.length_nil] at hA; omega))
  rcases B with _ | ⟨b0, _ | ⟨b1, _ | ⟨b2, B⟩⟩⟩ <;>
    (try (simp only [List.length_cons, List.length_nil] at hB; omega))
  rcases C with _ | ⟨c0, _ | ⟨c1, _ | ⟨c2, C⟩⟩⟩ <;>
    (try (simp only [List.length_cons, List.length_nil] at hC; omega))
  refine ⟨by simp, by simp, by simp, by simp, by simp; omega⟩

/-- **one package round trip**: reading the bytes of an abstract package (followed by anything) gives the package back -/
theorem popPkg_encode (p : RawPkg) (rest : List Nat) (h : WfRaw p) :
    popPkg (encodePkg p ++ rest) = .ok (p, rest) := by
  obtain ⟨h1, h2, h3, h4, h5, h6, h7⟩ := h
  have hq : encodePkg p ++ rest =
      encodeLE 4 (toBits 32 p.measure) ++ (encodeLE 2 (toBits 16 p.channel) ++ (encodeLE 2 (toBits 16 p.count) ++ (p.data ++ rest))) := by
    simp [encodePkg, List.append_assoc]
  obtain ⟨t1, t2, t3, t4, t5⟩ := split8 _ _ _ (p.data ++ rest) (encodeLE_length 4 _) (encodeLE_length 2 (toBits 16 p.channel))
    (encodeLE_length 2 (toBits 16 p.count))
  unfold popPkg
  rw [hq]
  rw [if_neg (by rw [t5]; omega)]
  simp only [t1, t2, t3, t4, decodeI32_encode _ h1 h2, decodeI16_encode _ h3 h4, decodeI16_encode p.count (by omega) h6]
  have hk : (4 * p.count).toNat = p.data.length := by omega
  rw [if_neg (by rw [hk]; simp)]
  rw [hk]
  simp

/-- **framing round trip** (`decodePkgs (encodePkgs ps) = ps`): the bytes of any list of abstract packages, followed by
anything (the next difficulty, the cover image), are framed back into exactly those packages and that rest -/
theorem frame_encode (ps : List RawPkg) (rest : List Nat) (h : ∀ p ∈ ps, WfRaw p) :
    frame ps.length (encodePkgs ps ++ rest) = some (ps, rest) := by
  induction ps with
  | nil => rfl
  | cons p t ih =>
    have hq : encodePkgs (p :: t) ++ rest = encodePkg p ++ (encodePkgs t ++ rest) := by
      simp [encodePkgs, List.append_assoc]
    rw [hq]
    simp only [List.length_cons, frame]
    rw [popPkg_encode p _ (h p (by simp))]
    simp only [ih (fun x hx => h x (by simp [hx]))]

/-- … for the whole body of a file: any three (or any number of) lists of packages, including empty ones -/
theorem frameLevels_encode (lvls : List (List RawPkg)) (rest : List Nat) (h : ∀ l ∈ lvls, ∀ p ∈ l, WfRaw p) :
    frameLevels (lvls.map (fun l => (l.length : Int))) (lvls.flatMap encodePkgs ++ rest) = some lvls := by
  induction lvls generalizing rest with
  | nil => rfl
  | cons l t ih =>
    have hq : (l :: t).flatMap encodePkgs ++ rest = encodePkgs l ++ (t.flatMap encodePkgs ++ rest) := by
      simp [List.append_assoc]
    rw [hq]
    simp only [List.map_cons, frameLevels, Int.toNat_natCast]
    rw [frame_encode l _ (h l (by simp))]
    simp only [ih rest (fun x hx => h x (by simp [hx]))]

end Reamber.O2J
