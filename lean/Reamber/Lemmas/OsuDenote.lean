/- C01 — the reader as written vs the by-the-book denotation, value level. -/
import Reamber.Lemmas.OsuRt

set_option linter.unusedSimpArgs false

namespace Reamber.Osu

theorem readInt_cases (s : Str) : (∃ v, readInt s = .ok v) ∨ readInt s = .error .value := by
  unfold readInt
  cases numPrep s with
  | none => exact Or.inr rfl
  | some t =>
    show (∃ v, readIntA t = .ok v) ∨ readIntA t = .error .value
    unfold readIntA
    cases hr : readNat? (takeSign t).2 <;> simp [hr]

theorem readFloatA_cases (s : Str) : (∃ v, readFloatA s = .ok v) ∨ readFloatA s = .error .value := by
  cases h : readFloatA s with
  | ok v => exact Or.inl ⟨v, rfl⟩
  | error e =>
    right
    unfold readFloatA at h
    dsimp only at h
    have he : e = .value := by
      repeat' split at h
      all_goals first | (injection h with h'; exact h'.symm) | (cases h)
    rw [he]

theorem readFloat_cases (s : Str) : (∃ v, readFloat s = .ok v) ∨ readFloat s = .error .value := by
  unfold readFloat
  cases numPrep s with
  | none => exact Or.inr rfl
  | some t => exact readFloatA_cases t

theorem list_len5 (l : List Str) (h : l.length = 5) : ∃ a b c d f, l = [a, b, c, d, f] := by
  rcases l with _ | ⟨a, _ | ⟨b, _ | ⟨c, _ | ⟨d, _ | ⟨f, _ | ⟨g, r⟩⟩⟩⟩⟩⟩ <;> simp at h
  exact ⟨a, b, c, d, f, rfl⟩

theorem list_len6 (l : List Str) (h : l.length = 6) : ∃ a b c d f g, l = [a, b, c, d, f, g] := by
  rcases l with _ | ⟨a, _ | ⟨b, _ | ⟨c, _ | ⟨d, _ | ⟨f, _ | ⟨g, _ | ⟨i, r⟩⟩⟩⟩⟩⟩⟩ <;> simp at h
  exact ⟨a, b, c, d, f, g, rfl⟩

/-- **value level**: on a hit line of the dialect the reader as written (classify by counting, then
`OsuHit.read_string`) returns exactly what the format says (type bit 0, fields by position, column by search) —
including which inputs are rejected -/
theorem readHit_eq_denote (k : Int) (hk : 1 ≤ k) (line fx fy ft fty fhs fex : Str) (ty : Int)
    (hs : splitOn ',' line = [fx, fy, ft, fty, fhs, fex]) (hty : readInt fty = .ok ty)
    (h0 : countC ':' fx = 0) (h1 : countC ':' fy = 0) (h2 : countC ':' ft = 0) (h3 : countC ':' fty = 0)
    (h4 : countC ':' fhs = 0) (hb0 : bit ty 0 = true) (hl : (splitOn ':' fex).length = 5) :
    denoteObj k line = (readHit line k).map (fun h => some (Obj.hit h)) := by
  obtain ⟨a, b, c, d, f, hcl⟩ := list_len5 _ hl
  have hcnt := classify_fields line fx fy ft fty fhs fex hs h0 h1 h2 h3 h4
  have hIs : isHit line = true := by
    unfold isHit; rw [hl] at hcnt; simp [hcnt.1]; omega
  unfold denoteObj readHit
  simp only [hs, hty, hIs, hb0, hcl, idx, List.getLastD, specCol_eq_xToCol _ k hk]
  rcases readFloat_cases ft with ⟨v1, e1⟩ | e1 <;> rcases readInt_cases fx with ⟨v2, e2⟩ | e2 <;>
    rcases readInt_cases fhs with ⟨v3, e3⟩ | e3 <;> rcases readInt_cases a with ⟨v4, e4⟩ | e4 <;>
    rcases readInt_cases b with ⟨v5, e5⟩ | e5 <;> rcases readInt_cases c with ⟨v6, e6⟩ | e6 <;>
    rcases readInt_cases d with ⟨v7, e7⟩ | e7 <;>
    simp [hcl, hb0, e1, e2, e3, e4, e5, e6, e7, bind, Except.bind, pure, Except.pure, Except.map, throw, throwThe,
      MonadExceptOf.throw]

/-- the same for a hold line (type bit 7, end time = first field of the extras) -/
theorem readHold_eq_denote (k : Int) (hk : 1 ≤ k) (line fx fy ft fty fhs fex : Str) (ty : Int)
    (hs : splitOn ',' line = [fx, fy, ft, fty, fhs, fex]) (hty : readInt fty = .ok ty)
    (h0 : countC ':' fx = 0) (h1 : countC ':' fy = 0) (h2 : countC ':' ft = 0) (h3 : countC ':' fty = 0)
    (h4 : countC ':' fhs = 0) (hb0 : bit ty 0 = false) (hb7 : bit ty 7 = true) (hl : (splitOn ':' fex).length = 6) :
    denoteObj k line = (readHold line k).map (fun h => some (Obj.hold h)) := by
  obtain ⟨e, a, b, c, d, f, hcl⟩ := list_len6 _ hl
  have hcnt := classify_fields line fx fy ft fty fhs fex hs h0 h1 h2 h3 h4
  have hIs : isHold line = true := by
    unfold isHold; rw [hl] at hcnt; simp [hcnt.1]; omega
  unfold denoteObj readHold
  simp only [hs, hty, hIs, hcl, idx, List.getLastD, specCol_eq_xToCol _ k hk]
  rcases readFloat_cases ft with ⟨v1, e1⟩ | e1 <;> rcases readInt_cases fx with ⟨v2, e2⟩ | e2 <;>
    rcases readInt_cases fhs with ⟨v3, e3⟩ | e3 <;> rcases readFloat_cases e with ⟨v0, e0⟩ | e0 <;>
    rcases readInt_cases a with ⟨v4, e4⟩ | e4 <;>
    rcases readInt_cases b with ⟨v5, e5⟩ | e5 <;> rcases readInt_cases c with ⟨v6, e6⟩ | e6 <;>
    rcases readInt_cases d with ⟨v7, e7⟩ | e7 <;>
    simp [hcl, hb0, hb7, e0, e1, e2, e3, e4, e5, e6, e7, bind, Except.bind, pure, Except.pure, Except.map]

/-- **`readObj = denoteObj` on every line of the dialect, every key count ≥ 1**: the reader as written (classify by
counting separators, then the positional `read_string`) and the by-the-book denotation (type bits, fields by name,
column by search) return the same object or reject the same inputs -/
theorem readObj_eq_denoteObj (k : Int) (hk : 1 ≤ k) (line : Str) (h : wfObjLine line = true) :
    denoteObj k line =
      (if isHit line then (readHit line k).map (fun h => some (Obj.hit h))
       else (readHold line k).map (fun h => some (Obj.hold h))) ∧ (isHit line = true ∨ isHold line = true) := by
  unfold wfObjLine at h
  split at h
  · next fx fy ft fty fhs fex hs =>
    simp only [Bool.and_eq_true, decide_eq_true_eq] at h
    obtain ⟨⟨⟨⟨⟨h0, h1⟩, h2⟩, h3⟩, h4⟩, h5⟩ := h
    have c0 : countC ':' fx = 0 := by simpa using h0
    have c1 : countC ':' fy = 0 := by simpa using h1
    have c2 : countC ':' ft = 0 := by simpa using h2
    have c3 : countC ':' fty = 0 := by simpa using h3
    have c4 : countC ':' fhs = 0 := by simpa using h4
    have hcnt := classify_fields line fx fy ft fty fhs fex hs c0 c1 c2 c3 c4
    cases hty : readInt fty with
    | error e => rw [hty] at h5; simp at h5
    | ok ty =>
      rw [hty] at h5
      simp only [Bool.or_eq_true, Bool.and_eq_true, Bool.not_eq_true', decide_eq_true_eq] at h5
      rcases h5 with ⟨⟨b0, b7⟩, hl⟩ | ⟨⟨b0, b7⟩, hl⟩
      · have hIs : isHit line = true := by unfold isHit; rw [hl] at hcnt; simp [hcnt.1]; omega
        rw [hIs]
        exact ⟨readHit_eq_denote k hk line fx fy ft fty fhs fex ty hs hty c0 c1 c2 c3 c4 b0 hl, Or.inl rfl⟩
      · have hIs : isHit line = false := by unfold isHit; rw [hl] at hcnt; simp; omega
        have hIh : isHold line = true := by unfold isHold; rw [hl] at hcnt; simp [hcnt.1]; omega
        rw [hIs]
        exact ⟨readHold_eq_denote k hk line fx fy ft fty fhs fex ty hs hty c0 c1 c2 c3 c4 b0 b7 hl, Or.inr hIh⟩
  · simp at h

theorem readInt_one : readInt ['1'] = .ok 1 := by decide +kernel
theorem readInt_zero : readInt ['0'] = .ok 0 := by decide +kernel

/-- **timing lines, value level**: on every timing line of the dialect the reader as written (classify by the
literal field 6, then `OsuBpm.read_string` / `OsuSv.read_string`) equals the by-the-book denotation (uninherited flag
as a number, bpm = 60000 / beatLength, SV = −100 / beatLength, kiai = effects bit 0) — same values, same rejections -/
theorem readTiming_eq_denote (line : Str) (h : wfTimingLine line = true) :
    denoteTiming line =
      (if isTimingPoint line then (readBpm line).map (fun b => some (TPoint.bpm b))
       else (readSv line).map (fun b => some (TPoint.sv b))) ∧
    (isTimingPoint line = true ∨ isSliderVelocity line = true) := by
  unfold wfTimingLine at h
  split at h
  · next ft fb fm fss fsi fv fu ffx hs =>
    simp only [Bool.and_eq_true, Bool.or_eq_true, decide_eq_true_eq] at h
    obtain ⟨hu, hfx⟩ := h
    have b1 : bit 1 0 = true := by decide +kernel
    have b0 : bit 0 0 = false := by decide +kernel
    unfold denoteTiming isTimingPoint isSliderVelocity readBpm readSv isTimingPoint isSliderVelocity readBoolInt
    simp only [hs]
    rcases hu with rfl | rfl <;> rcases hfx with rfl | rfl <;>
      rcases readFloat_cases ft with ⟨v1, e1⟩ | e1 <;> rcases readFloat_cases fb with ⟨v2, e2⟩ | e2 <;>
      rcases readInt_cases fm with ⟨v3, e3⟩ | e3 <;> rcases readInt_cases fss with ⟨v4, e4⟩ | e4 <;>
      rcases readInt_cases fsi with ⟨v5, e5⟩ | e5 <;> rcases readInt_cases fv with ⟨v6, e6⟩ | e6 <;>
      simp [idx, readInt_one, readInt_zero, b1, b0, e1, e2, e3, e4, e5, e6, bind, Except.bind, pure, Except.pure,
        Except.map, bpmCode, svCode, throw, throwThe, MonadExceptOf.throw] <;>
      (try (by_cases hz : v2 = 0 <;> simp [hz, throw, throwThe, MonadExceptOf.throw]))
  · simp at h

/-! ### whole sections: the reader's filter-then-read = the denotation's read-then-sort, on lines of the dialect -/

theorem isTP_isSV_excl (l : Str) : ¬ (isTimingPoint l = true ∧ isSliderVelocity l = true) := by
  unfold isTimingPoint isSliderVelocity
  intro h
  simp only [Bool.and_eq_true, decide_eq_true_eq] at h
  have := h.1.2.symm.trans h.2.2
  revert this; decide +kernel

/-- **`[TimingPoints]`, text → chart**: if every line of the section is a timing line of the dialect and the
by-the-book denotation reads them all, then the reader as written (select by field 6, then read; scroll velocities and
tempo points separately) yields exactly the tempo points and the scroll velocities of the denotation, in file order -/
theorem timing_section_eq_denote (T : List Str) (hwf : ∀ l ∈ T, wfTimingLine l = true) (tps : List TPoint)
    (hd : filterMapE denoteTiming T = .ok tps) :
    mapE readBpm (T.filter isTimingPoint) = .ok (tps.filterMap tpBpm) ∧
    mapE readSv (T.filter isSliderVelocity) = .ok (tps.filterMap tpSv) := by
  induction T generalizing tps with
  | nil => simp [filterMapE] at hd; subst hd; exact ⟨rfl, rfl⟩
  | cons l t ih =>
    obtain ⟨heq, hcls⟩ := readTiming_eq_denote l (hwf l (by simp))
    unfold filterMapE at hd
    cases hdl : denoteTiming l with
    | error e => rw [hdl] at hd; simp at hd
    | ok o =>
      rw [hdl] at hd
      cases hrest : filterMapE denoteTiming t with
      | error e => rw [hrest] at hd; simp at hd
      | ok r =>
        rw [hrest] at hd
        simp only [Except.ok.injEq] at hd
        obtain ⟨i1, i2⟩ := ih (fun l' hl' => hwf l' (by simp [hl'])) r hrest
        rw [hdl] at heq
        by_cases htp : isTimingPoint l = true
        · have hsv : isSliderVelocity l = false := by
            cases h : isSliderVelocity l
            · rfl
            · exact absurd ⟨htp, h⟩ (isTP_isSV_excl l)
          rw [if_pos htp] at heq
          cases hb : readBpm l with
          | error e => rw [hb] at heq; simp [Except.map] at heq
          | ok b =>
            rw [hb] at heq; simp only [Except.map, Except.ok.injEq] at heq
            subst heq; subst hd
            simp only [List.filter_cons, htp, hsv, if_true, mapE, hb, i1, List.filterMap_cons, tpBpm, tpSv]
            exact ⟨trivial, i2⟩
        · have htp' : isTimingPoint l = false := by simpa using htp
          have hsv : isSliderVelocity l = true := by rcases hcls with h | h; exact absurd h htp; exact h
          rw [if_neg htp] at heq
          cases hb : readSv l with
          | error e => rw [hb] at heq; simp [Except.map] at heq
          | ok b =>
            rw [hb] at heq; simp only [Except.map, Except.ok.injEq] at heq
            subst heq; subst hd
            simp only [List.filter_cons, htp', hsv, if_true, mapE, hb, i2, List.filterMap_cons, tpBpm, tpSv]
            exact ⟨i1, trivial⟩

theorem isHit_isHold_excl (l : Str) : ¬ (isHit l = true ∧ isHold l = true) := by
  unfold isHit isHold
  intro h
  simp only [Bool.and_eq_true, decide_eq_true_eq] at h
  omega

/-- **`[HitObjects]`, text → chart, every key count ≥ 1**: if every line of the section is an object line of the
dialect and the by-the-book denotation (type bits, column by search) reads them all, then the reader as written
(classify by counting, positional read, hits and holds separately) yields exactly the hits and the holds of the
denotation, in file order -/
theorem objects_section_eq_denote (k : Int) (hk : 1 ≤ k) (O : List Str) (hwf : ∀ l ∈ O, wfObjLine l = true)
    (objs : List Obj) (hd : filterMapE (denoteObj k) O = .ok objs) :
    mapE (fun s => readHit s k) (O.filter isHit) = .ok (objs.filterMap objHit) ∧
    mapE (fun s => readHold s k) (O.filter isHold) = .ok (objs.filterMap objHold) := by
  induction O generalizing objs with
  | nil => simp [filterMapE] at hd; subst hd; exact ⟨rfl, rfl⟩
  | cons l t ih =>
    obtain ⟨heq, hcls⟩ := readObj_eq_denoteObj k hk l (hwf l (by simp))
    unfold filterMapE at hd
    cases hdl : denoteObj k l with
    | error e => rw [hdl] at hd; simp at hd
    | ok o =>
      rw [hdl] at hd
      cases hrest : filterMapE (denoteObj k) t with
      | error e => rw [hrest] at hd; simp at hd
      | ok r =>
        rw [hrest] at hd
        simp only [Except.ok.injEq] at hd
        obtain ⟨i1, i2⟩ := ih (fun l' hl' => hwf l' (by simp [hl'])) r hrest
        rw [hdl] at heq
        by_cases hh : isHit l = true
        · have hho : isHold l = false := by
            cases h : isHold l
            · rfl
            · exact absurd ⟨hh, h⟩ (isHit_isHold_excl l)
          rw [if_pos hh] at heq
          cases hb : readHit l k with
          | error e => rw [hb] at heq; simp [Except.map] at heq
          | ok b =>
            rw [hb] at heq; simp only [Except.map, Except.ok.injEq] at heq
            subst heq; subst hd
            simp only [List.filter_cons, hh, hho, if_true, mapE, hb, i1, List.filterMap_cons, objHit, objHold]
            exact ⟨trivial, i2⟩
        · have hh' : isHit l = false := by simpa using hh
          have hho : isHold l = true := by rcases hcls with h | h; exact absurd h hh; exact h
          rw [if_neg hh] at heq
          cases hb : readHold l k with
          | error e => rw [hb] at heq; simp [Except.map] at heq
          | ok b =>
            rw [hb] at heq; simp only [Except.map, Except.ok.injEq] at heq
            subst heq; subst hd
            simp only [List.filter_cons, hh', hho, if_true, mapE, hb, i2, List.filterMap_cons, objHit, objHold]
            exact ⟨i1, trivial⟩

end Reamber.Osu

namespace Reamber.Osu

/-! ### the converse: what the reader accepts, the denotation accepts, with the same result -/

theorem mapE_cons_ok {α β} (f : α → Except Err β) (a : α) (t : List α) (r : List β) (h : mapE f (a :: t) = .ok r) :
    ∃ b r', f a = .ok b ∧ mapE f t = .ok r' ∧ r = b :: r' := by
  rw [mapE] at h
  cases hfa : f a with
  | error e => rw [hfa] at h; simp at h
  | ok b =>
    rw [hfa] at h
    cases ht : mapE f t with
    | error e => rw [ht] at h; simp at h
    | ok r' =>
      rw [ht] at h
      simp only [Except.ok.injEq] at h
      exact ⟨b, r', rfl, rfl, h.symm⟩

theorem timing_section_denote_of_read (T : List Str) (hwf : ∀ l ∈ T, wfTimingLine l = true) (bs : List Bpm)
    (ss : List Sv) (hb : mapE readBpm (T.filter isTimingPoint) = .ok bs)
    (hs : mapE readSv (T.filter isSliderVelocity) = .ok ss) :
    ∃ tps, filterMapE denoteTiming T = .ok tps ∧ tps.filterMap tpBpm = bs ∧ tps.filterMap tpSv = ss := by
  induction T generalizing bs ss with
  | nil =>
    simp only [List.filter_nil, mapE, Except.ok.injEq] at hb hs
    exact ⟨[], rfl, by rw [← hb]; rfl, by rw [← hs]; rfl⟩
  | cons l t ih =>
    obtain ⟨heq, hcls⟩ := readTiming_eq_denote l (hwf l (by simp))
    have hwf' : ∀ l' ∈ t, wfTimingLine l' = true := fun l' hl' => hwf l' (by simp [hl'])
    by_cases htp : isTimingPoint l = true
    · have hsv : isSliderVelocity l = false := by
        cases h : isSliderVelocity l
        · rfl
        · exact absurd ⟨htp, h⟩ (isTP_isSV_excl l)
      simp only [List.filter_cons, htp, hsv, if_true, Bool.false_eq_true, if_false] at hb hs
      obtain ⟨b, bs', hb1, hb2, rfl⟩ := mapE_cons_ok _ _ _ _ hb
      obtain ⟨tps, h1, h2, h3⟩ := ih hwf' bs' ss hb2 hs
      rw [if_pos htp, hb1] at heq
      refine ⟨.bpm b :: tps, ?_, ?_, ?_⟩
      · rw [filterMapE, heq, h1]; rfl
      · rw [List.filterMap_cons]; show b :: _ = b :: _; rw [h2]
      · rw [List.filterMap_cons]; exact h3
    · have htp' : isTimingPoint l = false := by simpa using htp
      have hsv : isSliderVelocity l = true := by rcases hcls with h | h; exact absurd h htp; exact h
      simp only [List.filter_cons, htp', hsv, if_true, Bool.false_eq_true, if_false] at hb hs
      obtain ⟨b, ss', hs1, hs2, rfl⟩ := mapE_cons_ok _ _ _ _ hs
      obtain ⟨tps, h1, h2, h3⟩ := ih hwf' bs ss' hb hs2
      rw [if_neg htp, hs1] at heq
      refine ⟨.sv b :: tps, ?_, ?_, ?_⟩
      · rw [filterMapE, heq, h1]; rfl
      · rw [List.filterMap_cons]; exact h2
      · rw [List.filterMap_cons]; show b :: _ = b :: _; rw [h3]

theorem objects_section_denote_of_read (k : Int) (hk : 1 ≤ k) (O : List Str) (hwf : ∀ l ∈ O, wfObjLine l = true)
    (hs : List Hit) (ds : List Hold) (hh : mapE (fun s => readHit s k) (O.filter isHit) = .ok hs)
    (hd : mapE (fun s => readHold s k) (O.filter isHold) = .ok ds) :
    ∃ objs, filterMapE (denoteObj k) O = .ok objs ∧ objs.filterMap objHit = hs ∧ objs.filterMap objHold = ds := by
  induction O generalizing hs ds with
  | nil =>
    simp only [List.filter_nil, mapE, Except.ok.injEq] at hh hd
    exact ⟨[], rfl, by rw [← hh]; rfl, by rw [← hd]; rfl⟩
  | cons l t ih =>
    obtain ⟨heq, hcls⟩ := readObj_eq_denoteObj k hk l (hwf l (by simp))
    have hwf' : ∀ l' ∈ t, wfObjLine l' = true := fun l' hl' => hwf l' (by simp [hl'])
    by_cases hit : isHit l = true
    · have hho : isHold l = false := by
        cases h : isHold l
        · rfl
        · exact absurd ⟨hit, h⟩ (isHit_isHold_excl l)
      simp only [List.filter_cons, hit, hho, if_true, Bool.false_eq_true, if_false] at hh hd
      obtain ⟨b, hs', h1, h2, rfl⟩ := mapE_cons_ok _ _ _ _ hh
      obtain ⟨objs, g1, g2, g3⟩ := ih hwf' hs' ds h2 hd
      rw [if_pos hit, h1] at heq
      refine ⟨.hit b :: objs, ?_, ?_, ?_⟩
      · rw [filterMapE, heq, g1]; rfl
      · rw [List.filterMap_cons]; show b :: _ = b :: _; rw [g2]
      · rw [List.filterMap_cons]; exact g3
    · have hit' : isHit l = false := by simpa using hit
      have hho : isHold l = true := by rcases hcls with h | h; exact absurd h hit; exact h
      simp only [List.filter_cons, hit', hho, if_true, Bool.false_eq_true, if_false] at hh hd
      obtain ⟨b, ds', h1, h2, rfl⟩ := mapE_cons_ok _ _ _ _ hd
      obtain ⟨objs, g1, g2, g3⟩ := ih hwf' hs ds' hh h2
      rw [if_neg hit, h1] at heq
      refine ⟨.hold b :: objs, ?_, ?_, ?_⟩
      · rw [filterMapE, heq, g1]; rfl
      · rw [List.filterMap_cons]; exact g2
      · rw [List.filterMap_cons]; show b :: _ = b :: _; rw [g3]

end Reamber.Osu
