/-
C13 — StepMania, lifting to C03's whole-file theorem: everything `write_read_exact` asks of a chart and the measures
written for it (`C03.ChartWritten`) is preserved by a rate change `r > 0` — with the **same** written measures.
-/
import Reamber.Lemmas.RateSMWrite
import Reamber.Props.C03

namespace Reamber.Rate

open Reamber.Timing Reamber.SM Reamber.C03

theorem objEvent_rate {r : Rat} (hr : 0 < r) (t0 : Rat) (cs : List BcSnap) (hwf : wfChanges cs = true)
    (notes : List SM.Note) :
    (writeOrder (notes.map (rateNote r))).map (objEvent (beatAt (t0 / r) (cs.map (rateBc r))))
      = (writeOrder notes).map (objEvent (beatAt t0 cs)) := by
  rw [writeOrder_rate, List.map_map]
  apply List.map_congr_left
  intro o _
  simp only [Function.comp_def, objEvent, beatAt_rate hr t0 cs hwf]

theorem noteOfW_rate {r : Rat} (hr : 0 < r) (t0 : Rat) (cs : List BcSnap) (hwf : wfChanges cs = true)
    (notes : List SM.Note) :
    (notes.map (rateNote r)).map (noteOfW (beatAt (t0 / r) (cs.map (rateBc r)))) = notes.map (noteOfW (beatAt t0 cs)) := by
  rw [List.map_map]
  apply List.map_congr_left
  intro n _
  simp only [Function.comp_def, noteOfW, rateNote, ← add_div, beatAt_rate hr t0 cs hwf]

/-- the rows of a chart do not change under a rate change (the hypotheses actually used) -/
theorem writeChartRows_rate' {r : Rat} (hr : 0 < r) (t0 : Rat) (cs : List BcSnap)
    (hwf : wfChanges cs = true) (hs : sortedSnaps cs = true) (h0 : firstAtZero cs = true)
    (hgc : gridCompatible (grid defaultMaxDiv) cs = true) (hm : metronomeOk cs = true) (hM : ∀ x ∈ cs, x.met = 4)
    (c : WChart) (htm : toTimingMap c.bpms = tmOf t0 cs)
    (hts : ∀ t ∈ (writeOrder c.notes).map (·.1), OnGridAt (grid defaultMaxDiv) t0 cs t) :
    writeChartRows (rateW r c) = writeChartRows c := by
  have hb : beats defaultGrid (toTimingMap (rateW r c).bpms) ((writeOrder (rateW r c).notes).map (·.1))
      = beats defaultGrid (toTimingMap c.bpms) ((writeOrder c.notes).map (·.1)) := by
    have e1 : toTimingMap (rateW r c).bpms = (tmOf t0 cs).map (rateBcOff r) := by
      simp only [rateW, toTimingMap_rate, htm]
    have e2 : (writeOrder (rateW r c).notes).map (·.1) = ((writeOrder c.notes).map (·.1)).map (· / r) :=
      writeOrder_times_rate r c.notes
    rw [e1, e2, htm]
    exact beats_rate hr t0 cs hwf hs h0 hgc hm 4 hM _ hts
  simp only [writeChartRows]
  rw [hb]
  cases beats defaultGrid (toTimingMap c.bpms) ((writeOrder c.notes).map (·.1)) with
  | error e => rfl
  | ok bs =>
    simp only [bind, Except.bind]
    have : ((writeOrder (rateW r c).notes).zip bs).map (fun ob => slotOf ob.2 ob.1.2.1 ob.1.2.2)
        = ((writeOrder c.notes).zip bs).map (fun ob => slotOf ob.2 ob.1.2.1 ob.1.2.2) := by
      simp only [rateW, writeOrder_rate]
      exact zip_map_fst_slot (fun x => (x.1 / r, x.2)) (fun _ => rfl) (writeOrder c.notes) bs slotOf
    rw [this]
    rfl

/-- **`ChartWritten` is rate-invariant, with the same measures**: if `out` is what `SMMap.write` emits for `c` in
C03's domain for `(t0, cs)`, it is what it emits for the rated chart, in C03's domain for `(t0 / r, cs` with every
tempo `× r)`. -/
theorem chartWritten_rate {r : Rat} (hr : 0 < r) (t0 : Rat) (cs : List BcSnap)
    (hwf : wfChanges cs = true) (hs : sortedSnaps cs = true) (h0 : firstAtZero cs = true)
    (hgc : gridCompatible (grid defaultMaxDiv) cs = true) (hm : metronomeOk cs = true) (hM : ∀ x ∈ cs, x.met = 4)
    (c : WChart) (out : List (List Str)) (h : ChartWritten t0 cs c out) :
    ChartWritten (t0 / r) (cs.map (rateBc r)) (rateW r c) out := by
  obtain ⟨keys, hk, hk0, hne, hb, hts, hT, hE, hlen, hno, hw⟩ := h
  refine ⟨keys, hk, hk0, ?_, ?_, ?_, ?_, ?_, ?_, ?_, ?_⟩
  · simpa [rateW] using hne
  · simp only [rateW, toTimingMap_rate, hb, tmOf_rate]
  · intro t ht
    have e2 : (writeOrder (rateW r c).notes).map (·.1) = ((writeOrder c.notes).map (·.1)).map (· / r) :=
      writeOrder_times_rate r c.notes
    rw [e2, List.mem_map] at ht
    obtain ⟨t1, ht1, rfl⟩ := ht
    exact (onGridAt_rate hr _ t0 cs hwf t1).mpr (hts t1 ht1)
  · intro n hn
    simp only [rateW, List.mem_map] at hn
    obtain ⟨n0, hn0, rfl⟩ := hn
    obtain ⟨a, b⟩ := hT n0 hn0
    exact ⟨(le_div_iff_rate hr _ _).mpr a, div_nonneg b (le_of_lt hr)⟩
  · have : (writeOrder (rateW r c).notes).map (objEvent (beatAt (t0 / r) (cs.map (rateBc r))))
        = (writeOrder c.notes).map (objEvent (beatAt t0 cs)) := objEvent_rate hr t0 cs hwf c.notes
    rw [this]; exact hE
  · have : (rateW r c).notes.map (noteOfW (beatAt (t0 / r) (cs.map (rateBc r)))) = c.notes.map (noteOfW (beatAt t0 cs)) :=
      noteOfW_rate hr t0 cs hwf c.notes
    rw [this]; exact hlen
  · have : (rateW r c).notes.map (noteOfW (beatAt (t0 / r) (cs.map (rateBc r)))) = c.notes.map (noteOfW (beatAt t0 cs)) :=
      noteOfW_rate hr t0 cs hwf c.notes
    rw [this]; exact hno
  · rw [writeChartRows_rate' hr t0 cs hwf hs h0 hgc hm hM c hb hts]; exact hw

/-- a chart of the file with its measures and header parameters, rated -/
def rateL (r : Rat) (x : WChart × List (List Str) × (Str × Str × Str × Str × Str)) :
    WChart × List (List Str) × (Str × Str × Str × Str × Str) := (rateW r x.1, x.2.1, x.2.2)

theorem notesValue_rateL (r : Rat) (x : WChart × List (List Str) × (Str × Str × Str × Str × Str)) :
    notesValue (rateL r x) = notesValue x := rfl

theorem timedOfW_rate (r : Rat) (n : SM.Note) :
    timedOfW (rateNote r n) = ⟨n.kind, n.col, n.time / r, (timedOfW n).length / r⟩ := by
  simp only [timedOfW, rateNote]
  by_cases h : n.kind = .hold ∨ n.kind = .roll <;> simp [h]

end Reamber.Rate
