/-
C02 — pairing refinement: on well-bracketed columns the reader's tail logic (`holds[col][-1]` first, then
`rolls[col][-1]`) produces exactly the notes of the StepMania rule "a `3` closes the latest unclosed `2`/`4` of
its column" (`Spec/SM.lean: pairStep`).  Core Lean only.
-/
import Reamber.Lemmas.SMTimes

namespace Reamber.SM

open Reamber.Timing

/-- head of the most recent entry of column `col` if it is still open -/
def lastOpen (col : Nat) : List PLong → Option Snap
  | [] => none
  | p :: l => if p.col = col then (if p.tail.isNone then some p.head else none) else lastOpen col l

/-- only the most recent entry of a column may be open -/
def Tidy : List PLong → Prop
  | [] => True
  | p :: l => (∀ q ∈ l, q.col = p.col → q.tail.isSome = true) ∧ Tidy l

theorem closeLast_none {col : Nat} (t : Snap) {l : List PLong} (h : lastOpen col l = none) : closeLast col t l = none := by
  induction l with
  | nil => rfl
  | cons p r ih =>
    unfold lastOpen at h
    unfold closeLast
    by_cases hc : p.col = col
    · simp only [hc, if_true] at h ⊢
      by_cases ho : p.tail.isNone = true
      · simp [ho] at h
      · simp [ho]
    · simp only [hc, if_false] at h ⊢
      simp [ih h]

theorem all_closed_of_none {col : Nat} {l : List PLong} (ht : Tidy l) (h : lastOpen col l = none) :
    ∀ q ∈ l, q.col = col → q.tail.isSome = true := by
  induction l with
  | nil => intro q hq; cases hq
  | cons p r ih =>
    obtain ⟨hp, hr⟩ := ht
    unfold lastOpen at h
    intro q hq hqc
    by_cases hc : p.col = col
    · simp only [hc, if_true] at h
      rcases List.mem_cons.mp hq with rfl | hq
      · cases hqt : q.tail with
        | none => simp [hqt] at h
        | some v => rfl
      · exact hp q hq (by rw [hqc, hc])
    · simp only [hc, if_false] at h
      rcases List.mem_cons.mp hq with rfl | hq
      · exact absurd hqc hc
      · exact ih hr h q hq hqc

theorem longNotes_cons_open (k : Kind) (col : Nat) (sn : Snap) (l : List PLong) :
    longNotes k (⟨col, sn, none⟩ :: l) = longNotes k l := by
  simp [longNotes]

theorem closeLast_of_open (k : Kind) {col : Nat} (t : Snap) {l : List PLong} {h : Snap} (ho : lastOpen col l = some h) :
    ∃ l', closeLast col t l = some l' ∧ lastOpen col l' = none ∧ (∀ c, c ≠ col → lastOpen c l' = lastOpen c l) ∧
      (longNotes k l').Perm (⟨k, col, absBeat h, some (absBeat t)⟩ :: longNotes k l) ∧ (Tidy l → Tidy l') := by
  induction l with
  | nil => simp [lastOpen] at ho
  | cons p r ih =>
    unfold lastOpen at ho
    by_cases hc : p.col = col
    · simp only [hc, if_true] at ho
      by_cases hopen : p.tail.isNone = true
      · simp only [hopen, if_true, Option.some.injEq] at ho
        have hpt : p.tail = none := by simpa using hopen
        refine ⟨{ p with tail := some t } :: r, ?_, ?_, ?_, ?_, ?_⟩
        · simp [closeLast, hc, hopen]
        · simp [lastOpen, hc]
        · intro c hne
          have : ¬ p.col = c := by rw [hc]; exact fun e => hne e.symm
          simp [lastOpen, this]
        · simp [longNotes, hpt, ho, hc]
        · intro ht
          exact ⟨ht.1, ht.2⟩
      · simp [hopen] at ho
    · simp only [hc, if_false] at ho
      obtain ⟨r', h1, h2, h3, h4, h5⟩ := ih ho
      refine ⟨p :: r', ?_, ?_, ?_, ?_, ?_⟩
      · simp [closeLast, hc, h1]
      · simp [lastOpen, hc, h2]
      · intro c hne
        by_cases hpc : p.col = c
        · simp [lastOpen, hpc]
        · simp [lastOpen, hpc, h3 c hne]
      · cases hpt : p.tail with
        | none =>
          have e1 : longNotes k (p :: r') = longNotes k r' := by simp [longNotes, hpt]
          have e2 : longNotes k (p :: r) = longNotes k r := by simp [longNotes, hpt]
          rw [e1, e2]; exact h4
        | some v =>
          have e1 : longNotes k (p :: r') = ⟨k, p.col, absBeat p.head, some (absBeat v)⟩ :: longNotes k r' := by
            simp [longNotes, hpt]
          have e2 : longNotes k (p :: r) = ⟨k, p.col, absBeat p.head, some (absBeat v)⟩ :: longNotes k r := by
            simp [longNotes, hpt]
          rw [e1, e2]
          exact (List.Perm.cons _ h4).trans (List.Perm.swap _ _ _)
      · intro ht
        refine ⟨?_, h5 ht.2⟩
        intro q hq hqc
        rcases closeLast_mem h1 q hq with hq' | ⟨y, _, rfl⟩
        · exact ht.1 q hq' hqc
        · rfl

/-! ### the specification's `opened` table -/

theorem lookup_filter_ne (l : List (Nat × Kind × Rat)) (col c : Nat) :
    (l.filter (fun e => e.1 != col)).lookup c = if c = col then none else l.lookup c := by
  induction l with
  | nil => simp
  | cons a r ih =>
    obtain ⟨a1, a2⟩ := a
    by_cases ha : a1 = col
    · have hf : ((a1, a2) :: r).filter (fun e => e.1 != col) = r.filter (fun e => e.1 != col) := by
        simp [List.filter_cons, ha]
      rw [hf, ih]
      by_cases hc : c = col
      · simp [hc]
      · have hb : (c == a1) = false := by simp [ha, hc]
        simp only [hc, if_false, List.lookup_cons, hb]
    · have hf : ((a1, a2) :: r).filter (fun e => e.1 != col) = (a1, a2) :: r.filter (fun e => e.1 != col) := by
        simp [List.filter_cons, ha]
      rw [hf]
      by_cases hca : c = a1
      · have hc : ¬ c = col := by rw [hca]; exact ha
        have hb : (c == a1) = true := by simp [hca]
        simp only [List.lookup_cons, hb, hc, if_false]
      · have hb : (c == a1) = false := by simp [hca]
        simp only [List.lookup_cons, hb, ih]

theorem pairStep_ok_false (p : Pair) (c : Nat) (b : Rat) (s : Sym) (h : p.ok = false) : (pairStep p c b s).ok = false := by
  cases s with
  | tap k => simpa [pairStep] using h
  | head k =>
    simp only [pairStep]
    split <;> simp [h]
  | tail =>
    simp only [pairStep]
    split <;> simp [h]

/-- the specification's step for one visit of the reader's loop -/
def specStep (p : Pair) (e : Ev) : Pair :=
  match symOf e.ch with
  | some s => pairStep p e.col (absBeat e.pos) s
  | none => p

theorem specStep_ok_false (p : Pair) (e : Ev) (h : p.ok = false) : (specStep p e).ok = false := by
  unfold specStep
  split
  · exact pairStep_ok_false _ _ _ _ h
  · exact h

theorem foldl_specStep_ok (evs : List Ev) (p : Pair) (h : (evs.foldl specStep p).ok = true) : p.ok = true := by
  induction evs generalizing p with
  | nil => exact h
  | cons e t ih =>
    have := ih (specStep p e) h
    cases hp : p.ok with
    | true => rfl
    | false => rw [specStep_ok_false p e hp] at this; cases this

theorem pairAll_eq_foldl (evs : List Ev) (p : Pair) :
    (specEventsOf evs).foldl (fun p e => pairStep p e.1 e.2.1 e.2.2) p = evs.foldl specStep p := by
  induction evs generalizing p with
  | nil => rfl
  | cons e t ih =>
    unfold specEventsOf at ih ⊢
    simp only [List.filterMap_cons, List.foldl_cons]
    cases hs : symOf e.ch with
    | none => simp only [Option.map_none]; rw [ih]; simp [specStep, hs]
    | some s => simp only [Option.map_some, List.foldl_cons]; rw [ih]; simp [specStep, hs]

/-! ### the invariant -/

structure Rel (st : PState) (p : Pair) : Prop where
  ok : p.ok = true
  none_case : ∀ c, p.opened.lookup c = none → lastOpen c st.holds = none ∧ lastOpen c st.rolls = none
  some_case : ∀ c k b, p.opened.lookup c = some (k, b) →
    (k = .hold ∧ (∃ h, lastOpen c st.holds = some h ∧ absBeat h = b) ∧ lastOpen c st.rolls = none) ∨
    (k = .roll ∧ (∃ h, lastOpen c st.rolls = some h ∧ absBeat h = b) ∧ lastOpen c st.holds = none)
  tidyH : Tidy st.holds
  tidyR : Tidy st.rolls
  perm : p.notes.Perm (modelNotes st)

theorem modelNotes_seen (st : PState) (s : List Snap) : modelNotes { st with seen := s } = modelNotes st := rfl

theorem rel_seen {st : PState} {p : Pair} (s : List Snap) (h : Rel st p) : Rel { st with seen := s } p :=
  ⟨h.ok, h.none_case, h.some_case, h.tidyH, h.tidyR, h.perm⟩

theorem lookup_cons_eq (c : Nat) (v : Kind × Rat) (l : List (Nat × Kind × Rat)) (c' : Nat) :
    ((c, v) :: l).lookup c' = if c' = c then some v else l.lookup c' := by
  by_cases h : c' = c
  · simp [List.lookup_cons, h]
  · have : (c' == c) = false := by simp [h]
    simp [List.lookup_cons, this, h]

theorem rel_tap {st : PState} {p : Pair} (k : Kind) (col : Nat) (sn : Snap) (h : Rel st p) :
    Rel { st with seen := sn :: st.seen, taps := ⟨k, col, sn⟩ :: st.taps }
      { p with notes := ⟨k, col, absBeat sn, none⟩ :: p.notes } := by
  refine ⟨h.ok, h.none_case, h.some_case, h.tidyH, h.tidyR, ?_⟩
  simp only [modelNotes, List.map_cons, List.cons_append]
  exact List.Perm.cons _ h.perm

theorem rel_head_hold {st : PState} {p : Pair} (col : Nat) (sn : Snap) (h : Rel st p)
    (hl : p.opened.lookup col = none) :
    Rel { st with seen := sn :: st.seen, holds := ⟨col, sn, none⟩ :: st.holds }
      { p with opened := (col, .hold, absBeat sn) :: p.opened } := by
  obtain ⟨hnH, hnR⟩ := h.none_case col hl
  refine ⟨h.ok, ?_, ?_, ?_, h.tidyR, ?_⟩
  · intro c hc
    rw [lookup_cons_eq] at hc
    by_cases hcc : c = col
    · simp [hcc] at hc
    · simp only [hcc, if_false] at hc
      have hne : ¬ col = c := fun e => hcc e.symm
      simpa [lastOpen, hne] using h.none_case c hc
  · intro c k b hc
    rw [lookup_cons_eq] at hc
    by_cases hcc : c = col
    · subst hcc
      simp only [if_true, Option.some.injEq, Prod.mk.injEq] at hc
      obtain ⟨rfl, rfl⟩ := hc
      exact Or.inl ⟨rfl, ⟨sn, by simp [lastOpen], rfl⟩, hnR⟩
    · simp only [hcc, if_false] at hc
      have hne : ¬ col = c := fun e => hcc e.symm
      simpa [lastOpen, hne] using h.some_case c k b hc
  · exact ⟨all_closed_of_none h.tidyH hnH, h.tidyH⟩
  · simp only [modelNotes, longNotes_cons_open]
    exact h.perm

theorem rel_head_roll {st : PState} {p : Pair} (col : Nat) (sn : Snap) (h : Rel st p)
    (hl : p.opened.lookup col = none) :
    Rel { st with seen := sn :: st.seen, rolls := ⟨col, sn, none⟩ :: st.rolls }
      { p with opened := (col, .roll, absBeat sn) :: p.opened } := by
  obtain ⟨hnH, hnR⟩ := h.none_case col hl
  refine ⟨h.ok, ?_, ?_, h.tidyH, ?_, ?_⟩
  · intro c hc
    rw [lookup_cons_eq] at hc
    by_cases hcc : c = col
    · simp [hcc] at hc
    · simp only [hcc, if_false] at hc
      have hne : ¬ col = c := fun e => hcc e.symm
      simpa [lastOpen, hne] using h.none_case c hc
  · intro c k b hc
    rw [lookup_cons_eq] at hc
    by_cases hcc : c = col
    · subst hcc
      simp only [if_true, Option.some.injEq, Prod.mk.injEq] at hc
      obtain ⟨rfl, rfl⟩ := hc
      exact Or.inr ⟨rfl, ⟨sn, by simp [lastOpen], rfl⟩, hnH⟩
    · simp only [hcc, if_false] at hc
      have hne : ¬ col = c := fun e => hcc e.symm
      simpa [lastOpen, hne] using h.some_case c k b hc
  · exact ⟨all_closed_of_none h.tidyR hnR, h.tidyR⟩
  · simp only [modelNotes, longNotes_cons_open]
    exact h.perm

/-- the relation after a `3` that the specification pairs with the open head `(k, b)` of the column -/
theorem rel_tail {st : PState} {p : Pair} (col : Nat) (sn : Snap) (k : Kind) (b : Rat) (h : Rel st p)
    (hl : p.opened.lookup col = some (k, b)) :
    ∃ st', (match closeLast col sn st.holds with
        | some hs => (.ok { st with seen := sn :: st.seen, holds := hs } : Except Err PState)
        | none => match closeLast col sn st.rolls with
          | some rs => .ok { st with seen := sn :: st.seen, rolls := rs }
          | none => .error .index) = .ok st' ∧
      Rel st' { p with notes := ⟨k, col, b, some (absBeat sn)⟩ :: p.notes,
                       opened := p.opened.filter (fun e => e.1 != col) } := by
  have hnone : ∀ c, (p.opened.filter (fun e => e.1 != col)).lookup c = none →
      c = col ∨ p.opened.lookup c = none := by
    intro c hc
    rw [lookup_filter_ne] at hc
    by_cases hcc : c = col
    · exact Or.inl hcc
    · simp only [hcc, if_false] at hc; exact Or.inr hc
  have hsome : ∀ c k' b', (p.opened.filter (fun e => e.1 != col)).lookup c = some (k', b') →
      c ≠ col ∧ p.opened.lookup c = some (k', b') := by
    intro c k' b' hc
    rw [lookup_filter_ne] at hc
    by_cases hcc : c = col
    · simp [hcc] at hc
    · simp only [hcc, if_false] at hc; exact ⟨hcc, hc⟩
  rcases h.some_case col k b hl with ⟨rfl, ⟨hd, hho, hb⟩, hr⟩ | ⟨rfl, ⟨hd, hro, hb⟩, hhn⟩
  · obtain ⟨hs, h1, h2, h3, h4, h5⟩ := closeLast_of_open .hold sn hho
    refine ⟨{ st with seen := sn :: st.seen, holds := hs }, by simp [h1], h.ok, ?_, ?_, h5 h.tidyH, h.tidyR, ?_⟩
    · intro c hc
      rcases hnone c hc with rfl | hc'
      · exact ⟨h2, hr⟩
      · by_cases hcc : c = col
        · subst hcc; exact ⟨h2, hr⟩
        · exact ⟨by rw [h3 c hcc]; exact (h.none_case c hc').1, (h.none_case c hc').2⟩
    · intro c k' b' hc
      obtain ⟨hcc, hc'⟩ := hsome c k' b' hc
      have := h.some_case c k' b' hc'
      simpa [h3 c hcc] using this
    · simp only [modelNotes]
      rw [← hb]
      have e : (List.map (fun p => (⟨p.kind, p.col, absBeat p.pos, none⟩ : DNote)) st.taps ++ longNotes .hold hs ++
          longNotes .roll st.rolls).Perm
          ((⟨.hold, col, absBeat hd, some (absBeat sn)⟩ : DNote) ::
            (List.map (fun p => (⟨p.kind, p.col, absBeat p.pos, none⟩ : DNote)) st.taps ++ longNotes .hold st.holds ++
              longNotes .roll st.rolls)) := by
        have := (List.Perm.append_left (List.map (fun p => (⟨p.kind, p.col, absBeat p.pos, none⟩ : DNote)) st.taps) h4)
        have := List.Perm.append_right (longNotes .roll st.rolls) this
        refine this.trans ?_
        simp only [List.append_assoc, List.cons_append]
        exact List.perm_middle
      exact (List.Perm.cons _ h.perm).trans e.symm
  · obtain ⟨rs, h1, h2, h3, h4, h5⟩ := closeLast_of_open .roll sn hro
    refine ⟨{ st with seen := sn :: st.seen, rolls := rs }, by simp [closeLast_none sn hhn, h1], h.ok, ?_, ?_,
      h.tidyH, h5 h.tidyR, ?_⟩
    · intro c hc
      rcases hnone c hc with rfl | hc'
      · exact ⟨hhn, h2⟩
      · by_cases hcc : c = col
        · subst hcc; exact ⟨hhn, h2⟩
        · exact ⟨(h.none_case c hc').1, by rw [h3 c hcc]; exact (h.none_case c hc').2⟩
    · intro c k' b' hc
      obtain ⟨hcc, hc'⟩ := hsome c k' b' hc
      have := h.some_case c k' b' hc'
      simpa [h3 c hcc] using this
    · simp only [modelNotes]
      rw [← hb]
      have e : (List.map (fun p => (⟨p.kind, p.col, absBeat p.pos, none⟩ : DNote)) st.taps ++ longNotes .hold st.holds ++
          longNotes .roll rs).Perm
          ((⟨.roll, col, absBeat hd, some (absBeat sn)⟩ : DNote) ::
            (List.map (fun p => (⟨p.kind, p.col, absBeat p.pos, none⟩ : DNote)) st.taps ++ longNotes .hold st.holds ++
              longNotes .roll st.rolls)) := by
        have := (List.Perm.append_left (List.map (fun p => (⟨p.kind, p.col, absBeat p.pos, none⟩ : DNote)) st.taps ++
          longNotes .hold st.holds) h4)
        refine this.trans ?_
        exact List.perm_middle
      exact (List.Perm.cons _ h.perm).trans e.symm

/-- one visit: the reader's step and the specification's step stay related (columns below `MAX_KEYS`) -/
theorem charStep_rel {st : PState} {p : Pair} (e : Ev) (hcol : e.col < maxKeys) (h : Rel st p)
    (hok : (specStep p e).ok = true) : ∃ st', charStep st e.col e.ch e.pos = .ok st' ∧ Rel st' (specStep p e) := by
  obtain ⟨col, sn, ch⟩ := e
  simp only at hcol hok ⊢
  have hk : ¬ col ≥ maxKeys := Nat.not_le.mpr hcol
  by_cases h0 : ch = '0'
  · subst h0
    exact ⟨st, by simp [charStep], by simpa [specStep, symOf] using h⟩
  by_cases h1 : ch = '1'
  · subst h1
    exact ⟨{ st with seen := sn :: st.seen, taps := ⟨.hit, col, sn⟩ :: st.taps }, by simp [charStep, hitChar, hk],
      by simpa [specStep, symOf, pairStep] using rel_tap .hit col sn h⟩
  by_cases hM : ch = 'M'
  · subst hM
    exact ⟨{ st with seen := sn :: st.seen, taps := ⟨.mine, col, sn⟩ :: st.taps },
      by simp [charStep, hitChar, mineChar, hk],
      by simpa [specStep, symOf, pairStep] using rel_tap .mine col sn h⟩
  by_cases hL : ch = 'L'
  · subst hL
    exact ⟨{ st with seen := sn :: st.seen, taps := ⟨.lift, col, sn⟩ :: st.taps },
      by simp [charStep, hitChar, mineChar, holdHeadChar, rollHeadChar, rollTailChar, liftChar, hk],
      by simpa [specStep, symOf, pairStep] using rel_tap .lift col sn h⟩
  by_cases hF : ch = 'F'
  · subst hF
    exact ⟨{ st with seen := sn :: st.seen, taps := ⟨.fake, col, sn⟩ :: st.taps },
      by simp [charStep, hitChar, mineChar, holdHeadChar, rollHeadChar, rollTailChar, liftChar, fakeChar, hk],
      by simpa [specStep, symOf, pairStep] using rel_tap .fake col sn h⟩
  by_cases hK : ch = 'K'
  · subst hK
    exact ⟨{ st with seen := sn :: st.seen, taps := ⟨.keysound, col, sn⟩ :: st.taps },
      by simp [charStep, hitChar, mineChar, holdHeadChar, rollHeadChar, rollTailChar, liftChar, fakeChar, keysoundChar, hk],
      by simpa [specStep, symOf, pairStep] using rel_tap .keysound col sn h⟩
  by_cases h2 : ch = '2'
  · subst h2
    cases hl : p.opened.lookup col with
    | some v => simp [specStep, symOf, pairStep, hl] at hok
    | none =>
      exact ⟨{ st with seen := sn :: st.seen, holds := ⟨col, sn, none⟩ :: st.holds },
        by simp [charStep, hitChar, mineChar, holdHeadChar, hk],
        by simpa [specStep, symOf, pairStep, hl] using rel_head_hold col sn h hl⟩
  by_cases h4 : ch = '4'
  · subst h4
    cases hl : p.opened.lookup col with
    | some v => simp [specStep, symOf, pairStep, hl] at hok
    | none =>
      exact ⟨{ st with seen := sn :: st.seen, rolls := ⟨col, sn, none⟩ :: st.rolls },
        by simp [charStep, hitChar, mineChar, holdHeadChar, rollHeadChar, hk],
        by simpa [specStep, symOf, pairStep, hl] using rel_head_roll col sn h hl⟩
  by_cases h3 : ch = '3'
  · subst h3
    cases hl : p.opened.lookup col with
    | none => simp [specStep, symOf, pairStep, hl] at hok
    | some v =>
      obtain ⟨k, b⟩ := v
      obtain ⟨st', hst, hrel⟩ := rel_tail col sn k b h hl
      refine ⟨st', ?_, by simpa [specStep, symOf, pairStep, hl] using hrel⟩
      rw [← hst]
      simp only [charStep, hitChar, mineChar, holdHeadChar, rollHeadChar, rollTailChar, hk, if_false,
        show ¬ ('3' : Char) = '0' by decide, show ¬ ('3' : Char) = '1' by decide, show ¬ ('3' : Char) = 'M' by decide,
        show ¬ ('3' : Char) = '2' by decide, show ¬ ('3' : Char) = '4' by decide, if_true]
      cases closeLast col sn st.holds with
      | some hs => rfl
      | none => cases closeLast col sn st.rolls <;> rfl
  · refine ⟨{ st with seen := sn :: st.seen }, ?_, ?_⟩
    · simp [charStep, hitChar, mineChar, holdHeadChar, rollHeadChar, rollTailChar, liftChar, fakeChar, keysoundChar,
        h0, h1, hM, hL, hF, hK, h2, h4, h3]
    · have : symOf ch = none := by simp [symOf, h1, h2, h3, h4, hM, hL, hF, hK]
      simpa [specStep, this] using rel_seen (sn :: st.seen) h

theorem runEvents_rel (evs : List Ev) (st : PState) (p : Pair) (hcol : ∀ e ∈ evs, e.col < maxKeys) (h : Rel st p)
    (hok : (evs.foldl specStep p).ok = true) :
    ∃ st', runEvents evs st = .ok st' ∧ Rel st' (evs.foldl specStep p) := by
  induction evs generalizing st p with
  | nil => exact ⟨st, rfl, h⟩
  | cons e t ih =>
    simp only [List.foldl_cons] at hok ⊢
    have hok1 : (specStep p e).ok = true := foldl_specStep_ok t _ hok
    obtain ⟨st1, hs1, hr1⟩ := charStep_rel e (hcol e (by simp)) h hok1
    obtain ⟨st', hs', hr'⟩ := ih st1 (specStep p e) (fun e' he' => hcol e' (List.mem_cons_of_mem _ he')) hr1 hok
    refine ⟨st', ?_, hr'⟩
    simp only [runEvents, foldlE, hs1]
    exact hs'

theorem rel_init : Rel {} {} :=
  ⟨rfl, fun _ _ => ⟨rfl, rfl⟩, fun c k b h => by simp at h, trivial, trivial, by simp [modelNotes, longNotes]⟩

/-- **Pairing refinement.**  For every sequence of loop visits whose columns are below `MAX_KEYS`: if the
StepMania rule ("a `3` closes the latest unclosed `2`/`4` of its column"; `pairAll`) never sees a tail without an
open head nor a head opened over an open one (`ok`), and leaves no head open, then the reader's loop (`holds[col][-1]`
first, then `rolls[col][-1]`) does not raise, closes every head, and produces exactly the same notes
(kinds, columns, head and tail positions) — as multisets. -/
theorem pairing_spec (evs : List Ev) (hcol : ∀ e ∈ evs, e.col < maxKeys)
    (hok : (pairAll (specEventsOf evs)).ok = true) (hclosed : (pairAll (specEventsOf evs)).opened = []) :
    ∃ st, runEvents evs {} = .ok st ∧
      (∀ p ∈ st.holds, p.tail.isSome = true) ∧ (∀ p ∈ st.rolls, p.tail.isSome = true) ∧
      (pairAll (specEventsOf evs)).notes.Perm (modelNotes st) := by
  have e : pairAll (specEventsOf evs) = evs.foldl specStep {} := by
    unfold pairAll
    exact pairAll_eq_foldl evs {}
  rw [e] at hok hclosed ⊢
  obtain ⟨st, hs, hr⟩ := runEvents_rel evs {} {} hcol rel_init hok
  refine ⟨st, hs, ?_, ?_, hr.perm⟩
  · intro q hq
    have hn := hr.none_case q.col (by rw [hclosed]; rfl)
    exact all_closed_of_none hr.tidyH hn.1 q hq rfl
  · intro q hq
    have hn := hr.none_case q.col (by rw [hclosed]; rfl)
    exact all_closed_of_none hr.tidyR hn.2 q hq rfl

end Reamber.SM
