/-
C13 — BMS: the rated chart as C05's writer sees it, and the parts of `bms_write_read`'s domain that a rate change
`r > 0` preserves by itself (the tempo list, the permutation of the tempo rows, `BmsOk`).
-/
import Reamber.Lemmas.RateSM
import Reamber.Props.C05

namespace Reamber.Rate

open Reamber.Timing Reamber.BMS Reamber.PermInv

/-- the rated BMS chart (`Map.rate`: every offset and hold end divided by `r`, every tempo multiplied by `r`; BMS has no
file-level time field) -/
def rateB (r : Rat) (c : BMS.WChart) : BMS.WChart :=
  { c with
    bpms := c.bpms.map (rateBcOff r),
    hits := c.hits.map (fun h => { h with offset := h.offset / r }),
    holds := c.holds.map (fun h => { h with offset := h.offset / r, tail := h.tail / r }) }

theorem strictSnaps_rate (r : Rat) : ∀ cs : List BcSnap, strictSnaps (cs.map (rateBc r)) = strictSnaps cs
  | [] => rfl
  | [_] => rfl
  | a :: b :: rest => by
    have := strictSnaps_rate r (b :: rest)
    simp only [List.map_cons, strictSnaps] at this ⊢
    rw [this]; rfl

/-- the first tempo point stays at time 0 (BMS has no file offset: D35) -/
theorem tmOf_zero_rate (r : Rat) (cs : List BcSnap) :
    tmOf 0 (cs.map (rateBc r)) = (tmOf 0 cs).map (rateBcOff r) := by
  have := tmOf_rate r 0 cs
  simpa using this

theorem bpms_perm_rate (r : Rat) (c : BMS.WChart) (cs : List BcSnap) (hp : c.bpms.Perm (tmOf 0 cs)) :
    (rateB r c).bpms.Perm (tmOf 0 (cs.map (rateBc r))) := by
  rw [tmOf_zero_rate]
  exact hp.map _

theorem bmsOk_rate {r : Rat} (hr : 0 < r) (cs : List BcSnap) (lay : Layout) (c : BMS.WChart) (h : BmsOk cs lay c) :
    BmsOk (cs.map (rateBc r)) lay (rateB r c) where
  met := by
    intro b hb
    simp only [rateB, List.mem_map] at hb
    obtain ⟨b0, hb0, rfl⟩ := hb
    exact h.met b0 hb0
  cols := by
    refine ⟨?_, ?_⟩
    · intro x hx
      simp only [rateB, List.mem_map] at hx
      obtain ⟨x0, hx0, rfl⟩ := hx
      exact h.cols.1 x0 hx0
    · intro x hx
      simp only [rateB, List.mem_map] at hx
      obtain ⟨x0, hx0, rfl⟩ := hx
      exact h.cols.2 x0 hx0
  times := by
    refine ⟨?_, ?_, ?_⟩
    · intro x hx
      simp only [rateB, List.mem_map] at hx
      obtain ⟨x0, hx0, rfl⟩ := hx
      exact div_nonneg (h.times.1 x0 hx0) (le_of_lt hr)
    · intro x hx
      simp only [rateB, List.mem_map] at hx
      obtain ⟨x0, hx0, rfl⟩ := hx
      exact ⟨div_nonneg (h.times.2.1 x0 hx0).1 (le_of_lt hr), div_nonneg (h.times.2.1 x0 hx0).2 (le_of_lt hr)⟩
    · intro x hx
      simp only [rateB, List.mem_map] at hx
      obtain ⟨x0, hx0, rfl⟩ := hx
      exact div_nonneg (h.times.2.2 x0 hx0) (le_of_lt hr)
  met4 := by
    intro x hx
    obtain ⟨x0, hx0, rfl⟩ := List.mem_map.mp hx
    exact h.met4 x0 hx0

theorem headerOK_rate {r : Rat} (hr : 0 < r) (c : BMS.WChart) (h : HeaderOK c) : HeaderOK (rateB r c) where
  misc := h.misc
  samples := h.samples
  lnEnd := h.lnEnd
  nbpm := by simpa [rateB] using h.nbpm
  bpmpos := by
    intro b hb
    simp only [rateB, List.mem_map] at hb
    obtain ⟨b0, hb0, rfl⟩ := hb
    exact mul_nonneg (h.bpmpos b0 hb0) (le_of_lt hr)

end Reamber.Rate
