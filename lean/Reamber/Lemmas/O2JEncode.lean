/-
C07, characterisation of `Spec.wellFormed` from below: a by-the-book OJN *encoder* from an abstract chart
(`AHeader` — every header field as a value, texts as byte lists; three difficulties of abstract packages `APkg` — note
packages per measure and column with empty / hit / long-note head / long-note tail slots, tempo packages per measure
with float32 slots; trailing bytes such as the cover image) and what the specification makes of its output:

* `specMeta_encodeChart`   the header attributes are the abstract header's (package counts = the difficulties' sizes);
* `frameLevels_encodeChart` the body frames back into exactly the abstract packages;
* `wellFormed_encodeChart`  every encoded valid chart is `wellFormed`;
* `specSet_encodeChart`     `specSet` of the bytes is the chart's timeline `aTimeline`, computed from the abstract chart
                            alone (positions measure + i/n, `pairFrom`, `posTime`), no bytes involved.
`Props/C07.lean` composes this with `read_spec` into the round trip of the reader.
-/
import Reamber.Lemmas.O2JEncHeader
import Reamber.Lemmas.O2JEncBody

namespace Reamber.O2J

open Reamber.O2J.Spec

/-- an abstract chart set: header, the difficulties' packages in file order, trailing bytes -/
structure AChart where
  header : AHeader
  levels : List (List APkg)
  trailing : List Nat

def AChart.counts (c : AChart) : List Int := c.levels.map (fun l => (l.length : Int))

def AChart.raw (c : AChart) : List (List RawPkg) := c.levels.map (fun l => l.map APkg.toRaw)

/-- the .ojn file of an abstract chart: 300 header bytes (package counts = sizes of the difficulties), the packages of
the three difficulties one after the other, then the trailing bytes -/
def encodeChart (c : AChart) : List Nat :=
  encodeHeader c.header c.counts ++ (c.raw.flatMap encodePkgs ++ c.trailing)

/-- a chart the format can hold and the property speaks about: header fields in range, three difficulties of fewer
than 2^31 packages, every package in range (measure int32, column 0..6, < 2^15 slots, volume/pan nibbles, tempo floats
finite and non-zero), header tempo the finite non-zero `q`, long notes well nested inside each difficulty -/
structure AChart.Valid (c : AChart) (q : Rat) : Prop where
  header : c.header.Valid
  three : c.levels.length = 3
  sizes : ∀ l ∈ c.levels, (l.length : Int) < 2 ^ 31
  pkgs : ∀ l ∈ c.levels, ∀ p ∈ l, p.Valid
  tempo : c.header.bpm.val = .fin q
  tempo_ne : q ≠ 0
  paired : ∀ l ∈ c.levels, ∃ ns, pairFrom [] (l.flatMap aSlots) = .ok ns
  closed : ∀ l ∈ c.levels, closedB (l.flatMap aSlots) = true

/-- the timeline of an abstract chart — no bytes involved: header attributes as values, per difficulty the paired
notes and the tempo points at the integrated times of their positions (`aLevel`) -/
def aTimeline (q : Rat) (c : AChart) : Except Err FileOut := do
  let outs ← mapE (aLevel q) c.levels
  .ok ⟨headerAttrs c.header c.counts, outs⟩

theorem counts_length (c : AChart) : c.counts.length = c.levels.length := by simp [AChart.counts]

theorem counts_range (c : AChart) (q : Rat) (hv : c.Valid q) : ∀ n ∈ c.counts, -2 ^ 31 ≤ n ∧ n < 2 ^ 31 := by
  intro n hn
  simp only [AChart.counts, List.mem_map] at hn
  obtain ⟨l, hl, rfl⟩ := hn
  have := hv.sizes l hl
  omega

theorem specMeta_encodeChart (c : AChart) (q : Rat) (hv : c.Valid q) :
    specMeta (encodeChart c) = .ok (headerAttrs c.header c.counts) :=
  specMeta_encodeHeader c.header c.counts _ hv.header (by rw [counts_length, hv.three]) (counts_range c q hv)

theorem raw_counts (c : AChart) : c.raw.map (fun l => (l.length : Int)) = c.counts := by
  simp [AChart.raw, AChart.counts, List.map_map, Function.comp_def]

theorem raw_wf (c : AChart) (q : Rat) (hv : c.Valid q) : ∀ l ∈ c.raw, ∀ p ∈ l, WfRaw p := by
  intro l hl p hp
  simp only [AChart.raw, List.mem_map] at hl
  obtain ⟨l0, hl0, rfl⟩ := hl
  simp only [List.mem_map] at hp
  obtain ⟨p0, hp0, rfl⟩ := hp
  exact toRaw_wf p0 (hv.pkgs l0 hl0 p0 hp0)

theorem drop_encodeChart (c : AChart) (q : Rat) (hv : c.Valid q) :
    (encodeChart c).drop headerSize = c.raw.flatMap encodePkgs ++ c.trailing := by
  unfold encodeChart
  exact List.drop_left' (encodeHeader_length c.header c.counts hv.header (by rw [counts_length, hv.three]))

/-- the body of the file frames back into exactly the abstract packages of the three difficulties -/
theorem frameLevels_encodeChart (c : AChart) (q : Rat) (hv : c.Valid q) :
    frameLevels c.counts ((encodeChart c).drop headerSize) = some c.raw := by
  rw [drop_encodeChart c q hv, ← raw_counts]
  exact frameLevels_encode c.raw c.trailing (raw_wf c q hv)

theorem wfLevel_raw (c : AChart) (q : Rat) (hv : c.Valid q) : c.raw.all wfLevel = true := by
  rw [List.all_eq_true]
  intro l hl
  simp only [AChart.raw, List.mem_map] at hl
  obtain ⟨l0, hl0, rfl⟩ := hl
  exact wfLevel_toRaw l0 (hv.pkgs l0 hl0) (hv.paired l0 hl0) (hv.closed l0 hl0)

/-- **every encoded valid chart is well-formed** — `Spec.wellFormed` (the hypothesis of `read_spec`) holds for the
output of the by-the-book encoder on every valid abstract chart: any header values, any three difficulties, any number
of packages, slot counts, tempo events anywhere, long notes across packages and measures, any trailing bytes -/
theorem wellFormed_encodeChart (c : AChart) (q : Rat) (hv : c.Valid q) : wellFormed (encodeChart c) = true := by
  unfold wellFormed
  rw [specMeta_encodeChart c q hv]
  simp only [packageCounts_headerAttrs, frameLevels_encodeChart c q hv,
    headerTempo_headerAttrs c.header c.counts q hv.tempo]
  simp [hv.tempo_ne, wfLevel_raw c q hv]

theorem mapE_specLevel_raw (c : AChart) (q : Rat) (hv : c.Valid q) :
    mapE (specLevel q) c.raw = mapE (aLevel q) c.levels := by
  unfold AChart.raw
  rw [mapE_map]
  exact mapE_congr _ _ _ (fun l hl => specLevel_toRaw q l (hv.pkgs l hl))

/-- **what the specification makes of an encoded chart is the chart's own timeline** -/
theorem specSet_encodeChart (c : AChart) (q : Rat) (hv : c.Valid q) : specSet (encodeChart c) = aTimeline q c := by
  unfold specSet aTimeline
  rw [specMeta_encodeChart c q hv]
  simp only [bind, Except.bind, packageCounts_headerAttrs, frameLevels_encodeChart c q hv,
    headerTempo_headerAttrs c.header c.counts q hv.tempo, mapE_specLevel_raw c q hv]

/-- the timeline of a valid chart exists (long notes are well nested) and has one level per difficulty -/
theorem aTimeline_ok (c : AChart) (q : Rat) (hv : c.Valid q) :
    ∃ outs, aTimeline q c = .ok ⟨headerAttrs c.header c.counts, outs⟩ ∧ outs.length = 3 := by
  have hall : ∀ (ls : List (List APkg)), (∀ l ∈ ls, ∃ ns, pairFrom [] (l.flatMap aSlots) = .ok ns) →
      ∃ r, mapE (aLevel q) ls = .ok r ∧ r.length = ls.length := by
    intro ls
    induction ls with
    | nil => intro _; exact ⟨[], rfl, rfl⟩
    | cons l rest ih =>
      intro h
      obtain ⟨ns, hns⟩ := h l (by simp)
      obtain ⟨r, hr, hlen⟩ := ih (fun x hx => h x (by simp [hx]))
      have ⟨o, ho⟩ : ∃ o, aLevel q l = .ok o := by
        unfold aLevel
        rw [hns]
        exact ⟨_, rfl⟩
      refine ⟨o :: r, ?_, by simp [hlen]⟩
      simp only [mapE, ho, hr, bind, Except.bind]
  obtain ⟨r, hr, hlen⟩ := hall c.levels hv.paired
  exact ⟨r, by simp [aTimeline, hr, bind, Except.bind], by rw [hlen, hv.three]⟩

/-- a header tempo given by float32 bit fields with exponent < 255 and not all-zero is a finite non-zero tempo -/
theorem header_tempo_of_bits (h : AHeader) (hs : h.bpm.s < 2) (he : h.bpm.e < 255) (hnz : h.bpm.e ≠ 0 ∨ h.bpm.m ≠ 0) :
    h.bpm.val = .fin (tempoVal h.bpm.s h.bpm.e h.bpm.m) ∧ tempoVal h.bpm.s h.bpm.e h.bpm.m ≠ 0 :=
  ⟨f32OfParts_fin _ _ _ he, tempoVal_ne_zero _ _ _ hs he hnz⟩

end Reamber.O2J
